#!/bin/bash
# usage: tools/try_mutant_wt.sh <worktree> <n> <PROP> [tier] — like try_mutant.sh, but the change is applied in the scratch worktree
# and the check is pointed at it (QATS_REPO / PYTHONPATH), so /repo stays untouched (several can run side by side).
wt=$1; n=$2; prop=$3; tier=${4:-quick}
cd "$wt" || exit 2
git checkout -q -- . ; 
(PYTHONPATH=$wt /venv/bin/python -W ignore mutants/m${n}_demo.py >/dev/null 2>&1); echo "demo on clean tree: rc=$?"
git apply mutants/m$n.diff || { echo "patch does not apply"; exit 2; }
(PYTHONPATH=$wt /venv/bin/python -W ignore mutants/m${n}_demo.py >/dev/null 2>&1); echo "demo with mutant:    rc=$?"
cp /verif/evidence/$prop.json /tmp/evidence_$prop.$$.json 2>/dev/null
(cd /verif && QATS_REPO=$wt PYTHONPATH=$wt ./check "$prop" "$tier" 2>&1 | grep -E "^(OK|VIOLATION|INFRA)" | cut -c1-200)
cp /tmp/evidence_$prop.$$.json /verif/evidence/$prop.json 2>/dev/null; rm -f /tmp/evidence_$prop.$$.json
git checkout -q -- .
