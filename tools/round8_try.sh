#!/bin/bash
# usage: tools/round4_try.sh <PROP> [tier]  — runs the three round-7 changes of /tmp/wt8_<PROP> through the check, one after the other
# (serialised over all properties with a lock: the generated formulas and the lake build directory are shared)
prop=$1; tier=${2:-quick}; wt=/tmp/wt8_$prop
exec 9>/tmp/r8.lock; flock 9
for n in 1 2; do
  [ -f $wt/mutants/m$n.diff ] || { echo "$prop m$n: no diff"; continue; }
  echo "== $prop m$n: $(python3 -c "import json;print(json.load(open('$wt/mutants/m${n}_meta.json')).get('summary','')[:300])" 2>/dev/null)"
  /verif/tools/try_mutant_wt.sh $wt $n $prop $tier 2>&1 | grep -v WARNING
done
(cd /verif && /venv/bin/python -m harness.translate >/dev/null 2>&1)
