#!/usr/bin/env python3
"""tools/mk_mutant_prompt6.py <PID> <worktree>  — round-6 prompt: cooperating sites, fault points, second use"""
import subprocess, sys
pid, wt = sys.argv[1], sys.argv[2]
base = subprocess.run([sys.executable, "/verif/tools/mk_mutant_prompt4.py", pid, wt], capture_output=True, text=True).stdout
focus = ("\nFOCUS FOR THIS ROUND (five rounds of single-site changes have been tried; do something structurally different):\n"
         "* change 1 — TWO COOPERATING SITES: edit two different functions (ideally in two different files under qats/) such that each edit alone "
         "leaves the property intact (say in the meta file why each is harmless alone) and only the pair breaks it;\n"
         "* change 2 — A FAULT POINT: a change that is invisible as long as every call succeeds, and breaks the property only after some call "
         "raised or was rejected part-way (invalid argument, missing file, out-of-range window, failed import …) and the same objects are used again;\n"
         "* change 3 — SECOND USE / SHARED STATE: module-level or instance-level state (caches, default arguments, class attributes, arrays shared "
         "between objects or with the caller) that makes the second call, the second object, or a call with a different-but-equal argument "
         "spelling (int vs float, list vs tuple vs ndarray, keyword vs positional, numpy scalar vs Python number) behave differently.\n"
         "Each change must still break the property as stated above through public entry points, on otherwise ordinary inputs.\n")
sys.stdout.write(base + focus)
