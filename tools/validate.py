#!/usr/bin/env python3
"""python3-vt tools/validate.py — schema-validates MANIFEST.json and every evidence file."""
import glob, json, sys
import jsonschema
ok = True
jsonschema.validate(json.load(open('MANIFEST.json')), json.load(open('/root/.vp/MANIFEST.schema.json')))
es = json.load(open('/root/.vp/EVIDENCE.schema.json'))
for f in sorted(glob.glob('evidence/*.json')):
    try:
        jsonschema.validate(json.load(open(f)), es)
    except jsonschema.ValidationError as e:
        ok = False
        print("INVALID", f, e.message)
print("manifest ok; evidence", "ok" if ok else "has invalid files")
sys.exit(0 if ok else 1)
