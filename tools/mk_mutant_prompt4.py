#!/usr/bin/env python3
"""tools/mk_mutant_prompt4.py <PID> <worktree>  — round-4 prompt for a seeded-change sub-agent (gets only the property text)"""
import json, sys
pid, wt = sys.argv[1], sys.argv[2]
hints = dict(l.strip().split("|") for l in open('/verif/tools/prompts/test_hints.txt') if "|" in l)
hint = hints.get(pid, "test/")
p = [json.loads(l) for l in open('/verif/properties.jsonl')]
p = [x for x in p if x['id'] == pid][0]
tmpl = open('/verif/tools/prompts/mutant_template_C01.txt').read()
head, rest = tmpl.split("-----\n", 1)
_, tail = rest.split("-----\n", 1)
body = "%s — %s\n\n%s\n\nQuantified over: %s\n" % (pid, p['title'], p['statement'], p['quantifier']['text'])
out = head + "-----\n" + body + "-----\n" + tail
out = out.replace("/tmp/wt2_C01", wt).replace("test/test_tsdb.py test/test_readers.py test/test_io.py", hint)
out = out.replace("A first round of such changes has already been tried by other people and the obvious ones",
                  "Several rounds of such changes have already been tried by other people and the obvious ones")
out = out.replace("Look for subtler ones:", "Changes to the most central statement (the main comparison, the main loop) "
                  "have been tried many times; spread your three changes over DIFFERENT mechanisms, entry points and files that the property covers, "
                  "including the less visited ones (helper functions, alternative constructors, wrappers in qats/ts.py, qats/tsdb.py, qats/app/funcs.py, "
                  "qats/cli.py, format-specific readers/writers, option handling). Good changes need something specific to manifest: a particular "
                  "interleaving or order of calls, a fault or exception at a particular point followed by further use of the same object, a multi-step "
                  "sequence of operations, an unusual but valid input, or two cooperating sites that each look fine alone. Look for subtler ones:")
if pid == "C19":
    out += ("\nNote for this property: the GUI can be driven without a display: set QT_QPA_PLATFORM=offscreen, create QApplication([]) and "
            "qats.app.gui.Qats(); replace `w.threadpool` by an object whose start(worker) stores the worker, then call worker.run() in the order "
            "you choose (signals are delivered synchronously). Set w.settings_file to a temp path first. The demonstration may do exactly that.\n")
sys.stdout.write(out)
