#!/usr/bin/env python3
"""Regenerates MANIFEST.json from the table below (kept in one place so it is always schema-valid)."""
import json
import os

HERE = os.path.dirname(os.path.dirname(os.path.abspath(__file__)))

TB = ("Trusted: Lean 4.33 kernel (+leanchecker in the thorough tier), Mathlib v4.33.0, axioms propext/Classical.choice/Quot.sound "
      "only (audited per theorem each run; no sorry/native_decide/bv_decide/own axioms); the tie (correspondence harness and/or "
      "formula translator) is differential testing whose coverage is reported in the evidence; Python/numpy/scipy semantics and "
      "floating-point rounding are modelled, not verified. ")

CHECKS = {
    "C02": dict(
        technique="Lean 4 proof (induction over the ASTM stack machine, any ordered field; three-point rule re-proved against the expressions regenerated from rainflow.cycles by the translator) + exact Rat correspondence",
        text="Theorems for all finite sequences over any linearly ordered field: conservation 2*full+half = points-1, strict "
             "alternation of counted points, largest range = span, counts in {1, 1/2}, table = sorted permutation of the cycles, "
             "empty table when nothing is counted. The model is the three-point procedure itself; its step is proved equal to the one "
             "written with the expressions for X, Y and the mean regenerated from rainflow.cycles on every run (reduce_is_source, "
             "leftovers_is_source), and it is tied to "
             "rainflow.reversals/cycles/count_cycles and TimeSeries.rfc by exact (Rat) correspondence on every run.",
        note=TB + "Modelled: generator/deque control flow of reversals()/cycles(), two-key sort of count_cycles. Float range ties are outside the theorems.",
        ref="4/C02"),
    "C03": dict(
        technique="Lean 4 proof (affine equivariance, refinement invariance, recount) + exact Rat correspondence + metamorphic search",
        text="Theorems over any ordered field: counting a*x+b maps every cycle to (|a| r, a m + b) with the same count and order of "
             "extraction; inserting repeated / in-between samples leaves the counted points unchanged (inductive Refines relation, "
             "any number of insertions); counting the turning points with end points reproduces the table; find_reversals equals "
             "reversals on plateau-free signals, and for EVERY signal (plateaus allowed) whose first and last extracted values are its "
             "first and last turning point the recount from find_reversals with end points reproduces the count "
             "(find_reversals_keeps_turning_points, find_reversals_spec_plateaus, recount_find_reversals_plateaus; the excluded shape is "
             "exactly known finding F8b, kernel-checked). Tied by Rat correspondence incl. signal.find_reversals; the new theorem's "
             "statement is evaluated on the implementation on exhaustive short and seeded plateau-rich signals.",
        note=TB + "find_reversals outside the hypothesis of find_reversals_spec_plateaus (a descending plateau before the first / after the last turning point) is known finding F8b.",
        ref="4/C03"),
}

CHECKS.update({
    "C05": dict(
        technique="Lean 4 proof over R on formulas regenerated from sn.py by a translator + Float correspondence",
        text="Theorems over the reals about the branch formulas generated from qats/fatigue/sn.py on every run: both branches give "
             "nswitch at the transition stress, n is continuous and strictly decreasing on (0,inf), upper branch iff n <= nswitch, "
             "fatigue_strength and n are mutual inverses, thickness factor is 1 at/below t_ref, (t/t_ref)^k above and acts as a stress "
             "multiplier, array = map of scalar. An edit of a formula is re-proved (or not) by the kernel; the branch skeleton is tied "
             "by Float correspondence with SNCurve.",
        note=TB + "Translator (harness/translate.py) trusted, validated by executing each generated definition against the source function.",
        ref="4/C05"),
    "C06": dict(
        technique="Lean 4 proof (list sums over R; Weibull integral via Mathlib's Gamma integral) + translator + Float correspondence",
        text="Theorems: Miner sum additive over any split, permutation invariant, linear in counts and duration, scf == scaling the "
             "stress ranges; single-slope Weibull closed form equals v0*td*integral of f_W/N (Mathlib integral_rpow_mul_exp_neg_mul_rpow); "
             "Goodman-Haigh zero-mean / formula / tensile-enlarges / unit-free. Bilinear closed form and the Riemann-sum limit are "
             "measured (partial).",
        note=TB + "Bilinear closed form: algebra generated and executed with scipy's incomplete gamma values; not proved (no incomplete gamma in Mathlib).",
        ref="4/C06"),
    "C15": dict(
        technique="Lean 4 proof over R on generated formulas (monotonicity, inverses, HasDerivAt, moment integral) + Float correspondence",
        text="Theorems for Weibull / Gumbel / GumbelMin formulas generated from the source: cdf monotone in [0,1), invcdf and cdf mutual "
             "inverses, pdf = derivative of cdf (HasDerivAt), Weibull raw moments = Gamma(1+k/c) as integrals of the density; the Weibull "
             "density has mass 1 and the reported mean / std / skewness / kurtosis ARE its mean, sqrt of its variance (proved > 0) and "
             "its standardised third / fourth central moments (integrals over the support); the Gumbel and GumbelMin densities have "
             "mass 1 and mean loc +/- gamma*scale (Euler-Mascheroni, from Mathlib's derivative of Gamma at 1), the reported means are "
             "loc +/- c*scale with |c - 0.5772156649015329| <= 1e-15; Gumbel median/mode, GumbelMin = mirror of Gumbel for every "
             "method, invcdf mask skeleton, plotting positions in (0,1) increasing. Gumbel std/skew/kurt constants measured (partial).",
        note=TB + "Gumbel std/skew/kurt constants validated by quadrature only; the literal behind the Gumbel means is compared with numpy.euler_gamma (Mathlib proves only 1/2 < gamma < 2/3).",
        ref="4/C15"),
    "C16": dict(
        technique="Lean 4 proof over R (hockey-stick identity for PWM weights, algebra of generated estimators, estimating equations) + captured-callable correspondence",
        text="Theorems: M_j(ax+b) = a M_j + b/(j+1) for both PWM weight families; Weibull pwm/pwm2, Gumbel pwm/msm equivariant; Gumbel "
             "and Weibull msm reproduce sample moments; roots of the Gumbel likelihood equations and least-squares residuals map "
             "under x -> ax+b; GumbelMin msm/mle/lse are mirrors of Gumbel on the negated sample. The callables handed to "
             "fsolve/leastsq are captured and compared with the model's equations. Population level: with beta0 = int x f, "
             "M101 = int x (1-F) f of the generated Gumbel pdf/cdf (F^2 = cdf of Gumbel(loc + scale log 2, scale), F f = f_shifted/2, "
             "mean theorem of C15) the generated pwm formulas return scale exactly and loc + (gamma - c) scale (exactly loc with "
             "gamma for the literal c; error < scale/10 proved, ~5e-17 scale numerically); msm location step likewise (Gumbel, "
             "GumbelMin; partial: variance pi^2/6 scale^2 not proved). Oracle: quadrature of the real objects' pdf/cdf + the real "
             "pwm/msm on two-point samples carrying these moments. Solver convergence and sample-level consistency measured.",
        note=TB + "fsolve/leastsq/brentq assumed to return a root/minimiser of the function they are given (residual checked at the result).",
        ref="4/C16"),
    "C17": dict(
        technique="Lean 4 proof over R on generated formulas + Float correspondence + metamorphic search on TimeSeries.stats",
        text="Theorems: gloc = Weibull invcdf(1-1/n), gscale = 1/(n pdf(gloc)), fit_from_weibull_parameters == weibull2gumbel. The "
             "summary's consistency, affine equivariance and minima mirror are checked on the implementation (partial); the number of peaks n is "
             "proved to be round() of the expression regenerated from TimeSeries.stats (summary_chain_source). Descriptive half "
             "(Qats.Moments: start/end/duration/dtavg/mean/std/skew/kurt/min/max/tz with scipy's bias-corrected formulas): min <= mean "
             "<= max, duration = end - start, dtavg*(n-1) = duration, affine equivariance and mirror proved for all series; tied by "
             "Float (st.moments) and exact Rat (st.momentsq) correspondence with TimeSeries.stats on the processed arrays.",
        note=TB + "Summary composition (pipeline + maxima + pwm) not restated as one theorem. tz is not mirror-invariant (counts "
                  "up-crossings): not claimed. Skew/kurt equivariance at scipy's eps = 0, or for any eps when the degenerate-sample "
                  "test agrees on both signals.",
        ref="4/C17"),
    "C20": dict(
        technique="Lean 4 proof (rotation matrix over R on generated entries; numpy.gradient model over any ordered field) + Float/Rat correspondence",
        text="Theorems: generated matrix = Rz*Ry*Rx, orthogonal, transform is rigid, zero rotation is an offset, deg == rad; gradient "
             "keeps shape, is linear, exact for affine signals everywhere and for quadratics at interior samples on any strictly "
             "increasing grid, acceleration exact from the third to third-last sample, scalar step = uniform grid. Tied by Float "
             "correspondence of transform_motion and exact Rat correspondence of velocity/acceleration.",
        note=TB + "np.gradient's documented second-order interior formula is modelled.",
        ref="4/C20"),
})

CHECKS.update({
    "C04": dict(
        technique="Lean 4 proof (weighted-histogram model over any ordered field) + exact Rat correspondence + float search",
        text="Theorems in exact arithmetic: linspace / width edges are strictly increasing and cover the data (bin count "
             "max(ceil((stop-start)/w),1)), every covered value gets the index of the bin whose half-open interval (last closed) "
             "contains it, histogram conserves total weight, rebin by range / by mean conserves total count and count-weighted sum "
             "of the other quantity for every n >= 1 and w > 0, mid-points, empty bins (count 0, nan), mesh total and both "
             "marginals = the one-dimensional re-binnings. Tied to rebin/mesh/_create_bins by Rat correspondence; float edge "
             "construction searched with adversarial decimal widths.",
        note=TB + "np.histogram / histogram2d bin rules modelled. Floating-point edge construction is outside the theorems (searched).",
        ref="4/C04"),
    "C08": dict(
        technique="Lean 4 proof (coherence invariant by induction over operation histories of a registry state machine) + history correspondence with the real TsDB",
        text="Theorems about the four-register state machine (load/add/rename/clear/update/copy/getm on two databases, abstract "
             "series identities): every operation keeps both databases coherent, hence every history does; size = number of keys "
             "and every key has an entry in each register; a rejected operation leaves its database unchanged (only the source "
             "of update may have cached data); store=False leaves nothing behind, store=True returns the very same objects "
             "afterwards; copies have the selected keys/parents/indices, deep copies share no object. The model is compared with "
             "the real objects after every operation of seeded and enumerated histories. "
             "A content-binding refinement (origin of every constructed object: record number of an index-addressed file / data set "
             "of a name-addressed file under the name registered at load time / added series / deep copy, and per key the registered "
             "record) proves that a read returns the record the key was registered for: the invariant holds initially and is "
             "preserved by every well-formed operation, hence holds after every history, renames of not-yet-read series of "
             "name-addressed files included (binding_step, binding_run; the restriction needed before the repair of finding F17 is "
             "gone and its counter-histories are kept as kernel-evaluated regression examples f17_history_bound, "
             "f17_swap_history_bound); getm/get-by-index return objects bound to the registered records in selection order "
             "(getm_returns_registered), rename moves record and object and nothing else (rename_keeps_record); the binding "
             "prediction is compared per operation with a dictionary model and with the data the real objects return, for all ten "
             "file formats; requests with lists of files / patterns are modelled as sequences of the model's operations.",
        note=TB + "The bytes of a record and the file readers are abstract in the model (an object's content is its origin: file + record number / data set name / added id); that a reader returns the bytes of the record it is asked for is C01's part. Name resolution is C09's model. List forms of load/clear are composed in the driver from single-file / single-key steps.",
        ref="4/C08"),
    "C09": dict(
        technique="Lean 4 proof (string-level model of str.replace / fnmatch / os.path; escaping theorem for all strings) + correspondence with TsDB.list/get/in/common",
        text="Theorems: the three-step replacement with the ':[:' detour is character-wise escaping for every string; fnmatch of the "
             "escaped pattern = shell matching where only * and ? are special (for all patterns and keys); listing = for each "
             "pattern in order the registered keys in registration order that match; the common path (of the directory parts, "
             "since the F33 repair) is a string prefix and a directory prefix of every key (common_dirPrefix: every key is "
             "common + '/' + rel), short names of getm are exactly rel and in-memory names are kept (retKey_relative, "
             "retKey_no_common), without a common path the relative listing is the listing; every key selects itself uniquely "
             "by its full key (no side condition any more); get / in agree with the listing; selection by "
             "the listed relative name is unambiguous when no other key ends in '/<name>' (partial) with a machine-checked "
             "counterexample otherwise (F18); the single-series-with-unit-brackets case and one quantity in two units ([kN/m], [kN/s]; "
             "file-backed and in-memory) by kernel computation.",
        note=TB + "fnmatch character ranges not modelled (patterns always reach fnmatch escaped); POSIX paths.",
        ref="4/C09"),
    "C10": dict(
        technique="Lean 4 proof (ownership/provenance step model; schedule independence of read-only computations) + dynamic correspondence (snapshots, np.shares_memory, real threads)",
        text="Theorems: for all 72 option combinations get() writes no stored array in place and returns none; minima writes to no "
             "array in place (it negates into a new array since the F51 repair; without the defensive copy a retrieval would hand "
             "out the stored arrays and any in-place step would hit them: machine-checked witnesses); computations that only read a "
             "shared store end, after ANY schedule, in the state of their own sequential execution; a copy equals its source "
             "field by field and owns new arrays. Tied dynamically: bit-for-bit snapshots around every query x option "
             "combination, aliasing tags vs np.shares_memory, threads vs sequential results, vars(copy) == vars(original).",
        note=TB + "F55 fixed (get(resample=<array>) returned the caller's array; the model step timeCopyOfArg follows the repair). Aliasing and threads are properties of the CPython runtime: observed, not proved.",
        ref="4/C10"),
    "C11": dict(
        technique="Lean 4 proof (pipeline model with abstract stages over any ordered field; concrete model of the smoothing and Tukey-taper stages) + exact Rat correspondence with tag-function stages + Float correspondence of smooth / taper / get + float search",
        text="Theorems: a window returns exactly the in-window samples in order; interpolation reproduces nodes, is the linear "
             "interpolant (convex combination) between them, has no value outside the span and always one inside; the step grid "
             "has round((t1-t0)/d)+1 equidistant points from first to last sample with |k-(t1-t0)/d| <= 1/2, the ratio being the "
             "argument of round() regenerated from the source on every run (newTimearray_ratio_is_source); no options = "
             "identity; stage order window/resample/taper/filter/smooth with the filter receiving t'[1]-t'[0]; array resampling "
             "returns that array or fails, never with a window; equal lengths; stand-alone resampling succeeds with all new "
             "times inside the span. Stage functions are patched by non-commuting tags on both sides of the correspondence. The two "
             "stages written in qats itself are also modelled concretely and executed against signal.smooth / signal.taper / "
             "TimeSeries.get: smoothing keeps the length for every window (odd or even), rejects signals not longer than the window, "
             "keeps a constant level; the tapering stage keeps the length and leaves the flat part of the Tukey window unchanged, "
             "weights in [0,1]; hence equal lengths of time and data with the code's own stages (get_equal_length_concrete).",
        note=TB + "interp1d / linspace / arange / round / np.convolve('same') / slice clamping semantics modelled. Float grids searched (F7 fixed). F53 fixed.",
        ref="4/C11"),
    "C14": dict(
        technique="Lean 4 proof (single-pass scan invariant; exact characterisation of global and local maxima over any ordered field) + exhaustive Rat correspondence",
        text="Theorems: (i,v) is reported as global maximum iff it is the first-position largest value of an excursion above the "
             "mean closed on both sides; positions strictly increase; local maxima are exactly the interior peaks; every global "
             "maximum value is a local maximum of the same excursion; result = raw maxima not below the threshold, as a "
             "permutation, ascending, values at positions; positive affine maps keep positions; minima mirror maxima. Tied by "
             "exhaustive correspondence on all signals over {0..3} up to length 7 (9 thorough) + random ones.",
        note=TB + "The float mean is exact on the integer / dyadic inputs used.",
        ref="4/C14"),
})

CHECKS.update({
    "C01": dict(
        technique="Lean 4 proof (binding invariant of _read over all key lists, cache states and operation histories; record-level cursor arithmetic of the direct-access reader) + correspondence with the real TsDB on synthesised files of all ten formats",
        text="Theorems for any scalar type, any request order and requests that repeat keys: _read returns exactly the requested keys "
             "(first occurrences, in order), each bound to the name/time/data stored on the file for the name it was registered under, "
             "for every reader style (direct access with pos table, array indexing / loadtxt usecols, csv sorted-set + re-arrangement, "
             "name-addressed); cached series are returned unchanged, store=False leaves the database unchanged, store=True caches, "
             "registration data never changes; hence every history of lazy/eager loads and get/geta/getm/getl/getda by name, wildcard "
             "or index returns the stored series. Direct-access reader: cursor before record i is (i+1)*4*ndat, row p holds record "
             "ind[p] iff p is the last request of it. The model is compared with TsDB after every operation of seeded histories and "
             "ordered-subset enumerations on real .ts .tda .bin .asc .dat .csv .h5 .pkl .mat .tdms files; an independent oracle checks "
             "every returned value against what the generator wrote.",
        note=TB + "Not modelled (tied by correspondence only): byte/text decoding, SIMA key-file parsing, h5py/nptdms/pymatreader, numpy fancy indexing / loadtxt(usecols) order and pandas usecols (stated assumptions). Known finding F15 (.asc first row).",
        ref="4/C01"),
    "C12": dict(
        technique="Lean 4 proof over R (closed-form Butterworth-squared gain with bilinear warp tan(pi f dt); parameter plumbing through get/filter; normalised cut-offs re-proved against the expressions regenerated from qats/signal.py by the translator) + recorded scipy arguments + steady-state Float correspondence",
        text="Theorems for all sampling intervals, cut-offs in (0,Nyquist) and frequencies: the design the code hands to scipy (order 5, "
             "Wn = fc/(0.5/dt)) responds in Hz; gain exactly 1/2 at every cut-off, in (0,1), low-pass strictly decreasing / high-pass "
             "increasing, band-pass rising to 1 at the warped centre then falling, lp+hp = bp+bs = 1, DC gain 1/0, explicit pass/stop-"
             "band rates, order observable; steady state keeps frequency and phase, is linear, keeps/removes the mean, complementary "
             "pairs reconstruct the signal; get(filterargs) designs for the step of the returned time array whatever window/resampling; "
             "filter() == get(filterargs). The normalised cut-offs of the modelled design are proved equal to the second argument of "
             "butter as written in lowpass/highpass/bandpass/bandblock (Qats.Gen.flt_*, regenerated from the source on every run) and "
             "to fc/(1/(2 dt)) (design_wn_is_source, source_wn_fraction_of_nyquist). Tied on every run by recording butter/filtfilt/sosfiltfilt arguments inside qats.signal and by "
             "fitting amplitude/phase/mean of filtered long sinusoids (signal level and through TimeSeries.get/filter after window, "
             "resample, taper, irregular grids).",
        note="The parameter plumbing model (tsGet / tsFilter / Kind.arity) is executed by the driver with tag functions in place of the numeric filter and compared exactly with TimeSeries.get / filter whose scipy calls are replaced by the same tags (streams ts.tagged, ts.tagged-filter, arity, lin). " + TB + "That scipy's butter+filtfilt/sosfiltfilt realise the specified squared magnitude with zero phase is measured (2e-5 of the amplitude; vs. independent butter(fs=)+freqz 1e-9), not proved; end transients excluded; cut-offs below 0.008 Nyquist not sampled.",
        ref="4/C12"),
    "C13": dict(
        technique="Lean 4 proof (explicit-DFT Welch model, transform and window abstract, any ordered field) + Float correspondence + measured oracles",
        text="Theorems: a*x -> a^2*P on signal.psd / TimeSeries.psd / calculate_psd, normalised spectrum amplitude-free, dt -> k*dt gives "
             "f/k and k*P (density per Hz), invariance to an added constant on all three paths, frequencies = k/(nfft*dt) from 0 to "
             "Nyquist with nfft//2+1 points, non-negativity, normalised maximum 1, uniform series: TimeSeries.psd = signal.psd with "
             "dt = step and nperseg defaulting to n//4 (seven segments for n = 8q), success iff scipy's argument checks pass, nperseg "
             "clipped to the length, steps differing by more than 1 % (+1e-6) rejected / constant step accepted. Tied by Float "
             "correspondence (1e-9 of the peak) of signal.psd, TimeSeries.psd, calculate_psd and the resampled/tapered GUI signal on "
             "seeded signals n <= 256 over dt, nperseg, noverlap, nfft, jitter, error cases. Oracles: independent numpy implementation "
             "of the definition, grid, scaling, shift, time unit, normalisation, default, guard, clip; area = variance and peak location "
             "on long multi-tone signals. Over the reals (Real.cos / Real.sin / pi): Parseval's identity for the model's DFT sums and "
             "the one-sided folding give area = sum(P)*1/(nfft*dt) = mean over the segments of sum((w*y)^2)/sum(w^2) for one segment, "
             "the averaged estimator, signal.psd and TimeSeries.psd (any window, overlap, nfft >= nperseg, even and odd lengths); both "
             "sides evaluated on the implementation to 1e-9 (oracles:parseval) and on the model (driver op psd.area).",
        note=TB + "scipy.signal.welch argument handling, periodic Hann window, np.isclose, linspace/interp1d modelled. The exact area identity "
                  "(Parseval) is proved; that the window-weighted mean square of a stationary signal is close to its variance, and the peak "
                  "location, are measured (3 % / one bin), not proved.",
        ref="4/C13"),
    "C18": dict(
        technique="Lean 4 proof (state machine ref/t/cache; invariant ref+t over all histories by induction, over any commutative group) + exhaustive/seeded Rat correspondence on histories",
        text="Theorems: with a reference, ref+t_i of every sample is unchanged by every history of set_dtg_ref(x|None|invalid), copy, "
             "dtg_time reads; relative times after a history = original + (old ref - new ref); built from stamps: instants = the "
             "stamps, for ever; cache is empty or ref+t and a filled cache never goes stale; dtg_start/dtg_end = first/last instant; "
             "first reference set on a reference-less series fixes the instants, t untouched; rejected calls leave the state unchanged "
             "and are exactly {non-datetime, None without reference}; path independence / idempotence; _check_time_arrays passes iff "
             "all references are equal; with in-place processing in the history (modify with a window: a mask of retained samples) the cache "
             "invariant still holds and exactly the instants of the retained samples remain (F54 fixed). Tied by correspondence after every step on ALL histories of length <= 3 (4 thorough) over a "
             "6-letter alphabet x 13 constructor kinds (floats, datetime, datetime64[us|ms|s|ns], pandas Timestamp) + seeded random "
             "histories on a 1/64 s grid, histories with modify(twin) (dtg.runx), 2-5 series built from one time array object, and of the "
             "reference rule of _check_time_arrays.",
        note=TB + "timedelta's microsecond rounding and float rounding not modelled: measured <= 1 us on realistic histories (tolerance 2 us).",
        ref="4/C18"),
})

CHECKS.update({
    "C19": dict(
        technique="Lean 4 proof (GUI orchestration state machine: user actions + completion of any pending worker; invariants by induction over all histories and schedules; kernel-evaluated counter-histories) + correspondence with the real Qats window (offscreen, thread pool replaced by a queue) after every event",
        text="Theorems: in every reachable state the list rows are db.list(relative) and the status count is the database size; an import "
             "containing a loaded series changes nothing, an import is all-or-nothing; the selection is exactly the database keys behind "
             "the ticked visible rows; PARTIAL: if display/clear/settings changes are made only while no display request is in flight, "
             "each of the five views shows the latest request's series and settings for every completion order (imports, ticking, list "
             "filter, Gumbel plots unrestricted). The unrestricted statement is false for the code: machine-checked counter-histories "
             "K1 (overlapping requests; also table rows in FIFO order), K2 (settings read at read-completion / draw time), K4 (clear in "
             "flight). Tied on fixed corner histories + seeded random histories generated against the live queue (thorough: the canonical "
             "completion patterns of two overlapping requests x variants + sampled permutations): rows, tick marks, status, queued "
             "workers with captured arguments, per-view series and settings decoded from the drawn numbers against qats.app.funcs "
             "called directly, statistics-table cells, Gumbel tabs. Application settings: the settings dialog (check box + clamping spin "
             "boxes, OK / Cancel) changes exactly what the user edited and every session keeps the settings inside the widgets' ranges "
             "(Qats.GuiSettings), compared with the window after every dialog; the expected selection and settings of a request come "
             "from a harness-side record of the user's actions (ticks under a list filter, dropped files, failed imports).",
        note=TB + "Real thread timing, Qt signal delivery and pixel rendering are not modelled (queue pool, synchronous signals, FigureCanvas.draw stubbed). Library computations are opaque in the model; numbers are compared by the harness. K1, K2, K4 are known findings.",
        ref="4/C19"),
})

CHECKS.update({
    "C07": dict(
        technique="Lean 4 proof (effect-trace model of TsDB.export, common-time diagnosis, friendly names, record-level codecs over any ordered field) + exact Rat correspondence (decision, create_common_time, names, observed export trace, codec text/words) + end-to-end export→fromfile round trips",
        text="Theorems: existing target with exist_ok=False → only a raise; every raise is the last effect and nothing before it opens/writes "
             "the target; whatever is written is, per selected series in order and under distinct export-friendly names, exactly "
             "get(**kwargs) of that series, holds at least one sample (an empty window is refused before the target is opened; F52), "
             "and all written time arrays agree with the first within the final comparison (all databases/options); forced common time = create_common_time, inside every span; is_common ⇒ equal arrays for uniform series "
             "(no options), equal windowed arrays on one lattice (PARTIAL) and one resampling grid for a step (any sampling), with "
             "machine-checked counterexamples off these premises (F9b shape, off-lattice window); key file / direct-access words / ascii "
             "header+rows / pickle frame / h5 start+delta round trips under explicit representability predicates, with counterexamples "
             "F19, F30. Tied by correspondence of _check_time_arrays, is_common_time, create_common_time, friendly names, the observed "
             "writer/records/exception of export (internal steps soft), and the codec text/words against files written by the real "
             "writers; round trips for 4 formats × options × in-memory/file-backed sources at float32 / 7-digit / exact / n·eps "
             "precision; target bytes+mtime snapshots for refused exports.",
        note=TB + "Number formatting (float32, %15.7g), pandas, h5py and the byte layout are exercised by the round trips only; names restricted to the formats' representable alphabets; >=2 samples per series; known findings F19, F30 (F19b, F31, F32 fixed).",
        ref="4/C07"),
})

NOT_YET = {}

PROPS = [json.loads(l) for l in open(os.path.join(HERE, "properties.jsonl"))]


def main():
    checks, na = [], []
    for p in PROPS:
        pid = p["id"]
        if pid in CHECKS:
            c = CHECKS[pid]
            checks.append(dict(
                property_id=pid,
                quick_cmd="./check %s quick" % pid,
                thorough_cmd="./check %s thorough" % pid,
                evidence_file="evidence/%s.json" % pid,
                replay_cmd_template="./check %s --replay {path}" % pid,
                engine="lean4-model+correspondence",
                level_claimed=dict(category="proof", text=c["text"], design_ref="DESIGN.md section " + c["ref"]),
                level_note=c["note"],
                technique=c["technique"]))
        else:
            na.append(dict(property_id=pid, reason=NOT_YET.get(pid, "check not built yet in this round (designed in DESIGN.md section 4; the Lean technique applies)")))
    man = dict(
        version=1,
        setup_cmd="cd lean && lake build Qats",
        hooks=dict(guard="QATS_VERIF", enable="no source hooks: checks call the real code in-process (./check sets QATS_VERIF=1, unused by /repo)",
                   baseline_off_cmd="cd /repo && /venv/bin/python -m pytest -ra -q -p no:cacheprovider --timeout=900 --continue-on-collection-errors",
                   source_commits=[], add_only=True),
        engines=[dict(name="lean4-model+correspondence", path="lean/ + harness/",
                      serves_properties=sorted(CHECKS),
                      kind_free_text="Lean 4 models + theorems (lean/Qats), tied to /repo on every run by a formula translator "
                                     "(harness/translate.py) and/or a model-vs-implementation correspondence check (harness/props/*.py)")],
        checks=checks,
        notes="See DESIGN.md. known_findings.json lists genuine defects (fixed / known). Every check runs with the local time zone set per "
              "seed (TZ, zones with daylight saving and fractional offsets; VERIF_TZ overrides), records the lines of the anchored source it "
              "executed (evidence: coverage.impl_coverage) and which model definitions of its theorem statements the driver executed "
              "(coverage.tie_coverage); sub-streams named `strict` run with warnings raised as errors and numpy raising on floating-point "
              "errors. Exit codes: 0 held, 1 violation, 2 infrastructure failure.",
        not_applicable=na)
    with open(os.path.join(HERE, "MANIFEST.json"), "w") as f:
        json.dump(man, f, indent=1)
    print("MANIFEST.json: %d checks, %d not claimed" % (len(checks), len(na)))


if __name__ == "__main__":
    main()
