#!/usr/bin/env python3
"""Regenerates MANIFEST.json from the table below (kept in one place so it is always schema-valid)."""
import json
import os

HERE = os.path.dirname(os.path.dirname(os.path.abspath(__file__)))

TB = ("Trusted: Lean 4.33 kernel (+leanchecker in the thorough tier), Mathlib v4.33.0, axioms propext/Classical.choice/Quot.sound "
      "only (audited per theorem each run; no sorry/native_decide/bv_decide/own axioms); the tie (correspondence harness and/or "
      "formula translator) is differential testing whose coverage is reported in the evidence; Python/numpy/scipy semantics and "
      "floating-point rounding are modelled, not verified. ")

CHECKS = {
    "C02": dict(
        technique="Lean 4 proof (induction over the ASTM stack machine, any ordered field) + exact Rat correspondence",
        text="Theorems for all finite sequences over any linearly ordered field: conservation 2*full+half = points-1, strict "
             "alternation of counted points, largest range = span, counts in {1, 1/2}, table = sorted permutation of the cycles, "
             "empty table when nothing is counted. The model is the three-point procedure itself and is tied to "
             "rainflow.reversals/cycles/count_cycles and TimeSeries.rfc by exact (Rat) correspondence on every run.",
        note=TB + "Modelled: generator/deque control flow of reversals()/cycles(), two-key sort of count_cycles. Float range ties are outside the theorems.",
        ref="4/C02"),
    "C03": dict(
        technique="Lean 4 proof (affine equivariance, refinement invariance, recount) + exact Rat correspondence + metamorphic search",
        text="Theorems over any ordered field: counting a*x+b maps every cycle to (|a| r, a m + b) with the same count and order of "
             "extraction; inserting repeated / in-between samples leaves the counted points unchanged (inductive Refines relation, "
             "any number of insertions); counting the turning points with end points reproduces the table; find_reversals equals "
             "reversals on plateau-free signals (partial, F8b known). Tied by Rat correspondence incl. signal.find_reversals.",
        note=TB + "find_reversals with plateaus is covered by search only (known finding F8b).",
        ref="4/C03"),
}

NOT_YET = {}

PROPS = [json.loads(l) for l in open(os.path.join(HERE, "properties.jsonl"))]


def main():
    checks, na = [], []
    for p in PROPS:
        pid = p["id"]
        if pid in CHECKS:
            c = CHECKS[pid]
            checks.append(dict(
                property_id=pid,
                quick_cmd="./check %s quick" % pid,
                thorough_cmd="./check %s thorough" % pid,
                evidence_file="evidence/%s.json" % pid,
                replay_cmd_template="./check %s --replay {path}" % pid,
                engine="lean4-model+correspondence",
                level_claimed=dict(category="proof", text=c["text"], design_ref="DESIGN.md section " + c["ref"]),
                level_note=c["note"],
                technique=c["technique"]))
        else:
            na.append(dict(property_id=pid, reason=NOT_YET.get(pid, "check not built yet in this round (designed in DESIGN.md section 4; the Lean technique applies)")))
    man = dict(
        version=1,
        setup_cmd="cd lean && lake build Qats Qats.Driver",
        hooks=dict(guard="QATS_VERIF", enable="no source hooks: checks call the real code in-process (./check sets QATS_VERIF=1, unused by /repo)",
                   baseline_off_cmd="cd /repo && /venv/bin/python -m pytest -ra -q -p no:cacheprovider --timeout=900 --continue-on-collection-errors",
                   source_commits=[], add_only=True),
        engines=[dict(name="lean4-model+correspondence", path="lean/ + harness/",
                      serves_properties=sorted(CHECKS),
                      kind_free_text="Lean 4 models + theorems (lean/Qats), tied to /repo on every run by a formula translator "
                                     "(harness/translate.py) and/or a model-vs-implementation correspondence check (harness/props/*.py)")],
        checks=checks,
        notes="See DESIGN.md. known_findings.json lists genuine defects (fixed / known).",
        not_applicable=na)
    with open(os.path.join(HERE, "MANIFEST.json"), "w") as f:
        json.dump(man, f, indent=1)
    print("MANIFEST.json: %d checks, %d not claimed" % (len(checks), len(na)))


if __name__ == "__main__":
    main()
