#!/usr/bin/env python3
"""tools/mk_mutant_prompt7.py <PID> <worktree>  — round-7 prompt: changes written as plausible pull requests"""
import subprocess, sys
pid, wt = sys.argv[1], sys.argv[2]
base = subprocess.run([sys.executable, "/verif/tools/mk_mutant_prompt4.py", pid, wt], capture_output=True, text=True).stdout
focus = ("\nFOCUS FOR THIS ROUND (six rounds of hand-placed faults have been tried; write each change the way a well-meaning contributor would, "
         "as a small pull request with a one-line commit message in the meta file under the key \"commit_message\"):\n"
         "* change 1 — A PERFORMANCE PULL REQUEST: vectorise a loop, avoid a copy, memoise / pre-compute something, short-circuit a common case, "
         "replace a library call by a cheaper equivalent (np.searchsorted for a mask, np.einsum, slicing for boolean indexing, views for copies, "
         "`is` for `==`, dict look-up for a list search …) — correct on the inputs the author had in mind, wrong on a valid class of inputs the "
         "property covers (ties, unsorted or non-uniform input, non-contiguous / read-only / integer arrays, repeated names, length 1 or 2, empty selection …);\n"
         "* change 2 — A ROBUSTNESS / VALIDATION / API-MODERNISATION PULL REQUEST: added input checking, NaN / inf handling, tolerance comparison instead of "
         "exact comparison (or the reverse), a deprecation clean-up (numpy 2 / pandas 3 / scipy idioms, pathlib for os.path, f-strings, context managers), "
         "an error-handling `try/except` that swallows or re-orders something — which changes the result or the state for some valid inputs or histories;\n"
         "* change 3 — A FEATURE PULL REQUEST: a new optional argument, a new default, support for a new input type or option value, an added convenience "
         "(auto-sorting, auto-stripping names, auto-converting units/types, case-insensitive matching, rounding for display that leaks into results) "
         "whose default path is no longer equivalent to the old behaviour for some valid inputs or call sequences.\n"
         "Each change must still break the property as stated above through public entry points; pick DIFFERENT functions / files for the three; "
         "the existing tests must keep passing. Prefer violations that are silent (a wrong number, a wrong name, a changed object) over exceptions.\n")
sys.stdout.write(base.replace("Several rounds", "Six rounds") + focus)
