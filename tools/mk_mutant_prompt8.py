#!/usr/bin/env python3
"""tools/mk_mutant_prompt8.py <PID> <worktree>  — round-8 prompt: behaviour conditioned on the process environment / global library state"""
import subprocess, sys
pid, wt = sys.argv[1], sys.argv[2]
base = subprocess.run([sys.executable, "/verif/tools/mk_mutant_prompt4.py", pid, wt], capture_output=True, text=True).stdout
base = base.replace("produce THREE different, realistic source changes", "produce TWO different, realistic source changes").replace("(N = 1, 2, 3;", "(N = 1, 2;")
base = base.replace("list the three changes", "list the two changes").replace("spread your three changes", "spread your two changes")
focus = ("\nFOCUS FOR THIS ROUND (seven rounds have been tried: single sites, cooperating sites, fault points, shared state, performance / "
         "robustness / feature pull requests, size-conditioned fast paths). Make TWO changes whose effect depends on the PROCESS ENVIRONMENT or on "
         "GLOBAL LIBRARY STATE rather than on the arguments alone — the property must break for ordinary arguments once the environment is in a "
         "state that real users do have, while the existing tests (run from the repository root with default settings) keep passing:\n"
         "* the current working directory, relative vs absolute paths, `os.path.abspath/realpath/normpath/expanduser`, symbolic links, trailing "
         "separators, `os.sep` vs '/', paths containing spaces, dots, '..' or upper-case letters, a read-only directory, `TMPDIR`, `HOME`;\n"
         "* environment variables, locale (`LC_NUMERIC` decimal comma, `str.lower()` of non-ASCII), time zone (`TZ`, naive vs aware datetimes, "
         "`time.localtime`), the current date;\n"
         "* numpy global state (`np.seterr`, `np.errstate`, print options, the legacy global random generator `np.random.seed/get_state`, "
         "default integer width), pandas options, `warnings` filters (a warning turned into an error by `-W error` or by the caller), "
         "`sys.getrecursionlimit`, float formatting (`%g` vs `repr`), `PYTHONHASHSEED`-dependent set / dict-of-set iteration order;\n"
         "* what happened earlier in the same process: import order, module-level registries, a previous call that changed a global setting and did "
         "not restore it (or restores it wrongly), class attributes shared by instances, an `lru_cache` / memo keyed on something that is not the "
         "whole input (a path string whose file was re-written, an `id()` that is reused, a float rounded for the key).\n"
         "Write each change the way a well-meaning contributor would (one-line commit message in the meta file under \"commit_message\"). Each change "
         "must break the property as stated above through public entry points; the demonstration must set up the environment state it needs itself "
         "(os.chdir, os.environ, np.seterr, warnings.simplefilter, a prior call …) and restore nothing it does not have to. Pick DIFFERENT mechanisms "
         "for the two changes.\n")
sys.stdout.write(base.replace("Several rounds", "Seven rounds") + focus)
