#!/usr/bin/env python3
"""archive a verified round-4 change: tools/archive_round8.py <PROP> <n> <detected: quick|missed> [note]   (source: /tmp/wt8_<PROP>/mutants)"""
import json, os, shutil, sys
prop, n, det = sys.argv[1:4]
note = sys.argv[4] if len(sys.argv) > 4 else ""
src = "/tmp/wt8_%s/mutants" % prop
dst = "/verif/seeded/%s-round8-m%s" % (prop, n)
os.makedirs(dst, exist_ok=True)
shutil.copy(os.path.join(src, "m%s.diff" % n), os.path.join(dst, "patch.diff"))
shutil.copy(os.path.join(src, "m%s_demo.py" % n), os.path.join(dst, "demo.py"))
m = json.load(open(os.path.join(src, "m%s_meta.json" % n)))
meta = dict(property=prop, round=8, summary=m.get("summary"), needs=m.get("needs"), tests_run_by_author=m.get("tests_run"),
            tests_same_pass_set=m.get("tests_same_pass_set"), base_commit="8f2ec90",
            confirmed="applied in a scratch worktree of /repo with `git apply`; demo.py exits 0 on the clean tree and 1 with the patch "
                      "(tools/try_mutant_wt.sh, run by tools/round8_try.sh); same pass set of the affected test files (author's run)",
            ran="tools/round8_try.sh %s  (= demo on clean tree / with patch, then QATS_REPO=<worktree> ./check %s quick)" % (prop, prop),
            detected=det, note=note)
json.dump(meta, open(os.path.join(dst, "meta.json"), "w"), indent=1)
print(dst)
