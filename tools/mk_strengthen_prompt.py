#!/usr/bin/env python3
"""tools/mk_strengthen_prompt4.py <PID> <missed e.g. 'm1, m3'>  — prompt for a strengthening sub-agent (round 4, private copy of /verif)"""
import os, sys
RND = os.environ.get("ROUND", "4")
pid, missed = sys.argv[1], sys.argv[2]
t = open('/verif/tools/prompts/strengthen_template_private_copy.txt').read()
t = t.replace("/tmp/wt3_", "/tmp/wt" + RND + "_")
t = t.replace("first `cp -r /verif /tmp/verif_{pid}`", "first `cp -r /verif /tmp/verif_{pid}` (it contains the compiled Lean library under lean/.lake, so no rebuild is needed)")
sys.stdout.write(t.format(pid=pid, pid_l=pid.lower(), missed=missed))
