#!/usr/bin/env python3
"""tools/mk_mutant_prompt5.py <PID> <worktree>  — round-5 prompt: the property text plus a focus on less visited code"""
import json, subprocess, sys
pid, wt = sys.argv[1], sys.argv[2]
FOCUS = {
 "C01": "the format-specific readers under qats/io/ (key-file parsing, .bin/.tda/.asc/.dat/.csv/.mat/.tdms/.h5/.pkl readers, delimiter and header handling) and the less used retrieval entry points of qats/tsdb.py (geta, getd, getl, getda, get by index, fromfile with lists)",
 "C02": "the helper functions around the counting core in qats/fatigue/rainflow.py (_sort_cycles, count_cycles table assembly, mesh/rebin only as far as the cycle table is concerned), TimeSeries.rfc and TsDB / qats.app.funcs wrappers that feed count_cycles (option forwarding, data preparation)",
 "C03": "TimeSeries.rfc option handling, qats.app.funcs.calculate_rfc, TimeSeries/TsDB plot_cycle_range / plot_cycle_rangemean data paths, qats.signal.find_reversals, conversions of the input series before counting",
 "C04": "rebin / mesh option handling (n vs w, binby, defaults), _create_bins, the callers TimeSeries.plot_cycle_range(mean)(3d), qats.app.funcs.calculate_rfc and how they pass bins / unpack results",
 "C05": "SNCurve construction paths (a1 vs loga1, dict input, derived attributes a2 / loga2 / sswitch, __repr__-style helpers), fatigue_strength and thickness_correction option handling (t=None, t<t_ref, arrays), properties that cache values",
 "C06": "minersum option handling (retbins, td/duration scaling, args/kwds forwarding to callables, curve given as dict/object/function), minersum_weibull thickness / scf handling, qats/fatigue/corrections.py",
 "C07": "the writers under qats/io/ (direct_access.py write_ts_data key file, other.py write_dat_data, sima_h5.py write_data, pickle_format.py), _make_export_friendly_names, create_common_time, exist_ok / directory handling in TsDB.export, qats.app.funcs.export_to_file",
 "C08": "the less central mutators and accessors of qats/tsdb.py: update(shallow=...), copy(names=...), add with explicit names, clear with lists, rename edge cases, fromfile with several files, __len__/n/__iter__/__contains__, getl/getd/geta/getda with store on/off",
 "C09": "the path helpers of qats/tsdb.py (_path_basename, _path_dirname, _path_relpath, common, _reorder_namelist), list(relative=..., display=...), name/ind arguments of get/geta/getd, wildcard handling inside lists of names",
 "C10": "TimeSeries / TsDB query methods other than get(): max/min/mean/std/skew/kurtosis with windows, average_frequency/period, psd, rfc, stats, fit_weibull, plot_* data paths, properties (dtg_time, data, duration), and copy/update of databases with unread file-backed series",
 "C11": "TimeSeries.interpolate / resample / modify, qats.signal.smooth / taper / extend_signal_ends, new_timearray, how TsDB.getda / geta / getd / export forward processing options, and qats.app.funcs.calculate_trace",
 "C12": "TimeSeries.filter argument handling, qats.signal lowpass/highpass/bandpass/bandblock wrappers (order argument, Wn computation, choice of sos/ba form, padding), forwarding of filterargs through TsDB and qats.app.funcs",
 "C13": "TimeSeries.psd / plot_psd, TsDB.plot_psd data path, qats.signal.psd / csd / coherence / tfe option handling (nperseg, noverlap, nfft, detrend, normalisation), qats.app.funcs.calculate_psd",
 "C14": "TimeSeries.maxima/minima/max/min option forwarding (local, threshold, rettime, twin, filterargs, resample), qats.signal.find_maxima post-processing (sorting, threshold), average_frequency/average_period, qats.app.funcs.calculate_trace / calculate_stats",
 "C15": "the less central methods of the distribution classes (invcdf argument handling, rnd/draw with size and seed, plot data helpers, fit(data=..., method=...), params property, empirical.py plotting positions) in qats/stats/",
 "C16": "estimator entry points other than the core formulas: Weibull.fit / Gumbel.fit / GumbelMin.fit method dispatch, fromsignal, bootstrap, data preparation (sorting, flattening, type conversion) in qats/stats/*.py, qats.app.funcs.calculate_gumbel_fit",
 "C17": "TimeSeries.stats / TsDB.stats / stats_dataframe assembly of the summary (fields, statsdur / quantiles handling, is_minima forwarding), Weibull.gumbel_parameters / Gumbel.fit_from_weibull_parameters, qats.app.funcs.calculate_stats",
 "C18": "date-time handling outside set_dtg_ref's main branch: constructor spellings of time (datetime list, numpy datetime64 with different units, pandas Timestamp), dtg_time caching, dtg_start/dtg_end, copy/__copy__, TsDB._check_time_arrays' dtg rule, readers that create series with dtg_ref",
 "C19": "the GUI handlers in qats/app/gui.py other than the main display path (import / clear / selection model / filter of the list, settings dialog and its persistence, tab switching, Gumbel plot, status bar) and the worker plumbing in qats/app/threading.py",
 "C20": "qats/motions.py argument handling: rotunit, array shapes and orientation (list vs ndarray, (6,n) vs views), newref handling, dt as scalar vs array in velocity/acceleration, non-uniform time arrays",
}
base = subprocess.run([sys.executable, "/verif/tools/mk_mutant_prompt4.py", pid, wt], capture_output=True, text=True).stdout
focus = ("\nFOCUS FOR THIS ROUND: the central algorithm behind this property has been attacked many times already. Put your three changes into "
         "the less visited code that the property nevertheless covers: " + FOCUS[pid] + ". Each change must still break the property as stated "
         "above (not merely some other behaviour), through a public entry point of the library. Prefer faults that need a particular order of "
         "calls, an exception at a particular point followed by further use, a second use of the same object, an unusual but valid argument "
         "spelling, or two sites that each look fine alone.\n")
sys.stdout.write(base + focus)
