#!/usr/bin/env python3
"""tools/impl_coverage_union.py — union over all evidence files of the implementation-side coverage report (harness/implcov.py):
functions of the anchored source files that NO check executes, and lines of partly executed functions that no check executes."""
import glob, json, os, sys
sys.path.insert(0, os.path.dirname(os.path.dirname(os.path.abspath(__file__))))
from harness import implcov, core
miss = {}     # func -> set of missed lines (intersection over the checks that anchor the file)
seenfile = {}
for f in sorted(glob.glob(os.path.join(core.VERIF, "evidence", "C*.json"))):
    ic = json.load(open(f))["coverage"].get("impl_coverage")
    if not ic or "files" not in ic:
        continue
    for rel in ic["files"]:
        path = os.path.join(core.REPO, rel)
        code = compile(open(path).read(), path, "exec")
        funcs = {}
        implcov._code_lines(code, "<module>", funcs)
        never = set(ic["functions_never_executed"])
        partly = ic["functions_partly_executed"]
        for q, (first, lines) in funcs.items():
            if q == "<module>":
                continue
            key = "%s:%s" % (rel, q)
            body = set(l for l in lines if l != first)
            m = body if key in never else set(partly.get(key, [])) if key in partly else set()
            if len(partly.get(key, [])) >= 40:
                m = body  # capped list: unknown, be conservative
            miss[key] = m if key not in miss else (miss[key] & m)
for k in sorted(miss):
    if miss[k]:
        print(k, sorted(miss[k]))
