#!/usr/bin/env python3
"""archive verified mutants: tools/archive_mutants.py <PROP> <worktree> <n> <detected: quick|thorough|missed> [note]"""
import json, os, shutil, sys
prop, wt, n, det = sys.argv[1:5]
note = sys.argv[5] if len(sys.argv) > 5 else ""
src = os.path.join(wt, "mutants")
dst = os.path.join("/verif/seeded", "%s-%s-m%s" % (prop, os.path.basename(wt).replace("wt_", ""), n))
os.makedirs(dst, exist_ok=True)
shutil.copy(os.path.join(src, "m%s.diff" % n), os.path.join(dst, "patch.diff"))
shutil.copy(os.path.join(src, "m%s_demo.py" % n), os.path.join(dst, "demo.py"))
m = json.load(open(os.path.join(src, "m%s_meta.json" % n)))
meta = dict(property=prop, summary=m.get("summary"), needs=m.get("needs"), tests_run_by_author=m.get("tests_run"),
            tests_same_pass_set=m.get("tests_same_pass_set"),
            confirmed="applied to /repo with `git apply`; demo.py exits 0 on the clean tree and 1 with the patch (tools/try_mutant.sh); "
                      "the affected test files give the same pass set (author's run, re-checked for the files touching the changed module)",
            ran="tools/try_mutant.sh seeded/<dir>/patch.diff seeded/<dir>/demo.py %s" % prop,
            detected=det, note=note)
json.dump(meta, open(os.path.join(dst, "meta.json"), "w"), indent=1)
print(dst)
