#!/usr/bin/env python3
"""tools/tie_coverage.py — which model definitions that the property theorems talk about are actually executed by the line-protocol
driver (and hence compared with the implementation)?  Approximate, textual: names are resolved per model file.
Output: for each property, the model definitions mentioned in theorem statements that are NOT reachable from any driver handler."""
import glob, os, re, sys, json
L = os.path.join(os.path.dirname(os.path.dirname(os.path.abspath(__file__))), 'lean', 'Qats')
DEF = re.compile(r'^(?:@\[[^\]]*\]\s*)?(?:private\s+|protected\s+)?(?:partial\s+)?(?:def|abbrev|structure|inductive)\s+([A-Za-z_][A-Za-z0-9_\.\']*)', re.M)
def strip_comments(t):
    t = re.sub(r'/-.*?-/', ' ', t, flags=re.S)
    return re.sub(r'--[^\n]*', ' ', t)
models = {}
for f in glob.glob(L + '/Model/*.lean') + [L + '/Gen/Formulas.lean', L + '/Prelude.lean']:
    if not os.path.exists(f):
        continue
    t = strip_comments(open(f).read())
    ms = list(DEF.finditer(t))
    defs = {}
    for i, m in enumerate(ms):
        body = t[m.end(): ms[i + 1].start() if i + 1 < len(ms) else len(t)]
        defs[m.group(1).split('.')[-1]] = body
    models[os.path.basename(f)[:-5]] = defs
allnames = {}
for mf, defs in models.items():
    for d in defs:
        allnames.setdefault(d, set()).add(mf)
def idents(text):
    return set(re.findall(r"[A-Za-z_][A-Za-z0-9_']*", text))
drv = ''
for f in glob.glob(L + '/Driver/*.lean') + [L + '/Driver.lean', L + '/Gen/DriverGen.lean']:
    drv += strip_comments(open(f).read()) + '\n'
reach = set()
work = [(mf, d) for d in idents(drv) if d in allnames for mf in allnames[d]]
while work:
    mf, d = work.pop()
    if (mf, d) in reach:
        continue
    reach.add((mf, d))
    for e in idents(models[mf][d]):
        if e in allnames:
            for mf2 in allnames[e]:
                if (mf2, e) not in reach:
                    work.append((mf2, e))
report = {}
for pf in sorted(glob.glob(L + '/Props/C*.lean')):
    t = strip_comments(open(pf).read())
    imports = re.findall(r'import Qats\.(?:Model|Lemmas|Gen)\.([A-Za-z0-9_]+)', open(pf).read())
    stmts = re.findall(r'theorem\s+[^\s]+(.*?):=', t, flags=re.S)
    used = set()
    for s in stmts:
        used |= {d for d in idents(s) if d in allnames}
    missing = sorted(d for d in used if not any((mf, d) in reach for mf in allnames[d]))
    report[os.path.basename(pf)[:-5]] = dict(model_definitions_in_statements=len(used), not_executed_by_driver=missing)
json.dump(report, sys.stdout, indent=1)
