#!/bin/bash
# usage: tools/try_mutant.sh <patch.diff> <demo.py|-> <PROP> [tier]   — applies the patch to /repo, runs demo + check, reverts
patch=$1; demo=$2; prop=$3; tier=${4:-quick}
cd /repo || exit 2
if [ -n "$(git status --porcelain --untracked-files=no)" ]; then echo "/repo dirty"; exit 2; fi
if [ "$demo" != "-" ]; then
  (cd /repo && PYTHONPATH=/repo /venv/bin/python -W ignore "$demo" >/dev/null 2>&1); echo "demo on clean tree: rc=$?"
fi
git apply "$patch" || { echo "patch does not apply"; exit 2; }
if [ "$demo" != "-" ]; then
  (cd /repo && PYTHONPATH=/repo /venv/bin/python -W ignore "$demo" >/dev/null 2>&1); echo "demo with mutant:    rc=$?"
fi
(cd /verif && ./check "$prop" "$tier" 2>&1 | grep -E "^(OK|VIOLATION|KNOWN|INFRA)" | cut -c1-200)
git checkout -- . 
# evidence written while a seeded change was applied must not stay in /verif/evidence
(cd /verif && git checkout -- evidence/"$prop".json 2>/dev/null)
# regenerate Gen from the clean tree so that the lake cache is not left on mutant formulas
(cd /verif && /venv/bin/python -m harness.translate >/dev/null 2>&1)
