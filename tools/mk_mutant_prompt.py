#!/usr/bin/env python3
"""tools/mk_mutant_prompt.py <PID> <worktree> <test file hint>  — prompt for a seeded-change sub-agent (gets only the property text)"""
import json, sys
pid, wt, hint = sys.argv[1], sys.argv[2], sys.argv[3]
p = [json.loads(l) for l in open('/verif/properties.jsonl')]
p = [x for x in p if x['id'] == pid][0]
tmpl = open('/verif/tools/prompts/mutant_template_C01.txt').read()
head, rest = tmpl.split("-----\n", 1)
_, tail = rest.split("-----\n", 1)
body = "%s — %s\n\n%s\n\nQuantified over: %s\n" % (pid, p['title'], p['statement'], p['quantifier']['text'])
out = head + "-----\n" + body + "-----\n" + tail
out = out.replace("/tmp/wt2_C01", wt).replace("test/test_tsdb.py test/test_readers.py test/test_io.py", hint)
out = out.replace("A first round of such changes has already been tried", "Two rounds of such changes have already been tried")
sys.stdout.write(out)
