#!/usr/bin/env python3
"""One-off helper: derive a Props/<id>.lean skeleton (statement + `:= lemma' args`) from the primed statements of a
Lemmas/*Main.lean file.  usage: mkprops.py <LemmasFile> <namespace-of-lemmas> name1' name2' ..."""
import re, sys
src = open(sys.argv[1]).read()
ns = sys.argv[2]
out = []
for name in sys.argv[3:]:
    m = re.search(r"((?:/--(?:(?!-/).)*-/\s*)?)theorem %s\s(.*?):=\s*by\s*\n\s*sorry" % re.escape(name), src, re.S)
    if not m:
        print("-- NOT FOUND", name); continue
    doc, sig = m.group(1), m.group(2).rstrip()
    # binder names: leading parenthesised groups before the top-level colon
    depth, i, groups, cur = 0, 0, [], ""
    binders_end = None
    while i < len(sig):
        ch = sig[i]
        if ch in "([{":
            depth += 1
        elif ch in ")]}":
            depth -= 1
        elif ch == ":" and depth == 0:
            binders_end = i
            break
        i += 1
    binders = sig[:binders_end]
    args = []
    for g in re.findall(r"\(([^()]*?):", binders):
        args += g.split()
    out.append("%stheorem %s %s:=\n  %s %s\n" % (doc, name.rstrip("'"), sig + " ", name, " ".join(args)))
print("\n".join(out))
