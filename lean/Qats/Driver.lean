import Qats.Driver.Rainflow
import Qats.Driver.FindReversals
import Qats.Gen.DriverGen
import Qats.Driver.SN
import Qats.Driver.Motion
import Qats.Driver.Dist
import Qats.Driver.Rebin
import Qats.Driver.Peaks
import Qats.Driver.Pipeline
import Qats.Driver.Names
import Qats.Driver.Ownership
import Qats.Driver.Dtg
import Qats.Driver.Welch
import Qats.Driver.Filter
import Qats.Driver.Gui
import Qats.Driver.ReadBind
import Qats.Driver.Export
import Qats.Driver.Stats
import Qats.Driver.Smooth
import Qats.Driver.Moments
/-! All line-protocol handlers (core Lean only; imported by `Driver.lean`). -/
namespace Qats.Driver

def handlers : List (List String → Option String) :=
  [Rainflow.handle, FindReversals.handle, Qats.Gen.handleGen, SN.handle, Motion.handle, Dist.handle, Rebin.handle, Peaks.handle, Pipeline.handle, Names.handle, Ownership.handle, Dtg.handle, Welch.handle, Filter.handle, Gui.handle, ReadBind.handle, Export.handle, Stats.handle, Smooth.handle, Moments.handle]

def dispatch (toks : List String) : String :=
  match handlers.findSome? (fun h => h toks) with
  | some r => r
  | none => "bad-op"

end Qats.Driver
