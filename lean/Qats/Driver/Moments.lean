import Qats.Prelude
import Qats.Model.Moments
import Qats.Driver.Dist
/-! Line-protocol handlers for the descriptive fields of the statistics summary.

* `st.moments <eps> <t…> | <x…>` (Float, 16-hex tokens): `ok start end duration dtavg mean std skew kurt min max tz`
  (`nan` for an undefined field; `eps` is scipy's degenerate-sample threshold factor `finfo(float64).eps`).
* `st.momentsq <t…> | <x…>` (exact Rat, `eps = 0`): `ok start end duration dtavg mean var kurt min max tz`
  (the fields computed with field operations only; `var = std²`). -/
namespace Qats.Driver.Moments
open Qats Qats.Moments Qats.Driver.Dist

def splitBar (rest : List String) : Option (List String × List String) :=
  match rest.span (· ≠ "|") with
  | (a, _ :: b) => some (a, b)
  | _ => none

def optF : Option Float → String
  | none => "nan"
  | some v => showFloatBits v

def optQ : Option Rat → String
  | none => "nan"
  | some v => showRat v

def handle : List String → Option String
  | "st.moments" :: eps :: rest => do
    let eps ← parseFloatBits? eps
    let (ts, xs) ← splitBar rest
    let ts ← parseFloats? ts
    let xs ← parseFloats? xs
    match describe eps ts xs with
    | none => some "err empty"
    | some d =>
      some ("ok " ++ joinWith " " [showFloatBits d.start, showFloatBits d.stop, showFloatBits d.duration, optF d.dtavg,
        showFloatBits d.mean, optF d.std, optF d.skew, optF d.kurt, showFloatBits d.min, showFloatBits d.max, optF d.tz])
  | "st.momentsq" :: rest => do
    let (ts, xs) ← splitBar rest
    let ts ← parseRats? ts
    let xs ← parseRats? xs
    match ts, xs with
    | t0 :: tr, x0 :: xr =>
      some ("ok " ++ joinWith " " [showRat t0, showRat (tr.getLastD t0), showRat (tr.getLastD t0 - t0), optQ (dtavg ts),
        showRat (Peaks.mean xs), optQ (tvar xs), optQ (kurt 0 xs), showRat (minL x0 xr), showRat (maxL x0 xr), optQ (tz ts xs)])
    | _, _ => some "err empty"
  | _ => none

end Qats.Driver.Moments
