import Qats.Prelude
import Qats.Model.Gui
import Qats.Model.GuiSettings
/-!
Line-protocol handler for the GUI orchestration model (C19).

`gui <catalogue> <event> …` → `ok <digest after event 1> <digest after event 2> …`

* catalogue: `1:1,2,3;2:4,5` (file id : series-name ids; a file id that is not listed cannot be read), `-` for empty
* events: `imp:1,2` `clr` `chk:<i>:<0|1>` `all` `non` `pat:-|f<id>|n<id>` `dsp` `gum` `tw:<k>` `fl:<k>` `mn:<0|1>`
  `sm:<0|1>` `cmp:<i>`
* digest (no blanks): `db=…|rows=…|st=…|pend=…|tr=…|sp=…|wb=…|cy=…|tb=…|tabs=…|rp=…|rt=…`
-/
namespace Qats.Driver.Gui
open Qats Qats.Gui

def nats? (s : String) : Option (List Nat) :=
  if s == "" || s == "-" then some [] else (s.splitOn ",").mapM String.toNat?

def bool? : String → Option Bool
  | "1" => some true
  | "0" => some false
  | _ => none

def parseCat (s : String) : Option (List (Nat × List Nat)) :=
  if s == "-" then some []
  else (s.splitOn ";").mapM fun part =>
    match part.splitOn ":" with
    | [f, ns] => do some ((← f.toNat?), (← nats? ns))
    | _ => none

def catFun (c : List (Nat × List Nat)) (f : Nat) : Option (List Nat) := (c.find? (fun p => p.1 == f)).map (·.2)

def parsePat (s : String) : Option Pat :=
  if s == "-" then some .all
  else match s.toList with
    | 'f' :: r => (String.ofList r).toNat?.map Pat.file
    | 'n' :: r => (String.ofList r).toNat?.map Pat.name
    | _ => none

def parseEvent (s : String) : Option Event :=
  match s.splitOn ":" with
  | ["imp", fs] => (nats? fs).map Event.import_
  | ["imp"] => some (.import_ [])
  | ["clr"] => some .clear
  | ["chk", i, b] => do some (.setCheck (← i.toNat?) (← bool? b))
  | ["all"] => some .selectAll
  | ["non"] => some .unselectAll
  | ["pat", p] => (parsePat p).map Event.setPat
  | ["dsp"] => some .display
  | ["gum"] => some .gumbel
  | ["tw", k] => k.toNat?.map Event.setTwin
  | ["fl", k] => k.toNat?.map Event.setFilt
  | ["mn", b] => (bool? b).map Event.setMinima
  | ["sm", b] => (bool? b).map Event.setShowMM
  | ["cmp", i] => i.toNat?.map Event.complete
  | _ => none

def b01 (b : Bool) : String := if b then "1" else "0"
def showKey (k : Key) : String := s!"{k.file}.{k.name}"
def showKeys (ks : List Key) : String := if ks.isEmpty then "-" else joinWith "," (ks.map showKey)
def showRow (r : Row) : String :=
  (match r.text.file with | some f => toString f | none => "-") ++ "." ++ toString r.text.name ++ (if r.checked then "+" else "-")
def showKind : Kind → String
  | .trace => "t"
  | .stats => "s"
  | .psd => "p"
  | .rfc => "r"
def showWorker : Worker → String
  | .imp fs => "I" ++ joinWith "," (fs.map toString)
  | .read sel => "R" ++ showKeys sel
  | .job k ser tw fl mn => s!"C{showKind k}:{showKeys ser}:{tw}:{fl}:{b01 mn}"
  | .readG sel => "G" ++ showKeys sel
  | .calcG ser tw fl => s!"H{showKeys ser}:{tw}:{fl}"
def showShown (v : Shown) : String := s!"{showKeys v.series}:{v.twin}:{v.filt}:{v.mode}"
def showView : Option Shown → String
  | none => "-"
  | some v => showShown v
def showStat (r : StatRow) : String := s!"{showKey r.key}:{r.twin}:{r.filt}:{b01 r.minima}"
def showReq : Option (List Key × Ui) → String
  | none => "-"
  | some (sel, u) => s!"{showKeys sel}:{u.twin}:{u.filt}:{b01 u.minima}:{b01 u.showMM}"
def orDash (xs : List String) (sep : String) : String := if xs.isEmpty then "-" else joinWith sep xs

def digest (s : State) : String :=
  joinWith "|" [
    "db=" ++ showKeys s.db,
    "rows=" ++ orDash (s.rows.map showRow) ",",
    "st=" ++ toString s.status,
    "pend=" ++ orDash (s.pending.map showWorker) ";",
    "tr=" ++ showView s.trace, "sp=" ++ showView s.spectrum, "wb=" ++ showView s.weibull, "cy=" ++ showView s.cycles,
    "tb=" ++ orDash (s.table.map showStat) ",",
    "tabs=" ++ orDash (s.tabs.map showShown) ";",
    "rp=" ++ showReq s.reqPlots, "rt=" ++ showReq s.reqTable]

def handle : List String → Option String
  | "gui" :: cat :: evs =>
    some <| match parseCat cat, evs.mapM parseEvent with
      | some c, some es => "ok " ++ joinWith " " ((trace_ (catFun c) init es).map digest)
      | _, _ => "err parse"
  | "gui.settings" :: n0 :: p0 :: b0 :: d0 :: dialogs =>
    -- gui.settings <norm 0|1> <nperseg> <nbins> <ndec> <ok:norm:nperseg:nbins:ndec>…   ('-' = widget not touched)
    -- reply: the application settings after each dialog, `norm,nperseg,nbins,ndec`
    let optNat? (s : String) : Option (Option Nat) := if s == "-" then some none else s.toNat?.map some
    let optBool? (s : String) : Option (Option Bool) := if s == "-" then some none else (bool? s).map some
    let parseDialog (s : String) : Option (Bool × Qats.GuiSettings.Edit) :=
      match s.splitOn ":" with
      | [ok, n, p, b, d] => do
        some ((← bool? ok), { norm := (← optBool? n), nperseg := (← optNat? p), nbins := (← optNat? b), ndec := (← optNat? d) })
      | _ => none
    let showApp (a : Qats.GuiSettings.App) : String :=
      s!"{if a.norm then 1 else 0},{a.nperseg},{a.nbins},{a.ndec}"
    match bool? n0, p0.toNat?, b0.toNat?, d0.toNat?, dialogs.mapM parseDialog with
    | some n, some p, some b, some d, some ds =>
      let step := fun (acc : Qats.GuiSettings.App × List String) (dl : Bool × Qats.GuiSettings.Edit) =>
        let a' := Qats.GuiSettings.dialog dl.1 dl.2 acc.1
        (a', acc.2 ++ [showApp a'])
      some ("ok " ++ joinWith " " (ds.foldl step (⟨n, p, b, d⟩, [])).2)
    | _, _, _, _, _ => some "err parse"
  | _ => none

end Qats.Driver.Gui
