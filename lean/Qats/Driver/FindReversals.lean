import Qats.Prelude
import Qats.Model.FindReversals
namespace Qats.Driver.FindReversals
open Qats Qats.FindReversals

def handle : List String → Option String
  | "sig.find_reversals" :: xs => do
    let xs ← parseRats? xs
    some ("ok " ++ joinWith ";" ((findReversals xs).map fun (i, v) => s!"{i}:{showRat v}"))
  | _ => none

end Qats.Driver.FindReversals
