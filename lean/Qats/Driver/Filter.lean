import Qats.Prelude
import Qats.Model.Filter
import Qats.Driver.Pipeline
import Qats.Gen.Formulas
/-!
Line-protocol handlers for the filter model (`Float`: numbers are IEEE bit patterns; `Rat`: `num/den`):

* `flt.design <lp|hp|bp|bs> <dt> <f…>`           → `ok <order> <btype> <routine> <Wn…>`   | `err value` (wrong arity)
* `flt.srcwn  <lp|hp|bp|bs> <dt> <f…>`           → `ok <Wn…>`: the normalised cut-offs by the expressions REGENERATED from
      `qats/signal.py` (`Qats.Gen.flt_*`, second argument of `butter`), which `design_wn_is_source` proves equal to `design`'s
* `flt.resp   <lp|hp|bp|bs> <dt> <f> <fc…>`      → `ok <responseOf (design …) dt f>`
* `flt.gain   <lp|hp|bp|bs> <n> <dt> <f> <fc…>`  → `ok <gain n dt spec f>` (the Hz reading, any order)
* `flt.steady <lp|hp|bp|bs> <dt> <mean> <fc…> | <A f φ>…` → `ok <mean'> <A' f' φ'>…`
* `flt.lin    <lp|hp|bp|bs> <dt> <fc…> | <a> <mean₁> <A f φ>… | <b> <mean₂> <A f φ>… | <t…>`
      → `ok <y(t)…>`, `y = (steadyState spec dt (Signal.comb a s₁ b s₂)).eval` (Float)
* `flt.arity  <lp|hp|bp|bs>`                     → `ok <Kind.arity>`
* `flt.tsget    <kind> <f…> | twin=… res=… taper=… filter=1 smooth=0 | <t…> | <x…>` (exact `Rat`; options as for `pl.get`)
      → `ok <t'…> | <x'…>` | `err assertion|bounds|index` — `tsGet` with Python's `round`, the tag taper `x ↦ x + 1` and, in
      place of scipy's routine `F`, the tag `F design xs = order :: code(btype) :: Wn ++ xs` (codes lp 1, hp 2, bp 3, bs 4):
      the design the filter stage builds (hence the sampling interval it was given and the cut-offs) and the samples it
      received (hence the order of the stages) are written out in the compared reply.  `err spec`: ill-formed request.
* `flt.tsfilter <kind> <f…> | twin=… res=- taper=… filter=1 smooth=0 | <t…> | <x…>`
      → as `flt.tsget`, or `err value` (wrong number of frequencies) — `tsFilter`.
-/
namespace Qats.Driver.Filter
open Qats Qats.Filter

def parseKind? : String → Option Kind
  | "lp" => some .lp
  | "hp" => some .hp
  | "bp" => some .bp
  | "bs" => some .bs
  | _ => none

def comps? : List Float → Option (List (Comp Float))
  | [] => some []
  | a :: f :: p :: r => (comps? r).map fun l => ⟨a, f, p⟩ :: l
  | _ => none

def splitAt? (sep : String) (l : List String) : Option (List String × List String) :=
  match l.span (· ≠ sep) with
  | (a, _ :: b) => some (a, b)
  | _ => none

def kindCode : Kind → Rat
  | .lp => 1
  | .hp => 2
  | .bp => 3
  | .bs => 4

/-- Tag in place of scipy's forward-backward routine: the design is written in front of the samples it is applied to. -/
def tagF (d : Design Rat) (xs : List Rat) : List Rat := (Nat.cast d.order : Rat) :: kindCode d.btype :: (d.wn ++ xs)

/-- Tag in place of the Tukey taper. -/
def tagTaper (xs : List Rat) : List Rat := xs.map (· + 1)

def showPipeErr : Qats.Pipeline.Err → String
  | .assertion => "err assertion"
  | .bounds => "err bounds"
  | .index => "err index"

def showPair (r : List Rat × List Rat) : String :=
  "ok " ++ Qats.Driver.Pipeline.showList r.1 ++ " | " ++ Qats.Driver.Pipeline.showList r.2

/-- `a mean A f φ …` → coefficient and signal. -/
def coefSignal? : List Float → Option (Float × Signal Float)
  | a :: m :: cs => (comps? cs).map fun l => (a, ⟨m, l⟩)
  | _ => none

def handleTs : List String → Option String
  | ["flt.arity", k] => do
    let k ← parseKind? k
    some s!"ok {k.arity}"
  | "flt.tsget" :: rest =>
    match Qats.Driver.Pipeline.splitBar rest with
    | [k :: fs, o, t, x] => do
      let k ← parseKind? k
      let fs ← parseRats? fs
      let o ← Qats.Driver.Pipeline.parseOpts? o
      let t ← parseRats? t
      let x ← parseRats? x
      match mkSpec k fs with
      | none => some "err spec"
      | some s =>
        match tsGet Qats.Driver.Pipeline.roundHalfEven tagF tagTaper t x s o.twin o.resample o.taper with
        | .ok r => some (showPair r)
        | .error e => some (showPipeErr e)
    | _ => none
  | "flt.tsfilter" :: rest =>
    match Qats.Driver.Pipeline.splitBar rest with
    | [k :: fs, o, t, x] => do
      let k ← parseKind? k
      let fs ← parseRats? fs
      let o ← Qats.Driver.Pipeline.parseOpts? o
      let t ← parseRats? t
      let x ← parseRats? x
      match tsFilter Qats.Driver.Pipeline.roundHalfEven tagF tagTaper t x k fs o.twin o.taper with
      | .ok r => some (showPair r)
      | .error .value => some "err value"
      | .error (.pipeline e) => some (showPipeErr e)
    | _ => none
  | "flt.lin" :: k :: dt :: rest =>
    match Qats.Driver.Pipeline.splitBar rest with
    | [fs, s1, s2, ts] => do
      let k ← parseKind? k
      let dt ← parseFloatBits? dt
      let fs ← parseFloats? fs
      let s1 ← parseFloats? s1
      let s2 ← parseFloats? s2
      let ts ← parseFloats? ts
      let (a, x) ← coefSignal? s1
      let (b, y) ← coefSignal? s2
      match mkSpec k fs with
      | none => some "err value"
      | some s =>
        let r := steadyState s dt (Signal.comb a x b y)
        some s!"ok {joinWith " " (ts.map fun t => showFloatBits (r.eval t))}"
    | _ => none
  | _ => none

def handleNum : List String → Option String
  | "flt.design" :: k :: dt :: fs => do
    let k ← parseKind? k
    let dt ← parseFloatBits? dt
    let fs ← parseFloats? fs
    match mkSpec k fs with
    | none => some "err value"
    | some s =>
      let d := design s dt
      some s!"ok {d.order} {d.btype.tag} {d.routine.tag} {joinWith " " (d.wn.map showFloatBits)}"
  | "flt.srcwn" :: k :: dt :: fs => do
    let k ← parseKind? k
    let dt ← parseFloatBits? dt
    let fs ← parseFloats? fs
    match mkSpec k fs with
    | none => some "err value"
    | some (.lp fc) => some s!"ok {showFloatBits (Qats.Gen.flt_lp_wn dt fc)}"
    | some (.hp fc) => some s!"ok {showFloatBits (Qats.Gen.flt_hp_wn dt fc)}"
    | some (.bp f1 f2) =>
      some s!"ok {showFloatBits (Qats.Gen.flt_bp_wn1 dt f1 f2)} {showFloatBits (Qats.Gen.flt_bp_wn2 dt f1 f2)}"
    | some (.bs f1 f2) =>
      some s!"ok {showFloatBits (Qats.Gen.flt_bs_wn1 dt f1 f2)} {showFloatBits (Qats.Gen.flt_bs_wn2 dt f1 f2)}"
  | "flt.resp" :: k :: dt :: f :: fs => do
    let k ← parseKind? k
    let dt ← parseFloatBits? dt
    let f ← parseFloatBits? f
    let fs ← parseFloats? fs
    match mkSpec k fs with
    | none => some "err value"
    | some s => some s!"ok {showFloatBits (responseOf (design s dt) dt f)}"
  | "flt.gain" :: k :: n :: dt :: f :: fs => do
    let k ← parseKind? k
    let n ← n.toNat?
    let dt ← parseFloatBits? dt
    let f ← parseFloatBits? f
    let fs ← parseFloats? fs
    match mkSpec k fs with
    | none => some "err value"
    | some s => some s!"ok {showFloatBits (gain n dt s f)}"
  | "flt.steady" :: k :: dt :: mean :: rest => do
    let k ← parseKind? k
    let dt ← parseFloatBits? dt
    let mean ← parseFloatBits? mean
    let (fs, cs) ← splitAt? "|" rest
    let fs ← parseFloats? fs
    let cs ← parseFloats? cs
    let cs ← comps? cs
    match mkSpec k fs with
    | none => some "err value"
    | some s =>
      let r := steadyState s dt ⟨mean, cs⟩
      let out := r.comps.foldr (fun c acc => showFloatBits c.amp :: showFloatBits c.freq :: showFloatBits c.phase :: acc) []
      some s!"ok {joinWith " " (showFloatBits r.mean :: out)}"
  | _ => none

def handle (toks : List String) : Option String :=
  match handleNum toks with
  | some r => some r
  | none => handleTs toks

end Qats.Driver.Filter
