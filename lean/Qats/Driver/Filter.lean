import Qats.Prelude
import Qats.Model.Filter
/-!
Line-protocol handlers for the filter model (all at `Float`; numbers are IEEE bit patterns):

* `flt.design <lp|hp|bp|bs> <dt> <f…>`           → `ok <order> <btype> <routine> <Wn…>`   | `err value` (wrong arity)
* `flt.resp   <lp|hp|bp|bs> <dt> <f> <fc…>`      → `ok <responseOf (design …) dt f>`
* `flt.gain   <lp|hp|bp|bs> <n> <dt> <f> <fc…>`  → `ok <gain n dt spec f>` (the Hz reading, any order)
* `flt.steady <lp|hp|bp|bs> <dt> <mean> <fc…> | <A f φ>…` → `ok <mean'> <A' f' φ'>…`
-/
namespace Qats.Driver.Filter
open Qats Qats.Filter

def parseKind? : String → Option Kind
  | "lp" => some .lp
  | "hp" => some .hp
  | "bp" => some .bp
  | "bs" => some .bs
  | _ => none

def comps? : List Float → Option (List (Comp Float))
  | [] => some []
  | a :: f :: p :: r => (comps? r).map fun l => ⟨a, f, p⟩ :: l
  | _ => none

def splitAt? (sep : String) (l : List String) : Option (List String × List String) :=
  match l.span (· ≠ sep) with
  | (a, _ :: b) => some (a, b)
  | _ => none

def handle : List String → Option String
  | "flt.design" :: k :: dt :: fs => do
    let k ← parseKind? k
    let dt ← parseFloatBits? dt
    let fs ← parseFloats? fs
    match mkSpec k fs with
    | none => some "err value"
    | some s =>
      let d := design s dt
      some s!"ok {d.order} {d.btype.tag} {d.routine.tag} {joinWith " " (d.wn.map showFloatBits)}"
  | "flt.resp" :: k :: dt :: f :: fs => do
    let k ← parseKind? k
    let dt ← parseFloatBits? dt
    let f ← parseFloatBits? f
    let fs ← parseFloats? fs
    match mkSpec k fs with
    | none => some "err value"
    | some s => some s!"ok {showFloatBits (responseOf (design s dt) dt f)}"
  | "flt.gain" :: k :: n :: dt :: f :: fs => do
    let k ← parseKind? k
    let n ← n.toNat?
    let dt ← parseFloatBits? dt
    let f ← parseFloatBits? f
    let fs ← parseFloats? fs
    match mkSpec k fs with
    | none => some "err value"
    | some s => some s!"ok {showFloatBits (gain n dt s f)}"
  | "flt.steady" :: k :: dt :: mean :: rest => do
    let k ← parseKind? k
    let dt ← parseFloatBits? dt
    let mean ← parseFloatBits? mean
    let (fs, cs) ← splitAt? "|" rest
    let fs ← parseFloats? fs
    let cs ← parseFloats? cs
    let cs ← comps? cs
    match mkSpec k fs with
    | none => some "err value"
    | some s =>
      let r := steadyState s dt ⟨mean, cs⟩
      let out := r.comps.foldr (fun c acc => showFloatBits c.amp :: showFloatBits c.freq :: showFloatBits c.phase :: acc) []
      some s!"ok {joinWith " " (showFloatBits r.mean :: out)}"
  | _ => none

end Qats.Driver.Filter
