import Qats.Prelude
import Qats.Model.Pipeline
/-! Line-protocol handlers for the pipeline model (exact Rat execution).
The abstract stages are instantiated by *tag functions* that do not commute: taper `x ↦ x + 1`, filter `(dt, x) ↦ 2x + dt`,
smooth `x ↦ x·x`; the harness patches the implementation's stage functions with the same tags, so that order and the
sampling interval handed to the filter are visible in the compared output. -/
namespace Qats.Driver.Pipeline
open Qats Qats.Pipeline

/-- Python's `round`: half to even. -/
def roundHalfEven (q : Rat) : Int :=
  let f := q.floor
  let d := q - (f : Rat)
  if d < 1/2 then f else if 1/2 < d then f + 1 else if f % 2 == 0 then f else f + 1

def tagStages : Stages Rat :=
  { taper := fun x => x.map (· + 1), filter := fun dt x => x.map fun v => 2 * v + dt, smooth := fun x => x.map fun v => v * v }

def showList (l : List Rat) : String := joinWith " " (l.map showRat)

def splitBar (l : List String) : List (List String) :=
  l.foldr (fun tok acc => if tok == "|" then [] :: acc else match acc with
    | h :: r => (tok :: h) :: r
    | [] => [[tok]]) [[]]

def kv? (pre : String) (s : String) : Option String := if s.startsWith pre then some (s.drop pre.length).toString else none

def parseOpts? (toks : List String) : Option (Opts Rat) :=
  match toks with
  | [tw, rs, tp, fl, sm] => do
    let tw ← kv? "twin=" tw
    let rs ← kv? "res=" rs
    let tp ← kv? "taper=" tp
    let fl ← kv? "filter=" fl
    let sm ← kv? "smooth=" sm
    let twin ← if tw == "-" then some none else
      match tw.splitOn "," with
      | [a, b] => do let a ← parseRat? a; let b ← parseRat? b; some (some (a, b))
      | _ => none
    let res ← if rs == "-" then some none else
      if rs.startsWith "step:" then (parseRat? (rs.drop 5).toString).map fun d => some (Resample.step d)
      else if rs.startsWith "arr:" then (parseRats? ((rs.drop 4).toString.splitOn ",")).map fun l => some (Resample.times l)
      else none
    some { twin := twin, resample := res, taper := tp == "1", filter := fl == "1", smooth := sm == "1" }
  | _ => none

def handle : List String → Option String
  | "pl.get" :: rest =>
    match splitBar rest with
    | [o, t, x] => do
      let o ← parseOpts? o
      let t ← parseRats? t
      let x ← parseRats? x
      match get roundHalfEven tagStages t x o with
      | .ok (t', x') => some ("ok " ++ showList t' ++ " | " ++ showList x')
      | .error .assertion => some "err assertion"
      | .error .bounds => some "err bounds"
      | .error .index => some "err index"
    | _ => none
  | "pl.interp" :: rest =>
    match splitBar rest with
    | [[], t, x, q] | [t, x, q] => do
      let t ← parseRats? t
      let x ← parseRats? x
      let q ← parseRats? q
      match interpAll t x q with
      | some v => some ("ok " ++ showList v)
      | none => some "err bounds"
    | _ => none
  | ["pl.newt", t0, t1, d] => do
    let t0 ← parseRat? t0
    let t1 ← parseRat? t1
    let d ← parseRat? d
    some ("ok " ++ showList (newTimearray roundHalfEven t0 t1 d))
  | "pl.resample" :: d :: rest =>
    match splitBar rest with
    | [[], t, x] | [t, x] => do
      let d ← parseRat? d
      let t ← parseRats? t
      let x ← parseRats? x
      match t.head?, t.getLast? with
      | some a, some b =>
        let k := ((b - a) / d).ceil.toNat
        match resampleStep t x d k with
        | some v => some ("ok " ++ showList v)
        | none => some "err bounds"
      | _, _ => some "err index"
    | _ => none
  | _ => none

end Qats.Driver.Pipeline
