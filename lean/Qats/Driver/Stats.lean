import Qats.Prelude
import Qats.Model.Stats
import Qats.Driver.Dist
/-! Line-protocol handler for the statistics summary (Float): `st.summary <isMin 0|1> <statsdur> <duration> <q1,q2,…> <x…>`. -/
namespace Qats.Driver.Stats
open Qats Qats.Stats

instance : IntCast Float := ⟨fun i => match i with
  | Int.ofNat n => n.toFloat
  | Int.negSucc n => -((n + 1).toFloat)⟩

/-- Python's `round` on floats (half to even). -/
def roundHalfEvenF (q : Float) : Int :=
  let f := q.floor
  let d := q - f
  let fi : Int := if f < 0 then -((-f).toUInt64.toNat : Int) else (f.toUInt64.toNat : Int)
  if d < 0.5 then fi else if d > 0.5 then fi + 1 else if fi % 2 == 0 then fi else fi + 1

def handle : List String → Option String
  | "st.summary" :: isMin :: sd :: dur :: qs :: xs => do
    let sd ← parseFloatBits? sd
    let dur ← parseFloatBits? dur
    let qs ← parseFloats? (qs.splitOn ",")
    let xs ← parseFloats? xs
    match summary roundHalfEvenF sd dur qs (isMin == "1") xs with
    | none => some "ok none"
    | some s =>
      some ("ok " ++ joinWith " " ([s.wloc, s.wscale, s.wshape, s.gloc, s.gscale].map showFloatBits) ++ " | " ++
        joinWith " " (s.pvalues.map showFloatBits) ++ " | " ++ toString s.sample.length)
  | _ => none

end Qats.Driver.Stats
