import Qats.Prelude
import Qats.Model.Dist
/-! Line-protocol handlers for the distribution / estimator model (Float execution). -/
namespace Qats.Driver.Dist
open Qats Qats.Dist

instance : NatCast Float := ⟨Nat.toFloat⟩

def showExt : Ext Float → String
  | .val v => "ok " ++ showFloatBits v
  | .posInf => "ok inf"
  | .nan => "ok nan"

def showFs (l : List Float) : String := "ok " ++ joinWith " " (l.map showFloatBits)

def handle : List String → Option String
  | ["dist.invcdf", "wb", loc, scale, shape, p] => do
    let v ← parseFloats? [loc, scale, shape, p]
    match v with
    | [loc, scale, shape, p] => some (showExt (weibullInvcdf loc scale shape p))
    | _ => none
  | ["dist.invcdf", "gu", loc, scale, p] => do
    let v ← parseFloats? [loc, scale, p]
    match v with
    | [loc, scale, p] => some (showExt (gumbelInvcdf loc scale p))
    | _ => none
  | ["dist.invcdf", "gm", loc, scale, p] => do
    let v ← parseFloats? [loc, scale, p]
    match v with
    | [loc, scale, p] => some (showExt (gumbelMinInvcdf loc scale p))
    | _ => none
  | "est.mlj" :: j :: xs => do
    let j ← j.toNat?
    let xs ← parseFloats? xs
    some (showFs [mlj xs j])
  | "est.mk" :: k :: xs => do
    let k ← k.toNat?
    let xs ← parseFloats? xs
    some (showFs [mk xs k])
  | "est.wbpwm" :: xs => do
    let xs ← parseFloats? xs
    let (a, b, c) := weibullPwm xs
    some (showFs [a, b, c])
  | "est.wbpwm2" :: xs => do
    let xs ← parseFloats? xs
    let (b, c) := weibullPwm2 xs
    some (showFs [b, c])
  | "est.wbmsm" :: c :: xs => do
    let c ← parseFloatBits? c
    let xs ← parseFloats? xs
    let (a, b, c') := weibullMsmGiven c xs
    some (showFs [a, b, c', sampleSkew xs])
  | "est.gupwm" :: xs => do
    let xs ← parseFloats? xs
    let (a, b) := gumbelPwm xs
    some (showFs [a, b])
  | "est.gumsm" :: xs => do
    let xs ← parseFloats? xs
    let (a, b) := gumbelMsm xs
    some (showFs [a, b])
  | "est.gmmsm" :: xs => do
    let xs ← parseFloats? xs
    let (a, b) := gumbelMinMsm xs
    some (showFs [a, b])
  | "est.gumle" :: loc :: scale :: xs => do
    let loc ← parseFloatBits? loc
    let scale ← parseFloatBits? scale
    let xs ← parseFloats? xs
    let (a, b) := gumbelMleEq loc scale xs
    some (showFs [a, b])
  | "est.gmmle" :: loc :: scale :: xs => do
    let loc ← parseFloatBits? loc
    let scale ← parseFloatBits? scale
    let xs ← parseFloats? xs
    let (a, b) := gumbelMinMleEq loc scale xs
    some (showFs [a, b])
  | "est.gulse" :: loc :: scale :: xs => do
    let loc ← parseFloatBits? loc
    let scale ← parseFloatBits? scale
    let xs ← parseFloats? xs
    some (showFs (gumbelLseRes loc scale xs))
  | "est.gmlse" :: loc :: scale :: xs => do
    let loc ← parseFloatBits? loc
    let scale ← parseFloatBits? scale
    let xs ← parseFloats? xs
    some (showFs (gumbelMinLseRes loc scale xs))
  -- closed-form step of `gumbel.pwm` on given moments `m0 m1` (population-moment oracle of C16): `b`, then `a` from `b`
  | ["est.gupwmform", m0, m1] => do
    let m0 ← parseFloatBits? m0
    let m1 ← parseFloatBits? m1
    let b := Qats.Gen.gu_pwm_b m0 m1
    some (showFs [Qats.Gen.gu_pwm_a b m0, b])
  -- location step of `gumbel.msm` / `gumbelmin.msm` given the scale `b` and the mean
  | ["est.msmloc", b, mean] => do
    let b ← parseFloatBits? b
    let mean ← parseFloatBits? mean
    some (showFs [Qats.Gen.gu_msm_a b mean, Qats.Gen.gm_msm_a b mean])
  | _ => none

end Qats.Driver.Dist
