import Qats.Prelude
import Qats.Model.Export
import Qats.Driver.Pipeline
import Qats.Driver.Names
/-! Line-protocol handlers for the export model (`ex.*`), exact `Rat` execution.
Strings cross the protocol hex-encoded (`Qats.Driver.Names.hex`); series are separated by `;`, their fields by `|`.
Stage functions are the tag functions of `Qats.Driver.Pipeline` (the harness patches the implementation's with the same). -/
namespace Qats.Driver.Export
open Qats Qats.Export Qats.Names
open Qats.Driver.Names (hex unhex? strList?)
open Qats.Driver.Pipeline (roundHalfEven tagStages splitBar kv? parseOpts?)

def showRats (l : List Rat) : String := if l.isEmpty then "=" else joinWith "," (l.map showRat)

def splitSemi (l : List String) : List (List String) :=
  l.foldr (fun tok acc => if tok == ";" then [] :: acc else match acc with
    | h :: r => (tok :: h) :: r
    | [] => [[tok]]) [[]]

def dtg? (s : String) : Option (Option Int) := if s == "-" then some none else s.toInt?.map some

/-- `dtg | t…` -/
def timeOnly? (toks : List String) : Option (Option Int × List Rat) :=
  match splitBar toks with
  | [[d], t] => do some (← dtg? d, ← parseRats? t)
  | _ => none

/-- `key dtg | t… | x…` -/
def entry? (toks : List String) : Option (Entry Rat) :=
  match splitBar toks with
  | [[k, d], t, x] => do some ⟨← unhex? k, ← dtg? d, ← parseRats? t, ← parseRats? x⟩
  | _ => none

def twinRes? (tw rs : String) : Option (Option (Rat × Rat) × Option (Pipeline.Resample Rat)) := do
  let o ← parseOpts? [tw, rs, "taper=0", "filter=0", "smooth=0"]
  some (o.twin, o.resample)

def showDev : Dev → String
  | .dt => "dt"
  | .start => "start"
  | .stop => "end"
  | .dtgRef => "dtg_ref"

def showErr : Err → String
  | .fileExists => "fileexists"
  | .key => "key"
  | .value => "value"
  | .type => "type"
  | .assertion => "assertion"
  | .bounds => "bounds"
  | .index => "index"
  | .notImplemented => "notimplemented"

def showExt : Ext → String
  | .ts => "ts"
  | .dat => "dat"
  | .h5 => "h5"
  | .pkl => "pkl"
  | .other => "other"

def ext? : String → Option Ext
  | "ts" => some .ts
  | "dat" => some .dat
  | "h5" => some .h5
  | "pkl" => some .pkl
  | "other" => some .other
  | _ => none

def showEffect : Effect Rat → String
  | .mkdirs => "mkdirs"
  | .select => "select"
  | .friendly => "friendly"
  | .timeCheck => "timecheck"
  | .commonTime => "commontime"
  | .process => "process"
  | .openTarget e => "open:" ++ showExt e
  | .write n t x => "write:" ++ hex n ++ ":" ++ showRats t ++ ":" ++ showRats x
  | .raise e => "raise:" ++ showErr e

def showWord : Word Rat → String
  | .int n => "i" ++ toString n
  | .val v => "v" ++ showRat v

def word? (s : String) : Option (Word Rat) :=
  if s.startsWith "i" then (s.drop 1).toString.toInt?.map Word.int
  else if s.startsWith "v" then (parseRat? (s.drop 1).toString).map Word.val
  else none

def bool? (pre s : String) : Option Bool := (kv? pre s).map (· == "1")

def handle : List String → Option String
  | "ex.check" :: tw :: rs :: ";" :: rest => do
    let (twin, res) ← twinRes? tw rs
    let sers ← (splitSemi rest).mapM timeOnly?
    match sers.mapM fun s => summary s.1 s.2 with
    | none => some "err index"
    | some ss =>
      match checkTimeArrays ss twin res with
      | .error e => some ("err " ++ showErr e)
      | .ok tc =>
        let rec' := match tc.common with
          | some (a, b, d) => s!"{showRat a},{showRat b},{showRat d}"
          | none => "-"
        let dr := match tc.dtgRef with
          | some i => toString i
          | none => "-"
        some s!"ok common={if tc.isCommon then 1 else 0} dtgdef={if tc.dtgDefined then 1 else 0} dtgref={dr} rec={rec'} devs={joinWith "," (tc.deviations.map showDev)}"
  | "ex.cct" :: tw :: ";" :: rest => do
    let (twin, _) ← twinRes? tw "res=-"
    let sers ← (splitSemi rest).mapM timeOnly?
    match sers.mapM fun s => summary s.1 s.2 with
    | none => some "err index"
    | some ss =>
      match createCommonTime roundHalfEven ss ((sers.head?.map (·.2)).getD []) twin with
      | .ok ct => some ("ok " ++ showRats ct)
      | .error e => some ("err " ++ showErr e)
  -- `TsDB.is_common_time(names, twin)` on series without `dtg_ref`: `ex.iscommon twin=… ; - | t… ; - | t…`
  | "ex.iscommon" :: tw :: ";" :: rest => do
    let (twin, _) ← twinRes? tw "res=-"
    let sers ← (splitSemi rest).mapM timeOnly?
    match isCommonTime (sers.map (·.2)) twin with
    | some b => some (if b then "ok 1" else "ok 0")
    | none => some "err"
  | "ex.names" :: cwd :: base :: keys => do
    let cwd ← kv? "cwd=" cwd
    let base ← bool? "base=" base
    let keys ← keys.mapM unhex?
    match friendlyNames (← unhex? cwd) keys base with
    | .ok l => some ("ok " ++ Qats.Driver.Names.showList l)
    | .error e => some ("err " ++ showErr e)
  | "ex.export" :: ex :: eo :: md :: bs :: fc :: xt :: cwd :: tw :: rs :: tp :: fl :: sm :: ";" :: rest => do
    let opts ← parseOpts? [tw, rs, tp, fl, sm]
    let r : Req Rat := { targetExists := ← bool? "exists=" ex, existOk := ← bool? "existok=" eo, dirMissing := ← bool? "mkdir=" md,
                         basename := ← bool? "base=" bs, force := ← bool? "force=" fc, ext := ← ext? (← kv? "ext=" xt), opts := opts }
    let cwd ← unhex? (← kv? "cwd=" cwd)
    let sel ← if rest.isEmpty then some [] else (splitSemi rest).mapM entry?
    some ("ok " ++ joinWith " " ((exportTrace cwd roundHalfEven tagStages r sel).map showEffect))
  -- record-level codecs
  | ["ex.keyenc", names] => do some ("ok " ++ hex (encodeKey (← strList? names)))
  | ["ex.keydec", text] => do some ("ok " ++ Qats.Driver.Names.showList (decodeKey (← unhex? text)))
  | ["ex.datenc", delim, names] => do some ("ok " ++ hex (encodeDatHeader (← unhex? delim) (← strList? names)))
  | ["ex.datdec", line] => do
    match decodeDatHeader (← unhex? line) with
    | .ok l => some ("ok " ++ Qats.Driver.Names.showList l)
    | .error e => some ("err " ++ showErr e)
  | "ex.tsenc" :: rest =>
    match splitBar rest with
    | t :: xs => do
      let t ← parseRats? t
      let xs ← xs.mapM parseRats?
      some ("ok " ++ joinWith " " ((encodeTs id t xs).map showWord))
    | _ => none
  | "ex.tsdec" :: rest => do
    let w ← rest.mapM word?
    match decodeTs w with
    | some rows => some ("ok " ++ joinWith " | " (rows.map showRats))
    | none => some "err"
  | "ex.h5" :: rest => do
    -- `name | t… | x…` per series
    let items ← (splitSemi rest).mapM fun toks =>
      match splitBar toks with
      | [[n], t, x] => do some ((← unhex? n), (← parseRats? t), (← parseRats? x))
      | _ => none
    match encodeH5 items with
    | none => some "err index"
    | some f =>
      let names := h5Names f
      let body := names.map fun n =>
        match h5Read f n with
        | some (t, x) => hex n ++ ":" ++ showRats t ++ ":" ++ showRats x
        | none => hex n ++ ":missing"
      some ("ok " ++ joinWith " " body)
  -- ascii rows (`q` = identity: values that `%15.7g` prints exactly): `ex.rows n=<rows> m=<columns read> | time… | x1… | …`;
  -- reply: the rows `encodeRows` writes and the columns `decodeRows` reads back from them
  | "ex.rows" :: n :: m :: "|" :: rest => do
    let n ← (← kv? "n=" n).toNat?
    let m ← (← kv? "m=" m).toNat?
    let cols ← (splitBar rest).mapM parseRats?
    let rows := encodeRows (id : Rat → Rat) cols n
    some ("ok rows=" ++ joinWith ";" (rows.map showRats) ++ " cols=" ++ joinWith ";" ((decodeRows rows m).map showRats))
  -- pickled frame: `ex.pkl <names> | t… | x1… | …`; reply: names, index and columns `decodePkl (encodePkl …)` returns
  | "ex.pkl" :: names :: "|" :: rest => do
    let names ← strList? names
    match splitBar rest with
    | t :: xs => do
      let t ← parseRats? t
      let xs ← xs.mapM parseRats?
      match decodePkl (encodePkl names t xs) with
      | .ok (ns, ti, cs) =>
        some ("ok " ++ Qats.Driver.Names.showList ns ++ " " ++ showRats ti ++ " " ++ joinWith ";" (cs.map showRats))
      | .error e => some ("err " ++ showErr e)
    | _ => none
  | _ => none

end Qats.Driver.Export
