import Qats.Prelude
import Qats.Model.Peaks
/-! Line-protocol handlers for the peaks model (exact Rat execution). -/
namespace Qats.Driver.Peaks
open Qats Qats.Peaks

def showPairs (l : List (Nat × Rat)) : String := "ok " ++ joinWith ";" (l.map fun (i, v) => s!"{i}:{showRat v}")

def thr? (s : String) : Option (Option Rat) := if s == "-" then some none else (parseRat? s).map some

def handle : List String → Option String
  | "pk.max" :: loc :: thr :: xs => do
    let thr ← thr? thr
    let xs ← parseRats? xs
    some (showPairs (findMaxima xs (loc == "local") thr))
  | "pk.min" :: loc :: thr :: xs => do
    let thr ← thr? thr
    let xs ← parseRats? xs
    some (showPairs (findMinima xs (loc == "local") thr))
  | "pk.freq" :: up :: rest => do
    let (ts, xs) ← (match rest.span (· ≠ "|") with
      | (a, _ :: b) => some (a, b)
      | _ => none)
    let ts ← parseRats? ts
    let xs ← parseRats? xs
    match averageFrequency ts xs (up == "1") with
    | none => some "ok nan"
    | some f => some ("ok " ++ showRat f)
  | _ => none

end Qats.Driver.Peaks
