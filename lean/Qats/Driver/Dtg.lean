import Qats.Prelude
import Qats.Model.Dtg
/-!
Line-protocol handlers for the date-time bookkeeping model (exact Rat execution; instants = seconds since an epoch).

`dtg.run F|S <ref|-> <t…> | <op…>`   ops: `set:<rat>` `set:-` `set:bad` `copy` `read`
   reply `ok <state0> <res1>=<state1> …`, state = `ref;t,t,…;cache;start;end` (`-` = None), res = `ok` | `err:<kind>`;
   `err empty` when the constructor rejects the input.
`dtg.runx F|S <ref|-> <t…> | <op…>`  as `dtg.run`, with the additional op `keep:<0/1 mask>` (`modify`: the retained samples);
   reply `ok <state0> <state1> …` (states only).
`dtg.refs <ref|->…`   reply `ok <defined> <same> <blocked> <ref|->`
-/
namespace Qats.Driver.Dtg
open Qats Qats.Dtg

def optRat? (s : String) : Option (Option Rat) := if s == "-" then some none else (parseRat? s).map some

def showOpt (r : Option Rat) : String := match r with | none => "-" | some v => showRat v

def showList (l : List Rat) : String := joinWith "," (l.map showRat)

def showState (s : St Rat) : String :=
  joinWith ";" [showOpt s.ref, showList s.t, (match s.cache with | none => "-" | some c => showList c),
    showOpt (dtgStart s), showOpt (dtgEnd s)]

def op? (s : String) : Option (Op Rat) :=
  if s == "copy" then some .copy
  else if s == "read" then some .read
  else if s == "set:-" then some (.set .none)
  else if s == "set:bad" then some (.set .bad)
  else if s.startsWith "set:" then (parseRat? (s.drop 4).toString).map fun x => .set (.inst x)
  else none

def opx? (s : String) : Option (OpX Rat) :=
  if s.startsWith "keep:" then some (.keep ((s.drop 5).toString.toList.map (· == '1')))
  else (op? s).map .base

/-- All intermediate states of a history with in-place processing. -/
def traceX (s : St Rat) : List (OpX Rat) → List (St Rat)
  | [] => []
  | op :: ops => stepX s op :: traceX (stepX s op) ops

def showErr : Option Err → String
  | none => "ok"
  | some .badType => "err:type"
  | some .noRef => "err:noref"
  | some .empty => "err:empty"

def handle : List String → Option String
  | "dtg.run" :: kind :: ref :: rest => do
    let (ts, ops) ← (match rest.span (· ≠ "|") with
      | (a, _ :: b) => some (a, b)
      | _ => none)
    let ref ← optRat? ref
    let ts ← parseRats? ts
    let ops ← ops.mapM op?
    let s0 := if kind == "S" then ofStamps ts ref else ofFloats ts ref
    match s0 with
    | none => some "err empty"
    | some s0 =>
      some (joinWith " " ("ok" :: showState s0 :: (trace s0 ops).map fun (s, e) => showErr e ++ "=" ++ showState s))
  | "dtg.runx" :: kind :: ref :: rest => do
    let (ts, ops) ← (match rest.span (· ≠ "|") with
      | (a, _ :: b) => some (a, b)
      | _ => none)
    let ref ← optRat? ref
    let ts ← parseRats? ts
    let ops ← ops.mapM opx?
    let s0 := if kind == "S" then ofStamps ts ref else ofFloats ts ref
    match s0 with
    | none => some "err empty"
    | some s0 => some (joinWith " " ("ok" :: showState s0 :: (traceX s0 ops).map showState))
  | "dtg.refs" :: refs => do
    let refs ← refs.mapM optRat?
    some (joinWith " " ["ok", toString (refDefined refs), toString (sameRef refs), toString (refBlocked refs),
      showOpt (commonRef refs)])
  | _ => none

end Qats.Driver.Dtg
