import Qats.Prelude
import Qats.Model.Smooth
/-!
Line-protocol handlers for the smoothing / tapering model (Float execution; `Rat` for the rectangular window):

  sm.smooth w… | x…          → ok y… | err short          (qats.signal.smooth(x, len(w), mode='same') with window weights w)
  sm.smoothq W | x…           → ok y… | err short          (exact rationals, rectangular window of length W)
  sm.tukey <alpha> <n>        → ok w…                       (the window built by qats.signal.taper(…, 'tukey', alpha))
  sm.taper <alpha> | x…       → ok y…                       (qats.signal.taper(x, 'tukey', alpha)[0])
  sm.stage <alpha> | x…       → ok y…                       (tapering stage of TimeSeries.get: about the mean)
-/
namespace Qats.Driver.Smooth
open Qats Qats.Smooth

instance : NatCast Float := ⟨Nat.toFloat⟩

def splitAt? (sep : String) (l : List String) : Option (List String × List String) :=
  match l.span (· ≠ sep) with
  | (a, _ :: b) => some (a, b)
  | _ => none

def showF (l : List Float) : String := "ok " ++ joinWith " " (l.map showFloatBits)

def handle : List String → Option String
  | "sm.smooth" :: rest => do
    let (ws, xs) ← splitAt? "|" rest
    let ws ← parseFloats? ws
    let xs ← parseFloats? xs
    match smooth ws xs with
    | .ok y => some (showF y)
    | .error .tooShort => some "err short"
  | "sm.smoothq" :: w :: "|" :: xs => do
    let W ← w.toNat?
    let xs ← parseRats? xs
    match smooth (List.replicate W (1 : Rat)) xs with
    | .ok y => some ("ok " ++ joinWith " " (y.map showRat))
    | .error .tooShort => some "err short"
  | ["sm.tukey", a, n] => do
    let a ← parseFloatBits? a
    let n ← n.toNat?
    some (showF (tukey a n))
  | "sm.taper" :: a :: "|" :: xs => do
    let a ← parseFloatBits? a
    let xs ← parseFloats? xs
    some (showF (taper a xs))
  | "sm.stage" :: a :: "|" :: xs => do
    let a ← parseFloatBits? a
    let xs ← parseFloats? xs
    some (showF (taperStage a xs))
  | _ => none

end Qats.Driver.Smooth
