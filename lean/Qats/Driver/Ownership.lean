import Qats.Prelude
import Qats.Model.Ownership
/-! Line-protocol handler for the ownership model: `own.get|own.minima <twin> <none|step|array> <unif> <taper> <filter> <smooth>`. -/
namespace Qats.Driver.Ownership
open Qats Qats.Ownership

def b? : String → Option Bool
  | "1" => some true
  | "0" => some false
  | _ => none

def showTag : Tag → String
  | .stored => "stored"
  | .fresh => "fresh"
  | .arg => "arg"

def handle : List String → Option String
  | [cmd, tw, rs, un, tp, fl, sm] => do
    let prog ← (match cmd with
      | "own.get" => some getProgram
      | "own.minima" => some minimaProgram
      | _ => none)
    let rs ← (match rs with
      | "none" => some Res.none
      | "step" => some Res.step
      | "array" => some Res.array
      | _ => none)
    let o : Opts := ⟨← b? tw, rs, ← b? un, ← b? tp, ← b? fl, ← b? sm⟩
    let (e, ws) := runSteps start (prog o)
    some s!"ok t={showTag e.t} x={showTag e.x} writes={joinWith "," (ws.map showTag)}"
  | _ => none

end Qats.Driver.Ownership
