import Qats.Prelude
import Qats.Model.Rainflow
/-! Line-protocol handlers for the rainflow model (exact `Rat` execution). -/
namespace Qats.Driver.Rainflow
open Qats Qats.Rainflow

def showCyc (c : Cyc Rat) : String := s!"{showRat c.range},{showRat c.mean}"
def showRow (c : Row Rat) : String := s!"{showRat c.range},{showRat c.mean},{showRat c.count}"

def parseBool? : String → Option Bool
  | "1" => some true
  | "0" => some false
  | _ => none

def handle : List String → Option String
  | "rf.reversals" :: ep :: xs => do
    let ep ← parseBool? ep
    let xs ← parseRats? xs
    match reversals ep xs with
    | none => some "err short"
    | some ps => some ("ok " ++ joinWith " " (ps.map showRat))
  | "rf.cycles" :: ep :: xs => do
    let ep ← parseBool? ep
    let xs ← parseRats? xs
    match cycles ep xs with
    | none => some "err short"
    | some (f, h) => some ("ok " ++ joinWith ";" (f.map showCyc) ++ " | " ++ joinWith ";" (h.map showCyc))
  | "rf.count" :: ep :: xs => do
    let ep ← parseBool? ep
    let xs ← parseRats? xs
    match countCycles ep xs with
    | none => some "err short"
    | some rows => some ("ok " ++ joinWith ";" (rows.map showRow))
  | _ => none

end Qats.Driver.Rainflow
