import Qats.Prelude
import Qats.Model.SN
/-! Line-protocol handlers for the S-N model (Float execution; values cross as IEEE bit patterns, `-` = None). -/
namespace Qats.Driver.SN
open Qats Qats.SN

def optF? (s : String) : Option (Option Float) :=
  if s == "-" then some none else (parseFloatBits? s).map some

/-- `<m1> <loga1> <m2|-> <nswitch|-> <t_exp|-> <t_ref|->` -/
def parseCurve? : List String → Option (Curve Float × List String)
  | m1 :: loga1 :: m2 :: nsw :: te :: tr :: rest => do
    let m1 ← parseFloatBits? m1
    let loga1 ← parseFloatBits? loga1
    let m2 ← optF? m2
    let nsw ← optF? nsw
    let te ← optF? te
    let tr ← optF? tr
    let thick := match te, tr with
      | some a, some b => some (a, b)
      | _, _ => none
    some ({ m1 := m1, loga1 := loga1, m2 := m2, nswitch := nsw.getD 0.0, thick := thick }, rest)
  | _ => none

def showOpt : Option Float → String
  | none => "err value"
  | some v => "ok " ++ showFloatBits v

def handle : List String → Option String
  | "sn.n" :: rest => do
    let (c, rest) ← parseCurve? rest
    match rest with
    | [s, t] =>
      let s ← parseFloatBits? s
      let t ← optF? t
      some (showOpt (c.n s t))
    | _ => none
  -- `sn.narray <curve> <t|-> <s_1> … <s_k>` (k ≥ 0): `Curve.nArray`, the model of `SNCurve.n(<array>, t)`;
  -- reply `ok <n_1> … <n_k>` or `err value` (thickness given, curve without thickness parameters)
  | "sn.narray" :: rest => do
    let (c, rest) ← parseCurve? rest
    match rest with
    | t :: ss =>
      let t ← optF? t
      let ss ← parseFloats? ss
      match c.nArray ss t with
      | none => some "err value"
      | some ns => some (joinWith " " ("ok" :: ns.map showFloatBits))
    | _ => none
  | "sn.strength" :: rest => do
    let (c, rest) ← parseCurve? rest
    match rest with
    | [n, t] =>
      let n ← parseFloatBits? n
      let t ← optF? t
      some (showOpt (c.strength n t))
    | _ => none
  | "sn.derived" :: rest => do
    let (c, _) ← parseCurve? rest
    match c.m2 with
    | none => some "ok -"
    | some m2 =>
      let l2 := c.loga2 m2
      some s!"ok {showFloatBits l2} {showFloatBits (Qats.Gen.sn_a2 l2)} {showFloatBits c.sswitch}"
  | "sn.tcorr" :: [te, tr, t] => do
    let te ← parseFloatBits? te
    let tr ← parseFloatBits? tr
    let t ← parseFloatBits? t
    some ("ok " ++ showFloatBits (tcorr te tr t))
  | "sn.minersum" :: rest => do
    let (c, rest) ← parseCurve? rest
    match rest with
    | td :: scf :: th :: hist =>
      let td ← parseFloatBits? td
      let scf ← parseFloatBits? scf
      let th ← optF? th
      let vals ← parseFloats? hist
      let rec pairs : List Float → List (Float × Float)
        | a :: b :: r => (a, b) :: pairs r
        | _ => []
      some (showOpt (minersum c td scf th (pairs vals)))
    | _ => none
  | _ => none

end Qats.Driver.SN
