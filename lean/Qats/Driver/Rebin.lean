import Qats.Prelude
import Qats.Model.Rebin
/-! Line-protocol handlers for the re-binning model (exact Rat execution). -/
namespace Qats.Driver.Rebin
open Qats Qats.Rebin

def triples : List Rat → List (Row Rat)
  | r :: m :: c :: rest => ⟨r, m, c⟩ :: triples rest
  | _ => []

def showOpt : Option Rat → String
  | none => "nan"
  | some v => showRat v

/-- `k = max(⌈(stop − start)/w⌉, 1)` as in `_create_bins`. -/
def binCount (start stop w : Rat) : Nat :=
  max ((stop - start) / w).ceil.toNat 1

def handle : List String → Option String
  | "rebin" :: by_ :: kind :: v :: rows => do
    let rows ← parseRats? rows
    let table := triples rows
    let byv ← match by_ with
      | "range" => some BinBy.range
      | "mean" => some BinBy.mean
      | _ => none
    let ranges := table.map (·.range)
    let means := table.map (·.mean)
    let (start, stop) := match byv with
      | .range => ((0 : Rat), maxOf ranges 0)
      | .mean => (minOf means 0, maxOf means 0)
    let spec ← match kind with
      | "n" => v.toNat?.map Spec.n
      | "w" => (parseRat? v).map fun w => Spec.w w (binCount start stop w)
      | _ => none
    let out := rebin table byv spec
    -- rows as the implementation returns them: (range, mean, count)
    let fmt := fun (b : Bin Rat) => match byv with
      | .range => s!"{showRat b.primary},{showOpt b.secondary},{showRat b.count}"
      | .mean => s!"{showOpt b.secondary},{showRat b.primary},{showRat b.count}"
    some ("ok " ++ joinWith ";" (out.map fmt))
  | "mesh" :: nr :: nm :: rows => do
    let nr ← nr.toNat?
    let nm ← nm.toNat?
    let rows ← parseRats? rows
    let (rb, mb, cm) := mesh (triples rows) nr nm
    some ("ok " ++ joinWith " " (rb.map showRat) ++ " | " ++ joinWith " " (mb.map showRat) ++ " | " ++
      joinWith ";" (cm.map fun row => joinWith " " (row.map showRat)))
  | _ => none

end Qats.Driver.Rebin
