import Qats.Prelude
import Qats.Model.Welch
import Qats.Model.WelchArea
/-!
Line-protocol handlers for the Welch / PSD model (Float execution):

  psd.welch <dt> <nperseg|-> <noverlap|-> <nfft|-> x…          → ok f… | p…      (qats.signal.psd)
  psd.ts <nperseg|-> <noverlap|-> <nfft|-> <0|1> t… | x…        → ok f… | p…      (TimeSeries.psd; 1 = normalize)
  psd.gui <nperseg> <0|1> t… | x…                               → ok f… | p…      (app.funcs.calculate_psd)
  psd.guisig t… | x…                                            → ok t'… | x'…    (get(resample=dt, taperfrac=0.1))
  psd.area <dt> <nperseg|-> <noverlap|-> <nfft|-> x…            → ok <area> <mwms>  (`welchArea`: Σ P·Δf of the model's
                                                                  estimate, and the mean over the segments of Σ(w·y)²/Σw²)

Errors: `err value` (scipy argument check), `err guard` (time step varies by more than 1 %).
-/
namespace Qats.Driver.Welch
open Qats Qats.Welch

instance : NatCast Float := ⟨Nat.toFloat⟩

def optNat? (s : String) : Option (Option Nat) :=
  if s == "-" then some none else s.toNat?.map some

def splitAt? (sep : String) (l : List String) : Option (List String × List String) :=
  match l.span (· ≠ sep) with
  | (a, _ :: b) => some (a, b)
  | _ => none

def showRes : Except Err (Psd Float) → String
  | .ok r => "ok " ++ joinWith " " (r.f.map showFloatBits) ++ " | " ++ joinWith " " (r.p.map showFloatBits)
  | .error .value => "err value"
  | .error .guard => "err guard"

def handle : List String → Option String
  | "psd.welch" :: dt :: np :: nov :: nf :: xs => do
    let dt ← parseFloatBits? dt
    let np ← optNat? np
    let nov ← optNat? nov
    let nf ← optNat? nf
    let xs ← parseFloats? xs
    some (showRes (welch xs dt np nov nf))
  | "psd.area" :: dt :: np :: nov :: nf :: xs => do
    let dt ← parseFloatBits? dt
    let np ← optNat? np
    let nov ← optNat? nov
    let nf ← optNat? nf
    let xs ← parseFloats? xs
    match welchArea xs dt np nov nf with
    | .ok (a, b) => some ("ok " ++ showFloatBits a ++ " " ++ showFloatBits b)
    | .error .value => some "err value"
    | .error .guard => some "err guard"
  | "psd.ts" :: np :: nov :: nf :: nz :: rest => do
    let np ← optNat? np
    let nov ← optNat? nov
    let nf ← optNat? nf
    let (ts, xs) ← splitAt? "|" rest
    let ts ← parseFloats? ts
    let xs ← parseFloats? xs
    some (showRes (psdTs ts xs np nov nf (nz == "1")))
  | "psd.gui" :: np :: nz :: rest => do
    let np ← np.toNat?
    let (ts, xs) ← splitAt? "|" rest
    let ts ← parseFloats? ts
    let xs ← parseFloats? xs
    some (showRes (guiPsd ts xs np (nz == "1")))
  | "psd.guisig" :: rest => do
    let (ts, xs) ← splitAt? "|" rest
    let ts ← parseFloats? ts
    let xs ← parseFloats? xs
    let g := guiSignal ts xs
    some ("ok " ++ joinWith " " (g.1.map showFloatBits) ++ " | " ++ joinWith " " (g.2.map showFloatBits))
  | _ => none

end Qats.Driver.Welch
