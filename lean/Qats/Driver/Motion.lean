import Qats.Prelude
import Qats.Model.Motion
/-! Line-protocol handlers for the motion model: `mo.transform` (Float), `mo.vel` / `mo.acc` (exact Rat). -/
namespace Qats.Driver.Motion
open Qats Qats.Motion

instance : TranscOps Rat where
  exp := id
  log := id
  log10 := id
  sqrt := id
  sin := id
  cos := id
  gamma := id
  abs := fun x => if x < 0 then -x else x
  rpow := fun x _ => x
  pi := 0
  zetac := id

def showList (o : Option (List Rat)) : String :=
  match o with
  | none => "err value"
  | some l => "ok " ++ joinWith " " (l.map showRat)

def splitAt? (sep : String) (l : List String) : Option (List String × List String) :=
  match l.span (· ≠ sep) with
  | (a, _ :: b) => some (a, b)
  | _ => none

def handle : List String → Option String
  | ["mo.transform", deg, px, py, pz, rx, ry, rz, ax, ay, az] => do
    let v ← parseFloats? [px, py, pz, rx, ry, rz, ax, ay, az]
    match v with
    | [px, py, pz, rx, ry, rz, ax, ay, az] =>
      let r := transformStep (deg == "1") ⟨px, py, pz⟩ rx ry rz ⟨ax, ay, az⟩
      some s!"ok {showFloatBits r.x} {showFloatBits r.y} {showFloatBits r.z}"
    | _ => none
  | "mo.vel" :: "step" :: h :: xs => do
    let h ← parseRat? h
    let xs ← parseRats? xs
    some (showList (velocity xs (.inl h)))
  | "mo.acc" :: "step" :: h :: xs => do
    let h ← parseRat? h
    let xs ← parseRats? xs
    some (showList (acceleration xs (.inl h)))
  | "mo.vel" :: "arr" :: rest => do
    let (ts, xs) ← splitAt? "|" rest
    let ts ← parseRats? ts
    let xs ← parseRats? xs
    some (showList (velocity xs (.inr ts)))
  | "mo.acc" :: "arr" :: rest => do
    let (ts, xs) ← splitAt? "|" rest
    let ts ← parseRats? ts
    let xs ← parseRats? xs
    some (showList (acceleration xs (.inr ts)))
  | _ => none

end Qats.Driver.Motion
