import Qats.Prelude
import Qats.Model.Names
import Qats.Model.Registry
import Qats.Model.Binding
/-! Line-protocol handlers for name selection (`nm.*`), the registry state machine (`db.run`) and the content binding that
runs alongside it (`db.bind`: per operation the root origin of every returned series and, per key of both databases, the
registered record and the root origin of the cached object / the origin the next read will construct).
Strings cross the protocol hex-encoded (two hex digits per character); `-` is the empty string / None. -/
namespace Qats.Driver.Names
open Qats Qats.Names Qats.Registry

def unhex? (s : String) : Option Str :=
  if s == "-" || s == "none" then some [] else
  let rec go : List Char → Option Str
    | [] => some []
    | a :: b :: r => do
      let x ← hexDigit? a
      let y ← hexDigit? b
      let rest ← go r
      some (Char.ofNat (x * 16 + y) :: rest)
    | _ => none
  go s.toList

def hex (s : Str) : String :=
  if s.isEmpty then "-" else String.join (s.map fun c => hexOfNat c.toNat 2)

def strList? (s : String) : Option (List Str) :=
  if s == "=" then some [] else (s.splitOn ",").mapM unhex?

def optList? (s : String) : Option (Option (List Str)) :=
  if s == "none" then some none else (strList? s).map some

def showList (l : List Str) : String := if l.isEmpty then "=" else joinWith "," (l.map hex)

def which? : String → Option Which
  | "A" => some .A
  | "B" => some .B
  | _ => none

def bool? : String → Option Bool
  | "1" => some true
  | "0" => some false
  | _ => none

def parseOp? : List String → Option Op
  | ["load", w, file, indexed, read, names] => do
    some (.load (← which? w) (← unhex? file) (← strList? names) (← bool? indexed) (← bool? read))
  | ["add", w, name] => do some (.add (← which? w) (← unhex? name))
  | ["rename", w, name, newname] => do some (.rename (← which? w) (← unhex? name) (← unhex? newname))
  | ["clear", w, pat] => do
    let p ← unhex? pat
    some (.clear (← which? w) (if pat == "none" then none else some p))
  | ["update", names, deep] => do some (.update (← optList? names) (← bool? deep))
  | ["copy", names, deep] => do some (.copy (← optList? names) (← bool? deep))
  | ["getm", w, names, store] => do some (.getm (← which? w) (← optList? names) (← bool? store))
  | ["geti", w, ind, store] => do some (.getInd (← which? w) (← ind.toNat?) (← bool? store))
  | _ => none

def showOptNat : Option Nat → String
  | none => "None"
  | some n => toString n

def digest (d : Db) : String :=
  let reg := (d.register.map fun p => hex p.1).mergeSort
  let par := (d.parents.map fun p => hex p.1 ++ "=" ++ (match p.2 with | none => "None" | some f => hex f)).mergeSort
  let ind := (d.indices.map fun p => hex p.1 ++ "=" ++ showOptNat p.2).mergeSort
  let cache := d.keys.map fun k => hex k ++ "=" ++ (match lookup d.register k with
    | some (some o) => "o" ++ toString o
    | some none => "None"
    | none => "MISSING")
  s!"n={d.register.length} keys={showList d.keys} reg={joinWith "," reg} par={joinWith "," par} ind={joinWith "," ind} cache={joinWith "," cache}"

def showOut : Out → String
  | .done => "done"
  | .error .key => "err key"
  | .error .lookup => "err lookup"
  | .error .value => "err value"
  | .error .typ => "err type"
  | .error .index => "err index"
  | .series l => "series " ++ joinWith "," (l.map fun kv => hex kv.1 ++ "=o" ++ toString kv.2)

def splitOn' (sep : String) (l : List String) : List (List String) :=
  l.foldr (fun tok acc => if tok == sep then [] :: acc else match acc with
    | h :: r => (tok :: h) :: r
    | [] => [[tok]]) [[]]

/-! ### requests with LISTS of files / patterns, as sequences of the model's operations

`db.load([f1, f2, …], read)` checks every file first, in list order (a path that is no file: `FileExistsError`; a file one of
whose keys is registered, or that occurs earlier in the list: `KeyError`), and then registers (and reads) file by file: on
success it is the sequence of the single-file loads, on rejection nothing happens.  `db.clear([p1, p2, …])` removes the keys of
the de-duplicated listing for the patterns, computed once on the database as it is: the sequence of the clears of those keys
one by one (each full key taken as a pattern that matches itself only; checked: `err composite-clear` otherwise).
`db.get(name=n, store)` lists the matches of `n` first (none: `LookupError`, several: `ValueError`, nothing is read) and then
retrieves the one key: the retrieval by the register index of that key.
Every constituent is a `Registry.step`, so the theorems about `step` / `run` cover these requests. -/

inductive Item
  | prim (op : Op)
  | loadl (w : Which) (read : Bool) (files : List (Str × Bool × Bool × List Str))    -- (file, exists, indexed, names)
  | clearl (w : Which) (pats : List Str)
  | get1 (w : Which) (name : Str) (store : Bool)     -- `get(name=…)` / `geta(name=…)`: exactly one match required

/-- The model operations a request stands for in state `s`, or the error it is rejected with. -/
def expand (s : State) : Item → Except String (List Op)
  | .prim op => .ok [op]
  | .loadl w read files =>
    let d := getDb s w
    let rec check (seen : List Str) : List (Str × Bool × Bool × List Str) → Option String
      | [] => none
      | (file, ex, _, names) :: rest =>
        if !ex then some "err FileExistsError"
        else if !names.isEmpty && (seen.contains file || names.any fun n => hasKey d.register (pathJoin file n)) then
          some "err key"
        else check (file :: seen) rest
    match check [] files with
    | some e => .error e
    | none => .ok (files.map fun f => .load w f.1 f.2.2.2 f.2.2.1 read)
  | .clearl w pats =>
    let d := getDb s w
    let m := (listKeys d.keys pats).eraseDups
    let ops : List Op := m.map fun k => .clear w (some k)
    let s' := ops.foldl (fun st op => (step st op).1) s
    if (getDb s' w).keys == d.keys.filter (fun k => !m.contains k) then .ok ops else .error "err composite-clear"
  | .get1 w name store =>
    let d := getDb s w
    match listKeys d.keys [name] with
    | [] => .error "err lookup"
    | [k] => .ok [.getInd w (d.keys.idxOf k) store]
    | _ => .error "err value"

def parseItem? : List String → Option Item
  | "loadl" :: w :: read :: rest => do
    let files ← (splitOn' "|" rest).mapM fun
      | [file, ex, indexed, names] => do some ((← unhex? file), (← bool? ex), (← bool? indexed), (← strList? names))
      | _ => none
    some (.loadl (← which? w) (← bool? read) files)
  | ["clearl", w, pats] => do some (.clearl (← which? w) (← strList? pats))
  | ["get1", w, name, store] => do some (.get1 (← which? w) (← unhex? name) (← bool? store))
  | toks => (parseOp? toks).map .prim

def runOps (s : State) : List Item → List String
  | [] => []
  | it :: its =>
    let (s', o) : State × String := match it, expand s it with
      | .prim op, _ => let r := step s op; (r.1, showOut r.2)
      | _, .error e => (s, e)
      | .get1 .., .ok [op] => let r := step s op; (r.1, showOut r.2)
      | _, .ok ops => (ops.foldl (fun st op => (step st op).1) s, "done")
    (o ++ " # " ++ digest s'.a ++ " # " ++ digest s'.b) :: runOps s' its


/-! ### `db.bind` -/

/-- In-memory series are numbered in the order of the (successful) `add` operations. -/
def addOrdinal (os : Binding.Origins) (id : Nat) : Nat :=
  (os.filter fun p => match p.2 with
    | .added i => i < id
    | _ => false).length

def showOrigin (os : Binding.Origins) : Option Binding.Origin → String
  | some (.record f i) => "R:" ++ hex f ++ ":" ++ toString i
  | some (.named f n) => "N:" ++ hex f ++ ":" ++ hex n
  | some (.added id) => "M:" ++ toString (addOrdinal os id)
  | some (.copyOf o) => "C:" ++ toString o
  | none => "?"

def showRec (os : Binding.Origins) : Option Binding.Rec → String
  | some (.onFile f i n) => "F:" ++ hex f ++ ":" ++ toString i ++ ":" ++ hex n
  | some (.mem id) => "M:" ++ toString (addOrdinal os id)
  | none => "?"

/-- per key in registration order: `key=record|origin`; origin of the cached object, or `~` + what a read would construct -/
def bindDigest (os : Binding.Origins) (d : Db) (r : List (Str × Binding.Rec)) : String :=
  if d.keys.isEmpty then "=" else
  joinWith "," (d.keys.map fun k => hex k ++ "=" ++ showRec os (lookup r k) ++ "|" ++
    (match lookup d.register k with
      | some (some o) => showOrigin os (Binding.root os o)
      | _ => "~" ++ showOrigin os (some (Binding.readOrigin d r k))))

def showBindOut (os : Binding.Origins) : Out → String
  | .series l => "series " ++ (if l.isEmpty then "=" else
      joinWith "," (l.map fun kv => hex kv.1 ++ "=" ++ showOrigin os (Binding.root os kv.2)))
  | o => showOut o

def bindOps (b : Binding.Bind) (s : State) : List Item → List String
  | [] => []
  | it :: its =>
    let (b', s', o) : Binding.Bind × State × String := match it, expand s it with
      | .prim op, _ =>
        let b' := Binding.step b s op
        let r := step s op
        (b', r.1, showBindOut b'.origins r.2)
      | _, .error e => (b, s, e)
      | .get1 .., .ok [op] =>
        let b' := Binding.step b s op
        let r := step s op
        (b', r.1, showBindOut b'.origins r.2)
      | _, .ok ops =>
        let bs := ops.foldl (fun (acc : Binding.Bind × State) op => (Binding.step acc.1 acc.2 op, (step acc.2 op).1)) (b, s)
        (bs.1, bs.2, "done")
    (o ++ " # " ++ bindDigest b'.origins s'.a b'.recA ++ " # " ++ bindDigest b'.origins s'.b b'.recB) :: bindOps b' s' its

def handle : List String → Option String
  | "db.run" :: rest => do
    let ops ← (splitOn' ";" rest).mapM parseItem?
    some ("ok " ++ joinWith " ; " (runOps {} ops))
  | "db.bind" :: rest => do
    let ops ← (splitOn' ";" rest).mapM parseItem?
    some ("ok " ++ joinWith " ; " (bindOps {} {} ops))
  | ["nm.fnmatch", pat, name] => do
    some (if fnmatch (← unhex? pat) (← unhex? name) then "ok 1" else "ok 0")
  | ["nm.escape", s] => do some ("ok " ++ hex (escapeSpecial (← unhex? s)))
  | ["nm.common", keys] => do some ("ok " ++ hex (common (← strList? keys)))
  | ["nm.list", cwd, rel, names, keys] => do
    let cwd ← unhex? cwd
    let names ← optList? names
    let keys ← strList? keys
    let r := if rel == "1" then listRelative cwd keys names
      else match names with
        | none => listAll keys
        | some ns => listKeys keys ns
    some ("ok " ++ showList r)
  | ["nm.get", name, keys] => do
    match getKey (← strList? keys) (← unhex? name) with
    | .ok k => some ("ok " ++ hex k)
    | .error .lookup => some "err lookup"
    | .error .value => some "err value"
  | ["nm.contains", name, keys] => do
    some (if contains (← strList? keys) (← unhex? name) then "ok 1" else "ok 0")
  | ["nm.retkey", k, keys] => do some ("ok " ++ hex (retKey (← strList? keys) (← unhex? k)))
  | _ => none

end Qats.Driver.Names
