import Qats.Prelude
import Qats.Model.Names
import Qats.Model.Registry
/-! Line-protocol handlers for name selection (`nm.*`) and the registry state machine (`db.run`).
Strings cross the protocol hex-encoded (two hex digits per character); `-` is the empty string / None. -/
namespace Qats.Driver.Names
open Qats Qats.Names Qats.Registry

def unhex? (s : String) : Option Str :=
  if s == "-" || s == "none" then some [] else
  let rec go : List Char → Option Str
    | [] => some []
    | a :: b :: r => do
      let x ← hexDigit? a
      let y ← hexDigit? b
      let rest ← go r
      some (Char.ofNat (x * 16 + y) :: rest)
    | _ => none
  go s.toList

def hex (s : Str) : String :=
  if s.isEmpty then "-" else String.join (s.map fun c => hexOfNat c.toNat 2)

def strList? (s : String) : Option (List Str) :=
  if s == "=" then some [] else (s.splitOn ",").mapM unhex?

def optList? (s : String) : Option (Option (List Str)) :=
  if s == "none" then some none else (strList? s).map some

def showList (l : List Str) : String := if l.isEmpty then "=" else joinWith "," (l.map hex)

def which? : String → Option Which
  | "A" => some .A
  | "B" => some .B
  | _ => none

def bool? : String → Option Bool
  | "1" => some true
  | "0" => some false
  | _ => none

def parseOp? : List String → Option Op
  | ["load", w, file, indexed, read, names] => do
    some (.load (← which? w) (← unhex? file) (← strList? names) (← bool? indexed) (← bool? read))
  | ["add", w, name] => do some (.add (← which? w) (← unhex? name))
  | ["rename", w, name, newname] => do some (.rename (← which? w) (← unhex? name) (← unhex? newname))
  | ["clear", w, pat] => do
    let p ← unhex? pat
    some (.clear (← which? w) (if pat == "none" then none else some p))
  | ["update", names, deep] => do some (.update (← optList? names) (← bool? deep))
  | ["copy", names, deep] => do some (.copy (← optList? names) (← bool? deep))
  | ["getm", w, names, store] => do some (.getm (← which? w) (← optList? names) (← bool? store))
  | ["geti", w, ind, store] => do some (.getInd (← which? w) (← ind.toNat?) (← bool? store))
  | _ => none

def showOptNat : Option Nat → String
  | none => "None"
  | some n => toString n

def digest (d : Db) : String :=
  let reg := (d.register.map fun p => hex p.1).mergeSort
  let par := (d.parents.map fun p => hex p.1 ++ "=" ++ (match p.2 with | none => "None" | some f => hex f)).mergeSort
  let ind := (d.indices.map fun p => hex p.1 ++ "=" ++ showOptNat p.2).mergeSort
  let cache := d.keys.map fun k => hex k ++ "=" ++ (match lookup d.register k with
    | some (some o) => "o" ++ toString o
    | some none => "None"
    | none => "MISSING")
  s!"n={d.register.length} keys={showList d.keys} reg={joinWith "," reg} par={joinWith "," par} ind={joinWith "," ind} cache={joinWith "," cache}"

def showOut : Out → String
  | .done => "done"
  | .error .key => "err key"
  | .error .lookup => "err lookup"
  | .error .value => "err value"
  | .error .typ => "err type"
  | .error .index => "err index"
  | .series l => "series " ++ joinWith "," (l.map fun kv => hex kv.1 ++ "=o" ++ toString kv.2)

def splitOn' (sep : String) (l : List String) : List (List String) :=
  l.foldr (fun tok acc => if tok == sep then [] :: acc else match acc with
    | h :: r => (tok :: h) :: r
    | [] => [[tok]]) [[]]

def runOps (s : State) : List Op → List String
  | [] => []
  | op :: ops =>
    let (s', o) := step s op
    (showOut o ++ " # " ++ digest s'.a ++ " # " ++ digest s'.b) :: runOps s' ops

def handle : List String → Option String
  | "db.run" :: rest => do
    let ops ← (splitOn' ";" rest).mapM parseOp?
    some ("ok " ++ joinWith " ; " (runOps {} ops))
  | ["nm.fnmatch", pat, name] => do
    some (if fnmatch (← unhex? pat) (← unhex? name) then "ok 1" else "ok 0")
  | ["nm.escape", s] => do some ("ok " ++ hex (escapeSpecial (← unhex? s)))
  | ["nm.common", keys] => do some ("ok " ++ hex (common (← strList? keys)))
  | ["nm.list", cwd, rel, names, keys] => do
    let cwd ← unhex? cwd
    let names ← optList? names
    let keys ← strList? keys
    let r := if rel == "1" then listRelative cwd keys names
      else match names with
        | none => listAll keys
        | some ns => listKeys keys ns
    some ("ok " ++ showList r)
  | ["nm.get", name, keys] => do
    match getKey (← strList? keys) (← unhex? name) with
    | .ok k => some ("ok " ++ hex k)
    | .error .lookup => some "err lookup"
    | .error .value => some "err value"
  | ["nm.contains", name, keys] => do
    some (if contains (← strList? keys) (← unhex? name) then "ok 1" else "ok 0")
  | ["nm.retkey", k, keys] => do some ("ok " ++ hex (retKey (← strList? keys) (← unhex? k)))
  | _ => none

end Qats.Driver.Names
