import Qats.Prelude
import Qats.Model.ReadBind
import Qats.Driver.Names
/-!
Line-protocol handler for the file-reading model (`rb.run`, values as exact rationals).

    rb.run F <fmt> <path> <names> <ndat> <ncols> <own:0|1> <values…> ; F … ; <op> ; <op> …
    op ::= load <path> <read>  |  getm <store> n <names|none>  |  getm <store> i <i,j,…|=>
         |  get <store> n <name>  |  get <store> i <index>
Strings hex-encoded as in `Qats.Driver.Names`.  Values of a file: time (`ndat`), then the columns (`ncols·ndat`), then, if
`own = 1`, the per-series time arrays (`ncols·ndat`).
Reply: `ok <out> # <cached keys> ; …` with `<out>` = `done` | `err <kind>` | `series <key>=<name>|<t,…>|<x,…>&…`.
-/
namespace Qats.Driver.ReadBind
open Qats Qats.Names Qats.ReadBind Qats.Driver.Names

def format? : String → Option Format
  | "ts" => some .ts | "tda" => some .tda | "bin" => some .bin | "asc" => some .asc | "dat" => some .dat
  | "csv" => some .csv | "h5" => some .h5 | "pkl" => some .pkl | "mat" => some .mat | "tdms" => some .tdms
  | _ => none

def chunks {β : Type} (n : Nat) : Nat → List β → List (List β)
  | 0, _ => []
  | k + 1, l => l.take n :: chunks n k (l.drop n)

def parseFile? : List String → Option (File Rat)
  | "F" :: fmt :: path :: names :: ndat :: ncols :: own :: vals => do
    let fmt ← format? fmt
    let path ← unhex? path
    let names ← strList? names
    let ndat ← ndat.toNat?
    let ncols ← ncols.toNat?
    let own ← bool? own
    let vals ← parseRats? vals
    if vals.length != ndat * (1 + ncols * (if own then 2 else 1)) then none
    let time := vals.take ndat
    let cols := chunks ndat ncols (vals.drop ndat)
    let owns := if own then chunks ndat ncols (vals.drop (ndat * (1 + ncols))) else []
    some { path := path, format := fmt, names := names, time := time, cols := cols, own := owns }
  | _ => none

def natList? (s : String) : Option (List Nat) :=
  if s == "=" then some [] else (s.splitOn ",").mapM (·.toNat?)

def parseOp? : List String → Option Op
  | ["load", path, read] => do some (.load (← unhex? path) (← bool? read))
  | ["getm", store, "n", names] => do some (.getm (.names (← optList? names)) (← bool? store))
  | ["getm", store, "i", is] => do some (.getm (.inds (← natList? is)) (← bool? store))
  | ["get", store, "n", name] => do some (.get (.name (← unhex? name)) (← bool? store))
  | ["get", store, "i", i] => do some (.get (.ind (← i.toNat?)) (← bool? store))
  | _ => none

def showVals (l : List Rat) : String := if l.isEmpty then "=" else joinWith "," (l.map showRat)

def showSeries (kv : Str × Series Rat) : String :=
  hex kv.1 ++ "=" ++ hex kv.2.name ++ "|" ++ showVals kv.2.t ++ "|" ++ showVals kv.2.x

def showOut : Out Rat → String
  | .done => "done"
  | .error .key => "err key"
  | .error .lookup => "err lookup"
  | .error .value => "err value"
  | .error .index => "err index"
  | .error .file => "err file"
  | .error .io => "err io"
  | .series l => "series " ++ (if l.isEmpty then "=" else joinWith "&" (l.map showSeries))

def cachedKeys (db : Db Rat) : List Str := (db.reg.filter fun e => e.cache.isSome).map (·.key)

def runOps (disk : List (File Rat)) (db : Db Rat) : List Op → List String
  | [] => []
  | op :: ops =>
    let r := step disk db op
    (showOut r.2 ++ " # " ++ showList (cachedKeys r.1)) :: runOps disk r.1 ops

def handle : List String → Option String
  | "rb.run" :: rest => do
    let secs := splitOn' ";" rest
    let fsecs := secs.filter fun s => s.head? == some "F"
    let osecs := secs.filter fun s => s.head? != some "F"
    let disk ← fsecs.mapM parseFile?
    let ops ← osecs.mapM parseOp?
    some ("ok " ++ joinWith " ; " (runOps disk {} ops))
  | _ => none

end Qats.Driver.ReadBind
