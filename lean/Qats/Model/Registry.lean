/-
Model of the `TsDB` registry: the four parallel registers (`register`, `register_parent`, `register_indices`,
`register_keys`) under `load`, `add`, `rename`, `clear`, `update`, `copy`, `get`/`getm(store)`.

Series objects are abstract identities (`Nat`), drawn from a counter whenever the code constructs a new `TimeSeries`
(reading from file, deep copy); `none` in `register` = "registered but not read yet" exactly as in the code.
Two databases are modelled (`A` = the database under test, `B` = a second one used as source of `update` / target of
`copy`), which is enough for every operation of the alphabet.  Name resolution is `Qats.Names.listKeys`.
The Python dictionaries are association lists; `OrderedDict` order of the three dictionaries is not observable through
the API (only `register_keys` defines order), so dictionaries are compared as key sets.
Core Lean only.
-/
import Qats.Model.Names
namespace Qats.Registry
open Qats.Names

structure Db where
  register : List (Str × Option Nat) := []       -- key ↦ cached series object (or None)
  parents : List (Str × Option Str) := []        -- key ↦ parent file (None for added series)
  indices : List (Str × Option Nat) := []        -- key ↦ record index on file (None: addressed by name / no file)
  keys : List Str := []                            -- registration order
deriving Repr, DecidableEq

structure State where
  a : Db := {}
  b : Db := {}
  next : Nat := 0                                  -- next fresh object identity
deriving Repr, DecidableEq

inductive Err | key | lookup | value | typ | index
deriving Repr, DecidableEq

inductive Which | A | B
deriving Repr, DecidableEq

inductive Op
  | load (w : Which) (file : Str) (names : List Str) (indexed : Bool) (read : Bool)
  | add (w : Which) (name : Str)
  | rename (w : Which) (name newname : Str)
  | clear (w : Which) (pattern : Option Str)
  | update (names : Option (List Str)) (deep : Bool)          -- A.update(B, names, shallow = ¬deep)
  | copy (names : Option (List Str)) (deep : Bool)            -- B := A.copy(names, shallow = ¬deep)
  | getm (w : Which) (names : Option (List Str)) (store : Bool)
  | getInd (w : Which) (ind : Nat) (store : Bool)
deriving Repr

/-- What an operation returns, as far as the registry is concerned: the keys touched and the object identities. -/
inductive Out
  | done
  | series (l : List (Str × Nat))
  | error (e : Err)
deriving Repr, DecidableEq

def lookup {β : Type} (l : List (Str × β)) (k : Str) : Option β := (l.find? fun p => p.1 == k).map (·.2)
def hasKey {β : Type} (l : List (Str × β)) (k : Str) : Bool := l.any fun p => p.1 == k
def erase {β : Type} (l : List (Str × β)) (k : Str) : List (Str × β) := l.filter fun p => p.1 != k
/-- Python `d[k] = v`: replace in place if present, else append. -/
def setKey {β : Type} (l : List (Str × β)) (k : Str) (v : β) : List (Str × β) :=
  if hasKey l k then l.map fun p => if p.1 == k then (k, v) else p else l ++ [(k, v)]

def getDb (s : State) : Which → Db
  | .A => s.a
  | .B => s.b
def setDb (s : State) (w : Which) (d : Db) : State :=
  match w with
  | .A => { s with a := d }
  | .B => { s with b := d }

/-- `TsDB._read(keys, store)`: cached series are returned as they are, the others are constructed (fresh identities,
one per key in order) and stored iff `store`. Returns the database, the counter and the (key, object) list. -/
def readKeys (d : Db) (next : Nat) (ks : List Str) (store : Bool) : Db × Nat × List (Str × Nat) :=
  ks.foldl (fun (acc : Db × Nat × List (Str × Nat)) k =>
    let (d, n, out) := acc
    match lookup d.register k with
    | some (some obj) => (d, n, out ++ [(k, obj)])
    | _ =>
      let d' := if store then { d with register := setKey d.register k (some n) } else d
      (d', n + 1, out ++ [(k, n)])) (d, next, [])

/-- Keys selected by `names` (`None` = all, registration order). -/
def select (d : Db) (names : Option (List Str)) : List Str :=
  match names with
  | none => d.keys
  | some ns => (listKeys d.keys ns).eraseDups

def step (s : State) : Op → State × Out
  | .load w file names indexed read =>
    let d := getDb s w
    let newKeys := names.map fun n => pathJoin file n
    if newKeys.any fun k => hasKey d.register k then (s, .error .key)
    else
      let d1 : Db := (List.zip (List.range names.length) newKeys).foldl (fun d (jk : Nat × Str) =>
        { register := setKey d.register jk.2 none,
          parents := setKey d.parents jk.2 (some file),
          indices := setKey d.indices jk.2 (if indexed then some (jk.1 + 1) else none),
          keys := d.keys ++ [jk.2] }) d
      if read then
        let (d2, n2, _) := readKeys d1 s.next newKeys true
        ({ setDb s w d2 with next := n2 }, .done)
      else (setDb s w d1, .done)
  | .add w name =>
    let d := getDb s w
    let key := pathJoin (common d.keys) name
    if hasKey d.register key then (s, .error .key)
    else
      let d' : Db := { register := setKey d.register key (some s.next), parents := setKey d.parents key none,
                       indices := setKey d.indices key none, keys := d.keys ++ [key] }
      ({ setDb s w d' with next := s.next + 1 }, .done)
  | .rename w name newname =>
    let d := getDb s w
    match listKeys d.keys [name] with
    | [] => (s, .error .lookup)
    | [old] =>
      let newkey := pathJoin (pathDirname old) newname
      if d.keys.contains newkey then (s, .error .value)
      else
        let mv {β : Type} (l : List (Str × β)) : List (Str × β) :=
          match lookup l old with
          | some v => erase l old ++ [(newkey, v)]
          | none => l
        let d' : Db := { register := mv d.register, parents := mv d.parents, indices := mv d.indices,
                         keys := d.keys.map fun k => if k == old then newkey else k }
        (setDb s w d', .done)
    | _ => (s, .error .value)
  | .clear w pattern =>
    let d := getDb s w
    let m := match pattern with
      | none => d.keys
      | some p => listKeys d.keys [p]
    let d' : Db := m.foldl (fun d k =>
      { register := erase d.register k, parents := erase d.parents k, indices := erase d.indices k,
        keys := d.keys.erase k }) d
    (setDb s w d', .done)
  | .update names deep =>
    -- container = B.getm(names, fullkey=True)  (store=True: reads are cached in B)
    let ks := select s.b names
    let (b', n1, cont) := readKeys s.b s.next ks true
    let s1 : State := { s with b := b', next := n1 }
    if cont.any fun kv => hasKey s1.a.register kv.1 then (s1, .error .key)
    else
      let (a', n2) := cont.foldl (fun (acc : Db × Nat) kv =>
        let (a, n) := acc
        let obj := if deep then n else kv.2
        let n' := if deep then n + 1 else n
        ({ register := setKey a.register kv.1 (some obj),
           parents := setKey a.parents kv.1 ((lookup b'.parents kv.1).getD none),
           indices := setKey a.indices kv.1 ((lookup b'.indices kv.1).getD none),
           keys := a.keys ++ [kv.1] }, n')) (s1.a, s1.next)
      ({ s1 with a := a', next := n2 }, .done)
  | .copy names deep =>
    let ks := select s.a names
    let (a', n1, cont) := readKeys s.a s.next ks true
    let (b', n2) := cont.foldl (fun (acc : Db × Nat) kv =>
      let (b, n) := acc
      let obj := if deep then n else kv.2
      let n' := if deep then n + 1 else n
      ({ register := setKey b.register kv.1 (some obj),
         parents := setKey b.parents kv.1 ((lookup a'.parents kv.1).getD none),
         indices := setKey b.indices kv.1 ((lookup a'.indices kv.1).getD none),
         keys := b.keys ++ [kv.1] }, n')) (({} : Db), n1)
    ({ a := a', b := b', next := n2 }, .done)
  | .getm w names store =>
    let d := getDb s w
    let ks := select d names
    let (d', n', cont) := readKeys d s.next ks store
    ({ setDb s w d' with next := n' }, .series cont)
  | .getInd w ind store =>
    let d := getDb s w
    match d.keys[ind]? with
    | none => (s, .error .index)
    | some k =>
      let (d', n', cont) := readKeys d s.next [k] store
      ({ setDb s w d' with next := n' }, .series cont)

def run (s : State) : List Op → State × List Out
  | [] => (s, [])
  | op :: ops =>
    let (s1, o) := step s op
    let (s2, os) := run s1 ops
    (s2, o :: os)

end Qats.Registry
