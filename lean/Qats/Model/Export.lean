import Qats.Prelude
import Qats.Model.Pipeline
import Qats.Model.Names
/-
Model of `TsDB.export` and of what it relies on (qats/tsdb.py, qats/io/*): the common-time diagnosis
`_check_time_arrays` (incl. which deviations a window / resampling *handles*), `create_common_time`,
`_make_export_friendly_names`, the export pipeline as an *effect trace*, and record-level codecs of the four export formats.
Exact arithmetic; core Lean only. Processing of one series is `Qats.Pipeline.get` (the model of `TimeSeries.get`, C11).

Assumed library behaviour (DESIGN.md section 3):
* numpy: `max/min` of a list, `np.diff`, `np.allclose(a, b, rtol, atol)` ⇔ `|a − b| ≤ atol + rtol·|b|` elementwise and equal
  shapes are tested separately; `np.min` of an empty array raises ValueError; `np.linspace` as in `Qats.Pipeline.linspace`.
* `os.path.splitext/commonpath/relpath/dirname/basename` (POSIX, normalised paths) as in `Qats.Names`.
* Every selected series has at least two samples (`TimeSeries.dt` is `nan` otherwise); `dtg_ref` values are compared by
  equality only (an instant is represented by an integer id).
* `resample=None` passed explicitly is treated like an absent `resample`.
* text files: the key file is read line by line (`'\n'`; names contain no `'\r'`), `str.split()`/`str.strip()` use Python's
  white-space set, `str.upper()` is modelled on ASCII letters; `fnmatch.filter(names, '[Tt]ime*')` ⇔ prefix `Time`/`time`.
* h5py iterates a group's members in alphabetical order; `create_dataset(name)` with `/` in the name creates nested groups.
* number formatting (`%15.7g`, float32) is an abstract *quantisation* `q : α → α` applied to every stored value.
-/
namespace Qats.Export
open Qats.Names (Str)
open Qats.Pipeline (Opts Resample Stages)

variable {α : Type} [Add α] [Sub α] [Mul α] [Div α] [Neg α] [LT α] [LE α] [DecidableLT α] [DecidableLE α]
  [NatCast α] [OfNat α 0] [OfScientific α]

/-! ### `_check_time_arrays` -/

/-- What `_check_time_arrays` reads off one series: `dtg_ref`, mean step, start, end. -/
structure Summary (α : Type) where
  dtg : Option Int
  dt : α
  start : α
  stop : α

/-- Summary of a stored time array (`none`: empty array — `t[0]` raises). -/
def summary (dtg : Option Int) (t : List α) : Option (Summary α) :=
  match t.head?, t.getLast? with
  | some a, some b => some ⟨dtg, Qats.Pipeline.meanDt t, a, b⟩
  | _, _ => none

def maxL : List α → Option α
  | [] => none
  | a :: l => some (l.foldl (fun m v => if m < v then v else m) a)

def minL : List α → Option α
  | [] => none
  | a :: l => some (l.foldl (fun m v => if v < m then v else m) a)

/-- `(max − min) == 0.` -/
def zeroSpread (mx mn : α) : Bool := decide (¬ (mx - mn < 0) ∧ ¬ (0 < mx - mn))

inductive Dev | dt | start | stop | dtgRef
deriving Repr, DecidableEq

/-- Exception kinds (`type`: the message formatting subscripts `common`, which is `None` for non-overlapping series). -/
inductive Err | fileExists | key | value | type | assertion | bounds | index | notImplemented
deriving Repr, DecidableEq

structure TimeCheck (α : Type) where
  isCommon : Bool
  dtgDefined : Bool
  dtgRef : Option Int
  /-- recommended `(start, end, dt)`: latest start, earliest end, smallest mean step; `none` when they do not overlap -/
  common : Option (α × α × α)
  /-- deviations left after removing the handled ones, in the code's order -/
  deviations : List Dev

/-- `np.allclose(a, b)` with the default tolerances `rtol = 1e-5`, `atol = 1e-8`. -/
def allcloseDefault (a b : α) : Bool :=
  decide (Qats.Pipeline.abs' (a - b) ≤ (1.0e-8 : α) + (1.0e-5 : α) * Qats.Pipeline.abs' b)

/-- Deviations handled by `resample` (`none`: `np.min(np.diff(t_new))` raises on fewer than 2 points). -/
def handledRes (cs ce : α) (res : Option (Resample α)) : Option (List Dev) :=
  match res with
  | none => some []
  | some (.step _) => some [.dt]
  | some (.times ts) =>
    match minL (Qats.Pipeline.diffs ts), maxL (Qats.Pipeline.diffs ts), ts.head?, ts.getLast? with
    | some mn, some mx, some a, some b =>
      some ((if allcloseDefault mn mx then [Dev.dt] else []) ++ (if cs ≤ a then [Dev.start] else []) ++
        (if b ≤ ce then [Dev.stop] else []))
    | _, _, _, _ => none

/-- Deviations handled by `twin`. -/
def handledTwin (cs ce : α) (twin : Option (α × α)) : List Dev :=
  match twin with
  | some (a, b) => (if cs ≤ a then [Dev.start] else []) ++ (if b ≤ ce then [Dev.stop] else [])
  | none => []

/-- The deviations the keyword arguments take care of. -/
def handled (cs ce : α) (twin : Option (α × α)) (res : Option (Resample α)) : Option (List Dev) :=
  (handledRes cs ce res).map (· ++ handledTwin cs ce twin)

structure Extrema (α : Type) where
  dmax : α
  dmin : α
  smax : α
  smin : α
  emax : α
  emin : α

def extrema (ss : List (Summary α)) : Option (Extrema α) :=
  match maxL (ss.map (·.dt)), minL (ss.map (·.dt)), maxL (ss.map (·.start)), minL (ss.map (·.start)),
      maxL (ss.map (·.stop)), minL (ss.map (·.stop)) with
  | some dmax, some dmin, some smax, some smin, some emax, some emin => some ⟨dmax, dmin, smax, smin, emax, emin⟩
  | _, _, _, _, _, _ => none

/-- step / start / end deviations, in the code's order. -/
def rawDeviations (e : Extrema α) : List Dev :=
  (if zeroSpread e.dmax e.dmin then [] else [.dt]) ++ (if zeroSpread e.smax e.smin then [] else [.start]) ++
    (if zeroSpread e.emax e.emin then [] else [.stop])

def dtgDefined (ss : List (Summary α)) : Bool := ss.any fun s => s.dtg.isSome

def sameDtg (ss : List (Summary α)) : Bool :=
  match ss with
  | [] => true
  | s0 :: _ => ss.all fun s => s.dtg == s0.dtg

/-- recommended window: latest start, earliest end, smallest mean step. -/
def recommended (e : Extrema α) : Option (α × α × α) := if e.smax < e.emin then some (e.smax, e.emin, e.dmin) else none

/-- Deviations before the keyword arguments are looked at: a `dtg_ref` conflict replaces all others. -/
def devs1 (ss : List (Summary α)) (e : Extrema α) : List Dev :=
  if dtgDefined ss && !sameDtg ss then [.dtgRef] else rawDeviations e

/-- Last step of `_check_time_arrays`: the message formatting (TypeError when `common` is `None` and an action that
quotes it is recommended), then the result. -/
def finishCheck (ss : List (Summary α)) (e : Extrema α) (devs : List Dev) : Except Err (TimeCheck α) :=
  if (recommended e).isNone && (devs.contains .dt || devs.contains .start || devs.contains .stop) then .error .type
  else .ok ⟨devs.isEmpty, dtgDefined ss, if dtgDefined ss && sameDtg ss then (ss.head?.bind (·.dtg)) else none, recommended e, devs⟩

/-- `TsDB._check_time_arrays(container, twin=…, resample=…)`. Errors: ValueError (empty container, degenerate `resample`
array); TypeError when the answer is negative for a step/start/end deviation and the series do not overlap (the recommended
actions are formatted from `common`, which is `None` then). -/
def checkTimeArrays (ss : List (Summary α)) (twin : Option (α × α)) (res : Option (Resample α)) : Except Err (TimeCheck α) :=
  match extrema ss with
  | none => .error .value
  | some e =>
    match handled e.smax e.emin twin res with
    | none => .error .value
    | some h => finishCheck ss e ((devs1 ss e).filter fun d => !h.contains d)

/-- The time array a window leaves (`t[(t >= a) & (t <= b)]`); equals the first component of `Pipeline.window`. -/
def windowT (a b : α) (t : List α) : List α := t.filter fun v => decide (a ≤ v ∧ v ≤ b)

def cropT (twin : Option (α × α)) (t : List α) : List α :=
  match twin with
  | some (a, b) => windowT a b t
  | none => t

/-- `TsDB.create_common_time(names, twin)` (`maxdt=None`, `strict=False`); `firstT` is the time array of the first selected
series. -/
def createCommonTime (rnd : α → Int) (ss : List (Summary α)) (firstT : List α) (twin : Option (α × α)) : Except Err (List α) :=
  match checkTimeArrays ss none none with
  | .error e => .error e
  | .ok tc =>
    if tc.isCommon then .ok (cropT twin firstT)
    else
      match tc.common with
      | some (a, b, d) => .ok (cropT twin (Qats.Pipeline.newTimearray rnd a b d))
      | none => .error .value

/-- `TsDB.is_common_time(names, twin)` on the selected time arrays (no `dtg_ref`); `none`: the call raises. -/
def isCommonTime (ts : List (List α)) (twin : Option (α × α)) : Option Bool :=
  match ts.mapM (summary none) with
  | none => none
  | some ss =>
    match checkTimeArrays ss twin none with
    | .ok tc => some tc.isCommon
    | .error _ => none

/-! ### `_make_export_friendly_names` -/

/-- `os.path.splitext` (POSIX): the extension starts at the last dot of the last component, leading dots do not count. -/
def splitext (p : Str) : Str × Str :=
  let base := Qats.Names.basename p
  let extRev := base.reverse.takeWhile (· != '.')
  if extRev.length == base.length then (p, [])          -- no dot in the last component
  else
    let stemLen := base.length - extRev.length - 1
    if (base.take stemLen).any (· != '.') then
      (p.take (p.length - extRev.length - 1), p.drop (p.length - extRev.length - 1))
    else (p, [])

/-- Key used with `basename=False`: path relative to the common path, parent file extension removed, separators → `_`. -/
def friendlyKey (cwd cm key : Str) : Str :=
  let relkey := Qats.Names.pathRelpath cwd key cm
  let name := Qats.Names.pathBasename relkey
  let dir := (splitext (Qats.Names.pathDirname relkey)).1
  let k := Qats.Names.replaceAll [Qats.Names.sep] ['_'] dir ++ '_' :: name
  match k with
  | '_' :: r => r
  | _ => k

/-- The loop of `_make_export_friendly_names`: a new key that is already present raises KeyError. -/
def friendlyGo (f : Str → Str) : List Str → List Str → Except Err (List Str)
  | acc, [] => .ok acc
  | acc, k :: ks => if acc.contains (f k) then .error .key else friendlyGo f (acc ++ [f k]) ks

/-- `_make_export_friendly_names(container, keep_basename)` on the container's keys. -/
def friendlyNames (cwd : Str) (keys : List Str) (keepBase : Bool) : Except Err (List Str) :=
  if keepBase || keys.length == 1 then friendlyGo Qats.Names.pathBasename [] keys
  else
    match Qats.Names.commonpath keys with
    | none => .error .value
    | some cm => friendlyGo (friendlyKey cwd cm) [] keys

/-! ### the export pipeline as an effect trace -/

inductive Ext | ts | dat | h5 | pkl | other
deriving Repr, DecidableEq

/-- One selected series: full key, `dtg_ref`, stored arrays. -/
structure Entry (α : Type) where
  key : Str
  dtg : Option Int
  t : List α
  x : List α

/-- Observable steps of `export`. Only `openTarget` and `write` touch the target file. -/
inductive Effect (α : Type)
  | mkdirs
  | select
  | friendly
  | timeCheck
  | commonTime
  | process
  | openTarget (e : Ext)
  | write (name : Str) (t x : List α)
  | raise (e : Err)
deriving Repr, DecidableEq

structure Req (α : Type) where
  targetExists : Bool
  existOk : Bool
  dirMissing : Bool
  basename : Bool
  force : Bool
  ext : Ext
  opts : Opts α

def ofGetErr : Qats.Pipeline.Err → Err
  | .assertion => .assertion
  | .bounds => .bounds
  | .index => .index

/-- `OrderedDict((k, v.get(**kwargs)) …)`: one `process` per attempted series; stops at the first exception. -/
def processAll (rnd : α → Int) (st : Stages α) (o : Opts α) :
    List (Str × Entry α) → List (Effect α) × Except Err (List (Str × List α × List α))
  | [] => ([], .ok [])
  | (n, e) :: rest =>
    match Qats.Pipeline.get rnd st e.t e.x o with
    | .error er => ([.process], .error (ofGetErr er))
    | .ok (t, x) =>
      match processAll rnd st o rest with
      | (tr, .ok l) => (.process :: tr, .ok ((n, t, x) :: l))
      | (tr, .error er) => (.process :: tr, .error er)

/-- `np.allclose(t, c, rtol=1e-9, atol=1e-12)` on arrays of the same shape. -/
def closeTo : List α → List α → Bool
  | [], [] => true
  | c :: cs, t :: ts =>
    decide (Qats.Pipeline.abs' (t - c) ≤ (1.0e-12 : α) + (1.0e-9 : α) * Qats.Pipeline.abs' c) && closeTo cs ts
  | _, _ => false

/-- The final check of `export`: every processed time array has the shape of the first and is close to it. -/
def verified (items : List (Str × List α × List α)) : Bool :=
  match items with
  | [] => true
  | (_, c, _) :: _ => items.all fun it => closeTo c it.2.1

def summaries (sel : List (Entry α)) : Option (List (Summary α)) := sel.mapM fun e => summary e.dtg e.t

/-- `common_time_array.size == 0`: the first (hence, after the comparison, every) processed time array holds no sample. -/
def noSamples (items : List (Str × List α × List α)) : Bool :=
  match items with
  | (_, [], _) :: _ => true
  | _ => false

/-- Last stage: the final comparison of the processed time arrays, the refusal of series without samples (no format can
hold them so that they can be loaded again), then the writer chosen by the extension. -/
def stageWrite (r : Req α) (pre : List (Effect α)) (items : List (Str × List α × List α)) : List (Effect α) :=
  if !verified items then pre ++ [.raise .value]
  else if noSamples items then pre ++ [.raise .value]
  else
    match r.ext with
    | .other => pre ++ [.raise .notImplemented]
    | e => pre ++ .openTarget e :: items.map fun it => .write it.1 it.2.1 it.2.2

/-- Step 5: every series through `TimeSeries.get(**kwargs)` with the options `o`. -/
def stageProcess (rnd : α → Int) (st : Stages α) (r : Req α) (pre : List (Effect α)) (o : Opts α)
    (named : List (Str × Entry α)) : List (Effect α) :=
  match processAll rnd st o named with
  | (tr, .error e) => pre ++ tr ++ [.raise e]
  | (tr, .ok items) => stageWrite r (pre ++ tr) items

/-- Step 4: what happens when the time arrays are (not) common within the given options. -/
def stageDecide (rnd : α → Int) (st : Stages α) (r : Req α) (pre : List (Effect α)) (ss : List (Summary α))
    (tc : TimeCheck α) (firstT : List α) (named : List (Str × Entry α)) : List (Effect α) :=
  if tc.isCommon then stageProcess rnd st r pre r.opts named
  else if r.opts.resample.isSome then stageProcess rnd st r pre r.opts named
  else if r.force then
    match createCommonTime rnd ss firstT r.opts.twin with
    | .ok ct => stageProcess rnd st r (pre ++ [.commonTime]) { r.opts with resample := some (.times ct) } named
    | .error e => pre ++ [.commonTime, .raise e]
  else pre ++ [.raise .value]

/-- Step 3: the time-array check. -/
def stageCheck (rnd : α → Int) (st : Stages α) (r : Req α) (pre : List (Effect α)) (names : List Str)
    (sel : List (Entry α)) : List (Effect α) :=
  match summaries sel with
  | none => pre ++ [.raise .index]
  | some ss =>
    match checkTimeArrays ss r.opts.twin r.opts.resample with
    | .error e => pre ++ [.raise e]
    | .ok tc => stageDecide rnd st r pre ss tc ((sel.head?.map (·.t)).getD []) (names.zip sel)

/-- Effects before the time check: directories, selection, export-friendly names. -/
def preamble (r : Req α) : List (Effect α) := (if r.dirMissing then [.mkdirs] else []) ++ [.select, .friendly]

/-- `TsDB.export(filename, names, exist_ok, basename, force_common_time, **kwargs)` on the selected series `sel`. -/
def exportTrace (cwd : Str) (rnd : α → Int) (st : Stages α) (r : Req α) (sel : List (Entry α)) : List (Effect α) :=
  if r.targetExists && !r.existOk then [.raise .fileExists]
  else
    match friendlyNames cwd (sel.map (·.key)) r.basename with
    | .error e => preamble r ++ [.raise e]
    | .ok names => stageCheck rnd st r (preamble r ++ [.timeCheck]) names sel

/-! ### record-level codecs -/

/-- Python's `str.isspace` for a single character. -/
def isWs (c : Char) : Bool :=
  let n := c.toNat
  (9 ≤ n && n ≤ 13) || (28 ≤ n && n ≤ 32) || n == 0x85 || n == 0xa0 || n == 0x1680 || (0x2000 ≤ n && n ≤ 0x200a) ||
    n == 0x2028 || n == 0x2029 || n == 0x202f || n == 0x205f || n == 0x3000

/-- `str.strip()`. -/
def strip (s : Str) : Str := ((s.dropWhile isWs).reverse.dropWhile isWs).reverse

/-- `str.upper()` on ASCII letters. -/
def upper (s : Str) : Str := s.map fun c => if 'a' ≤ c ∧ c ≤ 'z' then Char.ofNat (c.toNat - 32) else c

/-- `str.split()`: maximal runs of non-white-space characters. `cur` is the run collected so far. -/
def splitWsGo : Str → Str → List Str
  | cur, [] => if cur.isEmpty then [] else [cur]
  | cur, c :: cs =>
    if isWs c then (if cur.isEmpty then splitWsGo [] cs else cur :: splitWsGo [] cs) else splitWsGo (cur ++ [c]) cs

def splitWs (s : Str) : List Str := splitWsGo [] s

/-- Lines of a text (iteration over a file; the terminating `'\n'` is dropped, a trailing unterminated line is kept). -/
def linesGo : Str → Str → List Str
  | cur, [] => if cur.isEmpty then [] else [cur]
  | cur, c :: cs => if c == '\n' then cur :: linesGo [] cs else linesGo (cur ++ [c]) cs

def lines (s : Str) : List Str := linesGo [] s

/-! #### direct access (`.ts` + `.key`) -/

/-- The key file `write_ts_data` writes: `time`, one key per line, `END`. -/
def encodeKey (names : List Str) : Str :=
  (("time".toList :: names) ++ ["END".toList]).flatMap fun l => l ++ ['\n']

/-- `read_ts_names`: drop comment lines (`**`, `'`) and `END`, strip, skip the time key. -/
def decodeKey (text : Str) : List Str :=
  (((lines text).filter fun l =>
      !("**".toList.isPrefixOf l) && !("'".toList.isPrefixOf l) && !(strip (upper l) == "END".toList)).map strip).drop 1

/-- 4-byte words of a direct-access file. -/
inductive Word (α : Type)
  | int (n : Int)
  | val (v : α)
deriving Repr, DecidableEq

/-- `write_ts_data`: header record `[ndat, nrec, 0, …]` (zero-padded to `ndat` words *when `ndat ≥ 2`*), the time record,
one record per series; every value stored as float32 (`q`). -/
def encodeTs (q : α → α) (t : List α) (xs : List (List α)) : List (Word α) :=
  let ndat := t.length
  [Word.int ndat, Word.int (xs.length + 2)] ++ List.replicate (ndat - 2) (Word.int 0) ++ t.map (fun v => Word.val (q v)) ++
    xs.flatMap fun x => x.map fun v => Word.val (q v)

def wordVal? : Word α → Option α
  | .val v => some v
  | .int _ => none

/-- `k` consecutive records of `ndat` words each (`f.read(4·ndat)` + `unpack`); `none`: short read or words that are not
floats. -/
def readRecords (ndat : Nat) : Nat → List (Word α) → Option (List (List α))
  | 0, _ => some []
  | k + 1, w =>
    if (w.take ndat).length != ndat then none
    else
      match (w.take ndat).mapM wordVal?, readRecords ndat k (w.drop ndat) with
      | some row, some rest => some (row :: rest)
      | _, _ => none

/-- `read_ts_data(path)` (all records): `ndat` from the first word, number of records from the file length, then the
cursor is put behind the first record (`seek(4·ndat)`) and the time record and the series records are read one after the
other. `none`: exception (ZeroDivisionError, short read) or words that are not floats. -/
def decodeTs (w : List (Word α)) : Option (List (List α)) :=
  match w with
  | .int nd :: _ =>
    let ndat := nd.toNat
    if ndat == 0 then none
    else readRecords ndat (w.length / ndat - 2 + 1) (w.drop ndat)
  | _ => none

/-! #### column-wise ascii (`.dat`) -/

def pad15 (k : Str) : Str := List.replicate (15 - k.length) ' ' ++ k

/-- Header line of `write_dat_data`: `"%15s%s" % (k, delim)` for `time` and every key. -/
def encodeDatHeader (delim : Str) (names : List Str) : Str :=
  ("time".toList :: names).flatMap fun k => pad15 k ++ delim

def isTimeKey (k : Str) : Bool := "Time".toList.isPrefixOf k || "time".toList.isPrefixOf k

/-- `read_dat_names` on the header line. -/
def decodeDatHeader (line : Str) : Except Err (List Str) :=
  let names := splitWs line
  if (names.filter isTimeKey).length != 1 then .error .key else .ok (names.drop 1)

/-- Rows of the file: row `i` holds the `i`-th value of every column (time first), formatted (`q`). -/
def encodeRows (q : α → α) (cols : List (List α)) (n : Nat) : List (List α) :=
  (List.range n).map fun i => cols.map fun c => q (c.getD i 0)

/-- `np.loadtxt(…, unpack=True)`: column `j` of the rows, for `m` columns. -/
def decodeRows (rows : List (List α)) (m : Nat) : List (List α) :=
  (List.range m).map fun j => rows.map fun r => r.getD j 0

/-! #### pandas pickle (`.pkl`) -/

/-- The pickled frame: column names with data, and the index. -/
structure Frame (α : Type) where
  columns : List (Str × List α)
  index : List α

def encodePkl (names : List Str) (t : List α) (xs : List (List α)) : Frame α := ⟨names.zip xs, t⟩

/-- `read_pickle_names` / `read_data`: the column names, and the index stacked on top of the columns (since the F19b repair
the index is no longer inserted as a column called `Time`, so no name is special). -/
def decodePkl (f : Frame α) : Except Err (List Str × List α × List (List α)) :=
  .ok (f.columns.map (·.1), f.index, f.columns.map (·.2))

/-! #### SIMA h5 (`.h5`) -/

structure H5Set (α : Type) where
  name : Str
  start : α
  delta : α
  data : List α

def strLe : Str → Str → Bool
  | [], _ => true
  | _ :: _, [] => false
  | a :: as, b :: bs => a < b || (a == b && strLe as bs)

/-- `write_data`: per series a dataset with attributes `start = t[0]`, `delta = t[1] − t[0]` (`none`: IndexError). -/
def encodeH5 (items : List (Str × List α × List α)) : Option (List (H5Set α)) :=
  items.mapM fun it =>
    match it.2.1 with
    | t0 :: t1 :: _ => some ⟨it.1, t0, t1 - t0, it.2.2⟩
    | _ => none

/-- `read_names`: members in alphabetical order, `/` shown as `\`. -/
def h5Names (f : List (H5Set α)) : List Str :=
  (Qats.isort strLe (f.map (·.name))).map fun n => Qats.Names.replaceAll ['/'] ['\\'] n

/-- `read_data(path, [name])`: look the dataset up (`\` → `/`), rebuild the time array by `linspace`. -/
def h5Read (f : List (H5Set α)) (name : Str) : Option (List α × List α) :=
  match f.find? fun d => d.name == Qats.Names.replaceAll ['\\'] ['/'] name with
  | some d =>
    let nt := d.data.length
    some (Qats.Pipeline.linspace d.start (d.start + (Nat.cast (nt - 1) : α) * d.delta) nt, d.data)
  | none => none

end Qats.Export
