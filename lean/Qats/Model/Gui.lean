/-
Orchestration model of the desktop application `qats/app/gui.py` (property C19).

The window is a state machine driven by *user actions* (import, clear, tick rows, type a list filter, display,
Gumbel plot, change time window / frequency filter / maxima-minima / "show in plot") and by the *completion* of
background workers.  `QThreadPool` is replaced by an explicit list of pending workers; `complete i` finishes the
`i`-th pending worker: its callback runs and the connected slots run immediately after it (Qt signal delivery is
modelled as direct, in connection order).  Every transition is atomic (all slots run on the GUI thread).

What is modelled (anchors in /repo/qats/app/gui.py):
* `load_files` / `import_from_file` / `update_model` (585-613, 1404-1432): the import worker captures the file list; on
  completion a new database is built (`TsDB.load` of every file: a missing file, or the same file twice, raises in the
  worker -> nothing happens) and merged with `TsDB.update` (all keys checked first; a clash raises `KeyError`, caught:
  the list is NOT refreshed).  On success every row is re-created, unticked, from `db.list(relative=True)`.
* `on_clear` (706-715): database, rows, the four axes and the table are emptied; pending workers stay queued.
* `selected_series` (1276-1297): ticked rows *that pass the list filter*, in order, joined with the common path.
* `on_display` (745-772): the statistics table is reset at once; if something is selected a read worker capturing the
  selected full keys is queued.  When it completes (`start_times_series_processing_thread`, 1299-1342) the time window,
  filter and maxima/minima choice are read **from the widgets at that moment** and four calculation workers are
  queued (trace, statistics, spectrum, cycles).  Each writes into its widget(s) when it completes; `plot_trace` reads
  "show in plot" and maxima/minima **when it draws**.  `tabulate_stats` overwrites rows `0 .. len-1` of the table and
  leaves later rows alone (`setRowCount(max(len, 50))`).
* `on_create_gumbel_plot` (717-743): needs two or more series; read worker, then one calculation worker whose result
  is shown in a *new* tab (the five result views are never touched).

Assumptions (external behaviour, observed by the correspondence harness, not proved):
* the files' common directory is the parent of every file but (possibly) one that lies in a sub-directory, series names
  contain no path separators or pattern characters (the same name may occur on several files), so
  `db.list(relative=True)` is `name` when every key comes from one file and `file/name` otherwise (`file` = path below
  the common directory), and `os.path.join(db.common, row text)` is the key again; `fnmatch` of a full key matches
  exactly that key (the worker gets full keys, never list labels);
* the library computations succeed on the inputs used (a worker that raises only logs the error);
* the list filter is a plain sub-string of either a file name or a series name (`Pat`);
* Qt delivers `result`/`error`/`finished` synchronously and in connection order; the sort applied by `tabulate_stats`
  (section = number of columns, i.e. none) keeps the insertion order.

`reqPlots` / `reqTable` are *ghost* fields: they record the most recent display request (its selection and the
settings at the moment of the request) since the last clear; no transition reads them.  They are what the views
*should* show (`Consistent`).  Core Lean only.
-/
namespace Qats.Gui

/-- Full key of a series: (file id, series-name id). -/
structure Key where
  file : Nat
  name : Nat
deriving DecidableEq, Repr

/-- Text of a list row: `name` or `file/name`. -/
structure RowText where
  file : Option Nat
  name : Nat
deriving DecidableEq, Repr

structure Row where
  text : RowText
  checked : Bool
deriving DecidableEq, Repr

/-- List filter typed by the user: nothing, a file name, a series name. -/
inductive Pat
  | all
  | file (f : Nat)
  | name (n : Nat)
deriving DecidableEq, Repr

/-- Processing settings held by the widgets (indices into the harness' tables of windows / filters). -/
structure Ui where
  twin : Nat
  filt : Nat
  minima : Bool
  showMM : Bool
deriving DecidableEq, Repr

inductive Kind
  | trace
  | stats
  | psd
  | rfc
deriving DecidableEq, Repr

/-- Queued workers with the arguments they captured. -/
inductive Worker
  | imp (files : List Nat)
  | read (sel : List Key)
  | job (k : Kind) (series : List Key) (twin filt : Nat) (minima : Bool)
  | readG (sel : List Key)
  | calcG (series : List Key) (twin filt : Nat)
deriving DecidableEq, Repr

/-- What a canvas shows: the series drawn and the settings the numbers were computed with.
`mode`: trace 0/1/2 = no markers / maxima / minima; peak distribution 0/1 = maxima / minima; otherwise 0. -/
structure Shown where
  series : List Key
  twin : Nat
  filt : Nat
  mode : Nat
deriving DecidableEq, Repr

/-- One row of the statistics table. -/
structure StatRow where
  key : Key
  twin : Nat
  filt : Nat
  minima : Bool
deriving DecidableEq, Repr

structure State where
  db : List Key
  rows : List Row
  status : Nat
  pat : Pat
  ui : Ui
  pending : List Worker
  trace : Option Shown
  spectrum : Option Shown
  weibull : Option Shown
  cycles : Option Shown
  table : List StatRow
  tabs : List Shown
  reqPlots : Option (List Key × Ui)
  reqTable : Option (List Key × Ui)
deriving DecidableEq, Repr

def init : State :=
  { db := [], rows := [], status := 0, pat := .all, ui := ⟨0, 0, false, false⟩, pending := [],
    trace := none, spectrum := none, weibull := none, cycles := none, table := [], tabs := [],
    reqPlots := none, reqTable := none }

/-! ### database listing -/

/-- All keys come from one file (also true for the empty database). -/
def sameFile : List Key → Bool
  | [] => true
  | k :: rest => rest.all (fun k' => k'.file == k.file)

/-- `TsDB._path_relpath(key, db.common)`. -/
def relText (db : List Key) (k : Key) : RowText :=
  if sameFile db then ⟨none, k.name⟩ else ⟨some k.file, k.name⟩

/-- `db.list(names="*", relative=True)`. -/
def listRelative (db : List Key) : List RowText := db.map (relText db)

/-- `os.path.join(db.common, row text)` as a key (`none`: a path that is no key). -/
def rowKey (db : List Key) (t : RowText) : Option Key :=
  match t.file with
  | some f => if sameFile db then none else some ⟨f, t.name⟩
  | none =>
    match db with
    | [] => none
    | k :: _ => if sameFile db then some ⟨k.file, t.name⟩ else none

def visible (p : Pat) (t : RowText) : Bool :=
  match p with
  | .all => true
  | .file f => t.file == some f
  | .name n => t.name == n

/-- `selected_series()`. -/
def selectedOf (db : List Key) (p : Pat) (rows : List Row) : List Key :=
  (rows.filter (fun r => visible p r.text && r.checked)).filterMap (fun r => rowKey db r.text)

def selected (s : State) : List Key := selectedOf s.db s.pat s.rows

/-- Tick / untick the `i`-th row shown in the (filtered) list view. -/
def setVisible (p : Pat) (b : Bool) : Nat → List Row → List Row
  | _, [] => []
  | i, r :: rs =>
    if visible p r.text then
      match i with
      | 0 => { r with checked := b } :: rs
      | i + 1 => r :: setVisible p b i rs
    else r :: setVisible p b i rs

def setAllVisible (p : Pat) (b : Bool) (rows : List Row) : List Row :=
  rows.map (fun r => if visible p r.text then { r with checked := b } else r)

/-! ### import -/

/-- Keys registered by `TsDB.load(files)`; `none`: some file cannot be read. `cat f` = series names on file `f`. -/
def fileKeys (cat : Nat → Option (List Nat)) : List Nat → Option (List Key)
  | [] => some []
  | f :: fs =>
    match cat f, fileKeys cat fs with
    | some ns, some ks => some (ns.map (Key.mk f) ++ ks)
    | _, _ => none

def hasDup : List Key → Bool
  | [] => false
  | k :: ks => ks.contains k || hasDup ks

/-- Keys added by a completed import worker, `none` when it fails (unreadable file, the same key twice among the new
files, or a key that is already in the database). -/
def importResult (cat : Nat → Option (List Nat)) (db : List Key) (files : List Nat) : Option (List Key) :=
  match fileKeys cat files with
  | none => none
  | some ks => if hasDup ks || ks.any (fun k => db.contains k) then none else some ks

/-! ### views -/

def mkShown (series : List Key) (twin filt mode : Nat) : Option Shown :=
  if series.isEmpty then none else some ⟨series, twin, filt, mode⟩

def markerMode (u : Ui) : Nat := if u.showMM then (if u.minima then 2 else 1) else 0

def minimaMode (b : Bool) : Nat := if b then 1 else 0

def statRows (series : List Key) (twin filt : Nat) (minima : Bool) : List StatRow :=
  series.map (fun k => ⟨k, twin, filt, minima⟩)

/-- `tabulate_stats`: rows `0..len-1` are overwritten, the table has `max len 50` rows. -/
def tabulate (new old : List StatRow) : List StatRow :=
  (new ++ old.drop new.length).take (max new.length 50)

/-! ### transitions -/

inductive Event
  | import_ (files : List Nat)
  | clear
  | setCheck (i : Nat) (b : Bool)
  | selectAll
  | unselectAll
  | setPat (p : Pat)
  | display
  | gumbel
  | setTwin (n : Nat)
  | setFilt (n : Nat)
  | setMinima (b : Bool)
  | setShowMM (b : Bool)
  | complete (i : Nat)
deriving DecidableEq, Repr

/-- Take the `i`-th pending worker out of the queue. -/
def pick : Nat → List Worker → Option (Worker × List Worker)
  | _, [] => none
  | 0, w :: ws => some (w, ws)
  | i + 1, w :: ws =>
    match pick i ws with
    | some (x, r) => some (x, w :: r)
    | none => none

/-- Effects of a finished worker `w` (already removed from `s.pending`). -/
def finish (cat : Nat → Option (List Nat)) (s : State) (w : Worker) : State :=
  match w with
  | .imp files =>
    match importResult cat s.db files with
    | none => { s with status := s.db.length }
    | some ks =>
      { s with db := s.db ++ ks, rows := (listRelative (s.db ++ ks)).map (fun t => ⟨t, false⟩),
               status := (s.db ++ ks).length }
  | .read sel =>
    let series := sel.filter (fun k => s.db.contains k)
    { s with status := s.db.length,
             pending := s.pending ++ [.job .trace series s.ui.twin s.ui.filt false,
                                      .job .stats series s.ui.twin s.ui.filt s.ui.minima,
                                      .job .psd series s.ui.twin s.ui.filt false,
                                      .job .rfc series s.ui.twin s.ui.filt false] }
  | .job .trace series tw fl _ =>
    { s with trace := mkShown series tw fl (markerMode s.ui), status := s.db.length }
  | .job .stats series tw fl mn =>
    { s with table := tabulate (statRows series tw fl mn) s.table,
             weibull := mkShown series tw fl (minimaMode mn),
             status := if series.isEmpty then s.status else s.db.length }
  | .job .psd series tw fl _ =>
    { s with spectrum := mkShown series tw fl 0, status := s.db.length }
  | .job .rfc series tw fl _ =>
    { s with cycles := mkShown series tw fl 0, status := s.db.length }
  | .readG sel =>
    let series := sel.filter (fun k => s.db.contains k)
    { s with status := s.db.length, pending := s.pending ++ [.calcG series s.ui.twin s.ui.filt] }
  | .calcG series tw fl =>
    if series.length < 2 then s
    else { s with tabs := s.tabs ++ [⟨series, tw, fl, 0⟩], status := s.db.length }

def step (cat : Nat → Option (List Nat)) (s : State) (e : Event) : State :=
  match e with
  | .import_ files =>
    if files.isEmpty then s
    else { s with pending := s.pending ++ [.imp files], status := s.db.length }
  | .clear =>
    { s with db := [], rows := [], status := 0, trace := none, spectrum := none, weibull := none, cycles := none,
             table := [], reqPlots := none, reqTable := none }
  | .setCheck i b => { s with rows := setVisible s.pat b i s.rows }
  | .selectAll => { s with rows := setAllVisible s.pat true s.rows }
  | .unselectAll => { s with rows := setAllVisible s.pat false s.rows }
  | .setPat p => { s with pat := p }
  | .display =>
    let sel := selected s
    if sel.isEmpty then { s with table := [], reqTable := some (sel, s.ui) }
    else { s with table := [], reqTable := some (sel, s.ui), reqPlots := some (sel, s.ui),
                  pending := s.pending ++ [.read sel], status := s.db.length }
  | .gumbel =>
    let sel := selected s
    if sel.length > 1 then { s with pending := s.pending ++ [.readG sel], status := s.db.length } else s
  | .setTwin n => { s with ui := { s.ui with twin := n } }
  | .setFilt n => { s with ui := { s.ui with filt := n } }
  | .setMinima b => { s with ui := { s.ui with minima := b } }
  | .setShowMM b => { s with ui := { s.ui with showMM := b } }
  | .complete i =>
    match pick i s.pending with
    | none => s
    | some (w, rest) => finish cat { s with pending := rest } w

def run (cat : Nat → Option (List Nat)) (s : State) (h : List Event) : State := h.foldl (step cat) s

/-- All states after each prefix of the history (for the correspondence harness). -/
def trace_ (cat : Nat → Option (List Nat)) : State → List Event → List State
  | _, [] => []
  | s, e :: es => step cat s e :: trace_ cat (step cat s e) es

/-! ### what the views should show -/

def specTrace (r : Option (List Key × Ui)) : Option Shown :=
  match r with
  | none => none
  | some (sel, u) => mkShown sel u.twin u.filt (markerMode u)

def specPlain (r : Option (List Key × Ui)) : Option Shown :=
  match r with
  | none => none
  | some (sel, u) => mkShown sel u.twin u.filt 0

def specWeibull (r : Option (List Key × Ui)) : Option Shown :=
  match r with
  | none => none
  | some (sel, u) => mkShown sel u.twin u.filt (minimaMode u.minima)

def specTable (r : Option (List Key × Ui)) : List StatRow :=
  match r with
  | none => []
  | some (sel, u) => statRows sel u.twin u.filt u.minima

/-- Every result view shows the most recent display request (series and the settings of that request). -/
def Consistent (s : State) : Prop :=
  s.trace = specTrace s.reqPlots ∧ s.spectrum = specPlain s.reqPlots ∧ s.weibull = specWeibull s.reqPlots ∧
    s.cycles = specPlain s.reqPlots ∧ s.table = specTable s.reqTable

instance (s : State) : Decidable (Consistent s) := by unfold Consistent; exact inferInstance

/-! ### restricted histories -/

def isUser : Event → Bool
  | .complete _ => false
  | _ => true

/-- Workers of a display request. -/
def isDisp : Worker → Bool
  | .read _ => true
  | .job .. => true
  | _ => false

/-- A display request is being processed. -/
def busy (s : State) : Bool := s.pending.any isDisp

/-- User actions that matter to a display request in flight. -/
def sensitive : Event → Bool
  | .display => true
  | .clear => true
  | .setTwin _ => true
  | .setFilt _ => true
  | .setMinima _ => true
  | .setShowMM _ => true
  | _ => false

/-- Serial history: the user acts only when no worker is pending. -/
def Serial (cat : Nat → Option (List Nat)) : State → List Event → Prop
  | _, [] => True
  | s, e :: es => (isUser e = true → s.pending = []) ∧ Serial cat (step cat s e) es

/-- Quiet history: display / clear / settings changes happen only while no display request is being processed
(imports, ticking rows, list filter, Gumbel plots and completions in any order are unrestricted). -/
def Quiet (cat : Nat → Option (List Nat)) : State → List Event → Prop
  | _, [] => True
  | s, e :: es => (sensitive e = true → busy s = false) ∧ Quiet cat (step cat s e) es

end Qats.Gui
