/-
Model of the power-spectral-density chain of qats:

* `welch`     = `qats.signal.psd(x, dt, nperseg=, noverlap=, nfft=)`  (= `scipy.signal.welch(x, fs=1/dt, …)`, Hann window,
                `detrend='constant'`, `scaling='density'`, one-sided, `average='mean'`),
* `psdTs`     = `TimeSeries.psd(nperseg, noverlap, nfft, normalize)` (default segment, uniformity guard, mean step,
                normalisation),
* `guiPsd`    = `qats.app.funcs.calculate_psd` for one series without time window / filter (resample to the mean step,
                10 % Tukey taper of `qats.signal.taper` applied to the fluctuation about the mean, `nperseg` clipped to the series length).

The discrete Fourier transform is written out as explicit cosine / sine sums; the core (`welchCore`) takes the two
"twiddle" functions `c s : Nat → α` (value for the integer `m = k·j`, i.e. the angle `2π m / nfft`) and the window as
arguments, so the theorems hold for an arbitrary linear transform and an arbitrary window; `welch` instantiates them
with `TranscOps.cos/sin` and the periodic Hann window.

Library behaviour assumed (scipy 1.18 `welch → csd → ShortTimeFFT.spectrogram`; numpy; documented behaviour):
* `get_window('hann', N)` is the periodic Hann window `0.5 − 0.5 cos(2π i / N)` (`[1]` for `N = 1`);
* `nperseg=None → 256`; `nperseg > len(x)` is clipped to `len(x)`; `nperseg < 1`, `nfft < nperseg`,
  `noverlap ≥ nperseg` raise `ValueError`; `noverlap=None → nperseg // 2`; `nfft=None → nperseg`;
* the segments start at `i·(nperseg − noverlap)` for `i < (n − noverlap) // (nperseg − noverlap)`; no padding;
* every segment has its mean removed, is multiplied by the window and zero-padded to `nfft`;
  `P_k = |X_k|² / (fs · Σ w²)`, doubled except at `k = 0` and (for even `nfft`) `k = nfft/2`; mean over the segments;
* `f_k = k · (1 / (nfft · T))` with `T = 1/fs` (`np.fft.rfftfreq`), `k = 0 … nfft // 2`;
* an empty signal gives two empty arrays;
* `np.isclose(a, b, rtol, atol)` is `|a − b| ≤ atol + rtol·|b|`;
* `np.linspace(a, b, n)[i] = a + i·((b − a)/(n − 1))`, last point exactly `b`; linear interpolation
  (`interp1d`) evaluates `y_lo + slope·(u − t_lo)` on the interval containing `u`;
* in `TimeSeries.get(resample=self.dt)` the new grid has as many points as the series
  (`round((t_end − t_start)/mean step) + 1`; exact in real arithmetic).
Core Lean only.
-/
import Qats.Prelude
namespace Qats.Welch
variable {α : Type} [Add α] [Sub α] [Mul α] [Div α] [Neg α] [LT α] [LE α] [DecidableLT α] [DecidableLE α]
  [OfScientific α] [NatCast α] [OfNat α 0]

inductive Err where
  /-- `ValueError` raised by scipy's argument checks (or `min()` of an empty step array). -/
  | value
  /-- `ValueError` "The time step … varies with more than 1%" of `TimeSeries.psd`. -/
  | guard
deriving DecidableEq, Repr

/-- Frequencies and spectral densities. -/
structure Psd (α : Type) where
  f : List α
  p : List α
deriving DecidableEq, Repr

def sum : List α → α
  | [] => 0
  | a :: l => a + sum l

def mean (l : List α) : α := sum l / (Nat.cast l.length : α)

/-- `detrend='constant'`. -/
def detrend (l : List α) : List α := l.map fun v => v - mean l

def applyWin (w y : List α) : List α := List.zipWith (fun a b => a * b) w y

/-- `Σ_j y_j · c(k·(j0 + j))`: real (`c = cos`) or imaginary (`c = sin`) part of the `k`-th DFT coefficient. -/
def dftAux (c : Nat → α) (k : Nat) : Nat → List α → α
  | _, [] => 0
  | j, v :: vs => v * c (k * j) + dftAux c k (j + 1) vs

/-- One-sided density of one prepared segment at bin `k`. -/
def binPower (c s : Nat → α) (nfft : Nat) (scale : α) (k : Nat) (y : List α) : α :=
  let re := dftAux c k 0 y
  let im := dftAux s k 0 y
  let p := (re * re + im * im) * scale
  if k = 0 ∨ (nfft % 2 = 0 ∧ k = nfft / 2) then p else p + p

def segCount (n nperseg noverlap : Nat) : Nat := (n - noverlap) / (nperseg - noverlap)

def segments (nperseg hop count : Nat) (x : List α) : List (List α) :=
  (List.range count).map fun i => (x.drop (i * hop)).take nperseg

/-- Mean-removed, windowed segments. -/
def prepared (w : List α) (noverlap : Nat) (x : List α) : List (List α) :=
  (segments w.length (w.length - noverlap) (segCount x.length w.length noverlap) x).map fun seg =>
    applyWin w (detrend seg)

/-- Welch's estimate for window `w` (segment length `w.length`), transform `c, s`, `nfft`, scale factor `scale`. -/
def welchCore (c s : Nat → α) (w : List α) (nfft : Nat) (scale : α) (noverlap : Nat) (x : List α) : List α :=
  let ys := prepared w noverlap x
  (List.range (nfft / 2 + 1)).map fun k =>
    sum (ys.map fun y => binPower c s nfft scale k y) / (Nat.cast ys.length : α)

/-- `np.fft.rfftfreq(nfft, 1/fs)`. -/
def freqs (fs : α) (nfft : Nat) : List α :=
  (List.range (nfft / 2 + 1)).map fun k => (Nat.cast k : α) * ((1.0 : α) / ((Nat.cast nfft : α) * ((1.0 : α) / fs)))

/-- `scaling='density'`: `1 / (fs · Σ w²)`. -/
def densityScale (fs : α) (w : List α) : α := (1.0 : α) / (fs * sum (w.map fun v => v * v))

section trig
variable [TranscOps α]

def twoPi : α := (2.0 : α) * (TranscOps.pi : α)

def cosTw (nfft : Nat) (m : Nat) : α :=
  TranscOps.cos (twoPi * (Nat.cast (m % nfft) : α) / (Nat.cast nfft : α))

def sinTw (nfft : Nat) (m : Nat) : α :=
  TranscOps.sin (twoPi * (Nat.cast (m % nfft) : α) / (Nat.cast nfft : α))

/-- Periodic Hann window (`scipy.signal.get_window('hann', n)`). -/
def hann (n : Nat) : List α :=
  if n ≤ 1 then List.replicate n (1.0 : α)
  else (List.range n).map fun i =>
    (0.5 : α) - (0.5 : α) * TranscOps.cos (twoPi * (Nat.cast i : α) / (Nat.cast n : α))

/-- `scipy.signal.welch(x, fs, nperseg=, noverlap=, nfft=)` with the transform and the window as parameters
(`win n` must have length `n`). -/
def welchWith (c s : Nat → Nat → α) (win : Nat → List α) (x : List α) (fs : α) (nperseg noverlap nfft : Option Nat) :
    Except Err (Psd α) :=
  if x.length = 0 then .ok ⟨[], []⟩ else
  let np0 := nperseg.getD 256
  if np0 < 1 then .error .value else
  let np := if x.length < np0 then x.length else np0
  let nf := nfft.getD np
  if nf < np then .error .value else
  let nov := noverlap.getD (np / 2)
  if np ≤ nov then .error .value else
  let w := win np
  .ok ⟨freqs fs nf, welchCore (c nf) (s nf) w nf (densityScale fs w) nov x⟩

/-- `qats.signal.psd(x, dt, nperseg=, noverlap=, nfft=)`. -/
def welch (x : List α) (dt : α) (nperseg noverlap nfft : Option Nat) : Except Err (Psd α) :=
  welchWith cosTw sinTw hann x ((1.0 : α) / dt) nperseg noverlap nfft

end trig

/-! ### `TimeSeries.psd` -/

def diffs : List α → List α
  | a :: b :: l => (b - a) :: diffs (b :: l)
  | _ => []

def minL (a : α) : List α → α
  | [] => a
  | b :: l => minL (if b < a then b else a) l

def maxL (a : α) : List α → α
  | [] => a
  | b :: l => maxL (if a < b then b else a) l

def absv (a : α) : α := if a < 0 then -a else a

/-- `np.isclose(a, b, rtol=1e-2, atol=1e-6)`. -/
def stepsClose (a b : α) : Bool := absv (a - b) ≤ (1.0e-6 : α) + (1.0e-2 : α) * absv b

/-- `p / np.max(p)`. -/
def normalise (p : List α) : List α :=
  match p with
  | [] => []
  | a :: l => (a :: l).map fun v => v / maxL a l

/-- `TimeSeries.psd` with the spectral estimator as a parameter (`est x dt nperseg noverlap nfft`). -/
def psdTsWith (est : List α → α → Option Nat → Option Nat → Option Nat → Except Err (Psd α))
    (t x : List α) (nperseg noverlap nfft : Option Nat) (normalize : Bool) : Except Err (Psd α) :=
  let np := nperseg.getD (x.length / 4)
  match diffs t with
  | [] => .error .value
  | d :: ds =>
    if ¬ stepsClose (minL d ds) (maxL d ds) then .error .guard else
    let dt := mean (d :: ds)
    match est x dt (some np) noverlap nfft with
    | .error e => .error e
    | .ok r => .ok (if normalize then ⟨r.f, normalise r.p⟩ else r)

section trig
variable [TranscOps α]

/-- `TimeSeries(name, t, x).psd(nperseg=, noverlap=, nfft=, normalize=)`. -/
def psdTs (t x : List α) (nperseg noverlap nfft : Option Nat) (normalize : Bool) : Except Err (Psd α) :=
  psdTsWith welch t x nperseg noverlap nfft normalize

end trig

/-! ### `app.funcs.calculate_psd` (no time window, no filter) -/

/-- `np.linspace(a, b, n)`. -/
def linspace (a b : α) (n : Nat) : List α :=
  (List.range n).map fun i =>
    if i + 1 = n ∧ 1 < n then b else a + (Nat.cast i : α) * ((b - a) / (Nat.cast (n - 1) : α))

/-- Linear interpolation of the series `(t, x)` at `u` (first interval whose right end is `≥ u`, else the last). -/
def interp1 : List α → List α → α → α
  | t0 :: t1 :: ts, x0 :: x1 :: xs, u =>
    if u ≤ t1 ∨ ts.isEmpty then (x1 - x0) / (t1 - t0) * (u - t0) + x0
    else interp1 (t1 :: ts) (x1 :: xs) u
  | _, x0 :: _, _ => x0
  | _, [], _ => 0

section trig
variable [TranscOps α]

/-- Weight `i` of the Tukey window of `qats.signal.taper` (`window_len = n`). -/
def tukeyW (alpha : α) (n i : Nat) : α :=
  let L : α := Nat.cast n
  let I : α := Nat.cast i
  let half := alpha * L / (2.0 : α)
  let hi := L * ((1.0 : α) - alpha / (2.0 : α))
  if hi < I ∧ I ≤ L then
    (0.5 : α) * ((1.0 : α) + TranscOps.cos ((TranscOps.pi : α) *
      ((Nat.cast (2 * i) : α) / (alpha * L) - (2.0 : α) / alpha + (1.0 : α))))
  else if half ≤ I ∧ I ≤ hi then (1.0 : α)
  else if I < half then
    (0.5 : α) * ((1.0 : α) + TranscOps.cos ((TranscOps.pi : α) * ((Nat.cast (2 * i) : α) / (alpha * L) - (1.0 : α))))
  else 0

def taper (alpha : α) (x : List α) : List α :=
  List.zipWith (fun v i => v * tukeyW alpha x.length i) x (List.range x.length)

/-- `TimeSeries.get(taperfrac=alpha)`: the fluctuation about the mean is tapered, the mean is added back. -/
def taperAboutMean (alpha : α) (x : List α) : List α :=
  (taper alpha (x.map fun v => v - mean x)).map fun v => v + mean x

/-- The signal handed to Welch's method on the GUI path (`get(resample=self.dt, taperfrac=0.1)`): resampled to the mean
step, 10 % Tukey taper about the mean. -/
def guiSignal (t x : List α) : List α × List α :=
  match t, t.getLast? with
  | t0 :: _, some t1 =>
    let grid := linspace t0 t1 t.length
    (grid, taperAboutMean (0.1 : α) (grid.map fun u => interp1 t x u))
  | _, _ => ([], [])

/-- `calculate_psd({name: TimeSeries(name, t, x)}, None, None, nperseg, normalize)[name]`. -/
def guiPsd (t x : List α) (nperseg : Nat) (normalize : Bool) : Except Err (Psd α) :=
  let g := guiSignal t x
  psdTs g.1 g.2 (some (if t.length < nperseg then t.length else nperseg)) none none normalize

end trig

end Qats.Welch
