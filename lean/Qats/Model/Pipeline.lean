/-
Model of the processing pipeline `TimeSeries.get(twin, resample, taperfrac, filterargs, window_len)`, of
`TimeSeries.interpolate` (scipy `interp1d`, linear, `bounds_error=True`), `new_timearray` and the stand-alone
`TimeSeries.resample(dt | t)`.  Exact arithmetic; core Lean only.

Assumed library behaviour (DESIGN.md section 3): `interp1d` is piecewise-linear interpolation on the sorted nodes and
raises outside `[t[0], t[-1]]`; `np.linspace(a, b, n)[i] = a + i·(b−a)/(n−1)` (`[a]` for `n = 1`);
`np.arange(a, b, d)[i] = a + i·d` for `i < ⌈(b−a)/d⌉`; Python's `round` is round-half-to-even (`rnd`, a parameter).
Tapering, filtering and smoothing are *abstract stage functions* (parameters): the model fixes where and with which
sampling interval they are applied, their numerics are the subject of C12.
-/
namespace Qats.Pipeline
variable {α : Type} [Add α] [Sub α] [Mul α] [Div α] [Neg α] [LT α] [LE α] [DecidableLT α] [DecidableLE α]
  [NatCast α] [OfNat α 0] [OfScientific α]

/-- Samples whose time lies in the closed window, unchanged and in order (`i = (t >= a) & (t <= b)`). -/
def window (a b : α) : List α → List α → List α × List α
  | t :: ts, x :: xs =>
    let r := window a b ts xs
    if a ≤ t ∧ t ≤ b then (t :: r.1, x :: r.2) else r
  | _, _ => ([], [])

/-- Piecewise-linear interpolation of the nodes `(t, x)` at `q`; `none` outside `[t₀, t_last]` (interp1d raises). -/
def interp : List α → List α → α → Option α
  | [t0], [x0], q => if ¬ (q < t0) ∧ ¬ (t0 < q) then some x0 else none
  | t0 :: t1 :: ts, x0 :: x1 :: xs, q =>
    if q < t0 then none
    else if q ≤ t1 then some (x0 + (x1 - x0) / (t1 - t0) * (q - t0))
    else interp (t1 :: ts) (x1 :: xs) q
  | _, _, _ => none

def interpAll (t x : List α) (qs : List α) : Option (List α) := qs.mapM (interp t x)

/-- `np.linspace(a, b, n)`. -/
def linspace (a b : α) (n : Nat) : List α :=
  if n = 1 then [a] else (List.range n).map fun i => a + (Nat.cast i : α) * ((b - a) / (Nat.cast (n - 1) : α))

/-- `new_timearray(t0, t1, d)`: `n = int(round((t1 − t0)/d)) + 1` points from `t0` to `t1`. -/
def newTimearray (rnd : α → Int) (t0 t1 d : α) : List α :=
  linspace t0 t1 ((rnd ((t1 - t0) / d)).toNat + 1)

def sum (l : List α) : α := l.foldl (· + ·) 0
def diffs : List α → List α
  | a :: b :: r => (b - a) :: diffs (b :: r)
  | _ => []

/-- `TimeSeries.dt`: mean of the time steps. -/
def meanDt (t : List α) : α := sum (diffs t) / (Nat.cast (t.length - 1) : α)

def abs' (v : α) : α := if v < 0 then -v else v

/-- `is_constant_dt`: `np.allclose(diff(t), dt, rtol=1e-5, atol=0)`. -/
def isConstantDt (t : List α) : Bool :=
  let d := meanDt t
  (diffs t).all fun di => decide (abs' (di - d) ≤ (1.0e-5 : α) * abs' d)

/-- Abstract stages. `filter` receives the sampling interval. -/
structure Stages (α : Type) where
  taper : List α → List α
  filter : α → List α → List α
  smooth : List α → List α

inductive Resample (α : Type)
  | step (d : α)
  | times (ts : List α)

structure Opts (α : Type) where
  twin : Option (α × α) := none
  resample : Option (Resample α) := none
  taper : Bool := false
  filter : Bool := false
  smooth : Bool := false

inductive Err | assertion | bounds | index
deriving Repr, DecidableEq

/-- `TimeSeries.get`. -/
def get (rnd : α → Int) (st : Stages α) (t x : List α) (o : Opts α) : Except Err (List α × List α) := do
  -- assert not (resample is an array and twin given)
  match o.resample, o.twin with
  | some (.times _), some _ => throw .assertion
  | _, _ => pure ()
  let (tw, xw) := match o.twin with
    | some (a, b) => window a b t x
    | none => (t, x)
  -- resampling (interpolation always uses the full stored series)
  let grid? : Except Err (Option (List α)) := match o.resample with
    | some (.times ts) => pure (some ts)
    | some (.step d) =>
      match tw.head?, tw.getLast? with
      | some a, some b => pure (some (newTimearray rnd a b d))
      | _, _ => throw .index
    | none =>
      if o.filter && !isConstantDt t then
        match tw.head?, tw.getLast? with
        | some a, some b => pure (some (newTimearray rnd a b (meanDt t)))
        | _, _ => throw .index
      else pure none
  let g ← grid?
  let (t1, x1) ← match g with
    | some ts =>
      match interpAll t x ts with
      | some xs => pure (ts, xs)
      | none => throw .bounds
    | none => pure (tw, xw)
  let x2 := if o.taper then st.taper x1 else x1
  let x3 ← if o.filter then
      match t1 with
      | a :: b :: _ => pure (st.filter (b - a) x2)
      | _ => throw .index
    else pure x2
  let x4 := if o.smooth then st.smooth x3 else x3
  pure (t1, x4)

/-- `np.arange(a, b, d)` for `d > 0`, produced with explicit fuel `k = ⌈(b−a)/d⌉` supplied by the caller. -/
def arange (a d : α) (k : Nat) : List α := (List.range k).map fun i => a + (Nat.cast i : α) * d

/-- Stand-alone `TimeSeries.resample(dt=d)`: interpolate on `arange(start, end, d)` (points beyond `end` dropped). -/
def resampleStep (t x : List α) (d : α) (k : Nat) : Option (List α) :=
  match t.head?, t.getLast? with
  | some a, some b => interpAll t x ((arange a d k).filter fun q => q ≤ b)
  | _, _ => none

end Qats.Pipeline
