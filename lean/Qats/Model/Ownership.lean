/-
Ownership model for C10: which arrays a query may write to, which arrays it may return, and why concurrent
queries cannot influence each other.

* Arrays carry a provenance tag: `stored` (an attribute of the series), `fresh` (allocated by this call or returned by a
  library function), `arg` (an array the caller passed in).
* `TimeSeries.get` and the query methods built on it are written as sequences of primitive array steps that mirror the
  code (copy, boolean-mask indexing, rebinding to an argument, library call, in-place update).
* Threads: any number of computations over one shared, immutable store; each atomic step may read the store and update the
  computation's own local state.
Core Lean only.
-/
namespace Qats.Ownership

inductive Tag | stored | fresh | arg
deriving DecidableEq, Repr

/-- The two working arrays of `get` (`t`, `x`). -/
structure Env where
  t : Tag
  x : Tag
deriving DecidableEq, Repr

inductive Step
  | copyBoth          -- t = copy.copy(self.t); x = copy.copy(self.x)
  | noCopy            -- (what a missing defensive copy would be: t = self.t; x = self.x)
  | maskBoth          -- t, x = t[i], x[i]        (boolean-mask indexing allocates)
  | timeFromArg       -- t = resample            (the caller's array itself: the code before the F55 repair)
  | timeCopyOfArg     -- t = np.array(resample)  (a copy of the caller's array)
  | timeNew           -- t = new_timearray(...)  (np.linspace)
  | interpX           -- x = self.interpolate(t) (interp1d returns a new array)
  | libX              -- x = taper(x)/filter(x)/smooth(x): library call returning a new array
  | inplaceX          -- x *= -1.               (in-place update of the array bound to x)
deriving DecidableEq, Repr

/-- Execute one step: new environment and the tag of the array written in place (if any). -/
def exec (e : Env) : Step → Env × Option Tag
  | .copyBoth => (⟨.fresh, .fresh⟩, none)
  | .noCopy => (⟨.stored, .stored⟩, none)
  | .maskBoth => (⟨.fresh, .fresh⟩, none)
  | .timeFromArg => (⟨.arg, e.x⟩, none)
  | .timeCopyOfArg => (⟨.fresh, e.x⟩, none)
  | .timeNew => (⟨.fresh, e.x⟩, none)
  | .interpX => (⟨e.t, .fresh⟩, none)
  | .libX => (⟨e.t, .fresh⟩, none)
  | .inplaceX => (e, some e.x)

/-- Run a program from the stored arrays; returns the final environment and all in-place targets. -/
def runSteps (e : Env) : List Step → Env × List Tag
  | [] => (e, [])
  | s :: ss =>
    let (e1, w) := exec e s
    let (e2, ws) := runSteps e1 ss
    (e2, (match w with | some t => [t] | none => []) ++ ws)

inductive Res | none | step | array
deriving DecidableEq, Repr

structure Opts where
  twin : Bool
  resample : Res
  uniformise : Bool     -- filtering requested on a series with non-constant step
  taper : Bool
  filter : Bool
  smooth : Bool
deriving DecidableEq, Repr

/-- The step sequence of `TimeSeries.get(**opts)`. -/
def getProgram (o : Opts) : List Step :=
  [.copyBoth] ++ (if o.twin then [.maskBoth] else []) ++
  (match o.resample with
    | .array => [.timeCopyOfArg, .interpX]
    | .step => [.timeNew, .interpX]
    | .none => if o.filter && o.uniformise then [.timeNew, .interpX] else []) ++
  (if o.taper then [.libX] else []) ++ (if o.filter then [.libX] else []) ++ (if o.smooth then [.libX] else [])

/-- `TimeSeries.minima`: `get`, then `x = -1. * x` (a new array since the F51 repair; before it was `x *= -1.` in place on the
array `get` returned), `find_maxima`, `m *= -1.` on its (new) result. -/
def minimaProgram (o : Opts) : List Step := getProgram o ++ [.libX]

def start : Env := ⟨.stored, .stored⟩

/-! ### schedules -/

/-- `n` computations over a shared store `σ` that is only read: thread `i` has local state `L` and step `f i : σ → L → L`. -/
def runSchedule {σ L : Type} (f : Nat → σ → L → L) (store : σ) (locals : Nat → L) : List Nat → Nat → L
  | [] => locals
  | i :: rest => runSchedule f store (fun j => if j = i then f i store (locals j) else locals j) rest

/-- Number of steps thread `i` takes in a schedule. -/
def countOf (i : Nat) (sched : List Nat) : Nat := (sched.filter (· == i)).length

/-- Sequential execution of `k` steps of thread `i`. -/
def iter {σ L : Type} (f : Nat → σ → L → L) (store : σ) (i : Nat) : Nat → L → L
  | 0, l => l
  | k + 1, l => iter f store i k (f i store l)

/-! ### copies -/

/-- The attributes of a `TimeSeries` instance (`vars(ts)`): arrays are (tag, content id). -/
structure Series where
  name : Nat
  kind : Nat
  unit : Nat
  parent : Nat
  dtgRef : Nat
  t : Nat          -- content of the time array
  x : Nat          -- content of the data array
  tOwner : Nat     -- identity of the array objects (aliasing): equal owners = shared memory
  xOwner : Nat
deriving DecidableEq, Repr

/-- `TimeSeries.copy()`: a new instance built from copies of every attribute; the arrays are new objects. -/
def copySeries (s : Series) (freshOwner : Nat) : Series :=
  { name := s.name, kind := s.kind, unit := s.unit, parent := s.parent, dtgRef := s.dtgRef, t := s.t, x := s.x,
    tOwner := freshOwner, xOwner := freshOwner + 1 }

end Qats.Ownership
