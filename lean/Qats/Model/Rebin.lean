/-
Model of `qats.fatigue.rainflow.rebin`, `mesh`, `_create_bins` (numpy histogram semantics in exact arithmetic).

numpy rules modelled (assumed, see DESIGN.md section 3):
* `np.histogram(a, bins=edges, weights=w)`: bins are half-open `[e_j, e_{j+1})` except the last which is closed;
  values outside `[e_0, e_last]` are dropped; bin index = (number of edges ≤ v) − 1, moved into the last bin when it
  falls on the last edge.
* `np.linspace(start, stop, n+1)[i] = start + i·(stop−start)/n`;
  `_create_bins(start, stop, w=w)` = `start + w·arange(k+1)` with `k = max(⌈(stop−start)/w⌉, 1)` (the bin count `k` is
  computed by the caller of this model: the driver with `Rat.ceil`, the theorems with `Nat.ceil`).
* `np.histogram2d(..., range=[[a,b],[c,d]])` uses linspace edges over the range; a degenerate range `a = b` is widened to
  `[a − 1/2, a + 1/2]`.
Core Lean only.
-/
namespace Qats.Rebin
variable {α : Type} [Add α] [Sub α] [Mul α] [Div α] [Neg α] [LT α] [LE α] [DecidableLT α] [DecidableLE α]
  [BEq α] [OfScientific α] [NatCast α] [OfNat α 0]

def linspaceEdges (start stop : α) (n : Nat) : List α :=
  (List.range (n + 1)).map fun i => start + (Nat.cast i : α) * ((stop - start) / (Nat.cast n : α))

def widthEdges (start w : α) (k : Nat) : List α :=
  (List.range (k + 1)).map fun i => start + w * (Nat.cast i : α)

/-- numpy's bin index of `v` for sorted `edges` (`none`: outside the outer edges, dropped). -/
def binIndex (edges : List α) (v : α) : Option Nat :=
  match edges.head?, edges.getLast? with
  | some lo, some hi =>
    if v < lo ∨ hi < v then none
    else
      let c := (edges.filter fun e => e ≤ v).length
      let nb := edges.length - 1
      some (if c - 1 ≥ nb then nb - 1 else c - 1)
  | _, _ => none

def sum (l : List α) : α := l.foldl (· + ·) 0

/-- Weighted histogram: entry `j` = Σ of the weights of the values whose bin index is `j`. -/
def hist (edges : List α) (vals weights : List α) : List α :=
  (List.range (edges.length - 1)).map fun j =>
    sum ((List.zip vals weights).filterMap fun (v, w) => if binIndex edges v == some j then some w else none)

def mids (edges : List α) : List α :=
  List.zipWith (fun a b => (0.5 : α) * (a + b)) edges.dropLast edges.tail

/-- A cycle table row. -/
structure Row (α : Type) where
  range : α
  mean : α
  count : α

/-- Output row of `rebin`: primary mid-point, count-weighted mean of the other quantity (`none` = nan for empty bins),
bin count. -/
structure Bin (α : Type) where
  primary : α
  secondary : Option α
  count : α

def maxOf (l : List α) (d : α) : α := l.foldl (fun a b => if a < b then b else a) (l.headD d)
def minOf (l : List α) (d : α) : α := l.foldl (fun a b => if b < a then b else a) (l.headD d)

/-- `rebin` for given edges over the primary quantity. -/
def rebinWith (edges : List α) (primary secondary counts : List α) : List (Bin α) :=
  let binN := hist edges primary counts
  let binS := hist edges primary (List.zipWith (· * ·) counts secondary)
  List.zipWith (fun (m : α) (ns : α × α) =>
      ⟨m, if (0 : α) < ns.1 then some (ns.2 * ((1.0 : α) / ns.1)) else none, ns.1⟩)
    (mids edges) (List.zip binN binS)

inductive BinBy | range | mean
inductive Spec (α : Type)
  | n (n : Nat)
  | w (w : α) (k : Nat)     -- width and the bin count `k = max(⌈(stop−start)/w⌉, 1)`

def createBins (start stop : α) : Spec α → List α
  | .n n => linspaceEdges start stop n
  | .w w k => widthEdges start w k

/-- `rebin(cycles, binby, n | w)`; rows of the result are (range, mean, count) as in the code:
binby range → (mid, weighted mean of means, N); binby mean → (weighted mean of ranges, mid, N). -/
def rebin (table : List (Row α)) (by_ : BinBy) (spec : Spec α) : List (Bin α) :=
  let ranges := table.map (·.range)
  let means := table.map (·.mean)
  let counts := table.map (·.count)
  match by_ with
  | .range => rebinWith (createBins (0.0 : α) (maxOf ranges 0) spec) ranges means counts
  | .mean => rebinWith (createBins (minOf means 0) (maxOf means 0) spec) means ranges counts

/-- Outer edges used by `histogram2d` for a requested range. -/
def outer (a b : α) : α × α := if a == b then (a - (0.5 : α), b + (0.5 : α)) else (a, b)

/-- `mesh(cycles, nr, nm)`: (range mid-points, mean mid-points, cmesh) with `cmesh[m][r]` (the code transposes). -/
def mesh (table : List (Row α)) (nr nm : Nat) : List α × List α × List (List α) :=
  let ranges := table.map (·.range)
  let means := table.map (·.mean)
  let counts := table.map (·.count)
  let (r0, r1) := outer (0.0 : α) (maxOf ranges 0)
  let (m0, m1) := outer (minOf means 0) (maxOf means 0)
  let re := linspaceEdges r0 r1 nr
  let me := linspaceEdges m0 m1 nm
  let cm := (List.range nm).map fun jm => (List.range nr).map fun jr =>
    sum ((List.zip (List.zip ranges means) counts).filterMap fun ((r, m), c) =>
      if binIndex re r == some jr && binIndex me m == some jm then some c else none)
  (mids re, mids me, cm)

end Qats.Rebin
