/-
Record-level model of the direct-access reader `qats.io.direct_access._read_data` (formats `.ts`, `.tda`).

The file is a sequence of 4-byte words (`List α`; how a word decodes to a number — `struct.unpack`, float32 — is NOT
modelled, the scalar `α` is abstract).  Layout: record 0 is the header/info record, record 1 the time array, record
`i+1` the `i`-th array (`i = 0` is time), every record has `ndat` words.  `ndat` is what the first word decodes to
(a parameter here).

The code, statement by statement:
    f.seek(0, 2); epos = f.tell(); nrec = epos/(ndat*4); nts = int(nrec - 2)      → `nts`
    assert max(ind) <= nts                                                       → `none`
    pos = dict(zip(ind, range(len(ind))))          (a later pair overwrites)     → `pos`
    arr = np.zeros((len(ind), ndat))
    f.seek(nbytes*ndat)                                                          → cursor := 4·ndat
    for i in range(nts + 1):
        if i in ind:  s = f.read(4*ndat); arr[pos[i], :] = unpack(s)             → `loop`, first branch
        else:         f.seek(4*ndat, 1)                                          → `loop`, second branch
The cursor is kept in bytes, as in the code.  Core Lean only.
-/
namespace Qats.Direct

variable {α : Type}

/-- `f.seek(cur); f.read(nbytes)` on a file of 4-byte words. -/
def readAt (w : List α) (cur nbytes : Nat) : List α := (w.drop (cur / 4)).take (nbytes / 4)

/-- `dict(zip(ind, range(p, p + len(ind))))[i]`: the position stored for record `i`; a later pair with the same key
overwrites an earlier one, so the LAST occurrence of `i` in `ind` wins. -/
def pos : List Nat → Nat → Nat → Option Nat
  | [], _, _ => none
  | a :: rest, p, i =>
    match pos rest (p + 1) i with
    | some q => some q
    | none => if a == i then some p else none

/-- The `for i in range(...)` loop: `n` iterations left, next record number `i`, file cursor `cur` (bytes), output
array `arr`.  Returns the final cursor and the array. -/
def loop (w : List α) (ndat : Nat) (ind : List Nat) : Nat → Nat → Nat → List (List α) → Nat × List (List α)
  | 0, _, cur, arr => (cur, arr)
  | n + 1, i, cur, arr =>
    if ind.contains i then
      let s := readAt w cur (4 * ndat)
      let arr' := match pos ind 0 i with
        | some p => arr.set p s
        | none => arr
      loop w ndat ind n (i + 1) (cur + 4 * ndat) arr'
    else
      loop w ndat ind n (i + 1) (cur + 4 * ndat) arr

/-- Number of arrays after the time array, as the code derives it from the file size. -/
def nts (w : List α) (ndat : Nat) : Nat := w.length / ndat - 2

/-- `_read_data(path, ind=ind)`; `none` = the assertion on `max(ind)` fails. -/
def read [OfNat α 0] (w : List α) (ndat : Nat) (ind : List Nat) : Option (List (List α)) :=
  if ind.all (· ≤ nts w ndat) then
    some (loop w ndat ind (nts w ndat + 1) 0 (4 * ndat) (List.replicate ind.length (List.replicate ndat 0))).2
  else none

/-- Record `i` of the file (`i = 0`: time): the `ndat` words after the header record and `i` earlier records. -/
def record (w : List α) (ndat i : Nat) : List α := (w.drop ((i + 1) * ndat)).take ndat

end Qats.Direct
