/-
Model of the DESCRIPTIVE half of `TimeSeries.stats` (/repo/qats/ts.py): for the processed arrays `(t, x) = self.get(**kwargs)`

    start = t[0]   end = t[-1]   duration = t[-1] - t[0]   dtavg = np.mean(np.diff(t))
    mean = x.mean()   std = scipy.stats.tstd(x)   skew = scipy.stats.skew(x, bias=False)
    kurt = scipy.stats.kurtosis(x, fisher=False, bias=False)   min = x.min()   max = x.max()
    tz = 1. / average_frequency(t, x)

(the extreme-value half is `Qats.Stats.summary`).  Core Lean only, operator-polymorphic; `none` stands for `nan`.

scipy (1.18.1, `scipy/stats/_stats_py.py`), with `n = len(x)`, `m = mean(x)`, `m_k = mean((x - m)**k)` (`_moment`):

* `tstd(x) = tvar(x)**0.5`, `tvar = _xp_var(x, correction=1) = m_2 * (n / (n - 1))` when `n - 1 > 0`, else `nan`.
* `zero = m_2 <= (eps * m)**2` with `eps = finfo(float64).eps` — the "all values identical up to rounding" test.
  `eps` is a PARAMETER of the model: `2^-52` at `Float`, `0` in exact arithmetic (`m_2 ≤ 0` ⇔ the signal is constant).
* `skew(x, bias=False)`: `nan` when `zero`; otherwise `((n-1)*n)**0.5 / (n-2) * m_3 / m_2**1.5` when `n > 2`,
  the uncorrected `m_3 / m_2**1.5` when `n ≤ 2`.
* `kurtosis(x, fisher=False, bias=False)`: `nan` when `zero`; otherwise
  `1/(n-2)/(n-3) * ((n**2-1)*m_4/m_2**2 - 3*(n-1)**2) + 3` when `n > 3`, the uncorrected `m_4 / m_2**2` when `n ≤ 3`.

Assumptions (external library behaviour, documented rather than modelled): the powers `d**2.0, d**3.0, d**4.0, m_2**2.0,
(n-1)**2.0` with small integral exponents are written as products (identical over a field, within 1 ulp at Float);
`v**0.5` is `sqrt`; numpy's pairwise summation is a left fold (identical over a field, within rounding at Float);
natural-number expressions `n-1, n-2, n-3, (n-1)·n, n²-1` are computed in ℕ and cast (exact at Float for n < 2^26);
`t` and `x` have the same length (guaranteed by `TimeSeries`).  An empty `t` or `x` makes the code raise: `describe = none`.
-/
import Qats.Model.Peaks
namespace Qats.Moments
open Qats
variable {α : Type} [Add α] [Sub α] [Mul α] [Div α] [Neg α] [LT α] [LE α] [DecidableLT α] [DecidableLE α]
  [NatCast α] [OfNat α 0]

/-! ### fields computed with field operations only (executable at `Rat`) -/

/-- `np.diff`. -/
def diff : List α → List α
  | a :: b :: r => (b - a) :: diff (b :: r)
  | _ => []

/-- `x.min()` / `x.max()` of the non-empty array `x0 :: r`. -/
def minL (x0 : α) (r : List α) : α := r.foldl (fun m v => if v < m then v else m) x0
def maxL (x0 : α) (r : List α) : α := r.foldl (fun m v => if m < v then v else m) x0

/-- Central moments `mean((x - mean x)**k)`, k = 2, 3, 4 (`scipy.stats._stats_py._moment`). -/
def m2 (x : List α) : α := let m := Peaks.mean x; Peaks.mean (x.map fun v => (v - m) * (v - m))
def m3 (x : List α) : α := let m := Peaks.mean x; Peaks.mean (x.map fun v => (v - m) * (v - m) * (v - m))
def m4 (x : List α) : α := let m := Peaks.mean x; Peaks.mean (x.map fun v => (v - m) * (v - m) * (v - m) * (v - m))

/-- scipy's degenerate-sample test `m2 <= (eps * mean)**2`. -/
def isZero (eps : α) (x : List α) : Bool := decide (m2 x ≤ (eps * Peaks.mean x) * (eps * Peaks.mean x))

/-- `scipy.stats.tvar(x)` (ddof = 1): `nan` for fewer than two samples. -/
def tvar (x : List α) : Option α :=
  if x.length ≤ 1 then none
  else some (m2 x * ((Nat.cast x.length : α) / (Nat.cast (x.length - 1) : α)))

/-- `np.mean(np.diff(t))`: `nan` for a single sample. -/
def dtavg (t : List α) : Option α := if t.length ≤ 1 then none else some (Peaks.mean (diff t))

/-- `1. / average_frequency(t, x)` (mean up-crossing period; `nan` with fewer than two up-crossings). -/
def tz (t x : List α) : Option α := (Peaks.averageFrequency t x true).map fun f => (Nat.cast 1 : α) / f

/-- `scipy.stats.kurtosis(x, fisher=False, bias=False)`. -/
def kurt (eps : α) (x : List α) : Option α :=
  if isZero eps x then none
  else if 3 < x.length then
    some ((Nat.cast 1 : α) / (Nat.cast (x.length - 2) : α) / (Nat.cast (x.length - 3) : α) *
        ((Nat.cast (x.length * x.length - 1) : α) * m4 x / (m2 x * m2 x) -
          (Nat.cast 3 : α) * ((Nat.cast (x.length - 1) : α) * (Nat.cast (x.length - 1) : α))) + (Nat.cast 3 : α))
  else some (m4 x / (m2 x * m2 x))

/-! ### fields that need `sqrt` / a real power -/
variable [OfScientific α] [TranscOps α]

/-- `scipy.stats.tstd(x)`. -/
def tstd (x : List α) : Option α := (tvar x).map TranscOps.sqrt

/-- `scipy.stats.skew(x, bias=False)`. -/
def skew (eps : α) (x : List α) : Option α :=
  if isZero eps x then none
  else if 2 < x.length then
    some (TranscOps.sqrt (Nat.cast ((x.length - 1) * x.length) : α) / (Nat.cast (x.length - 2) : α) * m3 x /
      TranscOps.rpow (m2 x) (1.5 : α))
  else some (m3 x / TranscOps.rpow (m2 x) (1.5 : α))

/-- The descriptive fields of the dictionary returned by `TimeSeries.stats`. -/
structure Desc (α : Type) where
  start : α
  stop : α                  -- key `end`
  duration : α
  dtavg : Option α
  mean : α
  std : Option α
  skew : Option α
  kurt : Option α
  min : α
  max : α
  tz : Option α

def describe (eps : α) (t x : List α) : Option (Desc α) :=
  match t, x with
  | t0 :: tr, x0 :: xr =>
    some { start := t0, stop := tr.getLastD t0, duration := tr.getLastD t0 - t0, dtavg := dtavg (t0 :: tr),
           mean := Peaks.mean (x0 :: xr), std := tstd (x0 :: xr), skew := skew eps (x0 :: xr),
           kurt := kurt eps (x0 :: xr), min := minL x0 xr, max := maxL x0 xr, tz := tz (t0 :: tr) (x0 :: xr) }
  | _, _ => none

end Qats.Moments
