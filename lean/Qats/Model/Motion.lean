/-
Model of `qats.motions`: `transform_motion` (per time step; the nine matrix entries are the generated formulas
`Qats.Gen.mo_rIJ`), `velocity` / `acceleration` (`np.gradient`, edge_order 1).  Core Lean only.
-/
import Qats.Gen.Formulas
namespace Qats.Motion
open Qats.Gen
variable {α : Type} [Add α] [Sub α] [Mul α] [Div α] [Neg α] [LT α] [LE α] [DecidableLT α] [DecidableLE α]
  [OfScientific α] [TranscOps α]

/-- A three-vector. -/
structure V3 (α : Type) where
  x : α
  y : α
  z : α
deriving Repr

/-- `np.dot(trans[:, :, i], newref)` for the rotation angles (radians) of one time step. -/
def rotate (rx ry rz : α) (v : V3 α) : V3 α :=
  ⟨mo_r00 rx ry rz * v.x + mo_r01 rx ry rz * v.y + mo_r02 rx ry rz * v.z,
   mo_r10 rx ry rz * v.x + mo_r11 rx ry rz * v.y + mo_r12 rx ry rz * v.z,
   mo_r20 rx ry rz * v.x + mo_r21 rx ry rz * v.y + mo_r22 rx ry rz * v.z⟩

/-- `np.radians`. -/
def radians (d : α) : α := d * ((TranscOps.pi : α) / (180.0 : α))

/-- One time step of `transform_motion`: position of the new point = reference position + rotated body vector. -/
def transformStep (deg : Bool) (pos : V3 α) (rx ry rz : α) (newref : V3 α) : V3 α :=
  let rx' := if deg then radians rx else rx
  let ry' := if deg then radians ry else ry
  let rz' := if deg then radians rz else rz
  let r := rotate rx' ry' rz' newref
  ⟨r.x + pos.x, r.y + pos.y, r.z + pos.z⟩

/-! ### `np.gradient` -/

/-- Interior points of `np.gradient(x, t)` (second order, also for non-uniform spacing):
`a f(i-1) + b f(i) + c f(i+1)` with `dx1 = t_i - t_{i-1}`, `dx2 = t_{i+1} - t_i`. -/
def interior : List α → List α → List α
  | t0 :: t1 :: t2 :: ts, x0 :: x1 :: x2 :: xs =>
    let dx1 := t1 - t0
    let dx2 := t2 - t1
    let a := -(dx2) / (dx1 * (dx1 + dx2))
    let b := (dx2 - dx1) / (dx1 * dx2)
    let c := dx1 / (dx2 * (dx1 + dx2))
    (a * x0 + b * x1 + c * x2) :: interior (t1 :: t2 :: ts) (x1 :: x2 :: xs)
  | _, _ => []

/-- Last one-sided difference `(x[-1] - x[-2]) / (t[-1] - t[-2])`. -/
def lastDiff : List α → List α → Option α
  | [t0, t1], [x0, x1] => some ((x1 - x0) / (t1 - t0))
  | _ :: t1 :: ts, _ :: x1 :: xs => lastDiff (t1 :: ts) (x1 :: xs)
  | _, _ => none

/-- `np.gradient(x, t)` for a 1-D signal and a time array of the same length (≥ 2 samples; else `none`). -/
def gradient (t x : List α) : Option (List α) :=
  if t.length ≠ x.length then none else
  match t, x with
  | t0 :: t1 :: _, x0 :: x1 :: _ =>
    (lastDiff t x).map fun l => ((x1 - x0) / (t1 - t0)) :: (interior t x ++ [l])
  | _, _ => none

/-- Time array of a scalar step `h`: `0, h, 2h, …` (only differences matter). -/
def stepTimes (h : α) [OfNat α 0] : Nat → α → List α
  | 0, _ => []
  | n + 1, cur => cur :: stepTimes h n (cur + h)

/-- `velocity(x, t)` for 1-D `x`; `t` a scalar step or an array. -/
def velocity [OfNat α 0] (x : List α) (t : α ⊕ List α) : Option (List α) :=
  match t with
  | .inl h => gradient (stepTimes h x.length 0) x
  | .inr ts => gradient ts x

/-- `acceleration(x, t)` = `velocity` applied twice. -/
def acceleration [OfNat α 0] (x : List α) (t : α ⊕ List α) : Option (List α) :=
  (velocity x t).bind fun v => velocity v t

end Qats.Motion
