/-
Model of name selection in `qats.tsdb.TsDB`: `list(names, relative)`, `common`, `_path_dirname/_path_basename/
_path_relpath`, `get(name)` key resolution, `__contains__`, the `retkeys` of `getm`.  Strings are `List Char`.

Assumed library behaviour (DESIGN.md section 3), all for POSIX:
* `str.replace(old, new)`: non-overlapping occurrences, left to right (`replaceAll`).
* `fnmatch.fnmatchcase(name, pat)`: `*` any string (including `/`), `?` any single character, `[seq]` / `[!seq]` character
  class whose first `]` is a member, closing at the next `]`; a `[` without closing `]` is literal. Character *ranges*
  (`a-z`) are not modelled: every pattern reaches `fnmatch` through `_remove_special_characters`, after which all classes
  are the one-character classes `[[]`, `[]]`, `[^]`, `[(]`, `[)]`.
* `os.path.join/dirname/basename/commonpath/relpath` on normalised paths (no `.`/`..` components, no `//`);
  `relpath` needs the current directory for relative paths (`cwd`, a parameter).
Core Lean only.
-/
namespace Qats.Names

abbrev Str := List Char

/-! ### str.replace -/

/-- `replaceGo pat rep skip s`: Python's `s.replace(pat, rep)` for non-empty `pat`; `skip` characters of an occurrence just
matched are still to be dropped. -/
def replaceGo (pat rep : Str) : Nat → Str → Str
  | _, [] => []
  | k + 1, _ :: cs => replaceGo pat rep k cs
  | 0, c :: cs =>
    if pat.isPrefixOf (c :: cs) then rep ++ replaceGo pat rep (pat.length - 1) cs
    else c :: replaceGo pat rep 0 cs

def replaceAll (pat rep s : Str) : Str := if pat.isEmpty then s else replaceGo pat rep 0 s

/-- `_remove_special_characters` applied to one string. -/
def escapeSpecial (s : Str) : Str :=
  let s := replaceAll "[".toList ":[:".toList s
  let s := replaceAll "]".toList "[]]".toList s
  let s := replaceAll ":[:".toList "[[]".toList s
  let s := replaceAll "^".toList "[^]".toList s
  let s := replaceAll "(".toList "[(]".toList s
  replaceAll ")".toList "[)]".toList s

/-! ### fnmatch -/

inductive Tok
  | star
  | any
  | lit (c : Char)
  | cls (neg : Bool) (members : Str)
deriving Repr, DecidableEq

/-- Split at the first `]`: (before, after). -/
def spanClose : Str → Option (Str × Str)
  | [] => none
  | c :: cs => if c == ']' then some ([], cs) else (spanClose cs).map fun (m, r) => (c :: m, r)

/-- Parse a character class; the argument is the text after the `[`. Result: (negated, members, rest). -/
def parseClass (after : Str) : Option (Bool × Str × Str) :=
  let (neg, r1) := match after with
    | '!' :: r => (true, r)
    | r => (false, r)
  match r1 with
  | ']' :: r2 => (spanClose r2).map fun (m, rest) => (neg, ']' :: m, rest)
  | _ => (spanClose r1).map fun (m, rest) => (neg, m, rest)

/-- `fnmatch.translate` as a token list; `skip` = characters of a class already consumed. -/
def tokGo : Nat → Str → List Tok
  | _, [] => []
  | k + 1, _ :: cs => tokGo k cs
  | 0, c :: cs =>
    if c == '*' then .star :: tokGo 0 cs
    else if c == '?' then .any :: tokGo 0 cs
    else if c == '[' then
      match parseClass cs with
      | some (neg, m, rest) => .cls neg m :: tokGo (cs.length - rest.length) cs
      | none => .lit '[' :: tokGo 0 cs
    else .lit c :: tokGo 0 cs

def tokenize (pat : Str) : List Tok := tokGo 0 pat

def suffixes : Str → List Str
  | [] => [[]]
  | c :: cs => (c :: cs) :: suffixes cs

def matchToks : List Tok → Str → Bool
  | [], k => k.isEmpty
  | .star :: ts, k => (suffixes k).any (matchToks ts)
  | .any :: ts, _ :: k => matchToks ts k
  | .lit c :: ts, d :: k => c == d && matchToks ts k
  | .cls neg m :: ts, d :: k => (m.contains d != neg) && matchToks ts k
  | _, _ => false

/-- `fnmatch.fnmatchcase(name, pat)`. -/
def fnmatch (pat name : Str) : Bool := matchToks (tokenize pat) name

/-- Shell-style matching where only `*` and `?` are special (the meaning `list()` intends). -/
def globToks (p : Str) : List Tok := p.map fun c => if c == '*' then .star else if c == '?' then .any else .lit c
def glob (p name : Str) : Bool := matchToks (globToks p) name

/-! ### os.path (POSIX) -/

def sep : Char := '/'

/-- `s.split('/')`. -/
def splitSep : Str → List Str
  | [] => [[]]
  | c :: cs =>
    match splitSep cs with
    | h :: t => if c == sep then [] :: h :: t else (c :: h) :: t
    | [] => [[c]]

def joinSep : List Str → Str
  | [] => []
  | [a] => a
  | a :: rest => a ++ sep :: joinSep rest

def isAbs (p : Str) : Bool := p.head? == some sep

/-- `os.path.join(a, b)`. -/
def pathJoin (a b : Str) : Str :=
  if isAbs b then b
  else if a.isEmpty || a.getLast? == some sep then a ++ b
  else a ++ sep :: b

def dropTrailingSeps (p : Str) : Str := (p.reverse.dropWhile (· == sep)).reverse

/-- `os.path.dirname(p)`. -/
def dirname (p : Str) : Str :=
  let comps := splitSep p
  if comps.length ≤ 1 then []
  else
    let head := joinSep comps.dropLast ++ [sep]        -- p[:i+1] where i = p.rfind('/')
    if head.all (· == sep) then head else dropTrailingSeps head

/-- `os.path.basename(p)`. -/
def basename (p : Str) : Str := (splitSep p).getLast?.getD []

def comps (p : Str) : List Str := (splitSep p).filter fun c => !c.isEmpty && c != ['.']

def commonPrefix : List Str → List Str → List Str
  | a :: as, b :: bs => if a == b then a :: commonPrefix as bs else []
  | _, _ => []

/-- `os.path.commonpath(paths)`; `none` = ValueError (empty sequence, or mixing absolute and relative paths). -/
def commonpath : List Str → Option Str
  | [] => none
  | p :: ps =>
    if (ps.all fun q => isAbs q == isAbs p) then
      let c := ps.foldl (fun acc q => commonPrefix acc (comps q)) (comps p)
      some ((if isAbs p then [sep] else []) ++ joinSep c)
    else none

/-- `os.path.abspath` for normalised paths. -/
def abspath (cwd p : Str) : Str := if isAbs p then p else if p.isEmpty then cwd else pathJoin cwd p

/-- `os.path.relpath(path, start)` (`path` non-empty). -/
def relpath (cwd path start : Str) : Str :=
  let sl := comps (abspath cwd start)
  let pl := comps (abspath cwd path)
  let i := (commonPrefix sl pl).length
  let rel := List.replicate (sl.length - i) ['.', '.'] ++ pl.drop i
  if rel.isEmpty then ['.'] else joinSep rel

/-- Position of the first `[` (bracket-aware path helpers split the key there). -/
def splitBracket (key : Str) : Str × Str := (key.takeWhile (· != '['), key.dropWhile (· != '['))

/-- `TsDB._path_dirname` (bracket part is not part of the directory). -/
def pathDirname (key : Str) : Str := dirname (splitBracket key).1

/-- `TsDB._path_basename`. -/
def pathBasename (key : Str) : Str := basename (splitBracket key).1 ++ (splitBracket key).2

/-- `TsDB._path_relpath`. -/
def pathRelpath (cwd key start : Str) : Str := relpath cwd (splitBracket key).1 start ++ (splitBracket key).2

/-! ### TsDB.common / list / get -/

/-- `TsDB.common` for the registered keys (registration order). -/
def common (keys : List Str) : Str :=
  match keys with
  | [] => []
  | [k] => pathDirname k
  | _ => (commonpath (keys.map pathDirname)).getD []     -- directory parts only (since the F33 repair)

/-- The patterns actually matched: wildcard prefix `*/` unless the name already starts with the common path. -/
def prefixed (cm : Str) (name : Str) : Str :=
  if cm.isEmpty then name else if cm.isPrefixOf name then name else '*' :: sep :: name

/-- `TsDB.list(names=[…], relative=False)`: for each pattern in order, the registered keys in registration order that
match it (a key matching several patterns is listed once per pattern, as in the code). -/
def listKeys (keys : List Str) (names : List Str) : List Str :=
  let cm := common keys
  names.flatMap fun n => keys.filter fun k => fnmatch (escapeSpecial (prefixed cm n)) k

/-- `TsDB.list(names=None)`. -/
def listAll (keys : List Str) : List Str := keys

/-- `TsDB.list(…, relative=True)`. -/
def listRelative (cwd : Str) (keys : List Str) (names : Option (List Str)) : List Str :=
  let cm := common keys
  (match names with | none => keys | some ns => listKeys keys ns).map fun k =>
    if cm.isEmpty then k else pathRelpath cwd k cm            -- no common path: keys as they are (F34 repair)

inductive GetErr | lookup | value
deriving Repr, DecidableEq

/-- Key resolution of `TsDB.get(name=…)`: no match → LookupError, several → ValueError. -/
def getKey (keys : List Str) (name : Str) : Except GetErr Str :=
  match listKeys keys [name] with
  | [] => .error .lookup
  | [k] => .ok k
  | _ => .error .value

/-- `name in db`. -/
def contains (keys : List Str) (name : Str) : Bool := !(listKeys keys [name]).isEmpty

/-- Dictionary keys returned by `getm(…, fullkey=False)`: a leading `common + '/'` is removed (F35 repair; before, every
occurrence was replaced). -/
def retKey (keys : List Str) (k : Str) : Str :=
  let c := common keys ++ [sep]
  if c.isPrefixOf k then k.drop c.length else k

end Qats.Names
