/-
Model of the date-time bookkeeping of `qats.ts.TimeSeries` (`__init__` time handling, `set_dtg_ref`, `__copy__`,
`dtg_time`, `dtg_start`, `dtg_end`) and of the reference rule of `TsDB._check_time_arrays`.  Core Lean only.

Instants (`datetime`) and durations (seconds) are values of ONE scalar type `α` (seconds on a common axis); only `+`, `-`
and unary `-` are used.  The state of a series is the triple the code keeps:

    ref   = `_dtg_ref`   (`none` = no reference)
    t     = `_t`         (relative seconds)
    cache = `_dtg_time`  (`none` = not computed; lazily filled by `dtg_time`, reset on re-referencing)

Assumptions (external behaviour, not verified):
* `datetime - datetime`, `.total_seconds()`, `datetime + timedelta(seconds=s)` are exact group operations: the rounding of
  `timedelta(seconds=float)` to whole microseconds and the rounding of float additions are ignored.  The correspondence
  harness uses times and instants that are multiples of 1/64 s (15625 µs, dyadic), for which every operation IS exact.
* `numpy.datetime64` stamps / reference are converted to `datetime` first (`astype(datetime)`, `tolist()`); after that
  conversion both kinds of stamps follow the same path, so the model has one `ofStamps`.  (For nanosecond resolution numpy
  returns integers instead of `datetime` objects: outside the model, probed separately by the harness.)
* an empty series cannot be constructed (`x[0]` raises `IndexError`): constructors return `none`.
-/
import Qats.Prelude
namespace Qats.Dtg
variable {α : Type} [Add α] [Sub α] [Neg α]

/-- State of a series as far as time is concerned. -/
structure St (α : Type) where
  ref : Option α
  t : List α
  cache : Option (List α)
  deriving DecidableEq, Repr

/-- Argument of `set_dtg_ref`: something that is not a `datetime` (`bad`), `None`, or an instant. -/
inductive Arg (α : Type) where
  | bad
  | none
  | inst (x : α)
  deriving DecidableEq, Repr

/-- Why a call is rejected: `ValueError` (not a datetime), `ValueError` (no reference to adjust), empty series. -/
inductive Err where
  | badType
  | noRef
  | empty
  deriving DecidableEq, Repr

/-- `TimeSeries(name, t, x, dtg_ref=ref)` with numeric times: times kept, reference as given, nothing cached. -/
def ofFloats (t : List α) (ref : Option α) : Option (St α) :=
  match t with
  | [] => Option.none
  | _ :: _ => some ⟨ref, t, Option.none⟩

/-- `TimeSeries(name, stamps, x, dtg_ref=ref)` with date-time stamps: reference = `ref` if given else the first stamp,
relative time = stamp − reference, the stamps themselves are kept as the cache. -/
def ofStamps (stamps : List α) (ref : Option α) : Option (St α) :=
  match stamps with
  | [] => Option.none
  | s0 :: _ =>
    let r := ref.getD s0
    some ⟨some r, stamps.map fun s => s - r, some stamps⟩

/-- The absolute instant of every sample, `ref + tᵢ` (the quantity the property is about); `none` without reference. -/
def absT (s : St α) : Option (List α) := s.ref.map fun r => s.t.map fun ti => r + ti

/-- `set_dtg_ref(a)`: new state and the error raised, if any. -/
def setRef (a : Arg α) (s : St α) : St α × Option Err :=
  match a, s.ref with
  | .bad, _ => (s, some .badType)
  | .none, Option.none => (s, some .noRef)
  | .inst x, Option.none => ({ s with ref := some x }, Option.none)
  | .inst x, some r =>
    let delta := r - x
    (⟨some x, s.t.map fun ti => ti + delta, Option.none⟩, Option.none)
  | .none, some r =>
    match s.t with
    | [] => (s, some .empty)
    | t0 :: _ =>
      let delta := -t0
      (⟨some (r + t0), s.t.map fun ti => ti + delta, Option.none⟩, Option.none)

/-- `copy()` / `__copy__`: built again from the relative times and the reference, so nothing is cached. -/
def copy (s : St α) : St α := ⟨s.ref, s.t, Option.none⟩

/-- `dtg_time`: returns the cache, filling it with `ref + tᵢ` first when it is empty; `None` without reference. -/
def dtgTime (s : St α) : St α × Option (List α) :=
  match s.ref with
  | Option.none => (s, Option.none)
  | some r =>
    match s.cache with
    | some c => (s, some c)
    | Option.none =>
      let c := s.t.map fun ti => r + ti
      ({ s with cache := some c }, some c)

/-- `dtg_start` = `ref + t[0]`. -/
def dtgStart (s : St α) : Option α :=
  match s.ref, s.t.head? with
  | some r, some t0 => some (r + t0)
  | _, _ => Option.none

/-- `dtg_end` = `ref + t[-1]`. -/
def dtgEnd (s : St α) : Option α :=
  match s.ref, s.t.getLast? with
  | some r, some tn => some (r + tn)
  | _, _ => Option.none

/-- One operation of a history. `copy` continues with the copy; `read` is an evaluation of `dtg_time`. -/
inductive Op (α : Type) where
  | set (a : Arg α)
  | copy
  | read
  deriving DecidableEq, Repr

def step (s : St α) : Op α → St α
  | .set a => (setRef a s).1
  | .copy => copy s
  | .read => (dtgTime s).1

/-- State after a history of operations. -/
def run (s : St α) (ops : List (Op α)) : St α := ops.foldl step s

/-- All intermediate states of a history with the error of each step (for the correspondence). -/
def trace (s : St α) : List (Op α) → List (St α × Option Err)
  | [] => []
  | op :: ops =>
    let e := match op with
      | .set a => (setRef a s).2
      | _ => Option.none
    let s' := step s op
    (s', e) :: trace s' ops

/-- First instant ever passed to `set_dtg_ref` in a history. -/
def firstInst : List (Op α) → Option α
  | [] => Option.none
  | .set (.inst x) :: _ => some x
  | _ :: ops => firstInst ops

/-! ### in-place processing (`TimeSeries.modify`) -/

/-- Samples selected by a mask (the samples a time window retains; positions beyond the mask are dropped). -/
def keepMask : List Bool → List α → List α
  | true :: m, a :: l => a :: keepMask m l
  | false :: m, _ :: l => keepMask m l
  | _, _ => []

/-- `modify(twin=…)`: the time array is replaced by the retained samples, the reference stays, and the cached array of
absolute date-times — which belongs to the former time array — is dropped (F54: it used to be kept). -/
def modifyKeep (mask : List Bool) (s : St α) : St α := ⟨s.ref, keepMask mask s.t, Option.none⟩

/-- Histories that also process the series in place. -/
inductive OpX (α : Type) where
  | base (op : Op α)
  | keep (mask : List Bool)
  deriving DecidableEq, Repr

def stepX (s : St α) : OpX α → St α
  | .base op => step s op
  | .keep m => modifyKeep m s

def runX (s : St α) (ops : List (OpX α)) : St α := ops.foldl stepX s

/-! ### `TsDB._check_time_arrays`: the rule on references -/
section refs
variable [DecidableEq α]

/-- `_same_dtg_ref`: every reference equals the first one. -/
def sameRef (refs : List (Option α)) : Bool :=
  match refs with
  | [] => true
  | r0 :: _ => refs.all fun r => decide (r = r0)

/-- `dtg_defined`: some series has a reference. -/
def refDefined (refs : List (Option α)) : Bool := refs.any fun r => r.isSome

/-- The deviation `"dtg_ref"` (never handled by `twin`/`resample`, so `is_common` is false). -/
def refBlocked (refs : List (Option α)) : Bool := refDefined refs && !sameRef refs

/-- `timecheck["dtg_ref"]`. -/
def commonRef (refs : List (Option α)) : Option α :=
  if refDefined refs && sameRef refs then refs.head?.join else Option.none

end refs

end Qats.Dtg
