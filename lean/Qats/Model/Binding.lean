/-
Content binding for the `TsDB` registry model (`Qats.Registry`): WHICH DATA a series object holds.

`Qats.Registry.step` knows series objects only as identities.  This file runs alongside it and records, for every fresh
identity a step allocates, the *origin* of its content, exactly as the code obtains it:

* `TsDB._read` constructs the series of a not-yet-read key `k` of database `d` from the file `register_parent[k]`; the
  extension of that file selects the reader: for index-addressed formats (.ts .tda .bin .asc .dat .csv .pkl) it reads
  record number `register_indices[k]` (`Origin.record`); for name-addressed formats (.h5 .hdf5 .mat .tdms)
  `register_indices[k]` holds the NAME ON FILE registered by `load`, and the reader looks the data set up by that name
  (`Origin.named`) — since the repair of finding F17 no longer by the name derived from the current key;
* `TsDB.add(ts)` registers the in-memory object it is given (`Origin.added`);
* `update` / `copy` with `shallow=False` register `ts.copy()`, a deep copy whose content equals the content of the copied
  object at that time (`Origin.copyOf`; `root` resolves chains of copies).

It also keeps, per database, the dictionary `key ↦ registered record` (`Rec`): written by `load` (file, record number
`j+1`, name on file; the file's extension gives the addressing mode) and `add`, moved by `rename` (Python
`d[new] = d.pop(old)`), erased by `clear`, carried over by `update` / `copy`.  This dictionary is the specification ("the
record the key was registered for"); the theorems of `Lemmas/BindingMain.lean` say that what is read or cached under a key
has that record as root origin.

The register `indices` of `Registry.Db` holds record numbers only (`Option Nat`).  The string that `register_indices` holds
for a name-addressed file is the `name` field of the key's entry in the record dictionary: `load` writes both from the same
`name`, and `rename` (`pop` / insert), `clear` (`pop`) and `update` / `copy` (assignment from the source database) treat
`register_indices` exactly as the dictionary is treated here; `readOrigin` therefore takes the looked-up name from it.

Assumptions: `os.path.splitext` (`fileExt`); a reader called with record numbers / names returns the rows in the order
requested (that part is C01's subject).
Core Lean only.
-/
import Qats.Model.Registry
namespace Qats.Binding
open Qats.Names Qats.Registry

/-- Where the content of a series object comes from. -/
inductive Origin
  | record (file : Str) (index : Nat)     -- index-addressed file: record number `index` (0 is the time record)
  | named (file : Str) (name : Str)       -- name-addressed file: the data set looked up by `name`
  | added (id : Nat)                      -- in-memory series given to `add()` (identified by its object identity)
  | copyOf (obj : Nat)                    -- deep copy of object `obj` (content equal at copy time)
deriving Repr, DecidableEq

/-- The record a key is registered for. -/
inductive Rec
  | onFile (file : Str) (index : Nat) (name : Str)   -- the `j`-th series of the file: `index = j+1`, its name on file
  | mem (id : Nat)                                   -- in-memory series (object identity at `add`)
deriving Repr, DecidableEq

/-- `os.path.splitext(p)[-1]`: from the last dot of the last path component, unless only dots precede it. -/
def fileExt (p : Str) : Str :=
  let b := basename p
  let revExt := b.reverse.takeWhile (· != '.')
  if revExt.length = b.length then []
  else if (b.reverse.drop (revExt.length + 1)).all (· == '.') then []
  else '.' :: revExt.reverse

/-- The formats whose reader is handed series NAMES (`read_mat_data`, `read_sima_h5_data`, `read_tdms_data`); every other
reader is handed record numbers. -/
def nameAddressed (file : Str) : Bool :=
  [".mat".toList, ".h5".toList, ".hdf5".toList, ".tdms".toList].contains (fileExt file)

/-- The origin a series bound to this record must have. -/
def Rec.origin : Rec → Origin
  | .onFile f i n => if nameAddressed f then .named f n else .record f i
  | .mem id => .added id

abbrev Origins := List (Nat × Origin)

structure Bind where
  origins : Origins := []                  -- object identity ↦ origin (one entry per constructed object)
  recA : List (Str × Rec) := []            -- database A: key ↦ registered record
  recB : List (Str × Rec) := []            -- database B
deriving Repr, DecidableEq

def getRec (b : Bind) : Which → List (Str × Rec)
  | .A => b.recA
  | .B => b.recB

def setRec (b : Bind) (w : Which) (r : List (Str × Rec)) : Bind :=
  match w with
  | .A => { b with recA := r }
  | .B => { b with recB := r }

def olookup (os : Origins) (o : Nat) : Option Origin := (os.find? fun p => p.1 == o).map (·.2)

/-- Follow `copyOf` links for at most `fuel` steps. -/
def rootFuel (os : Origins) : Nat → Nat → Option Origin
  | 0, _ => none
  | fuel + 1, obj =>
    match olookup os obj with
    | none => none
    | some (.copyOf p) => rootFuel os fuel p
    | some o => some o

/-- The root origin of an object: total (a chain of copies cannot be longer than the table). -/
def root (os : Origins) (obj : Nat) : Option Origin := rootFuel os (os.length + 1) obj

/-- What a reader constructs from parent file, registered record number and registered record. -/
def originOf (parent : Str) (index : Option Nat) (rc : Option Rec) : Origin :=
  if nameAddressed parent then
    .named parent (match rc with
      | some (.onFile _ _ n) => n
      | _ => [])
  else .record parent (index.getD 0)

/-- `readOriginRc d rc k`: what `_read` constructs for key `k` whose `register_indices` entry is that of record `rc`. -/
def readOriginRc (d : Db) (rc : Option Rec) (k : Str) : Origin :=
  originOf (((lookup d.parents k).getD none).getD []) ((lookup d.indices k).getD none) rc

/-- What `_read` constructs for a key that is not cached (`r` = the record dictionary of the database). -/
def readOrigin (d : Db) (r : List (Str × Rec)) (k : Str) : Origin := readOriginRc d (lookup r k) k

/-- Mirror of `Registry.readKeys`: one new table entry per series constructed. -/
def readBind (store : Bool) (r : List (Str × Rec)) : Db → Nat → List Str → Origins → Origins
  | _, _, [], os => os
  | d, n, k :: ks, os =>
    match lookup d.register k with
    | some (some _) => readBind store r d n ks os
    | _ =>
      readBind store r (if store then { d with register := setKey d.register k (some n) } else d) (n + 1) ks
        (os ++ [(n, readOrigin d r k)])

/-- Mirror of the deep-copy loops of `update` / `copy`: one fresh object per container entry, a copy of that entry. -/
def cpBind : List (Str × Nat) → Nat → Origins → Origins
  | [], _, os => os
  | kv :: rest, n, os => cpBind rest (n + 1) (os ++ [(n, .copyOf kv.2)])

/-- Records carried over from `src` for the entries of a container. -/
def carry (src : List (Str × Rec)) (cont : List (Str × Nat)) (dst : List (Str × Rec)) : List (Str × Rec) :=
  cont.foldl (fun r kv =>
    match lookup src kv.1 with
    | some rc => setKey r kv.1 rc
    | none => r) dst

/-- The binding after `op`, given the binding and the registry state before it. -/
def step (b : Bind) (s : State) : Op → Bind
  | .load w file names indexed read =>
    let d := getDb s w
    let newKeys := names.map fun n => pathJoin file n
    if newKeys.any fun k => hasKey d.register k then b
    else
      let recs := (List.zip (List.range names.length) names).foldl (fun r (jn : Nat × Str) =>
        setKey r (pathJoin file jn.2) (Rec.onFile file (jn.1 + 1) jn.2)) (getRec b w)
      if read then
        -- the database after registration, before reading
        let d1 := getDb (Registry.step s (.load w file names indexed false)).1 w
        { setRec b w recs with origins := readBind true recs d1 s.next newKeys b.origins }
      else setRec b w recs
  | .add w name =>
    let d := getDb s w
    let key := pathJoin (common d.keys) name
    if hasKey d.register key then b
    else { setRec b w (setKey (getRec b w) key (Rec.mem s.next)) with origins := b.origins ++ [(s.next, .added s.next)] }
  | .rename w name newname =>
    let d := getDb s w
    match listKeys d.keys [name] with
    | [old] =>
      let newkey := pathJoin (pathDirname old) newname
      if d.keys.contains newkey then b
      else
        match lookup (getRec b w) old with
        | some rc => setRec b w (setKey (erase (getRec b w) old) newkey rc)
        | none => b
    | _ => b
  | .clear w pattern =>
    let d := getDb s w
    let m := match pattern with
      | none => d.keys
      | some p => listKeys d.keys [p]
    setRec b w (m.foldl (fun r k => erase r k) (getRec b w))
  | .update names deep =>
    let r := readKeys s.b s.next (select s.b names) true
    let os1 := readBind true b.recB s.b s.next (select s.b names) b.origins
    if r.2.2.any fun kv => hasKey s.a.register kv.1 then { b with origins := os1 }
    else
      { origins := if deep then cpBind r.2.2 r.2.1 os1 else os1,
        recA := carry b.recB r.2.2 b.recA,
        recB := b.recB }
  | .copy names deep =>
    let r := readKeys s.a s.next (select s.a names) true
    let os1 := readBind true b.recA s.a s.next (select s.a names) b.origins
    { origins := if deep then cpBind r.2.2 r.2.1 os1 else os1,
      recA := b.recA,
      recB := carry b.recA r.2.2 [] }
  | .getm w names store =>
    { b with origins := readBind store (getRec b w) (getDb s w) s.next (select (getDb s w) names) b.origins }
  | .getInd w ind store =>
    match (getDb s w).keys[ind]? with
    | none => b
    | some k => { b with origins := readBind store (getRec b w) (getDb s w) s.next [k] b.origins }

/-- Registry and binding side by side over a history. -/
def run (b : Bind) (s : State) : List Op → Bind × State × List Out
  | [] => (b, s, [])
  | op :: ops =>
    let r := run (step b s op) (Registry.step s op).1 ops
    (r.1, r.2.1, (Registry.step s op).2 :: r.2.2)

/-- A `load` as `TsDB.load` issues it: a file that is not name-addressed registers its record numbers. -/
def loadOK : Op → Bool
  | .load _ file _ indexed _ => nameAddressed file || indexed
  | _ => true

/-- Does the binding hold for key `k` of database `d`? (decidable form of the invariant, for examples) -/
def keyBound (os : Origins) (d : Db) (r : List (Str × Rec)) (k : Str) : Bool :=
  match lookup r k with
  | none => false
  | some rc =>
    match lookup d.register k with
    | some (some o) => root os o == some rc.origin
    | _ => readOrigin d r k == rc.origin

def allBound (b : Bind) (s : State) : Bool :=
  s.a.keys.all (keyBound b.origins s.a b.recA) && s.b.keys.all (keyBound b.origins s.b b.recB)

end Qats.Binding
