/-
Model of `qats.signal.find_reversals` (numpy index arithmetic written as one pass over the samples).

  ds  = 1*(diff(x) < 0)            ds[i] = (x[i+1] < x[i]),  i = 0 … n-2
  ds  = append(ds, ds[-1:])        ds[n-1] = ds[n-2]          (repeat the last slope indicator)
  d2s = insert(diff(ds), 0, 0)     d2s[0] = 0,  d2s[i] = ds[i] - ds[i-1]
  rev_indices = nonzero(|d2s| == 1)

Sample `i ≥ 1` is reported iff `ds[i] ≠ ds[i-1]`.  Core Lean only.
-/
namespace Qats.FindReversals
variable {α : Type} [LT α] [DecidableLT α]

/-- At sample `i` (head of the list) with `prev = ds[i-1]`. -/
def frLoop (i : Nat) (prev : Bool) : List α → List (Nat × α)
  | a :: b :: rest =>
    let d := decide (b < a)
    (if d != prev then [(i, a)] else []) ++ frLoop (i + 1) d (b :: rest)
  | _ => []

/-- `find_reversals(x)` as (index, value) pairs. -/
def findReversals : List α → List (Nat × α)
  | a :: b :: rest => frLoop 1 (decide (b < a)) (b :: rest)
  | _ => []

end Qats.FindReversals
