/-
Model of the extreme-value part of `TimeSeries.stats(statsdur, quantiles, is_minima)`: global maxima of the (possibly
negated) processed signal → Weibull PWM fit → number of peaks in the statistics duration
`n = round(statsdur / duration · #maxima)` → Gumbel parameters (`weibull2gumbel`) → Gumbel quantiles, sign factor for
minima.  Composition of `Qats.Peaks` (C14), `Qats.Dist` (C16) and the generated formulas; the processing pipeline that
produces `(t, x)` is C11's.  `rnd` is Python's `round` (a parameter, as in `Qats.Pipeline`).  Core Lean only.
-/
import Qats.Model.Peaks
import Qats.Model.Dist
namespace Qats.Stats
open Qats Qats.Gen
variable {α : Type} [Add α] [Sub α] [Mul α] [Div α] [Neg α] [LT α] [LE α] [DecidableLT α] [DecidableLE α]
  [BEq α] [OfScientific α] [TranscOps α] [NatCast α] [IntCast α] [OfNat α 0]

structure Summary (α : Type) where
  wloc : α
  wscale : α
  wshape : α
  gloc : α
  gscale : α
  pvalues : List α
  sample : List α          -- the fitted sample with its sign restored (`f * mx`)

/-- The extreme-value chain for a processed signal `x` of duration `duration` (`none`: fewer than two maxima → nan's). -/
def summary (rnd : α → Int) (statsdur duration : α) (quantiles : List α) (isMinima : Bool) (x : List α) :
    Option (Summary α) :=
  let f : α := if isMinima then -(1.0 : α) else (1.0 : α)
  let mx := (Peaks.findMaxima (x.map fun v => f * v) false none).map (·.2)
  if mx.length ≤ 1 then none
  else
    let w := Dist.weibullPwm mx
    let n : α := ((rnd (statsdur / duration * (Nat.cast mx.length : α)) : Int) : α)
    let gl := w2g_loc w.1 n w.2.1 w.2.2
    let gs := w2g_scale n w.2.1 w.2.2
    some { wloc := w.1, wscale := w.2.1, wshape := w.2.2, gloc := gl, gscale := gs,
           pvalues := quantiles.map fun p => f * gu_invcdf gl p gs, sample := mx.map fun v => f * v }

end Qats.Stats
