/-
Model of reading time series from file-backed databases: `TsDB.load` (registration of `(key, parent, index)`),
`TsDB._read` (pre-populate from cache, group the uncached keys by parent file, `indices = [0] + register_indices`,
reader call, bind `names[i] ↦ (rows[0], rows[i+1])`, optional store) and the retrieval methods on top of it
(`get/geta` = one series, `getm/getd/getl/getda` = container).

A file on disk is `names`, a common `time` array, one data column per name and — for the formats that keep a time
description with every data set (`.h5` start/delta attributes, `.tdms` group time channel / waveform properties) — the
`own` time arrays.  The scalar type `α` is abstract: nothing here computes with values, the model only MOVES them
(which is the whole point of the property).  Decoding of bytes / text into numbers is not modelled.

Reader styles (after the fixes of findings F1 and F2), one per format:
* `direct`  `.ts .tda`            record-level model `Qats.Direct.read` on the word image of the file
* `fancy`   `.bin .pkl .asc .dat` `arr[ind, :]` on the array of all records                      (`sima.py:136`,
                                   `tsdb.py` pickle branch); ASSUMED for `np.loadtxt(usecols=ind, unpack=True)`:
                                   row `p` of the result is column `ind[p]`, repeated indices are allowed
* `csv`     `.csv`                ASSUMED for `pd.read_csv(usecols=ind)`: the frame holds the columns `sorted(set(ind))`
                                   in file order; then the code re-arranges: `data[[cols.index(i) for i in ind], :]`
* `byName`  `.h5 .mat .tdms`      the reader is given the series names and looks every one up on the file
                                   (`f[name]`, `group[channel]`, `data[name]`); `.mat` has one common time array

Series names are recovered from the key as the code does: `key.replace(parent, "").lstrip(os.path.sep)`.
Name selection (`list`, wildcards) is `Qats.Names.listKeys` (property C09).  The four parallel registers of `TsDB` are
kept as one list of entries in `register_keys` order (their coherence is property C08).
Errors: a failing read is reported as `none`/`error` and leaves the model database unchanged (in the code a read that
fails half-way may already have stored the series of earlier files; unreachable for well-formed files, see
`read_correct`).  Indices are natural numbers (Python's negative indices are not modelled).  Core Lean only.
-/
import Qats.Prelude
import Qats.Model.Names
import Qats.Model.Direct
namespace Qats.ReadBind
open Qats.Names

inductive Format | ts | tda | bin | asc | dat | csv | h5 | pkl | mat | tdms
deriving Repr, DecidableEq

inductive Style | direct | fancy | csv | byName
deriving Repr, DecidableEq

def styleOf : Format → Style
  | .ts | .tda => .direct
  | .bin | .asc | .dat | .pkl => .fancy
  | .csv => .csv
  | .h5 | .mat | .tdms => .byName

/-- `TsDB.load`: `ind = j + 1 if fext not in ('.h5', '.hdf5', '.mat') else None`. -/
def indexed : Format → Bool
  | .h5 | .mat => false
  | _ => true

structure File (α : Type) where
  path : Str
  format : Format
  names : List Str
  time : List α
  cols : List (List α)
  own : List (List α) := []
deriving Repr, DecidableEq

structure Series (α : Type) where
  name : Str
  t : List α
  x : List α
deriving Repr, DecidableEq

variable {α : Type}

/-- The time array stored with series `j`. -/
def File.timeOf (f : File α) (j : Nat) : List α :=
  match f.own[j]? with
  | some t => t
  | none => f.time

/-- SPECIFICATION: the series stored on file `f` under its `j`-th name. -/
def stored (f : File α) (j : Nat) : Series α := ⟨f.names.getD j [], f.timeOf j, f.cols.getD j []⟩

/-! ### readers -/

/-- All records of a file: record 0 is time, record `j+1` the `j`-th series. -/
def records (f : File α) : List (List α) := f.time :: f.cols

/-- Word image of a direct-access file: header record, time record, one record per series. -/
def words [OfNat α 0] (f : File α) : List α := List.replicate f.time.length 0 ++ (f.time ++ f.cols.flatten)

/-- `sorted(set(ind))`. -/
def sortedSet (ind : List Nat) : List Nat := isort (fun a b => decide (a ≤ b)) ind.eraseDups

/-- Index-addressed readers: the 2-D array returned for `ind`; `none` = the reader raises. -/
def readRows [OfNat α 0] (f : File α) (ind : List Nat) : Option (List (List α)) :=
  match styleOf f.format with
  | .direct => Direct.read (words f) f.time.length ind
  | .fancy =>
    if ind.all (· < (records f).length) then some (ind.map fun i => (records f).getD i []) else none
  | .csv =>
    if ind.all (· < (records f).length) then
      let cols := sortedSet ind
      let frame := cols.map fun i => (records f).getD i []
      some (ind.map fun i => frame.getD (cols.idxOf i) [])
    else none
  | .byName => none

/-- Name-addressed readers: time and data of the data set called `n`; `none` = no such data set. -/
def readNamed (f : File α) (n : Str) : Option (List α × List α) :=
  let j := f.names.idxOf n
  if j < f.names.length then some (f.timeOf j, f.cols.getD j []) else none

/-! ### the database -/

structure Entry (α : Type) where
  key : Str
  parent : Str
  idx : Option Nat
  cache : Option (Series α)
deriving Repr, DecidableEq

structure Db (α : Type) where
  reg : List (Entry α) := []
deriving Repr, DecidableEq

def findEntry (db : Db α) (k : Str) : Option (Entry α) := db.reg.find? fun e => e.key == k

def keysOf (db : Db α) : List Str := db.reg.map (·.key)

/-- `self.register[key] = ts`. -/
def setCache (db : Db α) (k : Str) (s : Series α) : Db α :=
  { reg := db.reg.map fun e => if e.key == k then { e with cache := some s } else e }

/-- The ordered container of `_read` (keys are unique). -/
abbrev Container (α : Type) := List (Str × Option (Series α))

/-- `container[key] = ts` for a key that is present. -/
def setVal (c : Container α) (k : Str) (s : Series α) : Container α :=
  c.map fun p => if p.1 == k then (p.1, some s) else p

/-- `key.replace(parent, "").lstrip(os.path.sep)`. -/
def nameOf (parent key : Str) : Str := (replaceAll parent [] key).dropWhile (· == sep)

/-- One reader call of `_read` for the keys `g` (in request order, repetitions included) of one parent file: the list
`tslist`. -/
def readGroup [OfNat α 0] (f : File α) (g : List (Entry α)) : Option (List (Series α)) :=
  let names := g.map fun e => nameOf f.path e.key
  if styleOf f.format = .byName then
    names.mapM fun n => (readNamed f n).map fun tx => (⟨n, tx.1, tx.2⟩ : Series α)
  else
    match readRows f (0 :: g.map fun e => e.idx.getD 0) with
    | some (r0 :: rest) =>
      if rest.length = names.length then some (List.zipWith (fun n row => (⟨n, r0, row⟩ : Series α)) names rest)
      else none
    | _ => none

/-- `for key, ts in zip(keys, tslist): container[key] = ts; if store: self.register[key] = ts`. -/
def bindGroup (store : Bool) (db : Db α) (c : Container α) : List (Entry α × Series α) → Db α × Container α
  | [] => (db, c)
  | (e, s) :: rest => bindGroup store (if store then setCache db e.key s else db) (setVal c e.key s) rest

/-- `for parent, keys in keys_by_parent.items(): …` over the parents in first-seen order. -/
def readGroups [OfNat α 0] (disk : List (File α)) (store : Bool) (pending : List (Entry α)) :
    List Str → Db α → Container α → Option (Db α × Container α)
  | [], db, c => some (db, c)
  | p :: ps, db, c =>
    match disk.find? fun f => f.path == p with
    | none => none
    | some f =>
      let g := pending.filter fun e => e.parent == p
      match readGroup f g with
      | none => none
      | some ts =>
        let r := bindGroup store db c (g.zip ts)
        readGroups disk store pending ps r.1 r.2

/-- `TsDB._read(keys, store)` (container keyed by the full keys). -/
def readKeys [OfNat α 0] (disk : List (File α)) (db : Db α) (ks : List Str) (store : Bool) :
    Option (Db α × List (Str × Series α)) :=
  match ks.mapM (findEntry db) with
  | none => none
  | some es =>
    let c0 : Container α := ks.eraseDups.map fun k => (k, ((findEntry db k).bind (·.cache)))
    let pending := es.filter fun e => e.cache.isNone
    let parents := (pending.map (·.parent)).eraseDups
    match readGroups disk store pending parents db c0 with
    | none => none
    | some (db', c) => some (db', c.filterMap fun p => p.2.map fun s => (p.1, s))

/-! ### operations -/

inductive Sel
  | names (ns : Option (List Str))
  | inds (is : List Nat)
deriving Repr, DecidableEq

inductive Sel1
  | name (n : Str)
  | ind (i : Nat)
deriving Repr, DecidableEq

inductive Op
  | load (path : Str) (read : Bool)
  | getm (sel : Sel) (store : Bool)
  | get (sel : Sel1) (store : Bool)
deriving Repr, DecidableEq

inductive Err | key | lookup | value | index | file | io
deriving Repr, DecidableEq

inductive Out (α : Type)
  | done
  | series (l : List (Str × Series α))
  | error (e : Err)
deriving Repr, DecidableEq

/-- Entries registered by `load` for the names of a file: `register_indices[key] = j + 1`. -/
def newEntries (f : File α) : Nat → List Str → List (Entry α)
  | _, [] => []
  | j, n :: ns =>
    ⟨pathJoin f.path n, f.path, if indexed f.format then some (j + 1) else none, none⟩ :: newEntries f (j + 1) ns

/-- Keys selected by `getm(names=…)` / `getm(ind=…)`; `none` = IndexError. -/
def selectKeys (db : Db α) : Sel → Option (List Str)
  | .names none => some (keysOf db)
  | .names (some ns) => some (listKeys (keysOf db) ns)
  | .inds is => is.mapM fun i => (keysOf db)[i]?

/-- Key resolution of `get(name=…)` / `get(ind=…)`. -/
def resolve1 (db : Db α) : Sel1 → Except Err Str
  | .name n =>
    match getKey (keysOf db) n with
    | .ok k => .ok k
    | .error .lookup => .error .lookup
    | .error .value => .error .value
  | .ind i =>
    match (keysOf db)[i]? with
    | some k => .ok k
    | none => .error .index

def step [OfNat α 0] (disk : List (File α)) (db : Db α) : Op → Db α × Out α
  | .load path read =>
    match disk.find? fun f => f.path == path with
    | none => (db, .error .file)
    | some f =>
      let new := newEntries f 0 f.names
      if new.any fun e => (keysOf db).contains e.key then (db, .error .key)
      else
        let db1 : Db α := { reg := db.reg ++ new }
        if read then
          match readKeys disk db1 (new.map (·.key)) true with
          | some (db2, _) => (db2, .done)
          | none => (db1, .error .io)
        else (db1, .done)
  | .getm sel store =>
    match selectKeys db sel with
    | none => (db, .error .index)
    | some ks =>
      match readKeys disk db ks store with
      | some (db', out) => (db', .series out)
      | none => (db, .error .io)
  | .get sel store =>
    match resolve1 db sel with
    | .error e => (db, .error e)
    | .ok k =>
      match (findEntry db k).bind (·.cache) with
      | some s => (db, .series [(k, s)])
      | none =>
        match readKeys disk db [k] store with
        | some (db', out) => (db', .series out)
        | none => (db, .error .io)

def run [OfNat α 0] (disk : List (File α)) (db : Db α) : List Op → Db α × List (Out α)
  | [] => (db, [])
  | op :: ops =>
    let r := step disk db op
    let r' := run disk r.1 ops
    (r'.1, r.2 :: r'.2)

end Qats.ReadBind
