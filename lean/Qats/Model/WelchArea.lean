/-
Area under a one-sided spectral density and the quantity it has to reproduce (additions to `Qats/Model/Welch.lean`,
whose definitions are used unchanged):

* `area df p`                  = `Σ_k p_k · Δf`                         (`np.sum(p) * df`),
* `binWidth nfft dt`           = `Δf = 1 / (nfft · dt)`                 (spacing of `np.fft.rfftfreq(nfft, dt)`),
* `weightedMeanSquare w a`     = `Σ a_n² / Σ w_n²` for a prepared segment `a_n = w_n · y_n`
                                 (window-weighted mean square of the mean-removed segment `y`),
* `meanWeightedMeanSquare`     = its mean over the segments Welch's method uses,
* `welchArea x dt …`           = both sides for `qats.signal.psd(x, dt, …)`: (area of the estimate, mean over the
                                 segments of the window-weighted mean squares).
Core Lean only.
-/
import Qats.Model.Welch
namespace Qats.Welch
variable {α : Type} [Add α] [Sub α] [Mul α] [Div α] [Neg α] [LT α] [LE α] [DecidableLT α] [DecidableLE α]
  [OfScientific α] [NatCast α] [OfNat α 0]

/-- `Σ v²`. -/
def sumSq (l : List α) : α := sum (l.map fun v => v * v)

/-- `Σ_k p_k · Δf`. -/
def area (df : α) (p : List α) : α := sum p * df

/-- `Δf = 1 / (nfft · dt)`. -/
def binWidth (nfft : Nat) (dt : α) : α := (1.0 : α) / ((Nat.cast nfft : α) * dt)

/-- `Σ (w·y)² / Σ w²` of a prepared (mean-removed, windowed) segment `a = w·y`. -/
def weightedMeanSquare (w a : List α) : α := sumSq a / sumSq w

/-- Mean over Welch's segments of the window-weighted mean squares. -/
def meanWeightedMeanSquare (w : List α) (noverlap : Nat) (x : List α) : α :=
  mean ((prepared w noverlap x).map fun a => weightedMeanSquare w a)

/-- Segment length actually used: `min(nperseg or 256, n)`. -/
def segLen (n : Nat) (nperseg : Option Nat) : Nat :=
  let np0 := nperseg.getD 256
  if n < np0 then n else np0

section trig
variable [TranscOps α]

/-- `(Σ P·Δf, mean over segments of Σ(w·y)²/Σw²)` for `qats.signal.psd(x, dt, nperseg=, noverlap=, nfft=)`. -/
def welchArea (x : List α) (dt : α) (nperseg noverlap nfft : Option Nat) : Except Err (α × α) :=
  match welch x dt nperseg noverlap nfft with
  | .error e => .error e
  | .ok r =>
    let nps := segLen x.length nperseg
    let nf := nfft.getD nps
    .ok (area (binWidth nf dt) r.p, meanWeightedMeanSquare (hann nps) (noverlap.getD (nps / 2)) x)

end trig

end Qats.Welch
