/-
Model of `qats.signal.find_maxima` (global / local, threshold, ascending sort), `average_frequency`, and of the
series-level `TimeSeries.maxima` / `minima` (negate – maxima – negate).  Core Lean only.

Global maxima in the code: indices of mean up-crossings `u_1 < … < u_k` (first sample above the mean after a sample not
above it); one maximum per interval `[u_j, u_{j+1})`, plus `[u_k, d)` when a down-crossing `d` follows the last
up-crossing; value `x[start:stop].max()`, position of its first occurrence.  The model is the equivalent single pass:
an excursion is opened at an up-crossing, updated while above the mean, reported when closed by a down-crossing;
excursions touching either end of the signal are never reported.
-/
import Qats.Prelude
namespace Qats.Peaks
variable {α : Type} [Add α] [Sub α] [Mul α] [Div α] [Neg α] [LT α] [LE α] [DecidableLT α] [DecidableLE α]
  [NatCast α] [OfNat α 0]

def sum (l : List α) : α := l.foldl (· + ·) 0
def mean (x : List α) : α := sum x / (Nat.cast x.length : α)

/-- Scan state: flag of the previous sample, the open excursion's best (index, value), reported maxima (reversed). -/
structure St (α : Type) where
  prev : Bool
  cur : Option (Nat × α)
  done : List (Nat × α)

def step (m : α) (s : St α) (iv : Nat × α) : St α :=
  let a := decide (0 < iv.2 - m)
  if a then
    if !s.prev then { s with prev := true, cur := some iv }
    else { s with prev := true, cur := s.cur.map fun jb => if jb.2 < iv.2 then iv else jb }
  else
    if s.prev then { prev := false, cur := none, done := match s.cur with | some jb => jb :: s.done | none => s.done }
    else { s with prev := false }

def enum (x : List α) : List (Nat × α) := (List.range x.length).zip x

/-- Global maxima in time order as (index, value). -/
def globalMaxima (x : List α) : List (Nat × α) :=
  match x with
  | [] => []
  | x0 :: _ =>
    let m := mean x
    let s0 : St α := ⟨decide (0 < x0 - m), none, []⟩
    ((enum x).foldl (step m) s0).done.reverse

/-- Local maxima (all interior peaks) in time order: `x[i-1] ≤ x[i]` and `x[i+1] < x[i]`. -/
def localFrom : Nat → List α → List (Nat × α)
  | i, a :: b :: c :: rest =>
    (if ¬ (b < a) ∧ c < b then [(i + 1, b)] else []) ++ localFrom (i + 1) (b :: c :: rest)
  | _, _ => []

def localMaxima (x : List α) : List (Nat × α) := localFrom 0 x

def pairLe (a b : Nat × α) : Bool := if a.2 < b.2 then true else if b.2 < a.2 then false else decide (a.1 ≤ b.1)

/-- `find_maxima(x, local, threshold)`: filter by threshold, sort ascending by value (equal values by position:
canonical order, the code's `argsort` leaves ties unspecified). -/
def findMaxima (x : List α) (loc : Bool) (thr : Option α) : List (Nat × α) :=
  let raw := if loc then localMaxima x else globalMaxima x
  let kept := match thr with
    | none => raw
    | some t => raw.filter fun iv => decide (t ≤ iv.2)
  isort pairLe kept

/-- `TimeSeries.minima`: maxima of the negated signal with negated threshold, values negated back. -/
def findMinima (x : List α) (loc : Bool) (thr : Option α) : List (Nat × α) :=
  (findMaxima (x.map fun v => -v) loc (thr.map fun t => -t)).map fun iv => (iv.1, -iv.2)

/-- Indices `i+1` of mean crossings counted by `average_frequency(t, x, up)`. -/
def crossIdx (x : List α) (up : Bool) : List Nat :=
  let m := mean x
  let c := x.map fun v => if up then decide (0 < v - m) else decide (v - m < 0)
  let pairs := (List.range (c.length - 1)).zip (c.zip c.tail)
  pairs.filterMap fun (i, (c0, c1)) =>
    if up then (if !c0 && c1 then some (i + 1) else none) else (if c0 && !c1 then some (i + 1) else none)

/-- `average_frequency`: `none` = nan (fewer than two crossings). -/
def averageFrequency (t x : List α) (up : Bool) : Option α :=
  let ind := crossIdx x up
  match ind.head?, ind.getLast? with
  | some i0, some i1 =>
    if ind.length > 1 then
      match t[i0]?, t[i1]? with
      | some t0, some t1 => some ((Nat.cast (ind.length - 1) : α) / (t1 - t0))
      | _, _ => none
    else none
  | _, _ => none

end Qats.Peaks
