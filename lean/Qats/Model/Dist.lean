/-
Model of the distribution objects of `qats.stats` (Weibull, Gumbel, GumbelMin) and of the estimators.
Closed-form arithmetic is the *generated* formula set (`Qats.Gen.wb_*`, `gu_*`, `gm_*`, `w2g_*`, `ecdf_*`); this file adds
the mask skeleton of `invcdf`, the order-statistics weights of the probability weighted moments, and the residual
functions handed to the iterative solvers.  Core Lean only.
-/
import Qats.Gen.Formulas
namespace Qats.Dist
open Qats Qats.Gen
variable {α : Type} [Add α] [Sub α] [Mul α] [Div α] [Neg α] [LT α] [LE α] [DecidableLT α] [DecidableLE α]
  [BEq α] [OfScientific α] [TranscOps α]

/-- A value of `invcdf`: the implementation writes `np.inf` / `np.nan` for the masks. -/
inductive Ext (α : Type) where
  | val (v : α)
  | posInf
  | nan
deriving Repr

/-- The three masks shared by `Weibull.invcdf`, `Gumbel.invcdf`, `GumbelMin.invcdf`:
`x[p == 1] = inf`, `x[(p < 0) | (p > 1)] = nan`, `x[(p >= 0) & (p < 1)] = formula`. -/
def invMask (formula : α → α) (p : α) : Ext α :=
  if p ≥ (0.0 : α) ∧ p < (1.0 : α) then .val (formula p)
  else if p < (0.0 : α) ∨ p > (1.0 : α) then .nan
  else if p == (1.0 : α) then .posInf
  else .val (0.0 : α)            -- unreachable for ordered fields (p = nan in floats keeps the initial zero)

def weibullInvcdf (loc scale shape p : α) : Ext α := invMask (fun p => wb_invcdf loc p scale shape) p
def gumbelInvcdf (loc scale p : α) : Ext α := invMask (fun p => gu_invcdf loc p scale) p
def gumbelMinInvcdf (loc scale p : α) : Ext α := invMask (fun p => gm_invcdf loc p scale) p

/-! ### order statistics and probability weighted moments -/

/-- Binomial coefficient on naturals by the multiplicative recurrence `C(n,k+1) = C(n,k)·(n-k)/(k+1)` (exact
division; `scipy.special.binom` at integer arguments). -/
def choose (n : Nat) : Nat → Nat
  | 0 => 1
  | k + 1 => choose n k * (n - k) / (k + 1)

variable [NatCast α]

/-- `Σ_i w(i)·x_i` over the ascending sample `xs` with 1-based rank `i` starting at `start`. -/
def rankSum [OfNat α 0] (w : Nat → α) : Nat → List α → α
  | _, [] => 0
  | i, x :: xs => w i * x + rankSum w (i + 1) xs

/-- `weibull.mlj(sample, 1, j)`: `(1/n)·Σ_{i=j+1}^{n} x_(i)·C(i-1, j)/C(n-1, j)` over the **sorted** sample. -/
def mlj [OfNat α 0] (sorted : List α) (j : Nat) : α :=
  let n := sorted.length
  ((1.0 : α) / (n : α)) *
    rankSum (fun i => ((choose (i - 1) j : Nat) : α) / ((choose (n - 1) j : Nat) : α)) (j + 1) (sorted.drop j)

/-- `gumbel.pwm`'s `mk(z, k)`: `(1/n)·Σ_{i=1}^{n} x_(i)·C(n-i, k)/C(n-1, k)`. -/
def mk [OfNat α 0] (sorted : List α) (k : Nat) : α :=
  let n := sorted.length
  ((1.0 : α) / (n : α)) *
    rankSum (fun i => ((choose (n - i) k : Nat) : α) / ((choose (n - 1) k : Nat) : α)) 1 sorted

/-- `weibull.pwm(x)` → (loc, scale, shape). -/
def weibullPwm [OfNat α 0] (sorted : List α) : α × α × α :=
  let m100 := mlj sorted 0
  let m110 := mlj sorted 1
  let m120 := mlj sorted 2
  let m130 := mlj sorted 3
  let c := wb_pwm_c m100 m110 m120 m130
  let a := wb_pwm_a m100 m110 m120 m130
  let b := wb_pwm_b a c m100
  (a, b, c)

/-- `weibull.pwm2(x)` → (scale, shape). -/
def weibullPwm2 [OfNat α 0] (sorted : List α) : α × α :=
  let m100 := mlj sorted 0
  let m110 := mlj sorted 1
  let c := wb_pwm2_c m100 m110
  (wb_pwm2_b c m100, c)

/-- `gumbel.pwm(x)` → (loc, scale). -/
def gumbelPwm [OfNat α 0] (sorted : List α) : α × α :=
  let m0 := mk sorted 0
  let m1 := mk sorted 1
  let b := gu_pwm_b m0 m1
  (gu_pwm_a b m0, b)

def sum [OfNat α 0] (l : List α) : α := l.foldl (· + ·) 0
def mean [OfNat α 0] (l : List α) : α := sum l / (l.length : α)

/-- `np.std(x, ddof=1)`. -/
def sdUnbiased [OfNat α 0] (l : List α) : α :=
  let m := mean l
  TranscOps.sqrt (sum (l.map fun x => (x - m) * (x - m)) / ((l.length - 1 : Nat) : α))

/-- `gumbel.msm(x)` / `gumbelmin.msm(x)` → (loc, scale). -/
def gumbelMsm [OfNat α 0] (x : List α) : α × α :=
  let b := gu_msm_b (sdUnbiased x)
  (gu_msm_a b (mean x), b)
def gumbelMinMsm [OfNat α 0] (x : List α) : α × α :=
  let b := gm_msm_b (sdUnbiased x)
  (gm_msm_a b (mean x), b)

/-- Sample quantities of `weibull.msm`: mean `a1 = x.mean()`, population variance `m2 = x.var()`, third central moment
`m3 = mean((x - a1)**3)` and the coefficient of skewness `c1 = m3 / m2**1.5` handed to the root search. -/
def central (l : List α) (k : Nat) [OfNat α 0] : α :=
  let m := mean l
  sum (l.map fun x => (List.replicate k (x - m)).foldl (· * ·) (1.0 : α)) / (l.length : α)
def sampleSkew [OfNat α 0] (l : List α) : α := central l 3 / TranscOps.rpow (central l 2) (1.5 : α)

/-- `weibull.msm(x)` given the shape `c` returned by the root search of the skewness equation
`wb_msm_eq c (sampleSkew x) = 0` (brentq on [0.1, 1000]): → (loc, scale, shape). -/
def weibullMsmGiven [OfNat α 0] (c : α) (x : List α) : α × α × α :=
  let g1 := wb_msm_g1 c
  let g2 := wb_msm_g2 c
  let b := wb_msm_b g1 g2 (central x 2)
  (wb_msm_a (mean x) b g1, b, c)

/-- The two estimating equations `mle_eq` of `gumbel.mle` at `(loc, scale)`. -/
def gumbelMleEq [OfNat α 0] (loc scale : α) (z : List α) : α × α :=
  let n : α := (z.length : α)
  let e := z.map fun zi => TranscOps.exp (-zi / scale)
  (loc + scale * TranscOps.log ((1.0 : α) / n * sum e),
   mean z - sum (List.zipWith (· * ·) z e) / sum e - scale)

/-- The two estimating equations of `gumbelmin.mle` at `(loc, scale)`. -/
def gumbelMinMleEq [OfNat α 0] (loc scale : α) (z : List α) : α × α :=
  let n : α := (z.length : α)
  let e := z.map fun zi => TranscOps.exp (zi / scale)
  (loc - scale * TranscOps.log ((1.0 : α) / n * sum e),
   sum (List.zipWith (· * ·) z e) / sum e - mean z - scale)

/-- Residual vector of `gumbel.lse` at `(loc, scale)` for the sorted sample and the median-rank plotting positions. -/
def gumbelLseRes (loc scale : α) (sorted : List α) : List α :=
  let n := sorted.length
  (List.range n).zipWith (fun i z => gu_cdf loc scale z - ecdf_median ((i + 1 : Nat) : α) (n : α)) sorted

def gumbelMinLseRes (loc scale : α) (sorted : List α) : List α :=
  let n := sorted.length
  (List.range n).zipWith (fun i z => gm_cdf loc scale z - ecdf_median ((i + 1 : Nat) : α) (n : α)) sorted

end Qats.Dist
