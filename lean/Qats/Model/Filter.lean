/-
Model of the frequency filters `qats.signal.lowpass / highpass / bandpass / bandblock` and of their use by
`TimeSeries.get(filterargs=…)` / `TimeSeries.filter`.  Core Lean only.

What is modelled
* the *design parameters* the code hands to scipy: `butter(order = 5, Wn = fc / nyq, btype, analog=False)` with
  `nyq = 0.5 * 1. / dt`, and the routine the coefficients go to (`filtfilt` for low/high-pass, `sosfiltfilt`
  for the band filters) — `design`;
* the *specified* steady-state response of that design to a stationary sinusoid sampled with step `dt`
  (`responseOf`): forward-backward filtering with a Butterworth filter of order `n` obtained by the bilinear
  transform multiplies a sinusoid of frequency `f` by the squared magnitude response and leaves its phase alone.
  With `edge w = tan(π w / 2)` (pre-warped analogue edge of a normalised cut-off) and `W = tan(π f dt)`:
    low-pass   c²ⁿ / (c²ⁿ + W²ⁿ)              high-pass  W²ⁿ / (c²ⁿ + W²ⁿ)            c = edge Wn
    band-pass  B²ⁿ / (B²ⁿ + D²ⁿ)              band-stop  D²ⁿ / (B²ⁿ + D²ⁿ)            B = (e₂ − e₁) W, D = W² − e₁e₂
  (the denominators never vanish for cut-offs in (0, Nyquist); no division by a quantity that can be zero);
* the same response written directly in Hz (`gain`), `W(g) = tan(π g dt)` for the cut-offs too — the property's
  reading of the arguments.  `Props/C12.response_in_hz` proves both coincide for the design above;
* `steadyState`: a signal `mean + Σ Aᵢ sin(2π fᵢ t + φᵢ)` is mapped to `mean·G(0) + Σ Aᵢ G(fᵢ) sin(2π fᵢ t + φᵢ)`;
* `TimeSeries.get(filterargs)` = C11's pipeline (`Qats.Pipeline.get`) with the filter stage
  `fun dt x => F (design spec dt) x`, and `TimeSeries.filter` = argument check + that call.

Assumed library behaviour (DESIGN.md section 3; *measured* on every run, not proved): scipy's `butter` +
`filtfilt` / `sosfiltfilt` (the abstract `F` below) realise `responseOf` on a stationary sinusoid away from the ends
of the record.  `tan` is `sin / cos` of `Qats.TranscOps`.
-/
import Qats.Prelude
import Qats.Model.Pipeline
namespace Qats.Filter

/-- Filter types (`'lp'`, `'hp'`, `'bp'`, `'bs'`; scipy `btype` lowpass / highpass / bandpass / bandstop). -/
inductive Kind | lp | hp | bp | bs
deriving Repr, DecidableEq

/-- The scipy routine that applies the coefficients. -/
inductive Routine | filtfilt | sosfiltfilt
deriving Repr, DecidableEq

/-- A filter request in Hz. -/
inductive Spec (α : Type)
  | lp (fc : α)
  | hp (fc : α)
  | bp (flow fupp : α)
  | bs (flow fupp : α)
deriving Repr

/-- What the code passes to `scipy.signal.butter` and which routine applies the result. -/
structure Design (α : Type) where
  order : Nat
  wn : List α
  btype : Kind
  routine : Routine
deriving Repr, DecidableEq

def Kind.arity : Kind → Nat
  | .lp => 1
  | .hp => 1
  | .bp => 2
  | .bs => 2

def Kind.tag : Kind → String
  | .lp => "lowpass"
  | .hp => "highpass"
  | .bp => "bandpass"
  | .bs => "bandstop"

def Routine.tag : Routine → String
  | .filtfilt => "filtfilt"
  | .sosfiltfilt => "sosfiltfilt"

def Spec.kind {α : Type} : Spec α → Kind
  | .lp _ => .lp
  | .hp _ => .hp
  | .bp _ _ => .bp
  | .bs _ _ => .bs

/-- The same request with every frequency transformed by `g`. -/
def Spec.map {α : Type} (g : α → α) : Spec α → Spec α
  | .lp fc => .lp (g fc)
  | .hp fc => .hp (g fc)
  | .bp f1 f2 => .bp (g f1) (g f2)
  | .bs f1 f2 => .bs (g f1) (g f2)

/-- `filterargs = (kind, f…)`: the frequencies must match the filter type's arity. -/
def mkSpec {α : Type} : Kind → List α → Option (Spec α)
  | .lp, [fc] => some (.lp fc)
  | .hp, [fc] => some (.hp fc)
  | .bp, [f1, f2] => some (.bp f1 f2)
  | .bs, [f1, f2] => some (.bs f1 f2)
  | _, _ => none

/-- Default Butterworth order of all four functions. -/
def defaultOrder : Nat := 5

section design
variable {α : Type} [Mul α] [Div α] [OfScientific α]

/-- `nyq = 0.5 * 1. / dt`. -/
def nyquist (dt : α) : α := (0.5 : α) * (1.0 : α) / dt

/-- The arguments of `butter` (and the applying routine) for a request in Hz on a series sampled with step `dt`. -/
def design (s : Spec α) (dt : α) : Design α :=
  match s with
  | .lp fc => ⟨defaultOrder, [fc / nyquist dt], .lp, .filtfilt⟩
  | .hp fc => ⟨defaultOrder, [fc / nyquist dt], .hp, .filtfilt⟩
  | .bp f1 f2 => ⟨defaultOrder, [f1 / nyquist dt, f2 / nyquist dt], .bp, .sosfiltfilt⟩
  | .bs f1 f2 => ⟨defaultOrder, [f1 / nyquist dt, f2 / nyquist dt], .bs, .sosfiltfilt⟩

end design

section response
variable {α : Type} [Add α] [Sub α] [Mul α] [Div α] [OfScientific α] [TranscOps α]

/-- `xⁿ` by repeated multiplication. -/
def ipow (x : α) : Nat → α
  | 0 => (1.0 : α)
  | n + 1 => x * ipow x n

/-- `tan`. -/
def tan (x : α) : α := TranscOps.sin x / TranscOps.cos x

/-- Bilinear-transform image `tan(π g dt)` of the frequency `g` (Hz) at sampling interval `dt`. -/
def warp (dt g : α) : α := tan ((TranscOps.pi : α) * g * dt)

/-- Pre-warped analogue edge `tan(π Wn / 2)` of a cut-off normalised by Nyquist. -/
def edge (wn : α) : α := tan ((TranscOps.pi : α) * wn / (2.0 : α))

def lowShape (n : Nat) (c w : α) : α := ipow c (2 * n) / (ipow c (2 * n) + ipow w (2 * n))
def highShape (n : Nat) (c w : α) : α := ipow w (2 * n) / (ipow c (2 * n) + ipow w (2 * n))
def passShape (n : Nat) (e1 e2 w : α) : α :=
  ipow ((e2 - e1) * w) (2 * n) / (ipow ((e2 - e1) * w) (2 * n) + ipow (w * w - e1 * e2) (2 * n))
def stopShape (n : Nat) (e1 e2 w : α) : α :=
  ipow (w * w - e1 * e2) (2 * n) / (ipow ((e2 - e1) * w) (2 * n) + ipow (w * w - e1 * e2) (2 * n))

/-- Specified steady-state gain (forward-backward = squared magnitude, zero phase) of a design, for a sinusoid
of frequency `f` Hz in a series sampled with step `dt`.  Ill-formed designs have no response (`0`). -/
def responseOf (d : Design α) (dt f : α) : α :=
  match d.btype, d.wn with
  | .lp, [w] => lowShape d.order (edge w) (warp dt f)
  | .hp, [w] => highShape d.order (edge w) (warp dt f)
  | .bp, [w1, w2] => passShape d.order (edge w1) (edge w2) (warp dt f)
  | .bs, [w1, w2] => stopShape d.order (edge w1) (edge w2) (warp dt f)
  | _, _ => (0.0 : α)

/-- The property's reading: squared magnitude response of the order-`n` digital Butterworth filter with cut-offs
given in Hz, at `f` Hz, for sampling interval `dt`. -/
def gain (n : Nat) (dt : α) (s : Spec α) (f : α) : α :=
  match s with
  | .lp fc => lowShape n (warp dt fc) (warp dt f)
  | .hp fc => highShape n (warp dt fc) (warp dt f)
  | .bp f1 f2 => passShape n (warp dt f1) (warp dt f2) (warp dt f)
  | .bs f1 f2 => stopShape n (warp dt f1) (warp dt f2) (warp dt f)

/-- One sinusoidal component `amp · sin(2π freq t + phase)`. -/
structure Comp (α : Type) where
  amp : α
  freq : α
  phase : α
deriving Repr

/-- A stationary signal: mean plus sinusoidal components. -/
structure Signal (α : Type) where
  mean : α
  comps : List (Comp α)
deriving Repr

def Comp.eval (c : Comp α) (t : α) : α :=
  c.amp * TranscOps.sin ((2.0 : α) * (TranscOps.pi : α) * c.freq * t + c.phase)

/-- Value of the signal at time `t`. -/
def Signal.eval (s : Signal α) (t : α) : α := s.comps.foldr (fun c acc => c.eval t + acc) s.mean

/-- `a·s₁ + b·s₂` as a signal. -/
def Signal.comb (a : α) (s1 : Signal α) (b : α) (s2 : Signal α) : Signal α :=
  ⟨a * s1.mean + b * s2.mean,
   s1.comps.map (fun c => { c with amp := a * c.amp }) ++ s2.comps.map (fun c => { c with amp := b * c.amp })⟩

/-- Steady state (away from the ends) of the code's filter for the request `s` on a series sampled with `dt`:
every component keeps frequency and phase, its amplitude is multiplied by the design's response at its frequency,
the mean by the response at 0 Hz. -/
def steadyState (s : Spec α) (dt : α) (x : Signal α) : Signal α :=
  ⟨x.mean * responseOf (design s dt) dt (0.0 : α),
   x.comps.map fun c => { c with amp := c.amp * responseOf (design s dt) dt c.freq }⟩

end response

section ts
variable {α : Type} [Add α] [Sub α] [Mul α] [Div α] [Neg α] [LT α] [LE α] [DecidableLT α] [DecidableLE α]
  [NatCast α] [OfNat α 0] [OfScientific α]

inductive Err
  /-- `ValueError` of `TimeSeries.filter` (wrong number of frequencies for the type). -/
  | value
  /-- failure inside `get`. -/
  | pipeline (e : Pipeline.Err)
deriving Repr, DecidableEq

/-- The filter stage of `get`: design for the step it is given, then scipy's routine `F`. -/
def stage (F : Design α → List α → List α) (s : Spec α) : α → List α → List α :=
  fun dt x => F (design s dt) x

/-- `TimeSeries.get(twin, resample, taperfrac, filterargs=(kind, f…))` (no smoothing): C11's pipeline with the
filter stage above.  `taper` is the Tukey taper (abstract). -/
def tsGet (rnd : α → Int) (F : Design α → List α → List α) (taper : List α → List α) (t x : List α)
    (s : Spec α) (twin : Option (α × α)) (resample : Option (Pipeline.Resample α)) (tapered : Bool) :
    Except Pipeline.Err (List α × List α) :=
  Pipeline.get rnd ⟨taper, stage F s, id⟩ t x
    { twin := twin, resample := resample, taper := tapered, filter := true, smooth := false }

/-- `TimeSeries.filter(filtertype, freq, twin, taperfrac)`: check the number of frequencies, then `get`. -/
def tsFilter (rnd : α → Int) (F : Design α → List α → List α) (taper : List α → List α) (t x : List α)
    (k : Kind) (freqs : List α) (twin : Option (α × α)) (tapered : Bool) : Except Err (List α × List α) :=
  match mkSpec k freqs with
  | none => .error .value
  | some s =>
    match tsGet rnd F taper t x s twin none tapered with
    | .ok r => .ok r
    | .error e => .error (.pipeline e)

end ts

end Qats.Filter
