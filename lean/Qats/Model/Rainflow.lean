/-
Model of `qats/fatigue/rainflow.py`: `reversals`, `cycles`, `count_cycles`.

Core Lean only (no Mathlib): the same definitions are *executed* at `α := Rat` by the correspondence
driver and *proved about* over an arbitrary linearly ordered field in `Qats/Props/C02.lean`, `C03.lean`.

Python ↔ model
* `reversals(series, endpoints)` is a generator holding `(x, d_last)`; `revLoop` is the body of its `for` loop.
  Fewer than two samples: `next(series)` raises inside the generator → `none`.
* `cycles` keeps a deque `points`; here the deque is a list with the **most recent point first**
  (`points[-1] = p1`, `points[-2] = p2`, `points[-3] = p3`). `len(points) == 3` ⇔ the tail after `p3` is empty.
* `count_cycles` tags full cycles with count 1, half cycles with count 1/2 and sorts by (range, mean).
-/
import Qats.Prelude
namespace Qats.Rainflow

variable {α : Type}

section ops
variable [Add α] [Sub α] [Mul α] [Neg α] [LT α] [DecidableLT α] [BEq α] [OfNat α 0] [OfScientific α]

/-- Python's `abs` on a scalar. -/
def abs' (x : α) : α := if x < 0 then -x else x

/-- Body of the `for x_next in series` loop of `reversals`; returns the yielded points and the final `x`. -/
def revLoop (x dLast : α) : List α → List α × α
  | [] => ([], x)
  | xn :: rest =>
    if xn == x then revLoop x dLast rest
    else
      let dn := xn - x
      let r := revLoop xn dn rest
      if dLast * dn < 0 then (x :: r.1, r.2) else r

/-- `list(reversals(series, endpoints))`; `none` when the series has fewer than two samples. -/
def reversals (ep : Bool) : List α → Option (List α)
  | x0 :: x1 :: rest =>
    let r := revLoop x1 (x1 - x0) rest
    some (if ep then x0 :: (r.1 ++ [r.2]) else r.1)
  | _ => none

/-- A counted cycle: range and mean. -/
structure Cyc (α : Type) where
  range : α
  mean : α
deriving Repr, BEq, DecidableEq

/-- Output of the stack machine: full cycles, half cycles (both in order of extraction), remaining stack. -/
structure Out (α : Type) where
  full : List (Cyc α)
  half : List (Cyc α)
  stack : List α

/-- Append `p1` to the deque and run the inner `while len(points) >= 3` loop.
`reduce p1 stack`: `stack` is the deque before the append, newest-first. Structural recursion on `stack`. -/
def reduce (p1 : α) : List α → Out α
  | p2 :: p3 :: rest =>
    let x := abs' (p2 - p1)
    let y := abs' (p3 - p2)
    let m := (0.5 : α) * (p2 + p3)
    if x < y then ⟨[], [], p1 :: p2 :: p3 :: rest⟩
    else if rest.isEmpty then
      -- Y contains the starting point: half cycle, discard the first (oldest) point
      ⟨[], [⟨y, m⟩], [p1, p2]⟩
    else
      -- full cycle, discard peak and valley of Y; `p1` stays on top and the loop continues
      let o := reduce p1 rest
      ⟨⟨y, m⟩ :: o.full, o.half, o.stack⟩
  | s => ⟨[], [], p1 :: s⟩

/-- Process the reversal points one by one (outer `for r in reversals(...)` loop). -/
def feed : List α → List α → Out α
  | stack, [] => ⟨[], [], stack⟩
  | stack, r :: rs =>
    let o := reduce r stack
    let o' := feed o.stack rs
    ⟨o.full ++ o'.full, o.half ++ o'.half, o'.stack⟩

/-- The `else:` clause of the `for` loop: remaining ranges are half cycles, popped from the newest end. -/
def leftovers : List α → List (Cyc α)
  | p1 :: p2 :: rest => ⟨abs' (p2 - p1), (0.5 : α) * (p1 + p2)⟩ :: leftovers (p2 :: rest)
  | _ => []

/-- `cycles` applied to an already extracted list of reversal points: `(full, half)`. -/
def cyclesOfPoints (pts : List α) : List (Cyc α) × List (Cyc α) :=
  let o := feed [] pts
  (o.full, o.half ++ leftovers o.stack)

/-- `cycles(series, endpoints)`. -/
def cycles (ep : Bool) (s : List α) : Option (List (Cyc α) × List (Cyc α)) :=
  (reversals ep s).map cyclesOfPoints

/-- A row of the `count_cycles` table. -/
structure Row (α : Type) where
  range : α
  mean : α
  count : α
deriving Repr, BEq, DecidableEq

/-- (range, mean, count) lexicographic `≤` used to canonicalise the table.
The implementation sorts by (range, mean) only; rows equal in both may come in either order, which is
not observable as a property of the table (see the canonicalisation rule in DESIGN.md, Appendix B). -/
def rowLe (a b : Row α) : Bool :=
  if a.range < b.range then true
  else if b.range < a.range then false
  else if a.mean < b.mean then true
  else if b.mean < a.mean then false
  else !(b.count < a.count)

/-- The unsorted table: full cycles count 1.0, then half cycles count 0.5. -/
def tagged (one half : α) (fh : List (Cyc α) × List (Cyc α)) : List (Row α) :=
  fh.1.map (fun c => ⟨c.range, c.mean, one⟩) ++ fh.2.map (fun c => ⟨c.range, c.mean, half⟩)

/-- `count_cycles(series, endpoints)`. -/
def countCycles (ep : Bool) (s : List α) : Option (List (Row α)) :=
  (cycles ep s).map fun fh => isort rowLe (tagged (1.0 : α) (0.5 : α) fh)

end ops

end Qats.Rainflow
