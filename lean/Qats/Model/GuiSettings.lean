import Qats.Prelude
/-
Model of the application settings of the GUI (`qats/app/gui.py`): the four values kept in `Qats.settings`
(`psd_normalized`, `psd_nperseg`, `rfc_nbins`, `twin_ndec`), the settings dialog (`SettingsDialog`: a check box and three spin
boxes, each spin box given its range *before* its value) and `Qats.on_open_settings` (the dialog opens with the current
settings; on OK all four widget values are stored, on Cancel nothing is).

Assumed library behaviour (Qt): `QSpinBox.setRange(lo, hi)` followed by `setValue(v)` shows `v` clamped to `[lo, hi]`; a value
typed by the user is clamped the same way.  Core Lean only.
-/
namespace Qats.GuiSettings

structure App where
  norm : Bool
  nperseg : Nat
  nbins : Nat
  ndec : Nat
deriving DecidableEq, Repr

/-- `Qats.psd_normalized()` … `twin_ndec()` on an empty settings dictionary. -/
def defaults : App := ⟨false, 20000, 256, 2⟩

/-- What the user does in the dialog: `none` = widget not touched. -/
structure Edit where
  norm : Option Bool := none
  nperseg : Option Nat := none
  nbins : Option Nat := none
  ndec : Option Nat := none
deriving DecidableEq, Repr

def clamp (lo hi v : Nat) : Nat := max lo (min hi v)

/-- The widget values when the dialog opens with settings `a`. -/
def shown (a : App) : App := ⟨a.norm, clamp 100 100000 a.nperseg, clamp 10 1000 a.nbins, clamp 1 10 a.ndec⟩

/-- The widget values after the user's edits. -/
def edited (e : Edit) (a : App) : App :=
  let s := shown a
  ⟨e.norm.getD s.norm, (e.nperseg.map (clamp 100 100000)).getD s.nperseg, (e.nbins.map (clamp 10 1000)).getD s.nbins,
    (e.ndec.map (clamp 1 10)).getD s.ndec⟩

/-- `on_open_settings`: OK stores the widget values, Cancel stores nothing. -/
def dialog (ok : Bool) (e : Edit) (a : App) : App := if ok then edited e a else a

/-- Settings every widget can show unchanged. -/
def InRange (a : App) : Prop :=
  100 ≤ a.nperseg ∧ a.nperseg ≤ 100000 ∧ 10 ≤ a.nbins ∧ a.nbins ≤ 1000 ∧ 1 ≤ a.ndec ∧ a.ndec ≤ 10

/-- A session: any sequence of dialogs starting from the defaults. -/
def session (l : List (Bool × Edit)) : App := l.foldl (fun a d => dialog d.1 d.2 a) defaults

end Qats.GuiSettings
