/-
Model of `qats.fatigue.sn.SNCurve` (`n`, `fatigue_strength`, `thickness_correction`, derived parameters) and of
`minersum`.  The arithmetic of every branch is the *generated* formula (`Qats.Gen.sn_*`, regenerated from the
source on every run); this file only adds the branch skeleton (`if`/mask selection, optional thickness) which is
tied to the implementation by the Float correspondence check.  Core Lean only.
-/
import Qats.Gen.Formulas
namespace Qats.SN
open Qats.Gen
variable {α : Type} [Add α] [Sub α] [Mul α] [Div α] [Neg α] [LT α] [LE α] [DecidableLT α] [DecidableLE α]
  [OfScientific α] [TranscOps α]

/-- S-N curve parameters as stored by `SNCurve.__init__` (bilinear iff `m2` is given). -/
structure Curve (α : Type) where
  m1 : α
  loga1 : α
  m2 : Option α := none
  nswitch : α            -- only used when bilinear
  thick : Option (α × α) := none   -- (t_exp, t_ref)

def Curve.loga2 (c : Curve α) (m2 : α) : α := sn_loga2 c.loga1 c.m1 m2 c.nswitch
def Curve.sswitch (c : Curve α) : α := sn_sswitch c.loga1 c.m1 c.nswitch

/-- `thickness_correction(t)`: `t` is clipped at `t_ref` from below, then `(t/t_ref)**t_exp`. -/
def tcorr (t_exp t_ref t : α) : α :=
  let t' := if sn_tcorr_mask t t_ref then t_ref else t
  sn_tcorr t' t_exp t_ref

/-- The factor used by `n`/`fatigue_strength`: 1.0 when no thickness is given.
(`t` given but the curve has no thickness parameters raises `ValueError` in the code: `none`.) -/
def Curve.tfactor (c : Curve α) : Option α → Option α
  | none => some (1.0 : α)
  | some t => c.thick.map fun (te, tr) => tcorr te tr t

/-- `SNCurve.n` once the thickness factor `tc` is known (scalar `s`). -/
def Curve.nWith (c : Curve α) (tc s : α) : α :=
  match c.m2 with
  | none => sn_n_single c.loga1 c.m1 s tc
  | some m2 =>
    if sn_mask s c.sswitch tc then sn_n_upper c.loga1 c.m1 s tc
    else sn_n_lower (c.loga2 m2) m2 s tc

/-- `SNCurve.n(s, t)` for a scalar `s`. -/
def Curve.n (c : Curve α) (s : α) (t : Option α) : Option α :=
  (c.tfactor t).map fun tc => c.nWith tc s

/-- `SNCurve.n(s, t)` for an array `s`. -/
def Curve.nArray (c : Curve α) (s : List α) (t : Option α) : Option (List α) :=
  (c.tfactor t).map fun tc => s.map (c.nWith tc)

/-- `SNCurve.fatigue_strength` once the thickness factor is known. -/
def Curve.strengthWith (c : Curve α) (tc n : α) : α :=
  match c.m2 with
  | none => sn_strength c.loga1 c.m1 n tc
  | some m2 =>
    if sn_strength_mask n c.nswitch then sn_strength c.loga1 c.m1 n tc
    else sn_strength (c.loga2 m2) m2 n tc

/-- `SNCurve.fatigue_strength(n, t)`. -/
def Curve.strength (c : Curve α) (n : α) (t : Option α) : Option α :=
  (c.tfactor t).map fun tc => c.strengthWith tc n

/-- `minersum(srange, count, sn, td, scf, th)` with an `SNCurve`: `sum(td * count / sn.n(srange * scf, t=th))`.
`none` when `th` is given but the curve has no thickness parameters (the code raises). -/
def minersum (c : Curve α) (td scf : α) (th : Option α) (hist : List (α × α)) [OfNat α 0] : Option α :=
  (c.tfactor th).map fun tc =>
    (hist.map fun (sr, cnt) => td * cnt / c.nWith tc (sr * scf)).foldl (· + ·) 0

end Qats.SN
