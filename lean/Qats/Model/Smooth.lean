import Qats.Prelude
import Qats.Gen.Formulas
/-
Model of the two numeric stages of `TimeSeries.get` that are written in qats itself (`qats/signal.py`):

* `smooth(x, window_len, window, mode='same')` — convolution of the normalised window with the signal extended at both ends by
  point-reflected copies (`2·x[0] − x[W:1:-1]`, `2·x[-1] − x[-1:-W:-1]`), cut back to the signal's length;
* `taper(x, 'tukey', alpha)` — multiplication by the Tukey window as the loop in `taper` builds it — and the way `get` applies
  it: to the fluctuation about the mean.

Assumed library behaviour (numpy): `np.convolve(a, v, 'same')` with `len(a) ≤ len(v)` is the slice
`full[(len(a)−1)/2 : (len(a)−1)/2 + len(v)]` of the full convolution `full[k] = Σ_j a[j]·v[k−j]`; Python slices clamp to the
array bounds (`x[W:1:-1]` starts at `min(W, n−1)`); the window weights `w` (`np.ones`, `np.hanning`, …) are a parameter of the
model (rectangular: `List.replicate W 1`).  The two cosine flanks of the Tukey window are the formulas `tk_rise` / `tk_fall`
regenerated from the source of `taper` on every run (`Qats/Gen/Formulas.lean`); the three index conditions are written here.
Core Lean only; executed at `Float` against the real functions.
-/
namespace Qats.Smooth

inductive Err
  | tooShort        -- ValueError("Input vector needs to be bigger than window size.")
deriving Repr, DecidableEq

section
variable {α : Type} [Add α] [Sub α] [Mul α] [Div α] [OfNat α 0] [OfNat α 2]

def sum (l : List α) : α := l.foldr (· + ·) 0

/-- `Σ_j a[j]·b[j]` over the common length. -/
def dot : List α → List α → α
  | a :: as, b :: bs => a * b + dot as bs
  | _, _ => 0

/-- `2·x[0] − x[W:1:-1]`: the samples `x[2] … x[min(W, n−1)]`, reversed and reflected about the first sample. -/
def leftPad (W : Nat) (x : List α) : List α :=
  match x with
  | [] => []
  | x0 :: _ => (((x.take (W + 1)).drop 2).reverse).map fun v => 2 * x0 - v

/-- `2·x[-1] − x[-1:-W:-1]`: the samples `x[n−W+1] … x[n−1]`, reversed and reflected about the last sample. -/
def rightPad (W : Nat) (x : List α) : List α :=
  match x.getLast? with
  | none => []
  | some xl => ((x.drop (x.length - W + 1)).reverse).map fun v => 2 * xl - v

/-- The extended signal `s = np.r_[left, x, right]`. -/
def extended (W : Nat) (x : List α) : List α := leftPad W x ++ x ++ rightPad W x

/-- Sample `i` of `np.convolve(a, s, 'same')[W−1 : −W+1]`: the weights against `W` consecutive samples of `s`, reversed. -/
def smoothAt (a s : List α) (W i : Nat) : α := dot a (((s.drop (i + (W - 1) / 2)).take W).reverse)

/-- `smooth(x, window_len = w.length, mode='same')` with window weights `w`. -/
def smooth (w x : List α) : Except Err (List α) :=
  let W := w.length
  if x.length < W then .error .tooShort
  else if W < 3 then .ok x
  else if x.length = W then .error .tooShort
  else
    let a := w.map (· / sum w)
    let s := extended W x
    .ok ((List.range x.length).map fun i => smoothAt a s W i)

end

section
variable {α : Type} [Add α] [Sub α] [Mul α] [Div α] [Neg α] [LT α] [LE α] [DecidableLT α] [DecidableLE α]
  [OfNat α 0] [OfNat α 1] [OfNat α 2] [OfScientific α] [NatCast α] [TranscOps α]

/-- Weight `i` of the Tukey window of length `n` as the three `if`s of `taper` assign it (later assignments win; an index
that satisfies none keeps the initial 0). -/
def tukeyWeight (alpha : α) (n i : Nat) : α :=
  let N : α := (Nat.cast n : α)
  let I : α := (Nat.cast i : α)
  let w0 : α := 0
  let w1 : α := if I < alpha * N / 2 then Qats.Gen.tk_rise alpha I N else w0
  let w2 : α := if alpha * N / 2 ≤ I ∧ I ≤ N * (1 - alpha / 2) then 1 else w1
  if N * (1 - alpha / 2) < I ∧ I ≤ N then Qats.Gen.tk_fall alpha I N else w2

def tukey (alpha : α) (n : Nat) : List α := (List.range n).map (tukeyWeight alpha n)

/-- `taper(x, 'tukey', alpha)[0]`. -/
def taper (alpha : α) (x : List α) : List α := List.zipWith (· * ·) x (tukey alpha x.length)

/-- `np.mean`. -/
def mean (x : List α) : α := Qats.Smooth.sum x / (Nat.cast x.length : α)

/-- The tapering stage of `TimeSeries.get`: the fluctuation about the mean is tapered, the mean re-added. -/
def taperStage (alpha : α) (x : List α) : List α :=
  let m := mean x
  (taper alpha (x.map (· - m))).map (· + m)

end

end Qats.Smooth
