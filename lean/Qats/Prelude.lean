/-
Shared utilities for the executable models: parsing/printing of exact rationals and IEEE doubles for the
line protocol (see DESIGN.md, Appendix B). Core Lean only.
-/
namespace Qats

/-- Parse `-12`, `7/8`, `-3/4` into a `Rat`. -/
def parseRat? (s : String) : Option Rat :=
  match s.splitOn "/" with
  | [n] => n.toInt?.map fun i => (i : Rat)
  | [n, d] =>
    match n.toInt?, d.toNat? with
    | some i, some k => if k == 0 then none else some (mkRat i k)
    | _, _ => none
  | _ => none

def showRat (r : Rat) : String :=
  if r.den == 1 then toString r.num else s!"{r.num}/{r.den}"

def parseRats? (ts : List String) : Option (List Rat) := ts.mapM parseRat?

def hexDigit? (c : Char) : Option Nat :=
  if '0' ≤ c ∧ c ≤ '9' then some (c.toNat - '0'.toNat)
  else if 'a' ≤ c ∧ c ≤ 'f' then some (c.toNat - 'a'.toNat + 10)
  else if 'A' ≤ c ∧ c ≤ 'F' then some (c.toNat - 'A'.toNat + 10)
  else none

/-- Parse 16 hex digits (IEEE-754 bit pattern) into a `Float`. -/
def parseFloatBits? (s : String) : Option Float := do
  let ds ← s.toList.mapM hexDigit?
  if ds.length != 16 then none
  let n := ds.foldl (fun acc d => acc * 16 + d) 0
  some (Float.ofBits n.toUInt64)

def hexOfNat (n : Nat) (width : Nat) : String :=
  let rec go (n : Nat) (k : Nat) (acc : List Char) : List Char :=
    match k with
    | 0 => acc
    | k + 1 => go (n / 16) k ((Nat.digitChar (n % 16)) :: acc)
  String.ofList (go n width [])

def showFloatBits (f : Float) : String := hexOfNat f.toBits.toNat 16

def parseFloats? (ts : List String) : Option (List Float) := ts.mapM parseFloatBits?

def joinWith (sep : String) (xs : List String) : String := sep.intercalate xs

/-- Insert into a sorted list (same shape as Mathlib's `List.orderedInsert`). -/
def insertSorted {α : Type} (le : α → α → Bool) (a : α) : List α → List α
  | [] => [a]
  | b :: l => if le a b then a :: b :: l else b :: insertSorted le a l

/-- Insertion sort (structural recursion, so the kernel can evaluate it); stable. -/
def isort {α : Type} (le : α → α → Bool) : List α → List α
  | [] => []
  | a :: l => insertSorted le a (isort le l)

/-- Transcendental operations used by the generated formulas; instances: `Float` (execution, below) and `ℝ`
(proofs, `Qats/Lemmas/RealOps.lean`). Arithmetic stays in the ordinary operator classes. -/
class TranscOps (α : Type) where
  exp : α → α
  log : α → α
  log10 : α → α
  sqrt : α → α
  sin : α → α
  cos : α → α
  gamma : α → α
  abs : α → α
  rpow : α → α → α
  pi : α
  /-- `scipy.special.zetac`: ζ(x) − 1 (only ever called at 3). -/
  zetac : α → α

def lanczosCoef : List Float :=
  [0.99999999999980993, 676.5203681218851, -1259.1392167224028, 771.32342877765313, -176.61502916214059,
   12.507343278686905, -0.13857109526572012, 9.9843695780195716e-6, 1.5056327351493116e-7]

def floatPi : Float := 3.141592653589793

/-- Lanczos approximation (g = 7, n = 9) of Γ for `x ≥ 0.5`. -/
def gammaLanczos (x : Float) : Float :=
  let x := x - 1.0
  let t := x + 7.5
  let rec sum (i : Nat) (cs : List Float) (acc : Float) : Float :=
    match cs with
    | [] => acc
    | c :: cs => sum (i + 1) cs (acc + c / (x + i.toFloat))
  let a := match lanczosCoef with
    | c0 :: cs => sum 1 cs c0
    | [] => 0.0
  Float.sqrt (2.0 * floatPi) * Float.pow t (x + 0.5) * Float.exp (-t) * a

/-- Γ on `Float` (reflection formula below 0.5); validated against `scipy.special.gamma` on every run. -/
def floatGamma (x : Float) : Float :=
  if x < 0.5 then floatPi / (Float.sin (floatPi * x) * gammaLanczos (1.0 - x)) else gammaLanczos x

instance : TranscOps Float where
  exp := Float.exp
  log := Float.log
  log10 := Float.log10
  sqrt := Float.sqrt
  sin := Float.sin
  cos := Float.cos
  gamma := floatGamma
  abs := Float.abs
  rpow := Float.pow
  pi := floatPi
  zetac := fun x => if x == 3.0 then 0.2020569031595942 else 0.0 / 0.0

end Qats
