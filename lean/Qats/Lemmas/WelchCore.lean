import Qats.Model.Welch
import Mathlib.Tactic
import Mathlib.Algebra.BigOperators.Ring.List
import Mathlib.Algebra.Order.BigOperators.Group.List
/-!
Algebra of the Welch estimator core (`Qats.Welch.welchCore`) for an arbitrary transform `c, s`, an arbitrary window
and an arbitrary scale factor over any linearly ordered field: homogeneity of degree two, invariance under a constant
offset, non-negativity; list helpers (`sum`, `mean`, `minL`, `maxL`).
-/
namespace Qats.Welch
set_option linter.unusedSectionVars false
variable {α : Type} [Field α] [LinearOrder α] [IsStrictOrderedRing α]

theorem sum_eq (l : List α) : sum l = l.sum := by
  induction l with
  | nil => rfl
  | cons a l ih => simp [sum, ih]

theorem sum_map_mul (a : α) (l : List α) : sum (l.map fun v => a * v) = a * sum l := by
  induction l with
  | nil => simp [sum]
  | cons b l ih => simp only [List.map_cons, sum, ih]; ring

theorem sum_map_add (c : α) (l : List α) : sum (l.map fun v => v + c) = sum l + (l.length : α) * c := by
  induction l with
  | nil => simp [sum]
  | cons b l ih => simp only [List.map_cons, sum, ih, List.length_cons]; push_cast; ring

theorem sum_nonneg (l : List α) (h : ∀ v ∈ l, 0 ≤ v) : 0 ≤ sum l := by
  induction l with
  | nil => simp [sum]
  | cons b l ih =>
    simp only [sum]
    exact add_nonneg (h b (by simp)) (ih fun v hv => h v (by simp [hv]))

theorem sum_pos (l : List α) (hne : l ≠ []) (h : ∀ v ∈ l, 0 < v) : 0 < sum l := by
  induction l with
  | nil => exact absurd rfl hne
  | cons b l ih =>
    simp only [sum]
    have hb : 0 < b := h b (by simp)
    have hl : 0 ≤ sum l := sum_nonneg l fun v hv => le_of_lt (h v (by simp [hv]))
    linarith

/-! ### scaling the signal by `a` -/

theorem mean_scale (a : α) (l : List α) : mean (l.map fun v => a * v) = a * mean l := by
  simp only [mean, sum_map_mul, List.length_map, mul_div_assoc]

theorem detrend_scale (a : α) (l : List α) : detrend (l.map fun v => a * v) = (detrend l).map fun v => a * v := by
  simp only [detrend, mean_scale, List.map_map]
  apply List.map_congr_left
  intro v _
  simp only [Function.comp]
  ring

theorem applyWin_scale (a : α) (w y : List α) :
    applyWin w (y.map fun v => a * v) = (applyWin w y).map fun v => a * v := by
  induction w generalizing y with
  | nil => simp [applyWin]
  | cons b w ih =>
    cases y with
    | nil => simp [applyWin]
    | cons v y =>
      have := ih y
      simp only [applyWin] at this ⊢
      simp only [List.map_cons, List.zipWith_cons_cons, this]
      congr 1
      ring

theorem dftAux_scale (c : Nat → α) (k j : Nat) (a : α) (y : List α) :
    dftAux c k j (y.map fun v => a * v) = a * dftAux c k j y := by
  induction y generalizing j with
  | nil => simp [dftAux]
  | cons v y ih => simp only [List.map_cons, dftAux, ih]; ring

theorem binPower_scale (c s : Nat → α) (nfft : Nat) (scale : α) (k : Nat) (a : α) (y : List α) :
    binPower c s nfft scale k (y.map fun v => a * v) = a * a * binPower c s nfft scale k y := by
  simp only [binPower, dftAux_scale]
  split_ifs <;> ring

theorem segments_map (f : α → α) (np hop cnt : Nat) (x : List α) :
    segments np hop cnt (x.map f) = (segments np hop cnt x).map (List.map f) := by
  simp [segments, List.map_drop, List.map_take]

theorem prepared_scale (w : List α) (nov : Nat) (a : α) (x : List α) :
    prepared w nov (x.map fun v => a * v) = (prepared w nov x).map (List.map fun v => a * v) := by
  simp only [prepared, segments_map, List.length_map, List.map_map]
  apply List.map_congr_left
  intro seg _
  simp only [Function.comp, detrend_scale, applyWin_scale]

theorem sum_map_congr_mul {β : Type} (l : List β) (f g : β → α) (k : α) (h : ∀ y, f y = k * g y) :
    sum (l.map f) = k * sum (l.map g) := by
  induction l with
  | nil => simp [sum]
  | cons b l ih => simp only [List.map_cons, sum, ih, h b]; ring

theorem welchCore_scale (c s : Nat → α) (w : List α) (nfft : Nat) (scale : α) (nov : Nat) (a : α) (x : List α) :
    welchCore c s w nfft scale nov (x.map fun v => a * v) =
      (welchCore c s w nfft scale nov x).map fun v => a * a * v := by
  simp only [welchCore, prepared_scale, List.map_map, List.length_map]
  apply List.map_congr_left
  intro k _
  have h := sum_map_congr_mul (prepared w nov x)
    ((fun y => binPower c s nfft scale k y) ∘ List.map fun v => a * v)
    (fun y => binPower c s nfft scale k y) (a * a) (fun y => binPower_scale c s nfft scale k a y)
  rw [h, mul_div_assoc]
  rfl

/-! ### adding a constant `d` to the signal -/

theorem mean_shift (d : α) (l : List α) (h : l ≠ []) : mean (l.map fun v => v + d) = mean l + d := by
  have hn : (l.length : α) ≠ 0 := by
    have : l.length ≠ 0 := fun h0 => h (List.length_eq_zero_iff.mp h0)
    exact_mod_cast this
  simp only [mean, sum_map_add, List.length_map]
  field_simp

theorem detrend_shift (d : α) (l : List α) : detrend (l.map fun v => v + d) = detrend l := by
  by_cases h : l = []
  · subst h; simp [detrend]
  · simp only [detrend, mean_shift d l h, List.map_map]
    apply List.map_congr_left
    intro v _
    simp only [Function.comp]
    ring

theorem prepared_shift (w : List α) (nov : Nat) (d : α) (x : List α) :
    prepared w nov (x.map fun v => v + d) = prepared w nov x := by
  simp only [prepared, segments_map, List.length_map, List.map_map]
  apply List.map_congr_left
  intro seg _
  simp only [Function.comp, detrend_shift]

theorem welchCore_shift (c s : Nat → α) (w : List α) (nfft : Nat) (scale : α) (nov : Nat) (d : α) (x : List α) :
    welchCore c s w nfft scale nov (x.map fun v => v + d) = welchCore c s w nfft scale nov x := by
  simp only [welchCore, prepared_shift]

/-! ### non-negativity, length -/

theorem binPower_nonneg (c s : Nat → α) (nfft : Nat) (scale : α) (hs : 0 ≤ scale) (k : Nat) (y : List α) :
    0 ≤ binPower c s nfft scale k y := by
  simp only [binPower]
  have h : 0 ≤ (dftAux c k 0 y * dftAux c k 0 y + dftAux s k 0 y * dftAux s k 0 y) * scale :=
    mul_nonneg (add_nonneg (mul_self_nonneg _) (mul_self_nonneg _)) hs
  split_ifs
  · exact h
  · exact add_nonneg h h

theorem welchCore_nonneg (c s : Nat → α) (w : List α) (nfft : Nat) (scale : α) (hs : 0 ≤ scale) (nov : Nat)
    (x : List α) : ∀ v ∈ welchCore c s w nfft scale nov x, 0 ≤ v := by
  intro v hv
  simp only [welchCore, List.mem_map] at hv
  obtain ⟨k, _, rfl⟩ := hv
  apply div_nonneg
  · apply sum_nonneg
    intro u hu
    simp only [List.mem_map] at hu
    obtain ⟨y, _, rfl⟩ := hu
    exact binPower_nonneg c s nfft scale hs k y
  · exact Nat.cast_nonneg _

theorem welchCore_length (c s : Nat → α) (w : List α) (nfft : Nat) (scale : α) (nov : Nat) (x : List α) :
    (welchCore c s w nfft scale nov x).length = nfft / 2 + 1 := by
  simp [welchCore]

theorem densityScale_nonneg (fs : α) (hfs : 0 ≤ fs) (w : List α) : 0 ≤ densityScale fs w := by
  simp only [densityScale]
  apply div_nonneg (by norm_num)
  apply mul_nonneg hfs
  apply sum_nonneg
  intro v hv
  simp only [List.mem_map] at hv
  obtain ⟨u, _, rfl⟩ := hv
  exact mul_self_nonneg u

/-! ### frequencies -/

theorem freqs_eq (dt : α) (nfft : Nat) :
    freqs ((1.0 : α) / dt) nfft = (List.range (nfft / 2 + 1)).map fun (k : Nat) => (k : α) / ((nfft : α) * dt) := by
  simp only [freqs]
  apply List.map_congr_left
  intro k _
  have h1 : (1.0 : α) = 1 := by norm_num
  rw [h1, one_div, one_div, one_div, inv_inv, div_eq_mul_inv]

/-! ### changing the scale factor / the time unit -/

theorem binPower_scaleFactor (c s : Nat → α) (nfft : Nat) (scale k0 : α) (k : Nat) (y : List α) :
    binPower c s nfft (k0 * scale) k y = k0 * binPower c s nfft scale k y := by
  simp only [binPower]
  split_ifs <;> ring

theorem welchCore_scaleFactor (c s : Nat → α) (w : List α) (nfft : Nat) (scale k0 : α) (nov : Nat) (x : List α) :
    welchCore c s w nfft (k0 * scale) nov x = (welchCore c s w nfft scale nov x).map fun v => k0 * v := by
  simp only [welchCore, List.map_map]
  apply List.map_congr_left
  intro k _
  have h := sum_map_congr_mul (prepared w nov x) (fun y => binPower c s nfft (k0 * scale) k y)
    (fun y => binPower c s nfft scale k y) k0 (fun y => binPower_scaleFactor c s nfft scale k0 k y)
  rw [h, mul_div_assoc]
  rfl

theorem densityScale_timeUnit (dt k0 : α) (w : List α) :
    densityScale ((1.0 : α) / (k0 * dt)) w = k0 * densityScale ((1.0 : α) / dt) w := by
  have h1 : (1.0 : α) = 1 := by norm_num
  simp only [densityScale, h1, one_div, mul_inv, inv_inv]
  ring

theorem freqs_timeUnit (dt k0 : α) (nfft : Nat) :
    freqs ((1.0 : α) / (k0 * dt)) nfft = (freqs ((1.0 : α) / dt) nfft).map fun v => v / k0 := by
  simp only [freqs_eq, List.map_map]
  apply List.map_congr_left
  intro k _
  simp only [Function.comp, div_eq_mul_inv, mul_inv]
  ring

/-! ### `minL`, `maxL` -/

theorem minL_le (a : α) (l : List α) : minL a l ≤ a ∧ ∀ v ∈ l, minL a l ≤ v := by
  induction l generalizing a with
  | nil => simp [minL]
  | cons b l ih =>
    simp only [minL]
    obtain ⟨h1, h2⟩ := ih (if b < a then b else a)
    by_cases hb : b < a
    · simp only [hb, if_true] at h1 h2 ⊢
      refine ⟨le_trans h1 (le_of_lt hb), ?_⟩
      intro v hv
      rcases List.mem_cons.mp hv with rfl | hv
      · exact h1
      · exact h2 v hv
    · simp only [hb, if_false] at h1 h2 ⊢
      refine ⟨h1, ?_⟩
      intro v hv
      rcases List.mem_cons.mp hv with rfl | hv
      · exact le_trans h1 (not_lt.mp hb)
      · exact h2 v hv

theorem le_maxL (a : α) (l : List α) : a ≤ maxL a l ∧ ∀ v ∈ l, v ≤ maxL a l := by
  induction l generalizing a with
  | nil => simp [maxL]
  | cons b l ih =>
    simp only [maxL]
    obtain ⟨h1, h2⟩ := ih (if a < b then b else a)
    by_cases hb : a < b
    · simp only [hb, if_true] at h1 h2 ⊢
      refine ⟨le_trans (le_of_lt hb) h1, ?_⟩
      intro v hv
      rcases List.mem_cons.mp hv with rfl | hv
      · exact h1
      · exact h2 v hv
    · simp only [hb, if_false] at h1 h2 ⊢
      refine ⟨h1, ?_⟩
      intro v hv
      rcases List.mem_cons.mp hv with rfl | hv
      · exact le_trans (not_lt.mp hb) h1
      · exact h2 v hv

theorem maxL_mem (a : α) (l : List α) : maxL a l ∈ a :: l := by
  induction l generalizing a with
  | nil => simp [maxL]
  | cons b l ih =>
    simp only [maxL]
    have := ih (if a < b then b else a)
    rcases List.mem_cons.mp this with h | h
    · rw [h]
      split_ifs <;> simp
    · simp [h]

theorem minL_mem (a : α) (l : List α) : minL a l ∈ a :: l := by
  induction l generalizing a with
  | nil => simp [minL]
  | cons b l ih =>
    simp only [minL]
    have := ih (if b < a then b else a)
    rcases List.mem_cons.mp this with h | h
    · rw [h]
      split_ifs <;> simp
    · simp [h]

theorem maxL_scale (k : α) (hk : 0 < k) (a : α) (l : List α) :
    maxL (k * a) (l.map fun v => k * v) = k * maxL a l := by
  induction l generalizing a with
  | nil => simp [maxL]
  | cons b l ih =>
    simp only [List.map_cons, maxL]
    rw [← ih]
    congr 1
    by_cases h : a < b
    · simp [h, mul_lt_mul_of_pos_left h hk]
    · have : ¬ k * a < k * b := fun h' => h (lt_of_mul_lt_mul_left h' (le_of_lt hk))
      simp [h, this]

end Qats.Welch
