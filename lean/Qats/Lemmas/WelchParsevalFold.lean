import Mathlib.Algebra.BigOperators.Intervals
import Mathlib.Tactic
/-!
One-sided folding of a spectrum that is symmetric about `N/2` (`Q (N − k) = Q k`, as for the power of the DFT of real
data): doubling every bin `0 … ⌊N/2⌋` except `k = 0` and (for even `N`) `k = N/2` gives the sum over all `N` bins.
Pure combinatorics of finite sums; no model is mentioned here.
-/
namespace Qats.Welch.Parseval
open Finset

/-- The bins that are not doubled: `k = 0` and, for even `N`, the Nyquist bin. -/
abbrev special (N k : ℕ) : Prop := k = 0 ∨ (N % 2 = 0 ∧ k = N / 2)

theorem filter_not_special (N : ℕ) (hN : 0 < N) :
    (range (N / 2 + 1)).filter (fun k => ¬ special N k) = Ico 1 (N - N / 2) := by
  ext k
  rw [mem_filter, mem_range, mem_Ico]
  omega

theorem sum_upper_half (N : ℕ) (hN : 0 < N) (Q : ℕ → ℝ) (hsym : ∀ k, 0 < k → k < N → Q (N - k) = Q k) :
    ∑ k ∈ Ico (N / 2 + 1) N, Q k = ∑ k ∈ Ico 1 (N - N / 2), Q k := by
  have h1 : ∑ k ∈ Ico (N / 2 + 1) N, Q k = ∑ k ∈ Ico (N / 2 + 1) N, Q (N - k) := by
    apply sum_congr rfl
    intro k hk
    rw [mem_Ico] at hk
    exact (hsym k (by omega) hk.2).symm
  rw [h1, sum_Ico_reflect Q (N / 2 + 1) (show N ≤ N + 1 by omega)]
  congr 1
  congr 1 <;> omega

/-- One-sided folding. -/
theorem fold_onesided (N : ℕ) (hN : 0 < N) (Q : ℕ → ℝ) (hsym : ∀ k, 0 < k → k < N → Q (N - k) = Q k) :
    ∑ k ∈ range (N / 2 + 1), (if special N k then Q k else Q k + Q k) = ∑ k ∈ range N, Q k := by
  have hterm : ∀ k, (if special N k then Q k else Q k + Q k) = Q k + (if ¬ special N k then Q k else 0) := by
    intro k
    by_cases h : special N k <;> simp [h]
  simp only [hterm]
  rw [sum_add_distrib, ← sum_filter, filter_not_special N hN, ← sum_upper_half N hN Q hsym]
  exact sum_range_add_sum_Ico Q (by omega)

end Qats.Welch.Parseval
