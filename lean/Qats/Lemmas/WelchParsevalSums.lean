import Qats.Model.WelchArea
import Qats.Lemmas.WelchCore
import Qats.Lemmas.RealOpsSimp
import Qats.Lemmas.WelchParsevalTrig
import Qats.Lemmas.WelchParsevalFold
/-!
Parseval's identity for the explicit DFT sums of the Welch model over ℝ (`TranscOps ℝ` = `Real.cos`, `Real.sin`,
`Real.pi`): the list recursions of `Qats/Model/Welch.lean` as finite sums, the power of a bin as a double sum of
`cos(2π k (i − j)/N)`, its symmetry `k ↦ N − k`, and the sum over all `N` bins.
-/
namespace Qats.Welch.Parseval
open Finset Qats Qats.Welch

/-! ### list recursions as finite sums -/

theorem sum_map_eq_finset (g : ℝ → ℝ) (a : List ℝ) :
    Welch.sum (a.map g) = ∑ i ∈ range a.length, g (a.getD i 0) := by
  induction a with
  | nil => simp [Welch.sum]
  | cons v vs ih =>
    rw [List.map_cons, Welch.sum, ih, List.length_cons, sum_range_succ']
    simp only [List.getD_cons_succ, List.getD_cons_zero]
    ring

theorem sum_range_map_eq_finset (g : ℕ → ℝ) (n : ℕ) :
    Welch.sum ((List.range n).map g) = ∑ k ∈ range n, g k := by
  induction n with
  | zero => simp [Welch.sum]
  | succ n ih =>
    rw [sum_eq] at ih ⊢
    rw [List.range_succ, List.map_append, List.sum_append, ih, sum_range_succ]
    simp

theorem dftAux_eq_finset (c : ℕ → ℝ) (k j0 : ℕ) (a : List ℝ) :
    dftAux c k j0 a = ∑ i ∈ range a.length, a.getD i 0 * c (k * (j0 + i)) := by
  induction a generalizing j0 with
  | nil => simp [dftAux]
  | cons v vs ih =>
    rw [dftAux, ih, List.length_cons, sum_range_succ']
    simp only [List.getD_cons_succ, List.getD_cons_zero, Nat.add_zero]
    rw [add_comm]
    congr 1
    apply sum_congr rfl
    intro i _
    rw [show j0 + 1 + i = j0 + (i + 1) by omega]

/-- Zero padding: the sum may run to any `N ≥ a.length`. -/
theorem sum_pad (a : List ℝ) (N : ℕ) (h : a.length ≤ N) (g : ℕ → ℝ) :
    ∑ i ∈ range a.length, a.getD i 0 * g i = ∑ i ∈ range N, a.getD i 0 * g i := by
  apply sum_subset (range_subset_range.2 h)
  intro i _ hi
  rw [mem_range, not_lt] at hi
  rw [List.getD_eq_default _ _ hi, zero_mul]

theorem sumSq_eq_finset (a : List ℝ) (N : ℕ) (h : a.length ≤ N) :
    sumSq a = ∑ i ∈ range N, a.getD i 0 * a.getD i 0 := by
  rw [sumSq, sum_map_eq_finset (fun v => v * v) a]
  exact sum_pad a N h fun i => a.getD i 0

/-! ### the twiddle factors over ℝ -/

theorem two_lit : (2.0 : ℝ) = 2 := by norm_num

theorem angle_split (N m : ℕ) (hN : 0 < N) :
    2 * Real.pi * (m : ℝ) / (N : ℝ) =
      2 * Real.pi * ((m % N : ℕ) : ℝ) / (N : ℝ) + ((m / N : ℕ) : ℝ) * (2 * Real.pi) := by
  have hN' : (N : ℝ) ≠ 0 := by exact_mod_cast hN.ne'
  have hm : (m : ℝ) = (N : ℝ) * ((m / N : ℕ) : ℝ) + ((m % N : ℕ) : ℝ) := by
    exact_mod_cast (Nat.div_add_mod m N).symm
  rw [hm]
  field_simp
  ring

theorem cosTw_real (N m : ℕ) (hN : 0 < N) :
    (cosTw N m : ℝ) = Real.cos (2 * Real.pi * (m : ℝ) / (N : ℝ)) := by
  rw [angle_split N m hN, Real.cos_add_nat_mul_two_pi]
  simp only [cosTw, twoPi, cos_real, pi_real, two_lit]

theorem sinTw_real (N m : ℕ) (hN : 0 < N) :
    (sinTw N m : ℝ) = Real.sin (2 * Real.pi * (m : ℝ) / (N : ℝ)) := by
  rw [angle_split N m hN, Real.sin_add_nat_mul_two_pi]
  simp only [sinTw, twoPi, sin_real, pi_real, two_lit]

/-! ### power of a bin as a double sum -/

/-- `G N f k = Σ_i Σ_j f_i f_j cos(2π k (i − j)/N)`. -/
noncomputable def G (N : ℕ) (f : ℕ → ℝ) (k : ℕ) : ℝ :=
  ∑ i ∈ range N, ∑ j ∈ range N, f i * f j * Real.cos (2 * Real.pi * (k : ℝ) * ((i : ℝ) - (j : ℝ)) / (N : ℝ))

theorem cos_diff (N k i j : ℕ) :
    Real.cos (2 * Real.pi * (k : ℝ) * ((i : ℝ) - (j : ℝ)) / (N : ℝ)) =
      Real.cos (2 * Real.pi * ((k * i : ℕ) : ℝ) / (N : ℝ)) * Real.cos (2 * Real.pi * ((k * j : ℕ) : ℝ) / (N : ℝ)) +
      Real.sin (2 * Real.pi * ((k * i : ℕ) : ℝ) / (N : ℝ)) * Real.sin (2 * Real.pi * ((k * j : ℕ) : ℝ) / (N : ℝ)) := by
  rw [← Real.cos_sub]
  congr 1
  push_cast
  ring

theorem power_eq_G (N : ℕ) (f : ℕ → ℝ) (k : ℕ) :
    (∑ i ∈ range N, f i * Real.cos (2 * Real.pi * ((k * i : ℕ) : ℝ) / (N : ℝ))) *
        (∑ i ∈ range N, f i * Real.cos (2 * Real.pi * ((k * i : ℕ) : ℝ) / (N : ℝ))) +
      (∑ i ∈ range N, f i * Real.sin (2 * Real.pi * ((k * i : ℕ) : ℝ) / (N : ℝ))) *
        (∑ i ∈ range N, f i * Real.sin (2 * Real.pi * ((k * i : ℕ) : ℝ) / (N : ℝ))) = G N f k := by
  rw [sum_mul_sum, sum_mul_sum, G, ← sum_add_distrib]
  apply sum_congr rfl
  intro i _
  rw [← sum_add_distrib]
  apply sum_congr rfl
  intro j _
  rw [cos_diff]
  ring

/-- The power of bin `k` of the model's DFT of the zero-padded list `a`. -/
theorem model_power_eq_G (N : ℕ) (hN : 0 < N) (a : List ℝ) (ha : a.length ≤ N) (k : ℕ) :
    dftAux (cosTw N) k 0 a * dftAux (cosTw N) k 0 a + dftAux (sinTw N) k 0 a * dftAux (sinTw N) k 0 a =
      G N (fun i => a.getD i 0) k := by
  rw [dftAux_eq_finset, dftAux_eq_finset, sum_pad a N ha, sum_pad a N ha, ← power_eq_G]
  simp only [Nat.zero_add, cosTw_real _ _ hN, sinTw_real _ _ hN]

/-! ### symmetry and the sum over all bins -/

theorem G_reflect (N : ℕ) (hN : 0 < N) (f : ℕ → ℝ) (k : ℕ) (hk : k ≤ N) : G N f (N - k) = G N f k := by
  unfold G
  apply sum_congr rfl
  intro i _
  apply sum_congr rfl
  intro j _
  have hc : ((i : ℝ) - (j : ℝ)) = (((i : ℤ) - (j : ℤ) : ℤ) : ℝ) := by push_cast; rfl
  rw [hc, cos_reflect N k hN hk]

/-- Parseval: `Σ_{k<N} |X_k|² = N · Σ f_i²`. -/
theorem sum_G (N : ℕ) (f : ℕ → ℝ) : ∑ k ∈ range N, G N f k = (N : ℝ) * ∑ i ∈ range N, f i * f i := by
  unfold G
  rw [sum_comm, mul_sum]
  apply sum_congr rfl
  intro i hi
  rw [sum_comm]
  have : ∀ j ∈ range N, ∑ k ∈ range N, f i * f j *
      Real.cos (2 * Real.pi * (k : ℝ) * ((i : ℝ) - (j : ℝ)) / (N : ℝ)) =
      if i = j then f i * f j * (N : ℝ) else 0 := by
    intro j hj
    rw [← mul_sum, sum_cos_index N i j (mem_range.1 hi) (mem_range.1 hj)]
    split_ifs <;> simp
  rw [sum_congr rfl this, sum_ite_eq (range N) i, if_pos hi]
  ring

end Qats.Welch.Parseval
