import Qats.Lemmas.BindingStep
/-!
Main lemmas behind the binding theorems of C08 (statements fixed by `Qats/Props/C08.lean`):
"a read returns the record the key was registered for".
-/
set_option linter.unusedVariables false
set_option linter.unusedSimpArgs false
namespace Qats.Binding
open Qats.Names Qats.Registry

theorem zip_range_map (m : Nat) (names : List Str) (f : Str → Str) :
    List.zip (List.range m) (names.map f) = (List.zip (List.range m) names).map fun jn => (jn.1, f jn.2) := by
  rw [List.zip_map_right]
  apply List.map_congr_left
  intro jn _
  rfl

/-! ### the invariant, one operation at a time -/

theorem inv_load {b : Bind} {s : State} (hI : Inv b s) (w : Which) (file : Str) (names : List Str) (indexed read : Bool)
    (hw : (names.map fun n => pathJoin file n).Nodup) (hn : loadOK (.load w file names indexed read) = true) :
    Inv (step b s (.load w file names indexed read)) (Registry.step s (.load w file names indexed read)).1 := by
  have hd := hI.coh w
  by_cases hany : ((names.map fun n => pathJoin file n).any fun k => hasKey (getDb s w).register k) = true
  · rw [step_load, bstep_load, if_pos hany, if_pos hany]
    exact hI
  · have hnew : ∀ k ∈ names.map (fun n => pathJoin file n), k ∉ (getDb s w).keys := by
      intro k hk
      rw [← hd.hasKey_register_false]
      simp only [List.any_eq_true, not_exists, not_and, Bool.not_eq_true] at hany
      exact hany k hk
    have hcf := coh_load_fold file indexed (getDb s w) hd (names.map fun n => pathJoin file n) names.length
      (by simp) hw hnew
    have hsnd : (List.zip (List.range names.length) names).map Prod.snd = names :=
      List.map_snd_zip (by simp)
    have hmapkeys : ((List.zip (List.range names.length) names).map fun jn => pathJoin file jn.2) =
        names.map fun n => pathJoin file n := by
      conv_rhs => rw [← hsnd]
      rw [List.map_map]
      rfl
    have hbf : Bound b.origins
        ((List.zip (List.range names.length) (names.map fun n => pathJoin file n)).foldl (loadStep file indexed)
          (getDb s w))
        ((List.zip (List.range names.length) names).foldl (recStep file) (getRec b w)) := by
      rw [zip_range_map]
      apply bound_load_fold file indexed b.origins _ _ _ (hI.bound w)
      · rw [hmapkeys]; exact hw
      · intro jn hjn
        apply hnew
        rw [← hmapkeys]
        exact List.mem_map_of_mem (f := fun jn => pathJoin file jn.2) hjn
      · intro hi
        have hn' : (nameAddressed file || indexed) = true := hn
        rw [hi] at hn'
        simpa using hn'
    have hd1 : getDb (Registry.step s (.load w file names indexed false)).1 w =
        (List.zip (List.range names.length) (names.map fun n => pathJoin file n)).foldl (loadStep file indexed)
          (getDb s w) := by
      rw [step_load, if_neg hany]
      simp [getDb_setDb]
    rw [step_load, bstep_load, hd1, if_neg hany, if_neg hany]
    cases read
    · simp only [Bool.false_eq_true, if_false]
      exact inv_set' hI w hcf.1 hbf
    · simp only [if_true]
      have post := readKeys_bound true (names.map fun n => pathJoin file n) _ s.next b.origins _
        (by intro k hk; rw [hcf.2]; exact List.mem_append_right _ hk) hI.fresh hbf
      exact inv_set hI w post.ext (coh_readKeys hcf.1 _ _ _
        (by intro k hk; rw [hcf.2]; exact List.mem_append_right _ hk)) post.fresh post.bound

theorem inv_add {b : Bind} {s : State} (hI : Inv b s) (w : Which) (name : Str) :
    Inv (step b s (.add w name)) (Registry.step s (.add w name)).1 := by
  have hd := hI.coh w
  rw [bstep_add, step_add]
  by_cases hk : hasKey (getDb s w).register (pathJoin (common (getDb s w).keys) name) = true
  · rw [if_pos hk, if_pos hk]; exact hI
  · rw [if_neg hk, if_neg hk]
    rw [Bool.not_eq_true, hd.hasKey_register_false] at hk
    refine inv_set hI w ⟨_, rfl⟩ (coh_addKey hd hk _ _ _) (hI.fresh.snoc _) ?_
    refine bound_addKey (bound_append _ (hI.bound w)) hk _ _ _ _ ⟨?_, ?_⟩
    · intro o ho
      have : lookup (setKey (getDb s w).register (pathJoin (common (getDb s w).keys) name) (some s.next))
          (pathJoin (common (getDb s w).keys) name) = some (some o) := ho
      rw [lookup_setKey_self] at this
      simp only [Option.some.injEq] at this
      subst this
      exact root_new (olookup_none_of_fresh hI.fresh (le_refl _)) (by intro p; simp)
    · intro hno
      have : lookup (setKey (getDb s w).register (pathJoin (common (getDb s w).keys) name) (some s.next))
          (pathJoin (common (getDb s w).keys) name) = some (some s.next) := lookup_setKey_self _ _ _
      exact absurd this (hno _)

theorem inv_rename {b : Bind} {s : State} (hI : Inv b s) (w : Which) (name newname : Str) :
    Inv (step b s (.rename w name newname)) (Registry.step s (.rename w name newname)).1 := by
  have hd := hI.coh w
  rw [bstep_rename, step_rename]
  rcases hl : listKeys (getDb s w).keys [name] with _ | ⟨old, _ | ⟨x, rest⟩⟩
  · exact hI
  · simp only
    by_cases hc : (getDb s w).keys.contains (pathJoin (pathDirname old) newname) = true
    · rw [if_pos hc, if_pos hc]; exact hI
    · rw [if_neg hc, if_neg hc]
      have ho : old ∈ (getDb s w).keys := by
        apply (listKeys_single_sublist (getDb s w).keys name).subset
        rw [hl]; exact List.mem_singleton_self _
      have hn : pathJoin (pathDirname old) newname ∉ (getDb s w).keys := by simpa using hc
      obtain ⟨rc, hrc, _⟩ := hI.bound w old ho
      rw [hrc]
      exact inv_set' hI w (coh_renKey hd ho hn)
        (bound_renKey hd (hI.bound w) ho hn rc hrc)
  · exact hI

theorem inv_clear {b : Bind} {s : State} (hI : Inv b s) (w : Which) (pattern : Option Str) :
    Inv (step b s (.clear w pattern)) (Registry.step s (.clear w pattern)).1 := by
  rw [bstep_clear, step_clear]
  exact inv_set' hI w (coh_foldl_drop _ _ (hI.coh w)) (bound_drop_fold _ _ _ (hI.coh w) (hI.bound w))

theorem inv_update {b : Bind} {s : State} (hI : Inv b s) (names : Option (List Str)) (deep : Bool) :
    Inv (step b s (.update names deep)) (Registry.step s (.update names deep)).1 := by
  have hcoh := coherent_step' s (.update names deep) trivial hI.cohA hI.cohB
  have post := readKeys_bound true (select s.b names) s.b s.next b.origins b.recB (select_subset s.b names) hI.fresh
    hI.boundB
  obtain ⟨e1, he1⟩ := post.ext
  rw [step_update] at hcoh ⊢
  rw [bstep_update]
  simp only at hcoh ⊢
  by_cases hany : ((readKeys s.b s.next (select s.b names) true).2.2.any fun kv => hasKey s.a.register kv.1) = true
  · rw [if_pos hany] at hcoh ⊢
    rw [if_pos hany]
    refine ⟨hcoh.1, hcoh.2, post.fresh, ?_, post.bound⟩
    show Bound (readBind true b.recB s.b s.next (select s.b names) b.origins) s.a b.recA
    rw [he1]
    exact bound_append e1 hI.boundA
  · rw [if_neg hany] at hcoh ⊢
    rw [if_neg hany]
    have hnew : ∀ kv ∈ (readKeys s.b s.next (select s.b names) true).2.2, kv.1 ∉ s.a.keys := by
      intro kv hkv
      have hA : Coh s.a := hI.cohA
      rw [← hA.hasKey_register_false]
      simp only [List.any_eq_true, not_exists, not_and, Bool.not_eq_true] at hany
      exact hany kv hkv
    have hnd : ((readKeys s.b s.next (select s.b names) true).2.2.map (·.1)).Nodup := by
      rw [readKeys_out_keys]; exact select_nodup _ _ hI.cohB.1
    obtain ⟨⟨e2, he2⟩, hf2, hb2, _⟩ := bound_cp_fold deep (readKeys s.b s.next (select s.b names) true).1 b.recB
      (readKeys s.b s.next (select s.b names) true).2.2 s.a (readKeys s.b s.next (select s.b names) true).2.1
      (readBind true b.recB s.b s.next (select s.b names) b.origins) b.recA post.fresh
      (by rw [he1]; exact bound_append e1 hI.boundA) hnd hnew post.outs
    refine ⟨hcoh.1, hcoh.2, hf2, hb2, ?_⟩
    show Bound (cpOs deep _ _ _) (readKeys s.b s.next (select s.b names) true).1 b.recB
    rw [he2]
    exact bound_append e2 post.bound

theorem inv_copy {b : Bind} {s : State} (hI : Inv b s) (names : Option (List Str)) (deep : Bool) :
    Inv (step b s (.copy names deep)) (Registry.step s (.copy names deep)).1 := by
  have hcoh := coherent_step' s (.copy names deep) trivial hI.cohA hI.cohB
  have post := readKeys_bound true (select s.a names) s.a s.next b.origins b.recA (select_subset s.a names) hI.fresh
    hI.boundA
  rw [step_copy] at hcoh ⊢
  rw [bstep_copy]
  simp only at hcoh ⊢
  have hnd : ((readKeys s.a s.next (select s.a names) true).2.2.map (·.1)).Nodup := by
    rw [readKeys_out_keys]; exact select_nodup _ _ hI.cohA.1
  obtain ⟨⟨e2, he2⟩, hf2, hb2, _⟩ := bound_cp_fold deep (readKeys s.a s.next (select s.a names) true).1 b.recA
    (readKeys s.a s.next (select s.a names) true).2.2 {} (readKeys s.a s.next (select s.a names) true).2.1
    (readBind true b.recA s.a s.next (select s.a names) b.origins) [] post.fresh (bound_empty _ _) hnd
    (fun _ _ => List.not_mem_nil) post.outs
  refine ⟨hcoh.1, hcoh.2, hf2, ?_, hb2⟩
  show Bound (cpOs deep _ _ _) (readKeys s.a s.next (select s.a names) true).1 b.recA
  rw [he2]
  exact bound_append e2 post.bound

theorem inv_read {b : Bind} {s : State} (hI : Inv b s) (w : Which) (ks : List Str) (store : Bool)
    (hks : ∀ k ∈ ks, k ∈ (getDb s w).keys) :
    Inv { b with origins := readBind store (getRec b w) (getDb s w) s.next ks b.origins }
      { setDb s w (readKeys (getDb s w) s.next ks store).1 with next := (readKeys (getDb s w) s.next ks store).2.1 } := by
  have post := readKeys_bound store ks (getDb s w) s.next b.origins (getRec b w) hks hI.fresh (hI.bound w)
  have := inv_set hI w post.ext (coh_readKeys (hI.coh w) _ _ _ hks) post.fresh post.bound
  have e : ({ setRec b w (getRec b w) with origins := readBind store (getRec b w) (getDb s w) s.next ks b.origins } : Bind) =
      { b with origins := readBind store (getRec b w) (getDb s w) s.next ks b.origins } := by cases w <;> rfl
  rwa [e] at this

theorem inv_getm {b : Bind} {s : State} (hI : Inv b s) (w : Which) (names : Option (List Str)) (store : Bool) :
    Inv (step b s (.getm w names store)) (Registry.step s (.getm w names store)).1 := by
  rw [bstep_getm, step_getm]
  exact inv_read hI w _ store (select_subset _ names)

theorem inv_getInd {b : Bind} {s : State} (hI : Inv b s) (w : Which) (ind : Nat) (store : Bool) :
    Inv (step b s (.getInd w ind store)) (Registry.step s (.getInd w ind store)).1 := by
  rw [bstep_getInd, step_getInd]
  rcases hk : (getDb s w).keys[ind]? with _ | k
  · exact hI
  · simp only
    apply inv_read hI w [k] store
    intro k' hk'
    rw [List.mem_singleton] at hk'
    subst hk'
    exact List.mem_of_getElem? hk

/-! ### (a) the invariant over operations and histories -/

/-- Every well-formed operation — load, rejected load, add, rename (of read or unread keys, of index- or name-addressed
files), clear, update, copy, retrieval — preserves the binding invariant.  (Before the repair of finding F17 the rename of a
not-yet-read series of a name-addressed file had to be excluded.) -/
theorem binding_step' (b : Bind) (s : State) (op : Op) (hI : Inv b s) (hw : WellFormed op)
    (hn : loadOK op = true) : Inv (step b s op) (Registry.step s op).1 := by
  cases op with
  | load w file names indexed read => exact inv_load hI w file names indexed read hw hn
  | add w name => exact inv_add hI w name
  | rename w name newname => exact inv_rename hI w name newname
  | clear w pattern => exact inv_clear hI w pattern
  | update names deep => exact inv_update hI names deep
  | copy names deep => exact inv_copy hI names deep
  | getm w names store => exact inv_getm hI w names store
  | getInd w ind store => exact inv_getInd hI w ind store

theorem run_cons (b : Bind) (s : State) (op : Op) (ops : List Op) :
    run b s (op :: ops) = ((run (step b s op) (Registry.step s op).1 ops).1,
      (run (step b s op) (Registry.step s op).1 ops).2.1,
      (Registry.step s op).2 :: (run (step b s op) (Registry.step s op).1 ops).2.2) := rfl

/-- The registry component of `Binding.run` is `Registry.run`. -/
theorem run_registry' (b : Bind) (s : State) (ops : List Op) :
    ((run b s ops).2.1, (run b s ops).2.2) = Registry.run s ops := by
  induction ops generalizing b s with
  | nil => rfl
  | cons op ops ih =>
    rw [run_cons]
    have := ih (step b s op) (Registry.step s op).1
    simp only [Registry.run]
    rw [← this]

theorem binding_run_from (ops : List Op) (b : Bind) (s : State) (hI : Inv b s)
    (hw : ∀ op ∈ ops, WellFormed op ∧ loadOK op = true) :
    Inv (run b s ops).1 (run b s ops).2.1 := by
  induction ops generalizing b s with
  | nil => exact hI
  | cons op ops ih =>
    rw [run_cons]
    exact ih _ _ (binding_step' b s op hI (hw op List.mem_cons_self).1 (hw op List.mem_cons_self).2)
      (fun o ho => hw o (List.mem_cons_of_mem _ ho))

theorem binding_init' : Inv {} {} := inv_init

/-- After every history of well-formed operations the invariant holds. -/
theorem binding_run' (ops : List Op) (hw : ∀ op ∈ ops, WellFormed op ∧ loadOK op = true) :
    Inv (run {} {} ops).1 (run {} {} ops).2.1 :=
  binding_run_from ops {} {} inv_init hw

/-- What the invariant says about a cached object: its root origin is the record registered for its key. -/
theorem inv_cached' {b : Bind} {s : State} (hI : Inv b s) (w : Which) (k : Str) (obj : Nat)
    (h : lookup (getDb s w).register k = some (some obj)) :
    ∃ rc, lookup (getRec b w) k = some rc ∧ root b.origins obj = some rc.origin := by
  have hk : k ∈ (getDb s w).keys := by
    rw [← (hI.coh w).2.1.mem_iff]
    exact List.mem_map_of_mem (f := Prod.fst) (mem_of_lookup h)
  obtain ⟨rc, h1, h2⟩ := hI.bound w k hk
  exact ⟨rc, h1, h2.1 obj h⟩

/-- … and about a key that is not cached: the next read constructs the series from the registered record. -/
theorem inv_unread' {b : Bind} {s : State} (hI : Inv b s) (w : Which) (k : Str) (hk : k ∈ (getDb s w).keys)
    (h : ∀ obj, lookup (getDb s w).register k ≠ some (some obj)) :
    ∃ rc, lookup (getRec b w) k = some rc ∧ readOrigin (getDb s w) (getRec b w) k = rc.origin := by
  obtain ⟨rc, h1, h2⟩ := hI.bound w k hk
  refine ⟨rc, h1, ?_⟩
  unfold readOrigin
  rw [h1]
  exact h2.2 h


/-! ### the histories of the former finding F17, now bound correctly (regression) -/

/-- Load a name-addressed file lazily, rename a series that was not read yet, read it. -/
def f17ops : List Op :=
  [Op.load .A "/d/f.h5".toList ["a".toList, "b".toList] false false, Op.rename .A "a".toList "c".toList,
   Op.getm .A (some ["c".toList]) true]

/-- … the same with two renamed series exchanging their names. -/
def f17swap : List Op :=
  [Op.load .A "/d/f.h5".toList ["a".toList, "b".toList] false false, Op.rename .A "a".toList "t".toList,
   Op.rename .A "b".toList "a".toList, Op.rename .A "t".toList "b".toList, Op.getm .A none true]

theorem f17ops_wf : ∀ op ∈ f17ops, WellFormed op ∧ loadOK op = true := by
  intro op hop
  simp only [f17ops, List.mem_cons, List.not_mem_nil, or_false] at hop
  rcases hop with rfl | rfl | rfl
  · exact ⟨by show (List.map _ _).Nodup; decide, by decide⟩
  · exact ⟨trivial, rfl⟩
  · exact ⟨trivial, rfl⟩

theorem f17swap_wf : ∀ op ∈ f17swap, WellFormed op ∧ loadOK op = true := by
  intro op hop
  simp only [f17swap, List.mem_cons, List.not_mem_nil, or_false] at hop
  rcases hop with rfl | rfl | rfl | rfl | rfl
  · exact ⟨by show (List.map _ _).Nodup; decide, by decide⟩
  · exact ⟨trivial, rfl⟩
  · exact ⟨trivial, rfl⟩
  · exact ⟨trivial, rfl⟩
  · exact ⟨trivial, rfl⟩

/-- Regression for F17 (kernel-evaluated): key `/d/f.h5/c` is registered for record 1 (`a`) of the file, and the series
read for it is the data set `a`. -/
theorem f17_history_bound' :
    (run {} {} f17ops).2.2 = [.done, .done, .series [("/d/f.h5/c".toList, 0)]] ∧
    lookup (run {} {} f17ops).1.recA "/d/f.h5/c".toList = some (.onFile "/d/f.h5".toList 1 "a".toList) ∧
    root (run {} {} f17ops).1.origins 0 = some (.named "/d/f.h5".toList "a".toList) ∧
    allBound (run {} {} f17ops).1 (run {} {} f17ops).2.1 = true := by
  decide +kernel

/-- Regression for the silent variant: after exchanging the names of two not-yet-read series, key `…/b` (registered for
record 1, `a`) returns the data set `a` and key `…/a` (registered for record 2) the data set `b`. -/
theorem f17_swap_history_bound' :
    (run {} {} f17swap).2.2 = [.done, .done, .done, .done,
      .series [("/d/f.h5/b".toList, 0), ("/d/f.h5/a".toList, 1)]] ∧
    lookup (run {} {} f17swap).1.recA "/d/f.h5/b".toList = some (.onFile "/d/f.h5".toList 1 "a".toList) ∧
    root (run {} {} f17swap).1.origins 0 = some (.named "/d/f.h5".toList "a".toList) ∧
    lookup (run {} {} f17swap).1.recA "/d/f.h5/a".toList = some (.onFile "/d/f.h5".toList 2 "b".toList) ∧
    root (run {} {} f17swap).1.origins 1 = some (.named "/d/f.h5".toList "b".toList) ∧
    allBound (run {} {} f17swap).1 (run {} {} f17swap).2.1 = true := by
  decide +kernel

/-! ### (b) what retrieval returns -/

theorem getm_returns_registered' (b : Bind) (s : State) (hI : Inv b s) (w : Which) (names : Option (List Str))
    (store : Bool) :
    ∃ l, (Registry.step s (.getm w names store)).2 = .series l ∧ l.map (·.1) = select (getDb s w) names ∧
      ∀ kv ∈ l, ∃ rc, lookup (getRec b w) kv.1 = some rc ∧
        root (step b s (.getm w names store)).origins kv.2 = some rc.origin := by
  rw [bstep_getm, step_getm]
  have post := readKeys_bound store (select (getDb s w) names) (getDb s w) s.next b.origins (getRec b w)
    (select_subset _ names) hI.fresh (hI.bound w)
  exact ⟨_, rfl, readKeys_out_keys _ _ _ _, post.outs⟩

theorem getInd_returns_registered' (b : Bind) (s : State) (hI : Inv b s) (w : Which) (ind : Nat) (store : Bool)
    (l : List (Str × Nat)) (h : (Registry.step s (.getInd w ind store)).2 = .series l) :
    ∃ k, (getDb s w).keys[ind]? = some k ∧ l.map (·.1) = [k] ∧
      ∀ kv ∈ l, ∃ rc, lookup (getRec b w) kv.1 = some rc ∧
        root (step b s (.getInd w ind store)).origins kv.2 = some rc.origin := by
  rw [step_getInd] at h
  rw [bstep_getInd]
  rcases hk : (getDb s w).keys[ind]? with _ | k
  · rw [hk] at h; simp at h
  · rw [hk] at h
    simp only [Out.series.injEq] at h
    subst h
    have hks : ∀ k' ∈ [k], k' ∈ (getDb s w).keys := by
      intro k' hk'
      rw [List.mem_singleton] at hk'
      subst hk'
      exact List.mem_of_getElem? hk
    have post := readKeys_bound store [k] (getDb s w) s.next b.origins (getRec b w) hks hI.fresh (hI.bound w)
    exact ⟨k, rfl, readKeys_out_keys _ _ _ _, post.outs⟩

/-! ### (c) rename -/

theorem rename_keeps_record' (b : Bind) (s : State) (hI : Inv b s) (w : Which) (name newname old : Str)
    (hl : listKeys (getDb s w).keys [name] = [old])
    (hnew : pathJoin (pathDirname old) newname ∉ (getDb s w).keys) :
    let newkey := pathJoin (pathDirname old) newname
    let b' := step b s (.rename w name newname)
    let s' := (Registry.step s (.rename w name newname)).1
    (Registry.step s (.rename w name newname)).2 = .done ∧
    lookup (getRec b' w) newkey = lookup (getRec b w) old ∧ (lookup (getRec b w) old).isSome ∧
    (∀ k, k ≠ old → k ≠ newkey → lookup (getRec b' w) k = lookup (getRec b w) k) ∧
    lookup (getDb s' w).register newkey = lookup (getDb s w).register old ∧
    (∀ k, k ≠ old → k ≠ newkey → lookup (getDb s' w).register k = lookup (getDb s w).register k) ∧
    b'.origins = b.origins := by
  intro newkey b' s'
  have hd := hI.coh w
  have ho : old ∈ (getDb s w).keys := by
    apply (listKeys_single_sublist (getDb s w).keys name).subset
    rw [hl]; exact List.mem_singleton_self _
  obtain ⟨rc, hrc, _⟩ := hI.bound w old ho
  have hc : ¬ (getDb s w).keys.contains newkey = true := by simpa using hnew
  have hb' : b' = setRec b w (setKey (erase (getRec b w) old) newkey rc) := by
    show step b s (.rename w name newname) = _
    rw [bstep_rename]
    simp only [hl]
    rw [if_neg hc, hrc]
  have hs' : Registry.step s (.rename w name newname) = (setDb s w (renKey (getDb s w) old newkey), .done) := by
    rw [step_rename]
    simp only [hl]
    rw [if_neg hc]
  have hgr : getRec (setRec b w (setKey (erase (getRec b w) old) newkey rc)) w =
      setKey (erase (getRec b w) old) newkey rc := by cases w <;> rfl
  have hreg : hasKey (getDb s w).register newkey = false := by
    rw [hasKey_false_iff, hd.2.1.mem_iff]; exact hnew
  refine ⟨by rw [hs'], ?_, by rw [hrc]; rfl, ?_, ?_, ?_, ?_⟩
  · rw [hb', hgr, lookup_setKey_self, hrc]
  · intro k h1 h2
    rw [hb', hgr, lookup_setKey_ne _ _ h2, lookup_erase_ne _ h1]
  · show lookup (getDb (Registry.step s (.rename w name newname)).1 w).register newkey = _
    rw [hs', getDb_setDb]
    exact lookup_mvKey_new _ hreg
  · intro k h1 h2
    show lookup (getDb (Registry.step s (.rename w name newname)).1 w).register k = _
    rw [hs', getDb_setDb]
    exact lookup_mvKey_ne _ h1 h2
  · rw [hb']; exact setRec_origins _ _ _

end Qats.Binding
