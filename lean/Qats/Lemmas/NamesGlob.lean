import Qats.Model.Names
import Mathlib.Tactic
/-!
Helper lemmas for `NamesMain`: shell-style matching (`glob`) of wildcard-free patterns, `suffixes`.
-/
namespace Qats.Names

theorem globToks_cons_lit (c : Char) (p : Str) (h1 : c ≠ '*') (h2 : c ≠ '?') :
    globToks (c :: p) = .lit c :: globToks p := by
  simp [globToks, h1, h2]

theorem glob_literal_aux (p : Str) (hp : ∀ c ∈ p, c ≠ '*' ∧ c ≠ '?') :
    ∀ k : Str, matchToks (globToks p) k = true ↔ k = p := by
  induction p with
  | nil => intro k; cases k <;> simp [globToks, matchToks]
  | cons c p ih =>
    intro k
    have hc := hp c (by simp)
    rw [globToks_cons_lit c p hc.1 hc.2]
    cases k with
    | nil => simp [matchToks]
    | cons d k =>
      simp only [matchToks, Bool.and_eq_true, beq_iff_eq, List.cons.injEq]
      rw [ih (fun c hc => hp c (by simp [hc]))]
      constructor
      · rintro ⟨rfl, rfl⟩; exact ⟨rfl, rfl⟩
      · rintro ⟨rfl, rfl⟩; exact ⟨rfl, rfl⟩

theorem mem_suffixes (k s : Str) : s ∈ suffixes k ↔ s <:+ k := by
  induction k with
  | nil => simp [suffixes]
  | cons c k ih =>
    simp only [suffixes, List.mem_cons, ih, List.suffix_cons_iff]

theorem glob_star_suffix_aux (r k : Str) (hr : ∀ c ∈ r, c ≠ '*' ∧ c ≠ '?') :
    glob ('*' :: '/' :: r) k = true ↔ ('/' :: r).isSuffixOf k = true := by
  have h : globToks ('*' :: '/' :: r) = .star :: globToks ('/' :: r) := by
    simp [globToks]
  rw [glob, h, List.isSuffixOf_iff_suffix]
  simp only [matchToks, List.any_eq_true]
  have hr' : ∀ c ∈ '/' :: r, c ≠ '*' ∧ c ≠ '?' := by
    intro c hc
    rcases List.mem_cons.1 hc with rfl | hc
    · decide
    · exact hr c hc
  constructor
  · rintro ⟨s, hs, hm⟩
    rw [glob_literal_aux _ hr'] at hm
    subst hm
    exact (mem_suffixes _ _).1 hs
  · intro hs
    exact ⟨_, (mem_suffixes _ _).2 hs, (glob_literal_aux _ hr' _).2 rfl⟩

/-- Filtering a duplicate-free list by a predicate true for exactly one member. -/
theorem filter_eq_singleton {α : Type} [DecidableEq α] (p : α → Bool) (k : α) :
    ∀ (l : List α), l.Nodup → k ∈ l → p k = true → (∀ x ∈ l, x ≠ k → p x = false) → l.filter p = [k] := by
  intro l
  induction l with
  | nil => intro _ hk; simp at hk
  | cons a l ih =>
    intro hn hk hpk hothers
    have hn' := List.nodup_cons.1 hn
    by_cases hak : a = k
    · subst hak
      rw [List.filter_cons_of_pos hpk]
      congr 1
      apply List.filter_eq_nil_iff.2
      intro x hx
      have : x ≠ a := fun e => hn'.1 (e ▸ hx)
      simp [hothers x (List.mem_cons_of_mem _ hx) this]
    · have hk' : k ∈ l := by
        rcases List.mem_cons.1 hk with e | h
        · exact absurd e.symm hak
        · exact h
      have hpa : p a = false := hothers a (by simp) hak
      rw [List.filter_cons_of_neg (by simp [hpa])]
      exact ih hn'.2 hk' hpk (fun x hx hne => hothers x (List.mem_cons_of_mem _ hx) hne)

end Qats.Names
