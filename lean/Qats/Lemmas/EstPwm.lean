import Qats.Lemmas.EstOps
import Qats.Lemmas.EstRank
import Qats.Lemmas.EstSums
/-!
Closed-form estimators over ℝ: probability weighted moments (Weibull 3- and 2-parameter, Gumbel) and method of
moments (Gumbel, GumbelMin, Weibull) — equivariance under `x ↦ a·x + b`, moment exactness, mirror symmetry.
All proofs go through the restated formulas of `EstOps.lean`.
-/
namespace Qats.Est
open Qats Qats.Dist Qats.Gen

theorem pwm_c_affine (a b M0 M1 M2 M3 : ℝ) (ha : a ≠ 0) :
    wb_pwm_c (a * M0 + b) (a * M1 + b / 2) (a * M2 + b / 3) (a * M3 + b / 4) = wb_pwm_c M0 M1 M2 M3 := by
  rw [wb_pwm_c_eq, wb_pwm_c_eq]
  have h1 : 2 * (a * M1 + b / 2) - (a * M0 + b) = a * (2 * M1 - M0) := by ring
  have h2 : 2 * (5 * (a * M1 + b / 2) - (a * M0 + b) - 6 * (a * M2 + b / 3) + 2 * (a * M3 + b / 4)) =
      a * (2 * (5 * M1 - M0 - 6 * M2 + 2 * M3)) := by ring
  rw [h1, h2, mul_div_mul_left _ _ ha]

theorem pwm_a_affine (a b M0 M1 M2 M3 : ℝ) (ha : a ≠ 0) (hden : M0 - 8 * M1 + 12 * M2 - 4 * M3 ≠ 0) :
    wb_pwm_a (a * M0 + b) (a * M1 + b / 2) (a * M2 + b / 3) (a * M3 + b / 4) =
      a * wb_pwm_a M0 M1 M2 M3 + b := by
  rw [wb_pwm_a_eq, wb_pwm_a_eq]
  have h : (a * M0 + b) - 8 * (a * M1 + b / 2) + 12 * (a * M2 + b / 3) - 4 * (a * M3 + b / 4) =
      a * (M0 - 8 * M1 + 12 * M2 - 4 * M3) := by ring
  rw [h, mul_div_assoc', div_add' _ _ _ hden, div_eq_div_iff (mul_ne_zero ha hden) hden]
  ring

theorem pwm_b_affine (a b A c M0 : ℝ) :
    wb_pwm_b (a * A + b) c (a * M0 + b) = a * wb_pwm_b A c M0 := by
  rw [wb_pwm_b_eq, wb_pwm_b_eq]
  ring

theorem weibullPwm_equivariant (xs : List ℝ) (a b : ℝ) (ha : 0 < a) (hn : 4 ≤ xs.length)
    (hden : mlj xs 0 - 8 * mlj xs 1 + 12 * mlj xs 2 - 4 * mlj xs 3 ≠ 0) :
    weibullPwm (xs.map fun x => a * x + b) =
      (a * (weibullPwm xs).1 + b, a * (weibullPwm xs).2.1, (weibullPwm xs).2.2) := by
  have h0 := mlj_affine xs a b 0 (by omega)
  have h1 := mlj_affine xs a b 1 (by omega)
  have h2 := mlj_affine xs a b 2 (by omega)
  have h3 := mlj_affine xs a b 3 (by omega)
  norm_num at h0 h1 h2 h3
  simp only [weibullPwm, h0, h1, h2, h3, pwm_c_affine a b _ _ _ _ ha.ne',
    pwm_a_affine a b _ _ _ _ ha.ne' hden, pwm_b_affine]

theorem pwm2_c_scale (a M0 M1 : ℝ) (ha : a ≠ 0) : wb_pwm2_c (a * M0) (a * M1) = wb_pwm2_c M0 M1 := by
  rw [wb_pwm2_c_eq, wb_pwm2_c_eq]
  rw [show 2 * (a * M0 - a * M1) = a * (2 * (M0 - M1)) by ring, mul_div_mul_left _ _ ha]

theorem pwm2_b_scale (a c M0 : ℝ) : wb_pwm2_b c (a * M0) = a * wb_pwm2_b c M0 := by
  rw [wb_pwm2_b_eq, wb_pwm2_b_eq]
  ring

theorem weibullPwm2_scale (xs : List ℝ) (a : ℝ) (ha : 0 < a) (hn : 2 ≤ xs.length) :
    weibullPwm2 (xs.map fun x => a * x + 0) = (a * (weibullPwm2 xs).1, (weibullPwm2 xs).2) := by
  have h0 := mlj_affine xs a 0 0 (by omega)
  have h1 := mlj_affine xs a 0 1 (by omega)
  simp only [zero_div, add_zero] at h0 h1
  simp only [weibullPwm2, add_zero] at h0 h1 ⊢
  simp only [h0, h1, pwm2_c_scale a _ _ ha.ne', pwm2_b_scale]

theorem gumbelPwm_equivariant (xs : List ℝ) (a b : ℝ) (hn : 2 ≤ xs.length) :
    gumbelPwm (xs.map fun x => a * x + b) = (a * (gumbelPwm xs).1 + b, a * (gumbelPwm xs).2) := by
  have h0 := mk_affine xs a b 0 (by omega)
  have h1 := mk_affine xs a b 1 (by omega)
  norm_num at h0 h1
  simp only [gumbelPwm, h0, h1, gu_pwm_b_eq, gu_pwm_a_eq, Prod.mk.injEq]
  constructor <;> ring

theorem gumbelMsm_equivariant (xs : List ℝ) (a b : ℝ) (ha : 0 < a) (hn : 2 ≤ xs.length) :
    gumbelMsm (xs.map fun x => a * x + b) = (a * (gumbelMsm xs).1 + b, a * (gumbelMsm xs).2) := by
  have hne : xs ≠ [] := by rintro rfl; simp at hn
  simp only [gumbelMsm, sdUnbiased_affine xs a b ha.le hne, mean_affine xs a b hne, gu_msm_b_eq, gu_msm_a_eq,
    Prod.mk.injEq]
  constructor <;> ring

theorem gumbelMsm_moments (xs : List ℝ) :
    gu_mean (gumbelMsm xs).1 (gumbelMsm xs).2 = mean xs ∧ gu_std (gumbelMsm xs).2 = sdUnbiased xs := by
  simp only [gumbelMsm, gu_msm_b_eq, gu_msm_a_eq, gu_mean_eq, gu_std_eq]
  have hpi := Real.pi_ne_zero
  have h6 : Real.sqrt 6 ≠ 0 := by positivity
  constructor
  · ring
  · field_simp

theorem min_mirror_msm (xs : List ℝ) :
    gumbelMinMsm xs = (-(gumbelMsm (xs.map fun x => -x)).1, (gumbelMsm (xs.map fun x => -x)).2) := by
  simp only [gumbelMinMsm, gumbelMsm, sdUnbiased_neg, mean_neg, gm_msm_b_eq, gm_msm_a_eq, gu_msm_b_eq,
    gu_msm_a_eq, Prod.mk.injEq]
  constructor
  · ring
  · trivial

theorem one_add_div_eq (c k : ℝ) (hc : c ≠ 0) : 1 + k / c = (c + k) / c := by
  field_simp

theorem weibullMsm_moments (a1 m2 c1 c : ℝ) (hc : 0 < c) (hm2 : 0 < m2)
    (hvar : 0 < Real.Gamma ((c + 2) / c) - Real.Gamma ((c + 1) / c) ^ 2)
    (hroot : wb_msm_eq c c1 = 0) :
    let g1 := wb_msm_g1 c
    let g2 := wb_msm_g2 c
    let b := wb_msm_b g1 g2 m2
    let a := wb_msm_a a1 b g1
    wb_mean a b c = a1 ∧ wb_std b c = Real.sqrt m2 ∧ wb_skew c = c1 := by
  intro g1 g2 b a
  simp only [a, b, g1, g2, wb_msm_g1_eq, wb_msm_g2_eq, wb_msm_b_eq, wb_msm_a_eq, wb_mean_eq, wb_std_eq,
    wb_skew_eq, one_add_div_eq c _ hc.ne']
  rw [wb_msm_eq_eq] at hroot
  generalize Real.Gamma ((c + 1) / c) = G1 at *
  generalize Real.Gamma ((c + 2) / c) = G2 at *
  generalize Real.Gamma ((c + 3) / c) = G3 at *
  refine ⟨by ring, ?_, by linarith⟩
  rw [← Real.sqrt_mul (div_pos hm2 hvar).le, div_mul_cancel₀ _ hvar.ne']

end Qats.Est
