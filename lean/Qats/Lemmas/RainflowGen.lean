import Qats.Lemmas.Rainflow
import Qats.Gen.Formulas
import Qats.Lemmas.RealOpsSimp
import Mathlib.Tactic.Ring
import Mathlib.Tactic.NormNum
/-!
The three-point rule of the hand-written stack machine (`Qats.Rainflow.reduce`, `leftovers`) against the expressions
regenerated from `rainflow.cycles` on every run (`Qats.Gen.rf_x`, `rf_y`, `rf_m`: the ranges X, Y and the mean of Y formed from
the three most recent points; `rf_left_range`, `rf_left_mean`: the half cycles counted from the remaining points).
-/
namespace Qats.Rainflow
open Qats Qats.Gen

/-- closes `model expression = regenerated expression` up to `|a - b| = |b - a|` and ring normalisation -/
macro "rf_norm" : tactic =>
  `(tactic| first
    | rfl
    | ((try simp only [abs'_eq_abs, abs_real]) <;>
       first
         | rfl
         | (norm_num1; first | done | ring1)
         | (ring_nf; done)
         | (rw [abs_sub_comm] <;> first | rfl | (ring_nf; done))))

theorem rf_x_eq (p1 p2 p3 : ℝ) : abs' (p2 - p1) = rf_x p1 p2 p3 := by
  unfold rf_x
  rf_norm
theorem rf_y_eq (p1 p2 p3 : ℝ) : abs' (p3 - p2) = rf_y p1 p2 p3 := by
  unfold rf_y
  rf_norm
theorem rf_m_eq (p1 p2 p3 : ℝ) : (0.5 : ℝ) * (p2 + p3) = rf_m p1 p2 p3 := by
  unfold rf_m
  rf_norm
theorem rf_left_range_eq (p1 p2 : ℝ) : abs' (p2 - p1) = rf_left_range p1 p2 := by
  unfold rf_left_range
  rf_norm
theorem rf_left_mean_eq (p1 p2 : ℝ) : (0.5 : ℝ) * (p1 + p2) = rf_left_mean p1 p2 := by
  unfold rf_left_mean
  rf_norm

/-- One step of the inner loop, written with the source's own expressions for X, Y and the mean. -/
theorem reduce_is_source' (p1 p2 p3 : ℝ) (rest : List ℝ) :
    reduce p1 (p2 :: p3 :: rest) =
      if rf_x p1 p2 p3 < rf_y p1 p2 p3 then ⟨[], [], p1 :: p2 :: p3 :: rest⟩
      else if rest.isEmpty then ⟨[], [⟨rf_y p1 p2 p3, rf_m p1 p2 p3⟩], [p1, p2]⟩
      else ⟨⟨rf_y p1 p2 p3, rf_m p1 p2 p3⟩ :: (reduce p1 rest).full, (reduce p1 rest).half, (reduce p1 rest).stack⟩ := by
  rw [reduce]
  simp only [rf_x_eq p1 p2 p3, rf_y_eq p1 p2 p3, rf_m_eq p1 p2 p3]

/-- The half cycles counted from the remaining points, written with the source's own expressions. -/
theorem leftovers_is_source' (p1 p2 : ℝ) (rest : List ℝ) :
    leftovers (p1 :: p2 :: rest) = ⟨rf_left_range p1 p2, rf_left_mean p1 p2⟩ :: leftovers (p2 :: rest) := by
  rw [leftovers]
  simp only [rf_left_range_eq p1 p2, rf_left_mean_eq p1 p2]

end Qats.Rainflow
