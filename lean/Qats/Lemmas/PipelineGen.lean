import Qats.Model.Pipeline
import Qats.Gen.Formulas
import Mathlib.Tactic.Ring
import Mathlib.Tactic.FieldSimp
import Mathlib.Tactic.NormNum
import Mathlib.Data.Real.Basic
/-!
The hand-written resampling grid of `Qats.Pipeline` against the expression regenerated from `qats/ts.py` on every run
(`Qats.Gen.grid_ratio`: the argument of `round` in the helper `new_timearray` of `TimeSeries.get`).
-/
namespace Qats.Pipeline
open Qats Qats.Gen

theorem grid_ratio_eq (t0 t1 d : ℝ) : (t1 - t0) / d = grid_ratio d t0 t1 := by
  first
    | rfl
    | (simp only [grid_ratio]; norm_num1; first | done | rfl | ring1)
    | (simp only [grid_ratio]; by_cases hd : d = 0 <;> [simp [hd]; (field_simp; first | done | ring1)])

/-- The grid `get(resample=d)` builds has `round(ratio) + 1` points from the first to the last retained sample, where `ratio`
is the expression written in the source. -/
theorem newTimearray_ratio_is_source' (rnd : ℝ → Int) (t0 t1 d : ℝ) :
    newTimearray rnd t0 t1 d = linspace t0 t1 ((rnd (grid_ratio d t0 t1)).toNat + 1) := by
  simp only [newTimearray, grid_ratio_eq]

end Qats.Pipeline
