import Qats.Model.Export
import Qats.Lemmas.Rainflow
import Qats.Lemmas.PipelineMain
import Qats.Lemmas.ExportCommon
import Mathlib.Tactic
/-!
Record-level round trips of the four export formats of the model (`Qats.Export`): key file and direct-access words,
ascii header and rows, pandas frame, SIMA h5 datasets.
-/
namespace Qats.Export
set_option linter.unusedSectionVars false
set_option linter.unusedVariables false
open Qats.Names (Str)

/-! ### text: lines and white-space splitting -/

theorem linesGo_line (cur l rest : Str) (hl : ∀ c ∈ l, c ≠ '\n') :
    linesGo cur (l ++ '\n' :: rest) = (cur ++ l) :: linesGo [] rest := by
  induction l generalizing cur with
  | nil => simp [linesGo]
  | cons c l ih =>
    have hc : c ≠ '\n' := hl c List.mem_cons_self
    simp only [List.cons_append, linesGo]
    rw [if_neg (by simpa using hc), ih (cur ++ [c]) (fun c' hc' => hl c' (List.mem_cons_of_mem _ hc'))]
    simp

theorem lines_flatMap (ls : List Str) (h : ∀ l ∈ ls, ∀ c ∈ l, c ≠ '\n') :
    lines (ls.flatMap fun l => l ++ ['\n']) = ls := by
  unfold lines
  induction ls with
  | nil => simp [linesGo]
  | cons l ls ih =>
    rw [List.flatMap_cons, List.append_assoc]
    have : ['\n'] ++ List.flatMap (fun l => l ++ ['\n']) ls = '\n' :: List.flatMap (fun l => l ++ ['\n']) ls := rfl
    rw [this, linesGo_line [] l _ (h l List.mem_cons_self), ih (fun l' hl' => h l' (List.mem_cons_of_mem _ hl'))]
    simp

/-- Names a key file can hold: one line, no surrounding blanks, not a comment line (`**`, `'`), not `END`. -/
def KeySafe (n : Str) : Prop :=
  (∀ c ∈ n, c ≠ '\n') ∧ strip n = n ∧ "**".toList.isPrefixOf n = false ∧ "'".toList.isPrefixOf n = false ∧
    (strip (upper n) == "END".toList) = false

theorem roundtrip_key' (names : List Str) (h : ∀ n ∈ names, KeySafe n) : decodeKey (encodeKey names) = names := by
  unfold decodeKey encodeKey
  rw [lines_flatMap]
  · have htime : (!("**".toList.isPrefixOf "time".toList) && !("'".toList.isPrefixOf "time".toList) &&
        !(strip (upper "time".toList) == "END".toList)) = true := by decide
    have hend : (!("**".toList.isPrefixOf "END".toList) && !("'".toList.isPrefixOf "END".toList) &&
        !(strip (upper "END".toList) == "END".toList)) = false := by decide
    rw [List.cons_append, List.filter_cons, if_pos htime, List.filter_append]
    have hmid : names.filter (fun l => !("**".toList.isPrefixOf l) && !("'".toList.isPrefixOf l) &&
        !(strip (upper l) == "END".toList)) = names := by
      rw [List.filter_eq_self]
      intro n hn
      obtain ⟨_, _, h3, h4, h5⟩ := h n hn
      show (!("**".toList.isPrefixOf n) && !("'".toList.isPrefixOf n) && !(strip (upper n) == "END".toList)) = true
      rw [h3, h4, h5]
      rfl
    have hlast : ["END".toList].filter (fun l => !("**".toList.isPrefixOf l) && !("'".toList.isPrefixOf l) &&
        !(strip (upper l) == "END".toList)) = [] := by
      rw [List.filter_cons, if_neg (by simpa using hend)]
      rfl
    rw [hmid, hlast, List.append_nil, List.map_cons, List.drop_succ_cons, List.drop_zero]
    conv_rhs => rw [← List.map_id names]
    apply List.map_congr_left
    intro n hn
    exact (h n hn).2.1
  · intro l hl
    rcases List.mem_cons.mp hl with rfl | hl
    · decide
    · rcases List.mem_append.mp hl with hl | hl
      · exact (h l hl).1
      · simp only [List.mem_cons, List.not_mem_nil, or_false] at hl
        subst hl
        decide

theorem splitWsGo_ws (ws rest : Str) (h : ∀ c ∈ ws, isWs c = true) : splitWsGo [] (ws ++ rest) = splitWsGo [] rest := by
  induction ws with
  | nil => rfl
  | cons c ws ih =>
    simp only [List.cons_append, splitWsGo, h c List.mem_cons_self, if_true, List.isEmpty_nil]
    exact ih (fun c' hc' => h c' (List.mem_cons_of_mem _ hc'))

theorem splitWsGo_token (cur k rest : Str) (h : ∀ c ∈ k, isWs c = false) :
    splitWsGo cur (k ++ rest) = splitWsGo (cur ++ k) rest := by
  induction k generalizing cur with
  | nil => simp
  | cons c k ih =>
    simp only [List.cons_append, splitWsGo, h c List.mem_cons_self, Bool.false_eq_true, if_false]
    rw [ih (cur ++ [c]) (fun c' hc' => h c' (List.mem_cons_of_mem _ hc'))]
    simp

/-- One padded header cell: blanks, a white-space-free non-empty key, a white-space delimiter. -/
theorem splitWsGo_cell (pad k delim rest : Str) (hp : ∀ c ∈ pad, isWs c = true) (hk : ∀ c ∈ k, isWs c = false)
    (hne : k ≠ []) (hd : ∀ c ∈ delim, isWs c = true) (hdne : delim ≠ []) :
    splitWsGo [] (pad ++ k ++ delim ++ rest) = k :: splitWsGo [] rest := by
  rw [List.append_assoc, List.append_assoc, splitWsGo_ws pad _ hp, splitWsGo_token [] k _ hk, List.nil_append]
  cases delim with
  | nil => exact absurd rfl hdne
  | cons c delim =>
    have hc := hd c List.mem_cons_self
    simp only [List.cons_append, splitWsGo, hc, if_true]
    have : k.isEmpty = false := by cases k <;> simp_all
    rw [this]
    simp only [Bool.false_eq_true, if_false]
    rw [splitWsGo_ws delim rest (fun c' hc' => hd c' (List.mem_cons_of_mem _ hc'))]

/-- Names a white-space delimited header can hold. -/
def DatSafe (n : Str) : Prop := n ≠ [] ∧ (∀ c ∈ n, isWs c = false) ∧ isTimeKey n = false

theorem pad15_ws (k : Str) : ∀ c ∈ List.replicate (15 - k.length) ' ', isWs c = true := by
  intro c hc
  rw [List.eq_of_mem_replicate hc]
  decide

theorem splitWs_header (delim : Str) (hd : ∀ c ∈ delim, isWs c = true) (hdne : delim ≠ []) (ks : List Str)
    (hk : ∀ k ∈ ks, k ≠ [] ∧ ∀ c ∈ k, isWs c = false) :
    splitWs (ks.flatMap fun k => pad15 k ++ delim) = ks := by
  unfold splitWs
  induction ks with
  | nil => simp [splitWsGo]
  | cons k ks ih =>
    rw [List.flatMap_cons]
    unfold pad15
    rw [splitWsGo_cell _ k delim _ (pad15_ws k) (hk k List.mem_cons_self).2 (hk k List.mem_cons_self).1 hd hdne]
    congr 1
    exact ih (fun k' hk' => hk k' (List.mem_cons_of_mem _ hk'))

theorem roundtrip_dat_header' (delim : Str) (hd : ∀ c ∈ delim, isWs c = true) (hdne : delim ≠ []) (names : List Str)
    (h : ∀ n ∈ names, DatSafe n) : decodeDatHeader (encodeDatHeader delim names) = .ok names := by
  unfold decodeDatHeader encodeDatHeader
  have htime : "time".toList ≠ [] ∧ ∀ c ∈ "time".toList, isWs c = false := by decide
  rw [splitWs_header delim hd hdne ("time".toList :: names) (by
    intro k hk
    rcases List.mem_cons.mp hk with rfl | hk
    · exact htime
    · exact ⟨(h k hk).1, (h k hk).2.1⟩)]
  have hf : (("time".toList :: names).filter isTimeKey) = ["time".toList] := by
    rw [List.filter_cons, if_pos (by decide)]
    congr 1
    rw [List.filter_eq_nil_iff]
    intro n hn
    simp [(h n hn).2.2]
  dsimp only
  rw [hf]
  rfl

/-! ### rows and columns -/

theorem roundtrip_rows' {α : Type} [OfNat α 0] (q : α → α) (cols : List (List α)) (n : Nat)
    (h : ∀ c ∈ cols, c.length = n) :
    decodeRows (encodeRows q cols n) cols.length = cols.map (·.map q) := by
  unfold decodeRows encodeRows
  apply List.ext_getElem
  · simp
  · intro j h1 h2
    simp only [List.length_map, List.length_range] at h1
    simp only [List.getElem_map, List.getElem_range, List.map_map]
    have hc : (cols[j]).length = n := h _ (List.getElem_mem h1)
    apply List.ext_getElem
    · simp [hc]
    · intro i hi1 hi2
      simp only [List.length_map, List.length_range] at hi1
      simp only [List.getElem_map, List.getElem_range, Function.comp]
      rw [List.getD_eq_getElem?_getD, List.getElem?_map, List.getElem?_eq_getElem h1]
      simp only [Option.map_some, Option.getD_some]
      rw [List.getD_eq_getElem?_getD, List.getElem?_eq_getElem (by rw [hc]; exact hi1)]
      simp

/-! ### direct-access words -/

theorem mapM_wordVal_map {α : Type} (q : α → α) (row : List α) :
    (row.map fun v => Word.val (q v)).mapM wordVal? = some (row.map q) := by
  induction row with
  | nil => rfl
  | cons v row ih =>
    rw [List.map_cons, List.mapM_cons, ih]
    rfl

theorem readRecords_rows {α : Type} (q : α → α) (n : Nat) (rows : List (List α)) (h : ∀ r ∈ rows, r.length = n)
    (tail : List (Word α)) :
    readRecords n rows.length ((rows.flatMap fun x => x.map fun v => Word.val (q v)) ++ tail) = some (rows.map (·.map q)) := by
  induction rows with
  | nil => rfl
  | cons r rows ih =>
    have hr : r.length = n := h r List.mem_cons_self
    rw [List.flatMap_cons, List.length_cons, readRecords, List.append_assoc]
    have htake : ((r.map fun v => Word.val (q v)) ++ ((rows.flatMap fun x => x.map fun v => Word.val (q v)) ++ tail)).take n =
        r.map fun v => Word.val (q v) := by
      rw [List.take_append_of_le_length (by simp [hr])]
      rw [List.take_of_length_le (by simp [hr])]
    have hdrop : ((r.map fun v => Word.val (q v)) ++ ((rows.flatMap fun x => x.map fun v => Word.val (q v)) ++ tail)).drop n =
        (rows.flatMap fun x => x.map fun v => Word.val (q v)) ++ tail := by
      rw [List.drop_append_of_le_length (by simp [hr])]
      rw [List.drop_of_length_le (by simp [hr])]
      rfl
    rw [htake, hdrop, mapM_wordVal_map, ih (fun r' hr' => h r' (List.mem_cons_of_mem _ hr'))]
    simp [hr]

theorem length_flatMap_const {β γ : Type} (f : β → List γ) (n : Nat) (l : List β) (h : ∀ a ∈ l, (f a).length = n) :
    (l.flatMap f).length = l.length * n := by
  induction l with
  | nil => simp
  | cons a l ih =>
    rw [List.flatMap_cons, List.length_append, h a List.mem_cons_self, ih (fun b hb => h b (List.mem_cons_of_mem _ hb)),
      List.length_cons]
    ring

/-- Direct-access words: with at least two samples per record the header record has exactly `ndat` words, and reading
back gives the time record and every series record (each value quantised once by the float32 storage). -/
theorem roundtrip_ts' {α : Type} (q : α → α) (t : List α) (xs : List (List α)) (h2 : 2 ≤ t.length)
    (h : ∀ x ∈ xs, x.length = t.length) :
    decodeTs (encodeTs q t xs) = some ((t :: xs).map (·.map q)) := by
  have hn0 : t.length ≠ 0 := by omega
  have hhead : encodeTs q t xs = Word.int (t.length : Int) ::
      ((Word.int ((xs.length : Int) + 2) :: List.replicate (t.length - 2) (Word.int 0)) ++
        (((t :: xs).flatMap fun x => x.map fun v => Word.val (q v)) ++ [])) := by
    unfold encodeTs
    simp [List.flatMap_cons]
  have hlen : (encodeTs q t xs).length = (xs.length + 2) * t.length := by
    unfold encodeTs
    simp only [List.length_append, List.length_cons, List.length_nil, List.length_replicate, List.length_map]
    rw [length_flatMap_const _ t.length xs (fun x hx => by simp [h x hx])]
    have : 0 + 1 + 1 + (t.length - 2) = t.length := by omega
    rw [this]
    ring
  unfold decodeTs
  rw [hhead]
  simp only [Int.toNat_natCast]
  rw [if_neg (by simpa using hn0), ← hhead, hlen]
  have hdiv : (xs.length + 2) * t.length / t.length - 2 + 1 = (t :: xs).length := by
    rw [Nat.mul_div_cancel _ (by omega)]
    simp
  rw [hdiv, hhead]
  have hdrop : (Word.int (t.length : Int) ::
      ((Word.int ((xs.length : Int) + 2) :: List.replicate (t.length - 2) (Word.int 0)) ++
        (((t :: xs).flatMap fun x => x.map fun v => Word.val (q v)) ++ []))).drop t.length =
      ((t :: xs).flatMap fun x => x.map fun v => Word.val (q v)) ++ [] := by
    have hl : (Word.int (t.length : Int) :: Word.int ((xs.length : Int) + 2) ::
        List.replicate (t.length - 2) (Word.int (0 : Int)) : List (Word α)).length = t.length := by
      simp only [List.length_cons, List.length_replicate]
      omega
    have hsplit : (Word.int (t.length : Int) ::
        ((Word.int ((xs.length : Int) + 2) :: List.replicate (t.length - 2) (Word.int 0)) ++
          (((t :: xs).flatMap fun x => x.map fun v => Word.val (q v)) ++ []))) =
        (Word.int (t.length : Int) :: Word.int ((xs.length : Int) + 2) :: List.replicate (t.length - 2) (Word.int 0)) ++
          (((t :: xs).flatMap fun x => x.map fun v => Word.val (q v)) ++ []) := rfl
    rw [hsplit, List.drop_left' hl]
  rw [hdrop]
  exact readRecords_rows q t.length (t :: xs) (by
    intro r hr
    rcases List.mem_cons.mp hr with rfl | hr
    · rfl
    · exact h r hr) []

/-! ### pandas frame -/

theorem roundtrip_pkl' {α : Type} (names : List Str) (t : List α) (xs : List (List α)) (hl : names.length = xs.length) :
    decodePkl (encodePkl names t xs) = .ok (names, t, xs) := by
  unfold decodePkl encodePkl
  have h1 : (names.zip xs).map (·.1) = names := by
    rw [List.map_fst_zip]; omega
  have h2 : (names.zip xs).map (·.2) = xs := by
    rw [List.map_snd_zip]; omega
  simp only [h1, h2]

/-! ### SIMA h5 -/

theorem replaceGo_absent (c : Char) (rep s : Str) (h : c ∉ s) : Qats.Names.replaceGo [c] rep 0 s = s := by
  induction s with
  | nil => rfl
  | cons x s ih =>
    have hx : c ≠ x := fun hcx => h (hcx ▸ List.mem_cons_self)
    have hs : c ∉ s := fun hm => h (List.mem_cons_of_mem _ hm)
    simp only [Qats.Names.replaceGo]
    have : ([c] : Str).isPrefixOf (x :: s) = false := by
      simp [List.isPrefixOf, hx]
    rw [this]
    simp [ih hs]

theorem replaceAll_absent (c : Char) (rep s : Str) (h : c ∉ s) : Qats.Names.replaceAll [c] rep s = s := by
  unfold Qats.Names.replaceAll
  simp [replaceGo_absent c rep s h]

variable {α : Type} [Field α] [LinearOrder α] [IsStrictOrderedRing α]

theorem find_unique {β : Type} (p : β → Bool) (l : List β) (a : β) (ha : a ∈ l) (hp : p a = true)
    (hu : ∀ b ∈ l, p b = true → b = a) : l.find? p = some a := by
  induction l with
  | nil => simp at ha
  | cons b l ih =>
    rw [List.find?_cons]
    cases hb : p b with
    | true => rw [hu b List.mem_cons_self hb]
    | false =>
      rcases List.mem_cons.mp ha with rfl | ha
      · rw [hp] at hb; cases hb
      · exact ih ha (fun c hc hpc => hu c (List.mem_cons_of_mem _ hc) hpc)

theorem linspace_uniform (t0 d : α) (n : Nat) (hn : 2 ≤ n) :
    Qats.Pipeline.linspace t0 (t0 + ((n - 1 : Nat) : α) * d) n = uniform t0 d n := by
  unfold Qats.Pipeline.linspace uniform
  rw [if_neg (by omega)]
  apply List.map_congr_left
  intro i _
  have hk : ((n - 1 : Nat) : α) ≠ 0 := Nat.cast_ne_zero.mpr (by omega)
  field_simp
  ring

/-- What an h5 file can hold: distinct names without `/` and `\`, uniformly sampled time arrays of at least two samples. -/
def H5Safe (items : List (Str × List α × List α)) : Prop :=
  (items.map (·.1)).Nodup ∧
    ∀ it ∈ items, '/' ∉ it.1 ∧ '\\' ∉ it.1 ∧ ∃ t0 d n, 2 ≤ n ∧ it.2.1 = uniform t0 d n ∧ it.2.2.length = n

theorem encodeH5_ok (items : List (Str × List α × List α)) (h : ∀ it ∈ items, ∃ t0 d n, 2 ≤ n ∧ it.2.1 = uniform t0 d n) :
    ∃ f, encodeH5 items = some f ∧
      List.Forall₂ (fun (it : Str × List α × List α) (ds : H5Set α) => ds.name = it.1 ∧ ds.data = it.2.2 ∧
        ∃ t0 d n, 2 ≤ n ∧ it.2.1 = uniform t0 d n ∧ ds.start = t0 ∧ ds.delta = d) items f := by
  induction items with
  | nil => exact ⟨[], rfl, .nil⟩
  | cons it items ih =>
    obtain ⟨f, hf, hall⟩ := ih (fun it' hit' => h it' (List.mem_cons_of_mem _ hit'))
    obtain ⟨t0, d, n, hn, ht⟩ := h it List.mem_cons_self
    obtain ⟨k, rfl⟩ : ∃ k, n = k + 2 := ⟨n - 2, by omega⟩
    have hform : it.2.1 = t0 :: (t0 + d) :: uniform (t0 + d + d) d k := by
      rw [ht, uniform_succ, uniform_succ]
    refine ⟨⟨it.1, t0, t0 + d - t0, it.2.2⟩ :: f, ?_, .cons ⟨rfl, rfl, t0, d, k + 2, hn, ht, rfl, by ring⟩ hall⟩
    unfold encodeH5 at hf ⊢
    rw [List.mapM_cons, hf]
    simp [hform]

theorem roundtrip_h5' (items : List (Str × List α × List α)) (h : H5Safe items) :
    ∃ f, encodeH5 items = some f ∧ (h5Names f).Perm (items.map (·.1)) ∧
      ∀ it ∈ items, h5Read f it.1 = some (it.2.1, it.2.2) := by
  obtain ⟨hnd, hs⟩ := h
  obtain ⟨f, hf, hall⟩ := encodeH5_ok items (fun it hit => by
    obtain ⟨_, _, t0, d, n, hn, ht, _⟩ := hs it hit
    exact ⟨t0, d, n, hn, ht⟩)
  have hnames : f.map (·.name) = items.map (·.1) := by
    clear hf hnd hs
    induction hall with
    | nil => rfl
    | cons hab _ ih => simp [hab.1, ih]
  refine ⟨f, hf, ?_, ?_⟩
  · unfold h5Names
    rw [hnames]
    have : (Qats.isort strLe (items.map (·.1))).map (fun n => Qats.Names.replaceAll ['/'] ['\\'] n) =
        Qats.isort strLe (items.map (·.1)) := by
      conv_rhs => rw [← List.map_id (Qats.isort strLe (items.map (·.1)))]
      apply List.map_congr_left
      intro n hn
      have hn' : n ∈ items.map (·.1) := (Qats.isort_perm _ _).mem_iff.mp hn
      obtain ⟨it, hit, rfl⟩ := List.mem_map.mp hn'
      exact replaceAll_absent '/' _ _ (hs it hit).1
    rw [this]
    exact Qats.isort_perm _ _
  · intro it hit
    obtain ⟨ds, hds, hname, hdata, t0, d, n, hn, ht, hstart, hdelta⟩ := forall₂_mem_left hall it hit
    obtain ⟨_, hbs, t0', d', n', hn', ht', hlen⟩ := hs it hit
    unfold h5Read
    rw [replaceAll_absent '\\' _ _ hbs]
    have hfind : f.find? (fun d => d.name == it.1) = some ds := by
      apply find_unique _ f ds hds (by simp [hname])
      intro b hb hpb
      have hbn : b.name = it.1 := by simpa using hpb
      -- names are distinct
      have hnd' : (f.map (·.name)).Nodup := by rw [hnames]; exact hnd
      exact List.inj_on_of_nodup_map hnd' hb hds (by rw [hbn, hname])
    rw [hfind]
    simp only [Option.some.injEq, Prod.mk.injEq]
    refine ⟨?_, hdata⟩
    rw [hdata, hlen, hstart, hdelta]
    -- the two descriptions of the same uniform array agree
    have hsame : uniform t0 d n = uniform t0' d' n' := by rw [← ht, ← ht']
    have hnn : n = n' := by
      have := congrArg List.length hsame
      simpa [uniform] using this
    subst hnn
    rw [ht, linspace_uniform t0 d n hn]

end Qats.Export
