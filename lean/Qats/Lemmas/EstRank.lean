import Qats.Model.Dist
import Qats.Lemmas.RealOps
import Mathlib.Tactic
import Mathlib.Data.Nat.Choose.Sum
import Mathlib.Algebra.BigOperators.Intervals
/-!
Order-statistics weights of the probability weighted moments: `rankSum` under `x ↦ a·x + b`, and the two
hockey-stick weight sums behind `mlj` and `mk`.
-/
namespace Qats.Est
open Qats Qats.Dist

theorem choose_eq (n k : Nat) : choose n k = Nat.choose n k := by
  induction k with
  | zero => simp [choose]
  | succ k ih =>
    rw [choose, ih, ← Nat.choose_succ_right_eq, Nat.mul_div_cancel _ (Nat.succ_pos k)]

/-- `rankSum` under an affine map: the linear part and `b` times the sum of the weights. -/
theorem rankSum_affine (w : Nat → ℝ) (a b : ℝ) (xs : List ℝ) (i : Nat) :
    rankSum w i (xs.map fun x => a * x + b) =
      a * rankSum w i xs + b * ∑ k ∈ Finset.range xs.length, w (i + k) := by
  induction xs generalizing i with
  | nil =>
    simp only [List.map_nil, rankSum, List.length_nil, Finset.range_zero, Finset.sum_empty]
    ring
  | cons x xs ih =>
    rw [List.map_cons, rankSum, rankSum, ih, List.length_cons, Finset.sum_range_succ']
    have h : ∑ k ∈ Finset.range xs.length, w (i + (k + 1)) =
        ∑ k ∈ Finset.range xs.length, w (i + 1 + k) :=
      Finset.sum_congr rfl fun k _ => by congr 1; omega
    rw [h, show i + 0 = i from rfl]
    ring

/-- Hockey stick, as used by `mlj`. -/
theorem sum_choose_shift (j m : Nat) :
    ∑ k ∈ Finset.range m, Nat.choose (j + k) j = Nat.choose (j + m) (j + 1) := by
  induction m with
  | zero => simp
  | succ m ih =>
    rw [Finset.sum_range_succ, ih, ← Nat.add_assoc, Nat.choose_succ_succ (j + m) j]
    ring

/-- Hockey stick, as used by `mk`. -/
theorem sum_choose_range (k n : Nat) :
    ∑ m ∈ Finset.range n, Nat.choose m k = Nat.choose n (k + 1) := by
  induction n with
  | zero => simp
  | succ n ih => rw [Finset.sum_range_succ, ih, Nat.choose_succ_succ n k]; ring

theorem sum_choose_reflect (k n : Nat) :
    ∑ i ∈ Finset.range n, Nat.choose (n - (1 + i)) k = Nat.choose n (k + 1) := by
  rw [← sum_choose_range k n, ← Finset.sum_range_reflect (fun m => Nat.choose m k) n]
  refine Finset.sum_congr rfl fun i _ => ?_
  congr 1
  omega

/-- `n·C(n−1, j) = (j+1)·C(n, j+1)` for `n ≥ 1`. -/
theorem mul_choose_pred (n j : Nat) (hn : 0 < n) :
    n * Nat.choose (n - 1) j = (j + 1) * Nat.choose n (j + 1) := by
  obtain ⟨m, rfl⟩ : ∃ m, n = m + 1 := ⟨n - 1, by omega⟩
  simp only [Nat.add_sub_cancel]
  rw [Nat.add_one_mul_choose_eq, Nat.mul_comm]

/-- The common final step: `(1/n)·(C(n, j+1)/C(n−1, j)) = 1/(j+1)` for `j < n`. -/
theorem weight_total (n j : Nat) (hj : j < n) :
    (1 / (n : ℝ)) * ((Nat.choose n (j + 1) : ℝ) / (Nat.choose (n - 1) j : ℝ)) = 1 / ((j : ℝ) + 1) := by
  have hn : (n : ℝ) ≠ 0 := by exact_mod_cast (by omega : n ≠ 0)
  have hc : ((Nat.choose (n - 1) j : Nat) : ℝ) ≠ 0 := by
    exact_mod_cast (Nat.choose_pos (by omega : j ≤ n - 1)).ne'
  have hj1 : (j : ℝ) + 1 ≠ 0 := by positivity
  have h := mul_choose_pred n j (by omega)
  have h' : (n : ℝ) * (Nat.choose (n - 1) j : ℝ) = ((j : ℝ) + 1) * (Nat.choose n (j + 1) : ℝ) := by
    exact_mod_cast h
  field_simp
  linarith

theorem mlj_eq (xs : List ℝ) (j : Nat) :
    mlj xs j =
      (1 / (xs.length : ℝ)) *
        rankSum (fun i => ((Nat.choose (i - 1) j : Nat) : ℝ) / ((Nat.choose (xs.length - 1) j : Nat) : ℝ))
          (j + 1) (xs.drop j) := by
  simp only [mlj, choose_eq]
  norm_num

theorem mk_eq (xs : List ℝ) (k : Nat) :
    mk xs k =
      (1 / (xs.length : ℝ)) *
        rankSum (fun i => ((Nat.choose (xs.length - i) k : Nat) : ℝ) / ((Nat.choose (xs.length - 1) k : Nat) : ℝ))
          1 xs := by
  simp only [mk, choose_eq]
  norm_num

theorem mlj_affine (xs : List ℝ) (a b : ℝ) (j : Nat) (hn : j < xs.length) :
    mlj (xs.map fun x => a * x + b) j = a * mlj xs j + b / (j + 1) := by
  rw [mlj_eq, mlj_eq, List.length_map, ← List.map_drop, rankSum_affine, List.length_drop]
  have hsum : ∑ k ∈ Finset.range (xs.length - j),
        ((Nat.choose (j + 1 + k - 1) j : Nat) : ℝ) / ((Nat.choose (xs.length - 1) j : Nat) : ℝ) =
      (Nat.choose xs.length (j + 1) : ℝ) / (Nat.choose (xs.length - 1) j : ℝ) := by
    rw [← Finset.sum_div]
    congr 1
    have h := sum_choose_shift j (xs.length - j)
    rw [show j + (xs.length - j) = xs.length by omega] at h
    rw [← h]
    push_cast
    refine Finset.sum_congr rfl fun k _ => ?_
    congr 2
    omega
  rw [hsum, mul_add, mul_left_comm _ b, weight_total _ _ hn]
  ring

theorem mk_affine (xs : List ℝ) (a b : ℝ) (k : Nat) (hn : k < xs.length) :
    mk (xs.map fun x => a * x + b) k = a * mk xs k + b / (k + 1) := by
  rw [mk_eq, mk_eq, List.length_map, rankSum_affine]
  have hsum : ∑ i ∈ Finset.range xs.length,
        ((Nat.choose (xs.length - (1 + i)) k : Nat) : ℝ) / ((Nat.choose (xs.length - 1) k : Nat) : ℝ) =
      (Nat.choose xs.length (k + 1) : ℝ) / (Nat.choose (xs.length - 1) k : ℝ) := by
    rw [← Finset.sum_div, ← sum_choose_reflect k xs.length]
    push_cast
    rfl
  rw [hsum, mul_add, mul_left_comm _ b, weight_total _ _ hn]
  ring

end Qats.Est
