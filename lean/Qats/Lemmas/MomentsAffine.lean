import Qats.Lemmas.MomentsBasic
/-!
Central moments, degenerate-sample flag, kurtosis, min / max and the mean-crossing period under `x ↦ a·x + b` and `x ↦ −x`
(any linearly ordered field).
-/
namespace Qats.Moments
open Qats Qats.Peaks
set_option linter.unusedSectionVars false
variable {α : Type} [Field α] [LinearOrder α] [IsStrictOrderedRing α]

theorem mean_map_scale (A : α) (g : α → α) (x : List α) (hx : x ≠ []) :
    mean (x.map fun v => A * g v) = A * mean (x.map g) := by
  have hne : x.map g ≠ [] := by simpa using hx
  calc mean (x.map fun v => A * g v) = mean ((x.map g).map fun u => A * u + 0) := by
        rw [List.map_map]; congr 1; apply List.map_congr_left; intro v _; simp only [Function.comp, add_zero]
    _ = A * mean (x.map g) + 0 := mean_affine A 0 (x.map g) hne
    _ = A * mean (x.map g) := add_zero _

theorem m2_affine (a b : α) (x : List α) (hx : x ≠ []) : m2 (x.map fun v => a * v + b) = a ^ 2 * m2 x := by
  unfold m2
  simp only
  rw [mean_affine a b x hx, List.map_map, ← mean_map_scale _ _ x hx]
  congr 1; apply List.map_congr_left; intro v _; simp only [Function.comp]; ring

theorem m3_affine (a b : α) (x : List α) (hx : x ≠ []) : m3 (x.map fun v => a * v + b) = a ^ 3 * m3 x := by
  unfold m3
  simp only
  rw [mean_affine a b x hx, List.map_map, ← mean_map_scale _ _ x hx]
  congr 1; apply List.map_congr_left; intro v _; simp only [Function.comp]; ring

theorem m4_affine (a b : α) (x : List α) (hx : x ≠ []) : m4 (x.map fun v => a * v + b) = a ^ 4 * m4 x := by
  unfold m4
  simp only
  rw [mean_affine a b x hx, List.map_map, ← mean_map_scale _ _ x hx]
  congr 1; apply List.map_congr_left; intro v _; simp only [Function.comp]; ring

theorem map_neg_eq (x : List α) : (x.map fun v => -v) = x.map fun v => (-1) * v + 0 := by
  apply List.map_congr_left; intro v _; ring

theorem mean_neg (x : List α) (hx : x ≠ []) : mean (x.map fun v => -v) = -mean x := by
  rw [map_neg_eq, mean_affine _ _ x hx]; ring
theorem m2_neg (x : List α) (hx : x ≠ []) : m2 (x.map fun v => -v) = m2 x := by
  rw [map_neg_eq, m2_affine _ _ x hx]; ring
theorem m3_neg (x : List α) (hx : x ≠ []) : m3 (x.map fun v => -v) = -m3 x := by
  rw [map_neg_eq, m3_affine _ _ x hx]; ring
theorem m4_neg (x : List α) (hx : x ≠ []) : m4 (x.map fun v => -v) = m4 x := by
  rw [map_neg_eq, m4_affine _ _ x hx]; ring

theorem mean_nonneg_of (l : List α) (h : ∀ v ∈ l, 0 ≤ v) : 0 ≤ mean l := by
  rw [mean_eq_sum]
  exact div_nonneg (List.sum_nonneg h) (Nat.cast_nonneg _)

theorem m2_nonneg (x : List α) : 0 ≤ m2 x := by
  unfold m2
  apply mean_nonneg_of
  intro v hv
  obtain ⟨w, _, rfl⟩ := List.mem_map.mp hv
  exact mul_self_nonneg _

/-! ### the degenerate-sample flag in exact arithmetic (`eps = 0`) -/

theorem isZero_zero (x : List α) : isZero 0 x = decide (m2 x ≤ 0) := by
  unfold isZero; simp only [zero_mul]

theorem isZero_zero_affine (a b : α) (ha : a ≠ 0) (x : List α) :
    isZero 0 (x.map fun v => a * v + b) = isZero 0 x := by
  cases x with
  | nil => rfl
  | cons x0 r =>
    rw [isZero_zero, isZero_zero, m2_affine a b _ (List.cons_ne_nil _ _)]
    have hp : 0 < a ^ 2 := by positivity
    apply decide_eq_decide.mpr
    constructor
    · intro h; by_contra hc; exact absurd (mul_pos hp (not_le.mp hc)) (not_lt.mpr h)
    · intro h; exact mul_nonpos_of_nonneg_of_nonpos hp.le h

theorem isZero_zero_neg (x : List α) : isZero 0 (x.map fun v => -v) = isZero 0 x := by
  rw [map_neg_eq]; exact isZero_zero_affine (-1) 0 (by norm_num) x

/-! ### kurtosis -/

theorem ratio4 (a p q : α) (ha : a ≠ 0) : a ^ 4 * q / (a ^ 2 * p * (a ^ 2 * p)) = q / (p * p) := by
  have h : a ^ 2 * a ^ 2 ≠ 0 := by positivity
  rw [show a ^ 4 * q = (a ^ 2 * a ^ 2) * q by ring, show a ^ 2 * p * (a ^ 2 * p) = (a ^ 2 * a ^ 2) * (p * p) by ring,
    mul_div_mul_left _ _ h]

/-- Kurtosis under `x ↦ a·x + b` for an arbitrary threshold factor `eps`, given that scipy's degenerate-sample test answers
the same for both signals. -/
theorem kurt_affine_of (eps a b : α) (ha : a ≠ 0) (x : List α)
    (hz : isZero eps (x.map fun v => a * v + b) = isZero eps x) :
    kurt eps (x.map fun v => a * v + b) = kurt eps x := by
  cases x with
  | nil => rfl
  | cons x0 r =>
    have hx : x0 :: r ≠ [] := List.cons_ne_nil _ _
    unfold kurt
    rw [hz, List.length_map, m4_affine a b _ hx, m2_affine a b _ hx]
    simp only [mul_div_assoc, ratio4 _ _ _ ha]

theorem kurt_affine (a b : α) (ha : a ≠ 0) (x : List α) : kurt 0 (x.map fun v => a * v + b) = kurt 0 x :=
  kurt_affine_of 0 a b ha x (isZero_zero_affine a b ha x)

theorem kurt_neg (x : List α) : kurt 0 (x.map fun v => -v) = kurt 0 x := by
  rw [map_neg_eq]; exact kurt_affine (-1) 0 (by norm_num) x

/-! ### variance -/

theorem tvar_affine (a b : α) (x : List α) : tvar (x.map fun v => a * v + b) = (tvar x).map fun v => a ^ 2 * v := by
  cases x with
  | nil => rfl
  | cons x0 r =>
    unfold tvar
    rw [List.length_map, m2_affine a b _ (List.cons_ne_nil _ _)]
    split_ifs
    · rfl
    · simp only [Option.map_some, mul_assoc]

theorem tvar_neg (x : List α) : tvar (x.map fun v => -v) = tvar x := by
  rw [map_neg_eq, tvar_affine]
  cases tvar x <;> simp

/-! ### min, max -/

theorem minL_affine (a b : α) (ha : 0 < a) (x0 : α) (r : List α) :
    minL (a * x0 + b) (r.map fun v => a * v + b) = a * minL x0 r + b := by
  apply minL_eq_of
  · rw [← List.map_cons (f := fun v => a * v + b)]
    exact List.mem_map_of_mem (minL_mem x0 r)
  · intro v hv
    rw [← List.map_cons (f := fun v => a * v + b)] at hv
    obtain ⟨w, hw, rfl⟩ := List.mem_map.mp hv
    exact (affine_le a b ha _ _).mpr (minL_le x0 r w hw)

theorem maxL_affine (a b : α) (ha : 0 < a) (x0 : α) (r : List α) :
    maxL (a * x0 + b) (r.map fun v => a * v + b) = a * maxL x0 r + b := by
  apply maxL_eq_of
  · rw [← List.map_cons (f := fun v => a * v + b)]
    exact List.mem_map_of_mem (maxL_mem x0 r)
  · intro v hv
    rw [← List.map_cons (f := fun v => a * v + b)] at hv
    obtain ⟨w, hw, rfl⟩ := List.mem_map.mp hv
    exact (affine_le a b ha _ _).mpr (le_maxL x0 r w hw)

theorem minL_neg (x0 : α) (r : List α) : minL (-x0) (r.map fun v => -v) = -maxL x0 r := by
  apply minL_eq_of
  · rw [← List.map_cons (f := fun v => -v)]
    exact List.mem_map_of_mem (maxL_mem x0 r)
  · intro v hv
    rw [← List.map_cons (f := fun v => -v)] at hv
    obtain ⟨w, hw, rfl⟩ := List.mem_map.mp hv
    exact neg_le_neg (le_maxL x0 r w hw)

theorem maxL_neg (x0 : α) (r : List α) : maxL (-x0) (r.map fun v => -v) = -minL x0 r := by
  apply maxL_eq_of
  · rw [← List.map_cons (f := fun v => -v)]
    exact List.mem_map_of_mem (minL_mem x0 r)
  · intro v hv
    rw [← List.map_cons (f := fun v => -v)] at hv
    obtain ⟨w, hw, rfl⟩ := List.mem_map.mp hv
    exact neg_le_neg (minL_le x0 r w hw)

/-! ### mean-level crossings -/

theorem crossIdx_affine (a b : α) (ha : 0 < a) (x : List α) (up : Bool) :
    crossIdx (x.map fun v => a * v + b) up = crossIdx x up := by
  cases x with
  | nil => rfl
  | cons x0 r =>
    have hc : ((x0 :: r).map fun v => a * v + b).map
          (fun v => if up then decide (0 < v - (a * mean (x0 :: r) + b)) else decide (v - (a * mean (x0 :: r) + b) < 0)) =
        (x0 :: r).map fun v => if up then decide (0 < v - mean (x0 :: r)) else decide (v - mean (x0 :: r) < 0) := by
      rw [List.map_map]
      apply List.map_congr_left
      intro v _
      have hd : a * v + b - (a * mean (x0 :: r) + b) = a * (v - mean (x0 :: r)) := by ring
      have h1 := mul_lt_mul_iff_right₀ ha (b := 0) (c := v - mean (x0 :: r))
      have h2 := mul_lt_mul_iff_right₀ ha (b := v - mean (x0 :: r)) (c := 0)
      rw [mul_zero] at h1 h2
      simp only [Function.comp, hd, h1, h2]
    unfold crossIdx
    simp only
    rw [mean_affine a b _ (List.cons_ne_nil _ _), hc]

theorem averageFrequency_affine (a b : α) (ha : 0 < a) (t x : List α) (up : Bool) :
    averageFrequency t (x.map fun v => a * v + b) up = averageFrequency t x up := by
  unfold averageFrequency
  rw [crossIdx_affine a b ha]

theorem tz_affine (a b : α) (ha : 0 < a) (t x : List α) : tz t (x.map fun v => a * v + b) = tz t x := by
  unfold tz
  rw [averageFrequency_affine a b ha]

end Qats.Moments
