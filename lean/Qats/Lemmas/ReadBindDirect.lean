import Mathlib.Tactic
import Qats.Model.Direct
/-!
Lemmas about the record-level model of the direct-access reader (`Qats.Direct`): the position table, the cursor
arithmetic of the read loop, and which record ends up in which output row.
-/
namespace Qats.Direct

variable {α : Type}

/-! ### the position table -/

theorem pos_some {ind : List Nat} {p0 i q : Nat} (h : pos ind p0 i = some q) :
    p0 ≤ q ∧ ind[q - p0]? = some i ∧ ∀ r, q - p0 < r → ind[r]? ≠ some i := by
  induction ind generalizing p0 q with
  | nil => simp [pos] at h
  | cons a rest ih =>
    simp only [pos] at h
    cases hr : pos rest (p0 + 1) i with
    | some q' =>
      rw [hr] at h
      simp only [Option.some.injEq] at h
      subst h
      obtain ⟨h1, h2, h3⟩ := ih hr
      have e : q' - p0 = (q' - (p0 + 1)) + 1 := by omega
      refine ⟨by omega, ?_, ?_⟩
      · rw [e, List.getElem?_cons_succ]; exact h2
      · intro r hr'
        cases r with
        | zero => omega
        | succ r =>
          rw [List.getElem?_cons_succ]
          exact h3 r (by omega)
    | none =>
      rw [hr] at h
      by_cases hai : a = i
      · subst hai
        simp only [beq_self_eq_true, if_true, Option.some.injEq] at h
        subst h
        refine ⟨le_refl _, by simp, ?_⟩
        intro r hr'
        cases r with
        | zero => omega
        | succ r =>
          rw [List.getElem?_cons_succ]
          intro hc
          -- `a` occurs in `rest`, so `pos rest` cannot be `none`
          have : ∀ (l : List Nat) (p : Nat) (r : Nat), l[r]? = some a → pos l p a ≠ none := by
            intro l
            induction l with
            | nil => intro p r h; simp at h
            | cons b l ihl =>
              intro p r h
              simp only [pos]
              cases hp : pos l (p + 1) a with
              | some _ => simp
              | none =>
                cases r with
                | zero =>
                  simp only [List.getElem?_cons_zero, Option.some.injEq] at h
                  simp [h]
                | succ r =>
                  rw [List.getElem?_cons_succ] at h
                  exact absurd hp (ihl _ _ h)
          exact this rest (p0 + 1) r hc hr
      · have : (a == i) = false := by simpa using hai
        simp [this] at h

theorem pos_isSome_of_mem {ind : List Nat} {i : Nat} (h : i ∈ ind) (p0 : Nat) : ∃ q, pos ind p0 i = some q := by
  induction ind generalizing p0 with
  | nil => simp at h
  | cons a rest ih =>
    simp only [pos]
    cases hr : pos rest (p0 + 1) i with
    | some q => exact ⟨q, rfl⟩
    | none =>
      rcases List.mem_cons.1 h with h | h
      · subst h; exact ⟨p0, by simp⟩
      · obtain ⟨q, hq⟩ := ih h (p0 + 1)
        rw [hq] at hr; cases hr

/-- If the table does not send record `ind[p]` to row `p`, the same record number is requested again further right. -/
theorem later_of_pos_ne {ind : List Nat} {p : Nat} (hp : p < ind.length) (h : pos ind 0 ind[p] ≠ some p) :
    ∃ q, p < q ∧ ∃ hq : q < ind.length, ind[q] = ind[p] := by
  obtain ⟨q, hq⟩ := pos_isSome_of_mem (List.getElem_mem hp) 0
  obtain ⟨_, h2, h3⟩ := pos_some hq
  simp only [Nat.sub_zero] at h2 h3
  have hql : q < ind.length := by
    by_contra hc
    rw [List.getElem?_eq_none (by omega)] at h2
    cases h2
  rw [List.getElem?_eq_getElem hql, Option.some.injEq] at h2
  have hne : q ≠ p := by
    rintro rfl
    exact h hq
  rcases Nat.lt_or_gt_of_ne hne with hlt | hgt
  · exact absurd (List.getElem?_eq_getElem hp) (h3 p hlt)
  · exact ⟨q, hgt, hql, h2⟩

/-! ### the read loop -/

theorem readAt_record (w : List α) (ndat i : Nat) : readAt w ((i + 1) * (4 * ndat)) (4 * ndat) = record w ndat i := by
  unfold readAt record
  have h1 : (i + 1) * (4 * ndat) / 4 = (i + 1) * ndat := by
    rw [show (i + 1) * (4 * ndat) = 4 * ((i + 1) * ndat) by ring]
    exact Nat.mul_div_cancel_left _ (by norm_num)
  have h2 : 4 * ndat / 4 = ndat := Nat.mul_div_cancel_left _ (by norm_num)
  rw [h1, h2]

theorem loop_fst (w : List α) (ndat : Nat) (ind : List Nat) (n i cur : Nat) (arr : List (List α)) :
    (loop w ndat ind n i cur arr).1 = cur + n * (4 * ndat) := by
  induction n generalizing i cur arr with
  | zero => simp [loop]
  | succ n ih =>
    simp only [loop]
    split <;> rw [ih] <;> ring

theorem loop_length (w : List α) (ndat : Nat) (ind : List Nat) (n i cur : Nat) (arr : List (List α)) :
    (loop w ndat ind n i cur arr).2.length = arr.length := by
  induction n generalizing i cur arr with
  | zero => simp [loop]
  | succ n ih =>
    simp only [loop]
    split
    · rw [ih]
      split <;> simp
    · rw [ih]

/-- Cursor arithmetic and placement: started before record `i` with the cursor at byte `(i+1)·4·ndat`, after `n`
iterations row `p` holds record `ind[p]` (read at byte `(ind[p]+1)·4·ndat`) iff that record number lies in `[i, i+n)` and
the position table sends it to `p`; all other rows are untouched. -/
theorem loop_row (w : List α) (ndat : Nat) (ind : List Nat) (n i : Nat) (arr : List (List α))
    (harr : arr.length = ind.length) (p : Nat) (hp : p < ind.length) :
    (loop w ndat ind n i ((i + 1) * (4 * ndat)) arr).2[p]? =
      if i ≤ ind[p] ∧ ind[p] < i + n ∧ pos ind 0 ind[p] = some p then some (record w ndat ind[p]) else arr[p]? := by
  induction n generalizing i arr with
  | zero =>
    simp only [loop]
    rw [if_neg]
    omega
  | succ n ih =>
    simp only [loop]
    have hcur : (i + 1) * (4 * ndat) + 4 * ndat = (i + 1 + 1) * (4 * ndat) := by ring
    by_cases hc : ind.contains i = true
    · rw [if_pos hc, hcur]
      have hmem : i ∈ ind := by simpa using hc
      obtain ⟨q, hq⟩ := pos_isSome_of_mem hmem 0
      obtain ⟨_, hq2, _⟩ := pos_some hq
      simp only [Nat.sub_zero] at hq2
      have hql : q < ind.length := by
        by_contra hcc
        rw [List.getElem?_eq_none (by omega)] at hq2
        cases hq2
      rw [List.getElem?_eq_getElem hql, Option.some.injEq] at hq2
      rw [hq]
      simp only
      rw [ih (i + 1) _ (by simpa using harr), readAt_record]
      by_cases hpi : ind[p] = i
      · by_cases hqp : q = p
        · subst hqp
          have c1 : ¬ (i + 1 ≤ ind[q] ∧ ind[q] < i + 1 + n ∧ pos ind 0 ind[q] = some q) := by omega
          have c2 : i ≤ ind[q] ∧ ind[q] < i + (n + 1) ∧ pos ind 0 ind[q] = some q := by
            refine ⟨by omega, by omega, ?_⟩
            rw [hpi]; exact hq
          rw [if_neg c1, if_pos c2, List.getElem?_set_self (by omega), hpi]
        · have c1 : ¬ (i + 1 ≤ ind[p] ∧ ind[p] < i + 1 + n ∧ pos ind 0 ind[p] = some p) := by omega
          have c2 : ¬ (i ≤ ind[p] ∧ ind[p] < i + (n + 1) ∧ pos ind 0 ind[p] = some p) := by
            rintro ⟨_, _, h3⟩
            rw [hpi, hq] at h3
            exact hqp (by simpa using h3)
          rw [if_neg c1, if_neg c2, List.getElem?_set_ne hqp]
      · have hqp : q ≠ p := by
          rintro rfl
          exact hpi hq2
        rw [List.getElem?_set_ne hqp]
        by_cases c : i ≤ ind[p] ∧ ind[p] < i + (n + 1) ∧ pos ind 0 ind[p] = some p
        · have c1 : i + 1 ≤ ind[p] ∧ ind[p] < i + 1 + n ∧ pos ind 0 ind[p] = some p := by
            obtain ⟨a, b, c⟩ := c
            exact ⟨by omega, by omega, c⟩
          rw [if_pos c, if_pos c1]
        · have c1 : ¬ (i + 1 ≤ ind[p] ∧ ind[p] < i + 1 + n ∧ pos ind 0 ind[p] = some p) := by
            rintro ⟨a, b, c'⟩
            exact c ⟨by omega, by omega, c'⟩
          rw [if_neg c, if_neg c1]
    · have hc' : ind.contains i = false := by simpa using hc
      rw [hc']
      simp only [Bool.false_eq_true, if_false]
      rw [hcur, ih (i + 1) arr harr]
      have hpi : ind[p] ≠ i := by
        intro h
        have : i ∈ ind := h ▸ List.getElem_mem hp
        simp [this] at hc'
      by_cases c : i ≤ ind[p] ∧ ind[p] < i + (n + 1) ∧ pos ind 0 ind[p] = some p
      · have c1 : i + 1 ≤ ind[p] ∧ ind[p] < i + 1 + n ∧ pos ind 0 ind[p] = some p := by
          obtain ⟨a, b, c⟩ := c
          exact ⟨by omega, by omega, c⟩
        rw [if_pos c, if_pos c1]
      · have c1 : ¬ (i + 1 ≤ ind[p] ∧ ind[p] < i + 1 + n ∧ pos ind 0 ind[p] = some p) := by
          rintro ⟨a, b, c'⟩
          exact c ⟨by omega, by omega, c'⟩
        rw [if_neg c, if_neg c1]

/-! ### the reader -/

/-- `_read_data` succeeds when every requested record exists; row `p` of the result is record `ind[p]` if `p` is the last
position at which that record number is requested, and a row of zeros otherwise. -/
theorem read_spec [OfNat α 0] (w : List α) (ndat : Nat) (ind : List Nat) (hind : ∀ i ∈ ind, i ≤ nts w ndat) :
    ∃ rows, read w ndat ind = some rows ∧ rows.length = ind.length ∧
      ∀ p (hp : p < ind.length), rows[p]? = some (if pos ind 0 ind[p] = some p then record w ndat ind[p]
        else List.replicate ndat 0) := by
  have hall : ind.all (· ≤ nts w ndat) = true := by simpa using hind
  refine ⟨(loop w ndat ind (nts w ndat + 1) 0 (4 * ndat) (List.replicate ind.length (List.replicate ndat 0))).2,
    by simp only [read, hall, if_true], ?_, ?_⟩
  · rw [loop_length]; simp
  · intro p hp
    have := loop_row w ndat ind (nts w ndat + 1) 0 (List.replicate ind.length (List.replicate ndat (0 : α)))
      (by simp) p hp
    simp only [Nat.zero_add, Nat.one_mul] at this
    rw [this]
    have hle := hind _ (List.getElem_mem hp)
    by_cases c : pos ind 0 ind[p] = some p
    · rw [if_pos ⟨Nat.zero_le _, by omega, c⟩, if_pos c]
    · rw [if_neg (fun h => c h.2.2), if_neg c]
      simp [hp]

/-- The reader ends with the cursor at the end of the last record. -/
theorem read_cursor (w : List α) (ndat : Nat) (ind : List Nat) (arr : List (List α)) :
    (loop w ndat ind (nts w ndat + 1) 0 (4 * ndat) arr).1 = (nts w ndat + 2) * (4 * ndat) := by
  rw [loop_fst]; ring

end Qats.Direct
