import Qats.Lemmas.StatsMain
import Mathlib.Tactic.Ring
import Mathlib.Tactic.FieldSimp
import Mathlib.Tactic.NormNum
/-!
The number of peaks in the statistics duration of `Qats.Stats.summary` against the expression regenerated from `qats/ts.py`
on every run (`Qats.Gen.stats_n_ratio`: the argument of `round` in `TimeSeries.stats`).
-/
namespace Qats.Stats
open Qats Qats.Gen Qats.Dist

theorem stats_n_ratio_eq (sd dur m : ℝ) : sd / dur * m = stats_n_ratio dur m sd := by
  first
    | rfl
    | (simp only [stats_n_ratio]; norm_num1; first | done | rfl | ring1)
    | (simp only [stats_n_ratio]; by_cases hd : dur = 0 <;> [simp [hd]; (field_simp; first | done | ring1)])

/-- `summary_chain` with the number of peaks written through the source's own expression. -/
theorem summary_chain_source' (rnd : ℝ → Int) (sd dur : ℝ) (qs x : List ℝ) (isMin : Bool) (s : Summary ℝ)
    (h : summary rnd sd dur qs isMin x = some s) :
    let n : ℝ := ((rnd (stats_n_ratio dur (s.sample.length : ℝ) sd) : Int) : ℝ)
    1 < n → 0 < s.wscale → 0 < s.wshape →
      s.gloc = wb_invcdf s.wloc (1 - 1 / n) s.wscale s.wshape ∧
      s.gscale = 1 / (n * wb_pdf s.wloc s.wscale s.wshape s.gloc) ∧
      s.pvalues = qs.map fun p => (if isMin then -1 else 1) * gu_invcdf s.gloc p s.gscale := by
  have := summary_chain' rnd sd dur qs x isMin s h
  simp only [stats_n_ratio_eq] at this
  exact this

end Qats.Stats
