import Mathlib.Tactic
import Qats.Model.ReadBind
import Qats.Lemmas.ReadBindMain
/-!
Proofs for property C01, operation level: `load`, `getm`-like and `get`-like operations keep the registry invariant and
return only stored series; hence every history does.
-/
namespace Qats.ReadBind
open Qats Qats.Names

variable {α : Type}

theorem regOk_empty (disk : List (File α)) : RegOk disk ({} : Db α) :=
  ⟨by simp [keysOf], by simp, by simp⟩

/-! ### load -/

theorem newEntries_mem (f : File α) : ∀ (j0 : Nat) (ns : List Str) (e : Entry α), e ∈ newEntries f j0 ns →
    ∃ i, ∃ h : i < ns.length,
      e = ⟨pathJoin f.path ns[i], f.path, if indexed f.format then some (j0 + i + 1) else none, none⟩
  | _, [], e, h => by simp [newEntries] at h
  | j0, n :: ns, e, h => by
    simp only [newEntries, List.mem_cons] at h
    rcases h with rfl | h
    · exact ⟨0, by simp, by simp⟩
    · obtain ⟨i, hi, rfl⟩ := newEntries_mem f (j0 + 1) ns e h
      refine ⟨i + 1, by simpa using hi, ?_⟩
      simp only [List.getElem_cons_succ]
      rw [show j0 + (i + 1) + 1 = j0 + 1 + i + 1 by omega]

theorem newEntries_keys (f : File α) : ∀ (j0 : Nat) (ns : List Str),
    (newEntries f j0 ns).map (·.key) = ns.map (pathJoin f.path)
  | _, [] => rfl
  | j0, n :: ns => by simp [newEntries, newEntries_keys f (j0 + 1) ns]

theorem pathJoin_inj (f : File α) (hf : FileOk f) {a b : Str} (ha : a ∈ f.names) (hb : b ∈ f.names)
    (h : pathJoin f.path a = pathJoin f.path b) : a = b := by
  rw [pathJoin_eq f hf a ha, pathJoin_eq f hf b hb] at h
  have := List.append_cancel_left h
  simpa using this

theorem load_regOk (disk : List (File α)) (hd : DiskOk disk) (db : Db α) (h0 : RegOk disk db) (f : File α)
    (hf : f ∈ disk) (hnew : (newEntries f 0 f.names).any (fun e => (keysOf db).contains e.key) = false) :
    RegOk disk ({ reg := db.reg ++ newEntries f 0 f.names } : Db α) := by
  have hfo := hd.files f hf
  have hfrom : ∀ e ∈ newEntries f 0 f.names, ∃ j, From f j e ∧ e.cache = none := by
    intro e he
    obtain ⟨i, hi, rfl⟩ := newEntries_mem f 0 f.names e he
    refine ⟨i, ⟨hi, rfl, ?_, ?_⟩, rfl⟩
    · simp [List.getD_eq_getElem?_getD, hi]
    · intro hidx
      simp [hidx]
  refine ⟨?_, ?_, ?_⟩
  · simp only [keysOf, List.map_append, newEntries_keys]
    rw [List.nodup_append]
    refine ⟨h0.nodup, ?_, ?_⟩
    · exact List.Nodup.map_on (fun a ha b hb h => pathJoin_inj f hfo ha hb h) hfo.nodup
    · intro a ha b hb hab
      subst hab
      rw [← newEntries_keys f 0 f.names] at hb
      obtain ⟨e, he, rfl⟩ := List.mem_map.1 hb
      have := List.any_eq_false.1 hnew e he
      simp only [List.contains_iff_mem, keysOf] at this
      exact this ha
  · intro e he
    rcases List.mem_append.1 he with he | he
    · exact h0.from_disk e he
    · obtain ⟨j, hj, _⟩ := hfrom e he
      exact ⟨f, hf, j, hj⟩
  · intro e he s hs
    rcases List.mem_append.1 he with he | he
    · exact h0.cache_ok e he s hs
    · obtain ⟨_, _, hc⟩ := hfrom e he
      rw [hc] at hs
      cases hs

theorem mem_newEntries (f : File α) : ∀ (j0 : Nat) (ns : List Str) (i : Nat) (h : i < ns.length),
    (⟨pathJoin f.path ns[i], f.path, if indexed f.format then some (j0 + i + 1) else none, none⟩ : Entry α) ∈
      newEntries f j0 ns
  | _, [], i, h => by simp at h
  | j0, n :: ns, 0, _ => by simp [newEntries]
  | j0, n :: ns, i + 1, h => by
    simp only [newEntries, List.getElem_cons_succ, List.mem_cons]
    right
    have := mem_newEntries f (j0 + 1) ns i (by simpa using h)
    rw [show j0 + (i + 1) + 1 = j0 + 1 + i + 1 by omega]
    exact this

/-! ### key selection -/

theorem listKeys_mem (keys names : List Str) : ∀ k ∈ listKeys keys names, k ∈ keys := by
  intro k hk
  simp only [listKeys, List.mem_flatMap, List.mem_filter] at hk
  obtain ⟨_, _, hk, _⟩ := hk
  exact hk

theorem mapM_getElem?_mem {β : Type} (l : List β) : ∀ (is : List Nat) (ks : List β),
    (is.mapM fun i => l[i]?) = some ks → ∀ k ∈ ks, k ∈ l
  | [], ks, h, k, hk => by
    simp at h
    subst h
    simp at hk
  | i :: is, ks, h, k, hk => by
    rw [List.mapM_cons] at h
    cases hi : l[i]? with
    | none => rw [hi] at h; simp at h
    | some a =>
      cases hr : (is.mapM fun i => l[i]?) with
      | none => rw [hi, hr] at h; simp at h
      | some r =>
        rw [hi, hr] at h
        simp only [Option.pure_def, Option.bind_eq_bind, Option.bind_some, Option.some.injEq] at h
        subst h
        rcases List.mem_cons.1 hk with rfl | hk
        · exact List.mem_of_getElem? hi
        · exact mapM_getElem?_mem l is r hr k hk

theorem selectKeys_mem (db : Db α) (sel : Sel) (ks : List Str) (h : selectKeys db sel = some ks) :
    ∀ k ∈ ks, k ∈ keysOf db := by
  cases sel with
  | names ns =>
    cases ns with
    | none =>
      simp only [selectKeys, Option.some.injEq] at h
      subst h
      exact fun _ hk => hk
    | some ns =>
      simp only [selectKeys, Option.some.injEq] at h
      subst h
      exact listKeys_mem _ _
  | inds is =>
    exact mapM_getElem?_mem _ is ks h

theorem resolve1_mem (db : Db α) (sel : Sel1) (k : Str) (hk : resolve1 db sel = .ok k) : k ∈ keysOf db := by
  cases sel with
  | name n =>
    simp only [resolve1] at hk
    unfold getKey at hk
    cases hl : listKeys (keysOf db) [n] with
    | nil => rw [hl] at hk; simp at hk
    | cons a r =>
      cases r with
      | nil =>
        rw [hl] at hk
        simp only [Except.ok.injEq] at hk
        subst hk
        have : a ∈ listKeys (keysOf db) [n] := by rw [hl]; simp
        exact listKeys_mem _ _ _ this
      | cons b r' => rw [hl] at hk; simp at hk
  | ind i =>
    simp only [resolve1] at hk
    cases hi : (keysOf db)[i]? with
    | none => rw [hi] at hk; simp at hk
    | some a =>
      rw [hi] at hk
      simp only [Except.ok.injEq] at hk
      subst hk
      exact List.mem_of_getElem? hi

/-! ### one operation -/

/-- Every pair returned is (a registered key, the series stored under it). -/
def OutOk (disk : List (File α)) (db : Db α) (o : Out α) : Prop :=
  ∀ l, o = .series l → ∀ ks ∈ l, ks.1 ∈ keysOf db ∧
    ∀ e ∈ db.reg, e.key = ks.1 → ∀ f ∈ disk, ∀ j, From f j e → ks.2 = stored f j

theorem step_correct' [OfNat α 0] (disk : List (File α)) (hd : DiskOk disk) (db : Db α) (h0 : RegOk disk db) (op : Op) :
    RegOk disk (step disk db op).1 ∧ OutOk disk db (step disk db op).2 ∧
      (∀ e ∈ db.reg, ∃ e' ∈ (step disk db op).1.reg, skel e' = skel e) := by
  have hsame : ∀ e ∈ db.reg, ∃ e' ∈ db.reg, skel e' = skel e := fun e he => ⟨e, he, rfl⟩
  have hnots : ∀ (o : Out α), (∀ l, o ≠ .series l) → OutOk disk db o := fun o h l hl => absurd hl (h l)
  have hread : ∀ ks : List Str, (∀ k ∈ ks, k ∈ keysOf db) → ∀ store,
      ∃ db' out, readKeys disk db ks store = some (db', out) ∧ ReadOk disk db ks store db' out ∧
        OutOk disk db (.series out) ∧ ∀ e ∈ db.reg, ∃ e' ∈ db'.reg, skel e' = skel e := by
    intro ks hks store
    obtain ⟨db', out, hr, hok⟩ := read_correct' disk hd db h0 ks hks store
    refine ⟨db', out, hr, hok, ?_, ?_⟩
    · intro l hl q hq
      simp only [Out.series.injEq] at hl
      subst hl
      refine ⟨?_, hok.stored q hq⟩
      have : q.1 ∈ out.map (·.1) := List.mem_map_of_mem hq
      rw [hok.keys, List.mem_eraseDups] at this
      exact hks _ this
    · intro e he
      exact mem_map_skel (db0 := db') (db := db) hok.skel.symm he
  cases op with
  | load path read =>
    simp only [step]
    cases hfind : disk.find? fun f => f.path == path with
    | none => exact ⟨h0, hnots _ (by simp), hsame⟩
    | some f =>
      simp only
      have hf : f ∈ disk := List.mem_of_find?_eq_some hfind
      by_cases hany : (newEntries f 0 f.names).any (fun e => (keysOf db).contains e.key) = true
      · rw [if_pos hany]
        exact ⟨h0, hnots _ (by simp), hsame⟩
      · rw [if_neg hany]
        have hany' : (newEntries f 0 f.names).any (fun e => (keysOf db).contains e.key) = false := by
          simpa using hany
        have h1 := load_regOk disk hd db h0 f hf hany'
        have hsub : ∀ e ∈ db.reg, ∃ e' ∈ (db.reg ++ newEntries f 0 f.names), skel e' = skel e :=
          fun e he => ⟨e, List.mem_append_left _ he, rfl⟩
        cases read with
        | false =>
          simp only [Bool.false_eq_true, if_false]
          exact ⟨h1, hnots _ (by simp), hsub⟩
        | true =>
          simp only [if_true]
          obtain ⟨db2, out, hr, hok⟩ := read_correct' disk hd _ h1 ((newEntries f 0 f.names).map (·.key))
            (by
              intro k hk
              simp only [keysOf, List.map_append, List.mem_append]
              exact Or.inr hk) true
          rw [hr]
          refine ⟨hok.reg, hnots _ (by simp), ?_⟩
          intro e he
          exact mem_map_skel (db0 := db2) hok.skel.symm (List.mem_append_left _ he)
  | getm sel store =>
    simp only [step]
    cases hsel : selectKeys db sel with
    | none => exact ⟨h0, hnots _ (by simp), hsame⟩
    | some ks =>
      simp only
      obtain ⟨db', out, hr, hok, hout, hsk⟩ := hread ks (selectKeys_mem db sel ks hsel) store
      rw [hr]
      exact ⟨hok.reg, hout, hsk⟩
  | get sel store =>
    simp only [step]
    cases hkk : resolve1 db sel with
    | error e => exact ⟨h0, hnots _ (by simp), hsame⟩
    | ok k =>
      have hk := resolve1_mem db sel k hkk
      simp only
      cases hc : (findEntry db k).bind (·.cache) with
      | some s =>
        simp only
        refine ⟨h0, ?_, hsame⟩
        intro l hl q hq
        simp only [Out.series.injEq] at hl
        subst hl
        simp only [List.mem_singleton] at hq
        subst hq
        refine ⟨hk, ?_⟩
        intro e he hek f hf j hj
        simp only at hek
        rw [← hek, findEntry_of_mem h0 he] at hc
        exact h0.cache_ok e he s (by simpa using hc) f hf j hj
      | none =>
        simp only
        obtain ⟨db', out, hr, hok, hout, hsk⟩ := hread [k] (by simpa using hk) store
        rw [hr]
        exact ⟨hok.reg, hout, hsk⟩

/-- A retrieval of registered keys never fails and returns exactly the selected keys, first occurrences in order. -/
theorem getm_returns' [OfNat α 0] (disk : List (File α)) (hd : DiskOk disk) (db : Db α) (h0 : RegOk disk db) (sel : Sel)
    (store : Bool) (ks : List Str) (hsel : selectKeys db sel = some ks) :
    ∃ l, (step disk db (.getm sel store)).2 = .series l ∧ l.map (·.1) = ks.eraseDups ∧
      (store = false → (step disk db (.getm sel store)).1 = db) := by
  obtain ⟨db', out, hr, hok⟩ := read_correct' disk hd db h0 ks (selectKeys_mem db sel ks hsel) store
  refine ⟨out, ?_, hok.keys, ?_⟩
  · simp only [step, hsel, hr]
  · intro hs
    simp only [step, hsel, hr]
    exact hok.nostore hs

/-! ### histories -/

/-- A key is registered for the `j`-th name of file `f`. -/
def Registered (db : Db α) (k : Str) (f : File α) (j : Nat) : Prop := ∃ e ∈ db.reg, e.key = k ∧ From f j e

theorem registered_mono [OfNat α 0] (disk : List (File α)) (hd : DiskOk disk) (db : Db α) (h0 : RegOk disk db) (op : Op)
    {k : Str} {f : File α} {j : Nat} (h : Registered db k f j) : Registered (step disk db op).1 k f j := by
  obtain ⟨e, he, hk, hj⟩ := h
  obtain ⟨e', he', hs⟩ := (step_correct' disk hd db h0 op).2.2 e he
  refine ⟨e', he', ?_, hj.congr hs⟩
  have := congrArg Prod.fst hs
  simp only [skel] at this
  rw [this, hk]

theorem regOk_run [OfNat α 0] (disk : List (File α)) (hd : DiskOk disk) : ∀ (ops : List Op) (db : Db α),
    RegOk disk db → RegOk disk (run disk db ops).1
  | [], _, h0 => h0
  | op :: ops, db, h0 => by
    simp only [run]
    exact regOk_run disk hd ops _ (step_correct' disk hd db h0 op).1

theorem registered_run [OfNat α 0] (disk : List (File α)) (hd : DiskOk disk) {k : Str} {f : File α} {j : Nat} :
    ∀ (ops : List Op) (db : Db α), RegOk disk db → Registered db k f j → Registered (run disk db ops).1 k f j
  | [], _, _, h => h
  | op :: ops, db, h0, h => by
    simp only [run]
    exact registered_run disk hd ops _ (step_correct' disk hd db h0 op).1 (registered_mono disk hd db h0 op h)

/-- Loading a file none of whose keys is registered yet registers every name of the file under `path/name` with its
record number; with `read=True` every series of the file is cached afterwards, and the cached series is the stored one. -/
theorem load_registers' [OfNat α 0] (disk : List (File α)) (hd : DiskOk disk) (db : Db α) (h0 : RegOk disk db) (f : File α)
    (hf : f ∈ disk) (hnew : ∀ n ∈ f.names, pathJoin f.path n ∉ keysOf db) (read : Bool) :
    (step disk db (.load f.path read)).2 = .done ∧
      ∀ j (hj : j < f.names.length),
        ∃ e ∈ (step disk db (.load f.path read)).1.reg, e.key = pathJoin f.path f.names[j] ∧ From f j e ∧
          (read = true → e.cache = some (stored f j)) := by
  have hfind : (disk.find? fun g => g.path == f.path) = some f := by
    cases h : disk.find? fun g => g.path == f.path with
    | none =>
      have := List.find?_eq_none.1 h f hf
      simp at this
    | some g =>
      have hg : g ∈ disk := List.mem_of_find?_eq_some h
      have hp : g.path = f.path := by simpa using List.find?_some h
      rw [hd.file_eq hg hf hp]
  have hany : (newEntries f 0 f.names).any (fun e => (keysOf db).contains e.key) = false := by
    rw [List.any_eq_false]
    intro e he
    have : e.key ∈ (newEntries f 0 f.names).map (·.key) := List.mem_map_of_mem he
    rw [newEntries_keys] at this
    obtain ⟨n, hn, hk⟩ := List.mem_map.1 this
    simp only [List.contains_iff_mem]
    rw [← hk]
    exact hnew n hn
  have h1 := load_regOk disk hd db h0 f hf hany
  have hent : ∀ j (hj : j < f.names.length),
      ∃ e ∈ newEntries (α := α) f 0 f.names, e.key = pathJoin f.path f.names[j] ∧ From f j e := by
    intro j hj
    refine ⟨_, mem_newEntries f 0 f.names j hj, rfl, ⟨hj, rfl, ?_, ?_⟩⟩
    · simp [List.getD_eq_getElem?_getD, hj]
    · intro hi
      simp [hi]
  cases read with
  | false =>
    simp only [step, hfind, hany, Bool.false_eq_true, if_false]
    refine ⟨trivial, ?_⟩
    intro j hj
    obtain ⟨e, he, hk, hfr⟩ := hent j hj
    exact ⟨e, List.mem_append_right _ he, hk, hfr, fun h => by cases h⟩
  | true =>
    obtain ⟨db2, out, hr, hok⟩ := read_correct' disk hd _ h1 ((newEntries f 0 f.names).map (·.key))
      (by
        intro k hk
        simp only [keysOf, List.map_append, List.mem_append]
        exact Or.inr hk) true
    simp only [step, hfind, hany, Bool.false_eq_true, if_false, if_true, hr]
    refine ⟨trivial, ?_⟩
    intro j hj
    obtain ⟨e, he, hk, hfr⟩ := hent j hj
    obtain ⟨e', he', hk', hsome⟩ := hok.stores rfl e.key (List.mem_map_of_mem he)
    -- e' has the skeleton of e
    obtain ⟨e1, he1, hs1⟩ := mem_map_skel (db0 := ({ reg := db.reg ++ newEntries f 0 f.names } : Db α)) hok.skel he'
    have hk1 : e1.key = e.key := by
      have := congrArg Prod.fst hs1
      simp only [skel] at this
      rw [this, hk']
    have : e1 = e := h1.entry_eq he1 (List.mem_append_right _ he) hk1
    subst this
    have hfr' : From f j e' := hfr.congr hs1.symm
    refine ⟨e', he', hk'.trans hk, hfr', fun _ => ?_⟩
    obtain ⟨s, hs⟩ := Option.isSome_iff_exists.1 hsome
    rw [hs, hok.reg.cache_ok e' he' s hs f hf j hfr']

/-- Over any history, starting from any database satisfying the invariant: the invariant holds at the end and every
series any operation returned is the one stored under its key on the file the key was registered from. -/
theorem run_correct' [OfNat α 0] (disk : List (File α)) (hd : DiskOk disk) : ∀ (ops : List Op) (db : Db α),
    RegOk disk db → RegOk disk (run disk db ops).1 ∧
      ∀ o ∈ (run disk db ops).2, ∀ l, o = .series l → ∀ ks ∈ l,
        ∃ f ∈ disk, ∃ j, Registered (run disk db ops).1 ks.1 f j ∧ ks.2 = stored f j
  | [], db, h0 => ⟨h0, by simp [run]⟩
  | op :: ops, db, h0 => by
    obtain ⟨h1, hout, _⟩ := step_correct' disk hd db h0 op
    obtain ⟨h2, hrest⟩ := run_correct' disk hd ops (step disk db op).1 h1
    refine ⟨h2, ?_⟩
    intro o ho l hl q hq
    simp only [run, List.mem_cons] at ho
    rcases ho with rfl | ho
    · obtain ⟨hkmem, hst⟩ := hout l hl q hq
      obtain ⟨e, he, hek⟩ := List.mem_map.1 hkmem
      obtain ⟨f, hf, j, hj⟩ := h0.from_disk e he
      refine ⟨f, hf, j, ?_, hst e he hek f hf j hj⟩
      -- registration survives the rest of the history
      simp only [run]
      exact registered_run disk hd ops _ h1 (registered_mono disk hd db h0 op ⟨e, he, hek, hj⟩)
    · exact hrest o ho l hl q hq

/-! ### example disk for the non-vacuity examples of `Props/C01.lean` -/

/-- A direct-access file with three series and a csv file with two. -/
def exDisk : List (File Nat) :=
  [{ path := "/d/f.ts".toList, format := .ts, names := ["b".toList, "a".toList, "c".toList], time := [0, 1],
     cols := [[10, 11], [20, 21], [30, 31]] },
   { path := "/d/g.csv".toList, format := .csv, names := ["y".toList, "x".toList], time := [5, 6],
     cols := [[70, 71], [80, 81]] }]

end Qats.ReadBind
