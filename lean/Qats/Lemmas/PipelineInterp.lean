import Qats.Model.Pipeline
import Mathlib.Tactic
/-!
Helper lemmas for `PipelineMain`: piecewise-linear interpolation `interp` on a strictly increasing node list.
-/
namespace Qats.Pipeline
set_option linter.unusedSectionVars false
variable {α : Type} [Field α] [LinearOrder α] [IsStrictOrderedRing α]

theorem interp_cons2 (a c : α) (ts : List α) (b e : α) (xs : List α) (q : α) :
    interp (a :: c :: ts) (b :: e :: xs) q =
      if q < a then none else if q ≤ c then some (b + (e - b) / (c - a) * (q - a))
      else interp (c :: ts) (e :: xs) q := by
  rw [interp]

theorem interp_single (a b q : α) : interp [a] [b] q = if ¬ (q < a) ∧ ¬ (a < q) then some b else none := by
  rw [interp]

/-- Value at the first node. -/
theorem interp_head (a : α) (ts : List α) (b : α) (xs : List α) (hl : ts.length = xs.length)
    (ht : (a :: ts).Pairwise (· < ·)) : interp (a :: ts) (b :: xs) a = some b := by
  cases ts with
  | nil =>
    cases xs with
    | nil => simp [interp_single]
    | cons _ _ => simp at hl
  | cons c ts =>
    cases xs with
    | nil => simp at hl
    | cons e xs =>
      have hac : a < c := by
        have := List.rel_of_pairwise_cons ht (List.mem_cons_self)
        exact this
      rw [interp_cons2]
      simp [le_of_lt hac]

theorem interp_seg (t x : List α) (ht : t.Pairwise (· < ·)) (i : Nat) (t0 t1 x0 x1 q : α)
    (h0 : t[i]? = some t0) (h1 : t[i + 1]? = some t1) (hx0 : x[i]? = some x0) (hx1 : x[i + 1]? = some x1)
    (hq0 : t0 ≤ q) (hq1 : q ≤ t1) :
    interp t x q = some (x0 + (x1 - x0) / (t1 - t0) * (q - t0)) := by
  induction t generalizing x i with
  | nil => simp at h0
  | cons a t' ih =>
    cases x with
    | nil => simp at hx0
    | cons b x' =>
      cases i with
      | zero =>
        simp only [List.getElem?_cons_zero, Option.some.injEq] at h0 hx0
        subst h0 hx0
        simp only [zero_add, List.getElem?_cons_succ] at h1 hx1
        cases t' with
        | nil => simp at h1
        | cons c ts =>
          cases x' with
          | nil => simp at hx1
          | cons e xs =>
            simp only [List.getElem?_cons_zero, Option.some.injEq] at h1 hx1
            subst h1 hx1
            rw [interp_cons2]
            simp [not_lt.mpr hq0, hq1]
      | succ i' =>
        simp only [List.getElem?_cons_succ] at h0 h1 hx0 hx1
        have ht' : t'.Pairwise (· < ·) := (List.pairwise_cons.mp ht).2
        have hIH := ih x' ht' i' h0 h1 hx0 hx1
        cases t' with
        | nil => simp at h0
        | cons c ts =>
          cases x' with
          | nil => simp at hx0
          | cons e xs =>
            have hac : a < c := List.rel_of_pairwise_cons ht (List.mem_cons_self)
            have hat0 : a < t0 := List.rel_of_pairwise_cons ht (List.mem_of_getElem? h0)
            have hct0 : c ≤ t0 := by
              rcases List.mem_cons.mp (List.mem_of_getElem? h0) with h | h
              · exact le_of_eq h.symm
              · exact le_of_lt (List.rel_of_pairwise_cons ht' h)
            rw [interp_cons2]
            rw [if_neg (not_lt.mpr (le_trans (le_of_lt hat0) hq0))]
            by_cases hqc : q ≤ c
            · rw [if_pos hqc]
              have hqc' : q = c := le_antisymm hqc (le_trans hct0 hq0)
              have ht0c : t0 = c := le_antisymm (hqc' ▸ hq0) hct0
              subst hqc'
              -- value from the right interval
              have hV := hIH
              cases ts with
              | nil => simp at h1
              | cons d ts2 =>
                cases xs with
                | nil => simp at hx1
                | cons f xs2 =>
                  have hcd : q < d := List.rel_of_pairwise_cons ht' (List.mem_cons_self)
                  rw [interp_cons2, if_neg (lt_irrefl _), if_pos (le_of_lt hcd)] at hV
                  rw [← hV]
                  have hne : q - a ≠ 0 := sub_ne_zero.mpr (ne_of_gt hac)
                  congr 1
                  field_simp
                  ring
            · rw [if_neg hqc]
              exact hIH

theorem lerp_bounds (t0 t1 x0 x1 q : α) (h01 : t0 < t1) (hq0 : t0 ≤ q) (hq1 : q ≤ t1) :
    min x0 x1 ≤ x0 + (x1 - x0) / (t1 - t0) * (q - t0) ∧ x0 + (x1 - x0) / (t1 - t0) * (q - t0) ≤ max x0 x1 := by
  have hd : 0 < t1 - t0 := sub_pos.mpr h01
  set l := (q - t0) / (t1 - t0) with hl
  have hl0 : 0 ≤ l := div_nonneg (sub_nonneg.mpr hq0) (le_of_lt hd)
  have hl1 : l ≤ 1 := by
    rw [hl, div_le_one hd]; linarith
  have hv : x0 + (x1 - x0) / (t1 - t0) * (q - t0) = x0 + l * (x1 - x0) := by
    rw [hl]; field_simp
  rw [hv]
  rcases le_total x0 x1 with h | h
  · rw [min_eq_left h, max_eq_right h]
    constructor
    · nlinarith [mul_nonneg hl0 (sub_nonneg.mpr h)]
    · nlinarith [mul_nonneg (sub_nonneg.mpr hl1) (sub_nonneg.mpr h)]
  · rw [min_eq_right h, max_eq_left h]
    constructor
    · nlinarith [mul_nonneg (sub_nonneg.mpr hl1) (sub_nonneg.mpr h)]
    · nlinarith [mul_nonneg hl0 (sub_nonneg.mpr h)]

theorem pairwise_consecutive (t : List α) (ht : t.Pairwise (· < ·)) (i : Nat) (t0 t1 : α)
    (h0 : t[i]? = some t0) (h1 : t[i + 1]? = some t1) : t0 < t1 := by
  obtain ⟨hi0, rfl⟩ := List.getElem?_eq_some_iff.mp h0
  obtain ⟨hi1, rfl⟩ := List.getElem?_eq_some_iff.mp h1
  exact List.pairwise_iff_getElem.mp ht i (i + 1) hi0 hi1 (Nat.lt_succ_self i)

theorem interp_nodes (t x : List α) (hl : t.length = x.length) (ht : t.Pairwise (· < ·)) (i : Nat) (ti xi : α)
    (hti : t[i]? = some ti) (hxi : x[i]? = some xi) : interp t x ti = some xi := by
  cases i with
  | zero =>
    cases t with
    | nil => simp at hti
    | cons a ts =>
      cases x with
      | nil => simp at hxi
      | cons b xs =>
        simp only [List.getElem?_cons_zero, Option.some.injEq] at hti hxi
        subst hti hxi
        exact interp_head a ts b xs (by simpa using hl) ht
  | succ j =>
    obtain ⟨hj1, rfl⟩ := List.getElem?_eq_some_iff.mp hti
    obtain ⟨hj1', rfl⟩ := List.getElem?_eq_some_iff.mp hxi
    have hj : j < t.length := by omega
    have hj' : j < x.length := by omega
    have h01 : t[j] < t[j + 1] := List.pairwise_iff_getElem.mp ht j (j + 1) hj hj1 (Nat.lt_succ_self j)
    have := interp_seg t x ht j t[j] t[j + 1] x[j] x[j + 1] t[j + 1] (List.getElem?_eq_getElem hj)
      (List.getElem?_eq_getElem hj1) (List.getElem?_eq_getElem hj') (List.getElem?_eq_getElem hj1')
      (le_of_lt h01) le_rfl
    rw [this]
    have hne : t[j + 1] - t[j] ≠ 0 := sub_ne_zero.mpr (ne_of_gt h01)
    congr 1
    field_simp
    ring

theorem le_getLast_of_pairwise (t : List α) (ht : t.Pairwise (· < ·)) (hi : α) (hhi : t.getLast? = some hi) :
    ∀ y ∈ t, y ≤ hi := by
  induction t with
  | nil => simp
  | cons a ts ih =>
    intro y hy
    cases ts with
    | nil =>
      simp at hhi hy
      subst hhi hy
      exact le_rfl
    | cons c ts2 =>
      have hhi' : (c :: ts2).getLast? = some hi := by simpa [List.getLast?_cons_cons] using hhi
      have ht' := (List.pairwise_cons.mp ht).2
      rcases List.mem_cons.mp hy with rfl | hy'
      · have hc : y < c := List.rel_of_pairwise_cons ht (List.mem_cons_self)
        exact le_trans (le_of_lt hc) (ih ht' hhi' c (List.mem_cons_self))
      · exact ih ht' hhi' y hy'

theorem interp_above (t x : List α) (hl : t.length = x.length) (ht : t.Pairwise (· < ·)) (hi q : α)
    (hhi : t.getLast? = some hi) (hq : hi < q) : interp t x q = none := by
  induction t generalizing x with
  | nil => simp at hhi
  | cons a ts ih =>
    cases x with
    | nil => simp at hl
    | cons b xs =>
      cases ts with
      | nil =>
        cases xs with
        | cons _ _ => simp at hl
        | nil =>
          simp at hhi
          subst hhi
          simp [interp_single, hq]
      | cons c ts2 =>
        cases xs with
        | nil => simp at hl
        | cons e xs2 =>
          have hhi' : (c :: ts2).getLast? = some hi := by simpa [List.getLast?_cons_cons] using hhi
          have ha := le_getLast_of_pairwise _ ht hi hhi a (List.mem_cons_self)
          have hc := le_getLast_of_pairwise _ ht hi hhi c (by simp)
          rw [interp_cons2, if_neg (not_lt.mpr (le_of_lt (lt_of_le_of_lt ha hq))),
            if_neg (not_le.mpr (lt_of_le_of_lt hc hq))]
          exact ih (e :: xs2) (by simpa using hl) (List.pairwise_cons.mp ht).2 hhi'

theorem interp_below (t x : List α) (hl : t.length = x.length) (lo q : α)
    (hlo : t.head? = some lo) (hq : q < lo) : interp t x q = none := by
  cases t with
  | nil => simp at hlo
  | cons a ts =>
    simp at hlo
    subst hlo
    cases x with
    | nil => simp at hl
    | cons b xs =>
      cases ts with
      | nil =>
        cases xs with
        | cons _ _ => simp at hl
        | nil => simp [interp_single, hq]
      | cons c ts2 =>
        cases xs with
        | nil => simp at hl
        | cons e xs2 => rw [interp_cons2, if_pos hq]

theorem interp_in (t x : List α) (hl : t.length = x.length) (lo hi q : α)
    (hlo : t.head? = some lo) (hhi : t.getLast? = some hi) (h0 : lo ≤ q) (h1 : q ≤ hi) :
    ∃ v, interp t x q = some v := by
  induction t generalizing x lo with
  | nil => simp at hlo
  | cons a ts ih =>
    simp at hlo
    subst hlo
    cases x with
    | nil => simp at hl
    | cons b xs =>
      cases ts with
      | nil =>
        cases xs with
        | cons _ _ => simp at hl
        | nil =>
          simp at hhi
          subst hhi
          exact ⟨b, by simp [interp_single, not_lt.mpr h0, not_lt.mpr h1]⟩
      | cons c ts2 =>
        cases xs with
        | nil => simp at hl
        | cons e xs2 =>
          have hhi' : (c :: ts2).getLast? = some hi := by simpa [List.getLast?_cons_cons] using hhi
          rw [interp_cons2, if_neg (not_lt.mpr h0)]
          by_cases hqc : q ≤ c
          · rw [if_pos hqc]; exact ⟨_, rfl⟩
          · rw [if_neg hqc]
            exact ih (e :: xs2) (by simpa using hl) c (by simp) hhi' (le_of_lt (not_le.mp hqc))
end Qats.Pipeline
