import Qats.Model.Export
import Qats.Lemmas.PipelineMain
import Mathlib.Tactic
import Mathlib.Data.List.Sort
/-!
Lemmas about the common-time diagnosis `checkTimeArrays` (model of `TsDB._check_time_arrays`): extrema, what a positive
answer means, lattices and windows.
-/
namespace Qats.Export
set_option linter.unusedSectionVars false
set_option linter.unusedVariables false
open Qats.Pipeline (Opts Resample Stages)
variable {α : Type} [Field α] [LinearOrder α] [IsStrictOrderedRing α]

@[simp] theorem abs'_eq_abs (x : α) : Qats.Pipeline.abs' x = |x| := by
  unfold Qats.Pipeline.abs'
  split
  · rw [abs_of_neg ‹_›]
  · rw [abs_of_nonneg (not_lt.mp ‹_›)]

/-! ### extrema -/

theorem foldl_max_spec (l : List α) (a : α) :
    a ≤ l.foldl (fun m v => if m < v then v else m) a ∧ (∀ v ∈ l, v ≤ l.foldl (fun m v => if m < v then v else m) a) ∧
    (l.foldl (fun m v => if m < v then v else m) a = a ∨ l.foldl (fun m v => if m < v then v else m) a ∈ l) := by
  induction l generalizing a with
  | nil => simp
  | cons b l ih =>
    simp only [List.foldl_cons, List.mem_cons, forall_eq_or_imp]
    by_cases hab : a < b
    · simp only [hab, if_true]
      obtain ⟨h1, h2, h3⟩ := ih b
      exact ⟨le_trans (le_of_lt hab) h1, ⟨h1, h2⟩, h3.elim (fun h => Or.inr (Or.inl h)) (fun h => Or.inr (Or.inr h))⟩
    · simp only [hab, if_false]
      obtain ⟨h1, h2, h3⟩ := ih a
      exact ⟨h1, ⟨le_trans (not_lt.mp hab) h1, h2⟩, h3.elim Or.inl (fun h => Or.inr (Or.inr h))⟩

theorem foldl_min_spec (l : List α) (a : α) :
    l.foldl (fun m v => if v < m then v else m) a ≤ a ∧ (∀ v ∈ l, l.foldl (fun m v => if v < m then v else m) a ≤ v) ∧
    (l.foldl (fun m v => if v < m then v else m) a = a ∨ l.foldl (fun m v => if v < m then v else m) a ∈ l) := by
  induction l generalizing a with
  | nil => simp
  | cons b l ih =>
    simp only [List.foldl_cons, List.mem_cons, forall_eq_or_imp]
    by_cases hab : b < a
    · simp only [hab, if_true]
      obtain ⟨h1, h2, h3⟩ := ih b
      exact ⟨le_trans h1 (le_of_lt hab), ⟨h1, h2⟩, h3.elim (fun h => Or.inr (Or.inl h)) (fun h => Or.inr (Or.inr h))⟩
    · simp only [hab, if_false]
      obtain ⟨h1, h2, h3⟩ := ih a
      exact ⟨h1, ⟨le_trans h1 (not_lt.mp hab), h2⟩, h3.elim Or.inl (fun h => Or.inr (Or.inr h))⟩

/-- `maxL` is the greatest element. -/
theorem maxL_spec (l : List α) (m : α) (h : maxL l = some m) : m ∈ l ∧ ∀ v ∈ l, v ≤ m := by
  cases l with
  | nil => simp [maxL] at h
  | cons a l =>
    simp only [maxL, Option.some.injEq] at h
    obtain ⟨h1, h2, h3⟩ := foldl_max_spec l a
    subst h
    refine ⟨?_, ?_⟩
    · rcases h3 with h3 | h3
      · rw [h3]; exact List.mem_cons_self
      · exact List.mem_cons_of_mem _ h3
    · intro v hv
      rcases List.mem_cons.mp hv with rfl | hv
      · exact h1
      · exact h2 v hv

/-- `minL` is the least element. -/
theorem minL_spec (l : List α) (m : α) (h : minL l = some m) : m ∈ l ∧ ∀ v ∈ l, m ≤ v := by
  cases l with
  | nil => simp [minL] at h
  | cons a l =>
    simp only [minL, Option.some.injEq] at h
    obtain ⟨h1, h2, h3⟩ := foldl_min_spec l a
    subst h
    refine ⟨?_, ?_⟩
    · rcases h3 with h3 | h3
      · rw [h3]; exact List.mem_cons_self
      · exact List.mem_cons_of_mem _ h3
    · intro v hv
      rcases List.mem_cons.mp hv with rfl | hv
      · exact h1
      · exact h2 v hv

theorem zeroSpread_iff (mx mn : α) : zeroSpread mx mn = true ↔ mx = mn := by
  unfold zeroSpread
  rw [decide_eq_true_iff]
  constructor
  · rintro ⟨h1, h2⟩
    have := le_antisymm (not_lt.mp h2) (not_lt.mp h1)
    linarith
  · rintro rfl
    simp

/-- Zero spread means that all elements are equal. -/
theorem spread_zero_all_eq (l : List α) (mx mn : α) (hmx : maxL l = some mx) (hmn : minL l = some mn)
    (hz : zeroSpread mx mn = true) : ∀ v ∈ l, v = mx := by
  intro v hv
  have h1 := (maxL_spec l mx hmx).2 v hv
  have h2 := (minL_spec l mn hmn).2 v hv
  rw [zeroSpread_iff] at hz
  subst hz
  exact le_antisymm h1 h2

/-! ### what the keyword arguments handle -/

theorem mem_ite_singleton {β : Type} (c : Prop) [Decidable c] (x d : β) (h : d ∈ (if c then [x] else [])) : c ∧ d = x := by
  split at h
  · exact ⟨‹_›, by simpa using h⟩
  · simp at h

theorem handledTwin_mem (cs ce : α) (twin : Option (α × α)) (d : Dev) (h : d ∈ handledTwin cs ce twin) :
    ∃ a b, twin = some (a, b) ∧ ((d = .start ∧ cs ≤ a) ∨ (d = .stop ∧ b ≤ ce)) := by
  unfold handledTwin at h
  rcases twin with _ | ⟨a, b⟩
  · simp at h
  · refine ⟨a, b, rfl, ?_⟩
    simp only [List.mem_append] at h
    rcases h with h | h
    · obtain ⟨h1, h2⟩ := mem_ite_singleton _ _ _ h
      exact Or.inl ⟨h2, h1⟩
    · obtain ⟨h1, h2⟩ := mem_ite_singleton _ _ _ h
      exact Or.inr ⟨h2, h1⟩

theorem handledRes_mem (cs ce : α) (res : Option (Resample α)) (r : List Dev) (hr : handledRes cs ce res = some r) (d : Dev)
    (h : d ∈ r) :
    (d = .dt ∧ ∃ rs, res = some rs) ∨
      (∃ ts a b, res = some (.times ts) ∧ ts.head? = some a ∧ ts.getLast? = some b ∧
        ((d = .start ∧ cs ≤ a) ∨ (d = .stop ∧ b ≤ ce))) := by
  unfold handledRes at hr
  rcases res with _ | (s | ts)
  · simp only [Option.some.injEq] at hr; subst hr; simp at h
  · simp only [Option.some.injEq] at hr; subst hr
    simp only [List.mem_cons, List.not_mem_nil, or_false] at h
    exact Or.inl ⟨h, _, rfl⟩
  · simp only at hr
    split at hr
    next mn mx a b h1 h2 h3 h4 =>
      simp only [Option.some.injEq] at hr; subst hr
      simp only [List.mem_append] at h
      rcases h with (h | h) | h
      · obtain ⟨_, h2⟩ := mem_ite_singleton _ _ _ h
        exact Or.inl ⟨h2, _, rfl⟩
      · obtain ⟨h1, h2⟩ := mem_ite_singleton _ _ _ h
        exact Or.inr ⟨ts, a, b, rfl, h3, h4, Or.inl ⟨h2, h1⟩⟩
      · obtain ⟨h1, h2⟩ := mem_ite_singleton _ _ _ h
        exact Or.inr ⟨ts, a, b, rfl, h3, h4, Or.inr ⟨h2, h1⟩⟩
    · simp at hr

/-- Every handled deviation is handled for a reason. -/
theorem handled_mem (cs ce : α) (twin : Option (α × α)) (res : Option (Resample α)) (hd : List Dev)
    (hh : handled cs ce twin res = some hd) (d : Dev) (h : d ∈ hd) :
    (d = .dt ∧ ∃ rs, res = some rs) ∨
      (∃ ts a b, res = some (.times ts) ∧ ts.head? = some a ∧ ts.getLast? = some b ∧
        ((d = .start ∧ cs ≤ a) ∨ (d = .stop ∧ b ≤ ce))) ∨
      (∃ a b, twin = some (a, b) ∧ ((d = .start ∧ cs ≤ a) ∨ (d = .stop ∧ b ≤ ce))) := by
  unfold handled at hh
  cases hr : handledRes cs ce res with
  | none => simp [hr] at hh
  | some r =>
    simp only [hr, Option.map_some, Option.some.injEq] at hh
    subst hh
    rcases List.mem_append.mp h with h | h
    · rcases handledRes_mem cs ce res r hr d h with h | h
      · exact Or.inl h
      · exact Or.inr (Or.inl h)
    · exact Or.inr (Or.inr (handledTwin_mem cs ce twin d h))

theorem handled_none (cs ce : α) : handled cs ce none none = some [] := by
  simp [handled, handledRes, handledTwin]

theorem handled_step (cs ce d : α) : handled cs ce none (some (.step d)) = some [Dev.dt] := by
  simp [handled, handledRes, handledTwin]

theorem dtgRef_not_handled (cs ce : α) (twin : Option (α × α)) (res : Option (Resample α)) (hd : List Dev)
    (hh : handled cs ce twin res = some hd) : Dev.dtgRef ∉ hd := by
  intro h
  rcases handled_mem cs ce twin res hd hh _ h with h | ⟨_, _, _, _, _, _, h | h⟩ | ⟨_, _, _, h | h⟩ <;> simp at h

theorem extrema_spec (ss : List (Summary α)) (e : Extrema α) (h : extrema ss = some e) :
    maxL (ss.map (·.dt)) = some e.dmax ∧ minL (ss.map (·.dt)) = some e.dmin ∧
    maxL (ss.map (·.start)) = some e.smax ∧ minL (ss.map (·.start)) = some e.smin ∧
    maxL (ss.map (·.stop)) = some e.emax ∧ minL (ss.map (·.stop)) = some e.emin := by
  unfold extrema at h
  split at h
  next h1 h2 h3 h4 h5 h6 =>
    simp only [Option.some.injEq] at h
    subst h
    exact ⟨h1, h2, h3, h4, h5, h6⟩
  · simp at h

/-- A successful diagnosis: extrema exist, the keyword arguments are well-formed, and the result is `finishCheck`. -/
theorem check_ok (ss : List (Summary α)) (twin : Option (α × α)) (res : Option (Resample α)) (tc : TimeCheck α)
    (h : checkTimeArrays ss twin res = .ok tc) :
    ∃ e hd, extrema ss = some e ∧ handled e.smax e.emin twin res = some hd ∧
      tc.common = recommended e ∧ tc.deviations = (devs1 ss e).filter (fun d => !hd.contains d) ∧
      tc.isCommon = tc.deviations.isEmpty := by
  unfold checkTimeArrays at h
  cases he : extrema ss with
  | none => simp [he] at h
  | some e =>
    simp only [he] at h
    cases hh : handled e.smax e.emin twin res with
    | none => simp [hh] at h
    | some hd =>
      simp only [hh] at h
      unfold finishCheck at h
      split at h
      · simp at h
      · simp only [Except.ok.injEq] at h
        subst h
        exact ⟨e, hd, rfl, hh, rfl, rfl, rfl⟩

/-- The meaning of a positive answer: there is no `dtg_ref` conflict, and every one of step / start / end either has zero
spread over the series or is handled by the keyword arguments. -/
theorem isCommon_spec (ss : List (Summary α)) (twin : Option (α × α)) (res : Option (Resample α)) (tc : TimeCheck α)
    (h : checkTimeArrays ss twin res = .ok tc) (hc : tc.isCommon = true) :
    ∃ e hd, extrema ss = some e ∧ handled e.smax e.emin twin res = some hd ∧
      (dtgDefined ss && !sameDtg ss) = false ∧
      (zeroSpread e.dmax e.dmin = true ∨ Dev.dt ∈ hd) ∧ (zeroSpread e.smax e.smin = true ∨ Dev.start ∈ hd) ∧
      (zeroSpread e.emax e.emin = true ∨ Dev.stop ∈ hd) := by
  obtain ⟨e, hd, he, hh, -, hdev, hic⟩ := check_ok ss twin res tc h
  rw [hic, hdev] at hc
  have hnd := dtgRef_not_handled e.smax e.emin twin res hd hh
  simp only [List.isEmpty_iff, List.filter_eq_nil_iff] at hc
  have hconf' : (dtgDefined ss && !sameDtg ss) = false := by
    by_contra hne
    have ht : (dtgDefined ss && !sameDtg ss) = true := by simpa using hne
    have := hc Dev.dtgRef (by simp [devs1, ht])
    simp only [List.contains_eq_mem, Bool.not_eq_eq_eq_not, Bool.not_true, decide_eq_false_iff_not, not_not] at this
    exact hnd this
  simp only [devs1, hconf', Bool.false_eq_true, if_false, rawDeviations] at hc
  refine ⟨e, hd, he, hh, hconf', ?_, ?_, ?_⟩
  · by_cases hz : zeroSpread e.dmax e.dmin = true
    · exact Or.inl hz
    · right
      have := hc Dev.dt (by simp [hz])
      simpa using this
  · by_cases hz : zeroSpread e.smax e.smin = true
    · exact Or.inl hz
    · right
      have := hc Dev.start (by simp [hz])
      simpa using this
  · by_cases hz : zeroSpread e.emax e.emin = true
    · exact Or.inl hz
    · right
      have := hc Dev.stop (by simp [hz])
      simpa using this

end Qats.Export
