import Qats.Model.Binding
import Qats.Lemmas.RegistryMain
/-! Helper lemmas for the content binding (`Qats.Binding`): the origin table, the per-key binding predicate, reading. -/
set_option linter.unusedVariables false
set_option linter.unusedSimpArgs false
namespace Qats.Binding
open Qats.Names Qats.Registry

/-! ### the origin table -/

theorem olookup_append (os ext : Origins) (o : Nat) : olookup (os ++ ext) o = (olookup os o).or (olookup ext o) := by
  unfold olookup
  rw [List.find?_append]
  cases List.find? (fun p => p.1 == o) os <;> simp

theorem olookup_single (n : Nat) (v : Origin) : olookup [(n, v)] n = some v := by
  simp [olookup]

theorem olookup_none_of_fresh {os : Origins} {n m : Nat} (h : ∀ p ∈ os, p.1 < n) (hm : n ≤ m) : olookup os m = none := by
  unfold olookup
  rw [Option.map_eq_none_iff, List.find?_eq_none]
  intro p hp
  have := h p hp
  simp only [beq_iff_eq]
  omega

theorem rootFuel_append {os : Origins} (ext : Origins) :
    ∀ {f o x}, rootFuel os f o = some x → rootFuel (os ++ ext) f o = some x := by
  intro f
  induction f with
  | zero => intro o x h; simp [rootFuel] at h
  | succ f ih =>
    intro o x h
    unfold rootFuel at h ⊢
    rw [olookup_append]
    cases hl : olookup os o with
    | none => rw [hl] at h; simp at h
    | some v =>
      rw [hl] at h
      simp only [Option.or]
      cases v with
      | copyOf p => exact ih h
      | record a b => exact h
      | named a b => exact h
      | added a => exact h

theorem rootFuel_mono {os : Origins} : ∀ {f f' o x}, rootFuel os f o = some x → f ≤ f' → rootFuel os f' o = some x := by
  intro f
  induction f with
  | zero => intro f' o x h; simp [rootFuel] at h
  | succ f ih =>
    intro f' o x h hle
    obtain ⟨g, rfl⟩ : ∃ g, f' = g + 1 := ⟨f' - 1, by omega⟩
    unfold rootFuel at h ⊢
    cases hl : olookup os o with
    | none => rw [hl] at h; simp at h
    | some v =>
      rw [hl] at h
      cases v with
      | copyOf p => exact ih h (by omega)
      | record a b => exact h
      | named a b => exact h
      | added a => exact h

theorem root_append {os : Origins} (ext : Origins) {o : Nat} {x : Origin} (h : root os o = some x) :
    root (os ++ ext) o = some x := by
  unfold root at h ⊢
  exact rootFuel_mono (rootFuel_append ext h) (by simp)

/-- A freshly constructed object that is not a copy is its own root. -/
theorem root_new {os : Origins} {n : Nat} {v : Origin} (hfresh : olookup os n = none) (hv : ∀ p, v ≠ .copyOf p) :
    root (os ++ [(n, v)]) n = some v := by
  unfold root
  rw [List.length_append]
  unfold rootFuel
  rw [olookup_append, hfresh, Option.none_or, olookup_single]
  cases v with
  | copyOf p => exact absurd rfl (hv p)
  | record a b => rfl
  | named a b => rfl
  | added a => rfl

/-- A fresh deep copy has the root of what it copies. -/
theorem root_copy {os : Origins} {n p : Nat} {x : Origin} (hfresh : olookup os n = none) (hp : root os p = some x) :
    root (os ++ [(n, .copyOf p)]) n = some x := by
  unfold root at hp ⊢
  rw [List.length_append]
  unfold rootFuel
  rw [olookup_append, hfresh, Option.none_or, olookup_single]
  exact rootFuel_append _ hp

theorem readOriginRc_ne_copy (d : Db) (rc : Option Rec) (k : Str) : ∀ p, readOriginRc d rc k ≠ .copyOf p := by
  intro p
  unfold readOriginRc originOf
  split <;> simp

/-- What a read constructs depends on the database only through the parent and the record number looked up for the key. -/
theorem readOriginRc_congr {d d' : Db} {k k' : Str} (rc : Option Rec) (h2 : lookup d'.parents k' = lookup d.parents k)
    (h3 : lookup d'.indices k' = lookup d.indices k) : readOriginRc d' rc k' = readOriginRc d rc k := by
  unfold readOriginRc
  rw [h2, h3]

/-! ### more on association lists -/

theorem lookup_erase_ne {β : Type} (l : List (Str × β)) {k k' : Str} (hne : k' ≠ k) :
    lookup (erase l k) k' = lookup l k' := by
  induction l with
  | nil => rfl
  | cons p l ih =>
    unfold erase
    rw [List.filter_cons]
    by_cases hp : p.1 = k
    · have : (p.1 != k) = false := by simp [hp]
      rw [this]
      simp only [Bool.false_eq_true, if_false]
      rw [lookup_cons, if_neg (by rw [hp]; exact fun e => hne e.symm)]
      exact ih
    · have : (p.1 != k) = true := by simp [hp]
      rw [this]
      simp only [if_true]
      rw [lookup_cons, lookup_cons]
      split
      · rfl
      · exact ih

theorem lookup_erase_self {β : Type} (l : List (Str × β)) (k : Str) : lookup (erase l k) k = none := by
  rw [lookup_eq_none_iff, hasKey_false_iff, map_fst_erase]
  simp

/-- `mvKey` (the `rename` of one register): the new key gets the old value … -/
theorem lookup_mvKey_new {β : Type} (l : List (Str × β)) {old newkey : Str} (hn : hasKey l newkey = false) :
    lookup (mvKey old newkey l) newkey = lookup l old := by
  unfold mvKey
  cases hl : lookup l old with
  | none =>
    simp only
    rw [lookup_eq_none_iff]; exact hn
  | some v =>
    simp only
    rw [lookup_append]
    have : lookup (erase l old) newkey = none := by
      by_cases e : newkey = old
      · rw [e]; exact lookup_erase_self _ _
      · rw [lookup_erase_ne _ e, lookup_eq_none_iff]; exact hn
    rw [this]
    simp [lookup_cons]

/-- … and every other key keeps its value. -/
theorem lookup_mvKey_ne {β : Type} (l : List (Str × β)) {old newkey k : Str} (h1 : k ≠ old) (h2 : k ≠ newkey) :
    lookup (mvKey old newkey l) k = lookup l k := by
  unfold mvKey
  cases hl : lookup l old with
  | none => rfl
  | some v =>
    simp only
    rw [lookup_append, lookup_erase_ne _ h1]
    cases lookup l k with
    | none => simp [lookup_cons, lookup_nil, Ne.symm h2]
    | some x => rfl

/-! ### the binding of one key / of a database -/

/-- Key `k` of database `d` is bound to record `rc`: a cached object has `rc` as root origin, and if nothing is cached the
next read constructs the series from `rc`. -/
def KeyOK (os : Origins) (d : Db) (k : Str) (rc : Rec) : Prop :=
  (∀ o, lookup d.register k = some (some o) → root os o = some rc.origin) ∧
  ((∀ o, lookup d.register k ≠ some (some o)) → readOriginRc d (some rc) k = rc.origin)

/-- Every key of `d` is bound to the record the dictionary `r` holds for it. -/
def Bound (os : Origins) (d : Db) (r : List (Str × Rec)) : Prop :=
  ∀ k ∈ d.keys, ∃ rc, lookup r k = some rc ∧ KeyOK os d k rc

theorem keyOK_congr' {os : Origins} {d d' : Db} {k k' : Str} {rc : Rec}
    (h1 : lookup d'.register k' = lookup d.register k) (h2 : lookup d'.parents k' = lookup d.parents k)
    (h3 : lookup d'.indices k' = lookup d.indices k) (h : KeyOK os d k rc) : KeyOK os d' k' rc := by
  unfold KeyOK
  rw [h1, readOriginRc_congr _ h2 h3]
  exact h

theorem keyOK_congr {os : Origins} {d d' : Db} {k : Str} {rc : Rec}
    (h1 : lookup d'.register k = lookup d.register k) (h2 : lookup d'.parents k = lookup d.parents k)
    (h3 : lookup d'.indices k = lookup d.indices k) (h : KeyOK os d k rc) : KeyOK os d' k rc :=
  keyOK_congr' h1 h2 h3 h

theorem keyOK_append {os : Origins} (ext : Origins) {d : Db} {k : Str} {rc : Rec} (h : KeyOK os d k rc) :
    KeyOK (os ++ ext) d k rc :=
  ⟨fun o ho => root_append ext (h.1 o ho), h.2⟩

theorem bound_append {os : Origins} (ext : Origins) {d : Db} {r : List (Str × Rec)} (h : Bound os d r) :
    Bound (os ++ ext) d r := by
  intro k hk
  obtain ⟨rc, h1, h2⟩ := h k hk
  exact ⟨rc, h1, keyOK_append ext h2⟩

theorem bound_empty (os : Origins) (r : List (Str × Rec)) : Bound os ({} : Db) r := by
  intro k hk
  exact absurd hk List.not_mem_nil

def OFresh (os : Origins) (n : Nat) : Prop := ∀ p ∈ os, p.1 < n

theorem OFresh.mono {os : Origins} {n m : Nat} (h : OFresh os n) (hm : n ≤ m) : OFresh os m :=
  fun p hp => Nat.lt_of_lt_of_le (h p hp) hm

theorem OFresh.snoc {os : Origins} {n : Nat} (h : OFresh os n) (v : Origin) : OFresh (os ++ [(n, v)]) (n + 1) := by
  intro p hp
  rw [List.mem_append, List.mem_singleton] at hp
  rcases hp with hp | rfl
  · exact Nat.lt_succ_of_lt (h p hp)
  · exact Nat.lt_succ_self _

/-! ### reading -/

/-- The table after one iteration of `readKeys`. -/
def bindOne (r : List (Str × Rec)) (d : Db) (n : Nat) (k : Str) (os : Origins) : Origins :=
  match lookup d.register k with
  | some (some _) => os
  | _ => os ++ [(n, readOrigin d r k)]

theorem readBind_nil (store : Bool) (r : List (Str × Rec)) (d : Db) (n : Nat) (os : Origins) :
    readBind store r d n [] os = os := by
  unfold readBind; rfl

theorem readBind_cons (store : Bool) (r : List (Str × Rec)) (d : Db) (n : Nat) (k : Str) (ks : List Str) (os : Origins) :
    readBind store r d n (k :: ks) os =
      readBind store r (readOne store d n k).1 (readOne store d n k).2.1 ks (bindOne r d n k os) := by
  rw [readBind]
  unfold readOne bindOne
  rcases h : lookup d.register k with _ | _ | o <;> simp

theorem bindOne_of_cached {r : List (Str × Rec)} {d : Db} {n : Nat} {k : Str} {o : Nat} (os : Origins)
    (h : lookup d.register k = some (some o)) : bindOne r d n k os = os := by
  simp [bindOne, h]

theorem bindOne_of_not_cached {r : List (Str × Rec)} {d : Db} {n : Nat} {k : Str} (os : Origins)
    (h : ∀ o, lookup d.register k ≠ some (some o)) : bindOne r d n k os = os ++ [(n, readOrigin d r k)] := by
  unfold bindOne
  split
  · rename_i o ho; exact absurd ho (h o)
  · rfl

/-- One iteration of `readKeys` keeps the binding and returns an object bound to the record of the key. -/
theorem readOne_bound (store : Bool) (d : Db) (n : Nat) (k : Str) (os : Origins) (r : List (Str × Rec))
    (hk : k ∈ d.keys) (hf : OFresh os n) (hb : Bound os d r) :
    (∃ e, bindOne r d n k os = os ++ e) ∧ OFresh (bindOne r d n k os) (readOne store d n k).2.1 ∧
      Bound (bindOne r d n k os) (readOne store d n k).1 r ∧
      (∃ rc, lookup r k = some rc ∧ root (bindOne r d n k os) (readOne store d n k).2.2 = some rc.origin) := by
  obtain ⟨rc, hrc, hok⟩ := hb k hk
  rcases readOne_cases store d n k with ⟨o, ho, h⟩ | ⟨hn, h⟩
  · rw [h, bindOne_of_cached os ho]
    exact ⟨⟨[], by simp⟩, hf, hb, rc, hrc, hok.1 o ho⟩
  · rw [h, bindOne_of_not_cached os hn]
    have hfr : olookup os n = none := olookup_none_of_fresh hf (le_refl _)
    have hro : readOrigin d r k = rc.origin := by
      unfold readOrigin
      rw [hrc]; exact hok.2 hn
    have hroot : root (os ++ [(n, readOrigin d r k)]) n = some rc.origin := by
      have := root_new (v := readOrigin d r k) hfr (fun p => readOriginRc_ne_copy d (lookup r k) k p)
      rw [this, hro]
    refine ⟨⟨_, rfl⟩, hf.snoc _, ?_, rc, hrc, hroot⟩
    cases store
    · exact bound_append _ hb
    · show Bound _ { d with register := setKey d.register k (some n) } r
      intro k' hk'
      have hk'' : k' ∈ d.keys := hk'
      by_cases e : k' = k
      · subst e
        refine ⟨rc, hrc, ?_, ?_⟩
        · intro o ho
          have : lookup (setKey d.register k' (some n)) k' = some (some o) := ho
          rw [lookup_setKey_self] at this
          simp only [Option.some.injEq] at this
          subst this
          exact hroot
        · intro hno
          have : lookup (setKey d.register k' (some n)) k' = some (some n) := lookup_setKey_self _ _ _
          exact absurd this (hno n)
      · obtain ⟨rc', hrc', hok'⟩ := hb k' hk''
        refine ⟨rc', hrc', keyOK_congr (d := d) ?_ rfl rfl (keyOK_append _ hok')⟩
        exact lookup_setKey_ne _ _ e

/-- What `readKeys` + `readBind` guarantee. -/
structure ReadPost (os os' : Origins) (d' : Db) (r : List (Str × Rec)) (n' : Nat) (out : List (Str × Nat)) : Prop where
  ext : ∃ e, os' = os ++ e
  fresh : OFresh os' n'
  bound : Bound os' d' r
  outs : ∀ kv ∈ out, ∃ rc, lookup r kv.1 = some rc ∧ root os' kv.2 = some rc.origin

theorem readKeys_bound (store : Bool) (ks : List Str) (d : Db) (n : Nat) (os : Origins) (r : List (Str × Rec))
    (hks : ∀ k ∈ ks, k ∈ d.keys) (hf : OFresh os n) (hb : Bound os d r) :
    ReadPost os (readBind store r d n ks os) (readKeys d n ks store).1 r (readKeys d n ks store).2.1
      (readKeys d n ks store).2.2 := by
  induction ks generalizing d n os with
  | nil =>
    rw [readBind_nil, readKeys_nil]
    exact ⟨⟨[], by simp⟩, hf, hb, fun kv h => absurd h List.not_mem_nil⟩
  | cons k ks ih =>
    rw [readBind_cons, readKeys_cons]
    obtain ⟨⟨e1, he1⟩, hf1, hb1, rc, hrc, hroot⟩ := readOne_bound store d n k os r (hks k List.mem_cons_self) hf hb
    have hkeys : ∀ k' ∈ ks, k' ∈ (readOne store d n k).1.keys := by
      intro k' hk'
      rw [readOne_keys]
      exact hks k' (List.mem_cons_of_mem _ hk')
    have post := ih (readOne store d n k).1 (readOne store d n k).2.1 (bindOne r d n k os) hkeys hf1 hb1
    obtain ⟨e2, he2⟩ := post.ext
    refine ⟨⟨e1 ++ e2, ?_⟩, post.fresh, post.bound, ?_⟩
    · rw [he2, he1, List.append_assoc]
    · intro kv hkv
      simp only [List.mem_cons] at hkv
      rcases hkv with rfl | hkv
      · refine ⟨rc, hrc, ?_⟩
        rw [he2]
        exact root_append e2 hroot
      · exact post.outs kv hkv

end Qats.Binding
