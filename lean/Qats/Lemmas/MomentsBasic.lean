import Qats.Model.Moments
import Qats.Lemmas.PeaksSort
import Mathlib.Tactic
/-!
Descriptive statistics (`Qats.Moments`) over an arbitrary linearly ordered field: min / max / mean, the telescoping mean
step, central moments under `x ↦ a·x + b`, mean-level crossings under a positive affine map.
-/
namespace Qats.Moments
open Qats Qats.Peaks
set_option linter.unusedSectionVars false
variable {α : Type} [Field α] [LinearOrder α] [IsStrictOrderedRing α]

/-! ### min, max -/

theorem foldl_min_le (r : List α) : ∀ acc : α,
    r.foldl (fun m v => if v < m then v else m) acc ≤ acc ∧
      ∀ v ∈ r, r.foldl (fun m v => if v < m then v else m) acc ≤ v := by
  induction r with
  | nil => intro acc; exact ⟨le_refl _, fun v hv => absurd hv List.not_mem_nil⟩
  | cons w r ih =>
    intro acc
    obtain ⟨h1, h2⟩ := ih (if w < acc then w else acc)
    have ha : (if w < acc then w else acc) ≤ acc := by split_ifs with h; exacts [h.le, le_refl _]
    have hw : (if w < acc then w else acc) ≤ w := by split_ifs with h; exacts [le_refl _, not_lt.mp h]
    refine ⟨h1.trans ha, fun v hv => ?_⟩
    rcases List.mem_cons.mp hv with rfl | hv
    · exact h1.trans hw
    · exact h2 v hv

theorem foldl_max_ge (r : List α) : ∀ acc : α,
    acc ≤ r.foldl (fun m v => if m < v then v else m) acc ∧
      ∀ v ∈ r, v ≤ r.foldl (fun m v => if m < v then v else m) acc := by
  induction r with
  | nil => intro acc; exact ⟨le_refl _, fun v hv => absurd hv List.not_mem_nil⟩
  | cons w r ih =>
    intro acc
    obtain ⟨h1, h2⟩ := ih (if acc < w then w else acc)
    have ha : acc ≤ (if acc < w then w else acc) := by split_ifs with h; exacts [h.le, le_refl _]
    have hw : w ≤ (if acc < w then w else acc) := by split_ifs with h; exacts [le_refl _, not_lt.mp h]
    refine ⟨ha.trans h1, fun v hv => ?_⟩
    rcases List.mem_cons.mp hv with rfl | hv
    · exact hw.trans h1
    · exact h2 v hv

theorem minL_le (x0 : α) (r : List α) : ∀ v ∈ x0 :: r, minL x0 r ≤ v := by
  intro v hv
  rcases List.mem_cons.mp hv with rfl | hv
  · exact (foldl_min_le r v).1
  · exact (foldl_min_le r x0).2 v hv

theorem le_maxL (x0 : α) (r : List α) : ∀ v ∈ x0 :: r, v ≤ maxL x0 r := by
  intro v hv
  rcases List.mem_cons.mp hv with rfl | hv
  · exact (foldl_max_ge r v).1
  · exact (foldl_max_ge r x0).2 v hv

theorem foldl_min_mem (r : List α) : ∀ acc : α, r.foldl (fun m v => if v < m then v else m) acc ∈ acc :: r := by
  induction r with
  | nil => intro acc; exact List.mem_singleton.mpr rfl
  | cons w r ih =>
    intro acc
    have h := ih (if w < acc then w else acc)
    rw [List.foldl_cons]
    rcases List.mem_cons.mp h with h | h
    · rw [h]; split_ifs <;> simp
    · exact List.mem_cons_of_mem _ (List.mem_cons_of_mem _ h)

theorem foldl_max_mem (r : List α) : ∀ acc : α, r.foldl (fun m v => if m < v then v else m) acc ∈ acc :: r := by
  induction r with
  | nil => intro acc; exact List.mem_singleton.mpr rfl
  | cons w r ih =>
    intro acc
    have h := ih (if acc < w then w else acc)
    rw [List.foldl_cons]
    rcases List.mem_cons.mp h with h | h
    · rw [h]; split_ifs <;> simp
    · exact List.mem_cons_of_mem _ (List.mem_cons_of_mem _ h)

theorem minL_mem (x0 : α) (r : List α) : minL x0 r ∈ x0 :: r := foldl_min_mem r x0
theorem maxL_mem (x0 : α) (r : List α) : maxL x0 r ∈ x0 :: r := foldl_max_mem r x0

/-- The minimum is characterised by: a member that is a lower bound. -/
theorem minL_eq_of (x0 : α) (r : List α) (c : α) (hm : c ∈ x0 :: r) (hl : ∀ v ∈ x0 :: r, c ≤ v) : minL x0 r = c :=
  le_antisymm (minL_le x0 r c hm) (hl _ (minL_mem x0 r))

theorem maxL_eq_of (x0 : α) (r : List α) (c : α) (hm : c ∈ x0 :: r) (hl : ∀ v ∈ x0 :: r, v ≤ c) : maxL x0 r = c :=
  le_antisymm (hl _ (maxL_mem x0 r)) (le_maxL x0 r c hm)

theorem sum_ge_of (l : List α) (c : α) (h : ∀ v ∈ l, c ≤ v) : c * (l.length : α) ≤ l.sum := by
  induction l with
  | nil => simp
  | cons w l ih =>
    have h1 := h w List.mem_cons_self
    have h2 := ih fun v hv => h v (List.mem_cons_of_mem _ hv)
    rw [List.sum_cons, List.length_cons]
    push_cast
    linarith

theorem sum_le_of (l : List α) (c : α) (h : ∀ v ∈ l, v ≤ c) : l.sum ≤ c * (l.length : α) := by
  induction l with
  | nil => simp
  | cons w l ih =>
    have h1 := h w List.mem_cons_self
    have h2 := ih fun v hv => h v (List.mem_cons_of_mem _ hv)
    rw [List.sum_cons, List.length_cons]
    push_cast
    linarith

theorem mean_eq_sum (l : List α) : mean l = l.sum / (l.length : α) := by
  unfold mean; rw [sum_eq_sum]

theorem minL_le_mean (x0 : α) (r : List α) : minL x0 r ≤ mean (x0 :: r) := by
  have hpos : (0 : α) < ((x0 :: r).length : α) := by simp only [List.length_cons]; positivity
  rw [mean_eq_sum, le_div_iff₀ hpos]
  exact sum_ge_of _ _ (minL_le x0 r)

theorem mean_le_maxL (x0 : α) (r : List α) : mean (x0 :: r) ≤ maxL x0 r := by
  have hpos : (0 : α) < ((x0 :: r).length : α) := by simp only [List.length_cons]; positivity
  rw [mean_eq_sum, div_le_iff₀ hpos]
  exact sum_le_of _ _ (le_maxL x0 r)

/-! ### mean step: telescoping sum -/

theorem diff_length (t0 : α) (r : List α) : (diff (t0 :: r)).length = r.length := by
  induction r generalizing t0 with
  | nil => rfl
  | cons t1 r ih => simp only [diff, List.length_cons, ih t1]

theorem diff_sum (t0 : α) (r : List α) : (diff (t0 :: r)).sum = r.getLastD t0 - t0 := by
  induction r generalizing t0 with
  | nil => simp [diff]
  | cons t1 r ih =>
    rw [diff, List.sum_cons, ih t1, List.getLastD_cons]
    ring

/-- `dtavg · (n − 1) = t[-1] − t[0]` for `n ≥ 2` samples. -/
theorem dtavg_spec (t0 t1 : α) (r : List α) :
    dtavg (t0 :: t1 :: r) = some (mean (diff (t0 :: t1 :: r))) ∧
      mean (diff (t0 :: t1 :: r)) * (((t0 :: t1 :: r).length : α) - 1) = (t1 :: r).getLastD t0 - t0 := by
  refine ⟨by simp [dtavg], ?_⟩
  rw [mean_eq_sum, diff_sum, diff_length]
  have h : (((t1 :: r).length : Nat) : α) ≠ 0 := by simp only [List.length_cons]; positivity
  simp only [List.length_cons] at h ⊢
  push_cast at h ⊢
  field_simp
  ring

end Qats.Moments
