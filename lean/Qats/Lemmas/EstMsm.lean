import Qats.Lemmas.EstMain
/-!
Weibull method of moments (C16): the quantity handed to the root search is invariant under `x ↦ a·x + b` (`a > 0`), so the
same shape solves the skewness equation, and location / scale transform as they must.
-/
namespace Qats.Est
open Qats Qats.Dist

theorem central_two_eq (l : List ℝ) :
    central l 2 = (l.map fun x => (x - mean l) ^ 2).sum / (l.length : ℝ) := by
  simp only [central, sum_eq, List.replicate, List.foldl]
  congr 3
  funext x
  norm_num
  ring

theorem central_three_eq (l : List ℝ) :
    central l 3 = (l.map fun x => (x - mean l) ^ 3).sum / (l.length : ℝ) := by
  simp only [central, sum_eq, List.replicate, List.foldl]
  congr 3
  funext x
  norm_num
  ring

/-- The sum of cubed deviations after `x ↦ a·x + b` with the transformed mean `a·m + b`. -/
theorem sumcube_affine (xs : List ℝ) (a b m : ℝ) :
    ((xs.map fun x => a * x + b).map fun y => (y - (a * m + b)) ^ 3).sum =
      a ^ 3 * (xs.map fun x => (x - m) ^ 3).sum := by
  rw [List.map_map, ← sum_map_mul_left']
  congr 1
  refine List.map_congr_left fun x _ => ?_
  simp only [Function.comp]
  ring

theorem central_two_affine (xs : List ℝ) (a b : ℝ) (hn : xs ≠ []) :
    central (xs.map fun x => a * x + b) 2 = a ^ 2 * central xs 2 := by
  rw [central_two_eq, central_two_eq, mean_affine xs a b hn, sumsq_affine, List.length_map, mul_div_assoc]

theorem central_three_affine (xs : List ℝ) (a b : ℝ) (hn : xs ≠ []) :
    central (xs.map fun x => a * x + b) 3 = a ^ 3 * central xs 3 := by
  rw [central_three_eq, central_three_eq, mean_affine xs a b hn, sumcube_affine, List.length_map,
    mul_div_assoc]

theorem central_two_nonneg (l : List ℝ) : 0 ≤ central l 2 := by
  rw [central_two_eq]
  refine div_nonneg (List.sum_nonneg ?_) (Nat.cast_nonneg _)
  intro y hy
  rw [List.mem_map] at hy
  obtain ⟨x, _, rfl⟩ := hy
  exact sq_nonneg _

theorem sq_rpow_three_halves (a : ℝ) (ha : 0 ≤ a) : (a ^ 2) ^ ((3 : ℝ) / 2) = a ^ 3 := by
  rw [← Real.rpow_natCast a 2, ← Real.rpow_mul ha, ← Real.rpow_natCast a 3]
  norm_num

end Qats.Est

namespace Qats.Dist
open Qats Qats.Gen Qats.Est

/-- The coefficient of skewness of the sample is invariant under positive affine maps (so the root search sees the same
equation and returns the same shape). -/
theorem sampleSkew_affine' (xs : List ℝ) (a b : ℝ) (ha : 0 < a) (hn : xs ≠ []) :
    sampleSkew (xs.map fun x => a * x + b) = sampleSkew xs := by
  have h15 : (1.5 : ℝ) = (3 : ℝ) / 2 := by norm_num
  have ha3 : a ^ 3 ≠ 0 := pow_ne_zero _ ha.ne'
  simp only [sampleSkew, rpow_real, h15]
  rw [central_two_affine xs a b hn, central_three_affine xs a b hn,
    Real.mul_rpow (sq_nonneg a) (central_two_nonneg xs), sq_rpow_three_halves a ha.le,
    mul_div_mul_left _ _ ha3]

/-- Given the (common) shape, the method-of-moments location and scale are equivariant. -/
theorem weibullMsmGiven_equivariant' (c : ℝ) (xs : List ℝ) (a b : ℝ) (ha : 0 < a) (hn : xs ≠ []) :
    weibullMsmGiven c (xs.map fun x => a * x + b) =
      (a * (weibullMsmGiven c xs).1 + b, a * (weibullMsmGiven c xs).2.1, c) := by
  have hb : ∀ g1 g2 : ℝ, wb_msm_b g1 g2 (central (xs.map fun x => a * x + b) 2) =
      a * wb_msm_b g1 g2 (central xs 2) := by
    intro g1 g2
    rw [wb_msm_b_eq, wb_msm_b_eq, central_two_affine xs a b hn, mul_div_assoc,
      Real.sqrt_mul (sq_nonneg a), Real.sqrt_sq ha.le]
  simp only [weibullMsmGiven, hb, wb_msm_a_eq, mean_affine xs a b hn]
  refine Prod.ext ?_ rfl
  simp only
  ring

end Qats.Dist
