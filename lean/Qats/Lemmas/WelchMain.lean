import Qats.Lemmas.WelchCore
/-!
Main lemmas behind the C13 property theorems (statements fixed by `Qats/Props/C13.lean`): the wrappers
`welchWith / welch` (`qats.signal.psd`), `psdTsWith / psdTs` (`TimeSeries.psd`) and `guiPsd`
(`app.funcs.calculate_psd`).  `TranscOps α` is an arbitrary instance: nothing depends on what `cos`, `sin`, `pi`
are, i.e. the transform is an arbitrary linear map and the window an arbitrary list of weights.
-/
namespace Qats.Welch
set_option linter.unusedSectionVars false
variable {α : Type} [Field α] [LinearOrder α] [IsStrictOrderedRing α]

/-- Multiply the densities by `k`, keep the frequencies. -/
def Psd.scale (k : α) (r : Psd α) : Psd α := ⟨r.f, r.p.map fun v => k * v⟩

theorem one_lit : (1.0 : α) = 1 := by norm_num

/-! ### `welchWith` -/

theorem welchWith_scale' (c s : Nat → Nat → α) (win : Nat → List α) (x : List α) (fs : α)
    (np nov nf : Option Nat) (a : α) :
    welchWith c s win (x.map fun v => a * v) fs np nov nf =
      (welchWith c s win x fs np nov nf).map (Psd.scale (a * a)) := by
  simp only [welchWith, List.length_map]
  split_ifs <;> simp [Except.map, Psd.scale, welchCore_scale]

theorem welchWith_shift' (c s : Nat → Nat → α) (win : Nat → List α) (x : List α) (fs : α)
    (np nov nf : Option Nat) (d : α) :
    welchWith c s win (x.map fun v => v + d) fs np nov nf = welchWith c s win x fs np nov nf := by
  simp only [welchWith, List.length_map, welchCore_shift]

/-- What a successful call returns. -/
theorem welchWith_ok (c s : Nat → Nat → α) (win : Nat → List α) (x : List α) (fs : α) (np nov nf : Option Nat)
    (r : Psd α) (h : welchWith c s win x fs np nov nf = .ok r) (hx : x ≠ []) :
    let nps := min (np.getD 256) x.length
    let nfft := nf.getD nps
    let novl := nov.getD (nps / 2)
    1 ≤ nps ∧ nps ≤ nfft ∧ novl < nps ∧
      r = ⟨freqs fs nfft, welchCore (c nfft) (s nfft) (win nps) nfft (densityScale fs (win nps)) novl x⟩ := by
  have hl : x.length ≠ 0 := fun h0 => hx (List.length_eq_zero_iff.mp h0)
  have hmin : (if x.length < np.getD 256 then x.length else np.getD 256) = min (np.getD 256) x.length := by
    split_ifs with h1
    · exact (min_eq_right (le_of_lt h1)).symm
    · exact (min_eq_left (not_lt.mp h1)).symm
  simp only [welchWith, hl, if_false, hmin] at h
  split_ifs at h with h1 h2 h3
  simp only [Except.ok.injEq] at h
  refine ⟨?_, not_lt.mp h2, not_le.mp h3, h.symm⟩
  have : 1 ≤ x.length := Nat.one_le_iff_ne_zero.mpr hl
  exact le_min (not_lt.mp h1) this

theorem welchWith_nonneg' (c s : Nat → Nat → α) (win : Nat → List α) (x : List α) (fs : α) (hfs : 0 ≤ fs)
    (np nov nf : Option Nat) (r : Psd α) (h : welchWith c s win x fs np nov nf = .ok r) : ∀ v ∈ r.p, 0 ≤ v := by
  by_cases hx : x = []
  · subst hx
    simp only [welchWith, List.length_nil, if_true, Except.ok.injEq] at h
    subst h
    simp
  · obtain ⟨_, _, _, hr⟩ := welchWith_ok c s win x fs np nov nf r h hx
    rw [hr]
    exact welchCore_nonneg _ _ _ _ _ (densityScale_nonneg fs hfs _) _ _

theorem welchWith_clip' (c s : Nat → Nat → α) (win : Nat → List α) (x : List α) (fs : α) (m : Nat)
    (hm : x.length ≤ m) (nov nf : Option Nat) :
    welchWith c s win x fs (some m) nov nf = welchWith c s win x fs (some x.length) nov nf := by
  by_cases hx : x.length = 0
  · simp [welchWith, hx]
  · have h1 : ¬ m < 1 := by omega
    have h2 : ¬ x.length < 1 := by omega
    simp only [welchWith, hx, if_false, Option.getD_some, h1, h2, lt_irrefl]
    by_cases h3 : x.length < m
    · simp only [h3, if_true]
    · have : m = x.length := by omega
      subst this
      simp

/-! ### the frequency grid as a list -/

/-- `0, 1/(m·dt), 2/(m·dt), …, ⌊m/2⌋/(m·dt)`. -/
def grid (m : Nat) (dt : α) : List α := (List.range (m / 2 + 1)).map fun (k : Nat) => (k : α) / ((m : α) * dt)

theorem grid_length (m : Nat) (dt : α) : (grid m dt).length = m / 2 + 1 := by simp [grid]

theorem grid_get (m : Nat) (dt : α) (k : Nat) (hk : k ≤ m / 2) : (grid m dt)[k]? = some ((k : α) / ((m : α) * dt)) := by
  simp only [grid, List.getElem?_map]
  rw [List.getElem?_range (by omega)]
  rfl

theorem grid_head (m : Nat) (dt : α) : (grid m dt).head? = some 0 := by
  simp [grid, List.range_succ_eq_map]

theorem grid_last (m : Nat) (dt : α) (hm : 1 ≤ m) (he : m % 2 = 0) :
    (grid m dt).getLast? = some (1 / (2 * dt)) := by
  rw [List.getLast?_eq_getElem?, grid_length, Nat.add_sub_cancel, grid_get m dt _ (le_refl _)]
  congr 1
  obtain ⟨q, rfl⟩ : ∃ q, m = 2 * q := ⟨m / 2, by omega⟩
  have hq : (q : α) ≠ 0 := by
    have : q ≠ 0 := by omega
    exact_mod_cast this
  have h2 : 2 * q / 2 = q := by omega
  rw [h2]
  push_cast
  by_cases hdt : dt = 0
  · subst hdt; simp
  · field_simp

/-- Consecutive frequencies differ by `1/(m·dt)`. -/
theorem grid_step (m : Nat) (dt : α) (k : Nat) (hk : k + 1 ≤ m / 2) :
    ∃ a b, (grid m dt)[k]? = some a ∧ (grid m dt)[k + 1]? = some b ∧ b - a = 1 / ((m : α) * dt) := by
  refine ⟨_, _, grid_get m dt k (by omega), grid_get m dt (k + 1) hk, ?_⟩
  push_cast
  ring

/-! ### `welch` = `qats.signal.psd` -/

section trig
variable [TranscOps α]

theorem welch_scale' (x : List α) (dt : α) (np nov nf : Option Nat) (a : α) :
    welch (x.map fun v => a * v) dt np nov nf = (welch x dt np nov nf).map (Psd.scale (a * a)) :=
  welchWith_scale' _ _ _ x _ np nov nf a

theorem welch_shift' (x : List α) (dt : α) (np nov nf : Option Nat) (d : α) :
    welch (x.map fun v => v + d) dt np nov nf = welch x dt np nov nf :=
  welchWith_shift' _ _ _ x _ np nov nf d

/-- Frequencies divided by `k`, densities multiplied by `k`. -/
def Psd.timeUnit (k : α) (r : Psd α) : Psd α := ⟨r.f.map fun v => v / k, r.p.map fun v => k * v⟩

theorem welch_timeUnit' (x : List α) (dt k0 : α) (np nov nf : Option Nat) :
    welch x (k0 * dt) np nov nf = (welch x dt np nov nf).map (Psd.timeUnit k0) := by
  simp only [welch, welchWith]
  split_ifs <;>
    simp [Except.map, Psd.timeUnit, densityScale_timeUnit, welchCore_scaleFactor, freqs_timeUnit]

theorem welch_nonneg' (x : List α) (dt : α) (hdt : 0 ≤ dt) (np nov nf : Option Nat) (r : Psd α)
    (h : welch x dt np nov nf = .ok r) : ∀ v ∈ r.p, 0 ≤ v := by
  apply welchWith_nonneg' _ _ _ x _ _ np nov nf r h
  rw [one_lit]
  exact div_nonneg zero_le_one hdt

theorem welch_freq' (x : List α) (dt : α) (np nov nf : Option Nat) (r : Psd α) (h : welch x dt np nov nf = .ok r)
    (hx : x ≠ []) :
    r.f = grid (nf.getD (min (np.getD 256) x.length)) dt := by
  obtain ⟨_, _, _, hr⟩ := welchWith_ok _ _ _ x _ np nov nf r h hx
  rw [hr]
  exact freqs_eq dt _

theorem welch_lengths' (x : List α) (dt : α) (np nov nf : Option Nat) (r : Psd α) (h : welch x dt np nov nf = .ok r)
    (hx : x ≠ []) :
    r.f.length = nf.getD (min (np.getD 256) x.length) / 2 + 1 ∧
      r.p.length = nf.getD (min (np.getD 256) x.length) / 2 + 1 := by
  obtain ⟨_, _, _, hr⟩ := welchWith_ok _ _ _ x _ np nov nf r h hx
  rw [hr]
  simp [freqs, welchCore_length]

theorem welch_grid' (x : List α) (dt : α) (np nov nf : Option Nat) (r : Psd α)
    (h : welch x dt np nov nf = .ok r) (hx : x ≠ []) :
    r.f = grid (nf.getD (min (np.getD 256) x.length)) dt ∧ r.p.length = r.f.length := by
  have hl := welch_lengths' x dt np nov nf r h hx
  exact ⟨welch_freq' x dt np nov nf r h hx, by rw [hl.1, hl.2]⟩

theorem welch_clip' (x : List α) (dt : α) (m : Nat) (hm : x.length ≤ m) (nov nf : Option Nat) :
    welch x dt (some m) nov nf = welch x dt (some x.length) nov nf :=
  welchWith_clip' _ _ _ x _ m hm nov nf

/-- The call succeeds exactly when scipy's argument checks pass. -/
theorem welch_ok_iff' (x : List α) (dt : α) (np nov nf : Option Nat) (hx : x ≠ []) :
    (∃ r, welch x dt np nov nf = .ok r) ↔
      1 ≤ np.getD 256 ∧ min (np.getD 256) x.length ≤ nf.getD (min (np.getD 256) x.length) ∧
        nov.getD (min (np.getD 256) x.length / 2) < min (np.getD 256) x.length := by
  constructor
  · rintro ⟨r, h⟩
    obtain ⟨h1, h2, h3, _⟩ := welchWith_ok _ _ _ x _ np nov nf r h hx
    exact ⟨le_trans h1 (min_le_left _ _), h2, h3⟩
  · rintro ⟨h1, h2, h3⟩
    have hl : x.length ≠ 0 := fun h0 => hx (List.length_eq_zero_iff.mp h0)
    have hmin : (if x.length < np.getD 256 then x.length else np.getD 256) = min (np.getD 256) x.length := by
      split_ifs with h1
      · exact (min_eq_right (le_of_lt h1)).symm
      · exact (min_eq_left (not_lt.mp h1)).symm
    simp only [welch, welchWith, hl, if_false, hmin, not_lt.mpr h1, not_lt.mpr h2, not_le.mpr h3]
    exact ⟨_, rfl⟩

end trig

/-! ### `psdTsWith` -/

theorem diffs_length (t : List α) : (diffs t).length = t.length - 1 := by
  induction t with
  | nil => simp [diffs]
  | cons a t ih =>
    cases t with
    | nil => simp [diffs]
    | cons b t => simp only [diffs, List.length_cons, ih]; omega

theorem absv_nonneg (a : α) : 0 ≤ absv a := by
  simp only [absv]
  split_ifs with h
  · linarith
  · exact not_lt.mp h

theorem absv_of_nonneg (a : α) (h : 0 ≤ a) : absv a = a := by
  simp only [absv]
  rw [if_neg (not_lt.mpr h)]

theorem absv_eq_abs (a : α) : absv a = |a| := by
  simp only [absv]
  split_ifs with h
  · exact (abs_of_neg h).symm
  · exact (abs_of_nonneg (not_lt.mp h)).symm

/-- The result for a given estimator outcome. -/
def finishTs (nz : Bool) : Except Err (Psd α) → Except Err (Psd α)
  | .error e => .error e
  | .ok r => .ok (if nz then ⟨r.f, normalise r.p⟩ else r)

theorem psdTsWith_nil (est : List α → α → Option Nat → Option Nat → Option Nat → Except Err (Psd α))
    (t x : List α) (np nov nf : Option Nat) (nz : Bool) (hd : diffs t = []) :
    psdTsWith est t x np nov nf nz = .error .value := by
  simp only [psdTsWith, hd]

theorem psdTsWith_cons (est : List α → α → Option Nat → Option Nat → Option Nat → Except Err (Psd α))
    (t x : List α) (np nov nf : Option Nat) (nz : Bool) (d : α) (ds : List α) (hd : diffs t = d :: ds) :
    psdTsWith est t x np nov nf nz =
      if stepsClose (minL d ds) (maxL d ds) = true then
        finishTs nz (est x (mean (d :: ds)) (some (np.getD (x.length / 4))) nov nf)
      else .error .guard := by
  simp only [psdTsWith, hd]
  by_cases hc : stepsClose (minL d ds) (maxL d ds) = true
  · rw [if_neg (not_not.mpr hc), if_pos hc]
    cases est x (mean (d :: ds)) (some (np.getD (x.length / 4))) nov nf <;> rfl
  · rw [if_pos hc, if_neg hc]

/-- The estimator sees `x` only: replacing `x` by a signal of the same length on which the estimator agrees. -/
theorem psdTsWith_congr (est : List α → α → Option Nat → Option Nat → Option Nat → Except Err (Psd α))
    (t x x' : List α) (np nov nf : Option Nat) (nz : Bool) (hl : x'.length = x.length)
    (hest : ∀ dt np nov nf, est x' dt np nov nf = est x dt np nov nf) :
    psdTsWith est t x' np nov nf nz = psdTsWith est t x np nov nf nz := by
  simp only [psdTsWith, hl, hest]

theorem psdTsWith_map (est : List α → α → Option Nat → Option Nat → Option Nat → Except Err (Psd α))
    (g : Psd α → Psd α) (t x x' : List α) (np nov nf : Option Nat) (hl : x'.length = x.length)
    (hest : ∀ dt np nov nf, est x' dt np nov nf = (est x dt np nov nf).map g) :
    psdTsWith est t x' np nov nf false = (psdTsWith est t x np nov nf false).map g := by
  cases hd : diffs t with
  | nil => rw [psdTsWith_nil _ _ _ _ _ _ _ hd, psdTsWith_nil _ _ _ _ _ _ _ hd]; rfl
  | cons d ds =>
    rw [psdTsWith_cons _ _ _ _ _ _ _ d ds hd, psdTsWith_cons _ _ _ _ _ _ _ d ds hd, hl, hest]
    by_cases hc : stepsClose (minL d ds) (maxL d ds) = true
    · simp only [hc, if_true]
      cases est x (mean (d :: ds)) (some (np.getD (x.length / 4))) nov nf <;> simp [Except.map, finishTs]
    · rw [if_neg hc, if_neg hc]
      rfl

theorem normalise_scale (k : α) (hk : 0 < k) (p : List α) :
    normalise (p.map fun v => k * v) = normalise p := by
  cases p with
  | nil => rfl
  | cons a l =>
    simp only [List.map_cons, normalise, maxL_scale k hk, List.map_map]
    congr 1
    · exact mul_div_mul_left a (maxL a l) (ne_of_gt hk)
    · apply List.map_congr_left
      intro v _
      simp only [Function.comp]
      exact mul_div_mul_left v (maxL a l) (ne_of_gt hk)

theorem psdTsWith_normalised_scale (est : List α → α → Option Nat → Option Nat → Option Nat → Except Err (Psd α))
    (k : α) (hk : 0 < k) (t x x' : List α) (np nov nf : Option Nat) (hl : x'.length = x.length)
    (hest : ∀ dt np nov nf, est x' dt np nov nf = (est x dt np nov nf).map (Psd.scale k)) :
    psdTsWith est t x' np nov nf true = psdTsWith est t x np nov nf true := by
  cases hd : diffs t with
  | nil => rw [psdTsWith_nil _ _ _ _ _ _ _ hd, psdTsWith_nil _ _ _ _ _ _ _ hd]
  | cons d ds =>
    rw [psdTsWith_cons _ _ _ _ _ _ _ d ds hd, psdTsWith_cons _ _ _ _ _ _ _ d ds hd, hl, hest]
    by_cases hc : stepsClose (minL d ds) (maxL d ds) = true
    · simp only [hc, if_true]
      cases est x (mean (d :: ds)) (some (np.getD (x.length / 4))) nov nf with
      | error e => simp [Except.map, finishTs]
      | ok r => simp [Except.map, finishTs, Psd.scale, normalise_scale k hk]
    · rw [if_neg hc, if_neg hc]

/-- Unfolding of a successful `TimeSeries.psd`. -/
theorem psdTsWith_ok (est : List α → α → Option Nat → Option Nat → Option Nat → Except Err (Psd α))
    (t x : List α) (np nov nf : Option Nat) (nz : Bool) (r : Psd α)
    (h : psdTsWith est t x np nov nf nz = .ok r) :
    ∃ r0, est x (mean (diffs t)) (some (np.getD (x.length / 4))) nov nf = .ok r0 ∧
      r = (if nz then ⟨r0.f, normalise r0.p⟩ else r0) := by
  cases hd : diffs t with
  | nil => rw [psdTsWith_nil _ _ _ _ _ _ _ hd] at h; cases h
  | cons d ds =>
    rw [psdTsWith_cons _ _ _ _ _ _ _ d ds hd] at h
    by_cases hc : stepsClose (minL d ds) (maxL d ds) = true
    · simp only [hc, if_true] at h
      cases he : est x (mean (d :: ds)) (some (np.getD (x.length / 4))) nov nf with
      | error e => rw [he] at h; cases h
      | ok r0 =>
        rw [he] at h
        simp only [finishTs, Except.ok.injEq] at h
        exact ⟨r0, rfl, h.symm⟩
    · rw [if_neg hc] at h
      cases h

theorem psdTsWith_guard_rejects (est : List α → α → Option Nat → Option Nat → Option Nat → Except Err (Psd α))
    (t x : List α) (np nov nf : Option Nat) (nz : Bool) (a b : α) (ha : a ∈ diffs t) (hb : b ∈ diffs t)
    (hb0 : 0 ≤ b) (hvar : (1.0e-2 : α) * b + (1.0e-6 : α) < b - a) :
    psdTsWith est t x np nov nf nz = .error .guard := by
  cases hd : diffs t with
  | nil => simp [hd] at ha
  | cons d ds =>
    rw [psdTsWith_cons _ _ _ _ _ _ _ d ds hd]
    rw [hd] at ha hb
    have hmin : minL d ds ≤ a := by
      rcases List.mem_cons.mp ha with rfl | h
      · exact (minL_le _ ds).1
      · exact (minL_le d ds).2 a h
    have hmax : b ≤ maxL d ds := by
      rcases List.mem_cons.mp hb with rfl | h
      · exact (le_maxL _ ds).1
      · exact (le_maxL d ds).2 b h
    have hM : 0 ≤ maxL d ds := le_trans hb0 hmax
    have hnot : ¬ (stepsClose (minL d ds) (maxL d ds) = true) := by
      simp only [stepsClose, decide_eq_true_eq, absv_eq_abs, abs_of_nonneg hM]
      rw [abs_sub_comm, abs_of_nonneg (by linarith : (0 : α) ≤ maxL d ds - minL d ds)]
      norm_num at hvar ⊢
      linarith
    rw [if_neg hnot]

theorem stepsClose_self (h : α) : stepsClose h h = true := by
  simp only [stepsClose, decide_eq_true_eq, sub_self, absv_eq_abs, abs_zero]
  have := abs_nonneg h
  norm_num
  positivity

theorem psdTsWith_uniform (est : List α → α → Option Nat → Option Nat → Option Nat → Except Err (Psd α))
    (t x : List α) (np nov nf : Option Nat) (nz : Bool) (h : α) (ht : 2 ≤ t.length) (hu : ∀ d ∈ diffs t, d = h) :
    psdTsWith est t x np nov nf nz = finishTs nz (est x h (some (np.getD (x.length / 4))) nov nf) := by
  cases hd : diffs t with
  | nil =>
    have := diffs_length t
    rw [hd] at this
    simp at this
    omega
  | cons d ds =>
    rw [psdTsWith_cons _ _ _ _ _ _ _ d ds hd]
    rw [hd] at hu
    have h1 : minL d ds = h := hu _ (minL_mem d ds)
    have h2 : maxL d ds = h := hu _ (maxL_mem d ds)
    have hm : mean (d :: ds) = h := by
      have hall : ∀ l : List α, (∀ v ∈ l, v = h) → sum l = (l.length : α) * h := by
        intro l hl
        induction l with
        | nil => simp [sum]
        | cons b l ih =>
          simp only [sum, List.length_cons]
          rw [ih fun v hv => hl v (by simp [hv]), hl b (by simp)]
          push_cast
          ring
      simp only [mean, hall (d :: ds) hu]
      have : ((d :: ds).length : α) ≠ 0 := by
        simp only [List.length_cons]
        exact_mod_cast Nat.succ_ne_zero ds.length
      field_simp
    rw [h1, h2, stepsClose_self, hm]
    simp

/-! ### normalisation -/

theorem normalise_spec (a : α) (l : List α) (hpos : 0 < maxL a l) :
    (∀ v ∈ normalise (a :: l), v ≤ 1) ∧ (1 : α) ∈ normalise (a :: l) := by
  constructor
  · intro v hv
    simp only [normalise, List.mem_map] at hv
    obtain ⟨u, hu, rfl⟩ := hv
    rw [div_le_one hpos]
    rcases List.mem_cons.mp hu with rfl | hu
    · exact (le_maxL _ l).1
    · exact (le_maxL a l).2 u hu
  · simp only [normalise, List.mem_map]
    exact ⟨maxL a l, maxL_mem a l, div_self (ne_of_gt hpos)⟩

theorem normalise_length (p : List α) : (normalise p).length = p.length := by
  cases p <;> simp [normalise]

theorem normalise_nonneg (p : List α) (h : ∀ v ∈ p, 0 ≤ v) : ∀ v ∈ normalise p, 0 ≤ v := by
  cases p with
  | nil => simp [normalise]
  | cons a l =>
    intro v hv
    simp only [normalise, List.mem_map] at hv
    obtain ⟨u, hu, rfl⟩ := hv
    exact div_nonneg (h u hu) (le_trans (h a (by simp)) (le_maxL a l).1)

theorem maxL_pos_of_exists (a : α) (l : List α) (h : ∃ v ∈ a :: l, 0 < v) : 0 < maxL a l := by
  obtain ⟨v, hv, hpos⟩ := h
  rcases List.mem_cons.mp hv with rfl | hv
  · exact lt_of_lt_of_le hpos (le_maxL _ l).1
  · exact lt_of_lt_of_le hpos ((le_maxL a l).2 v hv)

/-! ### `psdTs` = `TimeSeries.psd` -/

section trig
variable [TranscOps α]

theorem psdTs_scale' (t x : List α) (np nov nf : Option Nat) (a : α) :
    psdTs t (x.map fun v => a * v) np nov nf false = (psdTs t x np nov nf false).map (Psd.scale (a * a)) :=
  psdTsWith_map welch _ t x _ np nov nf (List.length_map _) fun dt np nov nf => welch_scale' x dt np nov nf a

theorem psdTs_normalised_scale' (t x : List α) (np nov nf : Option Nat) (a : α) (ha : a ≠ 0) :
    psdTs t (x.map fun v => a * v) np nov nf true = psdTs t x np nov nf true :=
  psdTsWith_normalised_scale welch (a * a) (mul_self_pos.mpr ha) t x _ np nov nf (List.length_map _)
    fun dt np nov nf => welch_scale' x dt np nov nf a

theorem psdTs_shift' (t x : List α) (np nov nf : Option Nat) (nz : Bool) (d : α) :
    psdTs t (x.map fun v => v + d) np nov nf nz = psdTs t x np nov nf nz :=
  psdTsWith_congr welch t x _ np nov nf nz (List.length_map _) fun dt np nov nf => welch_shift' x dt np nov nf d

theorem psdTs_guard_rejects' (t x : List α) (np nov nf : Option Nat) (nz : Bool) (a b : α) (ha : a ∈ diffs t)
    (hb : b ∈ diffs t) (hb0 : 0 ≤ b) (hvar : (1.0e-2 : α) * b + (1.0e-6 : α) < b - a) :
    psdTs t x np nov nf nz = .error .guard :=
  psdTsWith_guard_rejects welch t x np nov nf nz a b ha hb hb0 hvar

theorem mean_nonneg (l : List α) (h : ∀ v ∈ l, 0 ≤ v) : 0 ≤ mean l :=
  div_nonneg (sum_nonneg l h) (Nat.cast_nonneg _)

theorem psdTs_nonneg' (t x : List α) (np nov nf : Option Nat) (nz : Bool) (r : Psd α)
    (h : psdTs t x np nov nf nz = .ok r) (ht : ∀ d ∈ diffs t, 0 ≤ d) : ∀ v ∈ r.p, 0 ≤ v := by
  obtain ⟨r0, h0, hr⟩ := psdTsWith_ok welch t x np nov nf nz r h
  have hnn := welch_nonneg' x _ (mean_nonneg _ ht) _ nov nf r0 h0
  rw [hr]
  cases nz with
  | false => simpa using hnn
  | true => simpa using normalise_nonneg r0.p hnn

theorem psdTs_freq' (t x : List α) (np nov nf : Option Nat) (nz : Bool) (r : Psd α)
    (h : psdTs t x np nov nf nz = .ok r) (hx : x ≠ []) :
    r.f = grid (nf.getD (min (np.getD (x.length / 4)) x.length)) (mean (diffs t)) := by
  obtain ⟨r0, h0, hr⟩ := psdTsWith_ok welch t x np nov nf nz r h
  have hf := welch_freq' x _ _ nov nf r0 h0 hx
  simp only [Option.getD_some] at hf
  rw [hr]
  cases nz <;> simpa using hf

theorem psdTs_lengths' (t x : List α) (np nov nf : Option Nat) (nz : Bool) (r : Psd α)
    (h : psdTs t x np nov nf nz = .ok r) (hx : x ≠ []) :
    r.f.length = nf.getD (min (np.getD (x.length / 4)) x.length) / 2 + 1 ∧
      r.p.length = nf.getD (min (np.getD (x.length / 4)) x.length) / 2 + 1 := by
  obtain ⟨r0, h0, hr⟩ := psdTsWith_ok welch t x np nov nf nz r h
  have hf := welch_lengths' x _ _ nov nf r0 h0 hx
  simp only [Option.getD_some] at hf
  rw [hr]
  cases nz <;> simpa [normalise_length] using hf

theorem psdTs_grid' (t x : List α) (np nov nf : Option Nat) (nz : Bool) (r : Psd α)
    (h : psdTs t x np nov nf nz = .ok r) (hx : x ≠ []) :
    r.f = grid (nf.getD (min (np.getD (x.length / 4)) x.length)) (mean (diffs t)) ∧ r.p.length = r.f.length := by
  have hl := psdTs_lengths' t x np nov nf nz r h hx
  exact ⟨psdTs_freq' t x np nov nf nz r h hx, by rw [hl.1, hl.2]⟩

theorem psdTs_normalised' (t x : List α) (np nov nf : Option Nat) (r0 : Psd α)
    (h0 : psdTs t x np nov nf false = .ok r0) (hpos : ∃ v ∈ r0.p, 0 < v) :
    ∃ r, psdTs t x np nov nf true = .ok r ∧ r.f = r0.f ∧ r.p.length = r0.p.length ∧
      (∀ v ∈ r.p, v ≤ 1) ∧ (1 : α) ∈ r.p := by
  obtain ⟨r1, h1, hr⟩ := psdTsWith_ok welch t x np nov nf false r0 h0
  simp only [Bool.false_eq_true, if_false] at hr
  subst hr
  have : psdTs t x np nov nf true = .ok ⟨r0.f, normalise r0.p⟩ := by
    cases hd : diffs t with
    | nil => rw [psdTs, psdTsWith_nil _ _ _ _ _ _ _ hd] at h0; cases h0
    | cons d ds =>
      rw [psdTs, psdTsWith_cons _ _ _ _ _ _ _ d ds hd] at h0 ⊢
      by_cases hc : stepsClose (minL d ds) (maxL d ds) = true
      · rw [if_pos hc]
        rw [hd] at h1
        rw [h1]
        simp [finishTs]
      · rw [if_neg hc] at h0
        cases h0
  refine ⟨_, this, rfl, normalise_length _, ?_⟩
  cases hp : r0.p with
  | nil =>
    rw [hp] at hpos
    simp at hpos
  | cons a l =>
    rw [hp] at hpos
    exact normalise_spec a l (maxL_pos_of_exists a l hpos)

theorem psdTs_default_ok' (t x : List α) (nz : Bool) (h : α) (hl : t.length = x.length) (h4 : 4 ≤ x.length)
    (hu : ∀ d ∈ diffs t, d = h) :
    ∃ r, psdTs t x none none none nz = .ok r ∧ r.f.length = x.length / 4 / 2 + 1 ∧
      r.p.length = x.length / 4 / 2 + 1 := by
  have hx : x ≠ [] := by
    intro h0
    rw [h0] at h4
    simp at h4
  have hmin : min (x.length / 4) x.length = x.length / 4 := min_eq_left (Nat.div_le_self _ _)
  have hok : ∃ r, welch x h (some (x.length / 4)) none none = .ok r := by
    rw [welch_ok_iff' x h _ none none hx]
    simp only [Option.getD_some, Option.getD_none, hmin]
    omega
  obtain ⟨r0, hr0⟩ := hok
  have hu' := psdTsWith_uniform welch t x none none none nz h (by omega) hu
  simp only [Option.getD_none, hr0] at hu'
  refine ⟨_, hu', ?_⟩
  have hlen := welch_lengths' x h _ none none r0 hr0 hx
  simp only [Option.getD_some, Option.getD_none, hmin] at hlen
  cases nz <;> simpa [normalise_length] using hlen

theorem psdTs_uniform_eq' (t x : List α) (np nov nf : Option Nat) (h : α) (ht : 2 ≤ t.length)
    (hu : ∀ d ∈ diffs t, d = h) :
    psdTs t x np nov nf false = welch x h (some (np.getD (x.length / 4))) nov nf := by
  rw [psdTs, psdTsWith_uniform welch t x np nov nf false h ht hu]
  cases welch x h (some (np.getD (x.length / 4))) nov nf <;> simp [finishTs]

theorem psdTs_uniform_not_guard' (t x : List α) (np nov nf : Option Nat) (nz : Bool) (h : α)
    (hu : ∀ d ∈ diffs t, d = h) : psdTs t x np nov nf nz ≠ .error .guard := by
  by_cases ht : 2 ≤ t.length
  · rw [psdTs, psdTsWith_uniform welch t x np nov nf nz h ht hu]
    cases he : welch x h (some (np.getD (x.length / 4))) nov nf with
    | ok r => simp [finishTs]
    | error e =>
      simp only [finishTs, ne_eq, Except.error.injEq]
      -- `welch` never raises the guard error
      intro hg
      subst hg
      simp only [welch, welchWith] at he
      split_ifs at he <;> cases he
  · have : diffs t = [] := by
      have := diffs_length t
      apply List.length_eq_zero_iff.mp
      omega
    simp [psdTs, psdTsWith, this]

end trig

theorem segCount_default' (q : Nat) (hq : 1 ≤ q) : segCount (8 * q) (8 * q / 4) (8 * q / 4 / 2) = 7 := by
  have h1 : 8 * q / 4 = 2 * q := by omega
  have h2 : 2 * q / 2 = q := by omega
  simp only [segCount, h1, h2]
  have : 8 * q - q = 7 * q := by omega
  have h3 : 2 * q - q = q := by omega
  rw [this, h3]
  exact Nat.mul_div_cancel _ (by omega)

/-! ### the GUI path -/

theorem interp1_scale (a : α) (t x : List α) (u : α) :
    interp1 t (x.map fun v => a * v) u = a * interp1 t x u := by
  induction t generalizing x with
  | nil =>
    cases x with
    | nil => simp [interp1]
    | cons x0 xs => simp [interp1]
  | cons t0 ts ih =>
    cases ts with
    | nil =>
      cases x with
      | nil => simp [interp1]
      | cons x0 xs => simp [interp1]
    | cons t1 ts =>
      cases x with
      | nil => simp [interp1]
      | cons x0 xs =>
        cases xs with
        | nil => simp [interp1]
        | cons x1 xs =>
          have := ih (x1 :: xs)
          simp only [List.map_cons] at this ⊢
          simp only [interp1]
          split_ifs
          · ring
          · exact this

theorem interp1_shift (d : α) (t x : List α) (hx : x ≠ []) (u : α) :
    interp1 t (x.map fun v => v + d) u = interp1 t x u + d := by
  induction t generalizing x with
  | nil =>
    cases x with
    | nil => exact absurd rfl hx
    | cons x0 xs => simp [interp1]
  | cons t0 ts ih =>
    cases ts with
    | nil =>
      cases x with
      | nil => exact absurd rfl hx
      | cons x0 xs => simp [interp1]
    | cons t1 ts =>
      cases x with
      | nil => exact absurd rfl hx
      | cons x0 xs =>
        cases xs with
        | nil => simp [interp1]
        | cons x1 xs =>
          have := ih (x1 :: xs) (by simp)
          simp only [List.map_cons] at this ⊢
          simp only [interp1]
          split_ifs
          · ring
          · exact this

section trig
variable [TranscOps α]

theorem taper_scale (alpha a : α) (x : List α) :
    taper alpha (x.map fun v => a * v) = (taper alpha x).map fun v => a * v := by
  simp only [taper, List.length_map]
  generalize List.range x.length = idx
  generalize x.length = n
  induction x generalizing idx with
  | nil => simp
  | cons v x ih =>
    cases idx with
    | nil => simp
    | cons i idx =>
      simp only [List.map_cons, List.zipWith_cons_cons, ih]
      congr 1
      ring

theorem taper_length (alpha : α) (x : List α) : (taper alpha x).length = x.length := by
  simp [taper]

theorem taperAboutMean_scale (alpha a : α) (x : List α) :
    taperAboutMean alpha (x.map fun v => a * v) = (taperAboutMean alpha x).map fun v => a * v := by
  simp only [taperAboutMean, mean_scale, List.map_map]
  have : ((fun v => v - a * mean x) ∘ fun v => a * v) = ((fun v => a * v) ∘ fun v => v - mean x) := by
    funext v
    simp only [Function.comp]
    ring
  rw [this, ← List.map_map, taper_scale, List.map_map]
  apply List.map_congr_left
  intro v _
  simp only [Function.comp]
  ring

theorem taperAboutMean_shift (alpha d : α) (x : List α) :
    taperAboutMean alpha (x.map fun v => v + d) = (taperAboutMean alpha x).map fun v => v + d := by
  by_cases hx : x = []
  · subst hx
    simp [taperAboutMean, taper]
  · simp only [taperAboutMean, mean_shift d x hx, List.map_map]
    have : ((fun v => v - (mean x + d)) ∘ fun v => v + d) = fun v => v - mean x := by
      funext v
      simp only [Function.comp]
      ring
    rw [this]
    apply List.map_congr_left
    intro v _
    simp only [Function.comp]
    ring

theorem guiSignal_scale (a : α) (t x : List α) :
    guiSignal t (x.map fun v => a * v) = ((guiSignal t x).1, (guiSignal t x).2.map fun v => a * v) := by
  simp only [guiSignal]
  cases t with
  | nil => simp
  | cons t0 ts =>
    cases hl : (t0 :: ts).getLast? with
    | none => simp
    | some t1 =>
      simp only
      rw [← taperAboutMean_scale]
      congr 2
      simp only [List.map_map]
      apply List.map_congr_left
      intro u _
      simp only [Function.comp, interp1_scale]

theorem guiSignal_shift (d : α) (t x : List α) (hx : x ≠ []) :
    guiSignal t (x.map fun v => v + d) = ((guiSignal t x).1, (guiSignal t x).2.map fun v => v + d) := by
  simp only [guiSignal]
  cases t with
  | nil => simp
  | cons t0 ts =>
    cases hl : (t0 :: ts).getLast? with
    | none => simp
    | some t1 =>
      simp only
      rw [← taperAboutMean_shift]
      congr 2
      simp only [List.map_map]
      apply List.map_congr_left
      intro u _
      simp only [Function.comp, interp1_shift d _ x hx]

theorem guiPsd_scale' (t x : List α) (m : Nat) (a : α) :
    guiPsd t (x.map fun v => a * v) m false = (guiPsd t x m false).map (Psd.scale (a * a)) := by
  simp only [guiPsd, guiSignal_scale]
  exact psdTs_scale' _ _ _ _ _ a

theorem guiPsd_shift' (t x : List α) (m : Nat) (nz : Bool) (d : α) :
    guiPsd t (x.map fun v => v + d) m nz = guiPsd t x m nz := by
  by_cases hx : x = []
  · subst hx; rfl
  · simp only [guiPsd, guiSignal_shift d t x hx]
    exact psdTs_shift' _ _ _ _ _ nz d

theorem guiPsd_clip' (t x : List α) (m : Nat) (nz : Bool) (hm : t.length ≤ m) :
    guiPsd t x m nz = guiPsd t x t.length nz := by
  simp only [guiPsd, lt_irrefl, if_false]
  by_cases h : t.length < m
  · simp [h]
  · have : m = t.length := by omega
    subst this
    simp

end trig

/-! ### exact 4-point transform for rational examples -/

/-- `cos(2π m/4)` and `sin(2π m/4)`. -/
def c4 (m : Nat) : Rat := if m % 4 = 0 then 1 else if m % 4 = 2 then -1 else 0
def s4 (m : Nat) : Rat := if m % 4 = 1 then 1 else if m % 4 = 3 then -1 else 0

end Qats.Welch
