import Qats.Model.Rebin
import Mathlib.Tactic
import Mathlib.Algebra.BigOperators.Ring.List
import Mathlib.Algebra.Order.BigOperators.Group.List
/-!
Helper lemmas for the re-binning model: the model's `sum` is `List.sum`; sums of filtered weights as sums of indicator
terms; the partition-by-index identity behind all the conservation statements.
-/
namespace Qats.Rebin
set_option linter.unusedSectionVars false
variable {α : Type} [Field α] [LinearOrder α] [IsStrictOrderedRing α]
variable {β : Type}

theorem foldl_add_eq (l : List α) (acc : α) : l.foldl (· + ·) acc = acc + l.sum := by
  induction l generalizing acc with
  | nil => simp
  | cons x l ih => rw [List.foldl_cons, ih, List.sum_cons]; ring

theorem sum_eq (l : List α) : sum l = l.sum := by
  have h := foldl_add_eq l 0
  rw [zero_add] at h
  exact h

/-- The sum of the weights kept by a `filterMap` is the sum of the indicator terms. -/
theorem sum_filterMap_ite (l : List β) (b : β → Bool) (w : β → α) :
    sum (l.filterMap fun x => if b x then some (w x) else none) = (l.map fun x => if b x then w x else 0).sum := by
  rw [sum_eq]
  induction l with
  | nil => simp
  | cons x l ih =>
    by_cases hb : b x = true
    · simp [hb, ih]
    · simp [hb, ih]

/-- Exactly one index of `range nb` matches `j0 < nb`. -/
theorem sum_range_ite (nb j0 : Nat) (h : j0 < nb) (w : α) :
    ((List.range nb).map fun j => if (some j0 : Option Nat) == some j then w else 0).sum = w := by
  induction nb with
  | zero => omega
  | succ n ih =>
    rw [List.range_succ, List.map_append, List.sum_append]
    by_cases hj : j0 = n
    · subst hj
      have h0 : ((List.range j0).map fun j => if (some j0 : Option Nat) == some j then w else 0).sum = 0 := by
        apply List.sum_eq_zero
        intro x hx
        simp only [List.mem_map, List.mem_range] at hx
        obtain ⟨j, hj, rfl⟩ := hx
        have : j0 ≠ j := by omega
        simp [this]
      rw [h0]
      simp
    · rw [ih (by omega)]
      simp [hj]

theorem sum_range_none (nb : Nat) (w : α) :
    ((List.range nb).map fun j => if (none : Option Nat) == some j then w else 0).sum = 0 := by
  apply List.sum_eq_zero
  intro x hx
  simp only [List.mem_map] at hx
  obtain ⟨j, _, rfl⟩ := hx
  simp

/-- Partition by index: if every element has an index below `nb`, the per-index sums add up to the total. -/
theorem sum_cells (l : List β) (k : β → Option Nat) (w : β → α) (nb : Nat)
    (hk : ∀ x ∈ l, ∃ j, j < nb ∧ k x = some j) :
    ((List.range nb).map fun j => (l.map fun x => if k x == some j then w x else 0).sum).sum = (l.map w).sum := by
  induction l with
  | nil => simp
  | cons x l ih =>
    simp only [List.map_cons, List.sum_cons]
    rw [List.sum_map_add, ih (fun y hy => hk y (List.mem_cons_of_mem _ hy))]
    obtain ⟨j0, hj0, hx⟩ := hk x List.mem_cons_self
    rw [hx, sum_range_ite nb j0 hj0]

/-- An index that no element has collects nothing. -/
theorem sum_cell_empty (l : List β) (k : β → Option Nat) (w : β → α) (j : Nat)
    (hk : ∀ x ∈ l, k x ≠ some j) : (l.map fun x => if k x == some j then w x else 0).sum = 0 := by
  apply List.sum_eq_zero
  intro y hy
  simp only [List.mem_map] at hy
  obtain ⟨x, hx, rfl⟩ := hy
  simp [hk x hx]

/-- Positive weights: an index that some element has collects a positive total. -/
theorem sum_cell_pos (l : List β) (k : β → Option Nat) (w : β → α) (j : Nat)
    (hw : ∀ x ∈ l, 0 < w x) (hk : ∃ x ∈ l, k x = some j) :
    0 < (l.map fun x => if k x == some j then w x else 0).sum := by
  obtain ⟨x, hx, hkx⟩ := hk
  have hnn : ∀ y ∈ (l.map fun x => if k x == some j then w x else 0), 0 ≤ y := by
    intro y hy
    simp only [List.mem_map] at hy
    obtain ⟨z, hz, rfl⟩ := hy
    split
    · exact (hw z hz).le
    · exact le_rfl
  have hmem : w x ∈ (l.map fun x => if k x == some j then w x else 0) := by
    simp only [List.mem_map]
    exact ⟨x, hx, by simp [hkx]⟩
  exact lt_of_lt_of_le (hw x hx) (List.single_le_sum hnn _ hmem)

/-- Two indices: summing the cells over the first index drops the first condition. -/
theorem sum_cells2_first (l : List β) (k1 k2 : β → Option Nat) (w : β → α) (n1 j2 : Nat)
    (hk : ∀ x ∈ l, ∃ j, j < n1 ∧ k1 x = some j) :
    ((List.range n1).map fun j1 =>
        (l.map fun x => if (k1 x == some j1 && k2 x == some j2) then w x else 0).sum).sum =
      (l.map fun x => if k2 x == some j2 then w x else 0).sum := by
  rw [← sum_cells l k1 (fun x => if k2 x == some j2 then w x else 0) n1 hk]
  congr 1
  apply List.map_congr_left
  intro j1 _
  congr 1
  apply List.map_congr_left
  intro x _
  by_cases h1 : (k1 x == some j1) = true <;> by_cases h2 : (k2 x == some j2) = true <;> simp [h1, h2]

/-- Two indices: summing the cells over the second index drops the second condition. -/
theorem sum_cells2_second (l : List β) (k1 k2 : β → Option Nat) (w : β → α) (n2 j1 : Nat)
    (hk : ∀ x ∈ l, ∃ j, j < n2 ∧ k2 x = some j) :
    ((List.range n2).map fun j2 =>
        (l.map fun x => if (k1 x == some j1 && k2 x == some j2) then w x else 0).sum).sum =
      (l.map fun x => if k1 x == some j1 then w x else 0).sum := by
  rw [← sum_cells l k2 (fun x => if k1 x == some j1 then w x else 0) n2 hk]
  congr 1
  apply List.map_congr_left
  intro j2 _
  congr 1
  apply List.map_congr_left
  intro x _
  by_cases h1 : (k1 x == some j1) = true <;> by_cases h2 : (k2 x == some j2) = true <;> simp [h1, h2]

end Qats.Rebin
