import Qats.Model.Dist
import Qats.Lemmas.RealOps
import Qats.Lemmas.RealOpsSimp
import Mathlib.Tactic
/-!
Bridging lemmas for the estimator formulas: the generated formulas (`Qats.Gen.wb_pwm_*`, `wb_pwm2_*`, `gu_pwm_*`,
`gu_msm_*`, `gm_msm_*`, `wb_msm_*`, `wb_mean`, `wb_std`, `wb_skew`, `gu_mean`, `gu_std`, `gu_cdf`, `gm_cdf`,
`ecdf_median`) at `α := ℝ` in ordinary Mathlib notation.  These are the only lemmas whose proofs look at the
syntactic shape of the generated formulas; each proof is "unfold, normalise literals, normalise ring structure".
-/
namespace Qats.Est
open Qats Qats.Gen

/-- The Euler–Mascheroni literal of the generated formulas, kept opaque. -/
noncomputable def emc : ℝ := (0.5772156649015329 : ℝ)

/-- Closes `f a₁ … = g b₁ …` after unfolding a generated formula (literals normalised, both sides compared up
to ring normalisation, also below `log`, `exp`, `Gamma`, `sqrt`, `^`). -/
macro "est_norm" : tactic =>
  `(tactic| (norm_num <;> first | done | ring_nf | (congr 1 <;> ring_nf) | (congr 2 <;> ring_nf)))

theorem wb_pwm_c_eq (m0 m1 m2 m3 : ℝ) :
    wb_pwm_c m0 m1 m2 m3 =
      Real.log 2 / Real.log ((2 * m1 - m0) / (2 * (5 * m1 - m0 - 6 * m2 + 2 * m3))) := by
  simp only [wb_pwm_c, log_real]; est_norm

theorem wb_pwm_a_eq (m0 m1 m2 m3 : ℝ) :
    wb_pwm_a m0 m1 m2 m3 =
      4 * (m0 * (3 * m2 - m3 - m1) - m1 ^ 2) / (m0 - 8 * m1 + 12 * m2 - 4 * m3) := by
  simp only [wb_pwm_a]; est_norm

theorem wb_pwm_b_eq (a c m0 : ℝ) : wb_pwm_b a c m0 = (m0 - a) / Real.Gamma (1 + 1 / c) := by
  simp only [wb_pwm_b, gamma_real]; est_norm

theorem wb_pwm2_c_eq (m0 m1 : ℝ) :
    wb_pwm2_c m0 m1 = Real.log 2 / Real.log (m0 / (2 * (m0 - m1))) := by
  simp only [wb_pwm2_c, log_real]; est_norm

theorem wb_pwm2_b_eq (c m0 : ℝ) : wb_pwm2_b c m0 = m0 / Real.Gamma (1 + 1 / c) := by
  simp only [wb_pwm2_b, gamma_real]; est_norm

theorem gu_pwm_b_eq (m0 m1 : ℝ) : gu_pwm_b m0 m1 = (m0 - 2 * m1) / Real.log 2 := by
  simp only [gu_pwm_b, log_real]; est_norm

theorem gu_pwm_a_eq (b m0 : ℝ) : gu_pwm_a b m0 = m0 - emc * b := by
  unfold gu_pwm_a emc; ring

theorem gu_msm_b_eq (sd : ℝ) : gu_msm_b sd = Real.sqrt 6 * sd / Real.pi := by
  simp only [gu_msm_b, sqrt_real, pi_real]; est_norm

theorem gu_msm_a_eq (b m : ℝ) : gu_msm_a b m = m - emc * b := by
  unfold gu_msm_a emc; ring

theorem gm_msm_b_eq (sd : ℝ) : gm_msm_b sd = Real.sqrt 6 * sd / Real.pi := by
  simp only [gm_msm_b, sqrt_real, pi_real]; est_norm

theorem gm_msm_a_eq (b m : ℝ) : gm_msm_a b m = m + emc * b := by
  unfold gm_msm_a emc; ring

theorem gu_mean_eq (loc scale : ℝ) : gu_mean loc scale = loc + scale * emc := by
  unfold gu_mean emc; ring

theorem gu_std_eq (scale : ℝ) : gu_std scale = Real.pi * scale / Real.sqrt 6 := by
  simp only [gu_std, sqrt_real, pi_real]; est_norm

theorem gu_cdf_eq (loc scale x : ℝ) :
    gu_cdf loc scale x = Real.exp (-Real.exp (-((x - loc) / scale))) := by
  simp only [gu_cdf, exp_real]

theorem gm_cdf_eq (loc scale x : ℝ) :
    gm_cdf loc scale x = 1 - Real.exp (-Real.exp ((x - loc) / scale)) := by
  simp only [gm_cdf, exp_real]; est_norm

theorem ecdf_median_eq (i n : ℝ) : ecdf_median i n = (i - 3 / 10) / (n + 2 / 5) := by
  simp only [ecdf_median]; est_norm

theorem wb_msm_g1_eq (c : ℝ) : wb_msm_g1 c = Real.Gamma ((c + 1) / c) := by
  simp only [wb_msm_g1, gamma_real]; est_norm

theorem wb_msm_g2_eq (c : ℝ) : wb_msm_g2 c = Real.Gamma ((c + 2) / c) := by
  simp only [wb_msm_g2, gamma_real]; est_norm

theorem wb_msm_b_eq (g1 g2 m2 : ℝ) : wb_msm_b g1 g2 m2 = Real.sqrt (m2 / (g2 - g1 ^ 2)) := by
  simp only [wb_msm_b, sqrt_real]; est_norm

theorem wb_msm_a_eq (a1 b g1 : ℝ) : wb_msm_a a1 b g1 = a1 - g1 * b := by
  simp only [wb_msm_a]

theorem wb_msm_eq_eq (c c1 : ℝ) :
    wb_msm_eq c c1 =
      (Real.Gamma ((c + 3) / c) - 3 * Real.Gamma ((c + 1) / c) * Real.Gamma ((c + 2) / c)
          + 2 * Real.Gamma ((c + 1) / c) ^ 3)
        / (Real.Gamma ((c + 2) / c) - Real.Gamma ((c + 1) / c) ^ 2) ^ ((3 : ℝ) / 2) - c1 := by
  simp only [wb_msm_eq, gamma_real, rpow_real]; est_norm

theorem wb_mean_eq (loc scale shape : ℝ) :
    wb_mean loc scale shape = loc + scale * Real.Gamma (1 + 1 / shape) := by
  simp only [wb_mean, gamma_real]; est_norm

theorem wb_std_eq (scale shape : ℝ) :
    wb_std scale shape =
      scale * Real.sqrt (Real.Gamma (1 + 2 / shape) - Real.Gamma (1 + 1 / shape) ^ 2) := by
  simp only [wb_std, gamma_real, sqrt_real]
  congr 2
  est_norm

theorem wb_skew_eq (c : ℝ) :
    wb_skew c =
      (Real.Gamma (1 + 3 / c) - 3 * Real.Gamma (1 + 1 / c) * Real.Gamma (1 + 2 / c)
          + 2 * Real.Gamma (1 + 1 / c) ^ 3)
        / (Real.Gamma (1 + 2 / c) - Real.Gamma (1 + 1 / c) ^ 2) ^ ((3 : ℝ) / 2) := by
  simp only [wb_skew, gamma_real, rpow_real]; est_norm

end Qats.Est
