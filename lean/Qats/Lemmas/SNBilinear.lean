import Qats.Lemmas.SN06Main
import Mathlib.MeasureTheory.Integral.IntervalIntegral.Basic
import Mathlib.MeasureTheory.Integral.IntegralEqImproper
/-!
Bilinear closed form of `minersum_weibull` (C06, stretch goal): the expected damage of Weibull distributed stress ranges
under a bilinear S-N curve, split at the transition stress `sw`, equals the generated formula `sn_mw_bilinear` evaluated
with the incomplete gamma functions — *defined here as integrals* (Mathlib has no incomplete gamma function).
-/
namespace Qats.SN
open Qats Qats.Gen
open MeasureTheory Set Real

/-- Lower incomplete gamma function `γ(a, x) = ∫₀ˣ t^(a-1) e^(-t) dt` (scipy: `gammainc(a, x) * gamma(a)`). -/
noncomputable def lowerGamma (a x : ℝ) : ℝ := ∫ t in Set.Ioc (0 : ℝ) x, t ^ (a - 1) * Real.exp (-t)

/-- Upper incomplete gamma function `Γ(a, x) = ∫ₓ^∞ t^(a-1) e^(-t) dt` (scipy: `gammaincc(a, x) * gamma(a)`). -/
noncomputable def upperGamma (a x : ℝ) : ℝ := ∫ t in Set.Ioi x, t ^ (a - 1) * Real.exp (-t)

/-! ### the generated formulas in Mathlib notation -/

theorem mw_bilinear_eq (a1 a2 g1 g2 m1 m2 q td v0 : ℝ) :
    sn_mw_bilinear a1 a2 g1 g2 m1 m2 q td v0 = v0 * td * (q ^ m1 / a1 * g1 + q ^ m2 / a2 * g2) := by
  simp only [sn_mw_bilinear, rpow_real]

theorem mw_x_eq (h q sw : ℝ) : sn_mw_x h q sw = (sw / q) ^ h := by
  simp only [sn_mw_x, rpow_real]

theorem mw_a1_eq (h m1 : ℝ) : sn_mw_a1 h m1 = 1 + m1 / h := by
  simp only [sn_mw_a1]; sn_norm

theorem mw_a2_eq (h m2 : ℝ) : sn_mw_a2 h m2 = 1 + m2 / h := by
  simp only [sn_mw_a2]; sn_norm

/-! ### the change of variables `u = (s/q)^h` -/

/-- Substitution `u = (s/q)^h` on `(0, ∞)`, valid for every `G` (no integrability needed). -/
theorem integral_comp_weibull_subst {h q : ℝ} (hh : 0 < h) (hq : 0 < q) (G : ℝ → ℝ) :
    ∫ s in Ioi (0 : ℝ), h / q * (s / q) ^ (h - 1) * G ((s / q) ^ h) = ∫ u in Ioi (0 : ℝ), G u := by
  have h1 := integral_comp_mul_right_Ioi (fun t : ℝ => h / q * t ^ (h - 1) * G (t ^ h)) 0 (inv_pos.2 hq)
  simp only [← div_eq_mul_inv, zero_div, inv_inv, smul_eq_mul] at h1
  rw [h1, ← integral_comp_rpow_Ioi_of_pos (g := G) hh, ← integral_const_mul]
  refine setIntegral_congr_fun measurableSet_Ioi fun t _ => ?_
  simp only [smul_eq_mul]
  field_simp

/-- The integrand on `s > 0` in the substituted shape. -/
theorem weibull_integrand_subst {a h m q s : ℝ} (ha : 0 < a) (hh : 0 < h) (hq : 0 < q) (hs : 0 < s) :
    weibullPdf q h s / (a * s ^ (-m)) =
      q ^ m / a * (h / q * (s / q) ^ (h - 1) * (((s / q) ^ h) ^ (m / h) * exp (-(s / q) ^ h))) := by
  have hsq : 0 < s / q := div_pos hs hq
  have e1 : ((s / q) ^ h) ^ (m / h) = s ^ m / q ^ m := by
    rw [← rpow_mul hsq.le, mul_div_cancel₀ _ hh.ne', div_rpow hs.le hq.le]
  have e3 : s ^ (-m) = (s ^ m)⁻¹ := rpow_neg hs.le _
  have hA : 0 < s ^ m := rpow_pos_of_pos hs _
  have hQ : 0 < q ^ m := rpow_pos_of_pos hq _
  rw [weibullPdf, e1, e3]
  field_simp

/-- One piece of the split integral: `S ⊆ (0, ∞)` is mapped onto `T ⊆ (0, ∞)` by `s ↦ (s/q)^h`.  Both sides are
Bochner integrals, and only equalities valid for arbitrary integrands are used, so no integrability is required. -/
theorem weibull_piece {a h m q : ℝ} (ha : 0 < a) (hh : 0 < h) (hq : 0 < q) {S T : Set ℝ}
    (hS : MeasurableSet S) (hT : MeasurableSet T) (hS0 : S ⊆ Ioi 0) (hT0 : T ⊆ Ioi 0)
    (hST : ∀ s, 0 < s → (s ∈ S ↔ (s / q) ^ h ∈ T)) :
    ∫ s in S, weibullPdf q h s / (a * s ^ (-m)) = q ^ m / a * ∫ u in T, u ^ (m / h) * exp (-u) := by
  have eS : Ioi 0 ∩ S = S := inter_eq_right.2 hS0
  have eT : Ioi 0 ∩ T = T := inter_eq_right.2 hT0
  have key : ∫ s in Ioi (0 : ℝ), S.indicator (fun s => weibullPdf q h s / (a * s ^ (-m))) s =
      ∫ s in Ioi (0 : ℝ), q ^ m / a *
        (h / q * (s / q) ^ (h - 1) * T.indicator (fun u => u ^ (m / h) * exp (-u)) ((s / q) ^ h)) := by
    refine setIntegral_congr_fun measurableSet_Ioi fun s hs => ?_
    have hs' : 0 < s := hs
    by_cases hsS : s ∈ S
    · rw [indicator_of_mem hsS, indicator_of_mem ((hST s hs').1 hsS)]
      exact weibull_integrand_subst ha hh hq hs'
    · rw [indicator_of_notMem hsS, indicator_of_notMem (fun hc => hsS ((hST s hs').2 hc))]
      simp
  rw [← eS, ← setIntegral_indicator hS, key, integral_const_mul,
    integral_comp_weibull_subst hh hq (T.indicator fun u => u ^ (m / h) * exp (-u)), setIntegral_indicator hT, eT]

set_option linter.unusedVariables false in
/-- Expected damage = `v0·td·( ∫_{(0, sw]} f_W(s)/N₂(s) ds + ∫_{(sw, ∞)} f_W(s)/N₁(s) ds )` with `N_i(s) = a_i·s^(-m_i)`
equals the code's closed form with `g1 = Γ(1 + m1/h, (sw/q)^h)` and `g2 = γ(1 + m2/h, (sw/q)^h)`. -/
theorem weibull_bilinear_closed_form' (a1 a2 h m1 m2 q td v0 sw : ℝ) (ha1 : 0 < a1) (ha2 : 0 < a2) (hh : 0 < h)
    (hm1 : 0 < m1) (hm2 : 0 < m2) (hq : 0 < q) (hsw : 0 < sw) :
    v0 * td * ((∫ s in Set.Ioc (0 : ℝ) sw, weibullPdf q h s / (a2 * s ^ (-m2))) +
        ∫ s in Set.Ioi sw, weibullPdf q h s / (a1 * s ^ (-m1))) =
      sn_mw_bilinear a1 a2 (upperGamma (sn_mw_a1 h m1) (sn_mw_x h q sw)) (lowerGamma (sn_mw_a2 h m2) (sn_mw_x h q sw))
        m1 m2 q td v0 := by
  have hx : 0 < (sw / q) ^ h := rpow_pos_of_pos (div_pos hsw hq) _
  have hlt : ∀ s : ℝ, 0 < s → (sw < s ↔ (sw / q) ^ h < (s / q) ^ h) := fun s hs => by
    rw [rpow_lt_rpow_iff (div_pos hsw hq).le (div_pos hs hq).le hh, div_lt_div_iff_of_pos_right hq]
  have p1 : ∫ s in Ioi sw, weibullPdf q h s / (a1 * s ^ (-m1)) =
      q ^ m1 / a1 * ∫ u in Ioi ((sw / q) ^ h), u ^ (m1 / h) * exp (-u) :=
    weibull_piece ha1 hh hq measurableSet_Ioi measurableSet_Ioi (Ioi_subset_Ioi hsw.le) (Ioi_subset_Ioi hx.le)
      fun s hs => by simp only [mem_Ioi]; exact hlt s hs
  have p2 : ∫ s in Ioc (0 : ℝ) sw, weibullPdf q h s / (a2 * s ^ (-m2)) =
      q ^ m2 / a2 * ∫ u in Ioc (0 : ℝ) ((sw / q) ^ h), u ^ (m2 / h) * exp (-u) :=
    weibull_piece ha2 hh hq measurableSet_Ioc measurableSet_Ioc Ioc_subset_Ioi_self Ioc_subset_Ioi_self
      fun s hs => by
        simp only [mem_Ioc, hs, rpow_pos_of_pos (div_pos hs hq) h, true_and, ← not_lt]
        exact not_congr (hlt s hs)
  rw [mw_bilinear_eq, mw_x_eq, mw_a1_eq, mw_a2_eq, upperGamma, lowerGamma, p1, p2,
    add_sub_cancel_left, add_sub_cancel_left]
  ring

end Qats.SN
