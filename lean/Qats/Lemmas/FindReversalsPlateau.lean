import Qats.Lemmas.RainflowMain
import Qats.Lemmas.FindReversals
/-!
`find_reversals` on signals WITH plateaus, part 1: between two consecutive extracted points the signal is weakly
monotone, hence running the reversal loop over the signal equals running it over the extracted values followed by
the last sample (no turning point of the signal is lost, for any state of the loop).
-/
namespace Qats.FindReversals
open Qats.Rainflow
set_option linter.unusedSectionVars false
variable {α : Type} [Field α] [LinearOrder α] [IsStrictOrderedRing α]

/-- The loop over `c :: r` depends on `r` only through the loops started at `c`. -/
theorem revLoop_cons_congr (b d c : α) (r1 r2 : List α) (h : ∀ d', revLoop c d' r1 = revLoop c d' r2) :
    revLoop b d (c :: r1) = revLoop b d (c :: r2) := by
  by_cases he : c = b
  · subst he; rw [revLoop_cons_eq, revLoop_cons_eq, h]
  · by_cases ht : d * (c - b) < 0
    · rw [revLoop_cons_turn _ _ _ _ ht, revLoop_cons_turn _ _ _ _ ht, h]
    · rw [revLoop_cons_noturn _ _ _ _ he ht, revLoop_cons_noturn _ _ _ _ he ht, h]

/-- The first extracted value at or after sample `c` (or the last sample when nothing is extracted) lies on the side
of `c` announced by the slope indicator `p`. -/
theorem frG_head (i : Nat) (p : Bool) (c : α) (rest : List α) :
    ∃ y L', (frLoop i p (c :: rest)).map Prod.snd ++ [rest.getLastD c] = y :: L' ∧
      (p = true → y ≤ c) ∧ (p = false → c ≤ y) := by
  induction rest generalizing i p c with
  | nil => exact ⟨c, [], by simp [frLoop], fun _ => le_rfl, fun _ => le_rfl⟩
  | cons c2 r ih =>
    by_cases hf : (decide (c2 < c) != p) = true
    · exact ⟨c, _, by simp only [frLoop, hf, if_true]; rfl, fun _ => le_rfl, fun _ => le_rfl⟩
    · obtain ⟨y, L', hG, h1, h2⟩ := ih (i + 1) (decide (c2 < c)) c2
      have hp : decide (c2 < c) = p := by simpa using hf
      refine ⟨y, L', ?_, ?_, ?_⟩
      · simp only [frLoop, hf, List.getLastD_cons]
        simpa using hG
      · intro hpt
        have : c2 < c := by simpa using hp.trans hpt
        exact (h1 (hp.trans hpt)).trans this.le
      · intro hpf
        have : ¬ c2 < c := by simpa using hp.trans hpf
        exact (not_lt.mp this).trans (h2 (hp.trans hpf))

/-- Part 1: for every state `(b, d)` of the reversal loop and every slope indicator `p`, the loop over the rest of the
signal equals the loop over the extracted values followed by the last sample. -/
theorem revLoop_frG (i : Nat) (p : Bool) (b d : α) (rest : List α) :
    revLoop b d rest = revLoop b d ((frLoop i p (b :: rest)).map Prod.snd ++ [rest.getLastD b]) := by
  induction rest generalizing i p b d with
  | nil => simp [frLoop, revLoop_cons_eq]
  | cons c r ih =>
    have key : revLoop b d (c :: r) =
        revLoop b d ((frLoop (i + 1) (decide (c < b)) (c :: r)).map Prod.snd ++ [r.getLastD c]) := by
      obtain ⟨y, L', hG, h1, h2⟩ := frG_head (i + 1) (decide (c < b)) c r
      have ih' : ∀ d', revLoop c d' r = revLoop c d' (y :: L') := fun d' => by
        rw [← hG]; exact ih (i + 1) (decide (c < b)) c d'
      rw [hG, revLoop_cons_congr b d c r (y :: L') ih']
      apply revLoop_insert
      by_cases hcb : c < b
      · have hy : y ≤ c := h1 (by simpa using hcb)
        exact ⟨(min_le_right _ _).trans hy, hcb.le.trans (le_max_left _ _)⟩
      · have hy : c ≤ y := h2 (by simpa using hcb)
        exact ⟨(min_le_left _ _).trans (not_lt.mp hcb), hy.trans (le_max_right _ _)⟩
    by_cases hf : (decide (c < b) != p) = true
    · simp only [frLoop, hf, if_true, List.getLastD_cons, List.map_append, List.map_cons, List.map_nil,
        List.cons_append, List.nil_append, List.append_assoc]
      rw [revLoop_cons_eq]
      simpa using key
    · simp only [frLoop, hf, List.getLastD_cons]
      simpa using key

end Qats.FindReversals
