import Qats.Model.Peaks
import Qats.Lemmas.PreludeSort
import Mathlib.Tactic
/-!
Single-pass scan of `globalMaxima`: invariant over prefixes, for an arbitrary fixed level `m`.
-/
namespace Qats.Peaks
set_option linter.unusedSectionVars false
set_option linter.unusedVariables false
variable {α : Type} [Field α] [LinearOrder α] [IsStrictOrderedRing α]

/-- Sample `k` exists and is above the level `m`. -/
def AboveM (m : α) (x : List α) (k : Nat) : Prop := ∃ v, x[k]? = some v ∧ m < v

/-- `(i, v)` is the first-position maximum of an excursion closed on both sides, closed before sample `n`. -/
def GM (m : α) (x : List α) (n i : Nat) (v : α) : Prop :=
  x[i]? = some v ∧ ∃ l r, 1 ≤ l ∧ l ≤ i ∧ i ≤ r ∧ r + 1 < n ∧
    (∀ k, l ≤ k → k ≤ r → AboveM m x k) ∧ ¬ AboveM m x (l - 1) ∧ ¬ AboveM m x (r + 1) ∧
    (∀ k w, l ≤ k → k < i → x[k]? = some w → w < v) ∧ (∀ k w, i < k → k ≤ r → x[k]? = some w → w ≤ v)

/-- `(i, v)` is the first-position maximum so far of the excursion open at sample `n - 1`. -/
def OM (m : α) (x : List α) (n i : Nat) (v : α) : Prop :=
  x[i]? = some v ∧ ∃ l, 1 ≤ l ∧ l ≤ i ∧ i < n ∧
    (∀ k, l ≤ k → k < n → AboveM m x k) ∧ ¬ AboveM m x (l - 1) ∧
    (∀ k w, l ≤ k → k < i → x[k]? = some w → w < v) ∧ (∀ k w, i < k → k < n → x[k]? = some w → w ≤ v)

structure Inv (m : α) (x : List α) (n : Nat) (s : St α) : Prop where
  prev : s.prev = true ↔ AboveM m x (n - 1)
  cur_some : ∀ i v, s.cur = some (i, v) → OM m x n i v
  cur_none : s.cur = none → ¬ AboveM m x (n - 1) ∨ ∀ k, k < n → AboveM m x k
  done : ∀ i v, (i, v) ∈ s.done ↔ GM m x n i v
  sorted : s.done.Pairwise (fun a b => b.1 < a.1)

theorem OM_unique {m : α} {x : List α} {n i i' : Nat} {v v' : α} (h : OM m x n i v) (h' : OM m x n i' v') :
    i = i' ∧ v = v' := by
  obtain ⟨hv, l, hl1, hli, hin, hab, hnl, hlt, hle⟩ := h
  obtain ⟨hv', l', hl1', hli', hin', hab', hnl', hlt', hle'⟩ := h'
  have hll : l = l' := by
    rcases lt_trichotomy l l' with h | h | h
    · exact absurd (hab (l' - 1) (by omega) (by omega)) hnl'
    · exact h
    · exact absurd (hab' (l - 1) (by omega) (by omega)) hnl
  subst hll
  have hii : i = i' := by
    rcases lt_trichotomy i i' with h | h | h
    · exact absurd (hlt' i v hli h hv) (not_lt.mpr (hle i' v' h hin' hv'))
    · exact h
    · exact absurd (hlt i' v' hli' h hv') (not_lt.mpr (hle' i v h hin hv))
  subst hii
  rw [hv] at hv'
  exact ⟨rfl, Option.some.inj hv'⟩

theorem OM_above {m : α} {x : List α} {n i : Nat} {v : α} (h : OM m x n i v) :
    AboveM m x (n - 1) ∧ ¬ ∀ k, k < n → AboveM m x k := by
  obtain ⟨hv, l, hl1, hli, hin, hab, hnl, hlt, hle⟩ := h
  exact ⟨hab (n - 1) (by omega) (by omega), fun hall => hnl (hall (l - 1) (by omega))⟩

theorem Inv.cur_iff {m : α} {x : List α} {n : Nat} {s : St α} (h : Inv m x n s) (i : Nat) (v : α) :
    s.cur = some (i, v) ↔ OM m x n i v := by
  refine ⟨h.cur_some i v, fun ho => ?_⟩
  cases hc : s.cur with
  | none =>
    rcases h.cur_none hc with h1 | h1
    · exact absurd (OM_above ho).1 h1
    · exact absurd h1 (OM_above ho).2
  | some jb =>
    obtain ⟨j, b⟩ := jb
    obtain ⟨rfl, rfl⟩ := OM_unique (h.cur_some j b hc) ho
    rfl

theorem aboveM_iff {m : α} {x : List α} {n : Nat} {xn : α} (hx : x[n]? = some xn) : AboveM m x n ↔ m < xn := by
  constructor
  · rintro ⟨v, hv, hm⟩
    rw [hx] at hv
    exact (Option.some.inj hv) ▸ hm
  · intro h
    exact ⟨xn, hx, h⟩

/-- Opening an excursion. -/
theorem OM_open {m : α} {x : List α} {n : Nat} {xn : α} (hx : x[n]? = some xn) (hn : 1 ≤ n)
    (ha : AboveM m x n) (hp : ¬ AboveM m x (n - 1)) : OM m x (n + 1) n xn := by
  refine ⟨hx, n, hn, le_rfl, by omega, ?_, hp, ?_, ?_⟩
  · intro k h1 h2
    have : k = n := by omega
    exact this ▸ ha
  · intro k w h1 h2; omega
  · intro k w h1 h2; omega

/-- Extending an excursion. -/
theorem OM_extend {m : α} {x : List α} {n i : Nat} {xn v : α} (hx : x[n]? = some xn)
    (ha : AboveM m x n) (ho : OM m x n i v) :
    OM m x (n + 1) (if v < xn then (n, xn) else (i, v)).1 (if v < xn then (n, xn) else (i, v)).2 := by
  obtain ⟨hv, l, hl1, hli, hin, hab, hnl, hlt, hle⟩ := ho
  have hab' : ∀ k, l ≤ k → k < n + 1 → AboveM m x k := by
    intro k h1 h2
    rcases Nat.lt_succ_iff_lt_or_eq.mp h2 with h | h
    · exact hab k h1 h
    · exact h ▸ ha
  split
  · rename_i hlt'
    refine ⟨hx, l, hl1, by omega, by omega, hab', hnl, ?_, ?_⟩
    · intro k w h1 h2 hw
      rcases lt_trichotomy k i with h | h | h
      · exact (hlt k w h1 h hw).trans hlt'
      · subst h
        rw [hv] at hw
        exact (Option.some.inj hw) ▸ hlt'
      · exact (hle k w h h2 hw).trans_lt hlt'
    · intro k w h1 h2; omega
  · rename_i hnlt
    refine ⟨hv, l, hl1, hli, by omega, hab', hnl, hlt, ?_⟩
    intro k w h1 h2 hw
    rcases Nat.lt_succ_iff_lt_or_eq.mp h2 with h | h
    · exact hle k w h1 h hw
    · subst h
      rw [hx] at hw
      exact (Option.some.inj hw) ▸ not_lt.mp hnlt

theorem GM_mono {m : α} {x : List α} {n i : Nat} {v : α} (h : GM m x n i v) : GM m x (n + 1) i v := by
  obtain ⟨hv, l, r, h1, h2, h3, h4, h5⟩ := h
  exact ⟨hv, l, r, h1, h2, h3, by omega, h5⟩

/-- No excursion is closed at a sample above the level, or after a sample not above it. -/
theorem GM_succ_same {m : α} {x : List α} {n i : Nat} {v : α}
    (h : AboveM m x n ∨ ¬ AboveM m x (n - 1)) : GM m x (n + 1) i v ↔ GM m x n i v := by
  refine ⟨fun hg => ?_, GM_mono⟩
  obtain ⟨hv, l, r, h1, h2, h3, h4, hab, hnl, hnr, h5⟩ := hg
  rcases Nat.lt_succ_iff_lt_or_eq.mp h4 with h' | h'
  · exact ⟨hv, l, r, h1, h2, h3, h', hab, hnl, hnr, h5⟩
  · rcases h with h | h
    · exact absurd (h' ▸ h) hnr
    · have : n - 1 = r := by omega
      exact absurd (hab r (by omega) le_rfl) (this ▸ h)

/-- Closing an excursion. -/
theorem GM_succ_close {m : α} {x : List α} {n i : Nat} {v : α} (ha : ¬ AboveM m x n) :
    GM m x (n + 1) i v ↔ OM m x n i v ∨ GM m x n i v := by
  constructor
  · rintro ⟨hv, l, r, h1, h2, h3, h4, hab, hnl, hnr, hlt, hle⟩
    rcases Nat.lt_succ_iff_lt_or_eq.mp h4 with h' | h'
    · exact Or.inr ⟨hv, l, r, h1, h2, h3, h', hab, hnl, hnr, hlt, hle⟩
    · refine Or.inl ⟨hv, l, h1, h2, by omega, fun k hk1 hk2 => hab k hk1 (by omega), hnl, hlt,
        fun k w hk1 hk2 => hle k w hk1 (by omega)⟩
  · rintro (⟨hv, l, h1, h2, h3, hab, hnl, hlt, hle⟩ | h)
    · refine ⟨hv, l, n - 1, h1, h2, by omega, by omega, fun k hk1 hk2 => hab k hk1 (by omega), hnl, ?_, hlt,
        fun k w hk1 hk2 => hle k w hk1 (by omega)⟩
      have : n - 1 + 1 = n := by omega
      rw [this]; exact ha
    · exact GM_mono h

/-- Closed excursions lie strictly left of the open one. -/
theorem GM_lt_OM {m : α} {x : List α} {n i j : Nat} {v w : α} (ho : OM m x n i v) (hg : GM m x n j w) : j < i := by
  obtain ⟨hv, l, h1, h2, h3, hab, hnl, hlt, hle⟩ := ho
  obtain ⟨hw, l', r', g1, g2, g3, g4, gab, gnl, gnr, _⟩ := hg
  by_contra hji
  exact gnr (hab (r' + 1) (by omega) g4)

theorem inv_step {m : α} {x : List α} {n : Nat} {xn : α} (hx : x[n]? = some xn) {s : St α}
    (h : Inv m x n s) : Inv m x (n + 1) (step m s (n, xn)) := by
  have hA : AboveM m x n ↔ m < xn := aboveM_iff hx
  by_cases ha : m < xn
  · have haA : AboveM m x n := hA.mpr ha
    have hd : decide (0 < xn - m) = true := by simpa using ha
    cases hp : s.prev with
    | false =>
      have hpA : ¬ AboveM m x (n - 1) := fun hc => by simpa [hp] using h.prev.mpr hc
      have hn : 1 ≤ n := by
        by_contra h0
        have : n = 0 := by omega
        subst this
        exact hpA haA
      have hs : step m s (n, xn) = { s with prev := true, cur := some (n, xn) } := by
        simp [step, ha, hp]
      rw [hs]
      refine ⟨?_, ?_, ?_, ?_, h.sorted⟩
      · simpa using haA
      · intro i v hc
        simp only [Option.some.injEq, Prod.mk.injEq] at hc
        obtain ⟨rfl, rfl⟩ := hc
        exact OM_open hx hn haA hpA
      · intro hc; simp at hc
      · intro i v
        rw [GM_succ_same (Or.inl haA)]
        exact h.done i v
    | true =>
      have hpA : AboveM m x (n - 1) := h.prev.mp hp
      have hs : step m s (n, xn) =
          { s with prev := true, cur := s.cur.map fun jb => if jb.2 < xn then (n, xn) else jb } := by
        simp [step, ha, hp]
      rw [hs]
      refine ⟨?_, ?_, ?_, ?_, h.sorted⟩
      · simpa using haA
      · intro i v hc
        simp only [Option.map_eq_some_iff] at hc
        obtain ⟨⟨j, b⟩, hjb, hf⟩ := hc
        have := OM_extend hx haA (h.cur_some j b hjb)
        simp only at hf
        rw [hf] at this
        exact this
      · intro hc
        simp only [Option.map_eq_none_iff] at hc
        rcases h.cur_none hc with h1 | h1
        · exact absurd hpA h1
        · refine Or.inr fun k hk => ?_
          rcases Nat.lt_succ_iff_lt_or_eq.mp hk with h' | h'
          · exact h1 k h'
          · exact h' ▸ haA
      · intro i v
        rw [GM_succ_same (Or.inl haA)]
        exact h.done i v
  · have haA : ¬ AboveM m x n := fun hc => ha (hA.mp hc)
    have hd : decide (0 < xn - m) = false := by simpa using ha
    cases hp : s.prev with
    | false =>
      have hpA : ¬ AboveM m x (n - 1) := fun hc => by simpa [hp] using h.prev.mpr hc
      have hs : step m s (n, xn) = { s with prev := false } := by
        simp [step, ha, hp]
      rw [hs]
      refine ⟨?_, ?_, ?_, ?_, h.sorted⟩
      · simpa using haA
      · intro i v hc
        exact absurd (OM_above (h.cur_some i v hc)).1 hpA
      · intro _; exact Or.inl (by simpa using haA)
      · intro i v
        rw [GM_succ_same (Or.inr hpA)]
        exact h.done i v
    | true =>
      have hs : step m s (n, xn) =
          { prev := false, cur := none,
            done := match s.cur with | some jb => jb :: s.done | none => s.done } := by
        simp [step, ha, hp]
        cases s.cur <;> rfl
      rw [hs]
      refine ⟨?_, ?_, ?_, ?_, ?_⟩
      · simpa using haA
      · intro i v hc; simp at hc
      · intro _; exact Or.inl (by simpa using haA)
      · intro i v
        rw [GM_succ_close haA, ← h.cur_iff, ← h.done]
        cases hc : s.cur with
        | none => simp
        | some jb => simp [eq_comm]
      · cases hc : s.cur with
        | none => exact h.sorted
        | some jb =>
          obtain ⟨j, b⟩ := jb
          refine List.pairwise_cons.mpr ⟨?_, h.sorted⟩
          rintro ⟨j', b'⟩ hmem
          exact GM_lt_OM (h.cur_some j b hc) ((h.done j' b').mp hmem)

theorem enum_length (x : List α) : (enum x).length = x.length := by simp [enum]

theorem enum_getElem (x : List α) (n : Nat) (h : n < (enum x).length) :
    (enum x)[n] = (n, x[n]'(by simpa [enum] using h)) := by
  simp [enum]

theorem inv_init (m : α) (x : List α) (x0 : α) (hx0 : x[0]? = some x0) :
    Inv m x 0 ⟨decide (0 < x0 - m), none, []⟩ := by
  refine ⟨?_, ?_, ?_, ?_, List.Pairwise.nil⟩
  · simp only [decide_eq_true_eq, sub_pos]
    exact (aboveM_iff hx0).symm
  · intro i v hc; simp at hc
  · intro _; exact Or.inr fun k hk => absurd hk (Nat.not_lt_zero k)
  · intro i v
    simp only [List.not_mem_nil, false_iff]
    rintro ⟨_, l, r, _, _, _, h, _⟩
    exact Nat.not_lt_zero _ h

theorem inv_scan (m : α) (x : List α) (x0 : α) (hx0 : x[0]? = some x0) (n : Nat) (hn : n ≤ x.length) :
    Inv m x n (((enum x).take n).foldl (step m) ⟨decide (0 < x0 - m), none, []⟩) := by
  induction n with
  | zero => simpa using inv_init m x x0 hx0
  | succ n ih =>
    have hlt : n < (enum x).length := by rw [enum_length]; omega
    rw [List.take_succ_eq_append_getElem hlt, List.foldl_append, enum_getElem]
    simp only [List.foldl_cons, List.foldl_nil]
    exact inv_step (List.getElem?_eq_getElem _) (ih (by omega))

theorem globalMaxima_eq (x0 : α) (t : List α) :
    globalMaxima (x0 :: t) =
      (((enum (x0 :: t)).take (x0 :: t).length).foldl (step (mean (x0 :: t)))
        ⟨decide (0 < x0 - mean (x0 :: t)), none, []⟩).done.reverse := by
  rw [← enum_length, List.take_length]
  rfl

theorem globalMaxima_mem_iff (x : List α) (i : Nat) (v : α) :
    (i, v) ∈ globalMaxima x ↔ GM (mean x) x x.length i v := by
  cases x with
  | nil =>
    simp only [globalMaxima, List.not_mem_nil, false_iff]
    rintro ⟨h, _⟩
    simp at h
  | cons x0 t =>
    rw [globalMaxima_eq, List.mem_reverse]
    exact (inv_scan (mean (x0 :: t)) (x0 :: t) x0 rfl _ le_rfl).done i v

theorem globalMaxima_pairwise (x : List α) : (globalMaxima x).Pairwise (fun a b => a.1 < b.1) := by
  cases x with
  | nil => simp [globalMaxima]
  | cons x0 t =>
    rw [globalMaxima_eq, List.pairwise_reverse]
    exact (inv_scan (mean (x0 :: t)) (x0 :: t) x0 rfl _ le_rfl).sorted

end Qats.Peaks
