import Qats.Model.Dist
import Qats.Lemmas.RealOps
import Qats.Lemmas.RealOpsSimp
import Mathlib.Tactic
import Mathlib.Algebra.BigOperators.Ring.List
/-!
`Dist.sum`, `Dist.mean`, `Dist.sdUnbiased` over ℝ: restated with `List.sum`, and their behaviour under
`x ↦ a·x + b` and `x ↦ -x`.
-/
namespace Qats.Est
open Qats Qats.Dist

theorem foldl_add_eq (l : List ℝ) (acc : ℝ) : l.foldl (· + ·) acc = acc + l.sum := by
  induction l generalizing acc with
  | nil => simp
  | cons x l ih => rw [List.foldl_cons, ih, List.sum_cons]; ring

theorem sum_eq (l : List ℝ) : Dist.sum l = l.sum := by
  have h := foldl_add_eq l 0
  rw [zero_add] at h
  exact h

theorem mean_eq (l : List ℝ) : mean l = l.sum / (l.length : ℝ) := by
  simp only [mean, sum_eq]

theorem sd_eq (l : List ℝ) :
    sdUnbiased l =
      Real.sqrt ((l.map fun x => (x - mean l) ^ 2).sum / ((l.length - 1 : Nat) : ℝ)) := by
  simp only [sdUnbiased, sum_eq, sqrt_real, pow_two]

theorem sum_map_affine (l : List ℝ) (a b : ℝ) :
    (l.map fun x => a * x + b).sum = a * l.sum + b * (l.length : ℝ) := by
  induction l with
  | nil => simp
  | cons x l ih => simp only [List.map_cons, List.sum_cons, ih, List.length_cons]; push_cast; ring

theorem sum_map_mul_left' (l : List ℝ) (a : ℝ) (f : ℝ → ℝ) :
    (l.map fun x => a * f x).sum = a * (l.map f).sum := by
  induction l with
  | nil => simp
  | cons x l ih => simp only [List.map_cons, List.sum_cons, ih]; ring

theorem sum_map_add' (l : List ℝ) (f g : ℝ → ℝ) :
    (l.map fun x => f x + g x).sum = (l.map f).sum + (l.map g).sum := by
  induction l with
  | nil => simp
  | cons x l ih => simp only [List.map_cons, List.sum_cons, ih]; ring

theorem length_ne_zero_of_ne_nil {l : List ℝ} (h : l ≠ []) : (l.length : ℝ) ≠ 0 := by
  exact_mod_cast (List.length_pos_iff.2 h).ne'

theorem mean_affine (xs : List ℝ) (a b : ℝ) (hn : xs ≠ []) :
    mean (xs.map fun x => a * x + b) = a * mean xs + b := by
  have h := length_ne_zero_of_ne_nil hn
  rw [mean_eq, mean_eq, sum_map_affine, List.length_map]
  field_simp

theorem mean_neg (xs : List ℝ) : mean (xs.map fun x => -x) = -mean xs := by
  have h : (xs.map fun x : ℝ => -x) = xs.map fun x => (-1) * x + 0 := by
    congr 1; funext x; ring
  rw [h, mean_eq, mean_eq, sum_map_affine, List.length_map]
  ring

/-- The sum of squared deviations after `x ↦ a·x + b` with the transformed mean `a·m + b`. -/
theorem sumsq_affine (xs : List ℝ) (a b m : ℝ) :
    ((xs.map fun x => a * x + b).map fun y => (y - (a * m + b)) ^ 2).sum =
      a ^ 2 * (xs.map fun x => (x - m) ^ 2).sum := by
  rw [List.map_map, ← sum_map_mul_left']
  congr 1
  refine List.map_congr_left fun x _ => ?_
  simp only [Function.comp]
  ring

theorem sdUnbiased_affine (xs : List ℝ) (a b : ℝ) (ha : 0 ≤ a) (hn : xs ≠ []) :
    sdUnbiased (xs.map fun x => a * x + b) = a * sdUnbiased xs := by
  rw [sd_eq, sd_eq, mean_affine xs a b hn, sumsq_affine, List.length_map, mul_div_assoc,
    Real.sqrt_mul (sq_nonneg a), Real.sqrt_sq ha]

theorem sdUnbiased_neg (xs : List ℝ) : sdUnbiased (xs.map fun x => -x) = sdUnbiased xs := by
  have h : (xs.map fun x : ℝ => -x) = xs.map fun x => (-1) * x + 0 := by
    congr 1; funext x; ring
  rw [sd_eq, sd_eq, mean_neg, h]
  have h2 := sumsq_affine xs (-1) 0 (mean xs)
  rw [show (-1 : ℝ) * mean xs + 0 = -mean xs by ring] at h2
  rw [h2, List.length_map]
  norm_num

end Qats.Est
