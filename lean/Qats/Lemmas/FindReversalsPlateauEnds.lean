import Qats.Lemmas.FindReversalsPlateau
/-!
`find_reversals` on signals WITH plateaus, part 2: when the first and the last extracted value are the first and the
last turning point, the loop with end points over the extracted values yields exactly the turning points.
-/
namespace Qats.FindReversals
open Qats.Rainflow
set_option linter.unusedSectionVars false
set_option linter.unusedSimpArgs false
variable {α : Type} [Field α] [LinearOrder α] [IsStrictOrderedRing α]

/-- The final sample held by the loop is the last sample. -/
theorem revLoop_snd (x d : α) (L : List α) : (revLoop x d L).2 = L.getLastD x := by
  induction L generalizing x d with
  | nil => rfl
  | cons c L ih =>
    by_cases he : c = x
    · subst he; rw [revLoop_cons_eq, ih, List.getLastD_cons]
    · by_cases ht : d * (c - x) < 0
      · rw [revLoop_cons_turn _ _ _ _ ht]
        show (revLoop c (c - x) L).2 = _
        rw [ih, List.getLastD_cons]
      · rw [revLoop_cons_noturn _ _ _ _ he ht, ih, List.getLastD_cons]

/-- One more sample at the end adds at most the previously final sample to the yielded points. -/
theorem revLoop_append_single (x d : α) (L : List α) (z : α) :
    (revLoop x d (L ++ [z])).1 = (revLoop x d L).1 ∨
      (revLoop x d (L ++ [z])).1 = (revLoop x d L).1 ++ [(revLoop x d L).2] := by
  induction L generalizing x d with
  | nil =>
    by_cases he : z = x
    · subst he; left; simp [revLoop_cons_eq]
    · by_cases ht : d * (z - x) < 0
      · right; simp [revLoop_cons_turn _ _ _ _ ht, revLoop_nil]
      · left; simp [revLoop_cons_noturn _ _ _ _ he ht, revLoop_nil]
  | cons c L ih =>
    by_cases he : c = x
    · subst he; simp only [List.cons_append, revLoop_cons_eq]; exact ih _ _
    · by_cases ht : d * (c - x) < 0
      · simp only [List.cons_append, revLoop_cons_turn _ _ _ _ ht]
        rcases ih c (c - x) with h | h
        · left; simp [h]
        · right; simp [h]
      · simp only [List.cons_append, revLoop_cons_noturn _ _ _ _ he ht]; exact ih _ _

theorem altD_last_ne (up : Bool) (l : List α) (p q : α) (h : AltD up (l ++ [p, q])) : p ≠ q := by
  induction l generalizing up with
  | nil =>
    cases up
    · have := ((altD_false_cons _ _ _).mp h).1; exact this.ne'
    · have := ((altD_true_cons _ _ _).mp h).1; exact this.ne
  | cons a l ih =>
    obtain ⟨b', rest', hbr⟩ : ∃ b' rest', l ++ [p, q] = b' :: rest' := by
      cases l with
      | nil => exact ⟨p, [q], rfl⟩
      | cons c l => exact ⟨c, l ++ [p, q], rfl⟩
    rw [List.cons_append, hbr] at h
    have h2 : AltD (!up) (b' :: rest') := by
      simp only [AltD] at h; exact h.2
    rw [← hbr] at h2
    exact ih _ h2

theorem revL_altD (x d : α) (L : List α) : ∃ up, AltD up (revL x d L) := by
  obtain ⟨h1, h2, h3⟩ := revL_inv L x d
  rcases lt_trichotomy d 0 with h | h | h
  · obtain ⟨y, ys, hL, _, hA⟩ := h2 h; exact ⟨true, hL ▸ hA⟩
  · rcases h3 h with hL | ⟨y, ys, hL, ⟨_, hA⟩ | ⟨_, hA⟩⟩
    · exact ⟨true, by rw [hL]; simp⟩
    · exact ⟨false, hL ▸ hA⟩
    · exact ⟨true, hL ▸ hA⟩
  · obtain ⟨y, ys, hL, _, hA⟩ := h1 h; exact ⟨false, hL ▸ hA⟩

/-- If the last yielded point equals the last sample before `z`, the yielded points are the points with the final
sample included. -/
theorem revL_of_last (x d : α) (L : List α) (z : α)
    (hl : (revLoop x d (L ++ [z])).1.getLast? = some (L.getLastD x)) :
    (revLoop x d (L ++ [z])).1 = revL x d L := by
  rcases revLoop_append_single x d L z with h | h
  · exfalso
    rw [h, ← revLoop_snd x d L, List.getLast?_eq_some_iff] at hl
    obtain ⟨ys, hys⟩ := hl
    obtain ⟨up, hA⟩ := revL_altD x d L
    have : revL x d L = ys ++ [(revLoop x d L).2, (revLoop x d L).2] := by
      show (revLoop x d L).1 ++ [(revLoop x d L).2] = _
      rw [show ys ++ [(revLoop x d L).2, (revLoop x d L).2] =
        (ys ++ [(revLoop x d L).2]) ++ [(revLoop x d L).2] by simp, ← hys]
    rw [this] at hA
    exact altD_last_ne up ys _ _ hA rfl
  · exact h

/-- If the first yielded point of a loop standing at `e` has the value `e`, it is `e` itself, and the rest is the loop
started afresh at `e`. -/
theorem revLoop_head_self (e d1 : α) (M : List α) (h : (revLoop e d1 M).1.head? = some e) :
    (revLoop e d1 M).1 = e :: (revLoop e 0 M).1 := by
  induction M with
  | nil => simp [revLoop_nil] at h
  | cons m M ih =>
    by_cases hme : m = e
    · subst hme
      simp only [revLoop_cons_eq] at h ⊢
      exact ih h
    · have h0 : revLoop e 0 (m :: M) = revLoop m (m - e) M := revLoop_cons_noturn e 0 m M hme (by simp)
      by_cases ht : d1 * (m - e) < 0
      · rw [revLoop_cons_turn _ _ _ _ ht, h0]
      · exfalso
        rw [revLoop_cons_noturn _ _ _ _ hme ht, List.head?_eq_some_iff] at h
        obtain ⟨t, ht'⟩ := h
        obtain ⟨h1, h2, _⟩ := revL_inv M m (m - e)
        have hr : revL m (m - e) M = e :: (t ++ [(revLoop m (m - e) M).2]) := by
          unfold revL; rw [ht']; rfl
        rcases lt_or_gt_of_ne hme with hlt | hgt
        · obtain ⟨y, ys, hL, hy, _⟩ := h2 (sub_neg.mpr hlt)
          rw [hr] at hL
          have : e = y := (List.cons.inj hL).1
          exact absurd (this ▸ hy) (not_le.mpr hlt)
        · obtain ⟨y, ys, hL, hy, _⟩ := h1 (sub_pos.mpr hgt)
          rw [hr] at hL
          have : e = y := (List.cons.inj hL).1
          exact absurd (this ▸ hy) (not_le.mpr hgt)

theorem revLoop_head (x d e : α) (M : List α) (h : (revLoop x d (e :: M)).1.head? = some e) :
    (revLoop x d (e :: M)).1 = e :: (revLoop e 0 M).1 := by
  by_cases he : e = x
  · subst he
    rw [revLoop_cons_eq] at h ⊢
    exact revLoop_head_self _ _ _ h
  · by_cases ht : d * (e - x) < 0
    · rw [revLoop_cons_turn _ _ _ _ ht] at h
      simp at h
      exact absurd h.symm he
    · rw [revLoop_cons_noturn _ _ _ _ he ht] at h ⊢
      exact revLoop_head_self _ _ _ h

/-- Part 2 (a statement about the reversal loop alone): if the points yielded from any state over `E ++ [z]` are at
least two, start with the first and end with the last element of `E`, then they are the points of `E` with end
points. -/
theorem reversals_true_of_ends (x d : α) (E : List α) (z : α) (pts : List α)
    (hp : (revLoop x d (E ++ [z])).1 = pts) (h2 : 2 ≤ pts.length)
    (hh : E.head? = pts.head?) (hl : E.getLast? = pts.getLast?) :
    reversals true E = some pts := by
  rcases pts with _ | ⟨p1, _ | ⟨p2, pts'⟩⟩
  · simp at h2
  · simp at h2
  rcases E with _ | ⟨e1, E''⟩
  · simp at hh
  have he1 : e1 = p1 := by simpa using hh
  subst he1
  have hH := revLoop_head x d e1 (E'' ++ [z]) (by rw [← List.cons_append, hp]; rfl)
  rw [← List.cons_append, hp] at hH
  have hq : (revLoop e1 0 (E'' ++ [z])).1 = p2 :: pts' := (List.cons.inj hH).2.symm
  have hlast : (revLoop e1 0 (E'' ++ [z])).1.getLast? = some (E''.getLastD e1) := by
    rw [hq]
    have : (e1 :: E'').getLast? = some (E''.getLastD e1) := by
      rw [List.getLast?_eq_some_iff]
      rcases List.eq_nil_or_concat E'' with h | ⟨l, b, h⟩
      · subst h; exact ⟨[], rfl⟩
      · subst h; exact ⟨e1 :: l, by simp⟩
    rw [← this, hl]
    simp [List.getLast?_cons_cons]
  have hT := revL_of_last e1 0 E'' z hlast
  rw [hq] at hT
  rcases E'' with _ | ⟨e2, E'⟩
  · have : (revLoop e1 0 ([] ++ [z])).1 = [] := by
      by_cases hz : z = e1
      · subst hz; simp [revLoop_cons_eq, revLoop_nil]
      · simp [revLoop_cons_noturn e1 0 z [] hz (by simp), revLoop_nil]
    rw [this] at hq
    exact absurd hq (by simp)
  · have hrl : revL e1 0 (e2 :: E') = revL e2 (e2 - e1) E' := by
      by_cases h21 : e2 = e1
      · subst h21; rw [revL_cons_eq, sub_self]
      · exact revL_cons_noturn e1 0 e2 E' h21 (by simp)
    rw [hrl] at hT
    simp only [reversals, if_true]
    rw [← revL, ← hT]

/-- With plateaus: the turning points of the signal are recovered from the extracted values with end points whenever
the first / last extracted value is the first / last turning point and there are at least two turning points. -/
theorem findReversals_recount (x pts : List α) (hp : reversals false x = some pts) (h2 : 2 ≤ pts.length)
    (hh : ((findReversals x).map Prod.snd).head? = pts.head?)
    (hl : ((findReversals x).map Prod.snd).getLast? = pts.getLast?) :
    reversals true ((findReversals x).map Prod.snd) = some pts := by
  rcases x with _ | ⟨a, _ | ⟨b, rest⟩⟩
  · simp [reversals] at hp
  · simp [reversals] at hp
  · simp only [reversals, Option.some.injEq] at hp
    have hp' : (revLoop b (b - a) rest).1 = pts := by simpa using hp
    rw [revLoop_frG 1 (decide (b < a)) b (b - a) rest] at hp'
    exact reversals_true_of_ends b (b - a) _ _ pts hp' h2 hh hl

end Qats.FindReversals
