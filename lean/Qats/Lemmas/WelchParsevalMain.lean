import Qats.Lemmas.WelchParsevalSums
import Qats.Lemmas.WelchMain
/-!
The area under the Welch estimate of the model (`Qats/Model/Welch.lean`, `Qats/Model/WelchArea.lean`) over ℝ:
one prepared segment, the average over the segments (`welchCore`), `welch` (= `qats.signal.psd`) and `psdTs`
(= `TimeSeries.psd`).  Statements fixed by `Qats/Props/C13.lean`.
-/
namespace Qats.Welch
open Finset Qats.Welch.Parseval

/-! ### one prepared segment -/

theorem binPower_eq_G (N : ℕ) (hN : 0 < N) (scale : ℝ) (k : ℕ) (a : List ℝ) (ha : a.length ≤ N) :
    binPower (cosTw N) (sinTw N) N scale k a =
      if special N k then G N (fun i => a.getD i 0) k * scale
      else G N (fun i => a.getD i 0) k * scale + G N (fun i => a.getD i 0) k * scale := by
  simp only [binPower]
  rw [model_power_eq_G N hN a ha k]

/-- Parseval with one-sided folding: the one-sided bins of a segment add up to `nfft · Σ a² · scale`
(`a` zero-padded to `nfft`). -/
theorem segment_sum' (N : ℕ) (hN : 0 < N) (scale : ℝ) (a : List ℝ) (ha : a.length ≤ N) :
    Welch.sum ((List.range (N / 2 + 1)).map fun k => binPower (cosTw N) (sinTw N) N scale k a) =
      (N : ℝ) * sumSq a * scale := by
  rw [sum_range_map_eq_finset]
  simp only [binPower_eq_G N hN scale _ a ha]
  rw [fold_onesided N hN (fun k => G N (fun i => a.getD i 0) k * scale), ← sum_mul, sum_G,
    sumSq_eq_finset a N ha]
  intro k _ hk
  simp only [G_reflect N hN _ k hk.le]

/-- Parseval's identity for the model's two-sided DFT sums: `Σ_{k<N} (Re X_k)² + (Im X_k)² = N · Σ a²`. -/
theorem parseval_two_sided' (N : ℕ) (hN : 0 < N) (a : List ℝ) (ha : a.length ≤ N) :
    Welch.sum ((List.range N).map fun k =>
      dftAux (cosTw N) k 0 a * dftAux (cosTw N) k 0 a + dftAux (sinTw N) k 0 a * dftAux (sinTw N) k 0 a) =
      (N : ℝ) * sumSq a := by
  rw [sum_range_map_eq_finset]
  simp only [model_power_eq_G N hN a ha]
  rw [sum_G, sumSq_eq_finset a N ha]

theorem area_identity (N : ℕ) (hN : 0 < N) (dt : ℝ) (hdt : dt ≠ 0) (S W : ℝ) :
    (N : ℝ) * S * ((1.0 : ℝ) / ((1.0 : ℝ) / dt * W)) * ((1.0 : ℝ) / ((N : ℝ) * dt)) = S / W := by
  have hN' : (N : ℝ) ≠ 0 := by exact_mod_cast hN.ne'
  rw [one_lit]
  by_cases hW : W = 0
  · subst hW; simp
  · field_simp

/-- Area of one prepared segment `a` (window `w`, any `nfft ≥ a.length`): the window-weighted mean square. -/
theorem prepared_area' (w a : List ℝ) (nfft : ℕ) (dt : ℝ) (hdt : dt ≠ 0) (hn : 1 ≤ nfft) (ha : a.length ≤ nfft) :
    area (binWidth nfft dt) ((List.range (nfft / 2 + 1)).map fun k =>
      binPower (cosTw nfft) (sinTw nfft) nfft (densityScale ((1.0 : ℝ) / dt) w) k a) =
      weightedMeanSquare w a := by
  rw [area, segment_sum' nfft hn _ a ha, binWidth, weightedMeanSquare, densityScale]
  exact area_identity nfft hn dt hdt (sumSq a) (sumSq w)

theorem applyWin_length_le (w y : List ℝ) : (applyWin w y).length ≤ w.length := by
  simp only [applyWin, List.length_zipWith]
  exact min_le_left _ _

theorem segment_area' (w y : List ℝ) (nfft : ℕ) (dt : ℝ) (hdt : dt ≠ 0) (hn : 1 ≤ nfft) (hw : w.length ≤ nfft) :
    area (binWidth nfft dt) ((List.range (nfft / 2 + 1)).map fun k =>
      binPower (cosTw nfft) (sinTw nfft) nfft (densityScale ((1.0 : ℝ) / dt) w) k (applyWin w y)) =
      sumSq (applyWin w y) / sumSq w :=
  prepared_area' w _ nfft dt hdt hn (le_trans (applyWin_length_le w y) hw)

/-! ### the average over the segments -/

theorem sum_map_add_fn {β : Type} (l : List β) (g h : β → ℝ) :
    Welch.sum (l.map fun b => g b + h b) = Welch.sum (l.map g) + Welch.sum (l.map h) := by
  induction l with
  | nil => simp [Welch.sum]
  | cons b l ih => simp only [List.map_cons, Welch.sum, ih]; ring

theorem sum_map_div {β : Type} (l : List β) (g : β → ℝ) (m : ℝ) :
    Welch.sum (l.map fun b => g b / m) = Welch.sum (l.map g) / m := by
  induction l with
  | nil => simp [Welch.sum]
  | cons b l ih => simp only [List.map_cons, Welch.sum, ih]; ring

theorem sum_map_mul_right {β : Type} (l : List β) (g : β → ℝ) (m : ℝ) :
    Welch.sum (l.map fun b => g b * m) = Welch.sum (l.map g) * m := by
  induction l with
  | nil => simp [Welch.sum]
  | cons b l ih => simp only [List.map_cons, Welch.sum, ih]; ring

/-- Interchange of the two list sums. -/
theorem sum_sum_comm {β γ : Type} (ks : List β) (ys : List γ) (F : β → γ → ℝ) :
    Welch.sum (ks.map fun k => Welch.sum (ys.map fun y => F k y)) =
      Welch.sum (ys.map fun y => Welch.sum (ks.map fun k => F k y)) := by
  induction ys with
  | nil =>
    simp only [List.map_nil, Welch.sum]
    induction ks with
    | nil => rfl
    | cons k ks ih => simp only [List.map_cons, Welch.sum, ih]; ring
  | cons y ys ih =>
    simp only [List.map_cons, Welch.sum]
    rw [sum_map_add_fn, ih]

/-- The area of the averaged estimate is the average of the per-segment areas. -/
theorem welchCore_area_eq_mean (c s : ℕ → ℝ) (w : List ℝ) (nfft : ℕ) (scale : ℝ) (nov : ℕ) (x : List ℝ) (df : ℝ) :
    area df (welchCore c s w nfft scale nov x) =
      mean ((prepared w nov x).map fun a =>
        area df ((List.range (nfft / 2 + 1)).map fun k => binPower c s nfft scale k a)) := by
  simp only [area, welchCore, mean, List.length_map]
  rw [sum_map_div, sum_sum_comm, sum_map_mul_right]
  ring

theorem prepared_length_le (w : List ℝ) (nov : ℕ) (x : List ℝ) : ∀ a ∈ prepared w nov x, a.length ≤ w.length := by
  intro a ha
  simp only [prepared, List.mem_map] at ha
  obtain ⟨seg, _, rfl⟩ := ha
  exact applyWin_length_le w _

/-- Area of the averaged estimate = mean over the segments of the window-weighted mean squares. -/
theorem welchCore_area' (w : List ℝ) (nfft : ℕ) (dt : ℝ) (hdt : dt ≠ 0) (hn : 1 ≤ nfft) (hw : w.length ≤ nfft)
    (nov : ℕ) (x : List ℝ) :
    area (binWidth nfft dt)
      (welchCore (cosTw nfft) (sinTw nfft) w nfft (densityScale ((1.0 : ℝ) / dt) w) nov x) =
      meanWeightedMeanSquare w nov x := by
  rw [welchCore_area_eq_mean, meanWeightedMeanSquare]
  congr 1
  apply List.map_congr_left
  intro a ha
  exact prepared_area' w a nfft dt hdt hn (le_trans (prepared_length_le w nov x a ha) hw)

/-! ### `welch` = `qats.signal.psd`, `psdTs` = `TimeSeries.psd` -/

theorem hann_length (n : ℕ) : (hann n : List ℝ).length = n := by
  unfold hann
  split_ifs <;> simp

theorem welch_area' (x : List ℝ) (dt : ℝ) (hdt : dt ≠ 0) (np nov nf : Option ℕ) (r : Psd ℝ)
    (h : welch x dt np nov nf = .ok r) (hx : x ≠ []) :
    area (binWidth (nf.getD (min (np.getD 256) x.length)) dt) r.p =
      meanWeightedMeanSquare (hann (min (np.getD 256) x.length))
        (nov.getD (min (np.getD 256) x.length / 2)) x := by
  obtain ⟨h1, h2, _, hr⟩ := welchWith_ok _ _ _ x _ np nov nf r h hx
  rw [hr]
  exact welchCore_area' _ _ dt hdt (le_trans h1 h2) (by rw [hann_length]; exact h2) _ x

theorem psdTs_area' (t x : List ℝ) (hdt : mean (diffs t) ≠ 0) (np nov nf : Option ℕ) (r : Psd ℝ)
    (h : psdTs t x np nov nf false = .ok r) (hx : x ≠ []) :
    area (binWidth (nf.getD (min (np.getD (x.length / 4)) x.length)) (mean (diffs t))) r.p =
      meanWeightedMeanSquare (hann (min (np.getD (x.length / 4)) x.length))
        (nov.getD (min (np.getD (x.length / 4)) x.length / 2)) x := by
  obtain ⟨r0, h0, hr⟩ := psdTsWith_ok welch t x np nov nf false r h
  simp only [Bool.false_eq_true, if_false] at hr
  subst hr
  have := welch_area' x _ hdt _ nov nf r h0 hx
  simpa only [Option.getD_some] using this

/-- The driver's pair `welchArea` has equal components. -/
theorem welchArea_eq' (x : List ℝ) (dt : ℝ) (hdt : dt ≠ 0) (np nov nf : Option ℕ) (p : ℝ × ℝ)
    (h : welchArea x dt np nov nf = .ok p) (hx : x ≠ []) : p.1 = p.2 := by
  unfold welchArea at h
  cases hw : welch x dt np nov nf with
  | error e => rw [hw] at h; cases h
  | ok r =>
    rw [hw] at h
    simp only [Except.ok.injEq] at h
    subst h
    have hmin : segLen x.length np = min (np.getD 256) x.length := by
      simp only [segLen]
      split_ifs with h1
      · exact (min_eq_right (le_of_lt h1)).symm
      · exact (min_eq_left (not_lt.mp h1)).symm
    simp only [hmin]
    exact welch_area' x dt hdt np nov nf r hw hx

end Qats.Welch
