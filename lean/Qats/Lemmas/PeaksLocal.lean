import Qats.Lemmas.PeaksScan
/-!
Local maxima: characterisation of `localFrom`, and every global maximum leads to a local one through a plateau.
-/
namespace Qats.Peaks
set_option linter.unusedSectionVars false
set_option linter.unusedVariables false
variable {α : Type} [Field α] [LinearOrder α] [IsStrictOrderedRing α]

theorem localFrom_mem (l : List α) : ∀ (s i : Nat) (v : α), (i, v) ∈ localFrom s l ↔
    ∃ j a c, i = s + 1 + j ∧ l[j]? = some a ∧ l[j + 1]? = some v ∧ l[j + 2]? = some c ∧ a ≤ v ∧ c < v := by
  induction l with
  | nil => intro s i v; simp [localFrom]
  | cons a t ih =>
    intro s i v
    match t, ih with
    | [], _ => simp [localFrom]
    | [b], _ => simp [localFrom]
    | b :: c :: rest, ih =>
      rw [localFrom, List.mem_append, ih]
      constructor
      · rintro (h | ⟨j, a', c', hi, h1, h2, h3, h4, h5⟩)
        · split at h
          · rename_i hc
            simp only [List.mem_singleton, Prod.mk.injEq] at h
            obtain ⟨rfl, rfl⟩ := h
            exact ⟨0, a, c, rfl, rfl, rfl, rfl, not_lt.mp hc.1, hc.2⟩
          · simp at h
        · exact ⟨j + 1, a', c', by omega, by simpa using h1, by simpa using h2, by simpa using h3, h4, h5⟩
      · rintro ⟨j, a', c', hi, h1, h2, h3, h4, h5⟩
        cases j with
        | zero =>
          left
          simp only [List.getElem?_cons_zero, List.getElem?_cons_succ, Option.some.injEq, zero_add] at h1 h2 h3
          subst h1 h2 h3
          rw [if_pos ⟨not_lt.mpr h4, h5⟩]
          simp [hi]
        | succ j =>
          right
          exact ⟨j, a', c', by omega, by simpa using h1, by simpa using h2, by simpa using h3, h4, h5⟩

/-- `IsLocalMax`, spelled out. -/
def LM (x : List α) (i : Nat) (v : α) : Prop :=
  1 ≤ i ∧ ∃ a c, x[i - 1]? = some a ∧ x[i]? = some v ∧ x[i + 1]? = some c ∧ a ≤ v ∧ c < v

theorem localMaxima_mem_iff (x : List α) (i : Nat) (v : α) : (i, v) ∈ localMaxima x ↔ LM x i v := by
  rw [localMaxima, localFrom_mem]
  constructor
  · rintro ⟨j, a, c, hi, h1, h2, h3, h4, h5⟩
    have : i = j + 1 := by omega
    subst this
    exact ⟨by omega, a, c, by simpa using h1, h2, h3, h4, h5⟩
  · rintro ⟨hi, a, c, h1, h2, h3, h4, h5⟩
    obtain ⟨j, rfl⟩ : ∃ j, i = j + 1 := ⟨i - 1, by omega⟩
    exact ⟨j, a, c, by omega, by simpa using h1, h2, h3, h4, h5⟩

theorem not_aboveM_le {m : α} {x : List α} {k : Nat} (hk : k < x.length) (h : ¬ AboveM m x k) :
    ∃ w, x[k]? = some w ∧ w ≤ m :=
  ⟨x[k], List.getElem?_eq_getElem hk, not_lt.mp fun hlt => h ⟨x[k], List.getElem?_eq_getElem hk, hlt⟩⟩

theorem GM_plateau {m : α} {x : List α} {i l r : Nat} {v : α} (hv : x[i]? = some v)
    (h1 : 1 ≤ l) (h2 : l ≤ i) (h3 : i ≤ r) (h4 : r + 1 < x.length)
    (hab : ∀ k, l ≤ k → k ≤ r → AboveM m x k) (hnl : ¬ AboveM m x (l - 1)) (hnr : ¬ AboveM m x (r + 1))
    (hlt : ∀ k w, l ≤ k → k < i → x[k]? = some w → w < v) (hle : ∀ k w, i < k → k ≤ r → x[k]? = some w → w ≤ v) :
    ∀ d j, r - j = d → i ≤ j → j ≤ r → (∀ k, i ≤ k → k ≤ j → x[k]? = some v) →
      ∃ j', j ≤ j' ∧ LM x j' v ∧ ∀ k, i ≤ k → k ≤ j' → x[k]? = some v := by
  have hmv : m < v := (aboveM_iff hv).mp (hab i h2 h3)
  have hprev : ∀ j, i ≤ j → j ≤ r → (∀ k, i ≤ k → k ≤ j → x[k]? = some v) → ∃ a, x[j - 1]? = some a ∧ a ≤ v := by
    intro j hij hjr hpl
    rcases Nat.lt_or_ge i j with h | h
    · exact ⟨v, hpl (j - 1) (by omega) (by omega), le_rfl⟩
    · have hji : j = i := by omega
      subst hji
      rcases Nat.lt_or_ge l j with h' | h'
      · have hk : j - 1 < x.length := by omega
        exact ⟨x[j - 1], List.getElem?_eq_getElem hk,
          (hlt (j - 1) _ (by omega) (by omega) (List.getElem?_eq_getElem hk)).le⟩
      · have hjl : j = l := by omega
        subst hjl
        obtain ⟨w, hw, hwm⟩ := not_aboveM_le (by omega) hnl
        exact ⟨w, hw, (hwm.trans_lt hmv).le⟩
  intro d
  induction d with
  | zero =>
    intro j hd hij hjr hpl
    have hjr' : j = r := by omega
    subst hjr'
    obtain ⟨a, ha, hav⟩ := hprev j hij hjr hpl
    obtain ⟨c, hc, hcm⟩ := not_aboveM_le h4 hnr
    exact ⟨j, le_rfl, ⟨by omega, a, c, ha, hpl j hij le_rfl, hc, hav, hcm.trans_lt hmv⟩, hpl⟩
  | succ d ih =>
    intro j hd hij hjr hpl
    have hk : j + 1 < x.length := by omega
    have hc : x[j + 1]? = some x[j + 1] := List.getElem?_eq_getElem hk
    rcases (hle (j + 1) _ (by omega) (by omega) hc).lt_or_eq with hlt' | heq
    · obtain ⟨a, ha, hav⟩ := hprev j hij hjr hpl
      exact ⟨j, le_rfl, ⟨by omega, a, x[j + 1], ha, hpl j hij le_rfl, hc, hav, hlt'⟩, hpl⟩
    · obtain ⟨j', hj', hlm, hpl'⟩ := ih (j + 1) (by omega) (by omega) (by omega) (by
        intro k hk1 hk2
        rcases Nat.lt_or_ge k (j + 1) with h | h
        · exact hpl k hk1 (by omega)
        · have : k = j + 1 := by omega
          subst this
          rw [hc, heq])
      exact ⟨j', by omega, hlm, hpl'⟩

theorem GM_subset_local {m : α} {x : List α} {i : Nat} {v : α} (h : GM m x x.length i v) :
    ∃ j, i ≤ j ∧ LM x j v ∧ ∀ k, i ≤ k → k ≤ j → x[k]? = some v := by
  obtain ⟨hv, l, r, h1, h2, h3, h4, hab, hnl, hnr, hlt, hle⟩ := h
  exact GM_plateau hv h1 h2 h3 h4 hab hnl hnr hlt hle (r - i) i rfl le_rfl h3 (by
    intro k hk1 hk2
    have : k = i := by omega
    exact this ▸ hv)

end Qats.Peaks
