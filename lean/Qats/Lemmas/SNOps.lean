import Qats.Model.SN
import Qats.Lemmas.RealOpsSimp
/-!
Bridging lemmas for C05: the generated S-N curve formulas (`Qats.Gen.sn_loga2 … sn_tcorr_mask`) at `α := ℝ` in
ordinary Mathlib notation.  These are the *only* lemmas whose proofs look at the syntactic shape of these generated
formulas; every other S-N lemma is proved from the right-hand sides stated here.  Each proof is "unfold, normalise
literals, normalise ring structure", so it survives algebraically harmless refactorings of the source formula.

The generic `TranscOps ℝ` simp lemmas and the `sn_norm` / `sn_mask_norm` tactics are in `RealOpsSimp.lean`; the
formulas that only C06 is about (`sn_mw_single`, `gh_corrected`) are restated in `SNOps06.lean`.
-/
namespace Qats.SN
open Qats Qats.Gen

theorem loga2_eq (loga1 m1 m2 nswitch : ℝ) :
    sn_loga2 loga1 m1 m2 nswitch = m2 / m1 * loga1 + (1 - m2 / m1) * Real.logb 10 nswitch := by
  simp only [sn_loga2, log10_real]; sn_norm

theorem sswitch_eq (loga1 m1 nswitch : ℝ) :
    sn_sswitch loga1 m1 nswitch = (10 : ℝ) ^ ((loga1 - Real.logb 10 nswitch) / m1) := by
  simp only [sn_sswitch, log10_real, rpow_real]; sn_norm

theorem n_single_eq (loga1 m1 s tc : ℝ) :
    sn_n_single loga1 m1 s tc = (10 : ℝ) ^ (loga1 - m1 * Real.logb 10 (s * tc)) := by
  simp only [sn_n_single, log10_real, rpow_real]; sn_norm

theorem n_upper_eq (loga1 m1 s tc : ℝ) :
    sn_n_upper loga1 m1 s tc = (10 : ℝ) ^ (loga1 - m1 * Real.logb 10 (s * tc)) := by
  simp only [sn_n_upper, log10_real, rpow_real]; sn_norm

theorem n_lower_eq (loga2 m2 s tc : ℝ) :
    sn_n_lower loga2 m2 s tc = (10 : ℝ) ^ (loga2 - m2 * Real.logb 10 (s * tc)) := by
  simp only [sn_n_lower, log10_real, rpow_real]; sn_norm

theorem strength_eq (loga m n tc : ℝ) :
    sn_strength loga m n tc = 1 / tc * (10 : ℝ) ^ ((loga - Real.logb 10 n) / m) := by
  simp only [sn_strength, log10_real, rpow_real]; sn_norm

theorem mask_eq (s sswitch tc : ℝ) : sn_mask s sswitch tc = decide (sswitch ≤ s * tc) := by
  unfold sn_mask; sn_mask_norm

theorem strength_mask_eq (n nswitch : ℝ) : sn_strength_mask n nswitch = decide (n ≤ nswitch) := by
  unfold sn_strength_mask; sn_mask_norm

set_option linter.unusedTactic false in
set_option linter.unreachableTactic false in
theorem tcorr_formula_eq (t te tr : ℝ) : sn_tcorr t te tr = (t / tr) ^ te := by
  simp only [sn_tcorr, rpow_real]
  all_goals sn_norm

theorem tcorr_mask_eq (t tr : ℝ) : sn_tcorr_mask t tr = decide (t < tr) := by
  unfold sn_tcorr_mask; sn_mask_norm

end Qats.SN
