import Qats.Model.SN
import Qats.Lemmas.RealOps
import Mathlib.Tactic.Ring
import Mathlib.Tactic.NormNum
import Mathlib.Tactic.FieldSimp
import Mathlib.Tactic.Linarith
/-!
Bridging lemmas: the generated formulas (`Qats.Gen.sn_*`, `gh_corrected`) at `α := ℝ` in ordinary Mathlib
notation.  These are the *only* lemmas whose proofs look at the syntactic shape of the generated formulas; every
other S-N lemma is proved from the right-hand sides stated here.  Each proof is "unfold, normalise literals,
normalise ring structure", so it survives algebraically harmless refactorings of the source formula.
-/
namespace Qats.SN
open Qats Qats.Gen

@[simp] theorem log10_real (x : ℝ) : TranscOps.log10 x = Real.logb 10 x := rfl
@[simp] theorem rpow_real (x y : ℝ) : TranscOps.rpow x y = x ^ y := rfl
@[simp] theorem gamma_real (x : ℝ) : TranscOps.gamma x = Real.Gamma x := rfl
@[simp] theorem exp_real (x : ℝ) : TranscOps.exp x = Real.exp x := rfl
@[simp] theorem log_real (x : ℝ) : TranscOps.log x = Real.log x := rfl
@[simp] theorem sqrt_real (x : ℝ) : TranscOps.sqrt x = Real.sqrt x := rfl

/-- Closes a goal `f a₁ … = g b₁ …` obtained after unfolding a generated formula: literals are normalised, then
the two sides are compared up to ring normalisation (also under `^`, `logb`, `Gamma`). -/
macro "sn_norm" : tactic =>
  `(tactic| (norm_num <;> first | done | ring_nf | (congr 1 <;> ring_nf)))

/-- Same for the comparison masks `decide (a ≤ b) = decide (a' ≤ b')`: equal up to linear-arithmetic
normalisation of the two inequalities. -/
macro "sn_mask_norm" : tactic =>
  `(tactic| (refine decide_eq_decide.2 ⟨fun h => ?_, fun h => ?_⟩ <;> first | exact h | linarith))

theorem loga2_eq (loga1 m1 m2 nswitch : ℝ) :
    sn_loga2 loga1 m1 m2 nswitch = m2 / m1 * loga1 + (1 - m2 / m1) * Real.logb 10 nswitch := by
  simp only [sn_loga2, log10_real]; sn_norm

theorem sswitch_eq (loga1 m1 nswitch : ℝ) :
    sn_sswitch loga1 m1 nswitch = (10 : ℝ) ^ ((loga1 - Real.logb 10 nswitch) / m1) := by
  simp only [sn_sswitch, log10_real, rpow_real]; sn_norm

theorem n_single_eq (loga1 m1 s tc : ℝ) :
    sn_n_single loga1 m1 s tc = (10 : ℝ) ^ (loga1 - m1 * Real.logb 10 (s * tc)) := by
  simp only [sn_n_single, log10_real, rpow_real]; sn_norm

theorem n_upper_eq (loga1 m1 s tc : ℝ) :
    sn_n_upper loga1 m1 s tc = (10 : ℝ) ^ (loga1 - m1 * Real.logb 10 (s * tc)) := by
  simp only [sn_n_upper, log10_real, rpow_real]; sn_norm

theorem n_lower_eq (loga2 m2 s tc : ℝ) :
    sn_n_lower loga2 m2 s tc = (10 : ℝ) ^ (loga2 - m2 * Real.logb 10 (s * tc)) := by
  simp only [sn_n_lower, log10_real, rpow_real]; sn_norm

theorem strength_eq (loga m n tc : ℝ) :
    sn_strength loga m n tc = 1 / tc * (10 : ℝ) ^ ((loga - Real.logb 10 n) / m) := by
  simp only [sn_strength, log10_real, rpow_real]; sn_norm

theorem mask_eq (s sswitch tc : ℝ) : sn_mask s sswitch tc = decide (sswitch ≤ s * tc) := by
  unfold sn_mask; sn_mask_norm

theorem strength_mask_eq (n nswitch : ℝ) : sn_strength_mask n nswitch = decide (n ≤ nswitch) := by
  unfold sn_strength_mask; sn_mask_norm

set_option linter.unusedTactic false in
set_option linter.unreachableTactic false in
theorem tcorr_formula_eq (t te tr : ℝ) : sn_tcorr t te tr = (t / tr) ^ te := by
  simp only [sn_tcorr, rpow_real]
  all_goals sn_norm

theorem tcorr_mask_eq (t tr : ℝ) : sn_tcorr_mask t tr = decide (t < tr) := by
  unfold sn_tcorr_mask; sn_mask_norm

theorem mw_single_eq (a1 h m1 q td v0 : ℝ) :
    sn_mw_single a1 h m1 q td v0 = v0 * td * (q ^ m1 / a1) * Real.Gamma (1 + m1 / h) := by
  simp only [sn_mw_single, gamma_real, rpow_real]; sn_norm

set_option linter.unusedTactic false in
set_option linter.unreachableTactic false in
theorem gh_eq (m r uts : ℝ) : gh_corrected m r uts = r * (uts / (uts - m)) := by
  simp only [gh_corrected]
  all_goals sn_norm

end Qats.SN
