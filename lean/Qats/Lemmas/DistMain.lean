import Qats.Model.Dist
import Qats.Lemmas.RealOps
import Qats.Lemmas.DistOps
import Qats.Lemmas.DistWeibull
import Mathlib.Tactic
import Mathlib.Analysis.SpecialFunctions.Gamma.Basic
import Mathlib.Analysis.SpecialFunctions.Gaussian.GaussianIntegral
import Mathlib.MeasureTheory.Integral.Gamma
/-!
Main lemmas behind the C15 property theorems (statements fixed by `Qats/Props/C15.lean`).
All over ℝ, about the generated formulas `Qats.Gen.wb_*`, `gu_*`, `gm_*`, `ecdf_*`.
The generated formulas are only ever accessed through the restating lemmas `*_eq` / `*_mirror` of
`Qats/Lemmas/DistOps.lean`; the Weibull moment integral is in `Qats/Lemmas/DistWeibull.lean`.
(The C17 lemmas about `w2g_*`, `wfw_*` are in `Qats/Lemmas/W2GMain.lean`.)
-/
namespace Qats.Dist
open Qats Qats.Gen

-- The statements are fixed by `Qats/Props/C15.lean`; some of their hypotheses are not needed.
set_option linter.unusedVariables false

/-! ### Weibull (scale > 0, shape > 0, support x ≥ loc) -/

theorem wb_cdf_mono' (loc scale shape x y : ℝ) (hs : 0 < scale) (hc : 0 < shape) (hx : loc ≤ x) (hxy : x ≤ y) :
    wb_cdf loc scale shape x ≤ wb_cdf loc scale shape y := by
  rw [wb_cdf_eq, wb_cdf_eq]
  have hzx : 0 ≤ (x - loc) / scale := div_nonneg (sub_nonneg.2 hx) hs.le
  have hzxy : (x - loc) / scale ≤ (y - loc) / scale :=
    div_le_div_of_nonneg_right (by linarith) hs.le
  have h1 := Real.rpow_le_rpow hzx hzxy hc.le
  have h2 := Real.exp_le_exp.2 (neg_le_neg h1)
  linarith

theorem wb_cdf_range' (loc scale shape x : ℝ) (hs : 0 < scale) (hc : 0 < shape) (hx : loc ≤ x) :
    0 ≤ wb_cdf loc scale shape x ∧ wb_cdf loc scale shape x < 1 := by
  rw [wb_cdf_eq]
  have hzx : 0 ≤ (x - loc) / scale := div_nonneg (sub_nonneg.2 hx) hs.le
  have h0 : 0 ≤ ((x - loc) / scale) ^ shape := Real.rpow_nonneg hzx _
  have h1 : Real.exp (-((x - loc) / scale) ^ shape) ≤ 1 := Real.exp_le_one_iff.2 (by linarith)
  have h2 := Real.exp_pos (-((x - loc) / scale) ^ shape)
  constructor <;> linarith

theorem wb_cdf_loc' (loc scale shape : ℝ) (hs : 0 < scale) (hc : 0 < shape) : wb_cdf loc scale shape loc = 0 := by
  rw [wb_cdf_eq, sub_self, zero_div, Real.zero_rpow hc.ne', neg_zero, Real.exp_zero, sub_self]

theorem wb_invcdf_cdf' (loc scale shape x : ℝ) (hs : 0 < scale) (hc : 0 < shape) (hx : loc ≤ x) :
    wb_invcdf loc (wb_cdf loc scale shape x) scale shape = x := by
  rw [wb_invcdf_eq, wb_cdf_eq]
  have hzx : 0 ≤ (x - loc) / scale := div_nonneg (sub_nonneg.2 hx) hs.le
  rw [sub_sub_cancel, Real.log_exp, neg_neg, one_div, Real.rpow_rpow_inv hzx hc.ne']
  field_simp
  ring

theorem wb_cdf_invcdf' (loc scale shape p : ℝ) (hs : 0 < scale) (hc : 0 < shape) (hp0 : 0 ≤ p) (hp1 : p < 1) :
    wb_cdf loc scale shape (wb_invcdf loc p scale shape) = p := by
  rw [wb_cdf_eq, wb_invcdf_eq]
  have hL : 0 ≤ -Real.log (1 - p) := neg_nonneg.2 (Real.log_nonpos (by linarith) (by linarith))
  have e : (loc + scale * (-Real.log (1 - p)) ^ (1 / shape) - loc) / scale = (-Real.log (1 - p)) ^ shape⁻¹ := by
    rw [one_div]; field_simp; ring
  rw [e, Real.rpow_inv_rpow hL hc.ne', neg_neg, Real.exp_log (by linarith)]
  ring

theorem wb_invcdf_zero' (loc scale shape : ℝ) (hc : 0 < shape) : wb_invcdf loc 0 scale shape = loc := by
  rw [wb_invcdf_eq, sub_zero, Real.log_one, neg_zero, Real.zero_rpow (one_div_ne_zero hc.ne'), mul_zero, add_zero]

theorem wb_pdf_hasDerivAt' (loc scale shape x : ℝ) (hs : 0 < scale) (hc : 0 < shape) (hx : loc < x) :
    HasDerivAt (fun u => wb_cdf loc scale shape u) (wb_pdf loc scale shape x) x := by
  simp only [wb_cdf_eq, wb_pdf_eq]
  have hz : (x - loc) / scale ≠ 0 := (div_pos (sub_pos.2 hx) hs).ne'
  have h1 : HasDerivAt (fun u : ℝ => (u - loc) / scale) (1 / scale) x :=
    ((hasDerivAt_id x).sub_const loc).div_const scale
  have h2 := ((h1.rpow_const (p := shape) (Or.inl hz)).fun_neg.exp).const_sub 1
  refine h2.congr_deriv ?_
  ring

/-- Raw moments of the standardised variable: `∫ ((x-loc)/scale)^k f(x) dx = Γ(1 + k/shape)`. -/
theorem wb_raw_moment' (loc scale shape k : ℝ) (hs : 0 < scale) (hc : 0 < shape) (hk : 0 ≤ k) :
    ∫ x in Set.Ioi loc, ((x - loc) / scale) ^ k * wb_pdf loc scale shape x = Real.Gamma (1 + k / shape) := by
  simp only [wb_pdf_eq]
  exact wb_moment_integral_shift hs hc hk

/-- The reported moments are the textbook expressions in the raw moments `μ_k = Γ(1 + k/shape)`. -/
theorem wb_moments_algebra' (loc scale shape : ℝ) (hs : 0 < scale) (hc : 0 < shape)
    (μ : ℝ → ℝ) (hμ : ∀ k, μ k = Real.Gamma (1 + k / shape)) :
    wb_mean loc scale shape = loc + scale * μ 1 ∧
    wb_std scale shape = scale * Real.sqrt (μ 2 - μ 1 ^ 2) ∧
    wb_skew shape = (μ 3 - 3 * μ 1 * μ 2 + 2 * μ 1 ^ 3) / (μ 2 - μ 1 ^ 2) ^ (3 / 2 : ℝ) ∧
    wb_kurt shape = (μ 4 - 4 * μ 1 * μ 3 + 6 * μ 1 ^ 2 * μ 2 - 3 * μ 1 ^ 4) / (μ 2 - μ 1 ^ 2) ^ 2 := by
  rw [hμ 1, hμ 2, hμ 3, hμ 4]
  exact ⟨wb_mean_eq _ _ _, wb_std_eq _ _, wb_skew_eq _, wb_kurt_eq _⟩

/-! ### Gumbel maxima / minima (scale > 0) -/

theorem gu_cdf_strictMono' (loc scale : ℝ) (hs : 0 < scale) : StrictMono (fun x => gu_cdf loc scale x) := by
  intro x y hxy
  simp only [gu_cdf_eq]
  have h1 : (x - loc) / scale < (y - loc) / scale := div_lt_div_of_pos_right (by linarith) hs
  exact Real.exp_lt_exp.2 (neg_lt_neg (Real.exp_lt_exp.2 (neg_lt_neg h1)))

theorem gu_cdf_range' (loc scale x : ℝ) : 0 < gu_cdf loc scale x ∧ gu_cdf loc scale x < 1 := by
  rw [gu_cdf_eq]
  exact ⟨Real.exp_pos _, Real.exp_lt_one_iff.2 (neg_lt_zero.2 (Real.exp_pos _))⟩

theorem gu_invcdf_cdf' (loc scale x : ℝ) (hs : 0 < scale) : gu_invcdf loc (gu_cdf loc scale x) scale = x := by
  rw [gu_invcdf_eq, gu_cdf_eq, Real.log_exp, neg_neg, Real.log_exp]
  field_simp
  ring

theorem gu_cdf_invcdf' (loc scale p : ℝ) (hs : 0 < scale) (hp0 : 0 < p) (hp1 : p < 1) :
    gu_cdf loc scale (gu_invcdf loc p scale) = p := by
  rw [gu_cdf_eq, gu_invcdf_eq]
  have hL : 0 < -Real.log p := neg_pos.2 (Real.log_neg hp0 hp1)
  have e : -((loc - scale * Real.log (-Real.log p) - loc) / scale) = Real.log (-Real.log p) := by
    field_simp; ring
  rw [e, Real.exp_log hL, neg_neg, Real.exp_log hp0]

theorem gu_pdf_hasDerivAt' (loc scale x : ℝ) (hs : 0 < scale) :
    HasDerivAt (fun u => gu_cdf loc scale u) (gu_pdf loc scale x) x := by
  simp only [gu_cdf_eq, gu_pdf_eq]
  have h1 : HasDerivAt (fun u : ℝ => (u - loc) / scale) (1 / scale) x :=
    ((hasDerivAt_id x).sub_const loc).div_const scale
  have h2 := h1.fun_neg.exp.fun_neg.exp
  refine h2.congr_deriv ?_
  rw [sub_eq_add_neg (-((x - loc) / scale)), Real.exp_add]
  ring

theorem gu_median' (loc scale : ℝ) (hs : 0 < scale) : gu_cdf loc scale (gu_median loc scale) = 1 / 2 := by
  rw [gu_cdf_eq, gu_median_eq]
  have hL : 0 < Real.log 2 := Real.log_pos (by norm_num)
  have e : -((loc - scale * Real.log (Real.log 2) - loc) / scale) = Real.log (Real.log 2) := by
    field_simp; ring
  rw [e, Real.exp_log hL, Real.exp_neg, Real.exp_log (by norm_num)]
  norm_num

theorem gu_mode' (loc scale x : ℝ) (hs : 0 < scale) : gu_pdf loc scale x ≤ gu_pdf loc scale (gu_mode loc) := by
  rw [gu_pdf_eq, gu_pdf_eq, gu_mode_eq, sub_self, zero_div, neg_zero, Real.exp_zero]
  have h := Real.add_one_le_exp (-((x - loc) / scale))
  have h2 : Real.exp (-((x - loc) / scale) - Real.exp (-((x - loc) / scale))) ≤ Real.exp (0 - 1) :=
    Real.exp_le_exp.2 (by linarith)
  exact mul_le_mul_of_nonneg_left h2 (by positivity)

/-- The minimum distribution is the mirror image of the maximum distribution. -/
theorem gm_mirror' (loc scale x p : ℝ) (hs : 0 < scale) :
    gm_cdf loc scale x = 1 - gu_cdf (-loc) scale (-x) ∧
    gm_pdf loc scale x = gu_pdf (-loc) scale (-x) ∧
    gm_invcdf loc p scale = -gu_invcdf (-loc) (1 - p) scale ∧
    gm_mean loc scale = -gu_mean (-loc) scale ∧
    gm_median loc scale = -gu_median (-loc) scale ∧
    gm_mode loc = -gu_mode (-loc) ∧
    gm_std scale = gu_std scale ∧
    (gm_skew : ℝ) = -gu_skew ∧
    (gm_kurt : ℝ) = gu_kurt := by
  have e : -((-x - -loc) / scale) = (x - loc) / scale := by ring
  refine ⟨?_, ?_, ?_, gm_mean_mirror loc scale, ?_, ?_, gm_std_mirror scale, gm_skew_mirror, gm_kurt_mirror⟩
  · rw [gm_cdf_eq, gu_cdf_eq, e]
  · rw [gm_pdf_eq, gu_pdf_eq, e]
  · rw [gm_invcdf_eq, gu_invcdf_eq]; ring
  · rw [gm_median_eq, gu_median_eq]; ring
  · rw [gm_mode_eq, gu_mode_eq]; ring

/-- The mask skeleton of `invcdf` (all three distributions): 1 ↦ +∞, outside [0,1] ↦ nan, otherwise the formula. -/
theorem invMask_spec' (f : ℝ → ℝ) (p : ℝ) :
    (p = 1 → invMask f p = .posInf) ∧ ((p < 0 ∨ 1 < p) → invMask f p = .nan) ∧
      (0 ≤ p ∧ p < 1 → invMask f p = .val (f p)) := by
  have e0 : (0.0 : ℝ) = 0 := by norm_num
  have e1 : (1.0 : ℝ) = 1 := by norm_num
  unfold invMask
  rw [e0, e1]
  refine ⟨?_, ?_, ?_⟩
  · rintro rfl
    simp
  · intro h
    rw [if_neg (by rcases h with h | h <;> [exact fun h' => absurd h'.1 (not_le.2 h); exact fun h' => absurd h'.2 (not_lt.2 h.le)]), if_pos h]
  · intro h
    rw [if_pos h]

theorem ecdf_aux (a b i n : ℝ) (ha : a < 1) (hab : 0 < a + b) (hi : 1 ≤ i) (hin : i ≤ n) :
    0 < (i - a) / (n + b) ∧ (i - a) / (n + b) < 1 ∧ (i - a) / (n + b) < (i + 1 - a) / (n + b) := by
  have hd : 0 < n + b := by linarith
  refine ⟨div_pos (by linarith) hd, (div_lt_one hd).2 (by linarith), div_lt_div_of_pos_right (by linarith) hd⟩

/-- Plotting positions lie strictly inside (0,1) and increase with the rank. -/
theorem ecdf_spec' (n i : ℝ) (hi : 1 ≤ i) (hin : i ≤ n) :
    (0 < ecdf_mean i n ∧ ecdf_mean i n < 1 ∧ ecdf_mean i n < ecdf_mean (i + 1) n) ∧
    (0 < ecdf_median i n ∧ ecdf_median i n < 1 ∧ ecdf_median i n < ecdf_median (i + 1) n) ∧
    (0 < ecdf_symmetrical i n ∧ ecdf_symmetrical i n < 1 ∧ ecdf_symmetrical i n < ecdf_symmetrical (i + 1) n) ∧
    (0 < ecdf_beard i n ∧ ecdf_beard i n < 1 ∧ ecdf_beard i n < ecdf_beard (i + 1) n) ∧
    (0 < ecdf_gringorten i n ∧ ecdf_gringorten i n < 1 ∧ ecdf_gringorten i n < ecdf_gringorten (i + 1) n) := by
  simp only [ecdf_mean_eq, ecdf_median_eq, ecdf_symmetrical_eq, ecdf_beard_eq, ecdf_gringorten_eq]
  refine ⟨?_, ecdf_aux _ _ i n (by norm_num) (by norm_num) hi hin, ?_,
    ecdf_aux _ _ i n (by norm_num) (by norm_num) hi hin, ecdf_aux _ _ i n (by norm_num) (by norm_num) hi hin⟩
  · simpa using ecdf_aux 0 1 i n (by norm_num) (by norm_num) hi hin
  · simpa using ecdf_aux (1 / 2) 0 i n (by norm_num) (by norm_num) hi hin

end Qats.Dist
