import Qats.Model.Dist
import Qats.Lemmas.RealOps
import Mathlib.Tactic
import Mathlib.Analysis.SpecialFunctions.Gamma.Basic
import Mathlib.Analysis.SpecialFunctions.Gaussian.GaussianIntegral
import Mathlib.MeasureTheory.Integral.Gamma
/-!
Main lemmas behind the C15 and C17 property theorems (statements fixed by `Qats/Props/C15.lean`, `C17.lean`).
All over ℝ, about the generated formulas `Qats.Gen.wb_*`, `gu_*`, `gm_*`, `ecdf_*`, `w2g_*`, `wfw_*`.
-/
namespace Qats.Dist
open Qats Qats.Gen

/-! ### Weibull (scale > 0, shape > 0, support x ≥ loc) -/

theorem wb_cdf_mono' (loc scale shape x y : ℝ) (hs : 0 < scale) (hc : 0 < shape) (hx : loc ≤ x) (hxy : x ≤ y) :
    wb_cdf loc scale shape x ≤ wb_cdf loc scale shape y := by
  sorry

theorem wb_cdf_range' (loc scale shape x : ℝ) (hs : 0 < scale) (hc : 0 < shape) (hx : loc ≤ x) :
    0 ≤ wb_cdf loc scale shape x ∧ wb_cdf loc scale shape x < 1 := by
  sorry

theorem wb_cdf_loc' (loc scale shape : ℝ) (hs : 0 < scale) (hc : 0 < shape) : wb_cdf loc scale shape loc = 0 := by
  sorry

theorem wb_invcdf_cdf' (loc scale shape x : ℝ) (hs : 0 < scale) (hc : 0 < shape) (hx : loc ≤ x) :
    wb_invcdf loc (wb_cdf loc scale shape x) scale shape = x := by
  sorry

theorem wb_cdf_invcdf' (loc scale shape p : ℝ) (hs : 0 < scale) (hc : 0 < shape) (hp0 : 0 ≤ p) (hp1 : p < 1) :
    wb_cdf loc scale shape (wb_invcdf loc p scale shape) = p := by
  sorry

theorem wb_invcdf_zero' (loc scale shape : ℝ) (hc : 0 < shape) : wb_invcdf loc 0 scale shape = loc := by
  sorry

theorem wb_pdf_hasDerivAt' (loc scale shape x : ℝ) (hs : 0 < scale) (hc : 0 < shape) (hx : loc < x) :
    HasDerivAt (fun u => wb_cdf loc scale shape u) (wb_pdf loc scale shape x) x := by
  sorry

/-- Raw moments of the standardised variable: `∫ ((x-loc)/scale)^k f(x) dx = Γ(1 + k/shape)`. -/
theorem wb_raw_moment' (loc scale shape k : ℝ) (hs : 0 < scale) (hc : 0 < shape) (hk : 0 ≤ k) :
    ∫ x in Set.Ioi loc, ((x - loc) / scale) ^ k * wb_pdf loc scale shape x = Real.Gamma (1 + k / shape) := by
  sorry

/-- The reported moments are the textbook expressions in the raw moments `μ_k = Γ(1 + k/shape)`. -/
theorem wb_moments_algebra' (loc scale shape : ℝ) (hs : 0 < scale) (hc : 0 < shape)
    (μ : ℝ → ℝ) (hμ : ∀ k, μ k = Real.Gamma (1 + k / shape)) :
    wb_mean loc scale shape = loc + scale * μ 1 ∧
    wb_std scale shape = scale * Real.sqrt (μ 2 - μ 1 ^ 2) ∧
    wb_skew shape = (μ 3 - 3 * μ 1 * μ 2 + 2 * μ 1 ^ 3) / (μ 2 - μ 1 ^ 2) ^ (3 / 2 : ℝ) ∧
    wb_kurt shape = (μ 4 - 4 * μ 1 * μ 3 + 6 * μ 1 ^ 2 * μ 2 - 3 * μ 1 ^ 4) / (μ 2 - μ 1 ^ 2) ^ 2 := by
  sorry

/-! ### Gumbel maxima / minima (scale > 0) -/

theorem gu_cdf_strictMono' (loc scale : ℝ) (hs : 0 < scale) : StrictMono (fun x => gu_cdf loc scale x) := by
  sorry

theorem gu_cdf_range' (loc scale x : ℝ) : 0 < gu_cdf loc scale x ∧ gu_cdf loc scale x < 1 := by
  sorry

theorem gu_invcdf_cdf' (loc scale x : ℝ) (hs : 0 < scale) : gu_invcdf loc (gu_cdf loc scale x) scale = x := by
  sorry

theorem gu_cdf_invcdf' (loc scale p : ℝ) (hs : 0 < scale) (hp0 : 0 < p) (hp1 : p < 1) :
    gu_cdf loc scale (gu_invcdf loc p scale) = p := by
  sorry

theorem gu_pdf_hasDerivAt' (loc scale x : ℝ) (hs : 0 < scale) :
    HasDerivAt (fun u => gu_cdf loc scale u) (gu_pdf loc scale x) x := by
  sorry

theorem gu_median' (loc scale : ℝ) (hs : 0 < scale) : gu_cdf loc scale (gu_median loc scale) = 1 / 2 := by
  sorry

theorem gu_mode' (loc scale x : ℝ) (hs : 0 < scale) : gu_pdf loc scale x ≤ gu_pdf loc scale (gu_mode loc) := by
  sorry

/-- The minimum distribution is the mirror image of the maximum distribution. -/
theorem gm_mirror' (loc scale x p : ℝ) (hs : 0 < scale) :
    gm_cdf loc scale x = 1 - gu_cdf (-loc) scale (-x) ∧
    gm_pdf loc scale x = gu_pdf (-loc) scale (-x) ∧
    gm_invcdf loc p scale = -gu_invcdf (-loc) (1 - p) scale ∧
    gm_mean loc scale = -gu_mean (-loc) scale ∧
    gm_median loc scale = -gu_median (-loc) scale ∧
    gm_mode loc = -gu_mode (-loc) ∧
    gm_std scale = gu_std scale ∧
    (gm_skew : ℝ) = -gu_skew ∧
    (gm_kurt : ℝ) = gu_kurt := by
  sorry

/-- The mask skeleton of `invcdf` (all three distributions): 1 ↦ +∞, outside [0,1] ↦ nan, otherwise the formula. -/
theorem invMask_spec' (f : ℝ → ℝ) (p : ℝ) :
    (p = 1 → invMask f p = .posInf) ∧ ((p < 0 ∨ 1 < p) → invMask f p = .nan) ∧
      (0 ≤ p ∧ p < 1 → invMask f p = .val (f p)) := by
  sorry

/-- Plotting positions lie strictly inside (0,1) and increase with the rank. -/
theorem ecdf_spec' (n i : ℝ) (hi : 1 ≤ i) (hin : i ≤ n) :
    (0 < ecdf_mean i n ∧ ecdf_mean i n < 1 ∧ ecdf_mean i n < ecdf_mean (i + 1) n) ∧
    (0 < ecdf_median i n ∧ ecdf_median i n < 1 ∧ ecdf_median i n < ecdf_median (i + 1) n) ∧
    (0 < ecdf_symmetrical i n ∧ ecdf_symmetrical i n < 1 ∧ ecdf_symmetrical i n < ecdf_symmetrical (i + 1) n) ∧
    (0 < ecdf_beard i n ∧ ecdf_beard i n < 1 ∧ ecdf_beard i n < ecdf_beard (i + 1) n) ∧
    (0 < ecdf_gringorten i n ∧ ecdf_gringorten i n < 1 ∧ ecdf_gringorten i n < ecdf_gringorten (i + 1) n) := by
  sorry

/-! ### C17: Gumbel from Weibull -/

theorem gloc_is_quantile' (loc scale shape n : ℝ) (hn : 1 < n) :
    w2g_loc loc n scale shape = wb_invcdf loc (1 - 1 / n) scale shape := by
  sorry

theorem gscale_is_inverse_intensity' (loc scale shape n : ℝ) (hs : 0 < scale) (hc : 0 < shape) (hn : 1 < n) :
    w2g_scale n scale shape = 1 / (n * wb_pdf loc scale shape (w2g_loc loc n scale shape)) := by
  sorry

theorem entry_points_agree' (loc scale shape n : ℝ) (hs : 0 < scale) (hc : 0 < shape) (hn : 1 < n) :
    wfw_loc n loc scale shape = w2g_loc loc n scale shape ∧ wfw_scale n scale shape = w2g_scale n scale shape := by
  sorry

end Qats.Dist
