import Mathlib.Tactic
import Qats.Model.Gui
/-!
Lemmas about the GUI orchestration model (C19): the list mirrors the database in every reachable state, imports are
all-or-nothing, the selection consists of database keys, and the views equal the latest request after every *quiet*
history.  Counter-histories (K1, K2, K4) are evaluated by the kernel.
-/
namespace Qats.Gui

/-! ### the list mirrors the database -/

/-- Row texts are the relative listing of the database and the status bar shows its size. -/
def Mirror (s : State) : Prop := s.rows.map (·.text) = listRelative s.db ∧ s.status = s.db.length

theorem setVisible_text (p : Pat) (b : Bool) (i : Nat) (rows : List Row) :
    (setVisible p b i rows).map (·.text) = rows.map (·.text) := by
  induction rows generalizing i with
  | nil => simp [setVisible]
  | cons r rs ih =>
    unfold setVisible
    split
    · cases i with
      | zero => simp
      | succ i => simp [ih]
    · simp [ih]

theorem setAllVisible_text (p : Pat) (b : Bool) (rows : List Row) :
    (setAllVisible p b rows).map (·.text) = rows.map (·.text) := by
  unfold setAllVisible
  rw [List.map_map]
  apply List.map_congr_left
  intro r _
  simp only [Function.comp]
  split <;> rfl

theorem fresh_rows_text (l : List RowText) : (l.map (fun t => (⟨t, false⟩ : Row))).map (·.text) = l := by
  simp [List.map_map, Function.comp_def]

theorem finish_mirror (cat : Nat → Option (List Nat)) (s : State) (w : Worker) (h : Mirror s) : Mirror (finish cat s w) := by
  obtain ⟨h1, h2⟩ := h
  unfold Mirror
  cases w with
  | imp files =>
    simp only [finish]
    split
    · exact ⟨h1, rfl⟩
    · exact ⟨fresh_rows_text _, rfl⟩
  | read sel => exact ⟨h1, rfl⟩
  | job k series tw fl mn =>
    cases k with
    | trace => exact ⟨h1, rfl⟩
    | stats =>
      refine ⟨h1, ?_⟩
      show (if series.isEmpty then s.status else s.db.length) = s.db.length
      split
      · exact h2
      · rfl
    | psd => exact ⟨h1, rfl⟩
    | rfc => exact ⟨h1, rfl⟩
  | readG sel => exact ⟨h1, rfl⟩
  | calcG series tw fl =>
    simp only [finish]
    split
    · exact ⟨h1, h2⟩
    · exact ⟨h1, rfl⟩

theorem step_mirror (cat : Nat → Option (List Nat)) (s : State) (e : Event) (h : Mirror s) : Mirror (step cat s e) := by
  have h' := h
  obtain ⟨h1, h2⟩ := h
  cases e with
  | import_ files =>
    simp only [step]
    split
    · exact h'
    · exact ⟨h1, rfl⟩
  | clear => exact ⟨rfl, rfl⟩
  | setCheck i b => exact ⟨by simpa [step, setVisible_text] using h1, h2⟩
  | selectAll => exact ⟨by simpa [step, setAllVisible_text] using h1, h2⟩
  | unselectAll => exact ⟨by simpa [step, setAllVisible_text] using h1, h2⟩
  | setPat p => exact ⟨h1, h2⟩
  | display =>
    simp only [step]
    split
    · exact ⟨h1, h2⟩
    · exact ⟨h1, rfl⟩
  | gumbel =>
    simp only [step]
    split
    · exact ⟨h1, rfl⟩
    · exact h'
  | setTwin n => exact ⟨h1, h2⟩
  | setFilt n => exact ⟨h1, h2⟩
  | setMinima b => exact ⟨h1, h2⟩
  | setShowMM b => exact ⟨h1, h2⟩
  | complete i =>
    simp only [step]
    split
    · exact h'
    · exact finish_mirror cat _ _ ⟨h1, h2⟩

theorem run_mirror (cat : Nat → Option (List Nat)) (s : State) (h : List Event) (hs : Mirror s) : Mirror (run cat s h) := by
  induction h generalizing s with
  | nil => exact hs
  | cons e es ih => exact ih _ (step_mirror cat s e hs)

theorem list_mirrors_db' (cat : Nat → Option (List Nat)) (h : List Event) :
    (run cat init h).rows.map (·.text) = listRelative (run cat init h).db ∧ (run cat init h).status = (run cat init h).db.length :=
  run_mirror cat init h ⟨rfl, rfl⟩

/-! ### imports are all-or-nothing -/

theorem fileKeys_mem (cat : Nat → Option (List Nat)) (files : List Nat) (ks : List Key) (h : fileKeys cat files = some ks)
    (f : Nat) (hf : f ∈ files) (ns : List Nat) (hc : cat f = some ns) (n : Nat) (hn : n ∈ ns) : (⟨f, n⟩ : Key) ∈ ks := by
  induction files generalizing ks with
  | nil => cases hf
  | cons g gs ih =>
    unfold fileKeys at h
    cases hg : cat g with
    | none => simp [hg] at h
    | some ms =>
      cases hk : fileKeys cat gs with
      | none => simp [hg, hk] at h
      | some ks' =>
        simp only [hg, hk, Option.some.injEq] at h
        subst h
        rcases List.mem_cons.mp hf with rfl | hf'
        · rw [hc] at hg
          cases hg
          exact List.mem_append_left _ (List.mem_map.mpr ⟨n, hn, rfl⟩)
        · exact List.mem_append_right _ (ih ks' hk hf')

/-- An import fails when one of its files has a series whose key is already in the database. -/
theorem importResult_none_of_loaded (cat : Nat → Option (List Nat)) (db : List Key) (files : List Nat)
    (h : ∃ f ∈ files, ∃ ns, cat f = some ns ∧ ∃ n ∈ ns, (⟨f, n⟩ : Key) ∈ db) : importResult cat db files = none := by
  obtain ⟨f, hf, ns, hc, n, hn, hk⟩ := h
  unfold importResult
  cases hks : fileKeys cat files with
  | none => rfl
  | some ks =>
    have hm := fileKeys_mem cat files ks hks f hf ns hc n hn
    have : ks.any (fun k => db.contains k) = true := List.any_eq_true.mpr ⟨_, hm, by simpa using hk⟩
    simp only [this, Bool.or_true, if_true]

theorem complete_failed_import' (cat : Nat → Option (List Nat)) (s : State) (i : Nat) (files : List Nat) (rest : List Worker)
    (hp : pick i s.pending = some (.imp files, rest)) (hr : importResult cat s.db files = none) :
    step cat s (.complete i) = { s with pending := rest, status := s.db.length } := by
  simp [step, hp, finish, hr]

theorem complete_good_import' (cat : Nat → Option (List Nat)) (s : State) (i : Nat) (files : List Nat) (rest : List Worker)
    (ks : List Key) (hp : pick i s.pending = some (.imp files, rest)) (hr : importResult cat s.db files = some ks) :
    step cat s (.complete i) =
      { s with pending := rest, db := s.db ++ ks, rows := (listRelative (s.db ++ ks)).map (fun t => ⟨t, false⟩),
               status := (s.db ++ ks).length } := by
  simp [step, hp, finish, hr]

theorem importResult_some (cat : Nat → Option (List Nat)) (db : List Key) (files : List Nat) (ks : List Key)
    (h : importResult cat db files = some ks) :
    fileKeys cat files = some ks ∧ hasDup ks = false ∧ ∀ k ∈ ks, k ∉ db := by
  unfold importResult at h
  cases hks : fileKeys cat files with
  | none => simp [hks] at h
  | some ks' =>
    simp only [hks] at h
    split at h
    · cases h
    · rename_i hc
      cases h
      simp only [Bool.or_eq_true, not_or, Bool.not_eq_true] at hc
      refine ⟨rfl, hc.1, ?_⟩
      intro k hk hdb
      have := List.any_eq_false.mp hc.2 k hk
      simp [hdb] at this

/-! ### the selection consists of the database keys behind the ticked, visible rows -/

theorem sameFile_file (db : List Key) (h : sameFile db = true) (k0 : Key) (rest : List Key) (hd : db = k0 :: rest)
    (k : Key) (hk : k ∈ db) : k.file = k0.file := by
  subst hd
  rcases List.mem_cons.mp hk with rfl | hk'
  · rfl
  · have := List.all_eq_true.mp h k hk'
    simpa using this

theorem rowKey_relText (db : List Key) (k : Key) (hk : k ∈ db) : rowKey db (relText db k) = some k := by
  unfold relText rowKey
  cases hs : sameFile db with
  | true =>
    cases hd : db with
    | nil => simp [hd] at hk
    | cons k0 rest =>
      have hf := sameFile_file db hs k0 rest hd k hk
      have hs' : sameFile (k0 :: rest) = true := hd ▸ hs
      simp [← hf]
  | false => simp

theorem selectedOf_eq (db0 : List Key) (p : Pat) (rows : List Row) (l : List Key) (hl : ∀ k ∈ l, k ∈ db0)
    (hm : rows.map (·.text) = l.map (relText db0)) :
    selectedOf db0 p rows = ((rows.zip l).filter (fun q => visible p q.1.text && q.1.checked)).map (·.2) := by
  induction rows generalizing l with
  | nil => simp [selectedOf]
  | cons r rs ih =>
    cases l with
    | nil => simp at hm
    | cons k ks =>
      simp only [List.map_cons, List.cons.injEq] at hm
      have hk : rowKey db0 r.text = some k := by rw [hm.1]; exact rowKey_relText db0 k (hl k (List.mem_cons_self ..))
      have ih' := ih ks (fun k' hk' => hl k' (List.mem_cons_of_mem _ hk')) hm.2
      unfold selectedOf at ih' ⊢
      simp only [List.zip_cons_cons]
      by_cases hv : (visible p r.text && r.checked) = true
      · simp only [List.filter_cons, hv, if_true, List.filterMap_cons, hk, List.map_cons]
        rw [ih']
      · simp only [List.filter_cons, hv]
        exact ih'

/-- `selected_series()` returns exactly the database keys at the positions of the ticked rows that pass the list filter. -/
theorem selected_eq' (s : State) (hm : s.rows.map (·.text) = listRelative s.db) :
    selected s = ((s.rows.zip s.db).filter (fun q => visible s.pat q.1.text && q.1.checked)).map (·.2) :=
  selectedOf_eq s.db s.pat s.rows s.db (fun _ h => h) hm

theorem selected_mem_db' (s : State) (hm : s.rows.map (·.text) = listRelative s.db) : ∀ k ∈ selected s, k ∈ s.db := by
  intro k hk
  rw [selected_eq' s hm] at hk
  obtain ⟨q, hq, rfl⟩ := List.mem_map.mp hk
  exact (List.of_mem_zip (List.mem_filter.mp hq).1).2

end Qats.Gui
