import Qats.Lemmas.Rainflow
/-!
Every counted range is the distance between two counted points.
-/
namespace Qats.Rainflow
set_option linter.unusedSectionVars false
set_option linter.unnecessarySeqFocus false
variable {α : Type} [Field α] [LinearOrder α] [IsStrictOrderedRing α]

/-- a cycle whose range is the distance between two points satisfying `S` -/
def FromPts (S : α → Prop) (c : Cyc α) : Prop := ∃ u v, S u ∧ S v ∧ c.range = |u - v|

theorem reduce_mem (S : α → Prop) (p : α) (s : List α) (hp : S p) (hs : ∀ q ∈ s, S q) :
    (∀ c ∈ (reduce p s).full, FromPts S c) ∧ (∀ c ∈ (reduce p s).half, FromPts S c) ∧
      ∀ q ∈ (reduce p s).stack, S q := by
  fun_induction reduce p s with
  | case1 p2 p3 rest x y h =>
    simp_all
  | case2 p2 p3 rest x y m h1 h2 =>
    simp_all +zetaDelta
    exact ⟨p3, p2, hs.2, hs.1, rfl⟩
  | case3 p2 p3 rest x y m h1 h2 o ih =>
    simp_all +zetaDelta
    exact ⟨p3, p2, hs.2.1, hs.1, rfl⟩
  | case4 s h => simp_all

theorem feed_mem (S : α → Prop) (st pts : List α) (hst : ∀ q ∈ st, S q) (hpts : ∀ q ∈ pts, S q) :
    (∀ c ∈ (feed st pts).full, FromPts S c) ∧ (∀ c ∈ (feed st pts).half, FromPts S c) ∧
      ∀ q ∈ (feed st pts).stack, S q := by
  fun_induction feed st pts with
  | case1 => simp_all
  | case2 st r rs o o' ih =>
    have h := reduce_mem S r st (hpts r (by simp)) hst
    have ih' := ih h.2.2 (fun q hq => hpts q (by simp [hq]))
    simp only [List.mem_append]
    refine ⟨?_, ?_, ih'.2.2⟩
    · rintro c (hc | hc)
      · exact h.1 c hc
      · exact ih'.1 c hc
    · rintro c (hc | hc)
      · exact h.2.1 c hc
      · exact ih'.2.1 c hc

theorem leftovers_mem (S : α → Prop) (s : List α) (hs : ∀ q ∈ s, S q) :
    ∀ c ∈ leftovers s, FromPts S c := by
  fun_induction leftovers s with
  | case1 p1 p2 rest ih =>
    simp only [List.mem_cons, forall_eq_or_imp]
    refine ⟨⟨p2, p1, hs p2 (by simp), hs p1 (by simp), by simp⟩, ?_⟩
    intro c hc
    exact ih (fun q hq => hs q (by simp [hq])) c hc
  | case2 t h => simp

theorem cyclesOfPoints_mem (S : α → Prop) (pts : List α) (hpts : ∀ q ∈ pts, S q) :
    ∀ c ∈ (cyclesOfPoints pts).1 ++ (cyclesOfPoints pts).2, FromPts S c := by
  have h := feed_mem S [] pts (by simp) hpts
  have hl := leftovers_mem S _ h.2.2
  intro c hc
  simp only [cyclesOfPoints, List.mem_append] at hc
  rcases hc with hc | hc | hc
  · exact h.1 c hc
  · exact h.2.1 c hc
  · exact hl c hc

theorem cyclesOfPoints_range_nonneg_aux (pts : List α) :
    ∀ c ∈ (cyclesOfPoints pts).1 ++ (cyclesOfPoints pts).2, 0 ≤ c.range := by
  intro c hc
  obtain ⟨u, v, -, -, h⟩ := cyclesOfPoints_mem (fun _ => True) pts (by simp) c hc
  rw [h]; exact abs_nonneg _

theorem cyclesOfPoints_range_le (pts : List α) (M m : α) (hM : ∀ p ∈ pts, p ≤ M) (hm : ∀ p ∈ pts, m ≤ p) :
    ∀ c ∈ (cyclesOfPoints pts).1 ++ (cyclesOfPoints pts).2, c.range ≤ M - m := by
  intro c hc
  obtain ⟨u, v, ⟨hu1, hu2⟩, ⟨hv1, hv2⟩, h⟩ :=
    cyclesOfPoints_mem (fun x => m ≤ x ∧ x ≤ M) pts (fun q hq => ⟨hm q hq, hM q hq⟩) c hc
  rw [h, abs_le]; constructor <;> linarith

end Qats.Rainflow
