import Qats.Lemmas.MomentsAffine
import Qats.Lemmas.RealOps
import Qats.Lemmas.RealOpsSimp
/-!
Main lemmas behind the descriptive-summary part of the C17 property theorems (statements fixed by `Qats/Props/C17.lean`).
`describe` is used at `eps = 0` (exact arithmetic: the degenerate-sample test `m2 ≤ (eps·mean)²` is `m2 ≤ 0`, i.e. a constant
signal) wherever skewness / kurtosis are compared; the clauses that do not involve them hold for every `eps`.
-/
namespace Qats.Moments
open Qats Qats.Peaks
set_option linter.unusedSectionVars false

/-! ### standard deviation and skewness over ℝ -/

theorem tstd_affine (a b : ℝ) (ha : 0 ≤ a) (x : List ℝ) :
    tstd (x.map fun v => a * v + b) = (tstd x).map fun v => a * v := by
  unfold tstd
  rw [tvar_affine]
  cases tvar x with
  | none => rfl
  | some v => simp only [Option.map_some, sqrt_real, Real.sqrt_mul (sq_nonneg a), Real.sqrt_sq ha]

theorem tstd_neg (x : List ℝ) : tstd (x.map fun v => -v) = tstd x := by
  unfold tstd; rw [tvar_neg]

theorem rpow15_scale (a p : ℝ) (ha : 0 ≤ a) (hp : 0 ≤ p) : (a ^ 2 * p) ^ (1.5 : ℝ) = a ^ 3 * p ^ (1.5 : ℝ) := by
  have h15 : (1.5 : ℝ) = (3 : ℝ) / 2 := by norm_num
  have h3 : (a ^ 2) ^ ((3 : ℝ) / 2) = a ^ 3 := by
    rw [← Real.rpow_natCast a 2, ← Real.rpow_mul ha, ← Real.rpow_natCast a 3]
    norm_num
  rw [h15, Real.mul_rpow (sq_nonneg a) hp, h3]

/-- Skewness under `x ↦ a·x + b` (`a > 0`) for an arbitrary threshold factor `eps`, given that scipy's degenerate-sample test
answers the same for both signals. -/
theorem skew_affine_of (eps a b : ℝ) (ha : 0 < a) (x : List ℝ)
    (hz : isZero eps (x.map fun v => a * v + b) = isZero eps x) :
    skew eps (x.map fun v => a * v + b) = skew eps x := by
  cases x with
  | nil => rfl
  | cons x0 r =>
    have hx : x0 :: r ≠ [] := List.cons_ne_nil _ _
    have ha3 : a ^ 3 ≠ 0 := pow_ne_zero _ ha.ne'
    have e1 : ∀ c m q : ℝ, c * (a ^ 3 * m) / (a ^ 3 * q) = c * m / q := by
      intro c m q
      rw [show c * (a ^ 3 * m) = a ^ 3 * (c * m) by ring, mul_div_mul_left _ _ ha3]
    unfold skew
    rw [hz, List.length_map, m3_affine a b _ hx, m2_affine a b _ hx]
    simp only [rpow_real]
    rw [rpow15_scale a _ ha.le (m2_nonneg _)]
    simp only [e1, mul_div_mul_left _ _ ha3]

theorem skew_affine (a b : ℝ) (ha : 0 < a) (x : List ℝ) : skew 0 (x.map fun v => a * v + b) = skew 0 x :=
  skew_affine_of 0 a b ha x (isZero_zero_affine a b ha.ne' x)

theorem skew_nil : skew (0 : ℝ) [] = none := by
  simp [skew, isZero, m2, Peaks.mean, Peaks.sum]

theorem skew_neg (x : List ℝ) : skew 0 (x.map fun v => -v) = (skew 0 x).map fun v => -v := by
  cases x with
  | nil => rw [List.map_nil, skew_nil]; rfl
  | cons x0 r =>
    have hx : x0 :: r ≠ [] := List.cons_ne_nil _ _
    unfold skew
    rw [isZero_zero_neg, List.length_map, m3_neg _ hx, m2_neg _ hx]
    split_ifs
    · rfl
    · simp only [Option.map_some, mul_neg, neg_div]
    · simp only [Option.map_some, neg_div]

/-! ### the record -/
variable {α : Type} [Field α] [LinearOrder α] [IsStrictOrderedRing α] [TranscOps α]

theorem describe_cons (eps t0 : α) (tr : List α) (x0 : α) (xr : List α) :
    describe eps (t0 :: tr) (x0 :: xr) =
      some { start := t0, stop := tr.getLastD t0, duration := tr.getLastD t0 - t0, dtavg := dtavg (t0 :: tr),
             mean := Peaks.mean (x0 :: xr), std := tstd (x0 :: xr), skew := skew eps (x0 :: xr),
             kurt := kurt eps (x0 :: xr), min := minL x0 xr, max := maxL x0 xr, tz := tz (t0 :: tr) (x0 :: xr) } := rfl

theorem describe_isSome (eps : α) (t x : List α) : (describe eps t x).isSome ↔ t ≠ [] ∧ x ≠ [] := by
  cases t <;> cases x <;> simp [describe]

theorem summary_min_le_mean' (eps : α) (t x : List α) (d : Desc α) (h : describe eps t x = some d) : d.min ≤ d.mean := by
  cases t with
  | nil => simp [describe] at h
  | cons t0 tr =>
    cases x with
    | nil => simp [describe] at h
    | cons x0 xr =>
      rw [describe_cons] at h
      cases h
      exact minL_le_mean x0 xr

theorem summary_mean_le_max' (eps : α) (t x : List α) (d : Desc α) (h : describe eps t x = some d) : d.mean ≤ d.max := by
  cases t with
  | nil => simp [describe] at h
  | cons t0 tr =>
    cases x with
    | nil => simp [describe] at h
    | cons x0 xr =>
      rw [describe_cons] at h
      cases h
      exact mean_le_maxL x0 xr

theorem summary_duration' (eps : α) (t x : List α) (d : Desc α) (h : describe eps t x = some d) :
    d.duration = d.stop - d.start ∧ t.head? = some d.start ∧ t.getLast? = some d.stop := by
  cases t with
  | nil => simp [describe] at h
  | cons t0 tr =>
    cases x with
    | nil => simp [describe] at h
    | cons x0 xr =>
      rw [describe_cons] at h
      cases h
      refine ⟨rfl, rfl, ?_⟩
      rw [List.getLast?_cons, List.getLastD_eq_getLast?]

theorem summary_dtavg' (eps : α) (t x : List α) (d : Desc α) (h : describe eps t x = some d) (hn : 2 ≤ t.length) :
    ∃ v, d.dtavg = some v ∧ v * ((t.length : α) - 1) = d.duration := by
  cases x with
  | nil => cases t <;> simp [describe] at h
  | cons x0 xr =>
    match t, hn, h with
    | t0 :: t1 :: r, _, h =>
      rw [describe_cons] at h
      cases h
      exact ⟨_, (dtavg_spec t0 t1 r).1, (dtavg_spec t0 t1 r).2⟩

/-- The fields computed with field operations only, under `x ↦ a·x + b` (`a > 0`), over any linearly ordered field. -/
theorem moments_affine_field' (a b : α) (ha : 0 < a) (t : List α) (x0 : α) (xr : List α) :
    Peaks.mean ((x0 :: xr).map fun v => a * v + b) = a * Peaks.mean (x0 :: xr) + b ∧
    tvar ((x0 :: xr).map fun v => a * v + b) = (tvar (x0 :: xr)).map (fun v => a ^ 2 * v) ∧
    kurt 0 ((x0 :: xr).map fun v => a * v + b) = kurt 0 (x0 :: xr) ∧
    minL (a * x0 + b) (xr.map fun v => a * v + b) = a * minL x0 xr + b ∧
    maxL (a * x0 + b) (xr.map fun v => a * v + b) = a * maxL x0 xr + b ∧
    tz t ((x0 :: xr).map fun v => a * v + b) = tz t (x0 :: xr) :=
  ⟨mean_affine a b _ (List.cons_ne_nil _ _), tvar_affine a b _, kurt_affine a b ha.ne' _, minL_affine a b ha x0 xr,
    maxL_affine a b ha x0 xr, tz_affine a b ha t _⟩

theorem summary_affine_desc_eps' (eps a b : ℝ) (ha : 0 < a) (t x : List ℝ) (d : Desc ℝ) (h : describe eps t x = some d)
    (hz : isZero eps (x.map fun v => a * v + b) = isZero eps x) :
    describe eps t (x.map fun v => a * v + b) =
      some { d with mean := a * d.mean + b, std := d.std.map fun v => a * v, min := a * d.min + b,
                    max := a * d.max + b } := by
  cases t with
  | nil => simp [describe] at h
  | cons t0 tr =>
    cases x with
    | nil => simp [describe] at h
    | cons x0 xr =>
      rw [describe_cons] at h
      cases h
      have e : (a * x0 + b) :: xr.map (fun v => a * v + b) = (x0 :: xr).map fun v => a * v + b := rfl
      rw [List.map_cons, describe_cons, minL_affine a b ha, maxL_affine a b ha, e,
        mean_affine a b _ (List.cons_ne_nil _ _), tstd_affine a b ha.le, skew_affine_of eps a b ha _ hz,
        kurt_affine_of eps a b ha.ne' _ hz, tz_affine a b ha]

theorem summary_affine_desc' (a b : ℝ) (ha : 0 < a) (t x : List ℝ) (d : Desc ℝ) (h : describe 0 t x = some d) :
    describe 0 t (x.map fun v => a * v + b) =
      some { d with mean := a * d.mean + b, std := d.std.map fun v => a * v, min := a * d.min + b,
                    max := a * d.max + b } :=
  summary_affine_desc_eps' 0 a b ha t x d h (isZero_zero_affine a b ha.ne' x)

theorem summary_mirror_desc' (t x : List ℝ) (d : Desc ℝ) (h : describe 0 t x = some d) :
    ∃ d', describe 0 t (x.map fun v => -v) = some d' ∧
      d'.mean = -d.mean ∧ d'.std = d.std ∧ d'.skew = d.skew.map (fun v => -v) ∧ d'.kurt = d.kurt ∧
      d'.min = -d.max ∧ d'.max = -d.min ∧
      d'.start = d.start ∧ d'.stop = d.stop ∧ d'.duration = d.duration ∧ d'.dtavg = d.dtavg := by
  cases t with
  | nil => simp [describe] at h
  | cons t0 tr =>
    cases x with
    | nil => simp [describe] at h
    | cons x0 xr =>
      rw [describe_cons] at h
      cases h
      have e : (-x0) :: xr.map (fun v => -v) = (x0 :: xr).map fun v => -v := rfl
      refine ⟨_, by rw [List.map_cons, describe_cons], ?_⟩
      simp only
      rw [minL_neg, maxL_neg, e, mean_neg _ (List.cons_ne_nil _ _), tstd_neg, skew_neg, kurt_neg]
      simp

end Qats.Moments
