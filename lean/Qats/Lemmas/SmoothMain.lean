import Qats.Model.Smooth
import Qats.Lemmas.RealOps
import Mathlib.Tactic
/-!
Lemmas about the smoothing / tapering model `Qats.Smooth` (the two numeric stages of `TimeSeries.get` written in qats itself):
lengths, the moving average of a constant signal, the flat part of the Tukey window, the range of its weights.
-/
namespace Qats.Smooth
set_option linter.unusedSectionVars false
set_option linter.unusedVariables false

section field
variable {α : Type} [Field α]

theorem smooth_length' (w x y : List α) (h : smooth w x = .ok y) : y.length = x.length := by
  unfold smooth at h
  simp only at h
  split at h
  · cases h
  · split at h
    · cases h; rfl
    · split at h
      · cases h
      · cases h; simp

theorem smooth_short' (w x : List α) (h : x.length < w.length ∨ (3 ≤ w.length ∧ x.length = w.length)) :
    smooth w x = .error .tooShort := by
  unfold smooth
  simp only
  rcases h with h | ⟨h3, he⟩
  · simp [h]
  · have h2 : ¬ w.length < 3 := by omega
    simp [h2, he]

theorem smooth_small_window' (w x : List α) (h1 : w.length ≤ x.length) (h2 : w.length < 3) : smooth w x = .ok x := by
  unfold smooth
  simp only
  have : ¬ x.length < w.length := by omega
  simp [this, h2]

theorem sum_map_div (w : List α) (s : α) : sum (w.map (· / s)) = sum w / s := by
  induction w with
  | nil => simp [sum]
  | cons a w ih =>
    simp only [sum, List.map_cons, List.foldr_cons] at ih ⊢
    rw [ih]; ring

theorem dot_replicate (a : List α) (c : α) (n : Nat) (h : a.length ≤ n) : dot a (List.replicate n c) = sum a * c := by
  induction a generalizing n with
  | nil => cases n <;> simp [dot, sum]
  | cons v a ih =>
    cases n with
    | zero => simp at h
    | succ n =>
      simp only [List.replicate_succ, dot, sum, List.foldr_cons]
      have := ih n (by simpa using h)
      simp only [sum] at this
      rw [this]; ring

theorem extended_replicate (W n : Nat) (c : α) (hn : W < n) :
    extended W (List.replicate n c) = List.replicate (n + 2 * (W - 1)) c := by
  have h2c : (2 : α) * c - c = c := by ring
  have hl : leftPad W (List.replicate n c) = List.replicate (W - 1) c := by
    unfold leftPad
    cases n with
    | zero => omega
    | succ m =>
      simp only [List.replicate_succ]
      rw [← List.replicate_succ, List.take_replicate, List.drop_replicate, List.reverse_replicate, List.map_replicate, h2c]
      congr 1; omega
  have hr : rightPad W (List.replicate n c) = List.replicate (W - 1) c := by
    unfold rightPad
    have : (List.replicate n c).getLast? = some c := by
      cases n with
      | zero => omega
      | succ m => simp [List.getLast?_replicate]
    rw [this]
    simp only [List.length_replicate, List.drop_replicate, List.reverse_replicate, List.map_replicate, h2c]
    congr 1; omega
  unfold extended
  rw [hl, hr, List.replicate_append_replicate, List.replicate_append_replicate]
  congr 1; omega

/-- The moving average (any window with non-zero weight sum) of a constant signal is that constant. -/
theorem smooth_const' (w : List α) (hw : sum w ≠ 0) (h3 : 3 ≤ w.length) (n : Nat) (hn : w.length < n) (c : α) :
    smooth w (List.replicate n c) = .ok (List.replicate n c) := by
  unfold smooth
  simp only [List.length_replicate]
  have h1 : ¬ n < w.length := by omega
  have h2 : ¬ w.length < 3 := by omega
  have h4 : ¬ n = w.length := by omega
  simp only [h1, h2, h4, if_false]
  congr 1
  rw [extended_replicate w.length n c hn]
  apply List.ext_getElem
  · simp
  · intro i hi1 hi2
    simp only [List.length_map, List.length_range] at hi1
    simp only [List.getElem_map, List.getElem_range, List.getElem_replicate]
    unfold smoothAt
    rw [List.drop_replicate, List.take_replicate, List.reverse_replicate]
    rw [dot_replicate _ _ _ (by simp; omega), sum_map_div, div_self hw, one_mul]

end field

section tukey
variable {α : Type} [Field α] [LinearOrder α] [IsStrictOrderedRing α] [TranscOps α]

theorem tukey_length' (alpha : α) (n : Nat) : (tukey alpha n).length = n := by simp [tukey]

theorem taper_length' (alpha : α) (x : List α) : (taper alpha x).length = x.length := by
  simp [taper, tukey_length']

theorem taperStage_length' (alpha : α) (x : List α) : (taperStage alpha x).length = x.length := by
  simp [taperStage, taper_length']

/-- On the flat part `α·n/2 ≤ i ≤ n·(1 − α/2)` the Tukey weight is 1. -/
theorem tukeyWeight_flat' (alpha : α) (n i : Nat) (h1 : alpha * (n : α) / 2 ≤ (i : α)) (h2 : (i : α) ≤ (n : α) * (1 - alpha / 2)) :
    tukeyWeight alpha n i = 1 := by
  unfold tukeyWeight
  simp only
  have h3 : ¬ ((n : α) * (1 - alpha / 2) < (i : α) ∧ (i : α) ≤ (n : α)) := fun h => absurd h2 (not_le.mpr h.1)
  rw [if_neg h3, if_pos ⟨h1, h2⟩]

/-- Samples on the flat part of the window pass the tapering stage of `get` unchanged. -/
theorem taperStage_flat' (alpha : α) (x : List α) (i : Nat) (xi : α) (hx : x[i]? = some xi)
    (h1 : alpha * (x.length : α) / 2 ≤ (i : α)) (h2 : (i : α) ≤ (x.length : α) * (1 - alpha / 2)) :
    (taperStage alpha x)[i]? = some xi := by
  have hi : i < x.length := by
    rcases List.getElem?_eq_some_iff.mp hx with ⟨h, _⟩; exact h
  have hxi : x[i] = xi := by
    rcases List.getElem?_eq_some_iff.mp hx with ⟨_, h⟩; exact h
  unfold taperStage taper tukey
  simp only [List.getElem?_map, List.getElem?_zipWith, List.length_map, List.getElem?_range hi, hx, Option.map_some]
  rw [tukeyWeight_flat' alpha x.length i h1 h2]
  congr 1; ring

end tukey

/-- Over the reals the Tukey weights lie in `[0, 1]`. -/
theorem tukeyWeight_range' (alpha : ℝ) (n i : Nat) : 0 ≤ tukeyWeight alpha n i ∧ tukeyWeight alpha n i ≤ 1 := by
  have hc : ∀ y : ℝ, 0 ≤ (0.5 : ℝ) * ((1.0 : ℝ) + TranscOps.cos y) ∧ (0.5 : ℝ) * ((1.0 : ℝ) + TranscOps.cos y) ≤ 1 := by
    intro y
    have h1 := Real.neg_one_le_cos y
    have h2 := Real.cos_le_one y
    change 0 ≤ (0.5 : ℝ) * ((1.0 : ℝ) + Real.cos y) ∧ (0.5 : ℝ) * ((1.0 : ℝ) + Real.cos y) ≤ 1
    constructor <;> norm_num <;> linarith
  unfold tukeyWeight
  simp only
  split
  · exact hc _
  · split
    · exact ⟨zero_le_one, le_refl _⟩
    · split
      · exact hc _
      · exact ⟨le_refl _, zero_le_one⟩

end Qats.Smooth
