import Qats.Lemmas.BindingBase
/-! The binding invariant, one operation at a time. -/
set_option linter.unusedVariables false
set_option linter.unusedSimpArgs false
namespace Qats.Binding
open Qats.Names Qats.Registry

/-- The binding invariant: both databases coherent, object identities in the origin table are below the counter, and every
key of either database is bound to the record the dictionary holds for it (`Bound`). -/
structure Inv (b : Bind) (s : State) : Prop where
  cohA : Coherent s.a
  cohB : Coherent s.b
  fresh : OFresh b.origins s.next
  boundA : Bound b.origins s.a b.recA
  boundB : Bound b.origins s.b b.recB

theorem Inv.bound {b : Bind} {s : State} (h : Inv b s) (w : Which) : Bound b.origins (getDb s w) (getRec b w) := by
  cases w
  · exact h.boundA
  · exact h.boundB

theorem Inv.coh {b : Bind} {s : State} (h : Inv b s) (w : Which) : Coh (getDb s w) := by
  cases w
  · exact h.cohA
  · exact h.cohB

theorem inv_init : Inv {} {} :=
  ⟨coh_empty, coh_empty, fun p hp => absurd hp List.not_mem_nil, bound_empty _ _, bound_empty _ _⟩

/-- Database `w` replaced (with its dictionary), the table extended, the counter advanced. -/
theorem inv_set {b : Bind} {s : State} (hI : Inv b s) (w : Which) {d' : Db} {r' : List (Str × Rec)} {os' : Origins}
    {n' : Nat} (he : ∃ e, os' = b.origins ++ e) (hc : Coh d') (hf : OFresh os' n') (hb : Bound os' d' r') :
    Inv { setRec b w r' with origins := os' } { setDb s w d' with next := n' } := by
  obtain ⟨e, rfl⟩ := he
  cases w
  · exact ⟨hc, hI.cohB, hf, hb, bound_append e hI.boundB⟩
  · exact ⟨hI.cohA, hc, hf, bound_append e hI.boundA, hb⟩

theorem setRec_origins (b : Bind) (w : Which) (r : List (Str × Rec)) : (setRec b w r).origins = b.origins := by
  cases w <;> rfl

theorem setRec_eta (b : Bind) (w : Which) (r : List (Str × Rec)) :
    ({ setRec b w r with origins := b.origins } : Bind) = setRec b w r := by
  cases w <;> rfl

theorem setDb_eta (s : State) (w : Which) (d : Db) : ({ setDb s w d with next := s.next } : State) = setDb s w d := by
  cases w <;> rfl

theorem inv_set' {b : Bind} {s : State} (hI : Inv b s) (w : Which) {d' : Db} {r' : List (Str × Rec)}
    (hc : Coh d') (hb : Bound b.origins d' r') : Inv (setRec b w r') (setDb s w d') := by
  have := inv_set hI w (d' := d') (r' := r') (os' := b.origins) (n' := s.next) ⟨[], by simp⟩ hc hI.fresh hb
  rwa [setRec_eta, setDb_eta] at this

/-! ### equations for `Binding.step` -/

def recStep (file : Str) (r : List (Str × Rec)) (jn : Nat × Str) : List (Str × Rec) :=
  setKey r (pathJoin file jn.2) (Rec.onFile file (jn.1 + 1) jn.2)

theorem bstep_load (b : Bind) (s : State) (w : Which) (file : Str) (names : List Str) (indexed read : Bool) :
    step b s (.load w file names indexed read) =
      if ((names.map fun n => pathJoin file n).any fun k => hasKey (getDb s w).register k) then b
      else if read then
        { setRec b w ((List.zip (List.range names.length) names).foldl (recStep file) (getRec b w)) with
          origins := readBind true ((List.zip (List.range names.length) names).foldl (recStep file) (getRec b w))
            (getDb (Registry.step s (.load w file names indexed false)).1 w) s.next
            (names.map fun n => pathJoin file n) b.origins }
      else setRec b w ((List.zip (List.range names.length) names).foldl (recStep file) (getRec b w)) := rfl

theorem bstep_add (b : Bind) (s : State) (w : Which) (name : Str) :
    step b s (.add w name) =
      if hasKey (getDb s w).register (pathJoin (common (getDb s w).keys) name) then b
      else { setRec b w (setKey (getRec b w) (pathJoin (common (getDb s w).keys) name) (Rec.mem s.next)) with
             origins := b.origins ++ [(s.next, .added s.next)] } := rfl

theorem bstep_rename (b : Bind) (s : State) (w : Which) (name newname : Str) :
    step b s (.rename w name newname) =
      match listKeys (getDb s w).keys [name] with
      | [old] =>
        if (getDb s w).keys.contains (pathJoin (pathDirname old) newname) then b
        else
          match lookup (getRec b w) old with
          | some rc => setRec b w (setKey (erase (getRec b w) old) (pathJoin (pathDirname old) newname) rc)
          | none => b
      | _ => b := rfl

theorem bstep_clear (b : Bind) (s : State) (w : Which) (pattern : Option Str) :
    step b s (.clear w pattern) =
      setRec b w ((match pattern with
        | none => (getDb s w).keys
        | some p => listKeys (getDb s w).keys [p]).foldl (fun r k => erase r k) (getRec b w)) := rfl

theorem bstep_update (b : Bind) (s : State) (names : Option (List Str)) (deep : Bool) :
    step b s (.update names deep) =
      let r := readKeys s.b s.next (select s.b names) true
      let os1 := readBind true b.recB s.b s.next (select s.b names) b.origins
      if r.2.2.any fun kv => hasKey s.a.register kv.1 then { b with origins := os1 }
      else { origins := if deep then cpBind r.2.2 r.2.1 os1 else os1, recA := carry b.recB r.2.2 b.recA,
             recB := b.recB } := rfl

theorem bstep_copy (b : Bind) (s : State) (names : Option (List Str)) (deep : Bool) :
    step b s (.copy names deep) =
      let r := readKeys s.a s.next (select s.a names) true
      let os1 := readBind true b.recA s.a s.next (select s.a names) b.origins
      { origins := if deep then cpBind r.2.2 r.2.1 os1 else os1, recA := b.recA,
        recB := carry b.recA r.2.2 [] } := rfl

theorem bstep_getm (b : Bind) (s : State) (w : Which) (names : Option (List Str)) (store : Bool) :
    step b s (.getm w names store) =
      { b with origins := readBind store (getRec b w) (getDb s w) s.next (select (getDb s w) names) b.origins } := rfl

theorem bstep_getInd (b : Bind) (s : State) (w : Which) (ind : Nat) (store : Bool) :
    step b s (.getInd w ind store) =
      match (getDb s w).keys[ind]? with
      | none => b
      | some k => { b with origins := readBind store (getRec b w) (getDb s w) s.next [k] b.origins } := rfl

/-! ### registering a key -/

theorem bound_addKey {os : Origins} {d : Db} {r : List (Str × Rec)} (hb : Bound os d r) {k : Str} (hk : k ∉ d.keys)
    (v : Option Nat) (p : Option Str) (i : Option Nat) (rc : Rec) (hok : KeyOK os (addKey d k v p i) k rc) :
    Bound os (addKey d k v p i) (setKey r k rc) := by
  intro k' hk'
  have hk'' : k' ∈ d.keys ++ [k] := hk'
  rw [List.mem_append, List.mem_singleton] at hk''
  by_cases e : k' = k
  · subst e
    exact ⟨rc, lookup_setKey_self _ _ _, hok⟩
  · rcases hk'' with hin | hk''
    · obtain ⟨rc', h1, h2⟩ := hb k' hin
      refine ⟨rc', ?_, keyOK_congr (d := d) ?_ ?_ ?_ h2⟩
      · rw [lookup_setKey_ne _ _ e]; exact h1
      · exact lookup_setKey_ne _ _ e
      · exact lookup_setKey_ne _ _ e
      · exact lookup_setKey_ne _ _ e
    · exact absurd hk'' e

theorem keyOK_loaded (os : Origins) (d : Db) (file : Str) (indexed : Bool) (j : Nat) (name : Str)
    (hix : nameAddressed file = false → indexed = true) :
    KeyOK os (addKey d (pathJoin file name) none (some file) (if indexed then some (j + 1) else none))
      (pathJoin file name) (Rec.onFile file (j + 1) name) := by
  constructor
  · intro o ho
    have : lookup (setKey d.register (pathJoin file name) none) (pathJoin file name) = some (some o) := ho
    rw [lookup_setKey_self] at this
    simp at this
  · intro _
    unfold readOriginRc originOf
    have h1 : lookup (addKey d (pathJoin file name) none (some file) (if indexed then some (j + 1) else none)).parents
        (pathJoin file name) = some (some file) := lookup_setKey_self _ _ _
    have h2 : lookup (addKey d (pathJoin file name) none (some file) (if indexed then some (j + 1) else none)).indices
        (pathJoin file name) = some (if indexed then some (j + 1) else none) := lookup_setKey_self _ _ _
    rw [h1, h2]
    simp only [Option.getD_some]
    by_cases hna : nameAddressed file = true
    · simp [Rec.origin, hna]
    · rw [Bool.not_eq_true] at hna
      have := hix hna
      subst this
      simp [Rec.origin, hna]

theorem bound_load_fold (file : Str) (indexed : Bool) (os : Origins) (l : List (Nat × Str)) (d : Db)
    (r : List (Str × Rec)) (hb : Bound os d r) (hnd : (l.map fun jn => pathJoin file jn.2).Nodup)
    (hnew : ∀ jn ∈ l, pathJoin file jn.2 ∉ d.keys)
    (hix : nameAddressed file = false → indexed = true) :
    Bound os ((l.map fun jn => (jn.1, pathJoin file jn.2)).foldl (loadStep file indexed) d)
      (l.foldl (recStep file) r) := by
  induction l generalizing d r with
  | nil => exact hb
  | cons jn l ih =>
    rw [List.map_cons, List.foldl_cons, List.foldl_cons]
    rw [List.map_cons, List.nodup_cons] at hnd
    apply ih
    · exact bound_addKey hb (hnew jn List.mem_cons_self) _ _ _ _
        (keyOK_loaded os d file indexed jn.1 jn.2 hix)
    · exact hnd.2
    · intro jn' hjn'
      show pathJoin file jn'.2 ∉ d.keys ++ [pathJoin file jn.2]
      rw [List.mem_append, List.mem_singleton, not_or]
      refine ⟨hnew jn' (List.mem_cons_of_mem _ hjn'), ?_⟩
      intro e
      exact hnd.1 (e ▸ List.mem_map_of_mem (f := fun jn => pathJoin file jn.2) hjn')

/-! ### removing a key -/

theorem bound_dropKey {os : Origins} {d : Db} {r : List (Str × Rec)} (hc : Coh d) (hb : Bound os d r) (k : Str) :
    Bound os (dropKey d k) (erase r k) := by
  intro k' hk'
  have hk'' : k' ∈ d.keys.erase k := hk'
  rw [hc.1.mem_erase_iff] at hk''
  obtain ⟨rc, h1, h2⟩ := hb k' hk''.2
  refine ⟨rc, ?_, keyOK_congr (d := d) ?_ ?_ ?_ h2⟩
  · rw [lookup_erase_ne _ hk''.1]; exact h1
  · exact lookup_erase_ne _ hk''.1
  · exact lookup_erase_ne _ hk''.1
  · exact lookup_erase_ne _ hk''.1

theorem bound_drop_fold {os : Origins} (m : List Str) (d : Db) (r : List (Str × Rec)) (hc : Coh d)
    (hb : Bound os d r) : Bound os (m.foldl dropKey d) (m.foldl (fun r k => erase r k) r) := by
  induction m generalizing d r with
  | nil => exact hb
  | cons k m ih => exact ih _ _ (coh_dropKey hc k) (bound_dropKey hc hb k)

/-! ### renaming a key -/

theorem bound_renKey {os : Origins} {d : Db} {r : List (Str × Rec)} (hc : Coh d) (hb : Bound os d r)
    {old newkey : Str} (ho : old ∈ d.keys) (hn : newkey ∉ d.keys) (rc : Rec) (hrc : lookup r old = some rc) :
    Bound os (renKey d old newkey) (setKey (erase r old) newkey rc) := by
  have hreg : hasKey d.register newkey = false := by
    rw [hasKey_false_iff, hc.2.1.mem_iff]; exact hn
  have hpar : hasKey d.parents newkey = false := by
    rw [hasKey_false_iff, hc.2.2.1.mem_iff]; exact hn
  have hind : hasKey d.indices newkey = false := by
    rw [hasKey_false_iff, hc.2.2.2.mem_iff]; exact hn
  intro k' hk'
  have hk'' : k' ∈ d.keys.map fun k => if k == old then newkey else k := hk'
  rw [List.mem_map] at hk''
  obtain ⟨k0, hk0, rfl⟩ := hk''
  by_cases e : k0 = old
  · subst e
    simp only [beq_self_eq_true, if_true]
    obtain ⟨rc', h1, h2⟩ := hb k0 hk0
    rw [hrc] at h1
    simp only [Option.some.injEq] at h1
    subst h1
    exact ⟨rc, lookup_setKey_self _ _ _,
      keyOK_congr' (d := d) (k := k0) (lookup_mvKey_new _ hreg) (lookup_mvKey_new _ hpar) (lookup_mvKey_new _ hind) h2⟩
  · have hne : k0 ≠ newkey := fun h => hn (h ▸ hk0)
    have hb' : (k0 == old) = false := by simpa using e
    rw [hb']
    simp only [Bool.false_eq_true, if_false]
    obtain ⟨rc', h1, h2⟩ := hb k0 hk0
    refine ⟨rc', ?_, keyOK_congr (d := d) ?_ ?_ ?_ h2⟩
    · rw [lookup_setKey_ne _ _ hne, lookup_erase_ne _ e]; exact h1
    · exact lookup_mvKey_ne _ e hne
    · exact lookup_mvKey_ne _ e hne
    · exact lookup_mvKey_ne _ e hne

/-! ### the copy loops of `update` / `copy` -/

def cpOs (deep : Bool) (cont : List (Str × Nat)) (n : Nat) (os : Origins) : Origins :=
  if deep then cpBind cont n os else os

theorem cpOs_nil (deep : Bool) (n : Nat) (os : Origins) : cpOs deep [] n os = os := by
  cases deep <;> simp [cpOs, cpBind]

theorem cpOs_cons (deep : Bool) (kv : Str × Nat) (cont : List (Str × Nat)) (n : Nat) (os : Origins) :
    cpOs deep (kv :: cont) n os =
      cpOs deep cont (if deep then n + 1 else n) (if deep then os ++ [(n, .copyOf kv.2)] else os) := by
  cases deep <;> simp [cpOs, cpBind]

theorem carry_cons (rs : List (Str × Rec)) (kv : Str × Nat) (cont : List (Str × Nat)) (rt : List (Str × Rec)) :
    carry rs (kv :: cont) rt = carry rs cont (match lookup rs kv.1 with
      | some rc => setKey rt kv.1 rc
      | none => rt) := rfl

theorem bound_cp_fold (deep : Bool) (src : Db) (rs : List (Str × Rec)) (cont : List (Str × Nat)) :
    ∀ (t : Db) (n : Nat) (os : Origins) (rt : List (Str × Rec)),
      OFresh os n → Bound os t rt → (cont.map (·.1)).Nodup → (∀ kv ∈ cont, kv.1 ∉ t.keys) →
      (∀ kv ∈ cont, ∃ rc, lookup rs kv.1 = some rc ∧ root os kv.2 = some rc.origin) →
      (∃ e, cpOs deep cont n os = os ++ e) ∧
        OFresh (cpOs deep cont n os) (cont.foldl (cpStep deep src) (t, n)).2 ∧
        Bound (cpOs deep cont n os) (cont.foldl (cpStep deep src) (t, n)).1 (carry rs cont rt) ∧
        n ≤ (cont.foldl (cpStep deep src) (t, n)).2 := by
  induction cont with
  | nil =>
    intro t n os rt hf hb _ _ _
    rw [cpOs_nil]
    exact ⟨⟨[], by simp⟩, hf, hb, le_refl _⟩
  | cons kv cont ih =>
    intro t n os rt hf hb hnd hnew hout
    rw [cpOs_cons, List.foldl_cons, carry_cons]
    rw [List.map_cons, List.nodup_cons] at hnd
    obtain ⟨rc, hrc, hroot⟩ := hout kv List.mem_cons_self
    rw [hrc]
    simp only
    -- the table after this entry
    have hext : ∃ e, (if deep then os ++ [(n, Origin.copyOf kv.2)] else os) = os ++ e := by
      cases deep
      · exact ⟨[], by simp⟩
      · exact ⟨_, rfl⟩
    obtain ⟨e1, he1⟩ := hext
    have hf1 : OFresh (if deep then os ++ [(n, Origin.copyOf kv.2)] else os) (if deep then n + 1 else n) := by
      cases deep
      · exact hf
      · exact hf.snoc _
    have hroot1 : root (if deep then os ++ [(n, Origin.copyOf kv.2)] else os) (if deep then n else kv.2) =
        some rc.origin := by
      cases deep
      · exact hroot
      · exact root_copy (olookup_none_of_fresh hf (le_refl _)) hroot
    have hb1 : Bound (if deep then os ++ [(n, Origin.copyOf kv.2)] else os) (cpStep deep src (t, n) kv).1
        (setKey rt kv.1 rc) := by
      rw [he1]
      refine bound_addKey (bound_append e1 hb) (hnew kv List.mem_cons_self) _ _ _ rc ⟨?_, ?_⟩
      · intro o ho
        have : lookup (setKey t.register kv.1 (some (if deep then n else kv.2))) kv.1 = some (some o) := ho
        rw [lookup_setKey_self] at this
        simp only [Option.some.injEq] at this
        rw [← this, ← he1]
        exact hroot1
      · intro hno
        have : lookup (setKey t.register kv.1 (some (if deep then n else kv.2))) kv.1 =
            some (some (if deep then n else kv.2)) := lookup_setKey_self _ _ _
        exact absurd this (hno _)
    have h2 : (cpStep deep src (t, n) kv).2 = if deep then n + 1 else n := rfl
    have hstep : cpStep deep src (t, n) kv = ((cpStep deep src (t, n) kv).1, if deep then n + 1 else n) := rfl
    rw [hstep]
    obtain ⟨⟨e2, he2⟩, hf2, hb2, hle⟩ := ih (cpStep deep src (t, n) kv).1 (if deep then n + 1 else n)
      (if deep then os ++ [(n, Origin.copyOf kv.2)] else os) (setKey rt kv.1 rc) hf1 hb1 hnd.2
      (by
        intro kv' hkv'
        show kv'.1 ∉ t.keys ++ [kv.1]
        rw [List.mem_append, List.mem_singleton, not_or]
        refine ⟨hnew kv' (List.mem_cons_of_mem _ hkv'), ?_⟩
        intro e
        exact hnd.1 (e ▸ List.mem_map_of_mem (f := fun kv => kv.1) hkv'))
      (by
        intro kv' hkv'
        obtain ⟨rc', h1, h2⟩ := hout kv' (List.mem_cons_of_mem _ hkv')
        refine ⟨rc', h1, ?_⟩
        rw [he1]
        exact root_append e1 h2)
    refine ⟨⟨e1 ++ e2, ?_⟩, hf2, hb2, ?_⟩
    · rw [he2, he1, List.append_assoc]
    · refine le_trans ?_ hle
      cases deep <;> simp

end Qats.Binding
