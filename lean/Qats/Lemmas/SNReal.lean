import Mathlib.Analysis.SpecialFunctions.Pow.Continuity
import Mathlib.Analysis.SpecialFunctions.Log.Base
import Mathlib.Topology.Order.OrderClosed
import Mathlib.Tactic.Ring
import Mathlib.Tactic.NormNum
import Mathlib.Tactic.FieldSimp
import Mathlib.Tactic.Linarith
/-!
Pure real analysis behind the S-N lemmas, in "log coordinates" `L = log₁₀ σ`, `ℓ = log₁₀ n`:
the bilinear S-N curve is `n = 10 ^ expo L` with a piecewise-linear, continuous, strictly decreasing exponent whose
inverse is `sexpo`.  Nothing here mentions the generated formulas.
-/
namespace Qats.SN

/-! ### powers of ten -/

theorem ten_rpow_pos (x : ℝ) : 0 < (10 : ℝ) ^ x := Real.rpow_pos_of_pos (by norm_num) x

theorem ten_rpow_logb {x : ℝ} (hx : 0 < x) : (10 : ℝ) ^ Real.logb 10 x = x :=
  Real.rpow_logb (by norm_num) (by norm_num) hx

theorem logb_ten_rpow (x : ℝ) : Real.logb 10 ((10 : ℝ) ^ x) = x :=
  Real.logb_rpow (by norm_num) (by norm_num)

theorem ten_rpow_lt_iff {x y : ℝ} : (10 : ℝ) ^ x < (10 : ℝ) ^ y ↔ x < y :=
  Real.rpow_lt_rpow_left_iff (by norm_num)

theorem ten_rpow_le_iff {x y : ℝ} : (10 : ℝ) ^ x ≤ (10 : ℝ) ^ y ↔ x ≤ y :=
  Real.rpow_le_rpow_left_iff (by norm_num)

theorem ten_rpow_le_iff_le_logb {x y : ℝ} (hy : 0 < y) : (10 : ℝ) ^ x ≤ y ↔ x ≤ Real.logb 10 y :=
  (Real.le_logb_iff_rpow_le (by norm_num) hy).symm

theorem le_ten_rpow_iff_logb_le {x y : ℝ} (hy : 0 < y) : y ≤ (10 : ℝ) ^ x ↔ Real.logb 10 y ≤ x := by
  rw [← not_lt, ← not_lt, not_iff_not]
  exact (Real.lt_logb_iff_rpow_lt (by norm_num) hy).symm

theorem continuous_ten_rpow : Continuous fun x : ℝ => (10 : ℝ) ^ x :=
  Real.continuous_const_rpow (by norm_num)

theorem strictMono_ten_rpow : StrictMono fun x : ℝ => (10 : ℝ) ^ x :=
  fun _ _ h => ten_rpow_lt_iff.2 h

/-! ### the bilinear exponent -/

/-- `log₁₀ sswitch`. -/
noncomputable def lsw (loga1 m1 nsw : ℝ) : ℝ := (loga1 - Real.logb 10 nsw) / m1

/-- `loga2` (intercept of the lower branch). -/
noncomputable def la2 (loga1 m1 m2 nsw : ℝ) : ℝ := m2 / m1 * loga1 + (1 - m2 / m1) * Real.logb 10 nsw

variable {loga1 m1 m2 nsw : ℝ}

theorem upper_expo_eq (hm1 : m1 ≠ 0) (L : ℝ) :
    loga1 - m1 * L = Real.logb 10 nsw - m1 * (L - lsw loga1 m1 nsw) := by
  unfold lsw; field_simp; ring

theorem lower_expo_eq (hm1 : m1 ≠ 0) (L : ℝ) :
    la2 loga1 m1 m2 nsw - m2 * L = Real.logb 10 nsw + m2 * (lsw loga1 m1 nsw - L) := by
  unfold lsw la2; field_simp; ring

/-- `log₁₀ n` as a function of `L = log₁₀ σ` for the bilinear curve. -/
noncomputable def expo (loga1 m1 m2 nsw L : ℝ) : ℝ :=
  if lsw loga1 m1 nsw ≤ L then loga1 - m1 * L else la2 loga1 m1 m2 nsw - m2 * L

/-- `log₁₀ σ` as a function of `ℓ = log₁₀ n` for the bilinear curve. -/
noncomputable def sexpo (loga1 m1 m2 nsw ℓ : ℝ) : ℝ :=
  if ℓ ≤ Real.logb 10 nsw then (loga1 - ℓ) / m1 else (la2 loga1 m1 m2 nsw - ℓ) / m2

theorem expo_at_switch_upper (hm1 : m1 ≠ 0) : loga1 - m1 * lsw loga1 m1 nsw = Real.logb 10 nsw := by
  rw [upper_expo_eq hm1]; ring

theorem expo_at_switch_lower (hm1 : m1 ≠ 0) :
    la2 loga1 m1 m2 nsw - m2 * lsw loga1 m1 nsw = Real.logb 10 nsw := by
  rw [lower_expo_eq hm1]; ring

theorem expo_strictAnti (hm1 : 0 < m1) (hm2 : 0 < m2) : StrictAnti (expo loga1 m1 m2 nsw) := by
  intro a b hab
  have hu := fun L => upper_expo_eq (loga1 := loga1) (nsw := nsw) hm1.ne' L
  have hl := fun L => lower_expo_eq (loga1 := loga1) (m2 := m2) (nsw := nsw) hm1.ne' L
  unfold expo
  split_ifs with hb ha ha
  · have := mul_pos hm1 (sub_pos.2 hab); linarith
  · rw [hu, hl]
    have h1 := mul_nonneg hm1.le (sub_nonneg.2 hb)
    have h2 := mul_pos hm2 (sub_pos.2 (not_le.1 ha))
    linarith
  · exact absurd (ha.trans hab.le) hb
  · have := mul_pos hm2 (sub_pos.2 hab); linarith

theorem expo_continuous (hm1 : m1 ≠ 0) : Continuous (expo loga1 m1 m2 nsw) := by
  unfold expo
  refine Continuous.if_le (by fun_prop) (by fun_prop) continuous_const continuous_id ?_
  intro L hL
  rw [← hL, expo_at_switch_upper hm1, expo_at_switch_lower hm1]

theorem expo_le_iff (hm1 : 0 < m1) (hm2 : 0 < m2) (L : ℝ) :
    expo loga1 m1 m2 nsw L ≤ Real.logb 10 nsw ↔ lsw loga1 m1 nsw ≤ L := by
  unfold expo
  split_ifs with h
  · rw [upper_expo_eq hm1.ne']
    have := mul_nonneg hm1.le (sub_nonneg.2 h)
    exact ⟨fun _ => h, fun _ => by linarith⟩
  · rw [lower_expo_eq hm1.ne']
    have := mul_pos hm2 (sub_pos.2 (not_le.1 h))
    exact ⟨fun h' => by linarith, fun h' => absurd h' h⟩

theorem sexpo_ge_iff (hm1 : 0 < m1) (hm2 : 0 < m2) (ℓ : ℝ) :
    lsw loga1 m1 nsw ≤ sexpo loga1 m1 m2 nsw ℓ ↔ ℓ ≤ Real.logb 10 nsw := by
  unfold sexpo
  split_ifs with h
  · refine ⟨fun _ => h, fun _ => ?_⟩
    unfold lsw
    rw [div_le_div_iff_of_pos_right hm1]; linarith
  · refine ⟨fun h' => ?_, fun h' => absurd h' h⟩
    exfalso
    rw [le_div_iff₀ hm2] at h'
    have := expo_at_switch_lower (loga1 := loga1) (m2 := m2) (nsw := nsw) hm1.ne'
    have h := not_le.1 h
    linarith

theorem expo_sexpo (hm1 : 0 < m1) (hm2 : 0 < m2) (ℓ : ℝ) :
    expo loga1 m1 m2 nsw (sexpo loga1 m1 m2 nsw ℓ) = ℓ := by
  have key := sexpo_ge_iff (loga1 := loga1) (nsw := nsw) hm1 hm2 ℓ
  unfold expo
  by_cases h : ℓ ≤ Real.logb 10 nsw
  · rw [if_pos (key.2 h)]; unfold sexpo; rw [if_pos h]; field_simp; ring
  · rw [if_neg (fun h' => h (key.1 h'))]; unfold sexpo; rw [if_neg h]; field_simp; ring

theorem sexpo_expo (hm1 : 0 < m1) (hm2 : 0 < m2) (L : ℝ) :
    sexpo loga1 m1 m2 nsw (expo loga1 m1 m2 nsw L) = L := by
  have key := expo_le_iff (loga1 := loga1) (nsw := nsw) hm1 hm2 L
  unfold sexpo
  by_cases h : lsw loga1 m1 nsw ≤ L
  · rw [if_pos (key.2 h)]; unfold expo; rw [if_pos h]; field_simp; ring
  · rw [if_neg (fun h' => h (key.1 h'))]; unfold expo; rw [if_neg h]; field_simp; ring

end Qats.SN
