import Mathlib.NumberTheory.Harmonic.GammaDeriv
import Mathlib.Analysis.SpecialFunctions.Gamma.Deriv
import Mathlib.MeasureTheory.Integral.IntegralEqImproper
import Mathlib.MeasureTheory.Function.JacobianOneDim
import Mathlib.MeasureTheory.Integral.Gamma
import Mathlib.Analysis.SpecialFunctions.ImproperIntegrals
/-!
The mean of the Gumbel density: `∫ x · (1/β)·exp(−z − exp(−z)) dx = μ + γ·β` with `z = (x − μ)/β`, and its total mass 1.

Route: Mathlib's `Γ'(1) = −γ` and "the derivative of the Γ integral is the Mellin transform of `log t · exp(−t)`" give
`∫₀^∞ log u · exp(−u) du = −γ`; the substitution `u = exp(−z)` turns the first moment of the standard Gumbel density into
`−∫₀^∞ log u · exp(−u) du`; an affine substitution gives the general location and scale.
Pure real analysis (no reference to the generated formulas).
-/
namespace Qats.Dist
open MeasureTheory Set Real Filter Topology Asymptotics


/-- `log t · exp(−t)` is integrable on `(0, ∞)` and its integral is `−γ`. -/
theorem log_mul_exp_neg_integral :
    IntegrableOn (fun t : ℝ => log t * exp (-t)) (Ioi 0) ∧
      ∫ t in Ioi (0 : ℝ), log t * exp (-t) = -eulerMascheroniConstant := by
  -- complex statement from the Mellin transform
  have hmel := mellin_hasDerivAt_of_isBigO_rpow (E := ℂ) (a := 2) (b := 0) (s := 1)
    (f := fun x : ℝ => ((Real.exp (-x) : ℝ) : ℂ)) ?_ ?_ (by simp) ?_ (by simp)
  · obtain ⟨hconv, -⟩ := hmel
    have hd1 := Complex.hasDerivAt_GammaIntegral (s := 1) (by simp)
    have hd2 : HasDerivAt Complex.GammaIntegral (-(eulerMascheroniConstant : ℂ)) 1 := by
      refine Complex.hasDerivAt_Gamma_one.congr_of_eventuallyEq ?_
      have : ∀ᶠ s : ℂ in 𝓝 1, 0 < s.re := by
        have : ContinuousAt Complex.re 1 := Complex.continuous_re.continuousAt
        exact this.eventually (lt_mem_nhds (by simp))
      filter_upwards [this] with s hs
      exact (Complex.Gamma_eq_integral hs).symm
    have heq := hd1.unique hd2
    -- integrability of the real function
    have hint : IntegrableOn (fun t : ℝ => log t * exp (-t)) (Ioi 0) := by
      have h := hconv
      unfold MellinConvergent at h
      simp only [sub_self, Complex.cpow_zero, one_smul] at h
      have h2 : IntegrableOn (fun t : ℝ => ((log t * exp (-t) : ℝ) : ℂ)) (Ioi 0) := by
        refine h.congr_fun (fun t _ => ?_) measurableSet_Ioi
        simp [Complex.real_smul]
      exact IntegrableOn.congr_fun (Integrable.re h2) (fun t _ => Complex.ofReal_re _) measurableSet_Ioi
    refine ⟨hint, ?_⟩
    have h3 : (∫ t : ℝ in Ioi 0, (t : ℂ) ^ ((1 : ℂ) - 1) * ((log t : ℂ) * (rexp (-t) : ℂ))) =
        ((∫ t in Ioi (0 : ℝ), log t * exp (-t) : ℝ) : ℂ) := by
      have hofr := integral_ofReal (𝕜 := ℂ) (μ := volume.restrict (Ioi 0)) (f := fun t : ℝ => log t * exp (-t))
      refine Eq.trans ?_ hofr
      refine setIntegral_congr_fun measurableSet_Ioi (fun t _ => ?_)
      simp
    rw [h3] at heq
    exact_mod_cast heq
  · refine (Continuous.continuousOn ?_).locallyIntegrableOn measurableSet_Ioi
    exact Complex.continuous_ofReal.comp (Real.continuous_exp.comp continuous_neg)
  · rw [← isBigO_norm_left]
    simp_rw [Complex.norm_real, isBigO_norm_left]
    simpa only [neg_one_mul] using (isLittleO_exp_neg_mul_rpow_atTop zero_lt_one _).isBigO
  · simp_rw [neg_zero, rpow_zero]
    refine isBigO_const_of_tendsto (?_ : Tendsto _ _ (𝓝 (1 : ℂ))) one_ne_zero
    rw [(by simp : (1 : ℂ) = Real.exp (-0))]
    exact (Complex.continuous_ofReal.comp (Real.continuous_exp.comp continuous_neg)).continuousWithinAt

/-- the standard Gumbel density -/
noncomputable def g0 (z : ℝ) : ℝ := exp (-z - exp (-z))

theorem image_exp_neg_univ : (fun z : ℝ => exp (-z)) '' univ = Ioi 0 := by
  ext u
  simp only [image_univ, mem_range, mem_Ioi]
  constructor
  · rintro ⟨z, rfl⟩; exact exp_pos _
  · intro hu; exact ⟨-log u, by rw [neg_neg, exp_log hu]⟩

theorem subst_exp_neg (G : ℝ → ℝ) :
    (IntegrableOn G (Ioi 0) ↔ Integrable (fun z : ℝ => exp (-z) * G (exp (-z)))) ∧
      ∫ u in Ioi (0 : ℝ), G u = ∫ z : ℝ, exp (-z) * G (exp (-z)) := by
  have hd : ∀ x ∈ (univ : Set ℝ), HasDerivWithinAt (fun z : ℝ => exp (-z)) (-exp (-x)) univ x := by
    intro x _
    have := ((hasDerivAt_neg x).exp).hasDerivWithinAt (s := univ)
    simpa [mul_comm] using this
  have hi : InjOn (fun z : ℝ => exp (-z)) univ := by
    intro x _ y _ h
    have := exp_injective h
    linarith
  constructor
  · have := integrableOn_image_iff_integrableOn_abs_deriv_smul MeasurableSet.univ hd hi G
    rw [image_exp_neg_univ] at this
    simpa [abs_of_pos (exp_pos _), IntegrableOn] using this
  · have := integral_image_eq_integral_abs_deriv_smul MeasurableSet.univ hd hi G
    rw [image_exp_neg_univ] at this
    simpa [abs_of_pos (exp_pos _)] using this

theorem g0_integral : Integrable g0 ∧ ∫ z, g0 z = 1 := by
  obtain ⟨h1, h2⟩ := subst_exp_neg (fun u => exp (-u))
  have e : (fun z : ℝ => exp (-z) * exp (-exp (-z))) = g0 := by
    funext z; unfold g0; rw [← exp_add]; congr 1
  rw [e] at h1 h2
  refine ⟨h1.mp ?_, by rw [← h2, integral_exp_neg_Ioi_zero]⟩
  have := GammaIntegral_convergent (s := 1) one_pos
  simpa using this

theorem g0_first_moment : Integrable (fun z => z * g0 z) ∧ ∫ z, z * g0 z = eulerMascheroniConstant := by
  obtain ⟨hint, hval⟩ := log_mul_exp_neg_integral
  obtain ⟨h1, h2⟩ := subst_exp_neg (fun u => -(log u * exp (-u)))
  have e : (fun z : ℝ => exp (-z) * -(log (exp (-z)) * exp (-exp (-z)))) = fun z => z * g0 z := by
    funext z; unfold g0; rw [log_exp, sub_eq_add_neg, exp_add]; ring
  rw [e] at h1 h2
  refine ⟨h1.mp hint.neg, ?_⟩
  rw [← h2, integral_neg, hval, neg_neg]

/-- affine substitution `x = loc + scale·z` on the whole line -/
theorem subst_affine (F : ℝ → ℝ) (loc scale : ℝ) (hs : 0 < scale) (hF : Integrable F) :
    Integrable (fun x => F ((x - loc) / scale)) ∧ ∫ x, F ((x - loc) / scale) = scale * ∫ z, F z := by
  constructor
  · exact (hF.comp_div hs.ne').comp_sub_right loc
  · rw [integral_sub_right_eq_self (fun x => F (x / scale)) loc, Measure.integral_comp_div, abs_of_pos hs, smul_eq_mul]

theorem gumbel_mass_mean (loc scale : ℝ) (hs : 0 < scale) :
    (Integrable (fun x => 1 / scale * g0 ((x - loc) / scale)) ∧ ∫ x, 1 / scale * g0 ((x - loc) / scale) = 1) ∧
    (Integrable (fun x => x * (1 / scale * g0 ((x - loc) / scale))) ∧
      ∫ x, x * (1 / scale * g0 ((x - loc) / scale)) = loc + scale * eulerMascheroniConstant) := by
  obtain ⟨i0, v0⟩ := g0_integral
  obtain ⟨i1, v1⟩ := g0_first_moment
  constructor
  · obtain ⟨a, b⟩ := subst_affine (fun z => 1 / scale * g0 z) loc scale hs (i0.const_mul _)
    refine ⟨a, ?_⟩
    rw [b, integral_const_mul, v0]; field_simp
  · have hF : Integrable (fun z => (loc + scale * z) * (1 / scale * g0 z)) := by
      have := (i0.const_mul (loc / scale)).add (i1.const_mul 1)
      refine this.congr (Eventually.of_forall fun z => ?_)
      simp only [Pi.add_apply]; field_simp
    obtain ⟨a, b⟩ := subst_affine (fun z => (loc + scale * z) * (1 / scale * g0 z)) loc scale hs hF
    have e : (fun x => (loc + scale * ((x - loc) / scale)) * (1 / scale * g0 ((x - loc) / scale))) =
        fun x => x * (1 / scale * g0 ((x - loc) / scale)) := by
      funext x; congr 1; field_simp; ring
    rw [e] at a b
    refine ⟨a, ?_⟩
    rw [b]
    have : (fun z => (loc + scale * z) * (1 / scale * g0 z)) = fun z => loc / scale * g0 z + 1 * (z * g0 z) := by
      funext z; field_simp
    rw [this, integral_add (i0.const_mul _) (i1.const_mul _), integral_const_mul, integral_const_mul, v0, v1]
    field_simp

end Qats.Dist
