import Qats.Model.Registry
import Mathlib.Tactic
/-!
Main lemmas behind the C08 property theorems (statements fixed by `Qats/Props/C08.lean`).
-/
namespace Qats.Registry
open Qats.Names

/-- The four registers describe one and the same set of unique keys. -/
def Coherent (d : Db) : Prop :=
  d.keys.Nodup ∧ (d.register.map (·.1)).Perm d.keys ∧ (d.parents.map (·.1)).Perm d.keys ∧
    (d.indices.map (·.1)).Perm d.keys

/-- Operations as the harness / a user can issue them: the names on one file are distinct (as keys). -/
def WellFormed : Op → Prop
  | .load _ file names _ _ => (names.map fun n => pathJoin file n).Nodup
  | _ => True

theorem coherent_init' : Coherent ({} : Db) := by
  sorry

/-- Every operation, succeeding or failing, keeps both databases coherent. -/
theorem coherent_step' (s : State) (op : Op) (hw : WellFormed op) (ha : Coherent s.a) (hb : Coherent s.b) :
    Coherent (step s op).1.a ∧ Coherent (step s op).1.b := by
  sorry

/-- … hence after any history. -/
theorem coherent_run' (ops : List Op) (hw : ∀ op ∈ ops, WellFormed op) :
    Coherent (run {} ops).1.a ∧ Coherent (run {} ops).1.b := by
  sorry

/-- In a coherent database the size is the number of keys and every key has an entry in each register. -/
theorem coherent_size' (d : Db) (h : Coherent d) :
    d.register.length = d.keys.length ∧
      ∀ k ∈ d.keys, (lookup d.register k).isSome ∧ (lookup d.parents k).isSome ∧ (lookup d.indices k).isSome := by
  sorry

/-- A rejected operation leaves the database it was applied to exactly as it was; the only thing a rejected operation
may leave behind is cached data in the *source* database of `update` (which was read with `store=True`). -/
theorem rejected_unchanged' (s : State) (op : Op) (e : Err) (h : (step s op).2 = .error e) :
    (step s op).1.a = s.a ∧
      (step s op).1.b.keys = s.b.keys ∧ (step s op).1.b.parents = s.b.parents ∧ (step s op).1.b.indices = s.b.indices ∧
      ((∀ names deep, op ≠ .update names deep) → (step s op).1 = s) := by
  sorry

/-- Retrieval with caching disabled leaves no data behind: the registers are unchanged. -/
theorem getm_store_false' (s : State) (w : Which) (names : Option (List Str)) :
    (step s (.getm w names false)).1.a = s.a ∧ (step s (.getm w names false)).1.b = s.b := by
  sorry

/-- With caching enabled a later retrieval returns the very same objects and constructs nothing new. -/
theorem getm_store_true_same' (s : State) (w : Which) (names : Option (List Str)) (hc : Coherent (getDb s w)) :
    let s1 := (step s (.getm w names true)).1
    (step s1 (.getm w names true)).2 = (step s (.getm w names true)).2 ∧ (step s1 (.getm w names true)).1 = s1 := by
  sorry

/-- Retrieval returns exactly the selected keys, in order, and never changes which keys are registered. -/
theorem getm_keys' (s : State) (w : Which) (names : Option (List Str)) (store : Bool) :
    (∃ l, (step s (.getm w names store)).2 = .series l ∧ l.map (·.1) = select (getDb s w) names) ∧
      (getDb (step s (.getm w names store)).1 w).keys = (getDb s w).keys := by
  sorry

/-- A deep copy has the same keys, parents and indices as the selection and shares no series object with the source;
a shallow copy shares exactly the series objects. -/
theorem copy_spec' (s : State) (names : Option (List Str)) (deep : Bool) (ha : Coherent s.a)
    (hfresh : ∀ kv ∈ s.a.register, ∀ o, kv.2 = some o → o < s.next) :
    let s' := (step s (.copy names deep)).1
    s'.b.keys = select s.a names ∧
    (∀ k ∈ s'.b.keys, lookup s'.b.parents k = lookup s.a.parents k ∧ lookup s'.b.indices k = lookup s.a.indices k) ∧
    (deep = false → ∀ k ∈ s'.b.keys, lookup s'.b.register k = lookup s'.a.register k) ∧
    (deep = true → ∀ k ∈ s'.b.keys, ∀ k' ∈ s'.a.keys, ∀ o, lookup s'.b.register k = some (some o) →
      lookup s'.a.register k' ≠ some (some o)) := by
  sorry

end Qats.Registry
