import Qats.Model.Registry
import Mathlib.Tactic
import Qats.Lemmas.RegistryCopy
/-!
Main lemmas behind the C08 property theorems (statements fixed by `Qats/Props/C08.lean`).
-/
namespace Qats.Registry
open Qats.Names

/-- The four registers describe one and the same set of unique keys. -/
def Coherent (d : Db) : Prop :=
  d.keys.Nodup ∧ (d.register.map (·.1)).Perm d.keys ∧ (d.parents.map (·.1)).Perm d.keys ∧
    (d.indices.map (·.1)).Perm d.keys

/-- Operations as the harness / a user can issue them: the names on one file are distinct (as keys). -/
def WellFormed : Op → Prop
  | .load _ file names _ _ => (names.map fun n => pathJoin file n).Nodup
  | _ => True

theorem coherent_iff_coh (d : Db) : Coherent d ↔ Coh d := Iff.rfl

theorem coherent_init' : Coherent ({} : Db) := by
  exact coh_empty

/-- Every operation, succeeding or failing, keeps both databases coherent. -/
theorem coherent_step' (s : State) (op : Op) (hw : WellFormed op) (ha : Coherent s.a) (hb : Coherent s.b) :
    Coherent (step s op).1.a ∧ Coherent (step s op).1.b := by
  cases op with
  | load w file names indexed read => exact coh_step_load s w file names indexed read hw ha hb
  | add w name => exact coh_step_add s w name ha hb
  | rename w name newname => exact coh_step_rename s w name newname ha hb
  | clear w pattern => exact coh_step_clear s w pattern ha hb
  | update names deep => exact coh_step_update s names deep ha hb
  | copy names deep => exact coh_step_copy s names deep ha
  | getm w names store => exact coh_step_getm s w names store ha hb
  | getInd w ind store => exact coh_step_getInd s w ind store ha hb

theorem run_cons_fst (s : State) (op : Op) (ops : List Op) :
    (run s (op :: ops)).1 = (run (step s op).1 ops).1 := rfl

theorem coherent_run_from (ops : List Op) (s : State) (hw : ∀ op ∈ ops, WellFormed op) (ha : Coherent s.a)
    (hb : Coherent s.b) : Coherent (run s ops).1.a ∧ Coherent (run s ops).1.b := by
  induction ops generalizing s with
  | nil => exact ⟨ha, hb⟩
  | cons op ops ih =>
    rw [run_cons_fst]
    have h1 := coherent_step' s op (hw op List.mem_cons_self) ha hb
    exact ih _ (fun o ho => hw o (List.mem_cons_of_mem _ ho)) h1.1 h1.2

/-- … hence after any history. -/
theorem coherent_run' (ops : List Op) (hw : ∀ op ∈ ops, WellFormed op) :
    Coherent (run {} ops).1.a ∧ Coherent (run {} ops).1.b := by
  exact coherent_run_from ops {} hw coherent_init' coherent_init'

/-- In a coherent database the size is the number of keys and every key has an entry in each register. -/
theorem coherent_size' (d : Db) (h : Coherent d) :
    d.register.length = d.keys.length ∧
      ∀ k ∈ d.keys, (lookup d.register k).isSome ∧ (lookup d.parents k).isSome ∧ (lookup d.indices k).isSome := by
  obtain ⟨_, h2, h3, h4⟩ := h
  refine ⟨?_, fun k hk => ?_⟩
  · rw [← h2.length_eq, List.length_map]
  · simp only [lookup_isSome_iff]
    exact ⟨h2.mem_iff.mpr hk, h3.mem_iff.mpr hk, h4.mem_iff.mpr hk⟩

/-- A rejected operation leaves the database it was applied to exactly as it was; the only thing a rejected operation
may leave behind is cached data in the *source* database of `update` (which was read with `store=True`). -/
theorem rejected_unchanged' (s : State) (op : Op) (e : Err) (h : (step s op).2 = .error e) :
    (step s op).1.a = s.a ∧
      (step s op).1.b.keys = s.b.keys ∧ (step s op).1.b.parents = s.b.parents ∧ (step s op).1.b.indices = s.b.indices ∧
      ((∀ names deep, op ≠ .update names deep) → (step s op).1 = s) := by
  revert h
  cases op with
  | load w file names indexed read =>
    rw [step_load]
    split
    · intro _; exact ⟨rfl, rfl, rfl, rfl, fun _ => rfl⟩
    · split <;> (intro h; cases h)
  | add w name =>
    rw [step_add]
    split
    · intro _; exact ⟨rfl, rfl, rfl, rfl, fun _ => rfl⟩
    · intro h; cases h
  | rename w name newname =>
    rw [step_rename]
    split
    · intro _; exact ⟨rfl, rfl, rfl, rfl, fun _ => rfl⟩
    · split
      · intro _; exact ⟨rfl, rfl, rfl, rfl, fun _ => rfl⟩
      · intro h; cases h
    · intro _; exact ⟨rfl, rfl, rfl, rfl, fun _ => rfl⟩
  | clear w pattern => rw [step_clear]; intro h; cases h
  | update names deep =>
    rw [step_update]
    simp only
    split
    · intro _
      exact ⟨rfl, readKeys_keys _ _ _ _, readKeys_parents _ _ _ _, readKeys_indices _ _ _ _,
        fun hne => absurd rfl (hne names deep)⟩
    · intro h; cases h
  | copy names deep => rw [step_copy]; intro h; cases h
  | getm w names store => rw [step_getm]; intro h; cases h
  | getInd w ind store =>
    rw [step_getInd]
    split
    · intro _; exact ⟨rfl, rfl, rfl, rfl, fun _ => rfl⟩
    · intro h; cases h

/-- Retrieval with caching disabled leaves no data behind: the registers are unchanged. -/
theorem getm_store_false' (s : State) (w : Which) (names : Option (List Str)) :
    (step s (.getm w names false)).1.a = s.a ∧ (step s (.getm w names false)).1.b = s.b := by
  rw [step_getm]
  simp only [readKeys_false]
  cases w <;> exact ⟨rfl, rfl⟩

theorem getm_twice (s : State) (w : Which) (names : Option (List Str)) :
    step (step s (.getm w names true)).1 (.getm w names true) =
      ((step s (.getm w names true)).1, (step s (.getm w names true)).2) := by
  have h1 : step s (.getm w names true) =
      ({ setDb s w (readKeys (getDb s w) s.next (select (getDb s w) names) true).1 with
          next := (readKeys (getDb s w) s.next (select (getDb s w) names) true).2.1 },
        .series (readKeys (getDb s w) s.next (select (getDb s w) names) true).2.2) := step_getm s w names true
  rw [h1]
  generalize hr : readKeys (getDb s w) s.next (select (getDb s w) names) true = r
  have hsel : select r.1 names = r.2.2.map (·.1) := by
    rw [← hr, readKeys_out_keys]
    exact select_congr (readKeys_keys _ _ _ _) names
  have hcached : ∀ kv ∈ r.2.2, lookup r.1.register kv.1 = some (some kv.2) := by
    rw [← hr]; exact readKeys_cached _ _ _
  rw [step_getm]
  simp only
  have hg : getDb ({ setDb s w r.1 with next := r.2.1 } : State) w = r.1 := by cases w <;> rfl
  rw [hg, hsel, readKeys_all_cached true r.2.2 r.1 r.2.1 hcached]
  cases w <;> rfl

set_option linter.unusedVariables false in
/-- With caching enabled a later retrieval returns the very same objects and constructs nothing new. -/
theorem getm_store_true_same' (s : State) (w : Which) (names : Option (List Str)) (hc : Coherent (getDb s w)) :
    let s1 := (step s (.getm w names true)).1
    (step s1 (.getm w names true)).2 = (step s (.getm w names true)).2 ∧ (step s1 (.getm w names true)).1 = s1 := by
  intro s1
  have := getm_twice s w names
  exact ⟨congrArg Prod.snd this, congrArg Prod.fst this⟩

/-- Retrieval returns exactly the selected keys, in order, and never changes which keys are registered. -/
theorem getm_keys' (s : State) (w : Which) (names : Option (List Str)) (store : Bool) :
    (∃ l, (step s (.getm w names store)).2 = .series l ∧ l.map (·.1) = select (getDb s w) names) ∧
      (getDb (step s (.getm w names store)).1 w).keys = (getDb s w).keys := by
  rw [step_getm]
  refine ⟨⟨_, rfl, readKeys_out_keys _ _ _ _⟩, ?_⟩
  have : ∀ (d : Db) (n : Nat), getDb ({ setDb s w d with next := n } : State) w = d := by
    intro d n; cases w <;> rfl
  simp only [this, readKeys_keys]

/-- A deep copy has the same keys, parents and indices as the selection and shares no series object with the source;
a shallow copy shares exactly the series objects. -/
theorem copy_spec' (s : State) (names : Option (List Str)) (deep : Bool) (ha : Coherent s.a)
    (hfresh : ∀ kv ∈ s.a.register, ∀ o, kv.2 = some o → o < s.next) :
    let s' := (step s (.copy names deep)).1
    s'.b.keys = select s.a names ∧
    (∀ k ∈ s'.b.keys, lookup s'.b.parents k = lookup s.a.parents k ∧ lookup s'.b.indices k = lookup s.a.indices k) ∧
    (deep = false → ∀ k ∈ s'.b.keys, lookup s'.b.register k = lookup s'.a.register k) ∧
    (deep = true → ∀ k ∈ s'.b.keys, ∀ k' ∈ s'.a.keys, ∀ o, lookup s'.b.register k = some (some o) →
      lookup s'.a.register k' ≠ some (some o)) := by
  rw [step_copy]
  have hkeys0 := readKeys_out_keys true (select s.a names) s.a s.next
  have hcached := readKeys_cached (select s.a names) s.a s.next
  have hfr := readKeys_fresh true (select s.a names) s.a s.next hfresh
  have hpar := readKeys_parents true (select s.a names) s.a s.next
  have hind := readKeys_indices true (select s.a names) s.a s.next
  generalize readKeys s.a s.next (select s.a names) true = r at *
  have hnd : (r.2.2.map (·.1)).Nodup := by rw [hkeys0]; exact select_nodup _ _ ha.1
  have hkeys : (r.2.2.foldl (cpStep deep r.1) (({} : Db), r.2.1)).1.keys = select s.a names := by
    rw [(coh_cp_fold deep r.1 r.2.2 {} r.2.1 coh_empty hnd (fun _ _ => List.not_mem_nil)).2, hkeys0]
    rfl
  simp only
  refine ⟨hkeys, ?_, ?_, ?_⟩
  · intro k hk
    rw [hkeys, ← hkeys0] at hk
    have hka : k ∈ s.a.keys := select_subset s.a names k (hkeys0 ▸ hk)
    have hs := (coherent_size' s.a ha).2 k hka
    rw [cp_fold_parents, cp_fold_indices, if_pos hk, if_pos hk, hpar, hind]
    constructor
    · cases hl : lookup s.a.parents k with
      | none => rw [hl] at hs; simp at hs
      | some v => rfl
    · cases hl : lookup s.a.indices k with
      | none => rw [hl] at hs; simp at hs
      | some v => rfl
  · intro hd k hk
    subst hd
    rw [hkeys, ← hkeys0] at hk
    rw [cp_fold_register_shallow r.1 r.2.2 hcached, if_pos hk]
  · intro hd k _ k' _ o hb hl
    subst hd
    have h1 := cp_fold_register_deep r.1 r.2.2 r.2.1 {} r.2.1 (le_refl _) (fun _ h => absurd h List.not_mem_nil)
      _ (mem_of_lookup hb) o rfl
    have h2 := hfr _ (mem_of_lookup hl) o rfl
    exact absurd h2 (Nat.not_lt.mpr h1)

end Qats.Registry
