import Mathlib.Tactic
import Qats.Model.Gui
import Qats.Lemmas.GuiMain
/-!
C19, main invariant: while display / clear / settings changes are made only when no display request is being processed,
every pending display worker carries exactly the latest request and the settings that are still current, and every view
either already shows the latest request or its worker is still pending.
-/
namespace Qats.Gui

/-! ### the queue -/

theorem pick_mem (i : Nat) (l : List Worker) (w : Worker) (rest : List Worker) (h : pick i l = some (w, rest)) :
    ∀ x, x ∈ l ↔ x = w ∨ x ∈ rest := by
  induction l generalizing i rest with
  | nil => simp [pick] at h
  | cons a as ih =>
    cases i with
    | zero =>
      simp only [pick, Option.some.injEq, Prod.mk.injEq] at h
      obtain ⟨rfl, rfl⟩ := h
      intro x; simp
    | succ i =>
      simp only [pick] at h
      cases hp : pick i as with
      | none => simp [hp] at h
      | some q =>
        obtain ⟨y, r⟩ := q
        simp only [hp, Option.some.injEq, Prod.mk.injEq] at h
        obtain ⟨rfl, rfl⟩ := h
        intro x
        have := ih i r hp x
        simp only [List.mem_cons, this]
        tauto

/-- A worker that will (re)draw the views of calculation kind `k`: the read worker of a request or its `k` worker. -/
def witnesses (k : Kind) : Worker → Bool
  | .read _ => true
  | .job k' _ _ _ _ => k' == k
  | _ => false

def KP (l : List Worker) (k : Kind) : Prop := ∃ w ∈ l, witnesses k w = true

theorem witnesses_isDisp (k : Kind) (w : Worker) (h : witnesses k w = true) : isDisp w = true := by
  cases w <;> simp_all [witnesses, isDisp]

theorem KP_append_left (l l' : List Worker) (k : Kind) (h : KP l k) : KP (l ++ l') k := by
  obtain ⟨w, hw, hk⟩ := h
  exact ⟨w, List.mem_append_left _ hw, hk⟩

theorem KP_append_right (l l' : List Worker) (k : Kind) (h : KP l' k) : KP (l ++ l') k := by
  obtain ⟨w, hw, hk⟩ := h
  exact ⟨w, List.mem_append_right _ hw, hk⟩

theorem not_KP_of_not_busy (l : List Worker) (k : Kind) (h : l.any isDisp = false) : ¬ KP l k := by
  rintro ⟨w, hw, hk⟩
  have := List.any_eq_false.mp h w hw
  simp [witnesses_isDisp k w hk] at this

theorem KP_rest (l : List Worker) (i : Nat) (w : Worker) (rest : List Worker) (hp : pick i l = some (w, rest)) (k : Kind)
    (hw : witnesses k w = false) (h : KP l k) : KP rest k := by
  obtain ⟨x, hx, hk⟩ := h
  rcases (pick_mem i l w rest hp x).mp hx with rfl | hr
  · rw [hw] at hk; cases hk
  · exact ⟨x, hr, hk⟩

/-! ### the invariant -/

/-- What a pending display worker must carry (`ui`: current widget settings, `rp`/`rt`: latest request). -/
def WorkerOK (db : List Key) (ui : Ui) (table : List StatRow) (rp rt : Option (List Key × Ui)) : Worker → Prop
  | .read sel =>
    rp = some (sel, ui) ∧ rt = some (sel, ui) ∧ sel ≠ [] ∧ (∀ k ∈ sel, k ∈ db) ∧
      (table = [] ∨ table = statRows sel ui.twin ui.filt ui.minima)
  | .job k series tw fl mn =>
    rp = some (series, ui) ∧ rt = some (series, ui) ∧ series ≠ [] ∧ tw = ui.twin ∧ fl = ui.filt ∧
      (k = .stats → mn = ui.minima) ∧ (table = [] ∨ table = statRows series ui.twin ui.filt ui.minima)
  | _ => True

structure Inv (s : State) : Prop where
  mirror : s.rows.map (·.text) = listRelative s.db
  ok : ∀ w ∈ s.pending, WorkerOK s.db s.ui s.table s.reqPlots s.reqTable w
  tr : s.trace = specTrace s.reqPlots ∨ KP s.pending .trace
  sp : s.spectrum = specPlain s.reqPlots ∨ KP s.pending .psd
  wb : s.weibull = specWeibull s.reqPlots ∨ KP s.pending .stats
  cy : s.cycles = specPlain s.reqPlots ∨ KP s.pending .rfc
  tb : s.table = specTable s.reqTable ∨ KP s.pending .stats

theorem inv_init : Inv init :=
  ⟨rfl, (by intro w hw; exact absurd hw (List.not_mem_nil)), Or.inl rfl, Or.inl rfl, Or.inl rfl, Or.inl rfl, Or.inl rfl⟩

theorem inv_consistent (s : State) (h : Inv s) (hb : busy s = false) : Consistent s := by
  have nk : ∀ k, ¬ KP s.pending k := fun k => not_KP_of_not_busy _ k hb
  exact ⟨h.tr.resolve_right (nk _), h.sp.resolve_right (nk _), h.wb.resolve_right (nk _), h.cy.resolve_right (nk _),
    h.tb.resolve_right (nk _)⟩

/-- Workers that are not display workers put no constraint on the state. -/
theorem workerOK_of_not_disp (db ui table rp rt) (w : Worker) (h : isDisp w = false) : WorkerOK db ui table rp rt w := by
  cases w <;> simp_all [isDisp, WorkerOK]

theorem ok_of_not_busy (l : List Worker) (h : l.any isDisp = false) (db ui table rp rt) :
    ∀ w ∈ l, WorkerOK db ui table rp rt w :=
  fun w hw => workerOK_of_not_disp _ _ _ _ _ w (by simpa using List.any_eq_false.mp h w hw)

theorem workerOK_db_mono (db db' : List Key) (hd : ∀ k ∈ db, k ∈ db') (ui table rp rt) (w : Worker)
    (h : WorkerOK db ui table rp rt w) : WorkerOK db' ui table rp rt w := by
  cases w with
  | read sel =>
    obtain ⟨a, b, c, d, e⟩ := h
    exact ⟨a, b, c, fun k hk => hd k (d k hk), e⟩
  | job k series tw fl mn => exact h
  | imp _ => trivial
  | readG _ => trivial
  | calcG _ _ _ => trivial

theorem tabulate_nil (new : List StatRow) : tabulate new [] = new := by
  unfold tabulate
  simp only [List.drop_nil, List.append_nil]
  exact List.take_of_length_le (le_max_left _ _)

theorem tabulate_self (new : List StatRow) : tabulate new new = new := by
  unfold tabulate
  simp only [List.drop_length, List.append_nil]
  exact List.take_of_length_le (le_max_left _ _)

theorem filter_mem_self (sel db : List Key) (h : ∀ k ∈ sel, k ∈ db) : sel.filter (fun k => db.contains k) = sel := by
  apply List.filter_eq_self.mpr
  intro k hk
  simpa using h k hk

theorem mkShown_ne_nil (series : List Key) (tw fl m : Nat) (h : series ≠ []) : mkShown series tw fl m = some ⟨series, tw, fl, m⟩ := by
  unfold mkShown
  cases series with
  | nil => exact absurd rfl h
  | cons a l => rfl

theorem workerOK_table (db : List Key) (ui : Ui) (table : List StatRow) (rp rt : Option (List Key × Ui)) (series : List Key)
    (hrp : rp = some (series, ui)) (w : Worker) (h : WorkerOK db ui table rp rt w) :
    WorkerOK db ui (statRows series ui.twin ui.filt ui.minima) rp rt w := by
  cases w with
  | read sel =>
    obtain ⟨a, b, c, d, _⟩ := h
    have : sel = series := by rw [hrp] at a; simpa using a.symm
    subst this
    exact ⟨a, b, c, d, Or.inr rfl⟩
  | job k ser tw fl mn =>
    obtain ⟨a, b, c, d, e, f, _⟩ := h
    have : ser = series := by rw [hrp] at a; simpa using a.symm
    subst this
    exact ⟨a, b, c, d, e, f, Or.inr rfl⟩
  | imp _ => trivial
  | readG _ => trivial
  | calcG _ _ _ => trivial

/-- Completing any pending worker preserves the invariant (no hypothesis on the order). -/
theorem inv_finish (cat : Nat → Option (List Nat)) (s : State) (i : Nat) (w : Worker) (rest : List Worker)
    (hp : pick i s.pending = some (w, rest)) (h : Inv s) : Inv (finish cat { s with pending := rest } w) := by
  have hmem := pick_mem i s.pending w rest hp
  have hwok : WorkerOK s.db s.ui s.table s.reqPlots s.reqTable w := h.ok w ((hmem w).mpr (Or.inl rfl))
  have hrest : ∀ x ∈ rest, WorkerOK s.db s.ui s.table s.reqPlots s.reqTable x := fun x hx => h.ok x ((hmem x).mpr (Or.inr hx))
  have kr : ∀ k, witnesses k w = false → KP s.pending k → KP rest k := fun k hk hh => KP_rest _ i w rest hp k hk hh
  cases w with
  | imp files =>
    simp only [finish]
    split
    · exact ⟨h.mirror, hrest, h.tr.imp id (kr _ rfl), h.sp.imp id (kr _ rfl), h.wb.imp id (kr _ rfl), h.cy.imp id (kr _ rfl),
        h.tb.imp id (kr _ rfl)⟩
    · exact ⟨fresh_rows_text _, fun x hx => workerOK_db_mono _ _ (fun k hk => List.mem_append_left _ hk) _ _ _ _ x (hrest x hx),
        h.tr.imp id (kr _ rfl), h.sp.imp id (kr _ rfl), h.wb.imp id (kr _ rfl), h.cy.imp id (kr _ rfl), h.tb.imp id (kr _ rfl)⟩
  | read sel =>
    obtain ⟨hrp, hrt, hne, hdb, htab⟩ := hwok
    have hf : sel.filter (fun k => s.db.contains k) = sel := filter_mem_self sel s.db hdb
    dsimp only [finish]
    rw [hf]
    have wt : ∀ k, KP (rest ++ [Worker.job .trace sel s.ui.twin s.ui.filt false, Worker.job .stats sel s.ui.twin s.ui.filt s.ui.minima,
        Worker.job .psd sel s.ui.twin s.ui.filt false, Worker.job .rfc sel s.ui.twin s.ui.filt false]) k := by
      intro k
      apply KP_append_right
      cases k
      · exact ⟨Worker.job .trace sel s.ui.twin s.ui.filt false, by simp, rfl⟩
      · exact ⟨Worker.job .stats sel s.ui.twin s.ui.filt s.ui.minima, by simp, rfl⟩
      · exact ⟨Worker.job .psd sel s.ui.twin s.ui.filt false, by simp, rfl⟩
      · exact ⟨Worker.job .rfc sel s.ui.twin s.ui.filt false, by simp, rfl⟩
    refine ⟨h.mirror, ?_, Or.inr (wt _), Or.inr (wt _), Or.inr (wt _), Or.inr (wt _), Or.inr (wt _)⟩
    intro x hx
    rcases List.mem_append.mp hx with hx | hx
    · exact hrest x hx
    · simp only [List.mem_cons, List.not_mem_nil, or_false] at hx
      rcases hx with rfl | rfl | rfl | rfl
      · exact ⟨hrp, hrt, hne, rfl, rfl, (by intro hk; cases hk), htab⟩
      · exact ⟨hrp, hrt, hne, rfl, rfl, fun _ => rfl, htab⟩
      · exact ⟨hrp, hrt, hne, rfl, rfl, (by intro hk; cases hk), htab⟩
      · exact ⟨hrp, hrt, hne, rfl, rfl, (by intro hk; cases hk), htab⟩
  | job k series tw fl mn =>
    obtain ⟨hrp, hrt, hne, rfl, rfl, hmn, htab⟩ := hwok
    cases k with
    | trace =>
      refine ⟨h.mirror, hrest, Or.inl ?_, h.sp.imp id (kr _ rfl), h.wb.imp id (kr _ rfl), h.cy.imp id (kr _ rfl), h.tb.imp id (kr _ rfl)⟩
      show mkShown series s.ui.twin s.ui.filt (markerMode s.ui) = specTrace s.reqPlots
      rw [hrp]; rfl
    | stats =>
      have hm : mn = s.ui.minima := hmn rfl
      subst hm
      have ht : tabulate (statRows series s.ui.twin s.ui.filt s.ui.minima) s.table = statRows series s.ui.twin s.ui.filt s.ui.minima := by
        rcases htab with e | e
        · rw [e]; exact tabulate_nil _
        · rw [e]; exact tabulate_self _
      refine ⟨h.mirror, ?_, h.tr.imp id (kr _ rfl), h.sp.imp id (kr _ rfl), Or.inl ?_, h.cy.imp id (kr _ rfl), Or.inl ?_⟩
      · intro x hx
        show WorkerOK s.db s.ui (tabulate (statRows series s.ui.twin s.ui.filt s.ui.minima) s.table) s.reqPlots s.reqTable x
        rw [ht]
        exact workerOK_table _ _ _ _ _ series hrp x (hrest x hx)
      · show mkShown series s.ui.twin s.ui.filt (minimaMode s.ui.minima) = specWeibull s.reqPlots
        rw [hrp]; rfl
      · show tabulate (statRows series s.ui.twin s.ui.filt s.ui.minima) s.table = specTable s.reqTable
        rw [ht, hrt]; rfl
    | psd =>
      refine ⟨h.mirror, hrest, h.tr.imp id (kr _ rfl), Or.inl ?_, h.wb.imp id (kr _ rfl), h.cy.imp id (kr _ rfl), h.tb.imp id (kr _ rfl)⟩
      show mkShown series s.ui.twin s.ui.filt 0 = specPlain s.reqPlots
      rw [hrp]; rfl
    | rfc =>
      refine ⟨h.mirror, hrest, h.tr.imp id (kr _ rfl), h.sp.imp id (kr _ rfl), h.wb.imp id (kr _ rfl), Or.inl ?_, h.tb.imp id (kr _ rfl)⟩
      show mkShown series s.ui.twin s.ui.filt 0 = specPlain s.reqPlots
      rw [hrp]; rfl
  | readG sel =>
    refine ⟨h.mirror, ?_, h.tr.imp id (fun q => KP_append_left _ _ _ (kr _ rfl q)), h.sp.imp id (fun q => KP_append_left _ _ _ (kr _ rfl q)),
      h.wb.imp id (fun q => KP_append_left _ _ _ (kr _ rfl q)), h.cy.imp id (fun q => KP_append_left _ _ _ (kr _ rfl q)),
      h.tb.imp id (fun q => KP_append_left _ _ _ (kr _ rfl q))⟩
    intro x hx
    rcases List.mem_append.mp hx with hx | hx
    · exact hrest x hx
    · simp only [List.mem_cons, List.not_mem_nil, or_false] at hx
      subst hx
      trivial
  | calcG series tw fl =>
    simp only [finish]
    split
    · exact ⟨h.mirror, hrest, h.tr.imp id (kr _ rfl), h.sp.imp id (kr _ rfl), h.wb.imp id (kr _ rfl), h.cy.imp id (kr _ rfl),
        h.tb.imp id (kr _ rfl)⟩
    · exact ⟨h.mirror, hrest, h.tr.imp id (kr _ rfl), h.sp.imp id (kr _ rfl), h.wb.imp id (kr _ rfl), h.cy.imp id (kr _ rfl),
        h.tb.imp id (kr _ rfl)⟩

/-- One step of a quiet history preserves the invariant. -/
theorem inv_step (cat : Nat → Option (List Nat)) (s : State) (e : Event) (h : Inv s)
    (hq : sensitive e = true → busy s = false) : Inv (step cat s e) := by
  cases e with
  | import_ files =>
    simp only [step]
    split
    · exact h
    · refine ⟨h.mirror, ?_, h.tr.imp id (KP_append_left _ _ _), h.sp.imp id (KP_append_left _ _ _), h.wb.imp id (KP_append_left _ _ _),
        h.cy.imp id (KP_append_left _ _ _), h.tb.imp id (KP_append_left _ _ _)⟩
      intro x hx
      rcases List.mem_append.mp hx with hx | hx
      · exact h.ok x hx
      · simp only [List.mem_cons, List.not_mem_nil, or_false] at hx
        subst hx
        trivial
  | clear =>
    have nb : s.pending.any isDisp = false := hq rfl
    exact ⟨rfl, ok_of_not_busy s.pending nb _ _ _ _ _, Or.inl rfl, Or.inl rfl, Or.inl rfl, Or.inl rfl, Or.inl rfl⟩
  | setCheck i b => exact ⟨by simpa [step, setVisible_text] using h.mirror, h.ok, h.tr, h.sp, h.wb, h.cy, h.tb⟩
  | selectAll => exact ⟨by simpa [step, setAllVisible_text] using h.mirror, h.ok, h.tr, h.sp, h.wb, h.cy, h.tb⟩
  | unselectAll => exact ⟨by simpa [step, setAllVisible_text] using h.mirror, h.ok, h.tr, h.sp, h.wb, h.cy, h.tb⟩
  | setPat p => exact ⟨h.mirror, h.ok, h.tr, h.sp, h.wb, h.cy, h.tb⟩
  | display =>
    have nb : s.pending.any isDisp = false := hq rfl
    have nk := fun k => not_KP_of_not_busy s.pending k nb
    simp only [step]
    split
    · rename_i he
      have hsel : selected s = [] := List.isEmpty_iff.mp he
      refine ⟨h.mirror, ok_of_not_busy s.pending nb _ _ _ _ _, Or.inl (h.tr.resolve_right (nk _)), Or.inl (h.sp.resolve_right (nk _)),
        Or.inl (h.wb.resolve_right (nk _)), Or.inl (h.cy.resolve_right (nk _)), Or.inl ?_⟩
      show ([] : List StatRow) = specTable (some (selected s, s.ui))
      rw [hsel]; rfl
    · rename_i he
      have hne : selected s ≠ [] := fun e => he (List.isEmpty_iff.mpr e)
      have wt : ∀ k, KP (s.pending ++ [Worker.read (selected s)]) k :=
        fun k => KP_append_right _ _ _ ⟨Worker.read (selected s), List.mem_singleton.mpr rfl, rfl⟩
      refine ⟨h.mirror, ?_, Or.inr (wt _), Or.inr (wt _), Or.inr (wt _), Or.inr (wt _), Or.inr (wt _)⟩
      intro x hx
      rcases List.mem_append.mp hx with hx | hx
      · exact ok_of_not_busy s.pending nb _ _ _ _ _ x hx
      · simp only [List.mem_cons, List.not_mem_nil, or_false] at hx
        subst hx
        exact ⟨rfl, rfl, hne, selected_mem_db' s h.mirror, Or.inl rfl⟩
  | gumbel =>
    simp only [step]
    split
    · refine ⟨h.mirror, ?_, h.tr.imp id (KP_append_left _ _ _), h.sp.imp id (KP_append_left _ _ _), h.wb.imp id (KP_append_left _ _ _),
        h.cy.imp id (KP_append_left _ _ _), h.tb.imp id (KP_append_left _ _ _)⟩
      intro x hx
      rcases List.mem_append.mp hx with hx | hx
      · exact h.ok x hx
      · simp only [List.mem_cons, List.not_mem_nil, or_false] at hx
        subst hx
        trivial
    · exact h
  | setTwin n =>
    have nb : s.pending.any isDisp = false := hq rfl
    exact ⟨h.mirror, ok_of_not_busy s.pending nb _ _ _ _ _, h.tr, h.sp, h.wb, h.cy, h.tb⟩
  | setFilt n =>
    have nb : s.pending.any isDisp = false := hq rfl
    exact ⟨h.mirror, ok_of_not_busy s.pending nb _ _ _ _ _, h.tr, h.sp, h.wb, h.cy, h.tb⟩
  | setMinima b =>
    have nb : s.pending.any isDisp = false := hq rfl
    exact ⟨h.mirror, ok_of_not_busy s.pending nb _ _ _ _ _, h.tr, h.sp, h.wb, h.cy, h.tb⟩
  | setShowMM b =>
    have nb : s.pending.any isDisp = false := hq rfl
    exact ⟨h.mirror, ok_of_not_busy s.pending nb _ _ _ _ _, h.tr, h.sp, h.wb, h.cy, h.tb⟩
  | complete i =>
    cases hp : pick i s.pending with
    | none => simpa only [step, hp] using h
    | some q =>
      obtain ⟨w, rest⟩ := q
      simp only [step, hp]
      exact inv_finish cat s i w rest hp h

theorem inv_run (cat : Nat → Option (List Nat)) (s : State) (h : List Event) (hi : Inv s) (hq : Quiet cat s h) :
    Inv (run cat s h) := by
  induction h generalizing s with
  | nil => exact hi
  | cons e es ih => exact ih _ (inv_step cat s e hi hq.1) hq.2

theorem views_latest_quiet' (cat : Nat → Option (List Nat)) (h : List Event) (hq : Quiet cat init h)
    (hb : busy (run cat init h) = false) : Consistent (run cat init h) :=
  inv_consistent _ (inv_run cat init h inv_init hq) hb

theorem sensitive_isUser (e : Event) (h : sensitive e = true) : isUser e = true := by
  cases e <;> simp_all [sensitive, isUser]

theorem serial_quiet (cat : Nat → Option (List Nat)) (s : State) (h : List Event) (hs : Serial cat s h) : Quiet cat s h := by
  induction h generalizing s with
  | nil => trivial
  | cons e es ih =>
    refine ⟨fun hse => ?_, ih _ hs.2⟩
    have := hs.1 (sensitive_isUser e hse)
    simp [busy, this]

/-! ### decidability of the history predicates (for the machine-checked example histories) -/

instance decQuiet (cat : Nat → Option (List Nat)) : (s : State) → (h : List Event) → Decidable (Quiet cat s h)
  | _, [] => isTrue trivial
  | s, e :: es => by
    unfold Quiet
    exact @instDecidableAnd _ _ _ (decQuiet cat (step cat s e) es)

instance decSerial (cat : Nat → Option (List Nat)) : (s : State) → (h : List Event) → Decidable (Serial cat s h)
  | _, [] => isTrue trivial
  | s, e :: es => by
    unfold Serial
    exact @instDecidableAnd _ _ _ (decSerial cat (step cat s e) es)

/-- One file (id 1) with three series. -/
def cat1 : Nat → Option (List Nat) := fun f => if f = 1 then some [1, 2, 3] else none

def ui0 : Ui := ⟨0, 0, false, false⟩

/-- K1: request A (series 1), request B (series 2) while A is pending; B's workers complete first, A's last. -/
def k1History : List Event :=
  [.import_ [1], .complete 0, .setCheck 0 true, .display, .unselectAll, .setCheck 1 true, .display,
   .complete 1, .complete 1, .complete 1, .complete 1, .complete 1, .complete 0, .complete 0, .complete 0, .complete 0, .complete 0]

/-- K1 (table): request A (series 1, 2, 3), request B (series 2) while A is pending; everything completes first-in first-out. -/
def k1FifoHistory : List Event :=
  [.import_ [1], .complete 0, .selectAll, .display, .unselectAll, .setCheck 1 true, .display,
   .complete 0, .complete 0, .complete 0, .complete 0, .complete 0, .complete 0, .complete 0, .complete 0, .complete 0, .complete 0]

/-- K2: the time window is changed after the request and before its read worker completes. -/
def k2History : List Event :=
  [.import_ [1], .complete 0, .setCheck 0 true, .display, .setTwin 1, .complete 0, .complete 0, .complete 0, .complete 0, .complete 0]

/-- K2 (draw time): "show in plot" is ticked after the read worker completed, before the trace is drawn. -/
def k2DrawHistory : List Event :=
  [.import_ [1], .complete 0, .setCheck 0 true, .display, .complete 0, .setShowMM true, .complete 0, .complete 0, .complete 0, .complete 0]

/-- K4: the database is cleared after the read worker completed; the four calculations complete afterwards. -/
def k4History : List Event :=
  [.import_ [1], .complete 0, .setCheck 0 true, .display, .complete 0, .clear, .complete 0, .complete 0, .complete 0, .complete 0]

/-- A serial history: import, tick rows 0 and 2, settings, display, completions out of order. -/
def serialHistory : List Event :=
  [.import_ [1], .complete 0, .setCheck 0 true, .setCheck 2 true, .setTwin 1, .setFilt 2, .setMinima true, .setShowMM true, .display,
   .complete 0, .complete 3, .complete 0, .complete 1, .complete 0]

end Qats.Gui
