import Qats.Lemmas.RegistryAssoc
set_option linter.unnecessarySeqFocus false
namespace Qats.Registry
open Qats.Names

/-- One iteration of `readKeys`: new database, new counter, returned object. -/
def readOne (store : Bool) (d : Db) (n : Nat) (k : Str) : Db × Nat × Nat :=
  match lookup d.register k with
  | some (some obj) => (d, n, obj)
  | _ => (if store then { d with register := setKey d.register k (some n) } else d, n + 1, n)

def rstep (store : Bool) (acc : Db × Nat × List (Str × Nat)) (k : Str) : Db × Nat × List (Str × Nat) :=
  ((readOne store acc.1 acc.2.1 k).1, (readOne store acc.1 acc.2.1 k).2.1, acc.2.2 ++ [(k, (readOne store acc.1 acc.2.1 k).2.2)])

theorem readKeys_eq_foldl (d : Db) (n : Nat) (ks : List Str) (store : Bool) :
    readKeys d n ks store = ks.foldl (rstep store) (d, n, []) := by
  unfold readKeys
  congr 1
  funext acc k
  obtain ⟨d, n, out⟩ := acc
  simp only [rstep, readOne]
  generalize lookup d.register k = r
  rcases r with _ | _ | _ <;> rfl

theorem foldl_rstep_acc (store : Bool) (ks : List Str) (d : Db) (n : Nat) (acc : List (Str × Nat)) :
    ks.foldl (rstep store) (d, n, acc) =
      ((ks.foldl (rstep store) (d, n, [])).1, (ks.foldl (rstep store) (d, n, [])).2.1,
        acc ++ (ks.foldl (rstep store) (d, n, [])).2.2) := by
  induction ks generalizing d n acc with
  | nil => simp
  | cons k ks ih =>
    rw [List.foldl_cons, List.foldl_cons]
    simp only [rstep]
    rw [ih, ih (acc := [] ++ _)]
    simp

theorem readKeys_nil (d : Db) (n : Nat) (store : Bool) : readKeys d n [] store = (d, n, []) := rfl

theorem readKeys_cons (d : Db) (n : Nat) (k : Str) (ks : List Str) (store : Bool) :
    readKeys d n (k :: ks) store =
      ((readKeys (readOne store d n k).1 (readOne store d n k).2.1 ks store).1,
       (readKeys (readOne store d n k).1 (readOne store d n k).2.1 ks store).2.1,
       (k, (readOne store d n k).2.2) :: (readKeys (readOne store d n k).1 (readOne store d n k).2.1 ks store).2.2) := by
  simp only [readKeys_eq_foldl, List.foldl_cons]
  simp only [rstep]
  rw [foldl_rstep_acc]
  simp

/-! ### one iteration -/

theorem readOne_of_cached {store : Bool} {d : Db} {n : Nat} {k : Str} {o : Nat}
    (h : lookup d.register k = some (some o)) : readOne store d n k = (d, n, o) := by
  simp [readOne, h]

theorem readOne_of_not_cached {store : Bool} {d : Db} {n : Nat} {k : Str}
    (h : ∀ o, lookup d.register k ≠ some (some o)) :
    readOne store d n k =
      (if store then { d with register := setKey d.register k (some n) } else d, n + 1, n) := by
  unfold readOne
  split
  · rename_i o ho; exact absurd ho (h o)
  · rfl

theorem readOne_cases (store : Bool) (d : Db) (n : Nat) (k : Str) :
    (∃ o, lookup d.register k = some (some o) ∧ readOne store d n k = (d, n, o)) ∨
    ((∀ o, lookup d.register k ≠ some (some o)) ∧ readOne store d n k =
      (if store then { d with register := setKey d.register k (some n) } else d, n + 1, n)) := by
  by_cases h : ∃ o, lookup d.register k = some (some o)
  · obtain ⟨o, ho⟩ := h
    exact Or.inl ⟨o, ho, readOne_of_cached ho⟩
  · have h' : ∀ o, lookup d.register k ≠ some (some o) := fun o ho => h ⟨o, ho⟩
    exact Or.inr ⟨h', readOne_of_not_cached h'⟩

theorem readOne_parents (store : Bool) (d : Db) (n : Nat) (k : Str) :
    (readOne store d n k).1.parents = d.parents := by
  rcases readOne_cases store d n k with ⟨o, _, h⟩ | ⟨_, h⟩ <;> rw [h] <;> cases store <;> rfl

theorem readOne_indices (store : Bool) (d : Db) (n : Nat) (k : Str) :
    (readOne store d n k).1.indices = d.indices := by
  rcases readOne_cases store d n k with ⟨o, _, h⟩ | ⟨_, h⟩ <;> rw [h] <;> cases store <;> rfl

theorem readOne_keys (store : Bool) (d : Db) (n : Nat) (k : Str) :
    (readOne store d n k).1.keys = d.keys := by
  rcases readOne_cases store d n k with ⟨o, _, h⟩ | ⟨_, h⟩ <;> rw [h] <;> cases store <;> rfl

theorem readOne_false (d : Db) (n : Nat) (k : Str) : (readOne false d n k).1 = d := by
  rcases readOne_cases false d n k with ⟨o, _, h⟩ | ⟨_, h⟩ <;> rw [h] <;> rfl

theorem readOne_map_fst (store : Bool) (d : Db) (n : Nat) (k : Str) (hk : hasKey d.register k = true) :
    (readOne store d n k).1.register.map (·.1) = d.register.map (·.1) := by
  rcases readOne_cases store d n k with ⟨o, _, h⟩ | ⟨_, h⟩ <;> rw [h]
  cases store
  · rfl
  · exact map_fst_setKey_of_hasKey _ hk

theorem readOne_le (store : Bool) (d : Db) (n : Nat) (k : Str) : n ≤ (readOne store d n k).2.1 := by
  rcases readOne_cases store d n k with ⟨o, _, h⟩ | ⟨_, h⟩ <;> rw [h] <;> simp

theorem readOne_fresh (store : Bool) (d : Db) (n : Nat) (k : Str)
    (hf : ∀ kv ∈ d.register, ∀ o, kv.2 = some o → o < n) :
    (∀ kv ∈ (readOne store d n k).1.register, ∀ o, kv.2 = some o → o < (readOne store d n k).2.1) ∧
      (readOne store d n k).2.2 < (readOne store d n k).2.1 := by
  rcases readOne_cases store d n k with ⟨o, ho, h⟩ | ⟨_, h⟩ <;> rw [h]
  · exact ⟨hf, hf _ (mem_of_lookup ho) o rfl⟩
  · refine ⟨?_, Nat.lt_succ_self n⟩
    cases store
    · intro kv hkv o ho; exact Nat.lt_succ_of_lt (hf kv hkv o ho)
    · intro kv hkv o ho
      rcases mem_setKey hkv with hm | rfl
      · exact Nat.lt_succ_of_lt (hf kv hm o ho)
      · simp only [Option.some.injEq] at ho; subst ho; exact Nat.lt_succ_self _

theorem readOne_cached_self (d : Db) (n : Nat) (k : Str) :
    lookup (readOne true d n k).1.register k = some (some (readOne true d n k).2.2) := by
  rcases readOne_cases true d n k with ⟨o, ho, h⟩ | ⟨_, h⟩ <;> rw [h]
  · exact ho
  · exact lookup_setKey_self _ _ _

theorem readOne_cached_pres (store : Bool) (d : Db) (n : Nat) (k k' : Str) (o : Nat)
    (hc : lookup d.register k' = some (some o)) :
    lookup (readOne store d n k).1.register k' = some (some o) := by
  rcases readOne_cases store d n k with ⟨o', ho, h⟩ | ⟨hn, h⟩ <;> rw [h]
  · exact hc
  · cases store
    · exact hc
    · have hne : k' ≠ k := by rintro rfl; exact hn o hc
      show lookup (setKey d.register k (some n)) k' = _
      rw [lookup_setKey_ne _ _ hne]; exact hc

/-! ### the whole loop -/

theorem readKeys_out_keys (store : Bool) (ks : List Str) (d : Db) (n : Nat) :
    (readKeys d n ks store).2.2.map (·.1) = ks := by
  induction ks generalizing d n with
  | nil => rfl
  | cons k ks ih => rw [readKeys_cons]; simp [ih]

theorem readKeys_parents (store : Bool) (ks : List Str) (d : Db) (n : Nat) :
    (readKeys d n ks store).1.parents = d.parents := by
  induction ks generalizing d n with
  | nil => rfl
  | cons k ks ih => rw [readKeys_cons]; simp only [ih, readOne_parents]

theorem readKeys_indices (store : Bool) (ks : List Str) (d : Db) (n : Nat) :
    (readKeys d n ks store).1.indices = d.indices := by
  induction ks generalizing d n with
  | nil => rfl
  | cons k ks ih => rw [readKeys_cons]; simp only [ih, readOne_indices]

theorem readKeys_keys (store : Bool) (ks : List Str) (d : Db) (n : Nat) :
    (readKeys d n ks store).1.keys = d.keys := by
  induction ks generalizing d n with
  | nil => rfl
  | cons k ks ih => rw [readKeys_cons]; simp only [ih, readOne_keys]

theorem readKeys_false (ks : List Str) (d : Db) (n : Nat) : (readKeys d n ks false).1 = d := by
  induction ks generalizing d n with
  | nil => rfl
  | cons k ks ih => rw [readKeys_cons]; simp only [ih, readOne_false]

theorem readKeys_map_fst (store : Bool) (ks : List Str) (d : Db) (n : Nat)
    (hk : ∀ k ∈ ks, hasKey d.register k = true) :
    (readKeys d n ks store).1.register.map (·.1) = d.register.map (·.1) := by
  induction ks generalizing d n with
  | nil => rfl
  | cons k ks ih =>
    rw [readKeys_cons]
    have h1 := readOne_map_fst store d n k (hk k List.mem_cons_self)
    simp only
    rw [ih, h1]
    intro k' hk'
    rw [hasKey_iff, h1, ← hasKey_iff]
    exact hk k' (List.mem_cons_of_mem _ hk')

theorem readKeys_le (store : Bool) (ks : List Str) (d : Db) (n : Nat) : n ≤ (readKeys d n ks store).2.1 := by
  induction ks generalizing d n with
  | nil => exact le_refl _
  | cons k ks ih => rw [readKeys_cons]; exact le_trans (readOne_le store d n k) (ih _ _)

theorem readKeys_fresh (store : Bool) (ks : List Str) (d : Db) (n : Nat)
    (hf : ∀ kv ∈ d.register, ∀ o, kv.2 = some o → o < n) :
    ∀ kv ∈ (readKeys d n ks store).1.register, ∀ o, kv.2 = some o → o < (readKeys d n ks store).2.1 := by
  induction ks generalizing d n with
  | nil => exact hf
  | cons k ks ih => rw [readKeys_cons]; exact ih _ _ (readOne_fresh store d n k hf).1

theorem readKeys_cached_pres (store : Bool) (ks : List Str) (d : Db) (n : Nat) (k' : Str) (o : Nat)
    (hc : lookup d.register k' = some (some o)) :
    lookup (readKeys d n ks store).1.register k' = some (some o) := by
  induction ks generalizing d n with
  | nil => exact hc
  | cons k ks ih => rw [readKeys_cons]; exact ih _ _ (readOne_cached_pres store d n k k' o hc)

/-- With `store = true`, every returned pair is cached afterwards. -/
theorem readKeys_cached (ks : List Str) (d : Db) (n : Nat) :
    ∀ kv ∈ (readKeys d n ks true).2.2, lookup (readKeys d n ks true).1.register kv.1 = some (some kv.2) := by
  induction ks generalizing d n with
  | nil => intro kv h; simp [readKeys_nil] at h
  | cons k ks ih =>
    rw [readKeys_cons]
    intro kv hkv
    simp only [List.mem_cons] at hkv
    rcases hkv with rfl | hkv
    · exact readKeys_cached_pres _ _ _ _ _ _ (readOne_cached_self d n k)
    · exact ih _ _ kv hkv

/-- If everything requested is cached, nothing happens. -/
theorem readKeys_all_cached (store : Bool) (out : List (Str × Nat)) (d : Db) (n : Nat)
    (hc : ∀ kv ∈ out, lookup d.register kv.1 = some (some kv.2)) :
    readKeys d n (out.map (·.1)) store = (d, n, out) := by
  induction out with
  | nil => rfl
  | cons kv out ih =>
    rw [List.map_cons, readKeys_cons, readOne_of_cached (hc kv List.mem_cons_self)]
    simp only
    rw [ih (fun kv' h => hc kv' (List.mem_cons_of_mem _ h))]

/-- Every returned object is below the final counter (given the cached ones were below the initial one). -/
theorem readKeys_out_fresh (store : Bool) (ks : List Str) (d : Db) (n : Nat)
    (hf : ∀ kv ∈ d.register, ∀ o, kv.2 = some o → o < n) :
    ∀ kv ∈ (readKeys d n ks store).2.2, kv.2 < (readKeys d n ks store).2.1 := by
  induction ks generalizing d n with
  | nil => intro kv h; simp [readKeys_nil] at h
  | cons k ks ih =>
    rw [readKeys_cons]
    intro kv hkv
    simp only [List.mem_cons] at hkv
    rcases hkv with rfl | hkv
    · exact lt_of_lt_of_le (readOne_fresh store d n k hf).2 (readKeys_le _ _ _ _)
    · exact ih _ _ (readOne_fresh store d n k hf).1 kv hkv

end Qats.Registry
