import Qats.Lemmas.DistGumbel
import Qats.Lemmas.EstOps
/-!
Population-level exactness of the closed-form Gumbel estimators (C16, clause "every method recovers the parameters of a
large sample that follows the distribution exactly").

`gumbel.pwm` computes `m0 = mk(x, 0)` (the sample mean) and `m1 = mk(x, 1)`; `mk(·, k)` is the unbiased sample version of
the probability-weighted moment `M_{1,0,k} = E[X·(1 − F(X))^k]` (weights `C(n−i,k)/C(n−1,k)` on the ascending sample:
emphasis on the LOWER tail), so the population counterparts are

  `β0 = ∫ x·f(x) dx`   and   `M101 = ∫ x·(1 − F(x))·f(x) dx = β0 − β1`,   `β1 = ∫ x·F(x)·f(x) dx`.

Route: `F(x)² ` is the cdf of Gumbel(loc + scale·log 2, scale) (max-stability) and `F·f = ½·f_shifted`, so `β1` is half
the mean of the shifted distribution, which `gu_density_mean'` (DistGumbel.lean) gives as `loc + scale·log 2 + γ·scale`.
`f`, `F` are the generated `gu_pdf`, `gu_cdf`; the estimator formulas are the generated `gu_pwm_b`, `gu_pwm_a`,
`gu_msm_a`, `gm_msm_a`.
-/
namespace Qats.Est
open Qats Qats.Gen Qats.Dist MeasureTheory Real

/-- the shifted standardised variable -/
theorem shifted_z (loc scale x : ℝ) (hs : scale ≠ 0) :
    -((x - (loc + scale * Real.log 2)) / scale) = -((x - loc) / scale) + Real.log 2 := by
  field_simp; ring

theorem exp_add_log_two (t : ℝ) : Real.exp (t + Real.log 2) = 2 * Real.exp t := by
  rw [Real.exp_add, Real.exp_log two_pos]; ring

/-- Max-stability: the square of the Gumbel cdf is the Gumbel cdf with location moved by `scale·log 2`. -/
theorem gu_cdf_sq' (loc scale x : ℝ) (hs : scale ≠ 0) :
    gu_cdf loc scale x ^ 2 = gu_cdf (loc + scale * Real.log 2) scale x := by
  rw [Dist.gu_cdf_eq, Dist.gu_cdf_eq, shifted_z loc scale x hs, exp_add_log_two, ← Real.exp_nat_mul]
  congr 1
  push_cast; ring

/-- `F·f = ½·f_shifted` (the derivative of `½·F²`). -/
theorem gu_cdf_mul_pdf' (loc scale x : ℝ) (hs : scale ≠ 0) :
    gu_cdf loc scale x * gu_pdf loc scale x = 1 / 2 * gu_pdf (loc + scale * Real.log 2) scale x := by
  rw [Dist.gu_cdf_eq, Dist.gu_pdf_eq, Dist.gu_pdf_eq, shifted_z loc scale x hs, exp_add_log_two]
  generalize (x - loc) / scale = z
  have h2 : Real.exp (-z + Real.log 2 - 2 * Real.exp (-z)) =
      2 * (Real.exp (-Real.exp (-z)) * Real.exp (-z - Real.exp (-z))) := by
    rw [show -z + Real.log 2 - 2 * Real.exp (-z) = (-Real.exp (-z) + (-z - Real.exp (-z))) + Real.log 2 by ring,
      exp_add_log_two, Real.exp_add]
  rw [h2]; ring

/-- `β1 = ∫ x·F·f = ½·(loc + scale·log 2 + γ·scale)`. -/
theorem gu_beta1' (loc scale : ℝ) (hs : 0 < scale) :
    Integrable (fun x => x * gu_cdf loc scale x * gu_pdf loc scale x) ∧
      ∫ x, x * gu_cdf loc scale x * gu_pdf loc scale x =
        1 / 2 * (loc + scale * Real.log 2 + eulerMascheroniConstant * scale) := by
  obtain ⟨-, i1, v1⟩ := gu_density_mean' (loc + scale * Real.log 2) scale hs
  have e : (fun x => x * gu_cdf loc scale x * gu_pdf loc scale x) =
      fun x => 1 / 2 * (x * gu_pdf (loc + scale * Real.log 2) scale x) := by
    funext x; rw [mul_assoc, gu_cdf_mul_pdf' loc scale x hs.ne']; ring
  rw [e]
  exact ⟨i1.const_mul _, by rw [integral_const_mul, v1]⟩

/-- `M101 = ∫ x·(1 − F)·f = β0 − β1 = ½·(loc + γ·scale − scale·log 2)`: the population counterpart of `mk(x, 1)`. -/
theorem gu_m101' (loc scale : ℝ) (hs : 0 < scale) :
    Integrable (fun x => x * (1 - gu_cdf loc scale x) * gu_pdf loc scale x) ∧
      ∫ x, x * (1 - gu_cdf loc scale x) * gu_pdf loc scale x =
        1 / 2 * (loc + eulerMascheroniConstant * scale - scale * Real.log 2) := by
  obtain ⟨-, i0, v0⟩ := gu_density_mean' loc scale hs
  obtain ⟨i1, v1⟩ := gu_beta1' loc scale hs
  have e : (fun x => x * (1 - gu_cdf loc scale x) * gu_pdf loc scale x) =
      fun x => x * gu_pdf loc scale x - x * gu_cdf loc scale x * gu_pdf loc scale x := by
    funext x; ring
  rw [e]
  refine ⟨i0.sub i1, ?_⟩
  rw [integral_sub i0 i1, v0, v1]; ring

/-- the relation between the two first-order probability-weighted moments -/
theorem gu_m101_eq_sub' (loc scale : ℝ) (hs : 0 < scale) :
    ∫ x, x * (1 - gu_cdf loc scale x) * gu_pdf loc scale x =
      (∫ x, x * gu_pdf loc scale x) - ∫ x, x * gu_cdf loc scale x * gu_pdf loc scale x := by
  rw [(gu_m101' loc scale hs).2, (gu_density_mean' loc scale hs).2.2, (gu_beta1' loc scale hs).2]; ring

theorem log_two_ne_zero : Real.log 2 ≠ 0 := (Real.log_pos one_lt_two).ne'

/-- The PWM formulas at the population moments: the scale is exact, the location is off by `(γ − c)·scale`
(`c` the source's literal for the Euler–Mascheroni constant). -/
theorem gumbel_pwm_population' (loc scale : ℝ) (hs : 0 < scale) :
    gu_pwm_b (∫ x, x * gu_pdf loc scale x) (∫ x, x * (1 - gu_cdf loc scale x) * gu_pdf loc scale x) = scale ∧
    gu_pwm_a (gu_pwm_b (∫ x, x * gu_pdf loc scale x) (∫ x, x * (1 - gu_cdf loc scale x) * gu_pdf loc scale x))
        (∫ x, x * gu_pdf loc scale x) = loc + (eulerMascheroniConstant - 0.5772156649015329) * scale := by
  have hb : gu_pwm_b (∫ x, x * gu_pdf loc scale x)
      (∫ x, x * (1 - gu_cdf loc scale x) * gu_pdf loc scale x) = scale := by
    rw [gu_pwm_b_eq, (gu_m101' loc scale hs).2, (gu_density_mean' loc scale hs).2.2]
    have := log_two_ne_zero
    field_simp; ring
  refine ⟨hb, ?_⟩
  rw [hb, gu_pwm_a_eq, (gu_density_mean' loc scale hs).2.2]
  unfold emc; ring

/-- The formulas with `γ` in place of the literal (`a = m0 − γ·b`) return exactly `(loc, scale)`. -/
theorem gumbel_pwm_population_exact' (loc scale : ℝ) (hs : 0 < scale) :
    let m0 := ∫ x, x * gu_pdf loc scale x
    let m1 := ∫ x, x * (1 - gu_cdf loc scale x) * gu_pdf loc scale x
    let b := gu_pwm_b m0 m1
    (m0 - eulerMascheroniConstant * b, b) = (loc, scale) := by
  intro m0 m1 b
  have hb : b = scale := (gumbel_pwm_population' loc scale hs).1
  have h0 : m0 = loc + eulerMascheroniConstant * scale := (gu_density_mean' loc scale hs).2.2
  rw [hb, h0]; simp

/-- Mathlib's bounds `1/2 < γ < 2/3` bound the literal's error by 1/10. -/
theorem emc_error_lt : |(0.5772156649015329 : ℝ) - eulerMascheroniConstant| < 1 / 10 := by
  have h1 := Real.one_half_lt_eulerMascheroniConstant
  have h2 := Real.eulerMascheroniConstant_lt_two_thirds
  rw [abs_lt]; constructor <;> norm_num <;> linarith

/-- The error of the estimator at the population moments is `|c − γ|·scale` in the location and 0 in the scale. -/
theorem gumbel_pwm_population_error' (loc scale : ℝ) (hs : 0 < scale) :
    let m0 := ∫ x, x * gu_pdf loc scale x
    let m1 := ∫ x, x * (1 - gu_cdf loc scale x) * gu_pdf loc scale x
    let b := gu_pwm_b m0 m1
    b = scale ∧ |gu_pwm_a b m0 - loc| = |(0.5772156649015329 : ℝ) - eulerMascheroniConstant| * scale ∧
      |gu_pwm_a b m0 - loc| < scale / 10 := by
  intro m0 m1 b
  obtain ⟨hb, ha⟩ := gumbel_pwm_population' loc scale hs
  have h : |gu_pwm_a b m0 - loc| = |(0.5772156649015329 : ℝ) - eulerMascheroniConstant| * scale := by
    show |gu_pwm_a (gu_pwm_b _ _) _ - loc| = _
    rw [ha, add_sub_cancel_left, abs_mul, abs_of_pos hs, abs_sub_comm]
  refine ⟨hb, h, ?_⟩
  rw [h]
  have := mul_lt_mul_of_pos_right emc_error_lt hs
  linarith

/-- The model's `gumbelPwm` sees the sample only through `mk xs 0`, `mk xs 1`: a sample whose two sample moments equal
the population moments is fitted with the exact scale and the location `loc + (γ − c)·scale`. -/
theorem gumbelPwm_of_population_moments' (xs : List ℝ) (loc scale : ℝ) (hs : 0 < scale)
    (h0 : mk xs 0 = ∫ x, x * gu_pdf loc scale x)
    (h1 : mk xs 1 = ∫ x, x * (1 - gu_cdf loc scale x) * gu_pdf loc scale x) :
    gumbelPwm xs = (loc + (eulerMascheroniConstant - 0.5772156649015329) * scale, scale) := by
  obtain ⟨hb, ha⟩ := gumbel_pwm_population' loc scale hs
  rw [hb] at ha
  simp only [gumbelPwm, h0, h1, hb, ha]

/-- Method of moments, location given the scale: `a = mean − c·b` at the population mean and `b = scale`. -/
theorem gumbel_msm_population_loc' (loc scale : ℝ) (hs : 0 < scale) :
    gu_msm_a scale (∫ x, x * gu_pdf loc scale x) =
      loc + (eulerMascheroniConstant - 0.5772156649015329) * scale := by
  rw [gu_msm_a_eq, (gu_density_mean' loc scale hs).2.2]; unfold emc; ring

/-- Same for the minima distribution (`a = mean + c·b`; mean of `gm_pdf` is `loc − γ·scale`). -/
theorem gumbelMin_msm_population_loc' (loc scale : ℝ) (hs : 0 < scale) :
    gm_msm_a scale (∫ x, x * gm_pdf loc scale x) =
      loc - (eulerMascheroniConstant - 0.5772156649015329) * scale := by
  rw [gm_msm_a_eq, (gm_density_mean' loc scale hs).2.2]; unfold emc; ring

/-- `mk` on a two-point ascending sample: `m0 = (a + b)/2`, `m1 = a/2` (used for the non-vacuity of
`gumbelPwm_of_population_moments'`: every pair of moments with `2·m1 ≤ m0` is attained by an ascending sample). -/
theorem mk_pair0' (a b : ℝ) : Qats.Dist.mk [a, b] 0 = (a + b) / 2 := by
  simp [Qats.Dist.mk, rankSum, choose]
  norm_num
  ring

theorem mk_pair1' (a b : ℝ) : Qats.Dist.mk [a, b] 1 = a / 2 := by
  simp [Qats.Dist.mk, rankSum, choose]
  norm_num
  ring

/-- For every Gumbel(loc, scale) there is an ascending sample whose two sample moments are the population moments. -/
theorem population_sample_exists' (loc scale : ℝ) (hs : 0 < scale) :
    ∃ xs : List ℝ, xs.Pairwise (· ≤ ·) ∧ Qats.Dist.mk xs 0 = (∫ x, x * gu_pdf loc scale x) ∧
      Qats.Dist.mk xs 1 = ∫ x, x * (1 - gu_cdf loc scale x) * gu_pdf loc scale x := by
  refine ⟨[2 * ∫ x, x * (1 - gu_cdf loc scale x) * gu_pdf loc scale x,
    2 * (∫ x, x * gu_pdf loc scale x) - 2 * ∫ x, x * (1 - gu_cdf loc scale x) * gu_pdf loc scale x], ?_, ?_, ?_⟩
  · rw [(gu_m101' loc scale hs).2, (gu_density_mean' loc scale hs).2.2]
    have := mul_pos hs (Real.log_pos one_lt_two)
    simp only [List.pairwise_cons, List.mem_singleton, forall_eq, List.not_mem_nil, IsEmpty.forall_iff,
      implies_true, List.Pairwise.nil, and_true]
    linarith
  · rw [mk_pair0']; ring
  · rw [mk_pair1']; ring

end Qats.Est
