import Qats.Lemmas.PeaksLocal
/-!
`pairLe` is a total preorder; threshold filter and sort of `findMaxima`; equivariance under strictly increasing maps.
-/
namespace Qats.Peaks
set_option linter.unusedSectionVars false
set_option linter.unusedVariables false
variable {α : Type} [Field α] [LinearOrder α] [IsStrictOrderedRing α]

theorem pairLe_iff (a b : Nat × α) : pairLe a b = true ↔ a.2 < b.2 ∨ (a.2 = b.2 ∧ a.1 ≤ b.1) := by
  unfold pairLe
  rcases lt_trichotomy a.2 b.2 with h | h | h
  · simp [h]
  · simp [h]
  · simp [h, h.not_gt, h.ne']

instance pairLe_total : Std.Total (fun a b : Nat × α => pairLe a b = true) where
  total a b := by
    rw [pairLe_iff, pairLe_iff]
    rcases lt_trichotomy a.2 b.2 with h | h | h
    · exact Or.inl (Or.inl h)
    · rcases le_total a.1 b.1 with h' | h'
      · exact Or.inl (Or.inr ⟨h, h'⟩)
      · exact Or.inr (Or.inr ⟨h.symm, h'⟩)
    · exact Or.inr (Or.inl h)

instance pairLe_trans : IsTrans (Nat × α) (fun a b : Nat × α => pairLe a b = true) where
  trans a b c := by
    rw [pairLe_iff, pairLe_iff, pairLe_iff]
    rintro (h1 | ⟨h1, h1'⟩) (h2 | ⟨h2, h2'⟩)
    · exact Or.inl (h1.trans h2)
    · exact Or.inl (h2 ▸ h1)
    · exact Or.inl (h1 ▸ h2)
    · exact Or.inr ⟨h1.trans h2, h1'.trans h2'⟩

theorem isort_pairLe_pairwise (l : List (Nat × α)) : (isort pairLe l).Pairwise (fun a b => a.2 ≤ b.2) := by
  rw [isort_eq]
  refine (List.pairwise_insertionSort (fun a b : Nat × α => pairLe a b = true) l).imp ?_
  intro a b h
  rw [pairLe_iff] at h
  rcases h with h | ⟨h, _⟩
  · exact h.le
  · exact h.le

theorem isort_pairLe_map (f : α → α) (hf : ∀ u w, f u < f w ↔ u < w) (l : List (Nat × α)) :
    isort pairLe (l.map fun iv => (iv.1, f iv.2)) = (isort pairLe l).map fun iv => (iv.1, f iv.2) := by
  have hinj : ∀ u w, f u = f w ↔ u = w := by
    intro u w
    constructor
    · intro h
      rcases lt_trichotomy u w with h' | h' | h'
      · exact absurd h ((hf u w).mpr h').ne
      · exact h'
      · exact absurd h ((hf w u).mpr h').ne'
    · intro h; rw [h]
  rw [isort_eq, isort_eq]
  refine (List.map_insertionSort _ _ _ l (fun x _ y _ => ?_)).symm
  rw [pairLe_iff, pairLe_iff]
  simp only [hf, hinj]

/-- The kept list, as one filter. -/
theorem findMaxima_eq (x : List α) (loc : Bool) (thr : Option α) :
    findMaxima x loc thr = isort pairLe
      ((if loc then localMaxima x else globalMaxima x).filter fun iv => decide (∀ t, thr = some t → t ≤ iv.2)) := by
  unfold findMaxima
  cases thr with
  | none => simp
  | some t => simp

/-! ### Strictly increasing maps of the values -/

theorem localFrom_map (f : α → α) (hf : ∀ u w, f u < f w ↔ u < w) (l : List α) :
    ∀ s, localFrom s (l.map f) = (localFrom s l).map fun iv => (iv.1, f iv.2) := by
  induction l with
  | nil => intro s; simp [localFrom]
  | cons a t ih =>
    intro s
    match t, ih with
    | [], _ => simp [localFrom]
    | [b], _ => simp [localFrom]
    | b :: c :: rest, ih =>
      have ih' := ih (s + 1)
      simp only [List.map_cons] at ih' ⊢
      rw [localFrom, localFrom, ih', List.map_append]
      congr 1
      simp only [hf]
      split <;> simp

/-- Map the values stored in a scan state. -/
def St.mapV (f : α → α) (s : St α) : St α :=
  ⟨s.prev, s.cur.map fun iv => (iv.1, f iv.2), s.done.map fun iv => (iv.1, f iv.2)⟩

theorem step_map (f : α → α) (hf : ∀ u w, f u < f w ↔ u < w) (m : α) (s : St α) (n : Nat) (v : α) :
    step (f m) (s.mapV f) (n, f v) = (step m s (n, v)).mapV f := by
  obtain ⟨p, c, d⟩ := s
  have hd : decide (0 < f v - f m) = decide (0 < v - m) := by
    simp only [sub_pos, hf]
  unfold step
  simp only [St.mapV, hd]
  by_cases hv : m < v
  · cases p with
    | false => simp [hv]
    | true =>
      cases c with
      | none => simp [hv]
      | some jb =>
        simp only [sub_pos, hv, decide_true, if_true, Bool.not_true, Bool.false_eq_true, if_false, Option.map_some,
          hf]
        split <;> rfl
  · cases p with
    | false => simp [hv]
    | true => cases c <;> simp [hv]

theorem foldl_step_map (f : α → α) (hf : ∀ u w, f u < f w ↔ u < w) (m : α) (l : List (Nat × α)) :
    ∀ s : St α, (l.map fun iv => (iv.1, f iv.2)).foldl (step (f m)) (s.mapV f) = (l.foldl (step m) s).mapV f := by
  induction l with
  | nil => intro s; rfl
  | cons iv l ih =>
    intro s
    obtain ⟨n, v⟩ := iv
    simp only [List.map_cons, List.foldl_cons]
    rw [step_map f hf, ih]

theorem enum_map (f : α → α) (x : List α) : enum (x.map f) = (enum x).map fun iv => (iv.1, f iv.2) := by
  unfold enum
  rw [List.length_map, List.zip_map_right]
  rfl

theorem globalMaxima_map (f : α → α) (hf : ∀ u w, f u < f w ↔ u < w) (x : List α)
    (hm : x ≠ [] → mean (x.map f) = f (mean x)) :
    globalMaxima (x.map f) = (globalMaxima x).map fun iv => (iv.1, f iv.2) := by
  cases x with
  | nil => rfl
  | cons x0 t =>
    have hm' := hm (by simp)
    simp only [List.map_cons] at hm' ⊢
    unfold globalMaxima
    simp only
    rw [hm', ← List.map_cons, enum_map]
    have := foldl_step_map f hf (mean (x0 :: t)) (enum (x0 :: t)) ⟨decide (0 < x0 - mean (x0 :: t)), none, []⟩
    have hd : decide (0 < f x0 - f (mean (x0 :: t))) = decide (0 < x0 - mean (x0 :: t)) := by
      simp only [sub_pos, hf]
    rw [hd]
    simp only [St.mapV, Option.map_none, List.map_nil] at this
    rw [this, List.map_reverse]

theorem foldl_add_eq' (l : List α) (acc : α) : l.foldl (· + ·) acc = acc + l.sum := by
  induction l generalizing acc with
  | nil => simp
  | cons x l ih => rw [List.foldl_cons, ih, List.sum_cons]; ring

theorem sum_eq_sum (l : List α) : sum l = l.sum := by
  rw [sum, foldl_add_eq', zero_add]

theorem mean_affine (a b : α) (x : List α) (hx : x ≠ []) :
    mean (x.map fun v => a * v + b) = a * mean x + b := by
  have hlen : (x.length : α) ≠ 0 := by
    rw [Nat.cast_ne_zero]
    exact fun h => hx (List.length_eq_zero_iff.mp h)
  unfold mean
  rw [sum_eq_sum, sum_eq_sum, List.length_map, List.sum_map_add, List.sum_map_mul_left, List.map_id',
    List.map_const', List.sum_replicate, nsmul_eq_mul]
  field_simp

theorem affine_lt (a b : α) (ha : 0 < a) (u w : α) : a * u + b < a * w + b ↔ u < w := by
  rw [add_lt_add_iff_right, mul_lt_mul_iff_right₀ ha]

theorem affine_le (a b : α) (ha : 0 < a) (u w : α) : a * u + b ≤ a * w + b ↔ u ≤ w := by
  rw [add_le_add_iff_right, mul_le_mul_iff_right₀ ha]

theorem findMaxima_affine_aux (x : List α) (loc : Bool) (thr : Option α) (a b : α) (ha : 0 < a) :
    findMaxima (x.map fun v => a * v + b) loc (thr.map fun t => a * t + b) =
      (findMaxima x loc thr).map fun iv => (iv.1, a * iv.2 + b) := by
  have hf := affine_lt a b ha
  have hraw : (if loc then localMaxima (x.map fun v => a * v + b) else globalMaxima (x.map fun v => a * v + b)) =
      (if loc then localMaxima x else globalMaxima x).map fun iv => (iv.1, a * iv.2 + b) := by
    cases loc with
    | true => exact localFrom_map _ hf x 0
    | false => exact globalMaxima_map _ hf x (mean_affine a b x)
  unfold findMaxima
  simp only
  rw [hraw, ← isort_pairLe_map _ hf]
  congr 1
  cases thr with
  | none => rfl
  | some t =>
    simp only [Option.map_some, List.filter_map]
    congr 1
    apply List.filter_congr
    intro iv _
    simp only [Function.comp, affine_le a b ha]

end Qats.Peaks
