import Qats.Model.Names
import Qats.Lemmas.NamesGlob
import Qats.Lemmas.NamesEscape
import Qats.Lemmas.NamesPath
import Mathlib.Tactic
/-!
Main lemmas behind the C09 property theorems (statements fixed by `Qats/Props/C09.lean`).
-/
namespace Qats.Names

/-- The intended effect of `_remove_special_characters` on one character. -/
def escChar (c : Char) : Str :=
  if c == '[' then "[[]".toList else if c == ']' then "[]]".toList else if c == '^' then "[^]".toList
  else if c == '(' then "[(]".toList else if c == ')' then "[)]".toList else [c]

/-- The three-step replacement with the `:[:` detour is, for **every** string, the character-wise escaping. -/
theorem escapeSpecial_eq_flatMap' (s : Str) : escapeSpecial s = s.flatMap escChar := by
  exact escapeSpecial_eq_flatMap_aux s

/-- Escaping makes matching literal: for every pattern `p` and key `k` (any characters), `fnmatch` of the escaped pattern
is shell-style matching in which only `*` and `?` are special — brackets, parentheses and carets are taken literally. -/
theorem escape_literal' (p k : Str) : fnmatch (escapeSpecial p) k = glob p k := by
  exact escape_literal_aux p k

/-- A pattern without `*` and `?` matches exactly itself. -/
theorem glob_literal' (p k : Str) (hp : ∀ c ∈ p, c ≠ '*' ∧ c ≠ '?') : glob p k = true ↔ k = p := by
  exact glob_literal_aux p hp k

/-- `*/` followed by a wildcard-free text matches exactly the keys ending in `/text`. -/
theorem glob_star_suffix' (r k : Str) (hr : ∀ c ∈ r, c ≠ '*' ∧ c ≠ '?') :
    glob ('*' :: '/' :: r) k = true ↔ ('/' :: r).isSuffixOf k = true := by
  exact glob_star_suffix_aux r k hr

/-- Listing is complete and ordered: for each pattern in order, the registered keys in registration order matching it. -/
theorem listKeys_spec' (keys names : List Str) :
    listKeys keys names = names.flatMap fun n => keys.filter fun k => glob (prefixed (common keys) n) k := by
  unfold listKeys
  simp only [escape_literal']

/-- A normalised path: re-joining its non-empty, non-`.` components gives the path back (no `//`, no trailing `/`,
no `.` components). Registered keys are `abspath(file)/name`. -/
def Normalized (k : Str) : Prop := (if isAbs k then [sep] else []) ++ joinSep (comps k) = k

/-- The common path of two or more keys (with normalised directory parts) is a string prefix of every key (so full keys are
matched without the wildcard prefix). -/
theorem common_isPrefix' (keys : List Str) (h2 : 2 ≤ keys.length) (hnorm : ∀ k ∈ keys, Normalized (pathDirname k)) (k : Str)
    (hk : k ∈ keys) : (common keys).isPrefixOf k = true := by
  exact common_isPrefix_aux keys h2 hnorm k hk

/-- The common path is a directory prefix of every key: the key continues with `/` after it. -/
theorem common_dirPrefix' (keys : List Str) (h2 : 2 ≤ keys.length) (hnorm : ∀ k ∈ keys, Normalized (pathDirname k))
    (k : Str) (hk : k ∈ keys) (hc : common keys ≠ []) (hroot : common keys ≠ [sep]) :
    ∃ rel, k = common keys ++ sep :: rel := by
  exact common_dirPrefix_aux keys h2 hnorm k hk hc hroot

/-- `getm(…, fullkey=False)` names a key `common/rel` by `rel` — whatever separators `rel` contains. -/
theorem retKey_relative' (keys : List Str) (k rel : Str) (hrel : k = common keys ++ sep :: rel) : retKey keys k = rel := by
  have hk : k = (common keys ++ [sep]) ++ rel := by rw [hrel]; simp
  unfold retKey
  simp only
  rw [if_pos (by rw [List.isPrefixOf_iff_prefix, hk]; exact List.prefix_append _ _)]
  rw [hk, List.drop_left]

/-- Without a common path, keys that do not start with a separator (in-memory series) keep their names. -/
theorem retKey_no_common' (keys : List Str) (k : Str) (hc : common keys = []) (hk : isAbs k = false) : retKey keys k = k := by
  unfold retKey
  simp only [hc, List.nil_append]
  rw [if_neg]
  intro h
  cases k with
  | nil => simp at h
  | cons c cs =>
    have : sep = c := by simpa using h
    subst this
    simp [isAbs] at hk

/-- Without a common path the relative listing is the listing itself. -/
theorem listRelative_no_common' (cwd : Str) (keys : List Str) (hc : common keys = []) :
    listRelative cwd keys none = keys := by
  unfold listRelative
  simp [hc]

/-- Every registered key selects itself, and only itself, by its full key (keys without `*`/`?`, pairwise distinct; for a
single key the common path is its directory part, which is a prefix of it; for several keys their directory parts must be
normalised). -/
theorem self_select_fullkey' (keys : List Str) (hn : keys.Nodup) (hnorm : ∀ k ∈ keys, Normalized (pathDirname k)) (k : Str)
    (hk : k ∈ keys) (hw : ∀ c ∈ k, c ≠ '*' ∧ c ≠ '?') :
    listKeys keys [k] = [k] ∧ getKey keys k = .ok k ∧ contains keys k = true := by
  have hpre : prefixed (common keys) k = k := by
    unfold prefixed
    split_ifs with h0 hpx
    · rfl
    · rfl
    · exfalso
      apply hpx
      match keys, hk, hnorm with
      | [a], hk, _ =>
        have hak : k = a := by simpa using hk
        subst hak
        exact pathDirname_isPrefix k
      | a :: b :: r, hk, hnorm =>
        exact common_isPrefix' (a :: b :: r) (by simp) hnorm k hk
  have hl : listKeys keys [k] = [k] := by
    rw [listKeys_spec']
    simp only [List.flatMap_cons, List.flatMap_nil, List.append_nil, hpre]
    apply filter_eq_singleton _ k keys hn hk
    · exact (glob_literal' k k hw).2 rfl
    · intro x _ hne
      cases hg : glob k x
      · rfl
      · exact absurd ((glob_literal' k x hw).1 hg) hne
  refine ⟨hl, ?_, ?_⟩
  · simp [getKey, hl]
  · simp [contains, hl]

/-- Single retrieval and containment agree with the listing. -/
theorem get_agrees' (keys : List Str) (name : Str) :
    (getKey keys name = .error .lookup ↔ listKeys keys [name] = []) ∧
    (getKey keys name = .error .value ↔ 2 ≤ (listKeys keys [name]).length) ∧
    (∀ k, getKey keys name = .ok k ↔ listKeys keys [name] = [k]) ∧
    (contains keys name = true ↔ listKeys keys [name] ≠ []) := by
  unfold getKey contains
  rcases h : listKeys keys [name] with _ | ⟨a, _ | ⟨b, r⟩⟩ <;> simp

/-- *Partial* (the hypothesis the proof forces): a key `k = common/rel` is selected unambiguously by its listed relative
name `rel` provided no other key ends in `/rel`. Without that hypothesis the statement is false (`ambiguous`, F18). -/
theorem self_select_relative_partial' (keys : List Str) (rel k : Str) (hk : k ∈ keys) (hn : keys.Nodup)
    (hcm : common keys ≠ []) (hrel : k = common keys ++ '/' :: rel) (hw : ∀ c ∈ rel, c ≠ '*' ∧ c ≠ '?')
    (hp : (common keys).isPrefixOf rel = false)
    (huniq : ∀ k' ∈ keys, k' ≠ k → ('/' :: rel).isSuffixOf k' = false) :
    listKeys keys [rel] = [k] := by
  have hpre : prefixed (common keys) rel = '*' :: '/' :: rel := by
    unfold prefixed
    have h0 : (common keys).isEmpty = false := by
      cases hc : common keys with
      | nil => exact absurd hc hcm
      | cons _ _ => rfl
    rw [h0, hp]
    rfl
  rw [listKeys_spec']
  simp only [List.flatMap_cons, List.flatMap_nil, List.append_nil, hpre]
  apply filter_eq_singleton _ k keys hn hk
  · rw [glob_star_suffix' rel k hw, List.isSuffixOf_iff_suffix, hrel]
    exact List.suffix_append _ _
  · intro x hx hne
    have := huniq x hx hne
    cases hg : glob ('*' :: '/' :: rel) x
    · rfl
    · rw [(glob_star_suffix' rel x hw).1 hg] at this
      exact absurd this (by simp)

end Qats.Names
