import Qats.Model.Names
import Mathlib.Tactic
/-!
Main lemmas behind the C09 property theorems (statements fixed by `Qats/Props/C09.lean`).
-/
namespace Qats.Names

/-- The intended effect of `_remove_special_characters` on one character. -/
def escChar (c : Char) : Str :=
  if c == '[' then "[[]".toList else if c == ']' then "[]]".toList else if c == '^' then "[^]".toList
  else if c == '(' then "[(]".toList else if c == ')' then "[)]".toList else [c]

/-- The three-step replacement with the `:[:` detour is, for **every** string, the character-wise escaping. -/
theorem escapeSpecial_eq_flatMap' (s : Str) : escapeSpecial s = s.flatMap escChar := by
  sorry

/-- Escaping makes matching literal: for every pattern `p` and key `k` (any characters), `fnmatch` of the escaped pattern
is shell-style matching in which only `*` and `?` are special — brackets, parentheses and carets are taken literally. -/
theorem escape_literal' (p k : Str) : fnmatch (escapeSpecial p) k = glob p k := by
  sorry

/-- A pattern without `*` and `?` matches exactly itself. -/
theorem glob_literal' (p k : Str) (hp : ∀ c ∈ p, c ≠ '*' ∧ c ≠ '?') : glob p k = true ↔ k = p := by
  sorry

/-- `*/` followed by a wildcard-free text matches exactly the keys ending in `/text`. -/
theorem glob_star_suffix' (r k : Str) (hr : ∀ c ∈ r, c ≠ '*' ∧ c ≠ '?') :
    glob ('*' :: '/' :: r) k = true ↔ ('/' :: r).isSuffixOf k = true := by
  sorry

/-- Listing is complete and ordered: for each pattern in order, the registered keys in registration order matching it. -/
theorem listKeys_spec' (keys names : List Str) :
    listKeys keys names = names.flatMap fun n => keys.filter fun k => glob (prefixed (common keys) n) k := by
  sorry

/-- A normalised path: re-joining its non-empty, non-`.` components gives the path back (no `//`, no trailing `/`,
no `.` components). Registered keys are `abspath(file)/name`. -/
def Normalized (k : Str) : Prop := (if isAbs k then [sep] else []) ++ joinSep (comps k) = k

/-- The common path of two or more normalised keys is a string prefix of every key (so full keys are matched without the
wildcard prefix). -/
theorem common_isPrefix' (keys : List Str) (h2 : 2 ≤ keys.length) (hnorm : ∀ k ∈ keys, Normalized k) (k : Str) (hk : k ∈ keys) :
    (common keys).isPrefixOf k = true := by
  sorry

/-- Every registered key selects itself, and only itself, by its full key (keys without `*`/`?`, pairwise distinct; for a
single key: its directory part must be a prefix of it, which holds for every key `dir/name`). -/
theorem self_select_fullkey' (keys : List Str) (hn : keys.Nodup) (hnorm : ∀ k ∈ keys, Normalized k) (k : Str) (hk : k ∈ keys)
    (hw : ∀ c ∈ k, c ≠ '*' ∧ c ≠ '?') (h1 : keys = [k] → (pathDirname k).isPrefixOf k = true) :
    listKeys keys [k] = [k] ∧ getKey keys k = .ok k ∧ contains keys k = true := by
  sorry

/-- Single retrieval and containment agree with the listing. -/
theorem get_agrees' (keys : List Str) (name : Str) :
    (getKey keys name = .error .lookup ↔ listKeys keys [name] = []) ∧
    (getKey keys name = .error .value ↔ 2 ≤ (listKeys keys [name]).length) ∧
    (∀ k, getKey keys name = .ok k ↔ listKeys keys [name] = [k]) ∧
    (contains keys name = true ↔ listKeys keys [name] ≠ []) := by
  sorry

/-- *Partial* (the hypothesis the proof forces): a key `k = common/rel` is selected unambiguously by its listed relative
name `rel` provided no other key ends in `/rel`. Without that hypothesis the statement is false (`ambiguous`, F18). -/
theorem self_select_relative_partial' (keys : List Str) (rel k : Str) (hk : k ∈ keys) (hn : keys.Nodup)
    (hcm : common keys ≠ []) (hrel : k = common keys ++ '/' :: rel) (hw : ∀ c ∈ rel, c ≠ '*' ∧ c ≠ '?')
    (hp : (common keys).isPrefixOf rel = false)
    (huniq : ∀ k' ∈ keys, k' ≠ k → ('/' :: rel).isSuffixOf k' = false) :
    listKeys keys [rel] = [k] := by
  sorry

end Qats.Names
