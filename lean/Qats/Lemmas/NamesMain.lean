import Qats.Model.Names
import Qats.Lemmas.NamesGlob
import Qats.Lemmas.NamesEscape
import Qats.Lemmas.NamesPath
import Mathlib.Tactic
/-!
Main lemmas behind the C09 property theorems (statements fixed by `Qats/Props/C09.lean`).
-/
namespace Qats.Names

/-- The intended effect of `_remove_special_characters` on one character. -/
def escChar (c : Char) : Str :=
  if c == '[' then "[[]".toList else if c == ']' then "[]]".toList else if c == '^' then "[^]".toList
  else if c == '(' then "[(]".toList else if c == ')' then "[)]".toList else [c]

/-- The three-step replacement with the `:[:` detour is, for **every** string, the character-wise escaping. -/
theorem escapeSpecial_eq_flatMap' (s : Str) : escapeSpecial s = s.flatMap escChar := by
  exact escapeSpecial_eq_flatMap_aux s

/-- Escaping makes matching literal: for every pattern `p` and key `k` (any characters), `fnmatch` of the escaped pattern
is shell-style matching in which only `*` and `?` are special — brackets, parentheses and carets are taken literally. -/
theorem escape_literal' (p k : Str) : fnmatch (escapeSpecial p) k = glob p k := by
  exact escape_literal_aux p k

/-- A pattern without `*` and `?` matches exactly itself. -/
theorem glob_literal' (p k : Str) (hp : ∀ c ∈ p, c ≠ '*' ∧ c ≠ '?') : glob p k = true ↔ k = p := by
  exact glob_literal_aux p hp k

/-- `*/` followed by a wildcard-free text matches exactly the keys ending in `/text`. -/
theorem glob_star_suffix' (r k : Str) (hr : ∀ c ∈ r, c ≠ '*' ∧ c ≠ '?') :
    glob ('*' :: '/' :: r) k = true ↔ ('/' :: r).isSuffixOf k = true := by
  exact glob_star_suffix_aux r k hr

/-- Listing is complete and ordered: for each pattern in order, the registered keys in registration order matching it. -/
theorem listKeys_spec' (keys names : List Str) :
    listKeys keys names = names.flatMap fun n => keys.filter fun k => glob (prefixed (common keys) n) k := by
  unfold listKeys
  simp only [escape_literal']

/-- A normalised path: re-joining its non-empty, non-`.` components gives the path back (no `//`, no trailing `/`,
no `.` components). Registered keys are `abspath(file)/name`. -/
def Normalized (k : Str) : Prop := (if isAbs k then [sep] else []) ++ joinSep (comps k) = k

/-- The common path of two or more normalised keys is a string prefix of every key (so full keys are matched without the
wildcard prefix). -/
theorem common_isPrefix' (keys : List Str) (h2 : 2 ≤ keys.length) (hnorm : ∀ k ∈ keys, Normalized k) (k : Str) (hk : k ∈ keys) :
    (common keys).isPrefixOf k = true := by
  exact common_isPrefix_aux keys h2 hnorm k hk

/-- Every registered key selects itself, and only itself, by its full key (keys without `*`/`?`, pairwise distinct; for a
single key: its directory part must be a prefix of it, which holds for every key `dir/name`). -/
theorem self_select_fullkey' (keys : List Str) (hn : keys.Nodup) (hnorm : ∀ k ∈ keys, Normalized k) (k : Str) (hk : k ∈ keys)
    (hw : ∀ c ∈ k, c ≠ '*' ∧ c ≠ '?') (h1 : keys = [k] → (pathDirname k).isPrefixOf k = true) :
    listKeys keys [k] = [k] ∧ getKey keys k = .ok k ∧ contains keys k = true := by
  have hpre : prefixed (common keys) k = k := by
    unfold prefixed
    split_ifs with h0 hpx
    · rfl
    · rfl
    · exfalso
      apply hpx
      match keys, hk, hnorm, h1 with
      | [a], hk, _, h1 =>
        have hak : k = a := by simpa using hk
        subst hak
        exact h1 rfl
      | a :: b :: r, hk, hnorm, _ =>
        exact common_isPrefix' (a :: b :: r) (by simp) hnorm k hk
  have hl : listKeys keys [k] = [k] := by
    rw [listKeys_spec']
    simp only [List.flatMap_cons, List.flatMap_nil, List.append_nil, hpre]
    apply filter_eq_singleton _ k keys hn hk
    · exact (glob_literal' k k hw).2 rfl
    · intro x _ hne
      cases hg : glob k x
      · rfl
      · exact absurd ((glob_literal' k x hw).1 hg) hne
  refine ⟨hl, ?_, ?_⟩
  · simp [getKey, hl]
  · simp [contains, hl]

/-- Single retrieval and containment agree with the listing. -/
theorem get_agrees' (keys : List Str) (name : Str) :
    (getKey keys name = .error .lookup ↔ listKeys keys [name] = []) ∧
    (getKey keys name = .error .value ↔ 2 ≤ (listKeys keys [name]).length) ∧
    (∀ k, getKey keys name = .ok k ↔ listKeys keys [name] = [k]) ∧
    (contains keys name = true ↔ listKeys keys [name] ≠ []) := by
  unfold getKey contains
  rcases h : listKeys keys [name] with _ | ⟨a, _ | ⟨b, r⟩⟩ <;> simp

/-- *Partial* (the hypothesis the proof forces): a key `k = common/rel` is selected unambiguously by its listed relative
name `rel` provided no other key ends in `/rel`. Without that hypothesis the statement is false (`ambiguous`, F18). -/
theorem self_select_relative_partial' (keys : List Str) (rel k : Str) (hk : k ∈ keys) (hn : keys.Nodup)
    (hcm : common keys ≠ []) (hrel : k = common keys ++ '/' :: rel) (hw : ∀ c ∈ rel, c ≠ '*' ∧ c ≠ '?')
    (hp : (common keys).isPrefixOf rel = false)
    (huniq : ∀ k' ∈ keys, k' ≠ k → ('/' :: rel).isSuffixOf k' = false) :
    listKeys keys [rel] = [k] := by
  have hpre : prefixed (common keys) rel = '*' :: '/' :: rel := by
    unfold prefixed
    have h0 : (common keys).isEmpty = false := by
      cases hc : common keys with
      | nil => exact absurd hc hcm
      | cons _ _ => rfl
    rw [h0, hp]
    rfl
  rw [listKeys_spec']
  simp only [List.flatMap_cons, List.flatMap_nil, List.append_nil, hpre]
  apply filter_eq_singleton _ k keys hn hk
  · rw [glob_star_suffix' rel k hw, List.isSuffixOf_iff_suffix, hrel]
    exact List.suffix_append _ _
  · intro x hx hne
    have := huniq x hx hne
    cases hg : glob ('*' :: '/' :: rel) x
    · rfl
    · rw [(glob_star_suffix' rel x hw).1 hg] at this
      exact absurd this (by simp)

end Qats.Names
