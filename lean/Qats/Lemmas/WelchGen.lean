import Qats.Model.Welch
import Qats.Gen.Formulas
import Qats.Lemmas.RealOps
import Mathlib.Tactic.Ring
import Mathlib.Tactic.FieldSimp
import Mathlib.Tactic.NormNum
import Mathlib.Algebra.Order.Floor.Semifield
import Mathlib.Algebra.Order.Archimedean.Real.Basic
/-!
The hand-written Welch model against the expressions regenerated from the source on every run: the sampling frequency
`signal.psd` hands to `scipy.signal.welch` (`Qats.Gen.psd_fs`, keyword `fs`) and the default segment length of `TimeSeries.psd`
(`Qats.Gen.psd_nperseg_frac`, the argument of `int(...)`).  Proved up to field normalisation.
-/
namespace Qats.Welch
open Qats Qats.Gen

/-- `signal.psd` is scipy's estimator at the sampling frequency written in the source. -/
theorem welch_fs_is_source' (x : List ℝ) (dt : ℝ) (nperseg noverlap nfft : Option Nat) :
    welch x dt nperseg noverlap nfft = welchWith cosTw sinTw hann x (psd_fs dt) nperseg noverlap nfft := by
  have h : (1.0 : ℝ) / dt = psd_fs dt := by
    first
      | rfl
      | (simp only [psd_fs]; norm_num1; first | done | rfl | ring1)
      | (simp only [psd_fs]; by_cases hdt : dt = 0 <;> [simp [hdt]; (field_simp)])
  simp only [welch, h]

/-- The source's sampling frequency is the reciprocal of the time step: a density per Hz. -/
theorem psd_fs_reciprocal' (dt : ℝ) : psd_fs dt = dt⁻¹ := by
  first
    | (simp only [psd_fs]; norm_num1; first | done | ring1 | (rw [one_div]) | (simp only [one_div]))
    | (simp only [psd_fs]; by_cases hdt : dt = 0 <;> [simp [hdt]; (field_simp)])

/-- `int(0.25 * x.size)` (truncation of a non-negative number) is `⌊n/4⌋`, the default of the model. -/
theorem default_nperseg_is_source' (n : Nat) : ⌊psd_nperseg_frac (n : ℝ)⌋₊ = n / 4 := by
  have h : psd_nperseg_frac (n : ℝ) = (n : ℝ) / ((4 : ℕ) : ℝ) := by
    first
      | (simp only [psd_nperseg_frac]; norm_num1; first | done | ring1)
      | (simp only [psd_nperseg_frac]; push_cast; ring1)
  rw [h, Nat.floor_div_eq_div]

end Qats.Welch
