import Qats.Model.Pipeline
import Qats.Lemmas.PipelineGet
import Qats.Lemmas.PipelineInterp
import Qats.Lemmas.PipelineGrid
import Mathlib.Tactic
import Mathlib.Algebra.Order.Floor.Ring
/-!
Main lemmas behind the C11 property theorems (statements fixed by `Qats/Props/C11.lean`).
`α` is any linearly ordered field; exact arithmetic.
-/
namespace Qats.Pipeline
set_option linter.unusedSectionVars false
set_option linter.unusedVariables false
variable {α : Type} [Field α] [LinearOrder α] [IsStrictOrderedRing α]

/-- A rounding function to the nearest integer (Python's `round`; which way ties go is irrelevant here). -/
def IsRound (rnd : α → Int) : Prop := ∀ q : α, |((rnd q : Int) : α) - q| ≤ 1 / 2

/-- Strictly increasing time array. -/
def Increasing (t : List α) : Prop := t.Pairwise (· < ·)

/-! ### window -/

/-- The windowed arrays have equal length and are exactly the sample pairs whose time lies in the closed window, in order. -/
theorem window_spec' (a b : α) (t x : List α) (hl : t.length = x.length) :
    (window a b t x).1.length = (window a b t x).2.length ∧
    List.zip (window a b t x).1 (window a b t x).2 = (List.zip t x).filter (fun p => decide (a ≤ p.1 ∧ p.1 ≤ b)) :=
  ⟨window_len a b t x, window_zip a b t x⟩

/-! ### interpolation -/

theorem interp_at_nodes' (t x : List α) (hl : t.length = x.length) (ht : Increasing t) (i : Nat) (ti xi : α)
    (hti : t[i]? = some ti) (hxi : x[i]? = some xi) : interp t x ti = some xi :=
  interp_nodes t x hl ht i ti xi hti hxi

/-- Between two consecutive nodes the value is the linear interpolant (hence a convex combination of the neighbours). -/
theorem interp_between' (t x : List α) (hl : t.length = x.length) (ht : Increasing t) (i : Nat) (t0 t1 x0 x1 q : α)
    (h0 : t[i]? = some t0) (h1 : t[i + 1]? = some t1) (hx0 : x[i]? = some x0) (hx1 : x[i + 1]? = some x1)
    (hq0 : t0 ≤ q) (hq1 : q ≤ t1) :
    interp t x q = some (x0 + (x1 - x0) / (t1 - t0) * (q - t0)) ∧
      min x0 x1 ≤ x0 + (x1 - x0) / (t1 - t0) * (q - t0) ∧ x0 + (x1 - x0) / (t1 - t0) * (q - t0) ≤ max x0 x1 :=
  ⟨interp_seg t x ht i t0 t1 x0 x1 q h0 h1 hx0 hx1 hq0 hq1,
    lerp_bounds t0 t1 x0 x1 q (pairwise_consecutive t ht i t0 t1 h0 h1) hq0 hq1⟩

/-- No extrapolation: outside `[t₀, t_last]` there is no value (the code raises). -/
theorem interp_outside' (t x : List α) (hl : t.length = x.length) (ht : Increasing t) (lo hi q : α)
    (hlo : t.head? = some lo) (hhi : t.getLast? = some hi) (hq : q < lo ∨ hi < q) : interp t x q = none :=
  hq.elim (fun h => interp_below t x hl lo q hlo h) (fun h => interp_above t x hl ht hi q hhi h)

/-- Inside the span there always is a value. -/
theorem interp_inside' (t x : List α) (hl : t.length = x.length) (ht : Increasing t) (lo hi q : α)
    (hlo : t.head? = some lo) (hhi : t.getLast? = some hi) (h0 : lo ≤ q) (h1 : q ≤ hi) : ∃ v, interp t x q = some v :=
  interp_in t x hl lo hi q hlo hhi h0 h1

/-! ### the resampling grid -/

/-- `new_timearray(t0, t1, d)` for `t0 < t1`, `0 < d` and a span of at least half a step: `k + 1` equidistant points
from `t0` to `t1` where `k = round((t1 − t0)/d)` is the integer closest to the requested number of steps, i.e. the spacing
`(t1 − t0)/k` is the one closest to `d` in the sense `|(t1−t0)/d − k| ≤ 1/2`. -/
theorem grid_spec' (rnd : α → Int) (hr : IsRound rnd) (t0 t1 d : α) (h01 : t0 < t1) (hd : 0 < d)
    (hk : 1 ≤ rnd ((t1 - t0) / d)) :
    let k := (rnd ((t1 - t0) / d)).toNat
    (newTimearray rnd t0 t1 d).length = k + 1 ∧
    (newTimearray rnd t0 t1 d).head? = some t0 ∧ (newTimearray rnd t0 t1 d).getLast? = some t1 ∧
    (∀ i, i ≤ k → (newTimearray rnd t0 t1 d)[i]? = some (t0 + (i : α) * ((t1 - t0) / (k : α)))) ∧
    |((k : Nat) : α) - (t1 - t0) / d| ≤ 1 / 2 :=
  grid_spec_aux rnd hr t0 t1 d hk

/-! ### the pipeline -/

/-- Without options the stored arrays are returned. -/
theorem get_no_options' (rnd : α → Int) (st : Stages α) (t x : List α) :
    get rnd st t x {} = .ok (t, x) :=
  get_no_options_aux rnd st t x

/-- Stage order and the filter's sampling interval: with a window only (uniform series or no filter), the result is
`smooth (filter (t'[1] − t'[0]) (taper x'))` on the windowed arrays `(t', x')`, each stage applied iff requested. -/
theorem get_window_stages' (rnd : α → Int) (st : Stages α) (t x : List α) (a b : α) (tp fl sm : Bool)
    (hc : fl = true → isConstantDt t = true) (t0 t1 : α) (rest : List α)
    (hw : (window a b t x).1 = t0 :: t1 :: rest) :
    get rnd st t x { twin := some (a, b), taper := tp, filter := fl, smooth := sm } =
      .ok ((window a b t x).1,
        (fun v => if sm then st.smooth v else v)
          ((fun v => if fl then st.filter (t1 - t0) v else v)
            ((fun v => if tp then st.taper v else v) (window a b t x).2))) :=
  get_window_stages_aux rnd st t x a b tp fl sm hc t0 t1 rest hw

/-- Resampling to a step after windowing: the grid runs from the first to the last retained sample, the data are the
linear interpolation of the *stored* series on it, then taper → filter (with the grid's spacing) → smooth. -/
theorem get_resample_step_stages' (rnd : α → Int) (st : Stages α) (t x : List α) (tw : Option (α × α)) (d : α)
    (tp fl sm : Bool) (lo hi : α) (g0 g1 : α) (grest xs : List α)
    (hlo : (match tw with | some (a, b) => (window a b t x).1 | none => t).head? = some lo)
    (hhi : (match tw with | some (a, b) => (window a b t x).1 | none => t).getLast? = some hi)
    (hg : newTimearray rnd lo hi d = g0 :: g1 :: grest) (hi' : interpAll t x (g0 :: g1 :: grest) = some xs) :
    get rnd st t x { twin := tw, resample := some (.step d), taper := tp, filter := fl, smooth := sm } =
      .ok (g0 :: g1 :: grest,
        (fun v => if sm then st.smooth v else v)
          ((fun v => if fl then st.filter (g1 - g0) v else v)
            ((fun v => if tp then st.taper v else v) xs))) :=
  get_resample_step_stages_aux rnd st t x tw d tp fl sm lo hi g0 g1 grest xs hlo hhi hg hi'

/-- Resampling to a given array: the returned time is that array, the data its interpolation; outside the stored span
the call fails instead of extrapolating; combining it with a window is refused. -/
theorem get_resample_times' (rnd : α → Int) (st : Stages α) (t x ts : List α) :
    (∀ xs, interpAll t x ts = some xs → get rnd st t x { resample := some (.times ts) } = .ok (ts, xs)) ∧
    (interpAll t x ts = none → get rnd st t x { resample := some (.times ts) } = .error .bounds) ∧
    (∀ a b, get rnd st t x { twin := some (a, b), resample := some (.times ts) } = .error .assertion) :=
  get_resample_times_aux rnd st t x ts

/-- Time and data always have equal length (for stages that keep the length, as taper / filters / smoothing do). -/
theorem get_equal_length' (rnd : α → Int) (st : Stages α) (t x : List α) (o : Opts α) (hl : t.length = x.length)
    (hst : (∀ v, (st.taper v).length = v.length) ∧ (∀ dt v, (st.filter dt v).length = v.length) ∧
      (∀ v, (st.smooth v).length = v.length))
    (t' x' : List α) (h : get rnd st t x o = .ok (t', x')) : t'.length = x'.length :=
  get_equal_length_aux rnd st t x o hl hst t' x' h

/-! ### stand-alone resampling -/

/-- `resample(dt)` on a series of positive duration with `0 < dt ≤ duration` succeeds, and every new time
`start + i·dt` lies inside the original span. (`k = ⌈(end − start)/dt⌉` is `np.arange`'s length.) -/
theorem resample_step_inside' [FloorRing α] (t x : List α) (hl : t.length = x.length) (ht : Increasing t) (lo hi d : α)
    (hlo : t.head? = some lo) (hhi : t.getLast? = some hi) (hd : 0 < d) (hdur : d ≤ hi - lo) :
    (∀ q ∈ arange lo d (Nat.ceil ((hi - lo) / d)), lo ≤ q ∧ q < hi) ∧
    ∃ xs, resampleStep t x d (Nat.ceil ((hi - lo) / d)) = some xs ∧ xs.length = Nat.ceil ((hi - lo) / d) :=
  ⟨arange_inside lo hi d hd, resample_step_aux t x hl lo hi d hlo hhi hd⟩

end Qats.Pipeline
