import Qats.Model.Rebin
import Qats.Lemmas.RebinSums
import Qats.Lemmas.RebinEdges
import Mathlib.Tactic
import Mathlib.Algebra.Order.Floor.Defs
import Mathlib.Algebra.Order.Floor.Ring
/-!
Main lemmas behind the C04 property theorems (statements fixed by `Qats/Props/C04.lean`).
`α` is any linearly ordered field (with floor for the bin-width case); exact arithmetic.
-/
namespace Qats.Rebin
set_option linter.unusedSectionVars false
variable {α : Type} [Field α] [LinearOrder α] [IsStrictOrderedRing α]

/-- Bin edges as every construction of the code produces them: at least two, strictly increasing. -/
def GoodEdges (edges : List α) : Prop := 2 ≤ edges.length ∧ edges.Pairwise (· < ·)

/-- `v` lies within the outer edges. -/
def Covered (edges : List α) (v : α) : Prop :=
  ∃ lo hi, edges.head? = some lo ∧ edges.getLast? = some hi ∧ lo ≤ v ∧ v ≤ hi

/-! ### edges -/

theorem linspace_good' (start stop : α) (n : Nat) (hn : 1 ≤ n) (h : start < stop) :
    GoodEdges (linspaceEdges start stop n) ∧ (linspaceEdges start stop n).head? = some start ∧
      (linspaceEdges start stop n).getLast? = some stop ∧ (linspaceEdges start stop n).length = n + 1 := by
  have hn0 : (0 : α) < (n : α) := by exact_mod_cast hn
  have hd : 0 < (stop - start) / (n : α) := div_pos (sub_pos.2 h) hn0
  obtain ⟨h1, h2, h3, h4⟩ := map_range_props (fun i : Nat => start + (Nat.cast i : α) * ((stop - start) / (Nat.cast n : α))) n
    (by
      intro i j hij
      have : (i : α) < (j : α) := by exact_mod_cast hij
      have := mul_lt_mul_of_pos_right this hd
      linarith)
  refine ⟨⟨?_, h1⟩, ?_, ?_, h4⟩
  · rw [show (linspaceEdges start stop n).length = n + 1 from h4]; omega
  · rw [show (linspaceEdges start stop n).head? = _ from h2]; simp
  · rw [show (linspaceEdges start stop n).getLast? = _ from h3]
    congr 1
    field_simp
    ring

theorem width_good' (start w : α) (k : Nat) (hk : 1 ≤ k) (hw : 0 < w) :
    GoodEdges (widthEdges start w k) ∧ (widthEdges start w k).head? = some start ∧
      (widthEdges start w k).getLast? = some (start + w * k) ∧ (widthEdges start w k).length = k + 1 := by
  obtain ⟨h1, h2, h3, h4⟩ := map_range_props (fun i : Nat => start + w * (Nat.cast i : α)) k
    (by
      intro i j hij
      have : (i : α) < (j : α) := by exact_mod_cast hij
      have := mul_lt_mul_of_pos_left this hw
      linarith)
  refine ⟨⟨?_, h1⟩, ?_, h3, h4⟩
  · rw [show (widthEdges start w k).length = k + 1 from h4]; omega
  · rw [show (widthEdges start w k).head? = _ from h2]; simp

/-- The bin count of `_create_bins(start, stop, w=w)` reaches `stop`. -/
theorem width_covers' [FloorRing α] (start stop w : α) (hw : 0 < w) (h : start ≤ stop) :
    stop ≤ start + w * ((max (Nat.ceil ((stop - start) / w)) 1 : Nat) : α) := by
  have _ := h
  have h1 : (stop - start) / w ≤ ((Nat.ceil ((stop - start) / w) : Nat) : α) := Nat.le_ceil _
  have h2 : ((Nat.ceil ((stop - start) / w) : Nat) : α) ≤ ((max (Nat.ceil ((stop - start) / w)) 1 : Nat) : α) := by
    exact_mod_cast le_max_left _ _
  have h3 := h1.trans h2
  rw [div_le_iff₀ hw] at h3
  linarith

/-! ### containment -/

/-- Every covered value gets the index of the bin whose interval contains it: half-open bins, the last one closed. -/
theorem binIndex_contains' (edges : List α) (hg : GoodEdges edges) (v : α) (hc : Covered edges v) :
    ∃ j lo hi, binIndex edges v = some j ∧ j + 1 < edges.length ∧ edges[j]? = some lo ∧ edges[j + 1]? = some hi ∧
      lo ≤ v ∧ (v < hi ∨ (j + 2 = edges.length ∧ v = hi)) := by
  obtain ⟨hlen, hp⟩ := hg
  obtain ⟨lo0, hi0, hlo0, hhi0, hlov, hvhi⟩ := hc
  have hpre := filter_le_prefix edges hp v
  have hcl := filter_length_le edges v
  rw [List.head?_eq_getElem?, List.getElem?_eq_getElem (by omega)] at hlo0
  rw [List.getLast?_eq_getElem?, List.getElem?_eq_getElem (by omega)] at hhi0
  have hlo0' : edges[0]'(by omega) = lo0 := by simpa using hlo0
  have hhi0' : edges[edges.length - 1]'(by omega) = hi0 := by simpa using hhi0
  have hbi : binIndex edges v = some (if (edges.filter fun e => e ≤ v).length - 1 ≥ edges.length - 1
      then edges.length - 1 - 1 else (edges.filter fun e => e ≤ v).length - 1) := by
    unfold binIndex
    rw [List.head?_eq_getElem?, List.getElem?_eq_getElem (by omega), List.getLast?_eq_getElem?,
      List.getElem?_eq_getElem (by omega)]
    simp only []
    rw [if_neg]
    rw [hlo0', hhi0', not_or, not_lt, not_lt]
    exact ⟨hlov, hvhi⟩
  generalize hcdef : (edges.filter fun e => e ≤ v).length = c at hpre hcl hbi
  have hc1 : 1 ≤ c := by
    have := (hpre 0 (by omega)).1 (by rw [hlo0']; exact hlov)
    omega
  by_cases hcase : c - 1 ≥ edges.length - 1
  · rw [if_pos hcase] at hbi
    have hceq : c = edges.length := by omega
    have hlast : edges[edges.length - 1]'(by omega) ≤ v := (hpre _ (by omega)).2 (by omega)
    have hveq : v = edges[edges.length - 1]'(by omega) := le_antisymm (hhi0' ▸ hvhi) hlast
    have hlt : edges[edges.length - 2]'(by omega) < edges[edges.length - 1]'(by omega) :=
      List.pairwise_iff_getElem.1 hp _ _ (by omega) (by omega) (by omega)
    refine ⟨edges.length - 2, edges[edges.length - 2]'(by omega), edges[edges.length - 1]'(by omega), ?_, by omega, ?_, ?_, ?_,
      Or.inr ⟨by omega, hveq⟩⟩
    · rw [hbi]; congr 1
    · exact List.getElem?_eq_getElem _
    · rw [List.getElem?_eq_getElem (by omega)]
      congr 2; omega
    · rw [hveq]; exact hlt.le
  · rw [if_neg hcase] at hbi
    have hclt : c < edges.length := by omega
    refine ⟨c - 1, edges[c - 1]'(by omega), edges[c]'hclt, hbi, by omega, List.getElem?_eq_getElem _, ?_,
      (hpre _ (by omega)).2 (by omega), Or.inl ?_⟩
    · rw [List.getElem?_eq_getElem (by omega)]
      congr 2; omega
    · exact not_le.1 (fun h => absurd ((hpre c hclt).1 h) (by omega))

/-- … and values outside the outer edges are dropped. -/
theorem binIndex_outside' (edges : List α) (v : α) (h : ¬ Covered edges v) : binIndex edges v = none := by
  unfold binIndex
  split
  · rename_i lo hi hlo hhi
    rw [if_pos]
    by_contra hcon
    rw [not_or, not_lt, not_lt] at hcon
    exact h ⟨lo, hi, hlo, hhi, hcon.1, hcon.2⟩
  · rfl

/-! ### conservation -/

theorem hist_eq (edges vals weights : List α) :
    hist edges vals weights = (List.range (edges.length - 1)).map fun j =>
      ((List.zip vals weights).map fun x => if binIndex edges x.1 == some j then x.2 else 0).sum := by
  unfold hist
  apply List.map_congr_left
  intro j _
  exact sum_filterMap_ite (List.zip vals weights) (fun x => binIndex edges x.1 == some j) (fun x => x.2)

theorem binIndex_lt (edges : List α) (hg : GoodEdges edges) (v : α) (hc : Covered edges v) :
    ∃ j, j < edges.length - 1 ∧ binIndex edges v = some j := by
  obtain ⟨j, _, _, h1, h2, _⟩ := binIndex_contains' edges hg v hc
  exact ⟨j, by omega, h1⟩

/-- The histogram conserves the total weight of the covered values. -/
theorem hist_total' (edges : List α) (hg : GoodEdges edges) (vals weights : List α) (hl : vals.length = weights.length)
    (hc : ∀ v ∈ vals, Covered edges v) : sum (hist edges vals weights) = sum weights := by
  rw [hist_eq, sum_eq, sum_eq]
  rw [sum_cells (List.zip vals weights) (fun x => binIndex edges x.1) (fun x => x.2) (edges.length - 1)]
  · rw [show (fun x : α × α => x.2) = Prod.snd from rfl, List.map_snd_zip (by omega)]
  · intro x hx
    exact binIndex_lt edges hg x.1 (hc _ (List.of_mem_zip hx).1)

theorem hist_length' (edges vals weights : List α) : (hist edges vals weights).length = edges.length - 1 := by
  simp [hist]

/-- A bin that contains no value has weight 0. -/
theorem hist_empty' (edges vals weights : List α) (j : Nat) (hj : j + 1 < edges.length)
    (he : ∀ v ∈ vals, binIndex edges v ≠ some j) : (hist edges vals weights)[j]? = some 0 := by
  rw [hist_eq, List.getElem?_map, List.getElem?_range (by omega)]
  simp only [Option.map_some]
  rw [sum_cell_empty (List.zip vals weights) (fun x => binIndex edges x.1) (fun x => x.2) j]
  intro x hx
  exact he _ (List.of_mem_zip hx).1

theorem zipWith_ignore_left {γ δ ε : Type} (ms : List γ) (l : List δ) (h : δ → ε) (hlen : l.length ≤ ms.length) :
    List.zipWith (fun _ b => h b) ms l = l.map h := by
  induction ms generalizing l with
  | nil =>
    cases l with
    | nil => rfl
    | cons b l => simp at hlen
  | cons m ms ih =>
    cases l with
    | nil => rfl
    | cons b l =>
      simp only [List.zipWith_cons_cons, List.map_cons]
      rw [ih l (by simpa using hlen)]

theorem mids_length (edges : List α) : (mids edges).length = edges.length - 1 := by
  simp [mids]

theorem mids_getElem? (edges : List α) (j : Nat) (lo hi : α) (hlo : edges[j]? = some lo)
    (hhi : edges[j + 1]? = some hi) : (mids edges)[j]? = some ((lo + hi) / 2) := by
  have hj : j + 1 < edges.length := by
    by_contra hcon
    rw [List.getElem?_eq_none (by omega)] at hhi
    exact absurd hhi (by simp)
  unfold mids
  rw [List.getElem?_zipWith, List.getElem?_dropLast, if_pos (by omega), List.getElem?_tail, hlo, hhi]
  simp only [Option.some.injEq]
  norm_num
  ring

theorem mem_zip_of_mem_left {γ δ : Type} (l₁ : List γ) (l₂ : List δ) (hlen : l₁.length ≤ l₂.length) (a : γ)
    (ha : a ∈ l₁) : ∃ b, (a, b) ∈ List.zip l₁ l₂ := by
  obtain ⟨i, hi, rfl⟩ := List.mem_iff_getElem.1 ha
  refine ⟨l₂[i]'(by omega), ?_⟩
  rw [List.mem_iff_getElem]
  refine ⟨i, by simp; omega, ?_⟩
  simp

theorem rebinWith_count (edges p s c : List α) : (rebinWith edges p s c).map (·.count) = hist edges p c := by
  unfold rebinWith
  simp only []
  rw [List.map_zipWith]
  rw [zipWith_ignore_left (mids edges) _ (fun ns : α × α => ns.1)
    (by simp [mids_length, hist_length'])]
  exact List.map_fst_zip (by simp [hist_length'])

theorem ratio_aux (N S : α) (h : 0 < N) :
    N * (if (0 : α) < N then some (S * ((1.0 : α) / N)) else none).getD 0 = S := by
  rw [if_pos h]
  simp only [Option.getD_some]
  have := h.ne'
  norm_num
  field_simp

theorem rebinWith_weighted (edges p s c : List α) (hl : p.length = c.length) (hpos : ∀ x ∈ c, 0 < x) :
    ((rebinWith edges p s c).map fun b => b.count * b.secondary.getD 0) =
      hist edges p (List.zipWith (· * ·) c s) := by
  unfold rebinWith
  simp only []
  rw [List.map_zipWith]
  rw [zipWith_ignore_left (mids edges) _
    (fun ns : α × α => ns.1 * (if (0 : α) < ns.1 then some (ns.2 * ((1.0 : α) / ns.1)) else none).getD 0)
    (by simp [mids_length, hist_length'])]
  rw [hist_eq, hist_eq, List.zip_map', List.map_map]
  apply List.map_congr_left
  intro j _
  simp only [Function.comp]
  by_cases hex : ∃ v ∈ p, binIndex edges v = some j
  · obtain ⟨v, hv, hvj⟩ := hex
    obtain ⟨w, hw⟩ := mem_zip_of_mem_left p c (by omega) v hv
    have hN := sum_cell_pos (List.zip p c) (fun x => binIndex edges x.1) (fun x => x.2) j
      (fun x hx => hpos _ (List.of_mem_zip hx).2) ⟨(v, w), hw, hvj⟩
    exact ratio_aux _ _ hN
  · have hne : ∀ v ∈ p, binIndex edges v ≠ some j := fun v hv h => hex ⟨v, hv, h⟩
    rw [sum_cell_empty (List.zip p c) (fun x => binIndex edges x.1) (fun x => x.2) j
        (fun x hx => hne _ (List.of_mem_zip hx).1),
      sum_cell_empty (List.zip p (List.zipWith (· * ·) c s)) (fun x => binIndex edges x.1) (fun x => x.2) j
        (fun x hx => hne _ (List.of_mem_zip hx).1)]
    simp

/-- Total count and count-weighted sum of the secondary quantity are conserved by `rebinWith` (positive counts). -/
theorem rebinWith_conserves' (edges : List α) (hg : GoodEdges edges) (p s c : List α)
    (hl : p.length = s.length ∧ s.length = c.length) (hpos : ∀ x ∈ c, 0 < x) (hc : ∀ v ∈ p, Covered edges v) :
    sum ((rebinWith edges p s c).map (·.count)) = sum c ∧
    sum ((rebinWith edges p s c).map fun b => b.count * b.secondary.getD 0) = sum (List.zipWith (· * ·) c s) := by
  constructor
  · rw [rebinWith_count, hist_total' edges hg p c (by omega) hc]
  · rw [rebinWith_weighted edges p s c (by omega) hpos,
      hist_total' edges hg p _ (by simp; omega) hc]

/-- Bins report mid-points; an empty bin carries count 0 and no secondary value (nan). -/
theorem rebinWith_shape' (edges : List α) (hg : GoodEdges edges) (p s c : List α) (j : Nat) (hj : j + 1 < edges.length)
    (lo hi : α) (hlo : edges[j]? = some lo) (hhi : edges[j + 1]? = some hi) :
    ∃ b, (rebinWith edges p s c)[j]? = some b ∧ b.primary = (lo + hi) / 2 ∧
      ((∀ v ∈ p, binIndex edges v ≠ some j) → b.count = 0 ∧ b.secondary = none) := by
  have _ := hg
  have hN : ∃ n, (hist edges p c)[j]? = some n := by
    rw [List.getElem?_eq_getElem (by rw [hist_length']; omega)]; exact ⟨_, rfl⟩
  have hS : ∃ n, (hist edges p (List.zipWith (· * ·) c s))[j]? = some n := by
    rw [List.getElem?_eq_getElem (by rw [hist_length']; omega)]; exact ⟨_, rfl⟩
  obtain ⟨n, hn⟩ := hN
  obtain ⟨sw, hsw⟩ := hS
  have hz : (List.zip (hist edges p c) (hist edges p (List.zipWith (· * ·) c s)))[j]? = some (n, sw) :=
    List.getElem?_zip_eq_some.2 ⟨hn, hsw⟩
  refine ⟨⟨(lo + hi) / 2, if (0 : α) < n then some (sw * ((1.0 : α) / n)) else none, n⟩, ?_, rfl, ?_⟩
  · unfold rebinWith
    simp only []
    rw [List.getElem?_zipWith, mids_getElem? edges j lo hi hlo hhi, hz]
  · intro he
    have h0 := hist_empty' edges p c j hj he
    rw [hn] at h0
    have hn0 : n = 0 := by simpa using h0
    subst hn0
    simp

/-- The values of a non-empty list lie between `minOf` and `maxOf`, both attained. -/
theorem minmax_spec' (l : List α) (d : α) (hl : l ≠ []) :
    (∀ v ∈ l, minOf l d ≤ v ∧ v ≤ maxOf l d) ∧ minOf l d ∈ l ∧ maxOf l d ∈ l :=
  ⟨fun v hv => ⟨(minOf_spec l d hl).1 v hv, (maxOf_spec l d hl).1 v hv⟩, (minOf_spec l d hl).2, (maxOf_spec l d hl).2⟩

/-! ### the API: `rebin` by range / by mean, by number of bins / by width -/

/-- A valid cycle table: non-empty, ranges ≥ 0, counts > 0. -/
def ValidTable (t : List (Row α)) : Prop := t ≠ [] ∧ ∀ r ∈ t, 0 ≤ r.range ∧ 0 < r.count

theorem createBins_good [FloorRing α] (a b : α) (hab : a < b) (spec : Spec α)
    (hs : (∃ n, 1 ≤ n ∧ spec = .n n) ∨ (∃ w, 0 < w ∧ spec = .w w (max (Nat.ceil ((b - a) / w)) 1))) :
    GoodEdges (createBins a b spec) ∧ ∀ v, a ≤ v → v ≤ b → Covered (createBins a b spec) v := by
  rcases hs with ⟨n, hn, rfl⟩ | ⟨w, hw, rfl⟩
  · obtain ⟨h1, h2, h3, _⟩ := linspace_good' a b n hn hab
    exact ⟨h1, fun v hav hvb => ⟨a, b, h2, h3, hav, hvb⟩⟩
  · obtain ⟨h1, h2, h3, _⟩ := width_good' a w (max (Nat.ceil ((b - a) / w)) 1) (le_max_right _ _) hw
    exact ⟨h1, fun v hav hvb => ⟨a, _, h2, h3, hav, hvb.trans (width_covers' a b w hw hab.le)⟩⟩

theorem zipWith_mul_map {γ : Type} (t : List γ) (f g : γ → α) :
    List.zipWith (· * ·) (t.map f) (t.map g) = t.map fun r => f r * g r := by
  rw [List.zipWith_map, List.zipWith_self]

theorem zero_lit : (0.0 : α) = 0 := by norm_num

theorem maxOf_ranges_pos (t : List (Row α)) (hpos : ∃ r ∈ t, 0 < r.range) : 0 < maxOf (t.map (·.range)) 0 := by
  obtain ⟨r, hr, hr0⟩ := hpos
  have hne : t.map (·.range) ≠ [] := by
    intro h; rw [List.map_eq_nil_iff] at h; subst h; simp at hr
  exact lt_of_lt_of_le hr0 ((maxOf_spec _ 0 hne).1 _ (List.mem_map_of_mem hr))

/-- Re-binning by range (some positive range) conserves the total count and the count-weighted sum of means, for any
number of bins `n ≥ 1` and any width `w > 0` (with the code's bin count). -/
theorem rebin_range_conserves' [FloorRing α] (t : List (Row α)) (hv : ValidTable t) (hpos : ∃ r ∈ t, 0 < r.range)
    (spec : Spec α)
    (hs : (∃ n, 1 ≤ n ∧ spec = .n n) ∨
      (∃ w, 0 < w ∧ spec = .w w (max (Nat.ceil ((maxOf (t.map (·.range)) 0 - 0) / w)) 1))) :
    sum ((rebin t .range spec).map (·.count)) = sum (t.map (·.count)) ∧
    sum ((rebin t .range spec).map fun b => b.count * b.secondary.getD 0) = sum (t.map fun r => r.count * r.mean) := by
  have hmax := maxOf_ranges_pos t hpos
  have hne : (t.map fun r : Row α => r.range) ≠ [] := by
    intro h; rw [List.map_eq_nil_iff] at h; exact hv.1 h
  obtain ⟨hg, hcov⟩ := createBins_good _ _ hmax spec hs
  have h := rebinWith_conserves' (createBins 0 (maxOf (t.map fun r : Row α => r.range) 0) spec) hg (t.map fun r : Row α => r.range)
    (t.map fun r : Row α => r.mean) (t.map fun r : Row α => r.count) (by simp)
    (by
      intro x hx
      obtain ⟨r, hr, rfl⟩ := List.mem_map.1 hx
      exact (hv.2 r hr).2)
    (by
      intro v hvm
      refine hcov v ?_ ((maxOf_spec _ 0 hne).1 v hvm)
      obtain ⟨r, hr, rfl⟩ := List.mem_map.1 hvm
      exact (hv.2 r hr).1)
  rw [zipWith_mul_map] at h
  have hreb : rebin t .range spec = rebinWith (createBins 0 (maxOf (t.map fun r : Row α => r.range) 0) spec) (t.map fun r : Row α => r.range)
      (t.map fun r : Row α => r.mean) (t.map fun r : Row α => r.count) := by
    unfold rebin
    simp only [zero_lit]
  rw [hreb]
  exact h

/-- Re-binning by mean (at least two distinct means) conserves the total count and the count-weighted sum of ranges. -/
theorem rebin_mean_conserves' [FloorRing α] (t : List (Row α)) (hv : ValidTable t)
    (hdist : minOf (t.map (·.mean)) 0 < maxOf (t.map (·.mean)) 0) (spec : Spec α)
    (hs : (∃ n, 1 ≤ n ∧ spec = .n n) ∨
      (∃ w, 0 < w ∧ spec = .w w (max (Nat.ceil ((maxOf (t.map (·.mean)) 0 - minOf (t.map (·.mean)) 0) / w)) 1))) :
    sum ((rebin t .mean spec).map (·.count)) = sum (t.map (·.count)) ∧
    sum ((rebin t .mean spec).map fun b => b.count * b.secondary.getD 0) = sum (t.map fun r => r.count * r.range) := by
  have hne : (t.map fun r : Row α => r.mean) ≠ [] := by
    intro h; rw [List.map_eq_nil_iff] at h; exact hv.1 h
  obtain ⟨hg, hcov⟩ := createBins_good _ _ hdist spec hs
  have hmm := (minmax_spec' (t.map fun r : Row α => r.mean) 0 hne).1
  have h := rebinWith_conserves' (createBins (minOf (t.map fun r : Row α => r.mean) 0) (maxOf (t.map fun r : Row α => r.mean) 0) spec) hg
    (t.map fun r : Row α => r.mean) (t.map fun r : Row α => r.range) (t.map fun r : Row α => r.count) (by simp)
    (by
      intro x hx
      obtain ⟨r, hr, rfl⟩ := List.mem_map.1 hx
      exact (hv.2 r hr).2)
    (fun v hvm => hcov v (hmm v hvm).1 (hmm v hvm).2)
  rw [zipWith_mul_map] at h
  exact h

/-! ### mesh -/

/-- Range edges of the mesh. -/
def meshRE (t : List (Row α)) (nr : Nat) : List α :=
  linspaceEdges (outer (0.0 : α) (maxOf (t.map (·.range)) 0)).1 (outer (0.0 : α) (maxOf (t.map (·.range)) 0)).2 nr

/-- Mean edges of the mesh. -/
def meshME (t : List (Row α)) (nm : Nat) : List α :=
  linspaceEdges (outer (minOf (t.map (·.mean)) 0) (maxOf (t.map (·.mean)) 0)).1
    (outer (minOf (t.map (·.mean)) 0) (maxOf (t.map (·.mean)) 0)).2 nm

/-- One cell of the mesh as a sum of indicator terms over the table. -/
def cell2 (re me : List α) (t : List (Row α)) (jr jm : Nat) : α :=
  (t.map fun r => if (binIndex re r.range == some jr && binIndex me r.mean == some jm) then r.count else 0).sum

theorem mesh_cm (t : List (Row α)) (nr nm : Nat) :
    (mesh t nr nm).2.2 = (List.range nm).map fun jm => (List.range nr).map fun jr =>
      cell2 (meshRE t nr) (meshME t nm) t jr jm := by
  unfold mesh
  show (List.range nm).map _ = _
  apply List.map_congr_left
  intro jm _
  apply List.map_congr_left
  intro jr _
  have h := sum_filterMap_ite
    (List.zip (List.zip (t.map (·.range)) (t.map (·.mean))) (t.map (·.count)))
    (fun x : (α × α) × α => binIndex (meshRE t nr) x.1.1 == some jr && binIndex (meshME t nm) x.1.2 == some jm)
    (fun x => x.2)
  refine h.trans ?_
  rw [List.zip_map', List.zip_map', List.map_map]
  rfl

theorem map_ne_nil_of_valid (t : List (Row α)) (hv : ValidTable t) (f : Row α → α) : t.map f ≠ [] := by
  intro h; rw [List.map_eq_nil_iff] at h; exact hv.1 h

theorem meshRE_spec (t : List (Row α)) (hv : ValidTable t) (nr : Nat) (hr : 1 ≤ nr) :
    GoodEdges (meshRE t nr) ∧ (meshRE t nr).length = nr + 1 ∧ ∀ r ∈ t, Covered (meshRE t nr) r.range := by
  have hne := map_ne_nil_of_valid t hv (fun r : Row α => r.range)
  have hmax := maxOf_spec (t.map fun r : Row α => r.range) 0 hne
  have h0max : (0.0 : α) ≤ maxOf (t.map fun r : Row α => r.range) 0 := by
    rw [zero_lit]
    obtain ⟨r, hr, hre⟩ := List.mem_map.1 hmax.2
    rw [← hre]; exact (hv.2 r hr).1
  obtain ⟨ho1, ho2, ho3⟩ := outer_spec _ _ h0max
  obtain ⟨h1, h2, h3, h4⟩ := linspace_good' _ _ nr hr ho1
  refine ⟨h1, h4, fun r hrt => ⟨_, _, h2, h3, ?_, ?_⟩⟩
  · exact ho2.trans (by rw [zero_lit]; exact (hv.2 r hrt).1)
  · exact (hmax.1 _ (List.mem_map_of_mem hrt)).trans ho3

theorem meshME_spec (t : List (Row α)) (hv : ValidTable t) (nm : Nat) (hm : 1 ≤ nm) :
    GoodEdges (meshME t nm) ∧ (meshME t nm).length = nm + 1 ∧ ∀ r ∈ t, Covered (meshME t nm) r.mean := by
  have hne := map_ne_nil_of_valid t hv (fun r : Row α => r.mean)
  have hmm := minmax_spec' (t.map fun r : Row α => r.mean) 0 hne
  have hle : minOf (t.map fun r : Row α => r.mean) 0 ≤ maxOf (t.map fun r : Row α => r.mean) 0 :=
    (hmm.1 _ hmm.2.1).2
  obtain ⟨ho1, ho2, ho3⟩ := outer_spec _ _ hle
  obtain ⟨h1, h2, h3, h4⟩ := linspace_good' _ _ nm hm ho1
  refine ⟨h1, h4, fun r hrt => ⟨_, _, h2, h3, ?_, ?_⟩⟩
  · exact ho2.trans (hmm.1 _ (List.mem_map_of_mem hrt)).1
  · exact (hmm.1 _ (List.mem_map_of_mem hrt)).2.trans ho3

theorem meshRE_idx (t : List (Row α)) (hv : ValidTable t) (nr : Nat) (hr : 1 ≤ nr) :
    ∀ r ∈ t, ∃ j, j < nr ∧ binIndex (meshRE t nr) r.range = some j := by
  obtain ⟨hg, hlen, hc⟩ := meshRE_spec t hv nr hr
  intro r hrt
  obtain ⟨j, hj, hb⟩ := binIndex_lt _ hg _ (hc r hrt)
  exact ⟨j, by omega, hb⟩

theorem meshME_idx (t : List (Row α)) (hv : ValidTable t) (nm : Nat) (hm : 1 ≤ nm) :
    ∀ r ∈ t, ∃ j, j < nm ∧ binIndex (meshME t nm) r.mean = some j := by
  obtain ⟨hg, hlen, hc⟩ := meshME_spec t hv nm hm
  intro r hrt
  obtain ⟨j, hj, hb⟩ := binIndex_lt _ hg _ (hc r hrt)
  exact ⟨j, by omega, hb⟩

/-- A histogram of a table column weighted by the counts, entry `j`. -/
theorem hist_table_getD (edges : List α) (t : List (Row α)) (f : Row α → α) (j : Nat) (hj : j < edges.length - 1) :
    (hist edges (t.map f) (t.map fun r : Row α => r.count)).getD j 0 =
      (t.map fun r => if binIndex edges (f r) == some j then r.count else 0).sum := by
  rw [hist_eq, List.getD_eq_getElem?_getD, List.getElem?_map, List.getElem?_range hj]
  simp only [Option.map_some, Option.getD_some]
  rw [List.zip_map', List.map_map]
  rfl

theorem sum_mesh_col (t : List (Row α)) (hv : ValidTable t) (nr nm : Nat) (hm : 1 ≤ nm) (jr : Nat)
    (hjr : jr < nr) :
    sum ((mesh t nr nm).2.2.map fun row => row.getD jr 0) =
      (t.map fun r => if binIndex (meshRE t nr) r.range == some jr then r.count else 0).sum := by
  rw [mesh_cm, sum_eq, List.map_map]
  rw [← sum_cells2_second t (fun r => binIndex (meshRE t nr) r.range) (fun r => binIndex (meshME t nm) r.mean)
    (fun r => r.count) nm jr (meshME_idx t hv nm hm)]
  congr 1
  apply List.map_congr_left
  intro jm _
  simp only [Function.comp, List.getD_eq_getElem?_getD, List.getElem?_map, List.getElem?_range hjr,
    Option.map_some, Option.getD_some]
  rfl

theorem sum_mesh_row (t : List (Row α)) (hv : ValidTable t) (nr nm : Nat) (hr : 1 ≤ nr) (jm : Nat)
    (hjm : jm < nm) :
    sum ((mesh t nr nm).2.2.getD jm []) =
      (t.map fun r => if binIndex (meshME t nm) r.mean == some jm then r.count else 0).sum := by
  rw [mesh_cm, sum_eq]
  rw [← sum_cells2_first t (fun r => binIndex (meshRE t nr) r.range) (fun r => binIndex (meshME t nm) r.mean)
    (fun r => r.count) nr jm (meshRE_idx t hv nr hr)]
  simp only [List.getD_eq_getElem?_getD, List.getElem?_map, List.getElem?_range hjm,
    Option.map_some, Option.getD_some]
  rfl

/-- The mesh has the same total as the table. -/
theorem mesh_total' (t : List (Row α)) (hv : ValidTable t) (nr nm : Nat) (hr : 1 ≤ nr) (hm : 1 ≤ nm) :
    sum ((mesh t nr nm).2.2.map sum) = sum (t.map (·.count)) := by
  have hlen : (mesh t nr nm).2.2.length = nm := by rw [mesh_cm]; simp
  have hrows : (mesh t nr nm).2.2.map sum = (List.range nm).map fun jm =>
      (t.map fun r => if binIndex (meshME t nm) r.mean == some jm then r.count else 0).sum := by
    apply List.ext_getElem?
    intro jm
    by_cases hjm : jm < nm
    · have h := sum_mesh_row t hv nr nm hr jm hjm
      rw [List.getD_eq_getElem?_getD, List.getElem?_eq_getElem (by omega)] at h
      simp only [Option.getD_some] at h
      rw [List.getElem?_map, List.getElem?_eq_getElem (by omega), List.getElem?_map, List.getElem?_range hjm]
      simp only [Option.map_some]
      rw [h]
    · rw [List.getElem?_eq_none (by simp; omega), List.getElem?_eq_none (by simp; omega)]
  rw [hrows, sum_eq, sum_eq]
  exact sum_cells t (fun r => binIndex (meshME t nm) r.mean) (fun r => r.count) nm (meshME_idx t hv nm hm)

/-- Summing the mesh over the mean bins gives the one-dimensional re-binning by range with `nr` bins … -/
theorem mesh_marginal_range' (t : List (Row α)) (hv : ValidTable t) (hpos : ∃ r ∈ t, 0 < r.range) (nr nm : Nat)
    (hr : 1 ≤ nr) (hm : 1 ≤ nm) (jr : Nat) (hjr : jr < nr) :
    sum ((mesh t nr nm).2.2.map fun row => row.getD jr 0) = ((rebin t .range (.n nr)).map (·.count)).getD jr 0 := by
  have hmax : (0.0 : α) < maxOf (t.map fun r : Row α => r.range) 0 := by
    rw [zero_lit]; exact maxOf_ranges_pos t hpos
  have hre : meshRE t nr = linspaceEdges (0.0 : α) (maxOf (t.map fun r : Row α => r.range) 0) nr := by
    unfold meshRE
    rw [outer_of_lt _ _ hmax]
  have hreb : (rebin t .range (.n nr)).map (·.count) =
      hist (meshRE t nr) (t.map fun r : Row α => r.range) (t.map fun r : Row α => r.count) := by
    rw [hre]
    exact rebinWith_count _ _ _ _
  rw [hreb, sum_mesh_col t hv nr nm hm jr hjr, hist_table_getD]
  rw [(meshRE_spec t hv nr hr).2.1]
  omega

/-- … and summing over the range bins gives the re-binning by mean with `nm` bins (two distinct means). -/
theorem mesh_marginal_mean' (t : List (Row α)) (hv : ValidTable t)
    (hdist : minOf (t.map (·.mean)) 0 < maxOf (t.map (·.mean)) 0) (nr nm : Nat)
    (hr : 1 ≤ nr) (hm : 1 ≤ nm) (jm : Nat) (hjm : jm < nm) :
    sum (((mesh t nr nm).2.2.getD jm [])) = ((rebin t .mean (.n nm)).map (·.count)).getD jm 0 := by
  have hme : meshME t nm =
      linspaceEdges (minOf (t.map fun r : Row α => r.mean) 0) (maxOf (t.map fun r : Row α => r.mean) 0) nm := by
    unfold meshME
    rw [outer_of_lt _ _ hdist]
  have hreb : (rebin t .mean (.n nm)).map (·.count) =
      hist (meshME t nm) (t.map fun r : Row α => r.mean) (t.map fun r : Row α => r.count) := by
    rw [hme]
    exact rebinWith_count _ _ _ _
  rw [hreb, sum_mesh_row t hv nr nm hr jm hjm, hist_table_getD]
  rw [(meshME_spec t hv nm hm).2.1]
  omega

end Qats.Rebin
