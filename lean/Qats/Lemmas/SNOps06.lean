import Qats.Model.SN
import Qats.Lemmas.RealOpsSimp
/-!
Bridging lemmas for the formulas that only C06 is about: the generated single-slope closed form of
`minersum_weibull` (`Qats.Gen.sn_mw_single`) and the Goodman–Haigh correction (`Qats.Gen.gh_corrected`) at `α := ℝ`
in ordinary Mathlib notation.  (The bilinear closed form `sn_mw_bilinear`, `sn_mw_x`, `sn_mw_a1`, `sn_mw_a2` is
restated in `SNBilinear.lean`.)  Kept apart from `SNOps.lean` so that C05 does not depend on these formulas.
-/
namespace Qats.SN
open Qats Qats.Gen

theorem mw_single_eq (a1 h m1 q td v0 : ℝ) :
    sn_mw_single a1 h m1 q td v0 = v0 * td * (q ^ m1 / a1) * Real.Gamma (1 + m1 / h) := by
  simp only [sn_mw_single, gamma_real, rpow_real]; sn_norm

set_option linter.unusedTactic false in
set_option linter.unreachableTactic false in
theorem gh_eq (m r uts : ℝ) : gh_corrected m r uts = r * (uts / (uts - m)) := by
  simp only [gh_corrected]
  all_goals sn_norm

end Qats.SN
