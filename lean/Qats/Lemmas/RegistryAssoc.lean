import Qats.Model.Registry
import Mathlib.Tactic
import Mathlib.Data.List.Perm.Basic
import Mathlib.Data.List.Nodup
namespace Qats.Registry
open Qats.Names

section assoc
variable {β : Type}

theorem hasKey_nil (k : Str) : hasKey ([] : List (Str × β)) k = false := rfl

theorem hasKey_cons (p : Str × β) (l : List (Str × β)) (k : Str) :
    hasKey (p :: l) k = (p.1 == k || hasKey l k) := rfl

theorem hasKey_iff (l : List (Str × β)) (k : Str) : hasKey l k = true ↔ k ∈ l.map (·.1) := by
  induction l with
  | nil => simp [hasKey_nil]
  | cons p l ih =>
    rw [hasKey_cons, Bool.or_eq_true, ih, List.map_cons, List.mem_cons, beq_iff_eq]
    exact ⟨fun h => h.imp Eq.symm id, fun h => h.imp Eq.symm id⟩

theorem hasKey_false_iff (l : List (Str × β)) (k : Str) : hasKey l k = false ↔ k ∉ l.map (·.1) := by
  rw [← hasKey_iff]; simp

theorem lookup_nil (k : Str) : lookup ([] : List (Str × β)) k = none := rfl

theorem lookup_cons (p : Str × β) (l : List (Str × β)) (k : Str) :
    lookup (p :: l) k = if p.1 = k then some p.2 else lookup l k := by
  by_cases h : p.1 = k <;> simp [lookup, h]

theorem lookup_isSome_iff (l : List (Str × β)) (k : Str) : (lookup l k).isSome ↔ k ∈ l.map (·.1) := by
  induction l with
  | nil => simp [lookup_nil]
  | cons p l ih =>
    rw [lookup_cons]
    by_cases h : p.1 = k
    · simp [h]
    · simp [h, ih, Ne.symm h]

theorem mem_of_lookup {l : List (Str × β)} {k : Str} {v : β} (h : lookup l k = some v) : (k, v) ∈ l := by
  induction l with
  | nil => simp [lookup_nil] at h
  | cons p l ih =>
    rw [lookup_cons] at h
    split at h
    · rename_i hk
      simp only [Option.some.injEq] at h
      subst hk; subst h; simp
    · exact List.mem_cons_of_mem _ (ih h)

theorem lookup_append (l m : List (Str × β)) (k : Str) :
    lookup (l ++ m) k = (lookup l k).or (lookup m k) := by
  induction l with
  | nil => simp [lookup_nil]
  | cons p l ih =>
    rw [List.cons_append, lookup_cons, lookup_cons, ih]
    split <;> simp

theorem lookup_eq_none_iff (l : List (Str × β)) (k : Str) : lookup l k = none ↔ hasKey l k = false := by
  rw [hasKey_false_iff, ← lookup_isSome_iff]; cases lookup l k <;> simp

theorem lookup_updMap_ne (l : List (Str × β)) {k k' : Str} (v : β) (hne : k' ≠ k) :
    lookup (l.map fun p => if p.1 == k then (k, v) else p) k' = lookup l k' := by
  induction l with
  | nil => rfl
  | cons p l ih =>
    rw [List.map_cons, lookup_cons, lookup_cons, ih]
    by_cases hp : p.1 = k
    · have : ¬ p.1 = k' := fun e => hne (e.symm.trans hp)
      simp [hp, hne.symm]
    · simp [hp]

theorem lookup_updMap_self (l : List (Str × β)) (k : Str) (v : β) (h : hasKey l k = true) :
    lookup (l.map fun p => if p.1 == k then (k, v) else p) k = some v := by
  induction l with
  | nil => simp [hasKey_nil] at h
  | cons p l ih =>
    rw [List.map_cons, lookup_cons]
    rw [hasKey_cons] at h
    by_cases hp : p.1 = k
    · simp [hp]
    · have hb : (p.1 == k) = false := by simpa using hp
      rw [hb, Bool.false_or] at h
      have : (if (p.1 == k) = true then (k, v) else p) = p := by simp [hp]
      rw [this, if_neg hp]
      exact ih h

theorem map_fst_setKey_of_hasKey {l : List (Str × β)} {k : Str} (v : β) (h : hasKey l k = true) :
    (setKey l k v).map (·.1) = l.map (·.1) := by
  simp only [setKey, h, if_true, List.map_map]
  apply List.map_congr_left
  intro p _
  by_cases hp : p.1 = k <;> simp [hp]

theorem map_fst_setKey_of_not {l : List (Str × β)} {k : Str} (v : β) (h : hasKey l k = false) :
    (setKey l k v).map (·.1) = l.map (·.1) ++ [k] := by
  simp [setKey, h]

theorem map_fst_erase (l : List (Str × β)) (k : Str) :
    (erase l k).map (·.1) = (l.map (·.1)).filter (· != k) := by
  simp only [erase, List.filter_map]; rfl

theorem lookup_setKey_self (l : List (Str × β)) (k : Str) (v : β) : lookup (setKey l k v) k = some v := by
  unfold setKey
  split
  · rename_i h
    exact lookup_updMap_self l k v h
  · rename_i h
    rw [Bool.not_eq_true, ← lookup_eq_none_iff] at h
    rw [lookup_append, h]; simp [lookup_cons]

theorem lookup_setKey_ne (l : List (Str × β)) {k k' : Str} (v : β) (hne : k' ≠ k) :
    lookup (setKey l k v) k' = lookup l k' := by
  unfold setKey
  split
  · exact lookup_updMap_ne l v hne
  · rw [lookup_append]; simp [lookup_cons, lookup_nil, hne.symm]

theorem mem_setKey {l : List (Str × β)} {k : Str} {v : β} {p : Str × β} (h : p ∈ setKey l k v) :
    p ∈ l ∨ p = (k, v) := by
  unfold setKey at h
  split at h
  · rw [List.mem_map] at h
    obtain ⟨q, hq, rfl⟩ := h
    split
    · right; rfl
    · left; exact hq
  · simpa using h

end assoc
end Qats.Registry
