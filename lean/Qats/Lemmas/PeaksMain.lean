import Qats.Model.Peaks
import Qats.Lemmas.PreludeSort
import Qats.Lemmas.PeaksSort
import Mathlib.Tactic
/-!
Main lemmas behind the C14 property theorems (statements fixed by `Qats/Props/C14.lean`).
`α` is any linearly ordered field.
-/
namespace Qats.Peaks
set_option linter.unusedSectionVars false
variable {α : Type} [Field α] [LinearOrder α] [IsStrictOrderedRing α]

/-- Sample `i` of `x` is above the mean of `x`. -/
def Above (x : List α) (i : Nat) : Prop := ∃ v, x[i]? = some v ∧ mean x < v

/-- `i` is the position of the global maximum of an excursion above the mean that is closed on both sides:
there are `l ≤ i ≤ r` with all samples `l..r` above the mean, sample `l-1` exists and is not above, sample `r+1` exists
and is not above, `x[i]` is the largest value of `l..r`, and `i` is the first position attaining it. -/
def IsGlobalMax (x : List α) (i : Nat) (v : α) : Prop :=
  x[i]? = some v ∧ ∃ l r, 1 ≤ l ∧ l ≤ i ∧ i ≤ r ∧ r + 1 < x.length ∧
    (∀ k, l ≤ k → k ≤ r → Above x k) ∧ ¬ Above x (l - 1) ∧ ¬ Above x (r + 1) ∧
    (∀ k w, l ≤ k → k < i → x[k]? = some w → w < v) ∧ (∀ k w, i < k → k ≤ r → x[k]? = some w → w ≤ v)

/-- `i` is an interior peak: `x[i-1] ≤ x[i]` and `x[i+1] < x[i]`. -/
def IsLocalMax (x : List α) (i : Nat) (v : α) : Prop :=
  1 ≤ i ∧ ∃ a c, x[i - 1]? = some a ∧ x[i]? = some v ∧ x[i + 1]? = some c ∧ a ≤ v ∧ c < v

/-- Exact characterisation of the global maxima (before threshold and sorting). -/
theorem globalMaxima_spec' (x : List α) (i : Nat) (v : α) : (i, v) ∈ globalMaxima x ↔ IsGlobalMax x i v := by
  exact globalMaxima_mem_iff x i v

/-- The global maxima are reported in time order, one per excursion (positions strictly increasing). -/
theorem globalMaxima_increasing' (x : List α) : (globalMaxima x).Pairwise (fun a b => a.1 < b.1) := by
  exact globalMaxima_pairwise x

/-- Exact characterisation of the local maxima. -/
theorem localMaxima_spec' (x : List α) (i : Nat) (v : α) : (i, v) ∈ localMaxima x ↔ IsLocalMax x i v := by
  exact localMaxima_mem_iff x i v

/-- Every global maximum value is a local maximum of the same excursion (reached through a plateau of that value). -/
theorem global_subset_local' (x : List α) (i : Nat) (v : α) (h : (i, v) ∈ globalMaxima x) :
    ∃ j, i ≤ j ∧ (j, v) ∈ localMaxima x ∧ ∀ k, i ≤ k → k ≤ j → x[k]? = some v := by
  obtain ⟨j, hij, hlm, hpl⟩ := GM_subset_local ((globalMaxima_mem_iff x i v).mp h)
  exact ⟨j, hij, (localMaxima_mem_iff x j v).mpr hlm, hpl⟩

/-- The result of `find_maxima` consists of exactly the raw maxima not below the threshold … -/
theorem findMaxima_mem' (x : List α) (loc : Bool) (thr : Option α) (iv : Nat × α) :
    iv ∈ findMaxima x loc thr ↔
      iv ∈ (if loc then localMaxima x else globalMaxima x) ∧ (∀ t, thr = some t → t ≤ iv.2) := by
  rw [findMaxima_eq, (isort_perm _ _).mem_iff, List.mem_filter, decide_eq_true_iff]

/-- … each with the same multiplicity (a permutation of the filtered list) … -/
theorem findMaxima_perm' (x : List α) (loc : Bool) (thr : Option α) :
    (findMaxima x loc thr).Perm
      ((if loc then localMaxima x else globalMaxima x).filter fun iv => decide (∀ t, thr = some t → t ≤ iv.2)) := by
  rw [findMaxima_eq]
  exact isort_perm _ _

/-- … in ascending order of value, and every reported value is the signal value at the reported position. -/
theorem findMaxima_sorted' (x : List α) (loc : Bool) (thr : Option α) :
    (findMaxima x loc thr).Pairwise (fun a b => a.2 ≤ b.2) ∧ ∀ iv ∈ findMaxima x loc thr, x[iv.1]? = some iv.2 := by
  refine ⟨by rw [findMaxima_eq]; exact isort_pairLe_pairwise _, ?_⟩
  intro iv hiv
  obtain ⟨i, v⟩ := iv
  have hraw := ((findMaxima_mem' x loc thr (i, v)).mp hiv).1
  cases loc with
  | true => exact ((localMaxima_mem_iff x i v).mp hraw).2.choose_spec.choose_spec.2.1
  | false => exact ((globalMaxima_mem_iff x i v).mp hraw).1

/-- A positive affine map of the signal keeps the positions and maps the values (threshold mapped alike). -/
theorem findMaxima_affine' (x : List α) (loc : Bool) (thr : Option α) (a b : α) (ha : 0 < a) :
    findMaxima (x.map fun v => a * v + b) loc (thr.map fun t => a * t + b) =
      (findMaxima x loc thr).map fun iv => (iv.1, a * iv.2 + b) := by
  exact findMaxima_affine_aux x loc thr a b ha

theorem getElem?_map_neg (x : List α) (k : Nat) (w : α) :
    (x.map fun v => -v)[k]? = some w ↔ x[k]? = some (-w) := by
  rw [List.getElem?_map, Option.map_eq_some_iff]
  constructor
  · rintro ⟨u, h, rfl⟩
    rw [neg_neg]; exact h
  · intro h
    exact ⟨-w, h, neg_neg w⟩

/-- Minima are the mirrored maxima of the negated signal: positions are interior troughs / excursion minima below the
mean; stated for the local case as the exact characterisation. -/
theorem findMinima_local_spec' (x : List α) (iv : Nat × α) :
    iv ∈ findMinima x true none ↔
      1 ≤ iv.1 ∧ ∃ a c, x[iv.1 - 1]? = some a ∧ x[iv.1]? = some iv.2 ∧ x[iv.1 + 1]? = some c ∧ iv.2 ≤ a ∧ iv.2 < c := by
  obtain ⟨i, v⟩ := iv
  unfold findMinima
  simp only [List.mem_map, Option.map_none, Prod.mk.injEq]
  constructor
  · rintro ⟨⟨j, w⟩, hjw, rfl, rfl⟩
    have h := (findMaxima_mem' _ true none (j, w)).mp hjw
    obtain ⟨h1, a, c, ha, hw, hc, hle, hlt⟩ := (localMaxima_mem_iff _ j w).mp h.1
    rw [getElem?_map_neg] at ha hw hc
    exact ⟨h1, -a, -c, ha, hw, hc, neg_le_neg hle, neg_lt_neg hlt⟩
  · rintro ⟨h1, a, c, ha, hv, hc, hle, hlt⟩
    refine ⟨(i, -v), ?_, rfl, neg_neg v⟩
    refine (findMaxima_mem' _ true none (i, -v)).mpr ⟨?_, by simp⟩
    refine (localMaxima_mem_iff _ i (-v)).mpr ⟨h1, -a, -c, ?_, ?_, ?_, neg_le_neg hle, neg_lt_neg hlt⟩
    · rw [getElem?_map_neg, neg_neg]; exact ha
    · rw [getElem?_map_neg, neg_neg]; exact hv
    · rw [getElem?_map_neg, neg_neg]; exact hc

/-- Values reported by `findMinima` are the signal values at the reported positions. -/
theorem findMinima_value' (x : List α) (loc : Bool) (thr : Option α) :
    ∀ iv ∈ findMinima x loc thr, x[iv.1]? = some iv.2 := by
  intro iv hiv
  unfold findMinima at hiv
  simp only [List.mem_map] at hiv
  obtain ⟨⟨j, w⟩, hjw, rfl⟩ := hiv
  have h := (findMaxima_sorted' _ _ _).2 (j, w) hjw
  rw [getElem?_map_neg] at h
  exact h

end Qats.Peaks
