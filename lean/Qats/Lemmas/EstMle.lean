import Qats.Lemmas.EstSums
import Mathlib.Analysis.SpecialFunctions.Log.Basic
/-!
The Gumbel / GumbelMin likelihood equations over ℝ, restated with `List.sum`, and the exponential sums under
`x ↦ a·x + b` and `x ↦ -x`.
-/
namespace Qats.Est
open Qats Qats.Dist

theorem zipWith_mul_map (z : List ℝ) (f : ℝ → ℝ) :
    List.zipWith (· * ·) z (z.map f) = z.map fun x => x * f x := by
  induction z with
  | nil => rfl
  | cons x z ih => simp only [List.map_cons, List.zipWith_cons_cons, ih]

theorem gumbelMleEq_eq (loc s : ℝ) (z : List ℝ) :
    gumbelMleEq loc s z =
      (loc + s * Real.log (1 / (z.length : ℝ) * (z.map fun x => Real.exp (-x / s)).sum),
       mean z - (z.map fun x => x * Real.exp (-x / s)).sum / (z.map fun x => Real.exp (-x / s)).sum - s) := by
  simp only [gumbelMleEq, sum_eq, zipWith_mul_map, exp_real, log_real]
  norm_num

theorem gumbelMinMleEq_eq (loc s : ℝ) (z : List ℝ) :
    gumbelMinMleEq loc s z =
      (loc - s * Real.log (1 / (z.length : ℝ) * (z.map fun x => Real.exp (x / s)).sum),
       (z.map fun x => x * Real.exp (x / s)).sum / (z.map fun x => Real.exp (x / s)).sum - mean z - s) := by
  simp only [gumbelMinMleEq, sum_eq, zipWith_mul_map, exp_real, log_real]
  norm_num

/-- A sum of exponentials over a non-empty list is positive. -/
theorem sum_exp_pos (z : List ℝ) (f : ℝ → ℝ) (hz : z ≠ []) : 0 < (z.map fun x => Real.exp (f x)).sum := by
  cases z with
  | nil => exact absurd rfl hz
  | cons x z =>
    rw [List.map_cons, List.sum_cons]
    have h : 0 ≤ (z.map fun x => Real.exp (f x)).sum :=
      List.sum_nonneg fun y hy => by
        obtain ⟨x, _, rfl⟩ := List.mem_map.1 hy
        exact (Real.exp_pos _).le
    linarith [Real.exp_pos (f x)]

/-- `Σ exp(−(a·x + b)/(a·s)) = exp(−b/(a·s))·Σ exp(−x/s)`. -/
theorem sum_exp_affine (z : List ℝ) (a b s : ℝ) (ha : a ≠ 0) :
    ((z.map fun x => a * x + b).map fun y => Real.exp (-y / (a * s))).sum =
      Real.exp (-b / (a * s)) * (z.map fun x => Real.exp (-x / s)).sum := by
  rw [List.map_map, ← sum_map_mul_left']
  congr 1
  refine List.map_congr_left fun x _ => ?_
  simp only [Function.comp]
  rw [← Real.exp_add]
  congr 1
  by_cases hs : s = 0
  · subst hs; simp
  · field_simp
    ring

/-- `Σ (a·x + b)·exp(−(a·x + b)/(a·s)) = exp(−b/(a·s))·(a·Σ x·exp(−x/s) + b·Σ exp(−x/s))`. -/
theorem sum_mul_exp_affine (z : List ℝ) (a b s : ℝ) (ha : a ≠ 0) :
    ((z.map fun x => a * x + b).map fun y => y * Real.exp (-y / (a * s))).sum =
      Real.exp (-b / (a * s)) *
        (a * (z.map fun x => x * Real.exp (-x / s)).sum + b * (z.map fun x => Real.exp (-x / s)).sum) := by
  rw [List.map_map, ← sum_map_mul_left', ← sum_map_mul_left', ← sum_map_add', ← sum_map_mul_left']
  congr 1
  refine List.map_congr_left fun x _ => ?_
  simp only [Function.comp]
  have h : Real.exp (-(a * x + b) / (a * s)) = Real.exp (-b / (a * s)) * Real.exp (-x / s) := by
    rw [← Real.exp_add]
    congr 1
    by_cases hs : s = 0
    · subst hs; simp
    · field_simp
      ring
  rw [h]
  ring

/-- The algebra of the first likelihood equation. -/
theorem mle_first_affine (loc s a b n S0 : ℝ) (ha : a ≠ 0) (hs : s ≠ 0) (hn : 0 < n) (hS : 0 < S0) :
    a * loc + b + a * s * Real.log (1 / n * (Real.exp (-b / (a * s)) * S0)) =
      a * (loc + s * Real.log (1 / n * S0)) := by
  have h1 : (1 / n * (Real.exp (-b / (a * s)) * S0)) = Real.exp (-b / (a * s)) * (1 / n * S0) := by ring
  have h2 : 0 < 1 / n * S0 := by positivity
  rw [h1, Real.log_mul (Real.exp_pos _).ne' h2.ne', Real.log_exp]
  field_simp
  ring

/-- The algebra of the second likelihood equation. -/
theorem mle_second_affine (m s a b K S0 S1 : ℝ) (hK : K ≠ 0) (hS : S0 ≠ 0) :
    (a * m + b) - K * (a * S1 + b * S0) / (K * S0) - a * s = a * (m - S1 / S0 - s) := by
  field_simp
  ring

theorem pair_zero_iff (a u v : ℝ) (ha : a ≠ 0) : ((u, v) : ℝ × ℝ) = (0, 0) ↔ ((a * u, a * v) : ℝ × ℝ) = (0, 0) := by
  simp only [Prod.mk.injEq, mul_eq_zero, ha, false_or]

theorem gumbelMle_equivariant (z : List ℝ) (loc scale a b : ℝ) (ha : 0 < a) (hs : 0 < scale) (hz : z ≠ []) :
    gumbelMleEq loc scale z = (0, 0) ↔
      gumbelMleEq (a * loc + b) (a * scale) (z.map fun x => a * x + b) = (0, 0) := by
  have hS := sum_exp_pos z (fun x => -x / scale) hz
  have hn : 0 < (z.length : ℝ) := by exact_mod_cast List.length_pos_iff.2 hz
  rw [gumbelMleEq_eq, gumbelMleEq_eq, sum_exp_affine z a b scale ha.ne', sum_mul_exp_affine z a b scale ha.ne',
    mean_affine z a b hz, List.length_map,
    mle_first_affine loc scale a b _ _ ha.ne' hs.ne' hn hS,
    mle_second_affine (mean z) scale a b _ _ _ (Real.exp_pos _).ne' hS.ne']
  exact pair_zero_iff a _ _ ha.ne'

theorem min_mirror_mle (z : List ℝ) (loc scale : ℝ) :
    gumbelMinMleEq loc scale z = (0, 0) ↔ gumbelMleEq (-loc) scale (z.map fun x => -x) = (0, 0) := by
  rw [gumbelMinMleEq_eq, gumbelMleEq_eq, mean_neg, List.length_map, List.map_map, List.map_map]
  have h0 : (z.map ((fun x => Real.exp (-x / scale)) ∘ fun x => -x)) = z.map fun x => Real.exp (x / scale) := by
    refine List.map_congr_left fun x _ => ?_
    simp only [Function.comp, neg_neg]
  have h1 : (z.map ((fun x => x * Real.exp (-x / scale)) ∘ fun x => -x)) =
      z.map fun x => (-1) * (x * Real.exp (x / scale)) := by
    refine List.map_congr_left fun x _ => ?_
    simp only [Function.comp, neg_neg]
    ring
  rw [h0, h1, sum_map_mul_left']
  simp only [Prod.mk.injEq]
  constructor
  · rintro ⟨h, h'⟩
    constructor
    · linarith
    · rw [← h']; ring
  · rintro ⟨h, h'⟩
    constructor
    · linarith
    · rw [← h']; ring

end Qats.Est
