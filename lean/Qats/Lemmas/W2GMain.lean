import Qats.Model.Dist
import Qats.Lemmas.RealOps
import Qats.Lemmas.WbOps
import Qats.Lemmas.W2GOps
import Mathlib.Tactic
/-!
Main lemmas behind the C17 property theorems (statements fixed by `Qats/Props/C17.lean`).
All over ℝ, about the generated formulas `Qats.Gen.w2g_*`, `wfw_*` and their relation to `wb_invcdf`, `wb_pdf`.
The generated formulas are only ever accessed through the restating lemmas `*_eq` of `Qats/Lemmas/W2GOps.lean`
(and `wb_invcdf_eq`, `wb_pdf_eq` of `Qats/Lemmas/WbOps.lean`).
-/
namespace Qats.Dist
open Qats Qats.Gen

-- The statements are fixed by `Qats/Props/C17.lean`; some of their hypotheses are not needed.
set_option linter.unusedVariables false

/-! ### C17: Gumbel from Weibull -/

theorem gloc_is_quantile' (loc scale shape n : ℝ) (hn : 1 < n) :
    w2g_loc loc n scale shape = wb_invcdf loc (1 - 1 / n) scale shape := by
  rw [w2g_loc_eq, wb_invcdf_eq, sub_sub_cancel, one_div n, Real.log_inv, neg_neg]

theorem gscale_is_inverse_intensity' (loc scale shape n : ℝ) (hs : 0 < scale) (hc : 0 < shape) (hn : 1 < n) :
    w2g_scale n scale shape = 1 / (n * wb_pdf loc scale shape (w2g_loc loc n scale shape)) := by
  rw [w2g_scale_eq, wb_pdf_eq, w2g_loc_eq]
  have hn0 : 0 < n := by linarith
  have hL : 0 ≤ Real.log n := (Real.log_pos hn).le
  have e : (loc + scale * Real.log n ^ (1 / shape) - loc) / scale = Real.log n ^ shape⁻¹ := by
    rw [one_div]; field_simp; ring
  have e2 : (Real.log n ^ shape⁻¹) ^ (shape - 1) = Real.log n ^ ((shape - 1) / shape) := by
    rw [← Real.rpow_mul hL]; congr 1; field_simp
  rw [e, Real.rpow_inv_rpow hL hc.ne', e2, Real.exp_neg, Real.exp_log hn0]
  congr 1
  field_simp

theorem entry_points_agree' (loc scale shape n : ℝ) (hs : 0 < scale) (hc : 0 < shape) (hn : 1 < n) :
    wfw_loc n loc scale shape = w2g_loc loc n scale shape ∧ wfw_scale n scale shape = w2g_scale n scale shape := by
  have hL : 0 ≤ Real.log n := (Real.log_pos hn).le
  refine ⟨by rw [wfw_loc_eq, w2g_loc_eq], ?_⟩
  rw [wfw_scale_eq, w2g_scale_eq]
  have e : Real.log n ^ ((1 - shape) / shape) = (Real.log n ^ ((shape - 1) / shape))⁻¹ := by
    rw [← Real.rpow_neg hL]; congr 1; ring
  rw [e]
  field_simp

end Qats.Dist
