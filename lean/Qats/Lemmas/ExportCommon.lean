import Qats.Model.Export
import Qats.Lemmas.PipelineMain
import Qats.Lemmas.ExportCheck
import Mathlib.Tactic
import Mathlib.Data.List.Sort
/-!
When does a positive answer of `checkTimeArrays` mean that the processed time arrays are equal?  Lattices, uniform series,
windows and resampling grids; the time component of `Pipeline.get`.
-/
namespace Qats.Export
set_option linter.unusedSectionVars false
set_option linter.unusedVariables false
open Qats.Pipeline (Opts Resample Stages)
variable {α : Type} [Field α] [LinearOrder α] [IsStrictOrderedRing α]

/-! ### `mapM` in `Option` and the summaries -/

theorem mapM_some_forall₂ {β γ : Type} (f : β → Option γ) (l : List β) (r : List γ) (h : l.mapM f = some r) :
    List.Forall₂ (fun a b => f a = some b) l r := by
  induction l generalizing r with
  | nil => simp at h; subst h; exact .nil
  | cons a l ih =>
    rw [List.mapM_cons] at h
    cases ha : f a with
    | none => simp [ha] at h
    | some v =>
      cases hr : l.mapM f with
      | none => simp [ha, hr] at h
      | some r' =>
        simp [ha, hr] at h
        subst h
        exact .cons ha (ih r' hr)

theorem summaries_forall₂ (sel : List (Entry α)) (ss : List (Summary α)) (h : summaries sel = some ss) :
    List.Forall₂ (fun e s => summary e.dtg e.t = some s) sel ss :=
  mapM_some_forall₂ _ sel ss h

theorem forall₂_mem_left {β γ : Type} {R : β → γ → Prop} {l : List β} {r : List γ} (h : List.Forall₂ R l r) (a : β)
    (ha : a ∈ l) : ∃ b ∈ r, R a b := by
  induction h with
  | nil => simp at ha
  | cons hab _ ih =>
    rcases List.mem_cons.mp ha with rfl | ha
    · exact ⟨_, List.mem_cons_self, hab⟩
    · obtain ⟨b, hb, hr⟩ := ih ha
      exact ⟨b, List.mem_cons_of_mem _ hb, hr⟩

theorem summary_spec (dtg : Option Int) (t : List α) (s : Summary α) (h : summary dtg t = some s) :
    t.head? = some s.start ∧ t.getLast? = some s.stop ∧ s.dt = Qats.Pipeline.meanDt t ∧ s.dtg = dtg := by
  unfold summary at h
  split at h
  next a b h1 h2 =>
    simp only [Option.some.injEq] at h
    subst h
    exact ⟨h1, h2, rfl, rfl⟩
  · simp at h

/-- For every selected series: its summary is in `ss`, with start ≤ latest start etc. -/
theorem entry_bounds (sel : List (Entry α)) (ss : List (Summary α)) (h : summaries sel = some ss) (e : Extrema α)
    (he : extrema ss = some e) (en : Entry α) (hen : en ∈ sel) :
    ∃ s : Summary α, s ∈ ss ∧ en.t.head? = some s.start ∧ en.t.getLast? = some s.stop ∧ s.dt = Qats.Pipeline.meanDt en.t ∧
      s.start ≤ e.smax ∧ e.smin ≤ s.start ∧ s.stop ≤ e.emax ∧ e.emin ≤ s.stop ∧ s.dt ≤ e.dmax ∧ e.dmin ≤ s.dt := by
  obtain ⟨s, hs, hsum⟩ := forall₂_mem_left (summaries_forall₂ sel ss h) en hen
  obtain ⟨h1, h2, h3, _⟩ := summary_spec _ _ _ hsum
  obtain ⟨e1, e2, e3, e4, e5, e6⟩ := extrema_spec ss e he
  refine ⟨s, hs, h1, h2, h3, ?_, ?_, ?_, ?_, ?_, ?_⟩
  · exact (maxL_spec _ _ e3).2 _ (List.mem_map.mpr ⟨s, hs, rfl⟩)
  · exact (minL_spec _ _ e4).2 _ (List.mem_map.mpr ⟨s, hs, rfl⟩)
  · exact (maxL_spec _ _ e5).2 _ (List.mem_map.mpr ⟨s, hs, rfl⟩)
  · exact (minL_spec _ _ e6).2 _ (List.mem_map.mpr ⟨s, hs, rfl⟩)
  · exact (maxL_spec _ _ e1).2 _ (List.mem_map.mpr ⟨s, hs, rfl⟩)
  · exact (minL_spec _ _ e2).2 _ (List.mem_map.mpr ⟨s, hs, rfl⟩)

/-! ### lattices -/

/-- Samples `o + (m + i)·d`, `i < n`: `n` consecutive points of the lattice `o + ℕ·d`, starting at index `m`. -/
def lattice (o d : α) (m n : Nat) : List α := (List.range n).map fun i => o + ((m + i : Nat) : α) * d

/-- A uniformly sampled series: `t0 + i·d`, `i < n`. -/
def uniform (t0 d : α) (n : Nat) : List α := (List.range n).map fun i : Nat => t0 + (i : α) * d

theorem uniform_eq_lattice (t0 d : α) (n : Nat) : uniform t0 d n = lattice t0 d 0 n := by
  unfold uniform lattice
  simp

theorem lattice_mem (o d : α) (m n : Nat) (v : α) :
    v ∈ lattice o d m n ↔ ∃ k, m ≤ k ∧ k < m + n ∧ v = o + (k : α) * d := by
  unfold lattice
  simp only [List.mem_map, List.mem_range]
  constructor
  · rintro ⟨i, hi, rfl⟩
    exact ⟨m + i, by omega, by omega, rfl⟩
  · rintro ⟨k, h1, h2, rfl⟩
    exact ⟨k - m, by omega, by rw [Nat.add_sub_cancel' h1]⟩

theorem lattice_pairwise (o d : α) (hd : 0 < d) (m n : Nat) : (lattice o d m n).Pairwise (· < ·) := by
  unfold lattice
  rw [List.pairwise_map]
  refine List.Pairwise.imp ?_ (List.pairwise_lt_range (n := n))
  intro i j hij
  have : ((m + i : Nat) : α) < ((m + j : Nat) : α) := by exact_mod_cast Nat.add_lt_add_left hij m
  nlinarith

theorem lattice_head (o d : α) (m n : Nat) (hn : 1 ≤ n) : (lattice o d m n).head? = some (o + (m : α) * d) := by
  unfold lattice
  rw [List.head?_eq_getElem?, List.getElem?_map, List.getElem?_range (by omega)]
  simp

theorem lattice_last (o d : α) (m n : Nat) (hn : 1 ≤ n) :
    (lattice o d m n).getLast? = some (o + ((m + n - 1 : Nat) : α) * d) := by
  unfold lattice
  rw [List.getLast?_eq_getElem?, List.length_map, List.length_range, List.getElem?_map,
    List.getElem?_range (by omega)]
  simp only [Option.map_some, Option.some.injEq]
  congr 3
  omega

theorem windowT_mem (a b : α) (t : List α) (v : α) : v ∈ windowT a b t ↔ v ∈ t ∧ a ≤ v ∧ v ≤ b := by
  unfold windowT
  simp [List.mem_filter]

theorem windowT_pairwise (a b : α) (t : List α) (h : t.Pairwise (· < ·)) : (windowT a b t).Pairwise (· < ·) :=
  h.sublist List.filter_sublist

/-- `windowT` is the time component of `Pipeline.window`. -/
theorem window_fst (a b : α) (t x : List α) (hl : t.length = x.length) : (Qats.Pipeline.window a b t x).1 = windowT a b t := by
  induction t generalizing x with
  | nil => simp [Qats.Pipeline.window, windowT]
  | cons t0 ts ih =>
    cases x with
    | nil => simp at hl
    | cons x0 xs =>
      simp only [List.length_cons, Nat.add_right_cancel_iff] at hl
      simp only [Qats.Pipeline.window, windowT, List.filter_cons]
      by_cases h : a ≤ t0 ∧ t0 ≤ b
      · simp only [h, and_self, if_true, decide_true]
        rw [ih xs hl]; rfl
      · simp only [h, if_false, decide_false]
        rw [ih xs hl]; rfl

/-- Two series on one lattice: if their starts are equal or the window begins at or after both starts, and their ends are
equal or the window ends at or before both ends, the windowed arrays are equal. -/
theorem window_lattice_eq (o d : α) (hd : 0 < d) (m1 n1 m2 n2 : Nat) (h1 : 1 ≤ n1) (h2 : 1 ≤ n2) (a b : α)
    (hs : m1 = m2 ∨ (o + (m1 : α) * d ≤ a ∧ o + (m2 : α) * d ≤ a))
    (he : m1 + n1 = m2 + n2 ∨ (b ≤ o + ((m1 + n1 - 1 : Nat) : α) * d ∧ b ≤ o + ((m2 + n2 - 1 : Nat) : α) * d)) :
    windowT a b (lattice o d m1 n1) = windowT a b (lattice o d m2 n2) := by
  have key : ∀ (m n m' n' : Nat), 1 ≤ n' →
      (m = m' ∨ o + (m' : α) * d ≤ a) → (m + n = m' + n' ∨ b ≤ o + ((m' + n' - 1 : Nat) : α) * d) →
      ∀ v, v ∈ windowT a b (lattice o d m n) → v ∈ windowT a b (lattice o d m' n') := by
    intro m n m' n' hn' hs he v hv
    rw [windowT_mem, lattice_mem] at hv
    obtain ⟨⟨k, hk1, hk2, rfl⟩, hva, hvb⟩ := hv
    rw [windowT_mem, lattice_mem]
    refine ⟨⟨k, ?_, ?_, rfl⟩, hva, hvb⟩
    · rcases hs with rfl | hs
      · exact hk1
      · have : (m' : α) * d ≤ (k : α) * d := by linarith
        have := le_of_mul_le_mul_right this hd
        exact_mod_cast this
    · rcases he with he | he
      · omega
      · have : (k : α) * d ≤ ((m' + n' - 1 : Nat) : α) * d := by linarith
        have := le_of_mul_le_mul_right this hd
        have : k ≤ m' + n' - 1 := by exact_mod_cast this
        omega
  refine List.Pairwise.eq_of_mem_iff (windowT_pairwise a b _ (lattice_pairwise o d hd m1 n1))
    (windowT_pairwise a b _ (lattice_pairwise o d hd m2 n2)) (fun v => ⟨?_, ?_⟩)
  · exact key m1 n1 m2 n2 h2 (hs.elim Or.inl (fun h => Or.inr h.2)) (he.elim Or.inl (fun h => Or.inr h.2)) v
  · exact key m2 n2 m1 n1 h1 (hs.elim (fun h => Or.inl h.symm) (fun h => Or.inr h.1))
      (he.elim (fun h => Or.inl h.symm) (fun h => Or.inr h.1)) v

theorem lattice_start_inj (o d : α) (hd : 0 < d) (m1 m2 : Nat) (h : o + (m1 : α) * d = o + (m2 : α) * d) : m1 = m2 := by
  have : (m1 : α) * d = (m2 : α) * d := by linarith
  have := mul_right_cancel₀ (ne_of_gt hd) this
  exact_mod_cast this

/-! ### mean step of a uniform series -/

theorem uniform_succ (t0 d : α) (n : Nat) : uniform t0 d (n + 1) = t0 :: uniform (t0 + d) d n := by
  unfold uniform
  rw [List.range_succ_eq_map, List.map_cons, List.map_map]
  simp only [Nat.cast_zero, zero_mul, add_zero, List.cons.injEq, true_and]
  apply List.map_congr_left
  intro i _
  simp only [Function.comp, Nat.cast_succ]
  ring

theorem diffs_uniform (t0 d : α) (n : Nat) : Qats.Pipeline.diffs (uniform t0 d (n + 1)) = List.replicate n d := by
  induction n generalizing t0 with
  | zero => simp [uniform, Qats.Pipeline.diffs]
  | succ n ih =>
    rw [uniform_succ, uniform_succ, Qats.Pipeline.diffs, ← uniform_succ, ih (t0 + d), List.replicate_succ]
    congr 1
    ring

theorem foldl_add_replicate (k : Nat) (d init : α) : (List.replicate k d).foldl (· + ·) init = init + (k : α) * d := by
  induction k generalizing init with
  | zero => simp
  | succ k ih =>
    rw [List.replicate_succ, List.foldl_cons, ih]
    push_cast
    ring

/-- The mean step of a uniformly sampled series with at least two samples is its step. -/
theorem meanDt_uniform (t0 d : α) (n : Nat) (hn : 2 ≤ n) : Qats.Pipeline.meanDt (uniform t0 d n) = d := by
  obtain ⟨k, rfl⟩ : ∃ k, n = k + 1 := ⟨n - 1, by omega⟩
  unfold Qats.Pipeline.meanDt Qats.Pipeline.sum
  rw [diffs_uniform, foldl_add_replicate]
  have hlen : (uniform t0 d (k + 1)).length = k + 1 := by simp [uniform]
  rw [hlen, Nat.add_sub_cancel]
  have hk : (k : α) ≠ 0 := Nat.cast_ne_zero.mpr (by omega)
  field_simp
  ring

theorem uniform_head (t0 d : α) (n : Nat) (hn : 1 ≤ n) : (uniform t0 d n).head? = some t0 := by
  rw [uniform_eq_lattice, lattice_head _ _ _ _ hn]
  simp

theorem uniform_last (t0 d : α) (n : Nat) (hn : 1 ≤ n) : (uniform t0 d n).getLast? = some (t0 + ((n - 1 : Nat) : α) * d) := by
  rw [uniform_eq_lattice, lattice_last _ _ _ _ hn]
  simp

/-! ### the time component of `Pipeline.get` -/

/-- The time array `get` returns: the resampling grid if there is one, else the windowed stored times. -/
theorem get_ok_time (rnd : α → Int) (st : Stages α) (t x : List α) (o : Opts α) (t' x' : List α)
    (h : Qats.Pipeline.get rnd st t x o = .ok (t', x')) :
    (∃ g, Qats.Pipeline.getGrid rnd t (Qats.Pipeline.getWin t x o).1 o = .ok (some g) ∧ t' = g) ∨
      (Qats.Pipeline.getGrid rnd t (Qats.Pipeline.getWin t x o).1 o = .ok none ∧ t' = (Qats.Pipeline.getWin t x o).1) := by
  rw [Qats.Pipeline.get_eq] at h
  have hb : Qats.Pipeline.getBody rnd st t x o = .ok (t', x') := by
    split at h
    · cases h
    · exact h
  unfold Qats.Pipeline.getBody at hb
  obtain ⟨g, hg, hm⟩ := Qats.Pipeline.except_bind_ok _ _ _ hb
  have hfin : ∀ p : List α × List α, Qats.Pipeline.getFin st o p = .ok (t', x') → t' = p.1 := by
    intro p hp
    unfold Qats.Pipeline.getFin at hp
    split at hp
    · split at hp
      · cases hp; rfl
      · cases hp
    · cases hp; rfl
  unfold Qats.Pipeline.getMid at hm
  split at hm
  next ts =>
    left
    refine ⟨ts, hg, ?_⟩
    split at hm
    · exact hfin _ hm
    · cases hm
  · right
    exact ⟨hg, hfin _ hm⟩

/-- Resampling to a step without a window: the returned time array is the grid between the stored start and end. -/
theorem get_step_time (rnd : α → Int) (st : Stages α) (t x : List α) (d : α) (tp fl sm : Bool) (t' x' : List α) (lo hi : α)
    (hlo : t.head? = some lo) (hhi : t.getLast? = some hi)
    (h : Qats.Pipeline.get rnd st t x { resample := some (.step d), taper := tp, filter := fl, smooth := sm } = .ok (t', x')) :
    t' = Qats.Pipeline.newTimearray rnd lo hi d := by
  rcases get_ok_time rnd st t x _ t' x' h with ⟨g, hg, rfl⟩ | ⟨hg, _⟩
  · simp only [Qats.Pipeline.getGrid, Qats.Pipeline.getWin, hlo, hhi] at hg
    cases hg
    rfl
  · simp only [Qats.Pipeline.getGrid, Qats.Pipeline.getWin, hlo, hhi] at hg
    cases hg

/-- A window only (uniform series or no filter): the returned time array is the windowed stored array. -/
theorem get_twin_time (rnd : α → Int) (st : Stages α) (t x : List α) (a b : α) (tp fl sm : Bool) (t' x' : List α)
    (hl : t.length = x.length) (hc : fl = true → Qats.Pipeline.isConstantDt t = true)
    (h : Qats.Pipeline.get rnd st t x { twin := some (a, b), taper := tp, filter := fl, smooth := sm } = .ok (t', x')) :
    t' = windowT a b t := by
  have hcond : (fl && !Qats.Pipeline.isConstantDt t) = false := by
    cases fl <;> simp_all
  rcases get_ok_time rnd st t x _ t' x' h with ⟨g, hg, rfl⟩ | ⟨hg, ht⟩
  · simp only [Qats.Pipeline.getGrid, hcond] at hg
    cases hg
  · rw [ht]
    simp only [Qats.Pipeline.getWin]
    exact window_fst a b t x hl

/-- Resampling to a given array: that array is returned. -/
theorem get_times_time (rnd : α → Int) (st : Stages α) (t x ts : List α) (o : Opts α) (hr : o.resample = some (.times ts))
    (t' x' : List α) (h : Qats.Pipeline.get rnd st t x o = .ok (t', x')) : t' = ts := by
  rcases get_ok_time rnd st t x _ t' x' h with ⟨g, hg, rfl⟩ | ⟨hg, _⟩
  · simp only [Qats.Pipeline.getGrid, hr] at hg
    cases hg
    rfl
  · simp only [Qats.Pipeline.getGrid, hr] at hg
    cases hg

end Qats.Export
