import Qats.Model.Names
import Mathlib.Tactic
/-!
Helper lemmas for `NamesMain`: `commonPrefix`, `joinSep`, `commonpath` is a string prefix of normalised keys.
-/
namespace Qats.Names

theorem commonPrefix_prefix_left : ∀ a b : List Str, commonPrefix a b <+: a
  | [], _ => by simp [commonPrefix]
  | _ :: _, [] => by simp [commonPrefix]
  | x :: as, y :: bs => by
    rw [commonPrefix]
    split_ifs with h
    · exact (List.cons_prefix_cons).2 ⟨rfl, commonPrefix_prefix_left as bs⟩
    · exact List.nil_prefix

theorem commonPrefix_prefix_right : ∀ a b : List Str, commonPrefix a b <+: b
  | [], _ => by simp [commonPrefix]
  | _ :: _, [] => by simp [commonPrefix]
  | x :: as, y :: bs => by
    rw [commonPrefix]
    split_ifs with h
    · have : x = y := by simpa using h
      subst this
      exact (List.cons_prefix_cons).2 ⟨rfl, commonPrefix_prefix_right as bs⟩
    · exact List.nil_prefix

theorem foldl_commonPrefix_prefix (ps : List Str) : ∀ acc : List Str,
    (ps.foldl (fun acc q => commonPrefix acc (comps q)) acc <+: acc) ∧
    ∀ q ∈ ps, ps.foldl (fun acc q => commonPrefix acc (comps q)) acc <+: comps q := by
  induction ps with
  | nil => intro acc; simp
  | cons p ps ih =>
    intro acc
    rw [List.foldl_cons]
    obtain ⟨h1, h2⟩ := ih (commonPrefix acc (comps p))
    refine ⟨h1.trans (commonPrefix_prefix_left _ _), ?_⟩
    intro q hq
    rcases List.mem_cons.1 hq with rfl | hq
    · exact h1.trans (commonPrefix_prefix_right _ _)
    · exact h2 q hq

theorem joinSep_cons_cons (a b : Str) (r : List Str) : joinSep (a :: b :: r) = a ++ sep :: joinSep (b :: r) := by
  rw [joinSep]; simp

theorem joinSep_prefix_of_prefix : ∀ (a l : List Str), a <+: l → joinSep a <+: joinSep l
  | [], _, _ => by simp [joinSep]
  | x :: a, [], h => by simp at h
  | [x], [y], h => by
    have := (List.cons_prefix_cons.1 h).1; subst this; exact List.prefix_refl _
  | [x], y :: z :: l, h => by
    have := (List.cons_prefix_cons.1 h).1; subst this
    rw [joinSep_cons_cons]; simp [joinSep]
  | x :: x' :: a, [y], h => by
    have := (List.cons_prefix_cons.1 h).2; simp at this
  | x :: x' :: a, y :: z :: l, h => by
    obtain ⟨rfl, h'⟩ := List.cons_prefix_cons.1 h
    rw [joinSep_cons_cons, joinSep_cons_cons]
    have := joinSep_prefix_of_prefix (x' :: a) (z :: l) h'
    exact (List.prefix_append_right_inj _).2 ((List.cons_prefix_cons).2 ⟨rfl, this⟩)

/-- Same body as `Normalized` of `NamesMain`. -/
def NormalizedAux (k : Str) : Prop := (if isAbs k then [sep] else []) ++ joinSep (comps k) = k

theorem commonpath_isPrefix (p : Str) (ps : List Str) (hnorm : ∀ k ∈ p :: ps, NormalizedAux k) (k : Str) (hk : k ∈ p :: ps) :
    ((commonpath (p :: ps)).getD []).isPrefixOf k = true := by
  rw [List.isPrefixOf_iff_prefix, commonpath]
  by_cases hall : (ps.all fun q => isAbs q == isAbs p) = true
  · rw [if_pos hall]
    simp only [Option.getD_some]
    obtain ⟨h1, h2⟩ := foldl_commonPrefix_prefix ps (comps p)
    have hkn := hnorm k hk
    unfold NormalizedAux at hkn
    have hc : ps.foldl (fun acc q => commonPrefix acc (comps q)) (comps p) <+: comps k ∧ isAbs k = isAbs p := by
      rcases List.mem_cons.1 hk with rfl | hk'
      · exact ⟨h1, rfl⟩
      · refine ⟨h2 k hk', ?_⟩
        have := List.all_eq_true.1 hall k hk'
        simpa using this
    rw [hc.2] at hkn
    rw [← hkn]
    exact (List.prefix_append_right_inj _).2 (joinSep_prefix_of_prefix _ _ hc.1)
  · rw [if_neg hall]
    exact List.nil_prefix

theorem common_isPrefix_aux (keys : List Str) (h2 : 2 ≤ keys.length) (hnorm : ∀ k ∈ keys, NormalizedAux k) (k : Str) (hk : k ∈ keys) :
    (common keys).isPrefixOf k = true := by
  match keys, h2, hnorm, hk with
  | [], h2, _, _ => simp at h2
  | [_], h2, _, _ => simp at h2
  | a :: b :: r, _, hnorm, hk =>
    have : common (a :: b :: r) = (commonpath (a :: b :: r)).getD [] := rfl
    rw [this]
    exact commonpath_isPrefix a (b :: r) hnorm k hk

end Qats.Names
