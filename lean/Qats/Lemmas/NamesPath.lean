import Qats.Model.Names
import Mathlib.Tactic
/-!
Helper lemmas for `NamesMain`: `commonPrefix`, `joinSep`, `commonpath` is a string prefix of normalised keys.
-/
namespace Qats.Names

theorem commonPrefix_prefix_left : ∀ a b : List Str, commonPrefix a b <+: a
  | [], _ => by simp [commonPrefix]
  | _ :: _, [] => by simp [commonPrefix]
  | x :: as, y :: bs => by
    rw [commonPrefix]
    split_ifs with h
    · exact (List.cons_prefix_cons).2 ⟨rfl, commonPrefix_prefix_left as bs⟩
    · exact List.nil_prefix

theorem commonPrefix_prefix_right : ∀ a b : List Str, commonPrefix a b <+: b
  | [], _ => by simp [commonPrefix]
  | _ :: _, [] => by simp [commonPrefix]
  | x :: as, y :: bs => by
    rw [commonPrefix]
    split_ifs with h
    · have : x = y := by simpa using h
      subst this
      exact (List.cons_prefix_cons).2 ⟨rfl, commonPrefix_prefix_right as bs⟩
    · exact List.nil_prefix

theorem foldl_commonPrefix_prefix (ps : List Str) : ∀ acc : List Str,
    (ps.foldl (fun acc q => commonPrefix acc (comps q)) acc <+: acc) ∧
    ∀ q ∈ ps, ps.foldl (fun acc q => commonPrefix acc (comps q)) acc <+: comps q := by
  induction ps with
  | nil => intro acc; simp
  | cons p ps ih =>
    intro acc
    rw [List.foldl_cons]
    obtain ⟨h1, h2⟩ := ih (commonPrefix acc (comps p))
    refine ⟨h1.trans (commonPrefix_prefix_left _ _), ?_⟩
    intro q hq
    rcases List.mem_cons.1 hq with rfl | hq
    · exact h1.trans (commonPrefix_prefix_right _ _)
    · exact h2 q hq

theorem joinSep_cons_cons (a b : Str) (r : List Str) : joinSep (a :: b :: r) = a ++ sep :: joinSep (b :: r) := by
  rw [joinSep]; simp

theorem joinSep_prefix_of_prefix : ∀ (a l : List Str), a <+: l → joinSep a <+: joinSep l
  | [], _, _ => by simp [joinSep]
  | x :: a, [], h => by simp at h
  | [x], [y], h => by
    have := (List.cons_prefix_cons.1 h).1; subst this; exact List.prefix_refl _
  | [x], y :: z :: l, h => by
    have := (List.cons_prefix_cons.1 h).1; subst this
    rw [joinSep_cons_cons]; simp [joinSep]
  | x :: x' :: a, [y], h => by
    have := (List.cons_prefix_cons.1 h).2; simp at this
  | x :: x' :: a, y :: z :: l, h => by
    obtain ⟨rfl, h'⟩ := List.cons_prefix_cons.1 h
    rw [joinSep_cons_cons, joinSep_cons_cons]
    have := joinSep_prefix_of_prefix (x' :: a) (z :: l) h'
    exact (List.prefix_append_right_inj _).2 ((List.cons_prefix_cons).2 ⟨rfl, this⟩)

/-- Same body as `Normalized` of `NamesMain`. -/
def NormalizedAux (k : Str) : Prop := (if isAbs k then [sep] else []) ++ joinSep (comps k) = k

theorem commonpath_isPrefix (p : Str) (ps : List Str) (hnorm : ∀ k ∈ p :: ps, NormalizedAux k) (k : Str) (hk : k ∈ p :: ps) :
    ((commonpath (p :: ps)).getD []).isPrefixOf k = true := by
  rw [List.isPrefixOf_iff_prefix, commonpath]
  by_cases hall : (ps.all fun q => isAbs q == isAbs p) = true
  · rw [if_pos hall]
    simp only [Option.getD_some]
    obtain ⟨h1, h2⟩ := foldl_commonPrefix_prefix ps (comps p)
    have hkn := hnorm k hk
    unfold NormalizedAux at hkn
    have hc : ps.foldl (fun acc q => commonPrefix acc (comps q)) (comps p) <+: comps k ∧ isAbs k = isAbs p := by
      rcases List.mem_cons.1 hk with rfl | hk'
      · exact ⟨h1, rfl⟩
      · refine ⟨h2 k hk', ?_⟩
        have := List.all_eq_true.1 hall k hk'
        simpa using this
    rw [hc.2] at hkn
    rw [← hkn]
    exact (List.prefix_append_right_inj _).2 (joinSep_prefix_of_prefix _ _ hc.1)
  · rw [if_neg hall]
    exact List.nil_prefix

/-! ### `splitSep` / `joinSep` / `dirname` -/

theorem splitSep_ne_nil : ∀ p : Str, splitSep p ≠ []
  | [] => by simp [splitSep]
  | c :: cs => by
    rw [splitSep]
    cases h : splitSep cs with
    | nil => simp
    | cons a t => by_cases hc : (c == sep) = true <;> simp [hc]

theorem joinSep_cons_of_ne_nil (a : Str) (l : List Str) (hl : l ≠ []) : joinSep (a :: l) = a ++ sep :: joinSep l := by
  cases l with
  | nil => exact absurd rfl hl
  | cons b r => exact joinSep_cons_cons a b r

theorem joinSep_splitSep : ∀ p : Str, joinSep (splitSep p) = p
  | [] => by simp [splitSep, joinSep]
  | c :: cs => by
    have ih := joinSep_splitSep cs
    rw [splitSep]
    cases h : splitSep cs with
    | nil => exact absurd h (splitSep_ne_nil cs)
    | cons a t =>
      rw [h] at ih
      by_cases hc : (c == sep) = true
      · have hcs : c = sep := by simpa using hc
        simp only [hc, if_true]
        rw [joinSep_cons_cons, ih, hcs]; rfl
      · have hc' : (c == sep) = false := by simpa using hc
        simp only [hc', Bool.false_eq_true, if_false]
        cases t with
        | nil => simp only [joinSep] at ih ⊢; rw [ih]
        | cons b r =>
          rw [joinSep_cons_cons] at ih ⊢
          simp [← ih]

theorem joinSep_append (a b : List Str) (ha : a ≠ []) (hb : b ≠ []) :
    joinSep (a ++ b) = joinSep a ++ sep :: joinSep b := by
  induction a with
  | nil => exact absurd rfl ha
  | cons x a ih =>
    cases a with
    | nil =>
      simp only [List.singleton_append]
      rw [joinSep_cons_of_ne_nil x b hb]; simp [joinSep]
    | cons y a =>
      have := ih (by simp)
      rw [List.cons_append, joinSep_cons_of_ne_nil x _ (by simp), this, joinSep_cons_cons]
      simp

theorem mem_takeWhile_pos (q : Char → Bool) : ∀ (l : Str) (x : Char), x ∈ l.takeWhile q → q x = true
  | [], _, h => by simp at h
  | a :: l, x, h => by
    rw [List.takeWhile_cons] at h
    by_cases ha : q a = true
    · rw [if_pos ha] at h
      rcases List.mem_cons.1 h with rfl | h
      · exact ha
      · exact mem_takeWhile_pos q l x h
    · rw [if_neg ha] at h; simp at h

theorem dropTrailingSeps_prefix (p : Str) : dropTrailingSeps p <+: p := by
  unfold dropTrailingSeps
  rw [← List.reverse_suffix, List.reverse_reverse]
  exact List.dropWhile_suffix _

/-- `head = dropTrailingSeps head ++ (separators)`. -/
theorem dropTrailingSeps_append (p : Str) : ∃ t : Str, p = dropTrailingSeps p ++ t ∧ ∀ c ∈ t, c = sep := by
  refine ⟨(p.reverse.takeWhile (· == sep)).reverse, ?_, ?_⟩
  · unfold dropTrailingSeps
    rw [← List.reverse_append, List.takeWhile_append_dropWhile, List.reverse_reverse]
  · intro c hc
    have := mem_takeWhile_pos _ _ _ (List.mem_reverse.1 hc)
    simpa using this

/-- `p = head ++ basename` where `head = p[:i+1]`. -/
theorem splitSep_head_append (p : Str) (h : ¬ (splitSep p).length ≤ 1) :
    p = (joinSep (splitSep p).dropLast ++ [sep]) ++ ((splitSep p).getLast (splitSep_ne_nil p)) := by
  have hne := splitSep_ne_nil p
  have hd : (splitSep p).dropLast ≠ [] := by
    intro h0
    have := congrArg List.length h0
    simp at this; omega
  conv_lhs => rw [← joinSep_splitSep p, ← List.dropLast_append_getLast hne]
  rw [joinSep_append _ _ hd (by simp)]
  simp [joinSep]

theorem dirname_prefix (p : Str) : dirname p <+: p := by
  unfold dirname
  simp only
  split_ifs with h1 h2
  · exact List.nil_prefix
  · exact ⟨_, (splitSep_head_append p h1).symm⟩
  · exact (dropTrailingSeps_prefix _).trans ⟨_, (splitSep_head_append p h1).symm⟩

/-- A directory part that is not made of separators only is followed by a separator. -/
theorem dirname_sep (p : Str) (hd : ¬ (dirname p).all (· == sep) = true) : ∃ rest, p = dirname p ++ sep :: rest := by
  unfold dirname at hd ⊢
  simp only at hd ⊢
  split_ifs at hd ⊢ with h1 h2
  · simp at hd
  · exact absurd h2 hd
  · obtain ⟨t, ht, hsep⟩ := dropTrailingSeps_append (joinSep (splitSep p).dropLast ++ [sep])
    cases t with
    | nil =>
      exfalso
      -- the head ends with a separator, its stripped form does not
      rw [List.append_nil] at ht
      have hlast : (dropTrailingSeps (joinSep (splitSep p).dropLast ++ [sep])).reverse.head? = some sep := by
        rw [← ht]; simp
      unfold dropTrailingSeps at hlast
      rw [List.reverse_reverse] at hlast
      have := List.head?_dropWhile_not (· == sep) (joinSep (splitSep p).dropLast ++ [sep]).reverse
      rw [hlast] at this
      simp at this
    | cons c t =>
      have hc : c = sep := hsep c (by simp)
      subst hc
      refine ⟨t ++ (splitSep p).getLast (splitSep_ne_nil p), ?_⟩
      conv_lhs => rw [splitSep_head_append p h1, ht]
      simp

theorem comps_sep_cons (cs : Str) : comps (sep :: cs) = comps cs := by
  unfold comps
  rw [splitSep]
  cases h : splitSep cs with
  | nil => exact absurd h (splitSep_ne_nil cs)
  | cons a t => simp

theorem comps_all_sep : ∀ s : Str, s.all (· == sep) = true → comps s = []
  | [], _ => by simp [comps, splitSep]
  | c :: cs, h => by
    simp only [List.all_cons, Bool.and_eq_true] at h
    have hc : c = sep := by simpa using h.1
    rw [hc, comps_sep_cons]
    exact comps_all_sep cs h.2

/-- A normalised path made of separators only is empty or the root. -/
theorem normalized_all_sep (d : Str) (hn : NormalizedAux d) (h : d.all (· == sep) = true) : d = [] ∨ d = [sep] := by
  unfold NormalizedAux at hn
  rw [comps_all_sep d h] at hn
  by_cases ha : isAbs d = true
  · right; rw [← hn]; simp [ha, joinSep]
  · left; rw [← hn]; simp [ha, joinSep]

/-- `commonpath` is a *component* prefix of every normalised member. -/
theorem commonpath_compPrefix (p : Str) (ps : List Str) (k : Str) (hk : k ∈ p :: ps) :
    (commonpath (p :: ps)).getD [] = [] ∨
      ∃ c, c <+: comps k ∧ (commonpath (p :: ps)).getD [] = (if isAbs k then [sep] else []) ++ joinSep c := by
  rw [commonpath]
  by_cases hall : (ps.all fun q => isAbs q == isAbs p) = true
  · right
    rw [if_pos hall]
    simp only [Option.getD_some]
    obtain ⟨h1, h2⟩ := foldl_commonPrefix_prefix ps (comps p)
    rcases List.mem_cons.1 hk with rfl | hk'
    · exact ⟨_, h1, rfl⟩
    · refine ⟨_, h2 k hk', ?_⟩
      have := List.all_eq_true.1 hall k hk'
      have : isAbs k = isAbs p := by simpa using this
      rw [this]
  · left
    rw [if_neg hall]; rfl

/-- `_path_dirname(k)` is a string prefix of `k` (the directory part in front of the name; the bracket part never belongs to it). -/
theorem pathDirname_isPrefix (k : Str) : (pathDirname k).isPrefixOf k = true := by
  rw [List.isPrefixOf_iff_prefix]
  unfold pathDirname splitBracket
  exact (dirname_prefix _).trans (List.takeWhile_prefix _)

theorem common_eq_of_two (keys : List Str) (h2 : 2 ≤ keys.length) :
    common keys = (commonpath (keys.map pathDirname)).getD [] := by
  match keys, h2 with
  | a :: b :: r, _ => rfl

/-- Since the F33 repair the common path is the common path of the *directory parts* of the keys. It is a string prefix of
every key whose directory part is normalised. -/
theorem common_isPrefix_aux (keys : List Str) (h2 : 2 ≤ keys.length) (hnorm : ∀ k ∈ keys, NormalizedAux (pathDirname k)) (k : Str)
    (hk : k ∈ keys) : (common keys).isPrefixOf k = true := by
  rw [common_eq_of_two keys h2]
  match keys, h2, hnorm, hk with
  | a :: r, _, hnorm, hk =>
    have hmem : pathDirname k ∈ pathDirname a :: r.map pathDirname := by
      rw [← List.map_cons]; exact List.mem_map_of_mem hk
    have h := commonpath_isPrefix (pathDirname a) (r.map pathDirname)
      (by
        intro d hd
        rw [← List.map_cons] at hd
        obtain ⟨x, hx, rfl⟩ := List.mem_map.1 hd
        exact hnorm x hx) (pathDirname k) hmem
    rw [List.map_cons]
    rw [List.isPrefixOf_iff_prefix] at h ⊢
    exact h.trans (List.isPrefixOf_iff_prefix.1 (pathDirname_isPrefix k))

/-- … and it is a *directory* prefix: every key continues with a separator after it (or the common path is empty, or it is
the root). Before the repair `A [kN/m]` and `A [kN/s]` had the common path `A [kN`, which this statement excludes. -/
theorem common_dirPrefix_aux (keys : List Str) (h2 : 2 ≤ keys.length) (hnorm : ∀ k ∈ keys, NormalizedAux (pathDirname k))
    (k : Str) (hk : k ∈ keys) (hc : common keys ≠ []) (hroot : common keys ≠ [sep]) :
    ∃ rel, k = common keys ++ sep :: rel := by
  rw [common_eq_of_two keys h2] at hc hroot ⊢
  match keys, h2, hnorm, hk, hc, hroot with
  | a :: r, _, hnorm, hk, hc, hroot =>
    rw [List.map_cons] at hc hroot ⊢
    have hmem : pathDirname k ∈ pathDirname a :: r.map pathDirname := by
      rw [← List.map_cons]; exact List.mem_map_of_mem hk
    have hdn := hnorm k hk
    rcases commonpath_compPrefix (pathDirname a) (r.map pathDirname) (pathDirname k) hmem with h0 | ⟨c, hcp, hcm⟩
    · exact absurd h0 hc
    · -- the directory part of `k` is `common` or `common/…`
      have hcne : c ≠ [] := by
        rintro rfl
        rw [hcm] at hc hroot
        by_cases ha : isAbs (pathDirname k) = true <;> simp [ha, joinSep] at hc hroot
      have hdir : ∃ t, pathDirname k = (commonpath (pathDirname a :: r.map pathDirname)).getD [] ++ t ∧
          (t = [] ∨ ∃ t', t = sep :: t') := by
        obtain ⟨t, ht⟩ := hcp
        unfold NormalizedAux at hdn
        rw [hcm]
        cases t with
        | nil =>
          rw [List.append_nil] at ht
          exact ⟨[], by rw [ht, List.append_nil]; exact hdn.symm, Or.inl rfl⟩
        | cons x t =>
          refine ⟨sep :: joinSep (x :: t), ?_, Or.inr ⟨_, rfl⟩⟩
          conv_lhs => rw [← hdn, ← ht, joinSep_append c (x :: t) hcne (by simp)]
          simp
      obtain ⟨t, ht, htc⟩ := hdir
      -- the directory part is not made of separators only
      have hns : ¬ (pathDirname k).all (· == sep) = true := by
        intro hall
        rcases normalized_all_sep _ hdn hall with h | h
        · rw [h] at ht
          exact hc (List.append_eq_nil_iff.1 ht.symm).1
        · rw [h] at ht
          rcases htc with rfl | ⟨t', rfl⟩
          · rw [List.append_nil] at ht; exact hroot ht.symm
          · cases hcm' : (commonpath (pathDirname a :: r.map pathDirname)).getD [] with
            | nil => exact hc hcm'
            | cons y ys => rw [hcm'] at ht; simp at ht
      obtain ⟨rest, hrest⟩ := dirname_sep ((splitBracket k).1) hns
      have hk' : k = pathDirname k ++ sep :: (rest ++ (splitBracket k).2) := by
        have : k = (splitBracket k).1 ++ (splitBracket k).2 := by
          unfold splitBracket; simp
        conv_lhs => rw [this, hrest]
        unfold pathDirname
        simp
      rcases htc with rfl | ⟨t', rfl⟩
      · rw [List.append_nil] at ht
        exact ⟨_, by rw [← ht]; exact hk'⟩
      · refine ⟨t' ++ sep :: (rest ++ (splitBracket k).2), ?_⟩
        conv_lhs => rw [hk', ht]
        simp

end Qats.Names
