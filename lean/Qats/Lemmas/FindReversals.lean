import Qats.Lemmas.Rainflow
import Qats.Model.FindReversals
namespace Qats.FindReversals
open Qats.Rainflow

set_option linter.unusedSectionVars false
variable {α : Type} [Field α] [LinearOrder α] [IsStrictOrderedRing α]

theorem frLoop_eq_revLoop (i : Nat) (a b : α) (rest : List α) (hab : a ≠ b)
    (hc : List.IsChain (· ≠ ·) (b :: rest)) :
    (frLoop i (decide (b < a)) (b :: rest)).map Prod.snd = (revLoop b (b - a) rest).1 := by
  induction rest generalizing i a b with
  | nil => simp [frLoop, revLoop]
  | cons c rest ih =>
    rw [List.isChain_cons_cons] at hc
    obtain ⟨hbc, hc'⟩ := hc
    have hcb : (c == b) = false := by simpa using (Ne.symm hbc)
    simp only [frLoop, revLoop, hcb, Bool.false_eq_true, if_false, List.map_append, ih (i+1) b c hbc hc']
    rcases lt_or_gt_of_ne hab with h1 | h1 <;> rcases lt_or_gt_of_ne hbc with h2 | h2
    · have : ¬ (b - a) * (c - b) < 0 := not_lt.mpr (mul_nonneg (by linarith) (by linarith))
      simp [this, not_lt.mpr h1.le, not_lt.mpr h2.le]
    · have : (b - a) * (c - b) < 0 := mul_neg_of_pos_of_neg (by linarith) (by linarith)
      simp [this, not_lt.mpr h1.le, h2]
    · have : (b - a) * (c - b) < 0 := mul_neg_of_neg_of_pos (by linarith) (by linarith)
      simp [this, h1, not_lt.mpr h2.le]
    · have : ¬ (b - a) * (c - b) < 0 := not_lt.mpr (mul_nonneg_of_nonpos_of_nonpos (by linarith) (by linarith))
      simp [this, h1, h2]

/-- On a signal without plateaus `find_reversals` returns exactly the turning points of `reversals`. -/
theorem findReversals_eq_reversals (x : List α) (h2 : 2 ≤ x.length) (hc : List.IsChain (· ≠ ·) x) :
    reversals false x = some ((findReversals x).map Prod.snd) := by
  match x, h2, hc with
  | a :: b :: rest, _, hc =>
    rw [List.isChain_cons_cons] at hc
    simp [reversals, findReversals, frLoop_eq_revLoop 1 a b rest hc.1 hc.2]

theorem frLoop_index (i : Nat) (prev : Bool) (pre x : List α) (hi : pre.length = i) :
    ∀ p ∈ frLoop i prev x, (pre ++ x)[p.1]? = some p.2 := by
  induction x generalizing i prev pre with
  | nil => simp [frLoop]
  | cons a x ih =>
    cases x with
    | nil => simp [frLoop]
    | cons b rest =>
      intro p hp
      simp only [frLoop, List.mem_append] at hp
      rcases hp with hp | hp
      · split at hp
        · simp at hp; subst hp; simp [← hi]
        · simp at hp
      · have := ih (i+1) _ (pre ++ [a]) (by simp [hi]) p hp
        simpa using this

end Qats.FindReversals
