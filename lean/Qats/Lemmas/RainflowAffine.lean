import Qats.Lemmas.RainflowEqns
import Qats.Lemmas.RainflowSort
namespace Qats.Rainflow
set_option linter.unusedSectionVars false
set_option linter.unnecessarySeqFocus false
variable {α : Type} [Field α] [LinearOrder α] [IsStrictOrderedRing α]

/-- Abstract properties of `x ↦ a·x + b` with `a ≠ 0` used below. -/
structure IsAffine (a b : α) (f : α → α) : Prop where
  ne : a ≠ 0
  sub : ∀ u v, f u - f v = a * (u - v)
  mean : ∀ u v, 1 / 2 * (f u + f v) = a * (1 / 2 * (u + v)) + b

theorem isAffine (a b : α) (ha : a ≠ 0) : IsAffine a b (fun x => a * x + b) :=
  ⟨ha, fun u v => by ring, fun u v => by ring⟩

namespace IsAffine
variable {a b : α} {f : α → α} (hf : IsAffine a b f)
include hf

theorem abs_sub (u v : α) : |f u - f v| = |a| * |u - v| := by rw [hf.sub, abs_mul]

theorem inj {u v : α} : f u = f v ↔ u = v := by
  constructor
  · intro h
    have := hf.sub u v
    rw [h, sub_self] at this
    have := (mul_eq_zero.mp this.symm).resolve_left hf.ne
    exact sub_eq_zero.mp this
  · rintro rfl; rfl

theorem abs_lt (u v u' v' : α) : |f u - f v| < |f u' - f v'| ↔ |u - v| < |u' - v'| := by
  rw [hf.abs_sub, hf.abs_sub]
  exact mul_lt_mul_iff_right₀ (abs_pos.mpr hf.ne)

theorem sign (d u v : α) : (a * d) * (f u - f v) < 0 ↔ d * (u - v) < 0 := by
  have : (a * d) * (f u - f v) = (a * a) * (d * (u - v)) := by rw [hf.sub]; ring
  rw [this]
  have ha2 : 0 < a * a := mul_self_pos.mpr hf.ne
  constructor
  · intro h; by_contra h'
    have := mul_nonneg ha2.le (not_lt.mp h'); linarith
  · intro h; exact mul_neg_of_pos_of_neg ha2 h

theorem revLoop (rest : List α) (x d d' : α) (hd : d' = a * d) :
    revLoop (f x) d' (rest.map f) = ((revLoop x d rest).1.map f, f (revLoop x d rest).2) := by
  subst hd
  induction rest generalizing x d with
  | nil => simp [revLoop_nil]
  | cons xn rest ih =>
    rw [List.map_cons]
    by_cases h : xn = x
    · subst h; rw [revLoop_cons_eq, revLoop_cons_eq]; exact ih xn d
    · have h' : f xn ≠ f x := fun e => h (hf.inj.mp e)
      by_cases h2 : d * (xn - x) < 0
      · rw [revLoop_cons_turn _ _ _ _ h2, revLoop_cons_turn _ _ _ _ ((hf.sign d xn x).mpr h2), hf.sub,
          ih xn (xn - x)]
        simp
      · rw [revLoop_cons_noturn _ _ _ _ h h2,
          revLoop_cons_noturn _ _ _ _ h' (mt (hf.sign d xn x).mp h2), hf.sub, ih xn (xn - x)]

theorem reversals (ep : Bool) (s : List α) :
    reversals ep (s.map f) = (reversals ep s).map (List.map f) := by
  rcases s with _ | ⟨x0, _ | ⟨x1, rest⟩⟩
  · simp [Rainflow.reversals]
  · simp [Rainflow.reversals]
  · simp only [List.map_cons, Rainflow.reversals, Option.map_some]
    rw [hf.revLoop rest x1 (x1 - x0) _ (hf.sub x1 x0)]
    cases ep <;> simp

end IsAffine

/-- image of a cycle -/
def mapCyc' (a b : α) (c : Cyc α) : Cyc α := ⟨|a| * c.range, a * c.mean + b⟩

/-- image of the stack machine output -/
def mapOut (a b : α) (f : α → α) (o : Out α) : Out α :=
  ⟨o.full.map (mapCyc' a b), o.half.map (mapCyc' a b), o.stack.map f⟩

namespace IsAffine
variable {a b : α} {f : α → α} (hf : IsAffine a b f)
include hf

theorem reduce (p : α) (s : List α) : reduce (f p) (s.map f) = mapOut a b f (reduce p s) := by
  fun_induction Rainflow.reduce p s with
  | case1 p2 p3 rest x y h =>
    simp only [x, y, abs'_eq_abs] at h
    rw [List.map_cons, List.map_cons, reduce_of_lt _ _ _ _ ((hf.abs_lt _ _ _ _).mpr h)]
    simp [mapOut]
  | case2 p2 p3 rest x y m h1 h2 =>
    simp only [x, y, abs'_eq_abs] at h1
    simp only [List.isEmpty_iff] at h2
    subst h2
    simp only [List.map_cons, List.map_nil]
    rw [reduce_half _ _ _ (mt (hf.abs_lt _ _ _ _).mp h1)]
    simp only [mapOut, mapCyc', hf.abs_sub, hf.mean, List.map_cons, List.map_nil, y, m, abs'_eq_abs, half_eq]
  | case3 p2 p3 rest x y m h1 h2 o ih =>
    simp only [x, y, abs'_eq_abs] at h1
    simp only [List.isEmpty_iff] at h2
    simp only [List.map_cons]
    rw [reduce_full _ _ _ _ (mt (hf.abs_lt _ _ _ _).mp h1) (by simpa using h2), ih]
    simp only [mapOut, mapCyc', hf.abs_sub, hf.mean, List.map_cons, y, m, o, abs'_eq_abs, half_eq]
  | case4 s h =>
    rcases s with _ | ⟨p2, _ | ⟨p3, rest⟩⟩
    · simp [reduce_nil, mapOut]
    · simp [reduce_single, mapOut]
    · exact absurd rfl (h p2 p3 rest)

theorem feed (st pts : List α) : feed (st.map f) (pts.map f) = mapOut a b f (feed st pts) := by
  induction pts generalizing st with
  | nil => simp [feed_nil, mapOut]
  | cons r rs ih =>
    rw [List.map_cons, feed_cons, feed_cons, hf.reduce]
    have : (mapOut a b f (Rainflow.reduce r st)).stack = (Rainflow.reduce r st).stack.map f := rfl
    rw [this, ih]
    simp [mapOut]

theorem leftovers (s : List α) : leftovers (s.map f) = (leftovers s).map (mapCyc' a b) := by
  induction s with
  | nil => simp [leftovers_nil]
  | cons p s ih =>
    rcases s with _ | ⟨q, s⟩
    · simp [leftovers_single]
    · rw [leftovers_cons_cons, List.map_cons, List.map_cons, leftovers_cons_cons, ← List.map_cons, ih]
      simp only [mapCyc', hf.abs_sub, hf.mean, List.map_cons]

theorem cyclesOfPoints (pts : List α) :
    cyclesOfPoints (pts.map f) =
      ((cyclesOfPoints pts).1.map (mapCyc' a b), (cyclesOfPoints pts).2.map (mapCyc' a b)) := by
  have h := hf.feed [] pts
  simp only [List.map_nil] at h
  simp only [Rainflow.cyclesOfPoints, h, mapOut, hf.leftovers, List.map_append]

theorem cycles (ep : Bool) (s : List α) :
    cycles ep (s.map f) =
      (cycles ep s).map fun fh => (fh.1.map (mapCyc' a b), fh.2.map (mapCyc' a b)) := by
  simp only [Rainflow.cycles, hf.reversals]
  cases Rainflow.reversals ep s with
  | none => rfl
  | some pts => simp [hf.cyclesOfPoints]

end IsAffine

theorem cycles_affine_aux (a b : α) (ha : a ≠ 0) (ep : Bool) (s : List α) :
    cycles ep (s.map fun x => a * x + b) =
      (cycles ep s).map fun fh =>
        (fh.1.map (fun c => (⟨|a| * c.range, a * c.mean + b⟩ : Cyc α)),
         fh.2.map (fun c => (⟨|a| * c.range, a * c.mean + b⟩ : Cyc α))) :=
  (isAffine a b ha).cycles ep s

theorem rowLe_map_pos (a b : α) (ha : 0 < a) (x y : Row α) :
    rowLe (⟨a * x.range, a * x.mean + b, x.count⟩ : Row α) ⟨a * y.range, a * y.mean + b, y.count⟩ = true ↔
      rowLe x y = true := by
  rw [rowLe_iff, rowLe_iff]
  simp only [mul_lt_mul_iff_right₀ ha, add_lt_add_iff_right, mul_right_inj' ha.ne', add_left_inj]

theorem isort_rowLe_map_pos (a b : α) (ha : 0 < a) (l : List (Row α)) :
    isort rowLe (l.map fun r => (⟨a * r.range, a * r.mean + b, r.count⟩ : Row α)) =
      (isort rowLe l).map fun r => ⟨a * r.range, a * r.mean + b, r.count⟩ := by
  rw [isort_eq, isort_eq]
  exact (List.map_insertionSort _ _ _ l (fun x _ y _ => (rowLe_map_pos a b ha x y).symm)).symm

theorem count_affine_pos_aux (a b : α) (ha : 0 < a) (ep : Bool) (s : List α) :
    countCycles ep (s.map fun x => a * x + b) =
      (countCycles ep s).map fun rows => rows.map fun r => ⟨a * r.range, a * r.mean + b, r.count⟩ := by
  unfold countCycles
  rw [cycles_affine_aux a b ha.ne']
  cases cycles ep s with
  | none => rfl
  | some fh =>
    simp only [Option.map_some, abs_of_pos ha]
    rw [← isort_rowLe_map_pos a b ha]
    simp only [tagged, List.map_append, List.map_map]
    rfl

end Qats.Rainflow
