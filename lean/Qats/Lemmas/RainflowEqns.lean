import Qats.Lemmas.Rainflow
namespace Qats.Rainflow
set_option linter.unusedSectionVars false
set_option linter.unnecessarySeqFocus false
variable {α : Type} [Field α] [LinearOrder α] [IsStrictOrderedRing α]

theorem half_eq : (0.5 : α) = 1 / 2 := by norm_num

/-! ### Unfolding equations -/

theorem revLoop_nil (x d : α) : revLoop x d [] = ([], x) := rfl

theorem revLoop_cons_eq (x d : α) (rest : List α) : revLoop x d (x :: rest) = revLoop x d rest := by
  simp [revLoop]

theorem revLoop_cons_turn (x d xn : α) (rest : List α) (h : d * (xn - x) < 0) :
    revLoop x d (xn :: rest) = (x :: (revLoop xn (xn - x) rest).1, (revLoop xn (xn - x) rest).2) := by
  have hne : xn ≠ x := by rintro rfl; simp at h
  simp [revLoop, hne, h]

theorem revLoop_cons_noturn (x d xn : α) (rest : List α) (hne : xn ≠ x) (h : ¬ d * (xn - x) < 0) :
    revLoop x d (xn :: rest) = revLoop xn (xn - x) rest := by
  simp [revLoop, hne, h]

theorem reduce_nil (p : α) : reduce p [] = ⟨[], [], [p]⟩ := rfl
theorem reduce_single (p q : α) : reduce p [q] = ⟨[], [], [p, q]⟩ := rfl

theorem reduce_of_lt (p1 p2 p3 : α) (rest : List α) (h : |p2 - p1| < |p3 - p2|) :
    reduce p1 (p2 :: p3 :: rest) = ⟨[], [], p1 :: p2 :: p3 :: rest⟩ := by
  simp [reduce, h]

theorem reduce_half (p1 p2 p3 : α) (h : ¬ |p2 - p1| < |p3 - p2|) :
    reduce p1 [p2, p3] = ⟨[], [⟨|p3 - p2|, 1 / 2 * (p2 + p3)⟩], [p1, p2]⟩ := by
  simp [reduce, h, half_eq]

theorem reduce_full (p1 p2 p3 : α) (rest : List α) (h : ¬ |p2 - p1| < |p3 - p2|) (hr : rest ≠ []) :
    reduce p1 (p2 :: p3 :: rest) =
      ⟨⟨|p3 - p2|, 1 / 2 * (p2 + p3)⟩ :: (reduce p1 rest).full, (reduce p1 rest).half, (reduce p1 rest).stack⟩ := by
  simp [reduce, h, hr, half_eq]

theorem feed_nil (st : List α) : feed st [] = ⟨[], [], st⟩ := rfl
theorem feed_cons (st : List α) (r : α) (rs : List α) :
    feed st (r :: rs) = ⟨(reduce r st).full ++ (feed (reduce r st).stack rs).full,
      (reduce r st).half ++ (feed (reduce r st).stack rs).half, (feed (reduce r st).stack rs).stack⟩ := rfl

theorem leftovers_cons_cons (p1 p2 : α) (rest : List α) :
    leftovers (p1 :: p2 :: rest) = ⟨|p2 - p1|, 1 / 2 * (p1 + p2)⟩ :: leftovers (p2 :: rest) := by
  simp [leftovers, half_eq]
theorem leftovers_nil : leftovers ([] : List α) = [] := rfl
theorem leftovers_single (p : α) : leftovers [p] = [] := rfl

end Qats.Rainflow
