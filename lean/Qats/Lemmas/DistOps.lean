import Qats.Model.Dist
import Qats.Lemmas.RealOpsSimp
import Qats.Lemmas.WbOps
/-!
Bridging lemmas for the distribution formulas (C15): the generated `Qats.Gen.wb_*`, `gu_*`, `gm_*`, `ecdf_*` at
`α := ℝ` in ordinary Mathlib notation.  These are the *only* lemmas whose proofs look at the syntactic shape of
these generated formulas; every other lemma of `Dist*.lean` is proved from the right-hand sides stated here.
Each proof is "unfold, normalise literals, normalise ring structure".

The generic `TranscOps ℝ` simp lemmas and the `dist_norm` tactic are in `RealOpsSimp.lean`; `wb_pdf_eq` and
`wb_invcdf_eq` (used by C15 and by C17) are in `WbOps.lean`; the Gumbel-from-Weibull formulas (`w2g_*`, `wfw_*`, C17)
are restated in `W2GOps.lean`.
-/
namespace Qats.Dist
open Qats Qats.Gen

-- Every bridging proof is written `simp only [defs] <;> dist_norm` so that it keeps working whether or not the
-- unfolding already closes the goal; the style linters below would flag exactly that robustness.
set_option linter.unusedTactic false
set_option linter.unreachableTactic false
set_option linter.unnecessarySeqFocus false

/-! ### Weibull -/

theorem wb_cdf_eq (loc scale shape x : ℝ) :
    wb_cdf loc scale shape x = 1 - Real.exp (-((x - loc) / scale) ^ shape) := by
  simp only [wb_cdf, exp_real, rpow_real] <;> dist_norm

theorem wb_mean_eq (loc scale shape : ℝ) :
    wb_mean loc scale shape = loc + scale * Real.Gamma (1 + 1 / shape) := by
  simp only [wb_mean, gamma_real] <;> dist_norm

theorem wb_std_eq (scale shape : ℝ) :
    wb_std scale shape =
      scale * Real.sqrt (Real.Gamma (1 + 2 / shape) - Real.Gamma (1 + 1 / shape) ^ 2) := by
  simp only [wb_std, gamma_real, sqrt_real] <;> dist_norm

theorem wb_skew_eq (shape : ℝ) :
    wb_skew shape =
      (Real.Gamma (1 + 3 / shape) - 3 * Real.Gamma (1 + 1 / shape) * Real.Gamma (1 + 2 / shape)
          + 2 * Real.Gamma (1 + 1 / shape) ^ 3) /
        (Real.Gamma (1 + 2 / shape) - Real.Gamma (1 + 1 / shape) ^ 2) ^ (3 / 2 : ℝ) := by
  simp only [wb_skew, gamma_real, rpow_real] <;> dist_norm

theorem wb_kurt_eq (shape : ℝ) :
    wb_kurt shape =
      (Real.Gamma (1 + 4 / shape) - 4 * Real.Gamma (1 + 1 / shape) * Real.Gamma (1 + 3 / shape)
          + 6 * Real.Gamma (1 + 1 / shape) ^ 2 * Real.Gamma (1 + 2 / shape)
          - 3 * Real.Gamma (1 + 1 / shape) ^ 4) /
        (Real.Gamma (1 + 2 / shape) - Real.Gamma (1 + 1 / shape) ^ 2) ^ 2 := by
  simp only [wb_kurt, gamma_real] <;> dist_norm

/-! ### Gumbel (maxima) -/

theorem gu_cdf_eq (loc scale x : ℝ) :
    gu_cdf loc scale x = Real.exp (-Real.exp (-((x - loc) / scale))) := by
  simp only [gu_cdf, exp_real] <;> dist_norm

theorem gu_pdf_eq (loc scale x : ℝ) :
    gu_pdf loc scale x =
      1 / scale * Real.exp (-((x - loc) / scale) - Real.exp (-((x - loc) / scale))) := by
  simp only [gu_pdf, exp_real] <;> dist_norm

theorem gu_invcdf_eq (loc p scale : ℝ) :
    gu_invcdf loc p scale = loc - scale * Real.log (-Real.log p) := by
  simp only [gu_invcdf, log_real] <;> dist_norm

theorem gu_median_eq (loc scale : ℝ) :
    gu_median loc scale = loc - scale * Real.log (Real.log 2) := by
  simp only [gu_median, log_real] <;> dist_norm

theorem gu_mode_eq (loc : ℝ) : gu_mode loc = loc := by
  simp only [gu_mode] <;> dist_norm

/-! ### Gumbel (minima) -/

theorem gm_cdf_eq (loc scale x : ℝ) :
    gm_cdf loc scale x = 1 - Real.exp (-Real.exp ((x - loc) / scale)) := by
  simp only [gm_cdf, exp_real] <;> dist_norm

theorem gm_pdf_eq (loc scale x : ℝ) :
    gm_pdf loc scale x = 1 / scale * Real.exp ((x - loc) / scale - Real.exp ((x - loc) / scale)) := by
  simp only [gm_pdf, exp_real] <;> dist_norm

theorem gm_invcdf_eq (loc p scale : ℝ) :
    gm_invcdf loc p scale = loc + scale * Real.log (-Real.log (1 - p)) := by
  simp only [gm_invcdf, log_real] <;> dist_norm

theorem gm_median_eq (loc scale : ℝ) :
    gm_median loc scale = loc + scale * Real.log (Real.log 2) := by
  simp only [gm_median, log_real] <;> dist_norm

theorem gm_mode_eq (loc : ℝ) : gm_mode loc = loc := by
  simp only [gm_mode] <;> dist_norm

/-- The two means are mirror images (whatever literal is used for the Euler–Mascheroni constant). -/
theorem gm_mean_mirror (loc scale : ℝ) : gm_mean loc scale = -gu_mean (-loc) scale := by
  simp only [gm_mean, gu_mean] <;> dist_norm

theorem gm_std_mirror (scale : ℝ) : gm_std scale = gu_std scale := by
  simp only [gm_std, gu_std] <;> dist_norm

theorem gm_skew_mirror : (gm_skew : ℝ) = -gu_skew := by
  simp only [gm_skew, gu_skew] <;> dist_norm

theorem gm_kurt_mirror : (gm_kurt : ℝ) = gu_kurt := by
  simp only [gm_kurt, gu_kurt] <;> dist_norm

/-! ### plotting positions -/

theorem ecdf_mean_eq (i n : ℝ) : ecdf_mean i n = i / (n + 1) := by
  simp only [ecdf_mean] <;> dist_norm

theorem ecdf_median_eq (i n : ℝ) : ecdf_median i n = (i - 3 / 10) / (n + 2 / 5) := by
  simp only [ecdf_median] <;> dist_norm

theorem ecdf_symmetrical_eq (i n : ℝ) : ecdf_symmetrical i n = (i - 1 / 2) / n := by
  simp only [ecdf_symmetrical] <;> dist_norm

theorem ecdf_beard_eq (i n : ℝ) : ecdf_beard i n = (i - 31 / 100) / (n + 19 / 50) := by
  simp only [ecdf_beard] <;> dist_norm

theorem ecdf_gringorten_eq (i n : ℝ) : ecdf_gringorten i n = (i - 11 / 25) / (n + 3 / 25) := by
  simp only [ecdf_gringorten] <;> dist_norm

end Qats.Dist
