import Qats.Model.Pipeline
import Mathlib.Tactic
/-!
Helper lemmas for `PipelineMain`: `window`, `List.mapM` in `Option`, and a do-free characterisation of `get`.
-/
namespace Qats.Pipeline
set_option linter.unusedSectionVars false
variable {α : Type} [Field α] [LinearOrder α] [IsStrictOrderedRing α]

theorem window_len (a b : α) (t x : List α) :
    (window a b t x).1.length = (window a b t x).2.length := by
  induction t generalizing x with
  | nil => simp [window]
  | cons t0 ts ih =>
    cases x with
    | nil => simp [window]
    | cons x0 xs =>
      simp only [window]
      split <;> simp [ih]

theorem window_zip (a b : α) (t x : List α) :
    List.zip (window a b t x).1 (window a b t x).2 = (List.zip t x).filter (fun p => decide (a ≤ p.1 ∧ p.1 ≤ b)) := by
  induction t generalizing x with
  | nil => simp [window]
  | cons t0 ts ih =>
    cases x with
    | nil => simp [window]
    | cons x0 xs =>
      simp only [window, List.zip_cons_cons, List.filter_cons]
      by_cases h : a ≤ t0 ∧ t0 ≤ b
      · simp only [h, and_self, if_true, decide_true, List.zip_cons_cons, ih]
      · simp only [h, if_false, decide_false, ih]; simp

theorem get_no_options_aux (rnd : α → Int) (st : Stages α) (t x : List α) :
    get rnd st t x {} = .ok (t, x) := by
  simp [get]
  rfl

theorem get_window_stages_aux (rnd : α → Int) (st : Stages α) (t x : List α) (a b : α) (tp fl sm : Bool)
    (hc : fl = true → isConstantDt t = true) (t0 t1 : α) (rest : List α)
    (hw : (window a b t x).1 = t0 :: t1 :: rest) :
    get rnd st t x { twin := some (a, b), taper := tp, filter := fl, smooth := sm } =
      .ok ((window a b t x).1,
        (fun v => if sm then st.smooth v else v)
          ((fun v => if fl then st.filter (t1 - t0) v else v)
            ((fun v => if tp then st.taper v else v) (window a b t x).2))) := by
  have hcond : (fl && !isConstantDt t) = false := by
    cases fl <;> simp_all
  simp only [get, hcond]
  rw [hw]
  cases fl <;> cases sm <;> cases tp <;> rfl

theorem get_resample_times_aux (rnd : α → Int) (st : Stages α) (t x ts : List α) :
    (∀ xs, interpAll t x ts = some xs → get rnd st t x { resample := some (.times ts) } = .ok (ts, xs)) ∧
    (interpAll t x ts = none → get rnd st t x { resample := some (.times ts) } = .error .bounds) ∧
    (∀ a b, get rnd st t x { twin := some (a, b), resample := some (.times ts) } = .error .assertion) := by
  refine ⟨?_, ?_, ?_⟩
  · intro xs h
    simp [get, h]
    rfl
  · intro h
    simp [get, h]
    rfl
  · intro a b
    simp [get]
    rfl

theorem get_resample_step_stages_aux (rnd : α → Int) (st : Stages α) (t x : List α) (tw : Option (α × α)) (d : α)
    (tp fl sm : Bool) (lo hi : α) (g0 g1 : α) (grest xs : List α)
    (hlo : (match tw with | some (a, b) => (window a b t x).1 | none => t).head? = some lo)
    (hhi : (match tw with | some (a, b) => (window a b t x).1 | none => t).getLast? = some hi)
    (hg : newTimearray rnd lo hi d = g0 :: g1 :: grest) (hi' : interpAll t x (g0 :: g1 :: grest) = some xs) :
    get rnd st t x { twin := tw, resample := some (.step d), taper := tp, filter := fl, smooth := sm } =
      .ok (g0 :: g1 :: grest,
        (fun v => if sm then st.smooth v else v)
          ((fun v => if fl then st.filter (g1 - g0) v else v)
            ((fun v => if tp then st.taper v else v) xs))) := by
  rcases tw with _ | ⟨a, b⟩
  · simp only at hlo hhi
    simp only [get, hlo, hhi, hg, pure_bind, hi']
    cases fl <;> cases sm <;> cases tp <;> rfl
  · simp only at hlo hhi
    simp only [get, hlo, hhi, hg, pure_bind, hi']
    cases fl <;> cases sm <;> cases tp <;> rfl

def getWin (t x : List α) (o : Opts α) : List α × List α :=
  match o.twin with
  | some (a, b) => window a b t x
  | none => (t, x)

def getGrid (rnd : α → Int) (t tw : List α) (o : Opts α) : Except Err (Option (List α)) :=
  match o.resample with
  | some (.times ts) => pure (some ts)
  | some (.step d) =>
    match tw.head?, tw.getLast? with
    | some a, some b => pure (some (newTimearray rnd a b d))
    | _, _ => throw .index
  | none =>
    if o.filter && !isConstantDt t then
      match tw.head?, tw.getLast? with
      | some a, some b => pure (some (newTimearray rnd a b (meanDt t)))
      | _, _ => throw .index
    else pure none

def getMid (t x : List α) (w : List α × List α) (k : List α × List α → Except Err (List α × List α))
    (g : Option (List α)) : Except Err (List α × List α) :=
  match g with
  | some ts =>
    match interpAll t x ts with
    | some xs => pure (ts, xs) >>= k
    | none => throw Err.bounds >>= k
  | none => pure w >>= k

def getFin (st : Stages α) (o : Opts α) (p : List α × List α) : Except Err (List α × List α) :=
  if o.filter = true then
    match p.1 with
    | a :: b :: _ =>
      pure (p.1, if o.smooth = true then st.smooth (st.filter (b - a) (if o.taper = true then st.taper p.2 else p.2))
        else (st.filter (b - a) (if o.taper = true then st.taper p.2 else p.2)))
    | _ => throw Err.index
  else pure (p.1, if o.smooth = true then st.smooth (if o.taper = true then st.taper p.2 else p.2)
        else (if o.taper = true then st.taper p.2 else p.2))

def getBody (rnd : α → Int) (st : Stages α) (t x : List α) (o : Opts α) : Except Err (List α × List α) :=
  getGrid rnd t (getWin t x o).1 o >>= getMid t x (getWin t x o) (getFin st o)

theorem get_eq (rnd : α → Int) (st : Stages α) (t x : List α) (o : Opts α) :
    get rnd st t x o =
      match o.resample, o.twin with
      | some (.times _), some _ => throw Err.assertion
      | _, _ => getBody rnd st t x o := by
  rcases o with ⟨tw, rs, tp, fl, sm⟩
  rcases rs with _ | (d | ts) <;> rcases tw with _ | ⟨a, b⟩ <;> rfl

theorem mapM_option_length {β γ : Type} (f : β → Option γ) (qs : List β) (xs : List γ)
    (h : qs.mapM f = some xs) : xs.length = qs.length := by
  induction qs generalizing xs with
  | nil => simp at h; subst h; rfl
  | cons q qs ih =>
    rw [List.mapM_cons] at h
    cases hq : f q with
    | none => simp [hq] at h
    | some v =>
      cases hr : qs.mapM f with
      | none => simp [hq, hr] at h
      | some r =>
        simp [hq, hr] at h
        subst h
        simp [ih r hr]

theorem mapM_option_exists {β γ : Type} (f : β → Option γ) (qs : List β)
    (h : ∀ q ∈ qs, ∃ v, f q = some v) : ∃ xs, qs.mapM f = some xs ∧ xs.length = qs.length := by
  induction qs with
  | nil => exact ⟨[], by simp, rfl⟩
  | cons q qs ih =>
    obtain ⟨v, hv⟩ := h q (by simp)
    obtain ⟨r, hr, hlen⟩ := ih (fun q' hq' => h q' (by simp [hq']))
    exact ⟨v :: r, by rw [List.mapM_cons]; simp [hv, hr], by simp [hlen]⟩

theorem interpAll_length (t x ts xs : List α) (h : interpAll t x ts = some xs) : xs.length = ts.length :=
  mapM_option_length _ _ _ h

theorem getWin_len (t x : List α) (o : Opts α) (hl : t.length = x.length) :
    (getWin t x o).1.length = (getWin t x o).2.length := by
  unfold getWin
  split
  · exact window_len _ _ _ _
  · exact hl

theorem getFin_len (st : Stages α) (o : Opts α)
    (hst : (∀ v, (st.taper v).length = v.length) ∧ (∀ dt v, (st.filter dt v).length = v.length) ∧
      (∀ v, (st.smooth v).length = v.length))
    (p r : List α × List α) (hp : p.1.length = p.2.length) (h : getFin st o p = .ok r) :
    r.1.length = r.2.length := by
  obtain ⟨h1, h2, h3⟩ := hst
  unfold getFin at h
  split at h
  · split at h
    · cases h
      simp only
      split <;> split <;> simp [h1, h2, h3, hp]
    · cases h
  · cases h
    simp only
    split <;> split <;> simp [h1, h3, hp]

theorem getMid_len (t x : List α) (w : List α × List α) (k : List α × List α → Except Err (List α × List α))
    (g : Option (List α)) (hw : w.1.length = w.2.length) (r : List α × List α)
    (h : getMid t x w k g = .ok r) : ∃ p : List α × List α, p.1.length = p.2.length ∧ k p = .ok r := by
  unfold getMid at h
  split at h
  · split at h
    · rename_i ts _ xs hxs
      exact ⟨(ts, xs), (interpAll_length _ _ _ _ hxs).symm, h⟩
    · cases h
  · exact ⟨w, hw, h⟩

theorem except_bind_ok {ε β γ : Type} (m : Except ε β) (f : β → Except ε γ) (r : γ)
    (h : (m >>= f) = .ok r) : ∃ a, m = .ok a ∧ f a = .ok r := by
  cases m with
  | error e => cases h
  | ok a => exact ⟨a, rfl, h⟩

theorem getBody_len (rnd : α → Int) (st : Stages α) (t x : List α) (o : Opts α) (hl : t.length = x.length)
    (hst : (∀ v, (st.taper v).length = v.length) ∧ (∀ dt v, (st.filter dt v).length = v.length) ∧
      (∀ v, (st.smooth v).length = v.length))
    (r : List α × List α) (h : getBody rnd st t x o = .ok r) : r.1.length = r.2.length := by
  unfold getBody at h
  obtain ⟨g, -, hg⟩ := except_bind_ok _ _ _ h
  obtain ⟨p, hp, hk⟩ := getMid_len _ _ _ _ _ (getWin_len t x o hl) _ hg
  exact getFin_len st o hst p r hp hk

theorem get_equal_length_aux (rnd : α → Int) (st : Stages α) (t x : List α) (o : Opts α) (hl : t.length = x.length)
    (hst : (∀ v, (st.taper v).length = v.length) ∧ (∀ dt v, (st.filter dt v).length = v.length) ∧
      (∀ v, (st.smooth v).length = v.length))
    (t' x' : List α) (h : get rnd st t x o = .ok (t', x')) : t'.length = x'.length := by
  rw [get_eq] at h
  split at h
  · cases h
  · exact getBody_len rnd st t x o hl hst _ h
end Qats.Pipeline
