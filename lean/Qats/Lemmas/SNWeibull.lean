import Mathlib.MeasureTheory.Integral.Gamma
import Mathlib.Tactic.Ring
import Mathlib.Tactic.FieldSimp
import Mathlib.Tactic.Linarith
/-!
The Weibull / power-law integral behind the single-slope closed form of `minersum_weibull`:
`∫₀^∞ f_W(s) / (a1·s^(-m1)) ds = q^m1 / a1 · Γ(1 + m1/h)`.  Pure real analysis.
-/
namespace Qats.SN
open MeasureTheory Set Real

/-- On `s > 0` the integrand is a constant times `s^(m1+h-1)·exp(-q^(-h)·s^h)`. -/
theorem weibull_integrand_eq {a1 h m1 q s : ℝ} (ha : 0 < a1) (hq : 0 < q) (hs : 0 < s) :
    h / q * (s / q) ^ (h - 1) * exp (-(s / q) ^ h) / (a1 * s ^ (-m1)) =
      h / (a1 * q ^ h) * (s ^ (m1 + h - 1) * exp (-q ^ (-h) * s ^ h)) := by
  have hA : 0 < s ^ m1 := rpow_pos_of_pos hs _
  have hQ : 0 < q ^ h := rpow_pos_of_pos hq _
  have e1 : (s / q) ^ (h - 1) = s ^ (h - 1) / (q ^ h / q) := by
    rw [div_rpow hs.le hq.le, rpow_sub_one hq.ne' h]
  have e2 : -(s / q) ^ h = -q ^ (-h) * s ^ h := by
    rw [div_rpow hs.le hq.le, rpow_neg hq.le]; ring
  have e3 : s ^ (-m1) = (s ^ m1)⁻¹ := rpow_neg hs.le _
  have e4 : s ^ (m1 + h - 1) = s ^ m1 * s ^ (h - 1) := by
    rw [← rpow_add hs]; congr 1; ring
  rw [e1, e2, e3, e4]
  field_simp

/-- The exponent bookkeeping of the Gamma-integral formula. -/
theorem weibull_const_eq {a1 h m1 q : ℝ} (ha : 0 < a1) (hh : 0 < h) (hq : 0 < q) (G : ℝ) :
    h / (a1 * q ^ h) * ((q ^ (-h)) ^ (-(m1 + h - 1 + 1) / h) * (1 / h) * G) = q ^ m1 / a1 * G := by
  have hQ : 0 < q ^ h := rpow_pos_of_pos hq _
  have e1 : (q ^ (-h)) ^ (-(m1 + h - 1 + 1) / h) = q ^ m1 * q ^ h := by
    rw [← rpow_mul hq.le, ← rpow_add hq]; congr 1; field_simp; ring
  rw [e1]
  field_simp

theorem weibull_integral {a1 h m1 q : ℝ} (ha : 0 < a1) (hh : 0 < h) (hm : 0 < m1) (hq : 0 < q) :
    ∫ s in Ioi (0 : ℝ), h / q * (s / q) ^ (h - 1) * exp (-(s / q) ^ h) / (a1 * s ^ (-m1)) =
      q ^ m1 / a1 * Gamma (1 + m1 / h) := by
  rw [setIntegral_congr_fun measurableSet_Ioi fun s hs => weibull_integrand_eq (h := h) (m1 := m1) ha hq hs,
    integral_const_mul,
    integral_rpow_mul_exp_neg_mul_rpow hh (by linarith) (rpow_pos_of_pos hq _),
    weibull_const_eq ha hh hq]
  congr 2
  field_simp
  ring

end Qats.SN
