import Qats.Prelude
import Mathlib.Data.List.Sort
/-!
The insertion sort of `Qats/Prelude.lean` (`insertSorted`, `isort`) is Mathlib's `List.insertionSort`.
Model-independent (depends on `Qats.Prelude` and Mathlib only); shared by the rainflow (C02/C03) and peaks (C14)
lemma files, which both sort their output with `isort`.
-/
namespace Qats

theorem insertSorted_eq {α : Type} (le : α → α → Bool) (a : α) (l : List α) :
    insertSorted le a l = List.orderedInsert (fun x y => le x y = true) a l := by
  induction l with
  | nil => rfl
  | cons b l ih => simp only [insertSorted, List.orderedInsert, ih]

theorem isort_eq {α : Type} (le : α → α → Bool) (l : List α) :
    isort le l = List.insertionSort (fun x y => le x y = true) l := by
  induction l with
  | nil => rfl
  | cons a l ih => rw [isort, ih, insertSorted_eq, List.insertionSort_cons]

theorem isort_perm {α : Type} (le : α → α → Bool) (l : List α) : (isort le l).Perm l := by
  rw [isort_eq]; exact List.perm_insertionSort _ _

end Qats
