import Qats.Lemmas.EstOps
import Qats.Lemmas.EstSums
/-!
Least-squares residual vectors of the Gumbel / GumbelMin fits: invariance under `x ↦ a·x + b` and the mirror
symmetry between minima and maxima (median-rank plotting positions are symmetric: `F_i + F_{n+1-i} = 1`).
-/
namespace Qats.Est
open Qats Qats.Dist Qats.Gen

theorem gu_cdf_affine (loc s a b x : ℝ) (ha : a ≠ 0) :
    gu_cdf (a * loc + b) (a * s) (a * x + b) = gu_cdf loc s x := by
  rw [gu_cdf_eq, gu_cdf_eq]
  have : (a * x + b - (a * loc + b)) / (a * s) = (x - loc) / s := by
    rw [show a * x + b - (a * loc + b) = a * (x - loc) by ring, mul_div_mul_left _ _ ha]
  rw [this]

theorem gumbelLse_equivariant (z : List ℝ) (loc scale a b : ℝ) (ha : 0 < a) :
    gumbelLseRes (a * loc + b) (a * scale) (z.map fun x => a * x + b) = gumbelLseRes loc scale z := by
  simp only [gumbelLseRes, List.zipWith_map_right, List.length_map, gu_cdf_affine _ _ _ _ _ ha.ne']

theorem gm_cdf_mirror (loc s x : ℝ) : gm_cdf loc s x = 1 - gu_cdf (-loc) s (-x) := by
  rw [gm_cdf_eq, gu_cdf_eq]
  have : -((-x - -loc) / s) = (x - loc) / s := by ring
  rw [this]

/-- Median ranks are symmetric: `F_{i+1} + F_{n-i} = 1` (0-based `i < n`). -/
theorem ecdf_median_symm (i n : Nat) (hi : i < n) :
    ecdf_median ((i : ℝ) + 1) (n : ℝ) + ecdf_median (((n - 1 - i : Nat) : ℝ) + 1) (n : ℝ) = 1 := by
  rw [ecdf_median_eq, ecdf_median_eq]
  have hn : (n : ℝ) + 2 / 5 ≠ 0 := by positivity
  have : ((n - 1 - i : Nat) : ℝ) = (n : ℝ) - 1 - i := by
    rw [Nat.cast_sub (by omega), Nat.cast_sub (by omega)]; simp
  rw [this]
  field_simp
  ring

theorem min_mirror_lse (z : List ℝ) (loc scale : ℝ) :
    gumbelMinLseRes loc scale z =
      ((gumbelLseRes (-loc) scale ((z.map fun x => -x).reverse)).map fun r => -r).reverse := by
  apply List.ext_getElem
  · simp [gumbelMinLseRes, gumbelLseRes]
  · intro i h1 h2
    have hi : i < z.length := by simpa [gumbelMinLseRes] using h1
    have hidx : z.length - 1 - (z.length - 1 - i) = i := by omega
    simp only [gumbelMinLseRes, gumbelLseRes, List.getElem_reverse, List.getElem_map, List.getElem_zipWith,
      List.getElem_range, List.length_reverse, List.length_map, List.length_zipWith, List.length_range,
      Nat.min_self, hidx, gm_cdf_mirror loc scale]
    have h := ecdf_median_symm i z.length hi
    push_cast at h ⊢
    linarith

end Qats.Est
