import Qats.Lemmas.RegistryStep
namespace Qats.Registry
open Qats.Names

/-- A loop of `setKey`s whose value is a function of the key: the final `lookup`. -/
theorem lookup_foldl_set {β σ α : Type} (f : σ → α → σ) (proj : σ → List (Str × β)) (key : α → Str) (g : Str → β)
    (l : List α) (hf : ∀ st, ∀ x ∈ l, proj (f st x) = setKey (proj st) (key x) (g (key x))) (st : σ) (k : Str) :
    lookup (proj (l.foldl f st)) k = if k ∈ l.map key then some (g k) else lookup (proj st) k := by
  induction l generalizing st with
  | nil => simp
  | cons x l ih =>
    rw [List.foldl_cons, ih (fun st y hy => hf st y (List.mem_cons_of_mem _ hy)), hf st x List.mem_cons_self]
    by_cases h1 : k ∈ l.map key
    · simp [h1]
    · by_cases h2 : k = key x
      · subst h2; simp [lookup_setKey_self]
      · rw [if_neg h1, lookup_setKey_ne _ _ h2, if_neg]
        simp only [List.map_cons, List.mem_cons, not_or]
        exact ⟨h2, h1⟩

theorem cp_fold_parents (deep : Bool) (src : Db) (cont : List (Str × Nat)) (d : Db) (n : Nat) (k : Str) :
    lookup (cont.foldl (cpStep deep src) (d, n)).1.parents k =
      if k ∈ cont.map (·.1) then some ((lookup src.parents k).getD none) else lookup d.parents k :=
  lookup_foldl_set (cpStep deep src) (fun st => st.1.parents) (·.1) (fun k => (lookup src.parents k).getD none)
    cont (fun _ _ _ => rfl) (d, n) k

theorem cp_fold_indices (deep : Bool) (src : Db) (cont : List (Str × Nat)) (d : Db) (n : Nat) (k : Str) :
    lookup (cont.foldl (cpStep deep src) (d, n)).1.indices k =
      if k ∈ cont.map (·.1) then some ((lookup src.indices k).getD none) else lookup d.indices k :=
  lookup_foldl_set (cpStep deep src) (fun st => st.1.indices) (·.1) (fun k => (lookup src.indices k).getD none)
    cont (fun _ _ _ => rfl) (d, n) k

/-- Shallow copy of a container whose objects are all cached in `src`: the registered objects are those of `src`. -/
theorem cp_fold_register_shallow (src : Db) (cont : List (Str × Nat))
    (hc : ∀ kv ∈ cont, lookup src.register kv.1 = some (some kv.2)) (d : Db) (n : Nat) (k : Str) :
    lookup (cont.foldl (cpStep false src) (d, n)).1.register k =
      if k ∈ cont.map (·.1) then lookup src.register k else lookup d.register k := by
  have := lookup_foldl_set (cpStep false src) (fun st => st.1.register) (·.1)
    (fun k => (lookup src.register k).getD none) cont (fun st x hx => by
      show setKey st.1.register x.1 (some x.2) = _
      rw [hc x hx]; rfl) (d, n) k
  rw [this]
  split
  · rename_i hk
    rw [List.mem_map] at hk
    obtain ⟨kv, hkv, rfl⟩ := hk
    rw [hc kv hkv]; rfl
  · rfl

/-- Deep copy: every object in the target is at least the counter value at the start. -/
theorem cp_fold_register_deep (src : Db) (cont : List (Str × Nat)) (n0 : Nat) (d : Db) (n : Nat) (hn : n0 ≤ n)
    (hd : ∀ kv ∈ d.register, ∀ o, kv.2 = some o → n0 ≤ o) :
    ∀ kv ∈ (cont.foldl (cpStep true src) (d, n)).1.register, ∀ o, kv.2 = some o → n0 ≤ o := by
  induction cont generalizing d n with
  | nil => exact hd
  | cons x cont ih =>
    rw [List.foldl_cons]
    refine ih _ (n + 1) (Nat.le_succ_of_le hn) ?_
    intro kv hkv o ho
    have hkv' : kv ∈ setKey d.register x.1 (some n) := hkv
    rcases mem_setKey hkv' with hm | rfl
    · exact hd kv hm o ho
    · simp only [Option.some.injEq] at ho; subst ho; exact hn

end Qats.Registry
