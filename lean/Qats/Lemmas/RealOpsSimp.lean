import Qats.Prelude
import Qats.Lemmas.RealOps
import Mathlib.Tactic.Ring
import Mathlib.Tactic.NormNum
import Mathlib.Tactic.FieldSimp
import Mathlib.Tactic.Linarith
/-!
Formula-independent support for the bridging (`*Ops.lean`) files: the transcendental operations of `TranscOps ℝ`
(`Qats/Lemmas/RealOps.lean`) rewritten into ordinary Mathlib notation, and the generic closing tactics used after
unfolding a generated formula.

Nothing here mentions a generated definition (`Qats.Gen.*`) or a model: this file depends on `Qats.Prelude` and
Mathlib only, so it can be imported by the lemma files of every property without coupling them to each other.
-/
namespace Qats

@[simp] theorem exp_real (x : ℝ) : TranscOps.exp x = Real.exp x := rfl
@[simp] theorem log_real (x : ℝ) : TranscOps.log x = Real.log x := rfl
@[simp] theorem log10_real (x : ℝ) : TranscOps.log10 x = Real.logb 10 x := rfl
@[simp] theorem sqrt_real (x : ℝ) : TranscOps.sqrt x = Real.sqrt x := rfl
@[simp] theorem sin_real (x : ℝ) : TranscOps.sin x = Real.sin x := rfl
@[simp] theorem cos_real (x : ℝ) : TranscOps.cos x = Real.cos x := rfl
@[simp] theorem gamma_real (x : ℝ) : TranscOps.gamma x = Real.Gamma x := rfl
@[simp] theorem abs_real (x : ℝ) : TranscOps.abs x = |x| := rfl
@[simp] theorem rpow_real (x y : ℝ) : TranscOps.rpow x y = x ^ y := rfl
@[simp] theorem pi_real : (TranscOps.pi : ℝ) = Real.pi := rfl
@[simp] theorem zetac_real (x : ℝ) : TranscOps.zetac x = (riemannZeta (x : ℂ)).re - 1 := rfl

/-- Closes a goal `f a₁ … = g b₁ …` obtained after unfolding a generated formula: literals are normalised, then
the two sides are compared up to ring normalisation (also under `^`, `logb`, `Gamma`). -/
macro "sn_norm" : tactic =>
  `(tactic| first
    | ((try norm_num1); ring1)
    | (norm_num <;> first | done | ring_nf | (congr 1 <;> ring_nf)))

/-- Same for the comparison masks `decide (a ≤ b) = decide (a' ≤ b')`: equal up to linear-arithmetic
normalisation of the two inequalities. -/
macro "sn_mask_norm" : tactic =>
  `(tactic| (refine decide_eq_decide.2 ⟨fun h => ?_, fun h => ?_⟩ <;> first | exact h | linarith))

/-- Closes a goal `f a₁ … = g b₁ …` obtained after unfolding a generated formula: literals are normalised, then
the two sides are compared up to ring normalisation (also under `^`, `exp`, `log`, `Gamma`).  Terminal (fails
instead of leaving a goal open); used as `simp only [defs] <;> dist_norm` in `DistOps.lean`, `WbOps.lean`,
`W2GOps.lean`. -/
macro "dist_norm" : tactic =>
  `(tactic| ((try norm_num1); first | rfl | ring1 | (ring_nf; done) | (congr 1 <;> ring_nf; done)))

end Qats
