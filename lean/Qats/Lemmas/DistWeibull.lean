import Mathlib.Tactic.Ring
import Mathlib.Tactic.FieldSimp
import Mathlib.Tactic.Linarith
import Mathlib.Analysis.SpecialFunctions.Gamma.Basic
import Mathlib.MeasureTheory.Integral.Gamma
import Mathlib.MeasureTheory.Group.Integral
/-!
The Weibull raw-moment integral `∫_{a}^{∞} ((x-a)/b)^k · f_W(x) dx = Γ(1 + k/c)`: shift to the origin, rewrite the
integrand as a constant times `u^(k+c-1)·exp(-b^(-c)·u^c)`, and apply Mathlib's `integral_rpow_mul_exp_neg_mul_rpow`.
Pure real analysis (no reference to the generated formulas).
-/
namespace Qats.Dist
open MeasureTheory Set Real

theorem integral_Ioi_shift (g : ℝ → ℝ) (a : ℝ) : ∫ x in Ioi a, g (x - a) = ∫ u in Ioi (0 : ℝ), g u := by
  rw [← integral_indicator measurableSet_Ioi, ← integral_indicator measurableSet_Ioi,
    ← integral_sub_right_eq_self (fun u => (Ioi (0 : ℝ)).indicator g u) a]
  congr 1; ext x
  simp only [indicator, mem_Ioi, sub_pos]

/-- On `u > 0` the moment integrand is a constant times `u^(k+c-1)·exp(-b^(-c)·u^c)`. -/
theorem wb_moment_integrand_eq {b c k u : ℝ} (hb : 0 < b) (hu : 0 < u) :
    (u / b) ^ k * (c / b * (u / b) ^ (c - 1) * exp (-(u / b) ^ c)) =
      c / b ^ (k + c) * (u ^ (k + c - 1) * exp (-b ^ (-c) * u ^ c)) := by
  have hB : 0 < b ^ c := rpow_pos_of_pos hb _
  have hK : 0 < b ^ k := rpow_pos_of_pos hb _
  have e0 : (u / b) ^ k = u ^ k / b ^ k := div_rpow hu.le hb.le _
  have e1 : (u / b) ^ (c - 1) = u ^ (c - 1) / (b ^ c / b) := by
    rw [div_rpow hu.le hb.le, rpow_sub_one hb.ne' c]
  have e2 : -(u / b) ^ c = -b ^ (-c) * u ^ c := by
    rw [div_rpow hu.le hb.le, rpow_neg hb.le]; ring
  have e3 : b ^ (k + c) = b ^ k * b ^ c := rpow_add hb _ _
  have e4 : u ^ (k + c - 1) = u ^ k * u ^ (c - 1) := by
    rw [← rpow_add hu]; congr 1; ring
  rw [e0, e1, e2, e3, e4]
  field_simp

theorem wb_moment_const_eq {b c k : ℝ} (hb : 0 < b) (hc : 0 < c) (G : ℝ) :
    c / b ^ (k + c) * ((b ^ (-c)) ^ (-(k + c - 1 + 1) / c) * (1 / c) * G) = G := by
  have hB : 0 < b ^ (k + c) := rpow_pos_of_pos hb _
  have e1 : (b ^ (-c)) ^ (-(k + c - 1 + 1) / c) = b ^ (k + c) := by
    rw [← rpow_mul hb.le]; congr 1; field_simp; ring
  rw [e1]
  field_simp

theorem wb_moment_integral {b c k : ℝ} (hb : 0 < b) (hc : 0 < c) (hk : 0 ≤ k) :
    ∫ u in Ioi (0 : ℝ), (u / b) ^ k * (c / b * (u / b) ^ (c - 1) * exp (-(u / b) ^ c)) =
      Gamma (1 + k / c) := by
  rw [setIntegral_congr_fun measurableSet_Ioi fun u hu => wb_moment_integrand_eq (c := c) (k := k) hb hu,
    integral_const_mul,
    integral_rpow_mul_exp_neg_mul_rpow hc (by linarith) (rpow_pos_of_pos hb _),
    wb_moment_const_eq hb hc]
  congr 1
  field_simp
  ring

theorem wb_moment_integral_shift {a b c k : ℝ} (hb : 0 < b) (hc : 0 < c) (hk : 0 ≤ k) :
    ∫ x in Ioi a, ((x - a) / b) ^ k * (c / b * ((x - a) / b) ^ (c - 1) * exp (-((x - a) / b) ^ c)) =
      Gamma (1 + k / c) := by
  rw [← wb_moment_integral hb hc hk]
  exact integral_Ioi_shift (fun u => (u / b) ^ k * (c / b * (u / b) ^ (c - 1) * exp (-(u / b) ^ c))) a

end Qats.Dist
