import Mathlib.Analysis.SpecialFunctions.Trigonometric.Basic
import Mathlib.Analysis.SpecialFunctions.Complex.Log
import Mathlib.Algebra.Field.GeomSum
import Mathlib.Tactic
/-!
Orthogonality of the `N`-th roots of unity in real form (used by the Parseval identity of the Welch model):

  `Σ_{k<N} cos(2π·k·d/N) = N` if `N ∣ d`, `0` otherwise   (`d : ℤ`).

Proved through ℂ: `z = exp(2πi·d/N)` satisfies `z^N = 1`, and `z ≠ 1` unless `N ∣ d`, so the geometric sum vanishes.
No model is mentioned here.
-/
namespace Qats.Welch.Parseval
open Finset

/-- The complex root of unity `exp(2πi·d/N)`. -/
noncomputable def rootZ (N : ℕ) (d : ℤ) : ℂ := Complex.exp ((2 * Real.pi * Complex.I) * (d : ℂ) / (N : ℂ))

theorem rootZ_pow_N (N : ℕ) (hN : 0 < N) (d : ℤ) : rootZ N d ^ N = 1 := by
  have hN' : (N : ℂ) ≠ 0 := by exact_mod_cast hN.ne'
  rw [rootZ, ← Complex.exp_nat_mul]
  have : (N : ℂ) * ((2 * Real.pi * Complex.I) * (d : ℂ) / (N : ℂ)) = (d : ℂ) * (2 * Real.pi * Complex.I) := by
    field_simp
  rw [this]
  exact Complex.exp_int_mul_two_pi_mul_I d

theorem rootZ_ne_one (N : ℕ) (hN : 0 < N) (d : ℤ) (hd : ¬ (N : ℤ) ∣ d) : rootZ N d ≠ 1 := by
  have hN' : (N : ℂ) ≠ 0 := by exact_mod_cast hN.ne'
  intro h
  rw [rootZ, Complex.exp_eq_one_iff] at h
  obtain ⟨n, hn⟩ := h
  have hpi : (2 * Real.pi * Complex.I : ℂ) ≠ 0 := by
    simp [Real.pi_ne_zero, Complex.I_ne_zero]
  have h2 : (d : ℂ) = (n : ℂ) * (N : ℂ) := by
    have hn' : (2 * Real.pi * Complex.I) * (d : ℂ) = (2 * Real.pi * Complex.I) * ((n : ℂ) * (N : ℂ)) := by
      rw [div_eq_iff hN'] at hn
      rw [hn]; ring
    exact mul_left_cancel₀ hpi hn'
  have h3 : d = n * (N : ℤ) := by exact_mod_cast h2
  exact hd ⟨n, by rw [h3]; ring⟩

theorem rootZ_pow_re (N : ℕ) (d : ℤ) (k : ℕ) :
    (rootZ N d ^ k).re = Real.cos (2 * Real.pi * (k : ℝ) * (d : ℝ) / (N : ℝ)) := by
  rw [rootZ, ← Complex.exp_nat_mul, ← Complex.exp_ofReal_mul_I_re]
  congr 2
  push_cast
  ring

/-- Orthogonality, off the diagonal. -/
theorem sum_cos_eq_zero (N : ℕ) (hN : 0 < N) (d : ℤ) (hd : ¬ (N : ℤ) ∣ d) :
    ∑ k ∈ range N, Real.cos (2 * Real.pi * (k : ℝ) * (d : ℝ) / (N : ℝ)) = 0 := by
  have hg : ∑ k ∈ range N, rootZ N d ^ k = 0 := by
    rw [geom_sum_eq (rootZ_ne_one N hN d hd), rootZ_pow_N N hN d]
    simp
  have := congrArg Complex.re hg
  rw [Complex.re_sum] at this
  simpa [rootZ_pow_re] using this

/-- Orthogonality, on the diagonal. -/
theorem sum_cos_eq_card (N : ℕ) (hN : 0 < N) (d : ℤ) (hd : (N : ℤ) ∣ d) :
    ∑ k ∈ range N, Real.cos (2 * Real.pi * (k : ℝ) * (d : ℝ) / (N : ℝ)) = (N : ℝ) := by
  have hN' : (N : ℝ) ≠ 0 := by exact_mod_cast hN.ne'
  obtain ⟨e, rfl⟩ := hd
  have : ∀ k ∈ range N, Real.cos (2 * Real.pi * (k : ℝ) * (((N : ℤ) * e : ℤ) : ℝ) / (N : ℝ)) = 1 := by
    intro k _
    have h : 2 * Real.pi * (k : ℝ) * (((N : ℤ) * e : ℤ) : ℝ) / (N : ℝ) = (((k : ℤ) * e : ℤ) : ℝ) * (2 * Real.pi) := by
      push_cast
      field_simp
    rw [h]
    exact Real.cos_int_mul_two_pi _
  rw [sum_congr rfl this]
  simp

/-- For indices `i, j < N`: `N ∣ i − j` iff `i = j`. -/
theorem dvd_sub_iff_eq (N i j : ℕ) (hi : i < N) (hj : j < N) : (N : ℤ) ∣ ((i : ℤ) - (j : ℤ)) ↔ i = j := by
  constructor
  · rintro ⟨e, he⟩
    have h1 : -(N : ℤ) < (N : ℤ) * e := by omega
    have h2 : (N : ℤ) * e < (N : ℤ) := by omega
    have hNpos : (0 : ℤ) < N := by omega
    have he0 : e = 0 := by
      by_contra hne
      rcases lt_or_gt_of_ne hne with hlt | hgt
      · have : (N : ℤ) * e ≤ (N : ℤ) * (-1) := mul_le_mul_of_nonneg_left (by omega) hNpos.le
        omega
      · have : (N : ℤ) * 1 ≤ (N : ℤ) * e := mul_le_mul_of_nonneg_left (by omega) hNpos.le
        omega
    subst he0
    omega
  · rintro rfl
    simp

/-- `Σ_{k<N} cos(2π k (i − j)/N) = N·[i = j]` for `i, j < N`. -/
theorem sum_cos_index (N i j : ℕ) (hi : i < N) (hj : j < N) :
    ∑ k ∈ range N, Real.cos (2 * Real.pi * (k : ℝ) * ((i : ℝ) - (j : ℝ)) / (N : ℝ)) =
      if i = j then (N : ℝ) else 0 := by
  have hN : 0 < N := by omega
  have hc : ((i : ℝ) - (j : ℝ)) = (((i : ℤ) - (j : ℤ) : ℤ) : ℝ) := by push_cast; rfl
  rw [hc]
  by_cases h : i = j
  · rw [if_pos h]
    exact sum_cos_eq_card N hN _ ((dvd_sub_iff_eq N i j hi hj).mpr h)
  · rw [if_neg h]
    exact sum_cos_eq_zero N hN _ (fun hd => h ((dvd_sub_iff_eq N i j hi hj).mp hd))

/-- Reflection `k ↦ N − k` leaves `cos(2π k d/N)` unchanged (`d` an integer, `k ≤ N`). -/
theorem cos_reflect (N k : ℕ) (hN : 0 < N) (hk : k ≤ N) (d : ℤ) :
    Real.cos (2 * Real.pi * ((N - k : ℕ) : ℝ) * (d : ℝ) / (N : ℝ)) =
      Real.cos (2 * Real.pi * (k : ℝ) * (d : ℝ) / (N : ℝ)) := by
  have hN' : (N : ℝ) ≠ 0 := by exact_mod_cast hN.ne'
  have h : 2 * Real.pi * ((N - k : ℕ) : ℝ) * (d : ℝ) / (N : ℝ) =
      (d : ℝ) * (2 * Real.pi) - 2 * Real.pi * (k : ℝ) * (d : ℝ) / (N : ℝ) := by
    rw [Nat.cast_sub hk]
    field_simp
  rw [h]
  exact Real.cos_int_mul_two_pi_sub _ d

end Qats.Welch.Parseval
