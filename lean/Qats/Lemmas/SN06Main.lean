import Qats.Lemmas.SNOps06
import Qats.Lemmas.SNWeibull
import Mathlib.Tactic.Ring
import Mathlib.Tactic.NormNum
import Mathlib.Tactic.FieldSimp
import Mathlib.Tactic.Linarith
import Mathlib.Tactic.Positivity
/-!
Main lemmas behind the C06 property theorems about the formulas that only C06 uses (statements fixed by
`Qats/Props/C06.lean`): the single-slope closed form of `minersum_weibull` (`sn_mw_single`) and the Goodman–Haigh
correction (`gh_corrected`).  All over ℝ.  `SNOps06.lean` restates the two generated formulas, `SNWeibull.lean` is
the Weibull / power-law integral.  The `minersum_*` lemmas of C06 depend on the S-N curve formulas only and are in
`SNMain.lean`; the bilinear closed form is in `SNBilinear.lean`.
-/
namespace Qats.SN
open Qats Qats.Gen

/-- Weibull density of the stress ranges, scale `q`, shape `h`. -/
noncomputable def weibullPdf (q h s : ℝ) : ℝ := h / q * (s / q) ^ (h - 1) * Real.exp (-(s / q) ^ h)

/-- Single-slope closed form = expected damage: `v0·td·∫₀^∞ f_W(s)/N(s) ds` with `N(s) = a1·s^(-m1)`. -/
theorem weibull_single_closed_form' (a1 h m1 q td v0 : ℝ) (ha : 0 < a1) (hh : 0 < h) (hm : 0 < m1) (hq : 0 < q) :
    v0 * td * ∫ s in Set.Ioi (0 : ℝ), weibullPdf q h s / (a1 * s ^ (-m1)) = sn_mw_single a1 h m1 q td v0 := by
  simp only [weibullPdf]
  rw [mw_single_eq, weibull_integral ha hh hm hq]
  ring

theorem gh_zero_mean' (r uts : ℝ) (hu : uts ≠ 0) : gh_corrected (0 : ℝ) r uts = r := by
  rw [gh_eq, sub_zero, div_self hu, mul_one]

set_option linter.unusedVariables false in
theorem gh_formula' (m r uts : ℝ) (hu : uts - m ≠ 0) : gh_corrected m r uts = r * uts / (uts - m) := by
  rw [gh_eq, mul_div_assoc]

theorem gh_tensile_enlarges' (m r uts : ℝ) (hm : 0 < m) (hmu : m < uts) (hr : 0 < r) : r < gh_corrected m r uts := by
  rw [gh_eq]
  have hd : 0 < uts - m := sub_pos.2 hmu
  have h1 : 1 < uts / (uts - m) := by rw [lt_div_iff₀ hd]; linarith
  calc r = r * 1 := (mul_one r).symm
    _ < r * (uts / (uts - m)) := mul_lt_mul_of_pos_left h1 hr

set_option linter.unusedVariables false in
theorem gh_unit_free' (k m r uts : ℝ) (hk : 0 < k) (hu : uts - m ≠ 0) :
    gh_corrected (k * m) (k * r) (k * uts) = k * gh_corrected m r uts := by
  rw [gh_eq, gh_eq, ← mul_sub, mul_div_mul_left _ _ hk.ne', mul_assoc]

end Qats.SN
