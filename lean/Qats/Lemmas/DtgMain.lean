import Qats.Model.Dtg
import Mathlib.Algebra.Group.Basic
import Mathlib.Tactic.Abel
import Mathlib.Tactic.Common
/-!
Main lemmas behind the C18 property theorems (statements fixed by `Qats/Props/C18.lean`).
`α` is any commutative additive group (instants and seconds on one axis; every ordered field is an instance);
exact arithmetic: microsecond rounding of `timedelta` is outside the theorems.
-/
namespace Qats.Dtg
set_option linter.unusedSectionVars false
variable {α : Type} [AddCommGroup α]

/-- The cache, when filled, holds the absolute instants `ref + tᵢ` of the current state. -/
def CacheOK (s : St α) : Prop := ∀ c, s.cache = some c → absT s = some c

/-! ### single steps -/

theorem absT_setRef (a : Arg α) (s : St α) (l : List α) (h : absT s = some l) : absT (setRef a s).1 = some l := by
  obtain ⟨ref, t, cache⟩ := s
  cases ref with
  | none => simp [absT] at h
  | some r =>
    cases a with
    | bad => simpa [setRef] using h
    | inst x =>
      simp only [absT, Option.map_some, Option.some.injEq] at h
      subst h
      simp only [setRef, absT, Option.map_some, List.map_map, Option.some.injEq]
      apply List.map_congr_left
      intro ti _
      simp only [Function.comp]
      abel
    | none =>
      cases t with
      | nil => simpa [setRef] using h
      | cons t0 tl =>
        simp only [absT, Option.map_some, Option.some.injEq] at h
        subst h
        simp only [setRef, absT, Option.map_some, List.map_map, Option.some.injEq]
        apply List.map_congr_left
        intro ti _
        simp only [Function.comp]
        abel

theorem absT_dtgTime (s : St α) : absT (dtgTime s).1 = absT s := by
  obtain ⟨ref, t, cache⟩ := s
  cases ref <;> cases cache <;> simp [dtgTime, absT]

theorem absT_step (s : St α) (op : Op α) (l : List α) (h : absT s = some l) : absT (step s op) = some l := by
  cases op with
  | set a => exact absT_setRef a s l h
  | copy => simpa [step, copy, absT] using h
  | read => simpa [step, absT_dtgTime] using h

theorem absT_run (ops : List (Op α)) (s : St α) (l : List α) (h : absT s = some l) : absT (run s ops) = some l := by
  induction ops generalizing s with
  | nil => simpa [run] using h
  | cons op ops ih =>
    have := ih (step s op) (absT_step s op l h)
    simpa [run] using this

theorem run_cons (s : St α) (op : Op α) (ops : List (Op α)) : run s (op :: ops) = run (step s op) ops := rfl

theorem run_append (s : St α) (a b : List (Op α)) : run s (a ++ b) = run (run s a) b := by
  simp [run, List.foldl_append]

/-! ### the invariant over histories -/

theorem abs_invariant' (s : St α) (r : α) (h : s.ref = some r) (ops : List (Op α)) :
    absT (run s ops) = absT s := by
  have h0 : absT s = some (s.t.map fun ti => r + ti) := by simp [absT, h]
  rw [absT_run ops s _ h0, h0]

theorem ref_stays' (s : St α) (r : α) (h : s.ref = some r) (ops : List (Op α)) : ∃ r', (run s ops).ref = some r' := by
  have h1 := abs_invariant' s r h ops
  have h0 : absT s = some (s.t.map fun ti => r + ti) := by simp [absT, h]
  rw [h0] at h1
  cases hr : (run s ops).ref with
  | none => simp [absT, hr] at h1
  | some r' => exact ⟨r', rfl⟩

theorem rel_times_after' (s : St α) (r r' : α) (h : s.ref = some r) (ops : List (Op α))
    (h' : (run s ops).ref = some r') : (run s ops).t = s.t.map fun ti => ti + (r - r') := by
  have h1 := abs_invariant' s r h ops
  simp only [absT, h, h', Option.map_some, Option.some.injEq] at h1
  have h2 := congrArg (List.map fun v => v - r') h1
  simp only [List.map_map] at h2
  have e1 : ((fun v => v - r') ∘ fun ti => r' + ti) = id := by
    funext ti; simp
  have e2 : ((fun v => v - r') ∘ fun ti => r + ti) = fun ti => ti + (r - r') := by
    funext ti; simp only [Function.comp]; abel
  rw [e1, e2, List.map_id] at h2
  exact h2

theorem length_run' (s : St α) (ops : List (Op α)) : (run s ops).t.length = s.t.length := by
  induction ops generalizing s with
  | nil => rfl
  | cons op ops ih =>
    rw [run_cons, ih]
    obtain ⟨ref, t, cache⟩ := s
    cases op with
    | set a =>
      cases a <;> cases ref <;> cases t <;> simp [step, setRef]
    | copy => simp [step, copy]
    | read => cases ref <;> cases cache <;> simp [step, dtgTime]

/-! ### series without reference -/

theorem no_ref_history' (s : St α) (h : s.ref = none) (ops : List (Op α)) :
    absT (run s ops) = (firstInst ops).map (fun x => s.t.map fun ti => x + ti) ∧
      (firstInst ops = none → (run s ops).t = s.t ∧ (run s ops).ref = none) := by
  induction ops generalizing s with
  | nil => simp [run, firstInst, absT, h]
  | cons op ops ih =>
    obtain ⟨ref, t, cache⟩ := s
    simp only at h
    subst h
    rw [run_cons]
    cases op with
    | set a =>
      cases a with
      | bad => simpa [step, setRef, firstInst] using ih ⟨none, t, cache⟩ rfl
      | none => simpa [step, setRef, firstInst] using ih ⟨none, t, cache⟩ rfl
      | inst x =>
        have := abs_invariant' (⟨some x, t, cache⟩ : St α) x rfl ops
        simp only [step, setRef, firstInst, Option.map_some, reduceCtorEq, false_implies, and_true]
        rw [this]
        simp [absT]
    | copy => simpa [step, copy, firstInst] using ih ⟨none, t, none⟩ rfl
    | read => simpa [step, dtgTime, firstInst] using ih ⟨none, t, cache⟩ rfl

theorem set_on_none_keeps_t' (s : St α) (h : s.ref = none) (x : α) :
    (setRef (.inst x) s) = ({ s with ref := some x }, none) := by
  obtain ⟨ref, t, cache⟩ := s
  simp only at h
  subst h
  rfl

/-! ### construction -/

theorem ofFloats_spec' (t : List α) (ref : Option α) (s : St α) (h : ofFloats t ref = some s) :
    s.ref = ref ∧ s.t = t ∧ s.cache = none ∧ t ≠ [] := by
  cases t with
  | nil => simp [ofFloats] at h
  | cons t0 tl =>
    simp only [ofFloats, Option.some.injEq] at h
    subst h
    simp

theorem ofStamps_abs' (st : List α) (ref : Option α) (s : St α) (h : ofStamps st ref = some s) :
    absT s = some st ∧ s.cache = some st ∧ s.ref = some (ref.getD (st.headD 0)) ∧ st ≠ [] := by
  cases st with
  | nil => simp [ofStamps] at h
  | cons s0 tl =>
    simp only [ofStamps, Option.some.injEq] at h
    subst h
    refine ⟨?_, rfl, by simp, by simp⟩
    simp only [absT, Option.map_some, List.map_map, Option.some.injEq]
    have e : ((fun ti => ref.getD s0 + ti) ∘ fun s => s - ref.getD s0) = id := by
      funext v; simp
    rw [e, List.map_id]

theorem from_stamps' (st : List α) (ref : Option α) (s : St α) (h : ofStamps st ref = some s) (ops : List (Op α)) :
    absT (run s ops) = some st :=
  absT_run ops s st (ofStamps_abs' st ref s h).1

theorem constructed_iff' (t : List α) (ref : Option α) :
    ((ofFloats t ref).isSome ↔ t ≠ []) ∧ ((ofStamps t ref).isSome ↔ t ≠ []) := by
  cases t <;> simp [ofFloats, ofStamps]

/-! ### the cache -/

theorem cacheOK_ofFloats (t : List α) (ref : Option α) (s : St α) (h : ofFloats t ref = some s) : CacheOK s := by
  intro c hc
  rw [(ofFloats_spec' t ref s h).2.2.1] at hc
  cases hc

theorem cacheOK_ofStamps (st : List α) (ref : Option α) (s : St α) (h : ofStamps st ref = some s) : CacheOK s := by
  intro c hc
  obtain ⟨h1, h2, _⟩ := ofStamps_abs' st ref s h
  rw [h2] at hc
  rw [h1, hc]

theorem cacheOK_step (s : St α) (op : Op α) (h : CacheOK s) : CacheOK (step s op) := by
  obtain ⟨ref, t, cache⟩ := s
  cases op with
  | set a =>
    cases a with
    | bad => exact h
    | none =>
      cases ref with
      | none => exact h
      | some r =>
        cases t with
        | nil => exact h
        | cons t0 tl => intro c hc; simp [step, setRef] at hc
    | inst x =>
      cases ref with
      | none =>
        intro c hc
        have := h c (by simpa [step, setRef] using hc)
        simp [absT] at this
      | some r => intro c hc; simp [step, setRef] at hc
  | copy => intro c hc; simp [step, copy] at hc
  | read =>
    cases ref with
    | none => exact h
    | some r =>
      cases cache with
      | some c0 => exact h
      | none =>
        intro c hc
        simp only [step, dtgTime, Option.some.injEq] at hc
        subst hc
        simp [step, dtgTime, absT]

theorem cacheOK_run (ops : List (Op α)) (s : St α) (h : CacheOK s) : CacheOK (run s ops) := by
  induction ops generalizing s with
  | nil => exact h
  | cons op ops ih => rw [run_cons]; exact ih _ (cacheOK_step s op h)

theorem dtgTime_eq_abs (s : St α) (h : CacheOK s) : (dtgTime s).2 = absT s := by
  obtain ⟨ref, t, cache⟩ := s
  cases ref with
  | none => simp [dtgTime, absT]
  | some r =>
    cases cache with
    | none => simp [dtgTime, absT]
    | some c => simpa [dtgTime] using (h c rfl).symm

theorem cache_consistent' (ops : List (Op α)) (s : St α) (h : CacheOK s) :
    CacheOK (run s ops) ∧ (dtgTime (run s ops)).2 = absT (run s ops) :=
  ⟨cacheOK_run ops s h, dtgTime_eq_abs _ (cacheOK_run ops s h)⟩

theorem filled_cache_stays_valid' (s : St α) (c : List α) (hc : CacheOK s) (h : s.cache = some c) (ops : List (Op α)) :
    absT (run s ops) = some c :=
  absT_run ops s c (hc c h)

/-! ### in-place processing (`modify`) -/

theorem keepMask_map (f : α → α) (m : List Bool) (l : List α) : keepMask m (l.map f) = (keepMask m l).map f := by
  induction m generalizing l with
  | nil => cases l <;> simp [keepMask]
  | cons b m ih =>
    cases l with
    | nil => cases b <;> simp [keepMask]
    | cons a l => cases b <;> simp [keepMask, ih]

theorem absT_modifyKeep (m : List Bool) (s : St α) : absT (modifyKeep m s) = (absT s).map (keepMask m) := by
  obtain ⟨ref, t, cache⟩ := s
  cases ref with
  | none => simp [absT, modifyKeep]
  | some r => simp [absT, modifyKeep, keepMask_map]

theorem cacheOK_stepX (s : St α) (op : OpX α) (h : CacheOK s) : CacheOK (stepX s op) := by
  cases op with
  | base op => exact cacheOK_step s op h
  | keep m => intro c hc; simp [stepX, modifyKeep] at hc

theorem runX_cons (s : St α) (op : OpX α) (ops : List (OpX α)) : runX s (op :: ops) = runX (stepX s op) ops := rfl

theorem cacheOK_runX (ops : List (OpX α)) (s : St α) (h : CacheOK s) : CacheOK (runX s ops) := by
  induction ops generalizing s with
  | nil => exact h
  | cons op ops ih => rw [runX_cons]; exact ih _ (cacheOK_stepX s op h)

theorem cache_consistent_x' (ops : List (OpX α)) (s : St α) (h : CacheOK s) :
    CacheOK (runX s ops) ∧ (dtgTime (runX s ops)).2 = absT (runX s ops) :=
  ⟨cacheOK_runX ops s h, dtgTime_eq_abs _ (cacheOK_runX ops s h)⟩

/-- What `modify` does to the absolute instants: exactly those of the retained samples remain, unchanged and in order;
re-referencing, copying and reading in between change none of them. -/
theorem absT_stepX (s : St α) (l : List α) (h : absT s = some l) (op : OpX α) :
    absT (stepX s op) = some (match op with | .base _ => l | .keep m => keepMask m l) := by
  cases op with
  | base op =>
    have := absT_run [op] s l h
    simpa [run, stepX] using this
  | keep m => simp [stepX, absT_modifyKeep, h]

/-! ### start / end -/

theorem start_end' (s : St α) :
    dtgStart s = (absT s).bind List.head? ∧ dtgEnd s = (absT s).bind List.getLast? := by
  obtain ⟨ref, t, cache⟩ := s
  cases ref with
  | none => simp [dtgStart, dtgEnd, absT]
  | some r =>
    constructor
    · cases t <;> simp [dtgStart, absT]
    · cases h : t.getLast? <;> simp [dtgEnd, absT, List.getLast?_map, h]


/-! ### what is observed after a history -/

theorem observed_after_history' (s : St α) (r : α) (h : s.ref = some r) (hc : CacheOK s) (ops : List (Op α)) :
    (dtgTime (run s ops)).2 = absT s ∧ dtgStart (run s ops) = (absT s).bind List.head? ∧
      dtgEnd (run s ops) = (absT s).bind List.getLast? := by
  have h1 := abs_invariant' s r h ops
  refine ⟨?_, ?_, ?_⟩
  · rw [(cache_consistent' ops s hc).2, h1]
  · rw [(start_end' _).1, h1]
  · rw [(start_end' _).2, h1]

theorem floats_history' (t : List α) (r : α) (s : St α) (h : ofFloats t (some r) = some s) (ops : List (Op α)) :
    (dtgTime (run s ops)).2 = some (t.map fun ti => r + ti) ∧
      dtgStart (run s ops) = t.head?.map (fun ti => r + ti) ∧
      dtgEnd (run s ops) = t.getLast?.map (fun ti => r + ti) := by
  obtain ⟨h1, h2, _, _⟩ := ofFloats_spec' t (some r) s h
  have := observed_after_history' s r h1 (cacheOK_ofFloats t (some r) s h) ops
  simpa [absT, h1, h2, List.getLast?_map] using this

theorem stamps_history' (st : List α) (ref : Option α) (s : St α) (h : ofStamps st ref = some s) (ops : List (Op α)) :
    (dtgTime (run s ops)).2 = some st ∧ dtgStart (run s ops) = st.head? ∧ dtgEnd (run s ops) = st.getLast? := by
  obtain ⟨h1, _, h3, _⟩ := ofStamps_abs' st ref s h
  have := observed_after_history' s _ h3 (cacheOK_ofStamps st ref s h) ops
  simpa [h1] using this

/-! ### `set_dtg_ref` -/

theorem invalid_rejected_unchanged' (a : Arg α) (s : St α) :
    ((setRef a s).2 ≠ none → (setRef a s).1 = s) ∧
      (s.t ≠ [] → ((setRef a s).2 ≠ none ↔ a = .bad ∨ (a = .none ∧ s.ref = none))) := by
  obtain ⟨ref, t, cache⟩ := s
  cases a <;> cases ref <;> cases t <;> simp [setRef]

theorem setRef_post' (s : St α) (r : α) (h : s.ref = some r) :
    (∀ x, (setRef (.inst x) s).1.ref = some x) ∧
      (∀ t0 tl, s.t = t0 :: tl →
        (setRef .none s).1.ref = some (r + t0) ∧ (setRef .none s).1.t.head? = some 0 ∧
          dtgStart (setRef .none s).1 = dtgStart s) := by
  obtain ⟨ref, t, cache⟩ := s
  simp only at h
  subst h
  refine ⟨fun x => by simp [setRef], ?_⟩
  intro t0 tl ht
  simp only at ht
  subst ht
  simp [setRef, dtgStart]

theorem set_path_independent' (s : St α) (r : α) (h : s.ref = some r) (x y : α) :
    run s [.set (.inst x), .set (.inst y)] = run s [.set (.inst y)] := by
  obtain ⟨ref, t, cache⟩ := s
  simp only at h
  subst h
  simp only [run, List.foldl, step, setRef, List.map_map, St.mk.injEq, true_and, and_true]
  apply List.map_congr_left
  intro ti _
  simp only [Function.comp]
  abel

theorem set_none_idempotent' (s : St α) :
    run s [.set .none, .set .none] = run s [.set .none] := by
  obtain ⟨ref, t, cache⟩ := s
  cases ref with
  | none => simp [run, step, setRef]
  | some r =>
    cases t with
    | nil => simp [run, step, setRef]
    | cons t0 tl =>
      simp [run, step, setRef]

/-! ### `_check_time_arrays` -/
section refs
variable [DecidableEq α]

theorem refBlocked_iff' (refs : List (Option α)) :
    refBlocked refs = false ↔ ∀ a ∈ refs, ∀ b ∈ refs, a = b := by
  cases refs with
  | nil => simp [refBlocked, refDefined, sameRef]
  | cons r0 tl =>
    constructor
    · intro h
      simp only [refBlocked, Bool.and_eq_false_iff, Bool.not_eq_false'] at h
      rcases h with h | h
      · have hn : ∀ a ∈ r0 :: tl, a = none := by
          intro a ha
          simp only [refDefined, List.any_eq_false] at h
          have := h a ha
          cases a <;> simp_all
        intro a ha b hb
        rw [hn a ha, hn b hb]
      · have hs : ∀ a ∈ r0 :: tl, a = r0 := by
          simpa [sameRef] using h
        intro a ha b hb
        rw [hs a ha, hs b hb]
    · intro h
      have hs : sameRef (r0 :: tl) = true := by
        simp only [sameRef, List.all_eq_true, decide_eq_true_eq]
        intro a ha
        exact h a ha r0 (by simp)
      simp [refBlocked, hs]

theorem commonRef_iff' (refs : List (Option α)) (r : α) :
    commonRef refs = some r ↔ refs ≠ [] ∧ ∀ a ∈ refs, a = some r := by
  cases refs with
  | nil => simp [commonRef, refDefined]
  | cons r0 tl =>
    simp only [commonRef, List.head?_cons, ne_eq, reduceCtorEq, not_false_eq_true, true_and]
    constructor
    · intro h
      split at h
      · rename_i hc
        simp only [Bool.and_eq_true] at hc
        have h0 : r0 = some r := by simpa using h
        have hs : ∀ a ∈ r0 :: tl, a = r0 := by simpa [sameRef] using hc.2
        intro a ha
        rw [hs a ha, h0]
      · cases h
    · intro h
      have h0 : r0 = some r := h r0 (by simp)
      subst h0
      have hs : sameRef (some r :: tl) = true := by
        simp only [sameRef, List.all_eq_true, decide_eq_true_eq]
        intro a ha
        exact h a ha
      have hd : refDefined (some r :: tl) = true := by simp [refDefined]
      simp [hs, hd]

end refs

end Qats.Dtg
