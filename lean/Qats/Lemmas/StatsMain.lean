import Qats.Model.Stats
import Qats.Lemmas.W2GMain
import Qats.Lemmas.EstMain
import Qats.Lemmas.PeaksMain
import Qats.Lemmas.DistMain
import Mathlib.Tactic
/-!
Main lemmas behind the summary part of the C17 property theorems (statements fixed by `Qats/Props/C17.lean`).
Over ℝ. The summary is the composition global maxima (C14) → Weibull PWM (C16) → Gumbel from Weibull → Gumbel quantiles.
-/
namespace Qats.Stats
open Qats Qats.Gen

/-- Quantile estimates increase with the probability (for a positive Gumbel scale). -/
theorem gumbel_quantile_increasing' (gl gs p q : ℝ) (hgs : 0 < gs) (hp : 0 < p) (hpq : p < q) (hq : q < 1) :
    gu_invcdf gl p gs < gu_invcdf gl q gs := by
  rw [Dist.gu_invcdf_eq, Dist.gu_invcdf_eq]
  have hq0 : 0 < q := hp.trans hpq
  have h1 : Real.log p < Real.log q := Real.log_lt_log hp hpq
  have h2 : Real.log q < 0 := Real.log_neg hq0 hq
  have h3 : Real.log (-Real.log q) < Real.log (-Real.log p) :=
    Real.log_lt_log (by linarith) (by linarith)
  have := mul_lt_mul_of_pos_left h3 hgs
  linarith

/-- The minima variant is the mirror image of the maxima variant of the negated signal: same Weibull / Gumbel parameters,
negated quantile estimates and sample. -/
theorem summary_mirror' (rnd : ℝ → Int) (sd dur : ℝ) (qs x : List ℝ) :
    summary rnd sd dur qs true x =
      (summary rnd sd dur qs false (x.map fun v => -v)).map fun s =>
        { s with pvalues := s.pvalues.map fun v => -v, sample := s.sample.map fun v => -v } := by
  have e1 : (x.map fun v => -(1.0:ℝ) * v) = ((x.map fun v => -v).map fun v => (1.0:ℝ) * v) := by
    rw [List.map_map]; apply List.map_congr_left; intro v _; simp
  unfold summary
  simp only [↓reduceIte, Bool.false_eq_true, e1]
  split
  · rfl
  · simp only [Option.map_some, Option.some.injEq, Summary.mk.injEq, true_and, List.map_map]
    constructor
    · apply List.map_congr_left; intro v _; simp
    · apply List.map_congr_left; intro v _; simp

/-- The reported Gumbel location is the Weibull (1 − 1/n)-quantile of the reported Weibull parameters, the scale is
1/(n·density there), with `n = round(statsdur/duration · #maxima)` (whenever `n > 1` and the fitted scale and shape are
positive). -/
theorem summary_chain' (rnd : ℝ → Int) (sd dur : ℝ) (qs x : List ℝ) (isMin : Bool) (s : Summary ℝ)
    (h : summary rnd sd dur qs isMin x = some s) :
    let n : ℝ := ((rnd (sd / dur * (s.sample.length : ℝ)) : Int) : ℝ)
    1 < n → 0 < s.wscale → 0 < s.wshape →
      s.gloc = wb_invcdf s.wloc (1 - 1 / n) s.wscale s.wshape ∧
      s.gscale = 1 / (n * wb_pdf s.wloc s.wscale s.wshape s.gloc) ∧
      s.pvalues = qs.map fun p => (if isMin then -1 else 1) * gu_invcdf s.gloc p s.gscale := by
  unfold summary at h
  cases isMin <;>
  · simp only [↓reduceIte, Bool.false_eq_true] at h
    split at h
    · exact absurd h (by simp)
    · rw [Option.some.injEq] at h
      subst h
      simp only [List.length_map]
      intro hn hs hc
      refine ⟨?_, ?_, ?_⟩
      · exact Dist.gloc_is_quantile' _ _ _ _ hn
      · exact Dist.gscale_is_inverse_intensity' _ _ _ _ hs hc hn
      · apply List.map_congr_left
        intro p _
        generalize (gu_invcdf _ _ _ : ℝ) = y
        norm_num

/-! ### helpers for the affine equivariance -/

theorem map_one_mul (l : List ℝ) : (l.map fun v => (1.0 : ℝ) * v) = l := by
  have : (fun v : ℝ => (1.0 : ℝ) * v) = id := by funext v; norm_num
  rw [this, List.map_id]

theorem w2g_loc_affine (a b l n s c : ℝ) :
    w2g_loc (a * l + b) n (a * s) c = a * w2g_loc l n s c + b := by
  rw [Dist.w2g_loc_eq, Dist.w2g_loc_eq]; ring

theorem w2g_scale_affine (a n s c : ℝ) :
    w2g_scale n (a * s) c = a * w2g_scale n s c := by
  rw [Dist.w2g_scale_eq, Dist.w2g_scale_eq]
  have e : c / (a * s) * Real.log n ^ ((c - 1) / c) = (c / s * Real.log n ^ ((c - 1) / c)) / a := by
    rw [mul_comm a s, ← div_div]; ring
  rw [e, one_div_div, mul_one_div]

theorem gu_invcdf_affine (a b g p σ : ℝ) :
    gu_invcdf (a * g + b) p (a * σ) = a * gu_invcdf g p σ + b := by
  rw [Dist.gu_invcdf_eq, Dist.gu_invcdf_eq]; ring

/-- The maxima variant with the trivial sign factor `1.0` removed. -/
theorem summary_false_eq (rnd : ℝ → Int) (sd dur : ℝ) (qs x : List ℝ) :
    summary rnd sd dur qs false x =
      if ((Peaks.findMaxima x false none).map (·.2)).length ≤ 1 then none
      else
        some { wloc := (Dist.weibullPwm ((Peaks.findMaxima x false none).map (·.2))).1,
               wscale := (Dist.weibullPwm ((Peaks.findMaxima x false none).map (·.2))).2.1,
               wshape := (Dist.weibullPwm ((Peaks.findMaxima x false none).map (·.2))).2.2,
               gloc := w2g_loc (Dist.weibullPwm ((Peaks.findMaxima x false none).map (·.2))).1
                 ((rnd (sd / dur * (((Peaks.findMaxima x false none).map (·.2)).length : ℝ)) : Int) : ℝ)
                 (Dist.weibullPwm ((Peaks.findMaxima x false none).map (·.2))).2.1
                 (Dist.weibullPwm ((Peaks.findMaxima x false none).map (·.2))).2.2,
               gscale := w2g_scale
                 ((rnd (sd / dur * (((Peaks.findMaxima x false none).map (·.2)).length : ℝ)) : Int) : ℝ)
                 (Dist.weibullPwm ((Peaks.findMaxima x false none).map (·.2))).2.1
                 (Dist.weibullPwm ((Peaks.findMaxima x false none).map (·.2))).2.2,
               pvalues := qs.map fun p => gu_invcdf
                 (w2g_loc (Dist.weibullPwm ((Peaks.findMaxima x false none).map (·.2))).1
                   ((rnd (sd / dur * (((Peaks.findMaxima x false none).map (·.2)).length : ℝ)) : Int) : ℝ)
                   (Dist.weibullPwm ((Peaks.findMaxima x false none).map (·.2))).2.1
                   (Dist.weibullPwm ((Peaks.findMaxima x false none).map (·.2))).2.2) p
                 (w2g_scale
                   ((rnd (sd / dur * (((Peaks.findMaxima x false none).map (·.2)).length : ℝ)) : Int) : ℝ)
                   (Dist.weibullPwm ((Peaks.findMaxima x false none).map (·.2))).2.1
                   (Dist.weibullPwm ((Peaks.findMaxima x false none).map (·.2))).2.2),
               sample := (Peaks.findMaxima x false none).map (·.2) } := by
  unfold summary
  simp only [Bool.false_eq_true, ↓reduceIte, map_one_mul]
  have : ∀ y : ℝ, (1.0 : ℝ) * y = y := fun y => by norm_num
  simp only [this]

/-- Affine equivariance of the maxima summary: under `x ↦ a·x + b` (`a > 0`) location-type quantities map as `a·v + b`,
scale-type quantities as `a·v`, the shape is unchanged, quantile estimates and the sample map as `a·v + b`.
(Hypotheses: at least four maxima and the non-degeneracy of the PWM formulas, as in `weibullPwm_equivariant`.) -/
theorem summary_affine' (rnd : ℝ → Int) (sd dur a b : ℝ) (ha : 0 < a) (qs x : List ℝ) (s : Summary ℝ)
    (h : summary rnd sd dur qs false x = some s) (h4 : 4 ≤ s.sample.length)
    (hden : Dist.mlj s.sample 0 - 8 * Dist.mlj s.sample 1 + 12 * Dist.mlj s.sample 2 - 4 * Dist.mlj s.sample 3 ≠ 0)
    (hden2 : 5 * Dist.mlj s.sample 1 - Dist.mlj s.sample 0 - 6 * Dist.mlj s.sample 2 + 2 * Dist.mlj s.sample 3 ≠ 0) :
    summary rnd sd dur qs false (x.map fun v => a * v + b) =
      some { wloc := a * s.wloc + b, wscale := a * s.wscale, wshape := s.wshape,
             gloc := a * s.gloc + b, gscale := a * s.gscale,
             pvalues := s.pvalues.map fun v => a * v + b, sample := s.sample.map fun v => a * v + b } := by
  rw [summary_false_eq] at h ⊢
  have hm : (Peaks.findMaxima (x.map fun v => a * v + b) false none).map (·.2) =
      ((Peaks.findMaxima x false none).map (·.2)).map fun v => a * v + b := by
    have := Peaks.findMaxima_affine' x false none a b ha
    rw [Option.map_none] at this
    rw [this, List.map_map, List.map_map]; rfl
  rw [hm]
  generalize (Peaks.findMaxima x false none).map (·.2) = mx at h ⊢
  split at h
  · exact absurd h (by simp)
  · rename_i hl
    rw [Option.some.injEq] at h
    subst h
    simp only at h4 hden hden2 ⊢
    rw [List.length_map, if_neg hl, Dist.weibullPwm_equivariant' mx a b ha h4 hden hden2]
    simp only [w2g_loc_affine, w2g_scale_affine, gu_invcdf_affine, List.map_map]
    rfl

end Qats.Stats
