import Mathlib.Tactic
import Qats.Model.ReadBind
import Qats.Lemmas.ReadBindBind
/-!
Proofs for property C01 (statements are re-exported, without the primes, by `Qats/Props/C01.lean`):
`_read` returns, for every request, exactly the stored series, and keeps the registry invariant; hence every history of
loads and retrievals does.
-/
namespace Qats.ReadBind
open Qats Qats.Names

variable {α : Type}

/-! ### one parent file of `_read` -/

/-- What is carried from group to group: registry invariant, unchanged registration data, only right series in the
container. -/
structure Inv (disk : List (File α)) (db0 db : Db α) (c : Container α) : Prop where
  reg : RegOk disk db
  skel : db.reg.map skel = db0.reg.map skel
  good : ∀ p ∈ c, ∀ s, p.2 = some s → GoodK disk db0 p.1 s

/-- Progress made by the groups of the parents satisfying `P`. -/
structure Prog (store : Bool) (pending : List (Entry α)) (P : Str → Prop) (db : Db α) (c : Container α) (db' : Db α)
    (c' : Container α) : Prop where
  keys : c'.map (·.1) = c.map (·.1)
  cnone : ∀ p' ∈ c', p'.2 = none → p' ∈ c ∧ ∀ e ∈ pending, e.key = p'.1 → ¬ P e.parent
  nostore : store = false → db' = db
  enone : ∀ e' ∈ db'.reg, e'.cache = none →
    (∃ e ∈ db.reg, e.key = e'.key ∧ e.cache = none) ∧ (store = true → ∀ e ∈ pending, e.key = e'.key → ¬ P e.parent)

theorem Prog.refl (store : Bool) (pending : List (Entry α)) (db : Db α) (c : Container α) :
    Prog store pending (fun _ => False) db c db c :=
  ⟨rfl, fun _ hp _ => ⟨hp, fun _ _ _ h => h⟩, fun _ => rfl, fun e' he' hn => ⟨⟨e', he', rfl, hn⟩, fun _ _ _ _ h => h⟩⟩

theorem Prog.trans {store : Bool} {pending : List (Entry α)} {P Q : Str → Prop} {db c db1 c1 db2 c2}
    (h1 : Prog store pending P db c db1 c1) (h2 : Prog store pending Q db1 c1 db2 c2) :
    Prog store pending (fun x => P x ∨ Q x) db c db2 c2 := by
  refine ⟨h2.keys.trans h1.keys, ?_, fun hs => (h2.nostore hs).trans (h1.nostore hs), ?_⟩
  · intro p' hp' hn
    obtain ⟨hp1, hq⟩ := h2.cnone p' hp' hn
    obtain ⟨hp0, hp⟩ := h1.cnone p' hp1 hn
    exact ⟨hp0, fun e he hk hor => hor.elim (hp e he hk) (hq e he hk)⟩
  · intro e' he' hn
    obtain ⟨⟨e1, he1, hk1, hn1⟩, hq⟩ := h2.enone e' he' hn
    obtain ⟨⟨e0, he0, hk0, hn0⟩, hp⟩ := h1.enone e1 he1 hn1
    refine ⟨⟨e0, he0, hk0.trans hk1, hn0⟩, fun hs e he hk hor => ?_⟩
    exact hor.elim (hp hs e he (hk.trans hk1.symm)) (hq hs e he hk)

theorem updC_some {zs : List (Entry α × Series α)} {p : Str × Option (Series α)} {v : Series α}
    (h : lastVal zs p.1 = some v) : updC zs p = (p.1, some v) := by
  unfold updC; rw [h]

theorem updC_none {zs : List (Entry α × Series α)} {p : Str × Option (Series α)} (h : lastVal zs p.1 = none) :
    updC zs p = p := by
  unfold updC; rw [h]

theorem updE_some {zs : List (Entry α × Series α)} {e : Entry α} {v : Series α} (h : lastVal zs e.key = some v) :
    updE zs e = { e with cache := some v } := by
  unfold updE; rw [h]

theorem updE_none {zs : List (Entry α × Series α)} {e : Entry α} (h : lastVal zs e.key = none) : updE zs e = e := by
  unfold updE; rw [h]

theorem mem_map_skel {db0 db : Db α} (hs : db.reg.map skel = db0.reg.map skel) {e : Entry α} (he : e ∈ db.reg) :
    ∃ e0 ∈ db0.reg, skel e0 = skel e := by
  have : skel e ∈ db0.reg.map skel := hs ▸ List.mem_map_of_mem he
  obtain ⟨e0, h0, h1⟩ := List.mem_map.1 this
  exact ⟨e0, h0, h1⟩

/-- One group of `_read` (all pending keys of parent `p`). -/
theorem group_step [OfNat α 0] (disk : List (File α)) (hd : DiskOk disk) (db0 : Db α) (h0 : RegOk disk db0) (store : Bool)
    (pending : List (Entry α)) (hpend : ∀ e ∈ pending, e ∈ db0.reg) (p : Str) (hp : ∃ e ∈ pending, e.parent = p)
    (db : Db α) (c : Container α) (hinv : Inv disk db0 db c) :
    ∃ f ts, (disk.find? fun f => f.path == p) = some f ∧
      readGroup f (pending.filter fun e => e.parent == p) = some ts ∧
      Inv disk db0 (bindGroup store db c ((pending.filter fun e => e.parent == p).zip ts)).1
        (bindGroup store db c ((pending.filter fun e => e.parent == p).zip ts)).2 ∧
      Prog store pending (fun x => x = p) db c
        (bindGroup store db c ((pending.filter fun e => e.parent == p).zip ts)).1
        (bindGroup store db c ((pending.filter fun e => e.parent == p).zip ts)).2 := by
  -- the file
  obtain ⟨ep, hep, hepp⟩ := hp
  obtain ⟨fp, hfp, jp, hjp⟩ := h0.from_disk ep (hpend ep hep)
  have hfpp : fp.path = p := by rw [← hjp.parent, hepp]
  obtain ⟨f, hfind⟩ : ∃ f, (disk.find? fun f => f.path == p) = some f := by
    cases h : disk.find? fun f => f.path == p with
    | some f => exact ⟨f, rfl⟩
    | none =>
      have := List.find?_eq_none.1 h fp hfp
      simp [hfpp] at this
  have hfmem : f ∈ disk := List.mem_of_find?_eq_some hfind
  have hfpath : f.path = p := by simpa using List.find?_some hfind
  set g := pending.filter fun e => e.parent == p with hgdef
  have hgmem : ∀ e ∈ g, e ∈ pending ∧ e.parent = p := by
    intro e he
    simpa [hgdef] using he
  have hg : ∀ e ∈ g, ∃ j, From f j e := by
    intro e he
    obtain ⟨h1, h2⟩ := hgmem e he
    obtain ⟨f', hf', j, hj⟩ := h0.from_disk e (hpend e h1)
    have : f' = f := hd.file_eq hf' hfmem (by rw [← hj.parent, h2, hfpath])
    exact ⟨j, this ▸ hj⟩
  obtain ⟨ts, hts, hlw⟩ := readGroup_spec f (hd.files f hfmem) g hg
  refine ⟨f, ts, hfind, hts, ?_⟩
  rw [bindGroup_eq]
  set zs := g.zip ts with hzs
  have hzkeys : zs.map (·.1.key) = g.map (·.key) := by
    have hz : zs.map (·.1) = g := List.map_fst_zip (by rw [hlw.length_eq])
    calc zs.map (·.1.key) = (zs.map (·.1)).map (·.key) := by rw [List.map_map]; rfl
      _ = g.map (·.key) := by rw [hz]
  -- (i) the last series bound to a key is the stored one
  have hgood : ∀ k v, lastVal zs k = some v → GoodK disk db0 k v := by
    intro k v hv e2 he2 hk2 f2 hf2 j2 hj2
    obtain ⟨e, he, hk, hR⟩ := lastVal_good g ts hlw k v hv
    obtain ⟨h1, h2⟩ := hgmem e he
    have hee : e2 = e := h0.entry_eq he2 (hpend e h1) (hk2.trans hk.symm)
    subst hee
    have : f2 = f := hd.file_eq hf2 hfmem (by rw [← hj2.parent, h2, hfpath])
    subst this
    exact hR j2 hj2
  -- (ii) keys without a binding are not pending under this parent
  have hnone : ∀ k, lastVal zs k = none → ∀ e ∈ pending, e.key = k → ¬ e.parent = p := by
    intro k hk e he hek hpar
    have hmem : k ∈ zs.map (·.1.key) := by
      rw [hzkeys, ← hek]
      exact List.mem_map_of_mem (by simp [hgdef, he, hpar])
    have := (lastVal_isSome zs k).2 hmem
    rw [hk] at this
    simp at this
  have hcont_good : ∀ q ∈ c.map (updC zs), ∀ s, q.2 = some s → GoodK disk db0 q.1 s := by
    intro q hq s hs
    obtain ⟨q0, hq0, rfl⟩ := List.mem_map.1 hq
    cases hl : lastVal zs q0.1 with
    | some v =>
      rw [updC_some hl] at hs ⊢
      simp only [Option.some.injEq] at hs
      subst hs
      exact hgood _ _ hl
    | none =>
      rw [updC_none hl] at hs ⊢
      exact hinv.good q0 hq0 s hs
  have hcont_none : ∀ q ∈ c.map (updC zs), q.2 = none → q ∈ c ∧ ∀ e ∈ pending, e.key = q.1 → ¬ e.parent = p := by
    intro q hq hn
    obtain ⟨q0, hq0, rfl⟩ := List.mem_map.1 hq
    cases hl : lastVal zs q0.1 with
    | some v => rw [updC_some hl] at hn; simp at hn
    | none =>
      rw [updC_none hl]
      exact ⟨hq0, hnone _ hl⟩
  have hkeys : (c.map (updC zs)).map (·.1) = c.map (·.1) := by
    rw [List.map_map]
    apply List.map_congr_left
    intro q _
    simp
  cases store with
  | false =>
    simp only [Bool.false_eq_true, if_false]
    refine ⟨⟨hinv.reg, hinv.skel, hcont_good⟩, ⟨hkeys, hcont_none, fun _ => rfl, ?_⟩⟩
    intro e' he' hn
    exact ⟨⟨e', he', rfl, hn⟩, (fun h => by cases h)⟩
  | true =>
    simp only [if_true]
    have hskel_e : ∀ e : Entry α, skel (updE zs e) = skel e := by
      intro e; simp [skel]
    have hskel : (db.reg.map (updE zs)).map skel = db0.reg.map skel := by
      rw [List.map_map, ← hinv.skel]
      apply List.map_congr_left
      intro e _
      exact hskel_e e
    refine ⟨⟨⟨?_, ?_, ?_⟩, hskel, hcont_good⟩, ⟨hkeys, hcont_none, (fun h => by cases h), ?_⟩⟩
    · -- keys unchanged
      have : keysOf ({ reg := db.reg.map (updE zs) } : Db α) = keysOf db := by
        simp only [keysOf, List.map_map]
        apply List.map_congr_left
        intro e _
        simp
      rw [this]
      exact hinv.reg.nodup
    · intro e' he'
      obtain ⟨e, he, rfl⟩ := List.mem_map.1 he'
      obtain ⟨f', hf', j, hj⟩ := hinv.reg.from_disk e he
      exact ⟨f', hf', j, hj.congr (hskel_e e)⟩
    · intro e' he' s hs f2 hf2 j2 hj2
      obtain ⟨e, he, rfl⟩ := List.mem_map.1 he'
      have hj2e : From f2 j2 e := hj2.congr (hskel_e e).symm
      cases hl : lastVal zs e.key with
      | some v =>
        rw [updE_some hl] at hs
        simp only [Option.some.injEq] at hs
        subst hs
        obtain ⟨e0, he0, hs0⟩ := mem_map_skel hinv.skel he
        have hk0 : e0.key = e.key := by
          have := congrArg Prod.fst hs0
          simpa [skel] using this
        exact hgood _ _ hl e0 he0 hk0 f2 hf2 j2 (hj2e.congr hs0)
      | none =>
        rw [updE_none hl] at hs
        exact hinv.reg.cache_ok e he s hs f2 hf2 j2 hj2e
    · intro e' he' hn
      obtain ⟨e, he, rfl⟩ := List.mem_map.1 he'
      cases hl : lastVal zs e.key with
      | some v =>
        rw [updE_some hl] at hn
        cases hn
      | none =>
        rw [updE_none hl] at hn ⊢
        exact ⟨⟨e, he, rfl, hn⟩, fun _ => hnone _ hl⟩

/-- All groups of `_read`. -/
theorem readGroups_spec [OfNat α 0] (disk : List (File α)) (hd : DiskOk disk) (db0 : Db α) (h0 : RegOk disk db0)
    (store : Bool) (pending : List (Entry α)) (hpend : ∀ e ∈ pending, e ∈ db0.reg) :
    ∀ (ps : List Str), (∀ p ∈ ps, ∃ e ∈ pending, e.parent = p) → ∀ (db : Db α) (c : Container α), Inv disk db0 db c →
      ∃ db' c', readGroups disk store pending ps db c = some (db', c') ∧ Inv disk db0 db' c' ∧
        Prog store pending (fun x => x ∈ ps) db c db' c'
  | [], _, db, c, hinv => by
    refine ⟨db, c, rfl, hinv, ?_⟩
    have := Prog.refl store pending db c
    simpa using this
  | p :: ps, hps, db, c, hinv => by
    obtain ⟨f, ts, hfind, hts, hinv1, hprog1⟩ :=
      group_step disk hd db0 h0 store pending hpend p (hps p (by simp)) db c hinv
    obtain ⟨db', c', hr, hinv2, hprog2⟩ :=
      readGroups_spec disk hd db0 h0 store pending hpend ps (fun q hq => hps q (by simp [hq])) _ _ hinv1
    refine ⟨db', c', ?_, hinv2, ?_⟩
    · simp only [readGroups, hfind, hts]
      exact hr
    · have := hprog1.trans hprog2
      have hP : (fun x => x = p ∨ x ∈ ps) = fun x => x ∈ p :: ps := by
        funext x; simp
      rw [hP] at this
      exact this

/-! ### `_read` -/

theorem nodup_eraseDups' {β : Type} [BEq β] [LawfulBEq β] (l : List β) : l.eraseDups.Nodup := by
  induction hn : l.length using Nat.strong_induction_on generalizing l with
  | _ n ih =>
    cases l with
    | nil => simp
    | cons a as =>
      rw [List.eraseDups_cons, List.nodup_cons]
      refine ⟨?_, ih _ ?_ _ rfl⟩
      · simp [List.mem_eraseDups]
      · subst hn
        exact Nat.lt_succ_of_le (List.length_filter_le _ _)

theorem mapM_findEntry {db : Db α} : ∀ (ks : List Str), (∀ k ∈ ks, k ∈ keysOf db) →
    ∃ es, ks.mapM (findEntry db) = some es ∧ es.map (·.key) = ks ∧ ∀ e ∈ es, e ∈ db.reg
  | [], _ => ⟨[], by simp, rfl, by simp⟩
  | k :: ks, h => by
    obtain ⟨es, h1, h2, h3⟩ := mapM_findEntry ks fun x hx => h x (by simp [hx])
    have hk : k ∈ keysOf db := h k (by simp)
    obtain ⟨e, he⟩ : ∃ e, findEntry db k = some e := by
      cases hf : findEntry db k with
      | some e => exact ⟨e, rfl⟩
      | none =>
        unfold findEntry at hf
        obtain ⟨e, he, hek⟩ := List.mem_map.1 hk
        have := List.find?_eq_none.1 hf e he
        simp [hek] at this
    obtain ⟨hm, hkk⟩ := findEntry_some he
    refine ⟨e :: es, ?_, by simp [hkk, h2], ?_⟩
    · rw [List.mapM_cons, he, h1]; rfl
    · intro x hx
      rcases List.mem_cons.1 hx with rfl | hx
      · exact hm
      · exact h3 x hx

/-- What `_read` promises (see `read_correct'`). -/
structure ReadOk (disk : List (File α)) (db : Db α) (ks : List Str) (store : Bool) (db' : Db α)
    (out : List (Str × Series α)) : Prop where
  /-- exactly the requested keys, in request order (first occurrence) -/
  keys : out.map (·.1) = ks.eraseDups
  /-- every returned series is the one stored on file under that key: name, time, data -/
  stored : ∀ ks' ∈ out, ∀ e ∈ db.reg, e.key = ks'.1 → ∀ f ∈ disk, ∀ j, From f j e → ks'.2 = stored f j
  /-- cached series are returned as they are -/
  cached : ∀ ks' ∈ out, ∀ e ∈ db.reg, e.key = ks'.1 → ∀ s, e.cache = some s → ks'.2 = s
  /-- the registry invariant is kept, registration data never changes -/
  reg : RegOk disk db'
  skel : db'.reg.map skel = db.reg.map skel
  /-- without `store` nothing is kept -/
  nostore : store = false → db' = db
  /-- what was cached stays cached; with `store` every requested key is cached afterwards -/
  mono : ∀ e ∈ db.reg, e.cache.isSome = true → ∃ e' ∈ db'.reg, e'.key = e.key ∧ e'.cache = e.cache
  stores : store = true → ∀ k ∈ ks, ∃ e' ∈ db'.reg, e'.key = k ∧ e'.cache.isSome = true

theorem read_correct' [OfNat α 0] (disk : List (File α)) (hd : DiskOk disk) (db : Db α) (h0 : RegOk disk db)
    (ks : List Str) (hks : ∀ k ∈ ks, k ∈ keysOf db) (store : Bool) :
    ∃ db' out, readKeys disk db ks store = some (db', out) ∧ ReadOk disk db ks store db' out := by
  obtain ⟨es, hes, heskeys, hesmem⟩ := mapM_findEntry ks hks
  set c0 : Container α := ks.eraseDups.map fun k => (k, ((findEntry db k).bind (·.cache))) with hc0
  set pending := es.filter fun e => e.cache.isNone with hpdef
  have hpend : ∀ e ∈ pending, e ∈ db.reg := fun e he => hesmem e (List.mem_of_mem_filter he)
  have hinv0 : Inv disk db db c0 := by
    refine ⟨h0, rfl, ?_⟩
    intro p hp s hs e he hek f hf j hj
    obtain ⟨k, _, rfl⟩ := List.mem_map.1 hp
    simp only at hs hek
    rw [← hek, findEntry_of_mem h0 he] at hs
    exact h0.cache_ok e he s (by simpa using hs) f hf j hj
  obtain ⟨db', c', hr, hinv, hprog⟩ := readGroups_spec disk hd db h0 store pending hpend
    ((pending.map (·.parent)).eraseDups) (by
      intro p hp
      rw [List.mem_eraseDups] at hp
      obtain ⟨e, he, rfl⟩ := List.mem_map.1 hp
      exact ⟨e, he, rfl⟩) db c0 hinv0
  -- every slot of the final container is filled
  have hfilled : ∀ p ∈ c', p.2 ≠ none := by
    intro p hp hn
    obtain ⟨hp0, hnot⟩ := hprog.cnone p hp hn
    obtain ⟨k, hk, rfl⟩ := List.mem_map.1 hp0
    have hkks : k ∈ ks := List.mem_eraseDups.1 hk
    have hkes : k ∈ es.map (·.key) := heskeys ▸ hkks
    obtain ⟨e, he, hek⟩ := List.mem_map.1 hkes
    simp only at hn hnot
    rw [← hek, findEntry_of_mem h0 (hesmem e he)] at hn
    have hcn : e.cache = none := by simpa using hn
    have hpe : e ∈ pending := by simp [hpdef, he, hcn]
    exact hnot e hpe hek (List.mem_eraseDups.2 (List.mem_map_of_mem hpe))
  have hout : (c'.filterMap fun p => p.2.map fun s => (p.1, s)).map (·.1) = c'.map (·.1) := by
    clear hr hinv hprog
    induction c' with
    | nil => rfl
    | cons p r ih =>
      obtain ⟨k, v⟩ := p
      cases v with
      | none => exact absurd rfl (hfilled (k, none) (by simp))
      | some s =>
        simp only [List.filterMap_cons, Option.map_some, List.map_cons]
        rw [ih fun q hq => hfilled q (by simp [hq])]
  have hmem_out : ∀ q ∈ (c'.filterMap fun p => p.2.map fun s => (p.1, s)), (q.1, some q.2) ∈ c' := by
    intro q hq
    obtain ⟨p, hp, hpq⟩ := List.mem_filterMap.1 hq
    obtain ⟨k, v⟩ := p
    cases v with
    | none => simp at hpq
    | some s =>
      simp only [Option.map_some, Option.some.injEq] at hpq
      subst hpq
      exact hp
  refine ⟨db', c'.filterMap fun p => p.2.map fun s => (p.1, s), ?_, ?_⟩
  · simp only [readKeys, hes]
    rw [← hc0, ← hpdef, hr]
  · refine ⟨?_, ?_, ?_, hinv.reg, hinv.skel, hprog.nostore, ?_, ?_⟩
    · rw [hout, hprog.keys, hc0, List.map_map]
      exact List.map_id _
    · intro q hq e he hek f hf j hj
      exact hinv.good _ (hmem_out q hq) q.2 rfl e he hek f hf j hj
    · -- cached series are returned unchanged: their slot was never `none`, so it was never touched
      intro q hq e he hek s hs
      have hgood := hinv.good _ (hmem_out q hq) q.2 rfl e he hek
      obtain ⟨f, hf, j, hj⟩ := h0.from_disk e he
      rw [hgood f hf j hj, h0.cache_ok e he s hs f hf j hj]
    · intro e he hsome
      -- the entry with this key in db' (same skeleton list) cannot have an empty cache
      have hlen : db'.reg.length = db.reg.length := by
        have := congrArg List.length hinv.skel
        simpa using this
      obtain ⟨i, hi, rfl⟩ := List.mem_iff_getElem.1 he
      have hi' : i < db'.reg.length := hlen ▸ hi
      have hsk : skel db'.reg[i] = skel db.reg[i] := by
        have := congrArg (fun l => l[i]?) hinv.skel
        simp only [List.getElem?_map, List.getElem?_eq_getElem hi, List.getElem?_eq_getElem hi', Option.map_some,
          Option.some.injEq] at this
        exact this
      have hkey : db'.reg[i].key = db.reg[i].key := by
        have := congrArg Prod.fst hsk
        simpa [skel] using this
      refine ⟨db'.reg[i], List.getElem_mem _, hkey, ?_⟩
      cases hc : db'.reg[i].cache with
      | none =>
        obtain ⟨⟨e0, he0, hk0, hn0⟩, _⟩ := hprog.enone _ (List.getElem_mem hi') hc
        have : e0 = db.reg[i] := h0.entry_eq he0 (List.getElem_mem hi) (hk0.trans hkey)
        rw [this] at hn0
        rw [hn0] at hsome
        simp at hsome
      | some s' =>
        obtain ⟨s, hs⟩ := Option.isSome_iff_exists.1 hsome
        obtain ⟨f, hf, j, hj⟩ := h0.from_disk _ (List.getElem_mem hi)
        rw [hs, h0.cache_ok _ (List.getElem_mem hi) s hs f hf j hj,
          hinv.reg.cache_ok _ (List.getElem_mem hi') s' hc f hf j (hj.congr hsk)]
    · intro hst k hk
      have hkes : k ∈ es.map (·.key) := heskeys ▸ hk
      obtain ⟨e, he, hek⟩ := List.mem_map.1 hkes
      obtain ⟨e0, he0, hs0⟩ := mem_map_skel (db0 := db') (db := db) hinv.skel.symm (hesmem e he)
      have hk0 : e0.key = k := by
        have := congrArg Prod.fst hs0
        simp only [skel] at this
        rw [this, hek]
      refine ⟨e0, he0, hk0, ?_⟩
      cases hc : e0.cache with
      | some _ => rfl
      | none =>
        exfalso
        obtain ⟨⟨e1, he1, hk1, hn1⟩, hnot⟩ := hprog.enone e0 he0 hc
        have h1e : e1 = e := h0.entry_eq he1 (hesmem e he) (by rw [hk1, hk0, hek])
        subst h1e
        have hpe : e1 ∈ pending := by simp [hpdef, he, hn1]
        exact hnot hst e1 hpe (by rw [hk0, hek]) (List.mem_eraseDups.2 (List.mem_map_of_mem hpe))

end Qats.ReadBind
