import Qats.Lemmas.DistOps
import Qats.Lemmas.DistGumbelMean
import Mathlib.Tactic
/-!
The reported Gumbel means against the means of the generated densities (C15): total mass 1 and first moment
`loc ± γ·scale` of `gu_pdf` / `gm_pdf`, and the shape `loc ± c·scale` of the generated `gu_mean` / `gm_mean`.
-/
namespace Qats.Dist
open Qats Qats.Gen MeasureTheory Real

theorem gu_pdf_eq_g0 (loc scale : ℝ) : (fun x => gu_pdf loc scale x) = fun x => 1 / scale * g0 ((x - loc) / scale) := by
  funext x; rw [gu_pdf_eq]; rfl

theorem gm_pdf_eq_gu (loc scale : ℝ) : (fun x => gm_pdf loc scale x) = fun x => gu_pdf (-loc) scale (-x) := by
  funext x; rw [gm_pdf_eq, gu_pdf_eq]
  have : -((-x - -loc) / scale) = (x - loc) / scale := by ring
  rw [this]

theorem gu_density_mean' (loc scale : ℝ) (hs : 0 < scale) :
    (Integrable (fun x => gu_pdf loc scale x) ∧ ∫ x, gu_pdf loc scale x = 1) ∧
    (Integrable (fun x => x * gu_pdf loc scale x) ∧
      ∫ x, x * gu_pdf loc scale x = loc + eulerMascheroniConstant * scale) := by
  have h := gumbel_mass_mean loc scale hs
  have e := gu_pdf_eq_g0 loc scale
  have e' : (fun x => x * gu_pdf loc scale x) = fun x => x * (1 / scale * g0 ((x - loc) / scale)) := by
    funext x; rw [congrFun e x]
  rw [e, e', mul_comm eulerMascheroniConstant]
  exact h

theorem gm_density_mean' (loc scale : ℝ) (hs : 0 < scale) :
    (Integrable (fun x => gm_pdf loc scale x) ∧ ∫ x, gm_pdf loc scale x = 1) ∧
    (Integrable (fun x => x * gm_pdf loc scale x) ∧
      ∫ x, x * gm_pdf loc scale x = loc - eulerMascheroniConstant * scale) := by
  obtain ⟨⟨i0, v0⟩, i1, v1⟩ := gu_density_mean' (-loc) scale hs
  have e1 : ∀ x, gm_pdf loc scale x = gu_pdf (-loc) scale (-x) := fun x => congrFun (gm_pdf_eq_gu loc scale) x
  simp_rw [e1]
  refine ⟨⟨i0.comp_neg, ?_⟩, ?_, ?_⟩
  · rw [integral_neg_eq_self (fun x => gu_pdf (-loc) scale x)]; exact v0
  · have := i1.comp_neg.neg
    refine this.congr (Filter.Eventually.of_forall fun x => ?_)
    simp
  · have h := integral_neg_eq_self (fun x => x * gu_pdf (-loc) scale x) volume
    rw [v1] at h
    have e : (fun x => x * gu_pdf (-loc) scale (-x)) = fun x => -(-x * gu_pdf (-loc) scale (-x)) := by
      funext x; ring
    rw [e, integral_neg, h]; ring

/-- The generated means have the form `loc ± c·scale` with a constant `c` that agrees with `0.5772156649015329` to 1e-15. -/
theorem gu_mean_shape' (loc scale : ℝ) :
    ∃ c : ℝ, |c - 0.5772156649015329| ≤ 1e-15 ∧ gu_mean loc scale = loc + c * scale ∧ gm_mean loc scale = loc - c * scale := by
  refine ⟨0.5772156649015329, by norm_num, ?_, ?_⟩
  · simp only [gu_mean]; dist_norm
  · simp only [gm_mean]; dist_norm

end Qats.Dist
