import Qats.Lemmas.RegistryRead
namespace Qats.Registry
open Qats.Names

/-- Same as `Coherent` of `RegistryMain` (definitionally). -/
def Coh (d : Db) : Prop :=
  d.keys.Nodup ∧ (d.register.map (·.1)).Perm d.keys ∧ (d.parents.map (·.1)).Perm d.keys ∧
    (d.indices.map (·.1)).Perm d.keys

theorem coh_empty : Coh ({} : Db) := by
  simp [Coh]

/-! ### `eraseDups`, `select` -/

theorem nodup_eraseDups {α : Type} [BEq α] [LawfulBEq α] (l : List α) : l.eraseDups.Nodup := by
  induction hn : l.length using Nat.strong_induction_on generalizing l with
  | _ n ih =>
    cases l with
    | nil => simp
    | cons a as =>
      rw [List.eraseDups_cons, List.nodup_cons]
      refine ⟨?_, ih _ ?_ _ rfl⟩
      · simp [List.mem_eraseDups]
      · subst hn
        exact Nat.lt_succ_of_le (List.length_filter_le _ _)

theorem listKeys_subset (keys names : List Str) : ∀ k ∈ listKeys keys names, k ∈ keys := by
  intro k hk
  simp only [listKeys, List.mem_flatMap, List.mem_filter] at hk
  obtain ⟨_, _, hk, _⟩ := hk
  exact hk

theorem listKeys_single_sublist (keys : List Str) (p : Str) : (listKeys keys [p]).Sublist keys := by
  simp only [listKeys, List.flatMap_cons, List.flatMap_nil, List.append_nil]
  exact List.filter_sublist

theorem select_subset (d : Db) (names : Option (List Str)) : ∀ k ∈ select d names, k ∈ d.keys := by
  intro k hk
  cases names with
  | none => exact hk
  | some ns =>
    simp only [select, List.mem_eraseDups] at hk
    exact listKeys_subset _ _ k hk

theorem select_nodup (d : Db) (names : Option (List Str)) (h : d.keys.Nodup) : (select d names).Nodup := by
  cases names with
  | none => exact h
  | some ns => exact nodup_eraseDups _

theorem select_congr {d d' : Db} (h : d'.keys = d.keys) (names : Option (List Str)) :
    select d' names = select d names := by
  cases names <;> simp [select, h]

/-! ### registered keys in a coherent database -/

theorem Coh.hasKey_register {d : Db} (h : Coh d) (k : Str) : hasKey d.register k = true ↔ k ∈ d.keys := by
  rw [hasKey_iff]; exact h.2.1.mem_iff

theorem Coh.hasKey_register_false {d : Db} (h : Coh d) (k : Str) : hasKey d.register k = false ↔ k ∉ d.keys := by
  rw [← h.hasKey_register]; simp

/-! ### appending a new key -/

def addKey (d : Db) (k : Str) (r : Option Nat) (p : Option Str) (i : Option Nat) : Db :=
  { register := setKey d.register k r, parents := setKey d.parents k p, indices := setKey d.indices k i,
    keys := d.keys ++ [k] }

theorem setKey_perm {β : Type} {l : List (Str × β)} {keys : List Str} {k : Str}
    (h : (l.map (·.1)).Perm keys) (hk : k ∉ keys) (v : β) :
    ((setKey l k v).map (·.1)).Perm (keys ++ [k]) := by
  have : hasKey l k = false := by
    rw [hasKey_false_iff, h.mem_iff]; exact hk
  rw [map_fst_setKey_of_not v this]
  exact h.append_right _

theorem coh_addKey {d : Db} (h : Coh d) {k : Str} (hk : k ∉ d.keys) (r : Option Nat) (p : Option Str)
    (i : Option Nat) : Coh (addKey d k r p i) := by
  obtain ⟨h1, h2, h3, h4⟩ := h
  refine ⟨?_, setKey_perm h2 hk _, setKey_perm h3 hk _, setKey_perm h4 hk _⟩
  show (d.keys ++ [k]).Nodup
  rw [List.nodup_append]
  refine ⟨h1, List.nodup_singleton _, ?_⟩
  intro a ha b hb
  simp only [List.mem_singleton] at hb
  subst hb
  rintro rfl
  exact hk ha

/-- A loop that registers one new key per element keeps the database coherent, if the keys are distinct and new. -/
theorem coh_foldl_add {α σ : Type} (f : σ → α → σ) (db : σ → Db) (key : α → Str)
    (hf : ∀ st x, ∃ r p i, db (f st x) = addKey (db st) (key x) r p i)
    (l : List α) (st : σ) (hc : Coh (db st)) (hnd : (l.map key).Nodup)
    (hdisj : ∀ x ∈ l, key x ∉ (db st).keys) :
    Coh (db (l.foldl f st)) ∧ (db (l.foldl f st)).keys = (db st).keys ++ l.map key := by
  induction l generalizing st with
  | nil => simpa using hc
  | cons x l ih =>
    rw [List.foldl_cons]
    obtain ⟨r, p, i, hfx⟩ := hf st x
    rw [List.map_cons, List.nodup_cons] at hnd
    have hkeys : (db (f st x)).keys = (db st).keys ++ [key x] := by rw [hfx]; rfl
    have hc' : Coh (db (f st x)) := by
      rw [hfx]; exact coh_addKey hc (hdisj x List.mem_cons_self) r p i
    have := ih (f st x) hc' hnd.2 (by
      intro y hy
      rw [hkeys, List.mem_append, List.mem_singleton, not_or]
      refine ⟨hdisj y (List.mem_cons_of_mem _ hy), ?_⟩
      intro e
      exact hnd.1 (e ▸ List.mem_map_of_mem hy))
    refine ⟨this.1, ?_⟩
    rw [this.2, hkeys]; simp

/-! ### erasing a key -/

def dropKey (d : Db) (k : Str) : Db :=
  { register := erase d.register k, parents := erase d.parents k, indices := erase d.indices k,
    keys := d.keys.erase k }

theorem erase_perm {β : Type} {l : List (Str × β)} {keys : List Str} (h : (l.map (·.1)).Perm keys)
    (hn : keys.Nodup) (k : Str) : ((erase l k).map (·.1)).Perm (keys.erase k) := by
  rw [map_fst_erase, hn.erase_eq_filter]
  exact h.filter _

theorem coh_dropKey {d : Db} (h : Coh d) (k : Str) : Coh (dropKey d k) := by
  obtain ⟨h1, h2, h3, h4⟩ := h
  exact ⟨h1.erase k, erase_perm h2 h1 k, erase_perm h3 h1 k, erase_perm h4 h1 k⟩

theorem coh_foldl_drop (m : List Str) (d : Db) (h : Coh d) : Coh (m.foldl dropKey d) := by
  induction m generalizing d with
  | nil => exact h
  | cons k m ih => exact ih _ (coh_dropKey h k)

/-! ### renaming a key -/

def mvKey {β : Type} (old newkey : Str) (l : List (Str × β)) : List (Str × β) :=
  match lookup l old with
  | some v => erase l old ++ [(newkey, v)]
  | none => l

def renKey (d : Db) (old newkey : Str) : Db :=
  { register := mvKey old newkey d.register, parents := mvKey old newkey d.parents,
    indices := mvKey old newkey d.indices, keys := d.keys.map fun k => if k == old then newkey else k }

theorem rename_perm_aux {L : List Str} (hn : L.Nodup) {old : Str} (ho : old ∈ L) (newkey : Str) :
    (L.filter (· != old) ++ [newkey]).Perm (L.map fun k => if k == old then newkey else k) := by
  have h1 : L.Perm (old :: L.erase old) := List.perm_cons_erase ho
  have h2 := h1.map fun k => if k == old then newkey else k
  refine (List.perm_append_comm.trans ?_).trans h2.symm
  rw [List.singleton_append, List.map_cons, hn.erase_eq_filter]
  simp only [beq_self_eq_true, if_true]
  refine List.Perm.of_eq ?_
  congr 1
  symm
  rw [List.map_congr_left (g := id), List.map_id]
  intro a ha
  rw [List.mem_filter] at ha
  have : (a == old) = false := by simpa using ha.2
  simp [this]

theorem mvKey_perm {β : Type} {l : List (Str × β)} {keys : List Str} (h : (l.map (·.1)).Perm keys)
    (hn : keys.Nodup) {old : Str} (ho : old ∈ keys) (newkey : Str) :
    ((mvKey old newkey l).map (·.1)).Perm (keys.map fun k => if k == old then newkey else k) := by
  have hol : old ∈ l.map (·.1) := h.mem_iff.mpr ho
  have hnl : (l.map (·.1)).Nodup := h.nodup_iff.mpr hn
  unfold mvKey
  have hs := (lookup_isSome_iff l old).mpr hol
  cases hl : lookup l old with
  | none => simp [hl] at hs
  | some v =>
    simp only
    rw [List.map_append, map_fst_erase, List.map_cons, List.map_nil]
    exact (rename_perm_aux hnl hol newkey).trans (h.map _)

theorem coh_renKey {d : Db} (h : Coh d) {old newkey : Str} (ho : old ∈ d.keys) (hnew : newkey ∉ d.keys) :
    Coh (renKey d old newkey) := by
  obtain ⟨h1, h2, h3, h4⟩ := h
  refine ⟨?_, mvKey_perm h2 h1 ho _, mvKey_perm h3 h1 ho _, mvKey_perm h4 h1 ho _⟩
  show (d.keys.map fun k => if k == old then newkey else k).Nodup
  refine List.Nodup.map_on ?_ h1
  intro x hx y hy hxy
  by_cases hxo : x = old <;> by_cases hyo : y = old
  · rw [hxo, hyo]
  · simp only [hxo, hyo, beq_self_eq_true, if_true, beq_iff_eq, if_false] at hxy
    exact absurd (hxy ▸ hy) hnew
  · simp only [hxo, hyo, beq_self_eq_true, if_true, beq_iff_eq, if_false] at hxy
    exact absurd (hxy ▸ hx) hnew
  · simpa [hxo, hyo] using hxy

/-! ### reading -/

theorem coh_readKeys {d : Db} (h : Coh d) (n : Nat) (ks : List Str) (store : Bool) (hks : ∀ k ∈ ks, k ∈ d.keys) :
    Coh (readKeys d n ks store).1 := by
  unfold Coh
  rw [readKeys_keys, readKeys_parents, readKeys_indices,
    readKeys_map_fst store ks d n (fun k hk => (h.hasKey_register k).mpr (hks k hk))]
  exact h

end Qats.Registry
