import Qats.Model.Export
import Qats.Lemmas.PipelineMain
import Qats.Lemmas.ExportCheck
import Qats.Lemmas.ExportCommon
import Mathlib.Tactic
/-!
The shape of every trace of the export model: either a *quiet* prefix followed by one `raise` (nothing touched the target),
or a quiet prefix, `openTarget`, and one `write` per selected series, each being the in-memory retrieval of that series,
all with (numerically) one time array.  Export-friendly names are distinct.
-/
namespace Qats.Export
set_option linter.unusedSectionVars false
set_option linter.unusedVariables false
open Qats.Names (Str)
open Qats.Pipeline (Opts Resample Stages)
variable {α : Type} [Field α] [LinearOrder α] [IsStrictOrderedRing α]

/-- Effects that neither touch the target file nor raise. -/
def Effect.quiet : Effect α → Bool
  | .openTarget _ => false
  | .write _ _ _ => false
  | .raise _ => false
  | _ => true

/-- Effects that touch the target file. -/
def Effect.touches : Effect α → Bool
  | .openTarget _ => true
  | .write _ _ _ => true
  | _ => false

/-- The records handed to the writer, in order. -/
def writes : List (Effect α) → List (Str × List α × List α)
  | [] => []
  | .write n t x :: r => (n, t, x) :: writes r
  | _ :: r => writes r

def writeOf (it : Str × List α × List α) : Effect α := .write it.1 it.2.1 it.2.2

theorem writes_append (l r : List (Effect α)) : writes (l ++ r) = writes l ++ writes r := by
  induction l with
  | nil => rfl
  | cons f l ih => cases f <;> simp [writes, ih]

theorem writes_quiet (l : List (Effect α)) (h : ∀ f ∈ l, f.quiet = true) : writes l = [] := by
  induction l with
  | nil => rfl
  | cons f l ih =>
    have hf := h f List.mem_cons_self
    have hl := ih (fun g hg => h g (List.mem_cons_of_mem _ hg))
    cases f <;> simp_all [writes, Effect.quiet]

theorem writes_map (items : List (Str × List α × List α)) : writes (items.map writeOf) = items := by
  induction items with
  | nil => rfl
  | cons it items ih => simp [writes, writeOf, ih]

/-- What a successful run hands to the writer. -/
structure Written (rnd : α → Int) (st : Stages α) (r : Req α) (names : List Str) (sel : List (Entry α)) (o : Opts α)
    (items : List (Str × List α × List α)) : Prop where
  /-- one record per selected series, in order, under its export-friendly name, holding what `get` returns -/
  retrieval : List.Forall₂ (fun (p : Str × Entry α) (w : Str × List α × List α) =>
    w.1 = p.1 ∧ Qats.Pipeline.get rnd st p.2.t p.2.x o = .ok (w.2.1, w.2.2)) (names.zip sel) items
  /-- the final comparison passed -/
  verified : verified items = true
  /-- the processed series hold at least one sample -/
  samples : noSamples items = false
  /-- the options are the caller's, or (forced) the caller's plus resampling to the constructed common time array -/
  options : ∃ ss tc, summaries sel = some ss ∧ checkTimeArrays ss r.opts.twin r.opts.resample = .ok tc ∧
    ((o = r.opts ∧ (tc.isCommon = true ∨ r.opts.resample.isSome = true)) ∨
     (r.force = true ∧ r.opts.resample = none ∧ tc.isCommon = false ∧ ∃ ct,
      createCommonTime rnd ss ((sel.head?.map (·.t)).getD []) r.opts.twin = .ok ct ∧
      o = { r.opts with resample := some (.times ct) }))

/-- The two shapes a trace can have. -/
inductive Outcome (rnd : α → Int) (st : Stages α) (r : Req α) (names : List Str) (sel : List (Entry α)) :
    List (Effect α) → Prop
  | refused (pre : List (Effect α)) (e : Err) (hq : ∀ f ∈ pre, f.quiet = true) : Outcome rnd st r names sel (pre ++ [.raise e])
  | written (pre : List (Effect α)) (o : Opts α) (items : List (Str × List α × List α)) (hq : ∀ f ∈ pre, f.quiet = true)
      (hext : r.ext ≠ .other) (hw : Written rnd st r names sel o items) :
      Outcome rnd st r names sel (pre ++ .openTarget r.ext :: items.map writeOf)

theorem processAll_spec (rnd : α → Int) (st : Stages α) (o : Opts α) (named : List (Str × Entry α)) :
    (∀ f ∈ (processAll rnd st o named).1, f = Effect.process) ∧
    ∀ items, (processAll rnd st o named).2 = .ok items →
      List.Forall₂ (fun (p : Str × Entry α) (w : Str × List α × List α) =>
        w.1 = p.1 ∧ Qats.Pipeline.get rnd st p.2.t p.2.x o = .ok (w.2.1, w.2.2)) named items := by
  induction named with
  | nil =>
    refine ⟨by simp [processAll], ?_⟩
    intro items h
    simp only [processAll, Except.ok.injEq] at h
    subst h
    exact .nil
  | cons p rest ih =>
    obtain ⟨n, e⟩ := p
    obtain ⟨ih1, ih2⟩ := ih
    unfold processAll
    cases hg : Qats.Pipeline.get rnd st e.t e.x o with
    | error er => simp
    | ok tx =>
      obtain ⟨t, x⟩ := tx
      simp only
      cases hr : processAll rnd st o rest with
      | mk tr res =>
        rw [hr] at ih1 ih2
        cases res with
        | error er =>
          simp only
          refine ⟨?_, by simp⟩
          intro f hf
          rcases List.mem_cons.mp hf with rfl | hf
          · rfl
          · exact ih1 f hf
        | ok l =>
          simp only
          refine ⟨?_, ?_⟩
          · intro f hf
            rcases List.mem_cons.mp hf with rfl | hf
            · rfl
            · exact ih1 f hf
          · intro items h
            simp only [Except.ok.injEq] at h
            subst h
            exact .cons ⟨rfl, hg⟩ (ih2 l rfl)

theorem quiet_append {l r : List (Effect α)} (hl : ∀ f ∈ l, f.quiet = true) (hr : ∀ f ∈ r, f.quiet = true) :
    ∀ f ∈ l ++ r, f.quiet = true := by
  intro f hf
  rcases List.mem_append.mp hf with h | h
  · exact hl f h
  · exact hr f h

theorem stageWrite_outcome (rnd : α → Int) (st : Stages α) (r : Req α) (names : List Str) (sel : List (Entry α))
    (pre : List (Effect α)) (hq : ∀ f ∈ pre, f.quiet = true) (o : Opts α) (items : List (Str × List α × List α))
    (hw : verified items = true → noSamples items = false → Written rnd st r names sel o items) :
    Outcome rnd st r names sel (stageWrite r pre items) := by
  unfold stageWrite
  cases hv : verified items with
  | false => exact .refused pre _ hq
  | true =>
   simp only [Bool.not_true, Bool.false_eq_true, if_false]
   cases hn : noSamples items with
   | true => exact .refused pre _ hq
   | false =>
    replace hw := fun h => hw h hn
    simp only [Bool.false_eq_true, if_false]
    cases hx : r.ext with
    | other => exact .refused pre _ hq
    | ts =>
      have := Outcome.written pre o items hq (by simp [hx]) (hw hv)
      rw [hx] at this
      exact this
    | dat =>
      have := Outcome.written pre o items hq (by simp [hx]) (hw hv)
      rw [hx] at this
      exact this
    | h5 =>
      have := Outcome.written pre o items hq (by simp [hx]) (hw hv)
      rw [hx] at this
      exact this
    | pkl =>
      have := Outcome.written pre o items hq (by simp [hx]) (hw hv)
      rw [hx] at this
      exact this

theorem stageProcess_outcome (rnd : α → Int) (st : Stages α) (r : Req α) (names : List Str) (sel : List (Entry α))
    (pre : List (Effect α)) (hq : ∀ f ∈ pre, f.quiet = true) (o : Opts α)
    (ho : ∃ ss tc, summaries sel = some ss ∧ checkTimeArrays ss r.opts.twin r.opts.resample = .ok tc ∧
      ((o = r.opts ∧ (tc.isCommon = true ∨ r.opts.resample.isSome = true)) ∨
       (r.force = true ∧ r.opts.resample = none ∧ tc.isCommon = false ∧ ∃ ct,
        createCommonTime rnd ss ((sel.head?.map (·.t)).getD []) r.opts.twin = .ok ct ∧
        o = { r.opts with resample := some (.times ct) }))) :
    Outcome rnd st r names sel (stageProcess rnd st r pre o (names.zip sel)) := by
  unfold stageProcess
  obtain ⟨hp1, hp2⟩ := processAll_spec rnd st o (names.zip sel)
  cases hr : processAll rnd st o (names.zip sel) with
  | mk tr res =>
    rw [hr] at hp1 hp2
    have hqt : ∀ f ∈ pre ++ tr, f.quiet = true :=
      quiet_append hq (fun f hf => by rw [hp1 f hf]; rfl)
    cases res with
    | error e => exact .refused _ _ hqt
    | ok items =>
      exact stageWrite_outcome rnd st r names sel _ hqt o items (fun hv hn => ⟨hp2 items rfl, hv, hn, ho⟩)

theorem stageDecide_outcome (rnd : α → Int) (st : Stages α) (r : Req α) (names : List Str) (sel : List (Entry α))
    (pre : List (Effect α)) (hq : ∀ f ∈ pre, f.quiet = true) (ss : List (Summary α)) (hss : summaries sel = some ss)
    (tc : TimeCheck α) (htc : checkTimeArrays ss r.opts.twin r.opts.resample = .ok tc) :
    Outcome rnd st r names sel (stageDecide rnd st r pre ss tc ((sel.head?.map (·.t)).getD []) (names.zip sel)) := by
  unfold stageDecide
  cases hc : tc.isCommon with
  | true => simpa using stageProcess_outcome rnd st r names sel pre hq r.opts ⟨ss, tc, hss, htc, Or.inl ⟨rfl, Or.inl hc⟩⟩
  | false =>
    simp only [Bool.false_eq_true, if_false]
    cases hrs : r.opts.resample with
    | some rs => simpa [hrs] using stageProcess_outcome rnd st r names sel pre hq r.opts ⟨ss, tc, hss, htc, Or.inl ⟨rfl, Or.inr (by simp [hrs])⟩⟩
    | none =>
      simp only [Option.isSome_none, Bool.false_eq_true, if_false]
      cases hf : r.force with
      | false =>
        simp only [Bool.false_eq_true, if_false]
        exact .refused pre _ hq
      | true =>
        simp only [if_true]
        cases hct : createCommonTime rnd ss ((sel.head?.map (·.t)).getD []) r.opts.twin with
        | error e =>
          simp only
          have : pre ++ [Effect.commonTime, Effect.raise e] = (pre ++ [Effect.commonTime]) ++ [Effect.raise e] := by simp
          rw [this]
          exact .refused _ _ (quiet_append hq (by simp [Effect.quiet]))
        | ok ct =>
          simp only
          refine stageProcess_outcome rnd st r names sel _ (quiet_append hq (by simp [Effect.quiet])) _ ⟨ss, tc, hss, htc, Or.inr ?_⟩
          exact ⟨hf, hrs, hc, ct, hct, rfl⟩

theorem stageCheck_outcome (rnd : α → Int) (st : Stages α) (r : Req α) (names : List Str) (sel : List (Entry α))
    (pre : List (Effect α)) (hq : ∀ f ∈ pre, f.quiet = true) :
    Outcome rnd st r names sel (stageCheck rnd st r pre names sel) := by
  unfold stageCheck
  cases hss : summaries sel with
  | none => exact .refused pre _ hq
  | some ss =>
    simp only
    cases htc : checkTimeArrays ss r.opts.twin r.opts.resample with
    | error e => exact .refused pre _ hq
    | ok tc => exact stageDecide_outcome rnd st r names sel pre hq ss hss tc htc

theorem preamble_quiet (r : Req α) : ∀ f ∈ preamble r, f.quiet = true := by
  intro f hf
  unfold preamble at hf
  rcases List.mem_append.mp hf with h | h
  · split at h
    · simp only [List.mem_cons, List.not_mem_nil, or_false] at h; subst h; rfl
    · simp at h
  · simp only [List.mem_cons, List.not_mem_nil, or_false] at h
    rcases h with rfl | rfl <;> rfl

/-- Every trace of the export model has one of the two shapes. -/
theorem export_outcome (cwd : Str) (rnd : α → Int) (st : Stages α) (r : Req α) (sel : List (Entry α)) :
    (r.targetExists = true ∧ r.existOk = false ∧ exportTrace cwd rnd st r sel = [.raise .fileExists]) ∨
    (∃ e, friendlyNames cwd (sel.map (·.key)) r.basename = .error e ∧
      exportTrace cwd rnd st r sel = preamble r ++ [.raise e]) ∨
    (∃ names, friendlyNames cwd (sel.map (·.key)) r.basename = .ok names ∧
      Outcome rnd st r names sel (exportTrace cwd rnd st r sel)) := by
  unfold exportTrace
  by_cases hx : (r.targetExists && !r.existOk) = true
  · left
    simp only [hx, if_true]
    simp only [Bool.and_eq_true, Bool.not_eq_eq_eq_not, Bool.not_true] at hx
    exact ⟨hx.1, hx.2, trivial⟩
  · right
    simp only [hx]
    cases hn : friendlyNames cwd (sel.map (·.key)) r.basename with
    | error e => exact Or.inl ⟨e, rfl, rfl⟩
    | ok names =>
      right
      refine ⟨names, rfl, ?_⟩
      exact stageCheck_outcome rnd st r names sel _ (quiet_append (preamble_quiet r) (by simp [Effect.quiet]))

/-! ### consequences -/

theorem outcome_raise_last (rnd : α → Int) (st : Stages α) (r : Req α) (names : List Str) (sel : List (Entry α))
    (tr : List (Effect α)) (h : Outcome rnd st r names sel tr) (e : Err) (he : Effect.raise e ∈ tr) :
    (∀ f ∈ tr, f.touches = false) ∧ tr.getLast? = some (.raise e) := by
  cases h with
  | refused pre e' hq =>
    have hee : e = e' := by
      rcases List.mem_append.mp he with h | h
      · have := hq _ h; simp [Effect.quiet] at this
      · simpa using h
    subst hee
    refine ⟨?_, by simp⟩
    intro f hf
    rcases List.mem_append.mp hf with h | h
    · have := hq f h
      cases f <;> simp_all [Effect.quiet, Effect.touches]
    · simp only [List.mem_cons, List.not_mem_nil, or_false] at h
      subst h; rfl
  | written pre o items hq hext hw =>
    exfalso
    rcases List.mem_append.mp he with h | h
    · have := hq _ h; simp [Effect.quiet] at this
    · rcases List.mem_cons.mp h with h | h
      · cases h
      · obtain ⟨it, _, hit⟩ := List.mem_map.mp h
        simp [writeOf] at hit

theorem closeTo_spec (c t : List α) (h : closeTo c t = true) :
    List.Forall₂ (fun ci ti => |ti - ci| ≤ (1.0e-12 : α) + (1.0e-9 : α) * |ci|) c t := by
  induction c generalizing t with
  | nil =>
    cases t with
    | nil => exact .nil
    | cons _ _ => simp [closeTo] at h
  | cons c0 cs ih =>
    cases t with
    | nil => simp [closeTo] at h
    | cons t0 ts =>
      simp only [closeTo, Bool.and_eq_true, decide_eq_true_eq, abs'_eq_abs] at h
      exact .cons h.1 (ih ts h.2)

theorem outcome_writes (rnd : α → Int) (st : Stages α) (r : Req α) (names : List Str) (sel : List (Entry α))
    (tr : List (Effect α)) (h : Outcome rnd st r names sel tr) (hne : writes tr ≠ []) :
    ∃ o, Written rnd st r names sel o (writes tr) := by
  cases h with
  | refused pre e hq =>
    exfalso
    apply hne
    rw [writes_append, writes_quiet pre hq]
    rfl
  | written pre o items hq hext hw =>
    refine ⟨o, ?_⟩
    have : writes (pre ++ Effect.openTarget r.ext :: items.map writeOf) = items := by
      rw [writes_append, writes_quiet pre hq]
      simp [writes, writes_map]
    rw [this]
    exact hw

/-! ### export-friendly names -/

theorem friendlyGo_spec (f : Str → Str) (acc keys names : List Str) (hacc : acc.Nodup)
    (h : friendlyGo f acc keys = .ok names) : names.Nodup ∧ names = acc ++ keys.map f := by
  induction keys generalizing acc with
  | nil =>
    simp only [friendlyGo, Except.ok.injEq] at h
    subst h
    exact ⟨hacc, by simp⟩
  | cons k ks ih =>
    unfold friendlyGo at h
    split at h
    · cases h
    next hnc =>
      have hnm : f k ∉ acc := by simpa using hnc
      obtain ⟨h1, h2⟩ := ih (acc ++ [f k]) (by
        rw [List.nodup_append]
        refine ⟨hacc, by simp, ?_⟩
        intro a ha b hb
        simp only [List.mem_cons, List.not_mem_nil, or_false] at hb
        subst hb
        intro hab; subst hab; exact hnm ha) h
      exact ⟨h1, by rw [h2]; simp⟩

end Qats.Export
