import Qats.Model.Dist
import Qats.Lemmas.RealOpsSimp
/-!
Bridging lemmas for the two Weibull formulas that both C15 and C17 are about: the generated quantile function
`Qats.Gen.wb_invcdf` and density `Qats.Gen.wb_pdf` at `α := ℝ` in ordinary Mathlib notation.  Kept apart from
`DistOps.lean` (all other C15 formulas) so that C17 depends on exactly the Weibull formulas it mentions.
-/
namespace Qats.Dist
open Qats Qats.Gen

-- Same proof style as in `DistOps.lean`: `simp only [defs] <;> dist_norm`.
set_option linter.unusedTactic false
set_option linter.unreachableTactic false
set_option linter.unnecessarySeqFocus false

theorem wb_pdf_eq (loc scale shape x : ℝ) :
    wb_pdf loc scale shape x =
      shape / scale * ((x - loc) / scale) ^ (shape - 1) * Real.exp (-((x - loc) / scale) ^ shape) := by
  simp only [wb_pdf, exp_real, rpow_real] <;> dist_norm

theorem wb_invcdf_eq (loc p scale shape : ℝ) :
    wb_invcdf loc p scale shape = loc + scale * (-Real.log (1 - p)) ^ (1 / shape) := by
  simp only [wb_invcdf, log_real, rpow_real] <;> dist_norm

end Qats.Dist
