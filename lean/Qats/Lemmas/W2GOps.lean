import Qats.Model.Dist
import Qats.Lemmas.RealOpsSimp
import Qats.Lemmas.WbOps
/-!
Bridging lemmas for the Gumbel-from-Weibull formulas (C17): the generated `Qats.Gen.w2g_*`, `wfw_*` at `α := ℝ` in
ordinary Mathlib notation.  These are the *only* lemmas whose proofs look at the syntactic shape of these generated
formulas.  Kept apart from `DistOps.lean` so that C15 does not depend on them; `WbOps.lean` is imported because
the C17 theorems relate these formulas to `wb_invcdf` / `wb_pdf`.
-/
namespace Qats.Dist
open Qats Qats.Gen

-- Same proof style as in `DistOps.lean`: `simp only [defs] <;> dist_norm`.
set_option linter.unusedTactic false
set_option linter.unreachableTactic false
set_option linter.unnecessarySeqFocus false

/-! ### Gumbel from Weibull -/

theorem w2g_loc_eq (loc n scale shape : ℝ) :
    w2g_loc loc n scale shape = loc + scale * Real.log n ^ (1 / shape) := by
  simp only [w2g_loc, log_real, rpow_real] <;> dist_norm

theorem w2g_scale_eq (n scale shape : ℝ) :
    w2g_scale n scale shape = 1 / (shape / scale * Real.log n ^ ((shape - 1) / shape)) := by
  simp only [w2g_scale, log_real, rpow_real] <;> dist_norm

theorem wfw_loc_eq (n wa wb wc : ℝ) :
    wfw_loc n wa wb wc = wa + wb * Real.log n ^ (1 / wc) := by
  simp only [wfw_loc, log_real, rpow_real] <;> dist_norm

theorem wfw_scale_eq (n wb wc : ℝ) :
    wfw_scale n wb wc = wb / wc * Real.log n ^ ((1 - wc) / wc) := by
  simp only [wfw_scale, log_real, rpow_real] <;> dist_norm

end Qats.Dist
