import Qats.Prelude
import Mathlib.Analysis.SpecialFunctions.Pow.Real
import Mathlib.Analysis.SpecialFunctions.Log.Base
import Mathlib.Analysis.SpecialFunctions.Gamma.Basic
import Mathlib.Analysis.SpecialFunctions.Trigonometric.Basic
import Mathlib.NumberTheory.LSeries.RiemannZeta
/-! The real-number interpretation of the transcendental operations of the generated formulas. -/
namespace Qats

noncomputable instance : TranscOps ℝ where
  exp := Real.exp
  log := Real.log
  log10 := Real.logb 10
  sqrt := Real.sqrt
  sin := Real.sin
  cos := Real.cos
  gamma := Real.Gamma
  abs := fun x => |x|
  rpow := fun x y => x ^ y
  pi := Real.pi
  zetac := fun x => (riemannZeta (x : ℂ)).re - 1

end Qats
