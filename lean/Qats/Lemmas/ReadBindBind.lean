import Mathlib.Tactic
import Qats.Model.ReadBind
import Qats.Lemmas.ReadBindRows
/-!
Lemmas for `ReadBindMain`: the binding loop of `_read` (`bindGroup`) in closed form, the registry invariant `RegOk`
and its preservation by one group of `_read`.
-/
namespace Qats.ReadBind
open Qats Qats.Names

variable {α : Type}

/-! ### the binding loop in closed form -/

/-- The series a list of bindings leaves under key `k` (the last one assigned), if any. -/
def lastVal : List (Entry α × Series α) → Str → Option (Series α)
  | [], _ => none
  | (e, s) :: r, k =>
    match lastVal r k with
    | some v => some v
    | none => if e.key == k then some s else none

def updC (zs : List (Entry α × Series α)) (p : Str × Option (Series α)) : Str × Option (Series α) :=
  match lastVal zs p.1 with
  | some v => (p.1, some v)
  | none => p

def updE (zs : List (Entry α × Series α)) (e : Entry α) : Entry α :=
  match lastVal zs e.key with
  | some v => { e with cache := some v }
  | none => e

@[simp] theorem updC_fst (zs : List (Entry α × Series α)) (p : Str × Option (Series α)) : (updC zs p).1 = p.1 := by
  unfold updC; split <;> rfl

@[simp] theorem updE_key (zs : List (Entry α × Series α)) (e : Entry α) : (updE zs e).key = e.key := by
  unfold updE; split <;> rfl

@[simp] theorem updE_parent (zs : List (Entry α × Series α)) (e : Entry α) : (updE zs e).parent = e.parent := by
  unfold updE; split <;> rfl

@[simp] theorem updE_idx (zs : List (Entry α × Series α)) (e : Entry α) : (updE zs e).idx = e.idx := by
  unfold updE; split <;> rfl

theorem updC_cons (e : Entry α) (s : Series α) (r : List (Entry α × Series α)) (p : Str × Option (Series α)) :
    updC r (if p.1 == e.key then (p.1, some s) else p) = updC ((e, s) :: r) p := by
  unfold updC
  simp only [lastVal]
  by_cases hk : p.1 = e.key
  · have h1 : (p.1 == e.key) = true := by simpa using hk
    have h2 : (e.key == p.1) = true := by simpa using hk.symm
    simp only [h1, if_true, h2]
    cases lastVal r p.1 <;> rfl
  · have h1 : (p.1 == e.key) = false := by simpa using hk
    have h2 : (e.key == p.1) = false := by simpa using (fun h => hk h.symm)
    simp only [h1, Bool.false_eq_true, if_false, h2]
    cases lastVal r p.1 <;> rfl

theorem updE_cons (e : Entry α) (s : Series α) (r : List (Entry α × Series α)) (x : Entry α) :
    updE r (if x.key == e.key then { x with cache := some s } else x) = updE ((e, s) :: r) x := by
  unfold updE
  simp only [lastVal]
  by_cases hk : x.key = e.key
  · have h1 : (x.key == e.key) = true := by simpa using hk
    have h2 : (e.key == x.key) = true := by simpa using hk.symm
    simp only [h1, if_true, h2]
    cases lastVal r x.key <;> rfl
  · have h1 : (x.key == e.key) = false := by simpa using hk
    have h2 : (e.key == x.key) = false := by simpa using (fun h => hk h.symm)
    simp only [h1, Bool.false_eq_true, if_false, h2]
    cases lastVal r x.key <;> rfl

theorem updC_nil (p : Str × Option (Series α)) : updC [] p = p := rfl
theorem updE_nil (e : Entry α) : updE [] e = e := rfl

/-- The loop `for key, ts in zip(keys, tslist): container[key] = ts; if store: register[key] = ts` in closed form:
every container slot / register entry ends up with the LAST series bound to its key, all others are untouched. -/
theorem bindGroup_eq (store : Bool) : ∀ (zs : List (Entry α × Series α)) (db : Db α) (c : Container α),
    bindGroup store db c zs = (if store then { reg := db.reg.map (updE zs) } else db, c.map (updC zs))
  | [], db, c => by
    have h1 : (updE ([] : List (Entry α × Series α))) = id := funext updE_nil
    have h2 : (updC ([] : List (Entry α × Series α))) = id := funext updC_nil
    cases store <;> simp [bindGroup, h1, h2]
  | (e, s) :: r, db, c => by
    simp only [bindGroup]
    rw [bindGroup_eq store r]
    have hc : (setVal c e.key s).map (updC r) = c.map (updC ((e, s) :: r)) := by
      simp only [setVal, List.map_map]
      apply List.map_congr_left
      intro p _
      exact updC_cons e s r p
    rw [hc]
    cases store with
    | false => simp
    | true =>
      simp only [if_true, setCache, List.map_map]
      congr 2
      apply List.map_congr_left
      intro x _
      exact updE_cons e s r x

theorem lastVal_isSome (zs : List (Entry α × Series α)) (k : Str) :
    (lastVal zs k).isSome = true ↔ k ∈ zs.map (·.1.key) := by
  induction zs with
  | nil => simp [lastVal]
  | cons z r ih =>
    obtain ⟨e, s⟩ := z
    simp only [lastVal, List.map_cons, List.mem_cons]
    cases h : lastVal r k with
    | some v =>
      rw [h] at ih
      simp only [Option.isSome_some, true_iff] at ih
      simp [ih]
    | none =>
      rw [h] at ih
      simp only [Option.isSome_none, Bool.false_eq_true, false_iff] at ih
      by_cases hk : e.key = k
      · simp [hk]
      · have : (e.key == k) = false := by simpa using hk
        simp only [this, Bool.false_eq_true, if_false, Option.isSome_none, false_iff, not_or]
        exact ⟨fun h => hk h.symm, ih⟩

/-- Under "last write wins" the series left under a key is right for (an entry with) that key. -/
theorem lastVal_good {R : Entry α → Series α → Prop} : ∀ (g : List (Entry α)) (ts : List (Series α)),
    LastWins R (fun e' e => e'.key = e.key) g ts → ∀ k v, lastVal (g.zip ts) k = some v → ∃ e ∈ g, e.key = k ∧ R e v
  | [], [], _, k, v, h => by simp [lastVal] at h
  | [], _ :: _, hl, _, _, _ => hl.elim
  | _ :: _, [], hl, _, _, _ => hl.elim
  | e :: g, s :: ts, hl, k, v, h => by
    obtain ⟨hhead, htail⟩ := hl
    simp only [List.zip_cons_cons, lastVal] at h
    cases hr : lastVal (g.zip ts) k with
    | some v' =>
      rw [hr] at h
      simp only [Option.some.injEq] at h
      subst h
      obtain ⟨e', he', hk, hR⟩ := lastVal_good g ts htail k v' hr
      exact ⟨e', by simp [he'], hk, hR⟩
    | none =>
      rw [hr] at h
      by_cases hk : e.key = k
      · have hb : (e.key == k) = true := by simpa using hk
        simp only [hb, if_true, Option.some.injEq] at h
        subst h
        rcases hhead with hR | ⟨e', he', hsame⟩
        · exact ⟨e, by simp, hk, hR⟩
        · exfalso
          have hmem : k ∈ (g.zip ts).map (·.1.key) := by
            have hz : (g.zip ts).map (·.1) = g := List.map_fst_zip (by rw [htail.length_eq])
            have : (g.zip ts).map (·.1.key) = g.map (·.key) := by
              rw [← hz, List.map_map]; simp only [hz]; rfl
            rw [this, ← hk, ← hsame]
            exact List.mem_map_of_mem he'
          have := (lastVal_isSome (g.zip ts) k).2 hmem
          rw [hr] at this
          simp at this
      · have hb : (e.key == k) = false := by simpa using hk
        simp [hb] at h

/-! ### the registry invariant -/

/-- Files on disk: all well-formed, pairwise different paths. -/
structure DiskOk (disk : List (File α)) : Prop where
  files : ∀ f ∈ disk, FileOk f
  paths : (disk.map (·.path)).Nodup

theorem DiskOk.file_eq {disk : List (File α)} (hd : DiskOk disk) {f f' : File α} (hf : f ∈ disk) (hf' : f' ∈ disk)
    (h : f.path = f'.path) : f = f' :=
  List.inj_on_of_nodup_map hd.paths hf hf' h

/-- The part of an entry `load` writes and nothing else changes. -/
def skel (e : Entry α) : Str × Str × Option Nat := (e.key, e.parent, e.idx)

theorem From.congr {f : File α} {j : Nat} {e e' : Entry α} (h : From f j e) (hs : skel e' = skel e) : From f j e' := by
  simp only [skel, Prod.mk.injEq] at hs
  obtain ⟨h1, h2, h3⟩ := hs
  exact ⟨h.lt, h2 ▸ h.parent, h1 ▸ h.key, fun hi => h3 ▸ h.idx hi⟩

/-- The registry is what `load` produced from files on disk (distinct keys), and whatever is cached is the stored series. -/
structure RegOk (disk : List (File α)) (db : Db α) : Prop where
  nodup : (keysOf db).Nodup
  from_disk : ∀ e ∈ db.reg, ∃ f ∈ disk, ∃ j, From f j e
  cache_ok : ∀ e ∈ db.reg, ∀ s, e.cache = some s → ∀ f ∈ disk, ∀ j, From f j e → s = stored f j

theorem RegOk.entry_eq {disk : List (File α)} {db : Db α} (h : RegOk disk db) {e e' : Entry α} (he : e ∈ db.reg)
    (he' : e' ∈ db.reg) (hk : e.key = e'.key) : e = e' :=
  List.inj_on_of_nodup_map h.nodup he he' hk

/-- "`s` is the series stored under key `k`", relative to a registry. -/
def GoodK (disk : List (File α)) (db : Db α) (k : Str) (s : Series α) : Prop :=
  ∀ e ∈ db.reg, e.key = k → ∀ f ∈ disk, ∀ j, From f j e → s = stored f j

theorem findEntry_some {db : Db α} {k : Str} {e : Entry α} (h : findEntry db k = some e) : e ∈ db.reg ∧ e.key = k := by
  unfold findEntry at h
  exact ⟨List.mem_of_find?_eq_some h, by simpa using List.find?_some h⟩

theorem findEntry_of_mem {disk : List (File α)} {db : Db α} (h : RegOk disk db) {e : Entry α} (he : e ∈ db.reg) :
    findEntry db e.key = some e := by
  cases hf : findEntry db e.key with
  | none =>
    unfold findEntry at hf
    have := List.find?_eq_none.1 hf e he
    simp at this
  | some e' =>
    obtain ⟨h1, h2⟩ := findEntry_some hf
    rw [h.entry_eq h1 he h2]

end Qats.ReadBind
