import Qats.Model.Motion
import Mathlib.Tactic
/-!
Helper lemmas on the `np.gradient` model (`interior`, `lastDiff`, `gradient`, `stepTimes`) over a field /
linearly ordered field; used by `Qats/Lemmas/MotionMain.lean`.
-/
namespace Qats.Motion
open Qats Qats.Gen
section grad

theorem pairwise_getElem?_lt {β : Type} [LT β] {t : List β} (ht : t.Pairwise (· < ·)) {i j : Nat} {a b : β}
    (hi : t[i]? = some a) (hj : t[j]? = some b) (hij : i < j) : a < b := by
  obtain ⟨hi', rfl⟩ := List.getElem?_eq_some_iff.mp hi
  obtain ⟨hj', rfl⟩ := List.getElem?_eq_some_iff.mp hj
  exact List.pairwise_iff_getElem.mp ht i j hi' hj' hij

variable {α : Type} [Field α]

/-- The three-point stencil of `interior`. -/
def stencil (t0 t1 t2 x0 x1 x2 : α) : α :=
  -(t2 - t1) / ((t1 - t0) * ((t1 - t0) + (t2 - t1))) * x0 + ((t2 - t1) - (t1 - t0)) / ((t1 - t0) * (t2 - t1)) * x1
    + (t1 - t0) / ((t2 - t1) * ((t1 - t0) + (t2 - t1))) * x2

theorem interior_cons3 (t0 t1 t2 : α) (ts : List α) (x0 x1 x2 : α) (xs : List α) :
    interior (t0 :: t1 :: t2 :: ts) (x0 :: x1 :: x2 :: xs) =
      stencil t0 t1 t2 x0 x1 x2 :: interior (t1 :: t2 :: ts) (x1 :: x2 :: xs) := by
  simp [interior, stencil]

theorem lastDiff_cons3 (t0 t1 t2 : α) (ts : List α) (x0 x1 x2 : α) (xs : List α) :
    lastDiff (t0 :: t1 :: t2 :: ts) (x0 :: x1 :: x2 :: xs) = lastDiff (t1 :: t2 :: ts) (x1 :: x2 :: xs) := by
  simp [lastDiff]

theorem lastDiff_two (t0 t1 x0 x1 : α) : lastDiff [t0, t1] [x0, x1] = some ((x1 - x0) / (t1 - t0)) := by
  simp [lastDiff]

theorem interior_length : ∀ (t x : List α), t.length = x.length → (interior t x).length = t.length - 2
  | t0 :: t1 :: t2 :: ts, x0 :: x1 :: x2 :: xs, h => by
    rw [interior_cons3, List.length_cons, interior_length (t1 :: t2 :: ts) (x1 :: x2 :: xs) (by simpa using h)]
    simp
  | [], _, _ => by simp [interior]
  | [_], _, _ => by simp [interior]
  | [_, _], _, _ => by simp [interior]
  | _ :: _ :: _ :: _, [], h => by simp at h
  | _ :: _ :: _ :: _, [_], h => by simp at h
  | _ :: _ :: _ :: _, [_, _], h => by simp at h

theorem lastDiff_isSome : ∀ (t x : List α), t.length = x.length → 2 ≤ t.length → ∃ l, lastDiff t x = some l
  | t0 :: t1 :: t2 :: ts, x0 :: x1 :: x2 :: xs, h, _ => by
    rw [lastDiff_cons3]; exact lastDiff_isSome _ _ (by simpa using h) (by simp)
  | [t0, t1], [x0, x1], _, _ => ⟨_, lastDiff_two ..⟩
  | [], _, _, h => by simp at h
  | [_], _, _, h => by simp at h
  | [_, _], [], h, _ => by simp at h
  | [_, _], [_], h, _ => by simp at h
  | [_, _], _ :: _ :: _ :: _, h, _ => by simp at h
  | _ :: _ :: _ :: _, [], h, _ => by simp at h
  | _ :: _ :: _ :: _, [_], h, _ => by simp at h
  | _ :: _ :: _ :: _, [_, _], h, _ => by simp at h


theorem gradient_cons2 (t0 t1 : α) (ts : List α) (x0 x1 : α) (xs : List α) (h : ts.length = xs.length) :
    gradient (t0 :: t1 :: ts) (x0 :: x1 :: xs) =
      (lastDiff (t0 :: t1 :: ts) (x0 :: x1 :: xs)).map fun l =>
        ((x1 - x0) / (t1 - t0)) :: (interior (t0 :: t1 :: ts) (x0 :: x1 :: xs) ++ [l]) := by
  simp [gradient, h]

theorem gradient_eq_some {t x g : List α} (h : gradient t x = some g) :
    ∃ t0 t1 ts x0 x1 xs l, t = t0 :: t1 :: ts ∧ x = x0 :: x1 :: xs ∧ ts.length = xs.length ∧
      lastDiff t x = some l ∧ g = ((x1 - x0) / (t1 - t0)) :: (interior t x ++ [l]) := by
  unfold gradient at h
  split at h
  · simp at h
  · rename_i hl
    split at h
    · rename_i t0 t1 ts x0 x1 xs
      rw [Option.map_eq_some_iff] at h
      obtain ⟨l, hl1, hl2⟩ := h
      exact ⟨t0, t1, ts, x0, x1, xs, l, rfl, rfl, by simpa using hl, hl1, hl2.symm⟩
    · simp at h

theorem interior_getElem? : ∀ (t x : List α) (i : Nat) (t0 t1 t2 x0 x1 x2 : α),
    t[i]? = some t0 → t[i+1]? = some t1 → t[i+2]? = some t2 →
    x[i]? = some x0 → x[i+1]? = some x1 → x[i+2]? = some x2 →
    (interior t x)[i]? = some (stencil t0 t1 t2 x0 x1 x2)
  | a0 :: a1 :: a2 :: ts, b0 :: b1 :: b2 :: xs, 0, t0, t1, t2, x0, x1, x2, h0, h1, h2, k0, k1, k2 => by
    simp at h0 h1 h2 k0 k1 k2
    subst h0 h1 h2 k0 k1 k2
    simp [interior_cons3]
  | a0 :: a1 :: a2 :: ts, b0 :: b1 :: b2 :: xs, i + 1, t0, t1, t2, x0, x1, x2, h0, h1, h2, k0, k1, k2 => by
    rw [interior_cons3, List.getElem?_cons_succ]
    exact interior_getElem? (a1 :: a2 :: ts) (b1 :: b2 :: xs) i t0 t1 t2 x0 x1 x2
      (by simpa using h0) (by simpa using h1) (by simpa using h2)
      (by simpa using k0) (by simpa using k1) (by simpa using k2)
  | [], _, _, _, _, _, _, _, _, _, _, h, _, _, _ => by simp at h
  | [_], _, _, _, _, _, _, _, _, _, _, h, _, _, _ => by simp at h
  | [_, _], _, _, _, _, _, _, _, _, _, _, h, _, _, _ => by simp at h
  | _ :: _ :: _ :: _, [], _, _, _, _, _, _, _, _, _, _, _, _, h => by simp at h
  | _ :: _ :: _ :: _, [_], _, _, _, _, _, _, _, _, _, _, _, _, h => by simp at h
  | _ :: _ :: _ :: _, [_, _], _, _, _, _, _, _, _, _, _, _, _, _, h => by simp at h

/-- Interior samples of the gradient are the three-point stencil. -/
theorem gradient_getElem?_interior {t x g : List α} (h : gradient t x = some g) (i : Nat) (hi : i + 2 < t.length)
    {t0 t1 t2 x0 x1 x2 : α}
    (h0 : t[i]? = some t0) (h1 : t[i+1]? = some t1) (h2 : t[i+2]? = some t2)
    (k0 : x[i]? = some x0) (k1 : x[i+1]? = some x1) (k2 : x[i+2]? = some x2) :
    g[i+1]? = some (stencil t0 t1 t2 x0 x1 x2) := by
  obtain ⟨a0, a1, ts, b0, b1, xs, l, rfl, rfl, hl, hlast, rfl⟩ := gradient_eq_some h
  have hlen := interior_length (a0 :: a1 :: ts) (b0 :: b1 :: xs) (by simp [hl])
  rw [List.getElem?_cons_succ, List.getElem?_append_left (by rw [hlen]; omega)]
  exact interior_getElem? _ _ i _ _ _ _ _ _ h0 h1 h2 k0 k1 k2

theorem gradient_length_aux (t x g : List α) (h : gradient t x = some g) : g.length = x.length := by
  obtain ⟨a0, a1, ts, b0, b1, xs, l, rfl, rfl, hl, hlast, rfl⟩ := gradient_eq_some h
  have hlen := interior_length (a0 :: a1 :: ts) (b0 :: b1 :: xs) (by simp [hl])
  simp [hlen, hl]

theorem gradient_some_aux (t x : List α) (hl : t.length = x.length) (h2 : 2 ≤ x.length) : ∃ g, gradient t x = some g := by
  match t, x, hl, h2 with
  | t0 :: t1 :: ts, x0 :: x1 :: xs, hl, _ =>
    have hl' : ts.length = xs.length := by simpa using hl
    obtain ⟨l, hl2⟩ := lastDiff_isSome (t0 :: t1 :: ts) (x0 :: x1 :: xs) hl (by simp)
    exact ⟨_, by rw [gradient_cons2 _ _ _ _ _ _ hl', hl2]; rfl⟩
  | [], [], _, h => simp at h
  | [_], [_], _, h => simp at h
  | [_], [], h, _ => simp at h
  | [_], _ :: _ :: _, h, _ => simp at h
  | [], _ :: _, h, _ => simp at h
  | _ :: _ :: _, [], h, _ => simp at h
  | _ :: _ :: _, [_], h, _ => simp at h


/-! ### linearity -/

theorem stencil_linear (a b t0 t1 t2 x0 x1 x2 y0 y1 y2 : α) :
    stencil t0 t1 t2 (a * x0 + b * y0) (a * x1 + b * y1) (a * x2 + b * y2) =
      a * stencil t0 t1 t2 x0 x1 x2 + b * stencil t0 t1 t2 y0 y1 y2 := by
  unfold stencil; ring

theorem interior_linear (a b : α) : ∀ (t x y : List α), t.length = x.length → x.length = y.length →
    interior t (List.zipWith (fun u v => a * u + b * v) x y) =
      List.zipWith (fun u v => a * u + b * v) (interior t x) (interior t y)
  | t0 :: t1 :: t2 :: ts, x0 :: x1 :: x2 :: xs, y0 :: y1 :: y2 :: ys, h, k => by
    have ih := interior_linear a b (t1 :: t2 :: ts) (x1 :: x2 :: xs) (y1 :: y2 :: ys)
      (by simpa using h) (by simpa using k)
    simp only [List.zipWith_cons_cons] at ih ⊢
    rw [interior_cons3, interior_cons3, interior_cons3, ih, List.zipWith_cons_cons, stencil_linear]
  | [], _, _, _, _ => by simp [interior]
  | [_], _, _, _, _ => by simp [interior]
  | [_, _], [], _, h, _ => by simp at h
  | [_, _], [_], _, h, _ => by simp at h
  | [_, _], _ :: _ :: _ :: _, _, h, _ => by simp at h
  | [_, _], [_, _], [], _, k => by simp at k
  | [_, _], [_, _], [_], _, k => by simp at k
  | [_, _], [_, _], _ :: _ :: _ :: _, _, k => by simp at k
  | [_, _], [_, _], [_, _], _, _ => by simp [interior]
  | _ :: _ :: _ :: _, [], _, h, _ => by simp at h
  | _ :: _ :: _ :: _, [_], _, h, _ => by simp at h
  | _ :: _ :: _ :: _, [_, _], _, h, _ => by simp at h
  | _ :: _ :: _ :: _, _ :: _ :: _ :: _, [], _, k => by simp at k
  | _ :: _ :: _ :: _, _ :: _ :: _ :: _, [_], _, k => by simp at k
  | _ :: _ :: _ :: _, _ :: _ :: _ :: _, [_, _], _, k => by simp at k

theorem lastDiff_linear (a b : α) : ∀ (t x y : List α) (l1 l2 : α), t.length = x.length → x.length = y.length →
    lastDiff t x = some l1 → lastDiff t y = some l2 →
    lastDiff t (List.zipWith (fun u v => a * u + b * v) x y) = some (a * l1 + b * l2)
  | t0 :: t1 :: t2 :: ts, x0 :: x1 :: x2 :: xs, y0 :: y1 :: y2 :: ys, l1, l2, h, k, hx, hy => by
    rw [lastDiff_cons3] at hx hy
    have ih := lastDiff_linear a b (t1 :: t2 :: ts) (x1 :: x2 :: xs) (y1 :: y2 :: ys) l1 l2
      (by simpa using h) (by simpa using k) hx hy
    simp only [List.zipWith_cons_cons] at ih ⊢
    rw [lastDiff_cons3, ih]
  | [t0, t1], [x0, x1], [y0, y1], l1, l2, _, _, hx, hy => by
    rw [lastDiff_two, Option.some.injEq] at hx hy
    subst hx hy
    simp only [List.zipWith_cons_cons, List.zipWith_nil_right, lastDiff_two, Option.some.injEq]
    ring
  | [], _, _, _, _, _, _, hx, _ => by simp [lastDiff] at hx
  | [_], _, _, _, _, _, _, hx, _ => by simp [lastDiff] at hx
  | [_, _], [], _, _, _, h, _, _, _ => by simp at h
  | [_, _], [_], _, _, _, h, _, _, _ => by simp at h
  | [_, _], _ :: _ :: _ :: _, _, _, _, h, _, _, _ => by simp at h
  | [_, _], [_, _], [], _, _, _, k, _, _ => by simp at k
  | [_, _], [_, _], [_], _, _, _, k, _, _ => by simp at k
  | [_, _], [_, _], _ :: _ :: _ :: _, _, _, _, k, _, _ => by simp at k
  | _ :: _ :: _ :: _, [], _, _, _, h, _, _, _ => by simp at h
  | _ :: _ :: _ :: _, [_], _, _, _, h, _, _, _ => by simp at h
  | _ :: _ :: _ :: _, [_, _], _, _, _, h, _, _, _ => by simp at h
  | _ :: _ :: _ :: _, _ :: _ :: _ :: _, [], _, _, _, k, _, _ => by simp at k
  | _ :: _ :: _ :: _, _ :: _ :: _ :: _, [_], _, _, _, k, _, _ => by simp at k
  | _ :: _ :: _ :: _, _ :: _ :: _ :: _, [_, _], _, _, _, k, _, _ => by simp at k

theorem gradient_linear_aux (t x y gx gy : List α) (a b : α) (hxy : x.length = y.length)
    (hx : gradient t x = some gx) (hy : gradient t y = some gy) :
    gradient t (List.zipWith (fun u v => a * u + b * v) x y) = some (List.zipWith (fun u v => a * u + b * v) gx gy) := by
  obtain ⟨t0, t1, ts, x0, x1, xs, l1, rfl, rfl, hl, hl1, rfl⟩ := gradient_eq_some hx
  obtain ⟨t0', t1', ts', y0, y1, ys, l2, ht, rfl, hl', hl2, rfl⟩ := gradient_eq_some hy
  simp only [List.cons.injEq] at ht
  obtain ⟨rfl, rfl, rfl⟩ := ht
  have hxy' : xs.length = ys.length := by simpa using hxy
  have htx : (t0 :: t1 :: ts).length = (x0 :: x1 :: xs).length := by simp [hl]
  have h1 := lastDiff_linear a b _ _ _ l1 l2 htx hxy hl1 hl2
  have h2 := interior_linear a b _ _ _ htx hxy
  have hlx := interior_length _ _ htx
  have hly := interior_length (t0 :: t1 :: ts) (y0 :: y1 :: ys) (by simp [hl'])
  simp only [List.zipWith_cons_cons] at h1 h2 ⊢
  rw [gradient_cons2 _ _ _ _ _ _ (by simp [hl, ← hxy']), h1, h2, Option.map_some,
    List.zipWith_append (by rw [hlx, hly])]
  simp only [List.zipWith_cons_cons, List.zipWith_nil_right, Option.some.injEq, List.cons.injEq, and_true]
  ring


/-! ### scalar step -/

theorem stepTimes_length (h : α) : ∀ (n : Nat) (s : α), (stepTimes h n s).length = n
  | 0, _ => rfl
  | n + 1, s => by simp [stepTimes, stepTimes_length h n]

theorem stepTimes_getElem? (h : α) : ∀ (n : Nat) (s : α) (i : Nat), i < n → (stepTimes h n s)[i]? = some (s + i * h)
  | 0, _, _, hi => by simp at hi
  | n + 1, s, 0, _ => by simp [stepTimes]
  | n + 1, s, i + 1, hi => by
    rw [stepTimes, List.getElem?_cons_succ, stepTimes_getElem? h n (s + h) i (by omega)]
    push_cast; congr 1; ring

/-! ### exactness on strictly increasing grids -/
section order
variable [LinearOrder α] [IsStrictOrderedRing α]

theorem stencil_affine (p q : α) {t0 t1 t2 : α} (h01 : t0 < t1) (h12 : t1 < t2) :
    stencil t0 t1 t2 (p * t0 + q) (p * t1 + q) (p * t2 + q) = p := by
  have h1 : t1 - t0 ≠ 0 := sub_ne_zero.mpr h01.ne'
  have h2 : t2 - t1 ≠ 0 := sub_ne_zero.mpr h12.ne'
  have h3 : (t1 - t0) + (t2 - t1) ≠ 0 := (add_pos (sub_pos.mpr h01) (sub_pos.mpr h12)).ne'
  unfold stencil
  field_simp
  ring

theorem stencil_quadratic (a b c : α) {t0 t1 t2 : α} (h01 : t0 < t1) (h12 : t1 < t2) :
    stencil t0 t1 t2 (a * t0 * t0 + b * t0 + c) (a * t1 * t1 + b * t1 + c) (a * t2 * t2 + b * t2 + c) =
      2 * a * t1 + b := by
  have h1 : t1 - t0 ≠ 0 := sub_ne_zero.mpr h01.ne'
  have h2 : t2 - t1 ≠ 0 := sub_ne_zero.mpr h12.ne'
  have h3 : (t1 - t0) + (t2 - t1) ≠ 0 := (add_pos (sub_pos.mpr h01) (sub_pos.mpr h12)).ne'
  unfold stencil
  field_simp
  ring

/-- Local exactness: if the signal is affine in `t` at three consecutive samples, the gradient at the
middle one is the slope. -/
theorem gradient_local_affine {t x g : List α} (ht : t.Pairwise (· < ·)) (h : gradient t x = some g)
    (p q : α) (i : Nat) (hi : i + 2 < t.length)
    (hx : ∀ j, i ≤ j → j ≤ i + 2 → ∀ tj, t[j]? = some tj → x[j]? = some (p * tj + q)) :
    g[i+1]? = some p := by
  have e0 : t[i]? = some t[i] := List.getElem?_eq_getElem (by omega)
  have e1 : t[i+1]? = some t[i+1] := List.getElem?_eq_getElem (by omega)
  have e2 : t[i+2]? = some t[i+2] := List.getElem?_eq_getElem (by omega)
  rw [gradient_getElem?_interior h i hi e0 e1 e2 (hx _ (by omega) (by omega) _ e0)
    (hx _ (by omega) (by omega) _ e1) (hx _ (by omega) (by omega) _ e2),
    stencil_affine p q (pairwise_getElem?_lt ht e0 e1 (by omega)) (pairwise_getElem?_lt ht e1 e2 (by omega))]

theorem gradient_quadratic_aux (t g : List α) (a b c : α) (ht : t.Pairwise (· < ·))
    (hg : gradient t (t.map fun u => a * u * u + b * u + c) = some g) (i : Nat) (hi : 1 ≤ i) (hi' : i + 1 < t.length)
    (ti : α) (hti : t[i]? = some ti) : g[i]? = some (2 * a * ti + b) := by
  obtain ⟨k, rfl⟩ : ∃ k, i = k + 1 := ⟨i - 1, by omega⟩
  have e0 : t[k]? = some t[k] := List.getElem?_eq_getElem (by omega)
  have e2 : t[k+2]? = some t[k+2] := List.getElem?_eq_getElem (by omega)
  rw [gradient_getElem?_interior hg k (by omega) e0 hti e2
    (by rw [List.getElem?_map, e0]; rfl) (by rw [List.getElem?_map, hti]; rfl) (by rw [List.getElem?_map, e2]; rfl),
    stencil_quadratic a b c (pairwise_getElem?_lt ht e0 hti (by omega)) (pairwise_getElem?_lt ht hti e2 (by omega))]

/-- The gradient of the gradient of a quadratic signal is exact from the third to the third-last sample. -/
theorem gradient_gradient_quadratic (t v acc : List α) (a b c : α) (ht : t.Pairwise (· < ·))
    (hv : gradient t (t.map fun u => a * u * u + b * u + c) = some v) (hacc : gradient t v = some acc)
    (i : Nat) (hi : 2 ≤ i) (hi' : i + 2 < t.length) : acc[i]? = some (2 * a) := by
  obtain ⟨k, rfl⟩ : ∃ k, i = k + 1 := ⟨i - 1, by omega⟩
  refine gradient_local_affine ht hacc (2 * a) b k (by omega) ?_
  intro j hj hj' tj htj
  exact gradient_quadratic_aux t v a b c ht hv j (by omega) (by omega) tj htj

omit [IsStrictOrderedRing α] in
theorem diffQuot_affine (p q : α) {t0 t1 : α} (h01 : t0 < t1) : (p * t1 + q - (p * t0 + q)) / (t1 - t0) = p := by
  have h1 : t1 - t0 ≠ 0 := sub_ne_zero.mpr h01.ne'
  field_simp
  ring

theorem interior_affine (p q : α) : ∀ (t : List α), t.Pairwise (· < ·) →
    interior t (t.map fun u => p * u + q) = List.replicate (t.length - 2) p
  | t0 :: t1 :: t2 :: ts, h => by
    have ih := interior_affine p q (t1 :: t2 :: ts) h.tail
    have h01 : t0 < t1 := (List.pairwise_cons.mp h).1 t1 (by simp)
    have h12 : t1 < t2 := (List.pairwise_cons.mp h.tail).1 t2 (by simp)
    simp only [List.map_cons] at ih ⊢
    rw [interior_cons3, ih, stencil_affine p q h01 h12]
    simp [List.replicate_succ]
  | [], _ => by simp [interior]
  | [_], _ => by simp [interior]
  | [_, _], _ => by simp [interior]

omit [IsStrictOrderedRing α] in
theorem lastDiff_affine (p q : α) : ∀ (t : List α), t.Pairwise (· < ·) → 2 ≤ t.length →
    lastDiff t (t.map fun u => p * u + q) = some p
  | t0 :: t1 :: t2 :: ts, h, _ => by
    have ih := lastDiff_affine p q (t1 :: t2 :: ts) h.tail (by simp)
    simp only [List.map_cons] at ih ⊢
    rw [lastDiff_cons3, ih]
  | [t0, t1], h, _ => by
    have h01 : t0 < t1 := (List.pairwise_cons.mp h).1 t1 (by simp)
    simp only [List.map_cons, List.map_nil, lastDiff_two, diffQuot_affine p q h01]
  | [], _, h => by simp at h
  | [_], _, h => by simp at h

theorem gradient_affine_aux (t : List α) (p q : α) (ht : t.Pairwise (· < ·)) (h2 : 2 ≤ t.length) :
    gradient t (t.map fun u => p * u + q) = some (List.replicate t.length p) := by
  match t, ht, h2 with
  | t0 :: t1 :: ts, ht, h2 =>
    have h01 : t0 < t1 := (List.pairwise_cons.mp ht).1 t1 (by simp)
    have h1 := lastDiff_affine p q _ ht h2
    have h3 := interior_affine p q _ ht
    simp only [List.map_cons] at h1 h3 ⊢
    rw [gradient_cons2 _ _ _ _ _ _ (by simp), h1, h3, Option.map_some, diffQuot_affine p q h01]
    simp only [List.length_cons, Option.some.injEq]
    rw [show [p] = List.replicate 1 p from rfl, List.replicate_append_replicate, ← List.replicate_succ]
    congr 1
  | [], _, h => simp at h
  | [_], _, h => simp at h

theorem stepTimes_pairwise (h : α) (hh : 0 < h) : ∀ (n : Nat) (s : α), (stepTimes h n s).Pairwise (· < ·)
  | 0, _ => by simp [stepTimes]
  | n + 1, s => by
    rw [stepTimes, List.pairwise_cons]
    refine ⟨?_, stepTimes_pairwise h hh n (s + h)⟩
    intro b hb
    obtain ⟨i, hi, rfl⟩ := List.getElem_of_mem hb
    rw [stepTimes_length] at hi
    have := stepTimes_getElem? h n (s + h) i hi
    rw [List.getElem?_eq_getElem (by rw [stepTimes_length]; exact hi), Option.some.injEq] at this
    rw [this]
    have : (0 : α) ≤ i * h := mul_nonneg (Nat.cast_nonneg i) hh.le
    linarith

theorem stepTimes_spec_aux (h : α) (hh : 0 < h) (n : Nat) (s : α) :
    (stepTimes h n s).length = n ∧ (stepTimes h n s).Pairwise (· < ·) ∧
      ∀ i, i < n → (stepTimes h n s)[i]? = some (s + i * h) :=
  ⟨stepTimes_length h n s, stepTimes_pairwise h hh n s, stepTimes_getElem? h n s⟩

end order
end grad
end Qats.Motion
