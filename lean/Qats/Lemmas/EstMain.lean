import Qats.Model.Dist
import Qats.Lemmas.RealOps
import Mathlib.Tactic
import Mathlib.Data.Nat.Choose.Sum
import Qats.Lemmas.EstOps
import Qats.Lemmas.EstRank
import Qats.Lemmas.EstSums
import Qats.Lemmas.EstPwm
import Qats.Lemmas.EstMle
import Qats.Lemmas.EstLse
/-!
Main lemmas behind the C16 property theorems (statements fixed by `Qats/Props/C16.lean`). Over ℝ.
`a > 0`, `b` arbitrary: the sample is transformed by `x ↦ a·x + b`; sorting is preserved, so the statements are
about an ascending sample `xs`.
-/
namespace Qats.Dist
open Qats Qats.Gen

/- Some domain hypotheses of the fixed statements are not needed over ℝ (Mathlib's total `/`, `log`, `sqrt`
make the identities hold also in the degenerate cases): `hden2` in `weibullPwm_equivariant'`, `hden` in
`weibullPwm2_scale'`, `ha` in `gumbelPwm_equivariant'`, `hn` in `gumbelMsm_moments'` / `min_mirror_msm'`,
`hs` in `gumbelLse_equivariant'` / `min_mirror_lse'`, `hs`, `hz` in `min_mirror_mle'`.  They are kept because
they describe the domain on which the floating-point implementation is meaningful. -/
set_option linter.unusedVariables false

/-- Our Pascal-recursion `choose` is `Nat.choose`. -/
theorem choose_eq' (n k : Nat) : choose n k = Nat.choose n k := by
  exact Est.choose_eq n k

/-- `M_{1,j,0}(a·x + b) = a·M_{1,j,0}(x) + b/(j+1)` (hockey-stick identity), for samples with more than `j` points. -/
theorem mlj_affine' (xs : List ℝ) (a b : ℝ) (j : Nat) (hn : j < xs.length) :
    mlj (xs.map fun x => a * x + b) j = a * mlj xs j + b / (j + 1) := by
  exact Est.mlj_affine xs a b j hn

/-- `mk(a·x + b, k) = a·mk(x, k) + b/(k+1)`. -/
theorem mk_affine' (xs : List ℝ) (a b : ℝ) (k : Nat) (hn : k < xs.length) :
    mk (xs.map fun x => a * x + b) k = a * mk xs k + b / (k + 1) := by
  exact Est.mk_affine xs a b k hn

/-- Weibull PWM is equivariant: location and scale transform, shape is unchanged. Hypotheses: the quantities the
formulas divide by / take logarithms of are in their domain (non-degenerate sample). -/
theorem weibullPwm_equivariant' (xs : List ℝ) (a b : ℝ) (ha : 0 < a) (hn : 4 ≤ xs.length)
    (hden : mlj xs 0 - 8 * mlj xs 1 + 12 * mlj xs 2 - 4 * mlj xs 3 ≠ 0)
    (hden2 : 5 * mlj xs 1 - mlj xs 0 - 6 * mlj xs 2 + 2 * mlj xs 3 ≠ 0) :
    weibullPwm (xs.map fun x => a * x + b) =
      (a * (weibullPwm xs).1 + b, a * (weibullPwm xs).2.1, (weibullPwm xs).2.2) := by
  exact Est.weibullPwm_equivariant xs a b ha hn hden

/-- Two-parameter Weibull PWM is scale equivariant (no shift: the location is fixed at 0). -/
theorem weibullPwm2_scale' (xs : List ℝ) (a : ℝ) (ha : 0 < a) (hn : 2 ≤ xs.length)
    (hden : mlj xs 0 - mlj xs 1 ≠ 0) :
    weibullPwm2 (xs.map fun x => a * x + 0) = (a * (weibullPwm2 xs).1, (weibullPwm2 xs).2) := by
  exact Est.weibullPwm2_scale xs a ha hn

theorem gumbelPwm_equivariant' (xs : List ℝ) (a b : ℝ) (ha : 0 < a) (hn : 2 ≤ xs.length) :
    gumbelPwm (xs.map fun x => a * x + b) = (a * (gumbelPwm xs).1 + b, a * (gumbelPwm xs).2) := by
  exact Est.gumbelPwm_equivariant xs a b hn

theorem mean_affine' (xs : List ℝ) (a b : ℝ) (hn : xs ≠ []) :
    mean (xs.map fun x => a * x + b) = a * mean xs + b := by
  exact Est.mean_affine xs a b hn

theorem sdUnbiased_affine' (xs : List ℝ) (a b : ℝ) (ha : 0 < a) (hn : 2 ≤ xs.length) :
    sdUnbiased (xs.map fun x => a * x + b) = a * sdUnbiased xs := by
  exact Est.sdUnbiased_affine xs a b ha.le (by rintro rfl; simp at hn)

theorem gumbelMsm_equivariant' (xs : List ℝ) (a b : ℝ) (ha : 0 < a) (hn : 2 ≤ xs.length) :
    gumbelMsm (xs.map fun x => a * x + b) = (a * (gumbelMsm xs).1 + b, a * (gumbelMsm xs).2) := by
  exact Est.gumbelMsm_equivariant xs a b ha hn

/-- Method of moments (Gumbel): the fitted distribution has the sample mean and the unbiased sample standard
deviation (the Gumbel mean / std formulas are the generated `gu_mean`, `gu_std`). -/
theorem gumbelMsm_moments' (xs : List ℝ) (hn : 2 ≤ xs.length) :
    gu_mean (gumbelMsm xs).1 (gumbelMsm xs).2 = mean xs ∧ gu_std (gumbelMsm xs).2 = sdUnbiased xs := by
  exact Est.gumbelMsm_moments xs

/-- Method of moments (Weibull): if the shape `c` solves the skewness equation `wb_msm_eq c c1 = 0`, the fitted
distribution reproduces the sample mean `a1`, the population variance `m2` and the skewness `c1`. -/
theorem weibullMsm_moments' (a1 m2 c1 c : ℝ) (hc : 0 < c) (hm2 : 0 < m2)
    (hvar : 0 < Real.Gamma ((c + 2) / c) - Real.Gamma ((c + 1) / c) ^ 2)
    (hroot : wb_msm_eq c c1 = 0) :
    let g1 := wb_msm_g1 c
    let g2 := wb_msm_g2 c
    let b := wb_msm_b g1 g2 m2
    let a := wb_msm_a a1 b g1
    wb_mean a b c = a1 ∧ wb_std b c = Real.sqrt m2 ∧ wb_skew c = c1 := by
  exact Est.weibullMsm_moments a1 m2 c1 c hc hm2 hvar hroot

/-- Iterative Gumbel MLE: `(loc, scale)` solves the equations for `z` iff `(a·loc + b, a·scale)` solves them for
`a·z + b`. -/
theorem gumbelMle_equivariant' (z : List ℝ) (loc scale a b : ℝ) (ha : 0 < a) (hs : 0 < scale) (hz : z ≠ []) :
    gumbelMleEq loc scale z = (0, 0) ↔
      gumbelMleEq (a * loc + b) (a * scale) (z.map fun x => a * x + b) = (0, 0) := by
  exact Est.gumbelMle_equivariant z loc scale a b ha hs hz

/-- Iterative Gumbel LSE: the residual vector is invariant, so minimisers map to minimisers. -/
theorem gumbelLse_equivariant' (z : List ℝ) (loc scale a b : ℝ) (ha : 0 < a) (hs : 0 < scale) :
    gumbelLseRes (a * loc + b) (a * scale) (z.map fun x => a * x + b) = gumbelLseRes loc scale z := by
  exact Est.gumbelLse_equivariant z loc scale a b ha

/-- Minima mirror maxima, method of moments. -/
theorem min_mirror_msm' (xs : List ℝ) (hn : 2 ≤ xs.length) :
    gumbelMinMsm xs = (-(gumbelMsm (xs.map fun x => -x)).1, (gumbelMsm (xs.map fun x => -x)).2) := by
  exact Est.min_mirror_msm xs

/-- Minima mirror maxima, likelihood equations: `(loc, scale)` solves the minima equations for `z` iff
`(-loc, scale)` solves the maxima equations for `-z`. -/
theorem min_mirror_mle' (z : List ℝ) (loc scale : ℝ) (hs : 0 < scale) (hz : z ≠ []) :
    gumbelMinMleEq loc scale z = (0, 0) ↔ gumbelMleEq (-loc) scale (z.map fun x => -x) = (0, 0) := by
  exact Est.min_mirror_mle z loc scale

/-- Minima mirror maxima, least squares: the residuals of the minima fit to the ascending sample `z` are, in
reverse order and with opposite sign, those of the maxima fit to the ascending sample `(-z).reverse`, up to the
symmetry of the median-rank plotting positions `F_i + F_{n+1-i} = 1`. -/
theorem min_mirror_lse' (z : List ℝ) (loc scale : ℝ) (hs : 0 < scale) :
    gumbelMinLseRes loc scale z = ((gumbelLseRes (-loc) scale ((z.map fun x => -x).reverse)).map fun r => -r).reverse := by
  exact Est.min_mirror_lse z loc scale

end Qats.Dist
