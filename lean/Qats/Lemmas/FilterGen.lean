import Qats.Model.Filter
import Qats.Gen.Formulas
import Mathlib.Tactic.Ring
import Mathlib.Tactic.FieldSimp
import Mathlib.Tactic.NormNum
import Mathlib.Data.Real.Basic
/-!
The hand-written `Qats.Filter.design` against the expressions regenerated from `qats/signal.py` on every run
(`Qats.Gen.flt_*`: the second argument of `scipy.signal.butter` in `lowpass`, `highpass`, `bandpass`, `bandblock`, with the
locals `nyq` / `normal_cutoff` inlined).  Proved up to field normalisation, so harmless rewrites of the source
(`fc * 2 * dt`, `fc * dt / 0.5`, …) keep the tie while `0.5 * dt` for the Nyquist frequency or a dropped `dt` break it.
-/
namespace Qats.Filter
open Qats Qats.Gen

/-- Closes `a = b` between a model expression and a regenerated one: literals normalised, then equal as field expressions. -/
macro "wn_norm" : tactic =>
  `(tactic| first
    | rfl
    | (norm_num1; first | done | rfl | ring1 | (field_simp; first | done | ring1))
    | (field_simp; first | done | ring1))

/-- cut-off `f` (Hz) as a fraction of the Nyquist frequency `1 / (2 dt)` -/
noncomputable def frac (dt f : ℝ) : ℝ := f / (1 / (2 * dt))

theorem lp_frac (dt fc : ℝ) (hdt : dt ≠ 0) : flt_lp_wn dt fc = frac dt fc := by
  simp only [flt_lp_wn, frac]; wn_norm
theorem hp_frac (dt fc : ℝ) (hdt : dt ≠ 0) : flt_hp_wn dt fc = frac dt fc := by
  simp only [flt_hp_wn, frac]; wn_norm
theorem bp1_frac (dt f1 f2 : ℝ) (hdt : dt ≠ 0) : flt_bp_wn1 dt f1 f2 = frac dt f1 := by
  simp only [flt_bp_wn1, frac]; wn_norm
theorem bp2_frac (dt f1 f2 : ℝ) (hdt : dt ≠ 0) : flt_bp_wn2 dt f1 f2 = frac dt f2 := by
  simp only [flt_bp_wn2, frac]; wn_norm
theorem bs1_frac (dt f1 f2 : ℝ) (hdt : dt ≠ 0) : flt_bs_wn1 dt f1 f2 = frac dt f1 := by
  simp only [flt_bs_wn1, frac]; wn_norm
theorem bs2_frac (dt f1 f2 : ℝ) (hdt : dt ≠ 0) : flt_bs_wn2 dt f1 f2 = frac dt f2 := by
  simp only [flt_bs_wn2, frac]; wn_norm
theorem model_frac (dt f : ℝ) (hdt : dt ≠ 0) : f / nyquist dt = frac dt f := by
  simp only [nyquist, frac]; wn_norm

/-- the normalised cut-offs of the regenerated source expressions, by request -/
noncomputable def sourceWn (s : Spec ℝ) (dt : ℝ) : List ℝ :=
  match s with
  | .lp fc => [flt_lp_wn dt fc]
  | .hp fc => [flt_hp_wn dt fc]
  | .bp f1 f2 => [flt_bp_wn1 dt f1 f2, flt_bp_wn2 dt f1 f2]
  | .bs f1 f2 => [flt_bs_wn1 dt f1 f2, flt_bs_wn2 dt f1 f2]

/-- the cut-offs of a request, as fractions of the Nyquist frequency -/
noncomputable def fracWn (s : Spec ℝ) (dt : ℝ) : List ℝ :=
  match s with
  | .lp fc => [frac dt fc]
  | .hp fc => [frac dt fc]
  | .bp f1 f2 => [frac dt f1, frac dt f2]
  | .bs f1 f2 => [frac dt f1, frac dt f2]

theorem sourceWn_fraction_of_nyquist' (s : Spec ℝ) (dt : ℝ) (hdt : dt ≠ 0) : sourceWn s dt = fracWn s dt := by
  cases s <;> simp only [sourceWn, fracWn, lp_frac _ _ hdt, hp_frac _ _ hdt, bp1_frac _ _ _ hdt, bp2_frac _ _ _ hdt,
    bs1_frac _ _ _ hdt, bs2_frac _ _ _ hdt]

theorem design_wn_is_source' (s : Spec ℝ) (dt : ℝ) (hdt : dt ≠ 0) : (design s dt).wn = sourceWn s dt := by
  rw [sourceWn_fraction_of_nyquist' s dt hdt]
  cases s <;> simp only [design, fracWn, model_frac _ _ hdt]

end Qats.Filter
