import Mathlib.Tactic
import Qats.Model.ReadBind
import Qats.Lemmas.ReadBindDirect
/-!
Lemmas for `ReadBindMain`: what one reader call returns (`readRows`, `readNamed`, `readGroup`) for a well-formed file,
for every reader style, in the presence of repeated requests ("the last write wins").
-/
namespace Qats.ReadBind
open Qats Qats.Names

variable {α : Type}

/-! ### last write wins -/

/-- `LastWins R same l m`: the lists have the same length and every result `m[p]` is right for its request `l[p]`
(`R`) unless the same request occurs again further right (and will overwrite it). -/
def LastWins {A B : Type} (R : A → B → Prop) (same : A → A → Prop) : List A → List B → Prop
  | [], [] => True
  | a :: as, b :: bs => (R a b ∨ ∃ a' ∈ as, same a' a) ∧ LastWins R same as bs
  | [], _ :: _ => False
  | _ :: _, [] => False

theorem LastWins.length_eq {A B : Type} {R : A → B → Prop} {same : A → A → Prop} :
    ∀ {l : List A} {m : List B}, LastWins R same l m → m.length = l.length
  | [], [], _ => rfl
  | _ :: _, _ :: _, h => by simp [LastWins.length_eq h.2]
  | [], _ :: _, h => h.elim
  | _ :: _, [], h => h.elim

theorem lastWins_map {A B : Type} {R : A → B → Prop} {same : A → A → Prop} (h : A → B) :
    ∀ (l : List A), (∀ a ∈ l, R a (h a)) → LastWins R same l (l.map h)
  | [], _ => trivial
  | a :: as, hl => ⟨Or.inl (hl a (by simp)), lastWins_map h as fun x hx => hl x (by simp [hx])⟩

/-- From the positional form (as delivered by the loop invariant of the direct-access reader). -/
theorem lastWins_of_getElem {A B : Type} {R : A → B → Prop} {same : A → A → Prop} :
    ∀ (l : List A) (m : List B), m.length = l.length →
      (∀ p (hp : p < l.length), (∃ b, m[p]? = some b ∧ R l[p] b) ∨
        ∃ q, p < q ∧ ∃ hq : q < l.length, same l[q] l[p]) →
      LastWins R same l m
  | [], [], _, _ => trivial
  | [], _ :: _, h, _ => by simp at h
  | _ :: _, [], h, _ => by simp at h
  | a :: as, b :: bs, hlen, h => by
    refine ⟨?_, lastWins_of_getElem as bs (by simpa using hlen) ?_⟩
    · rcases h 0 (by simp) with ⟨b', hb, hr⟩ | ⟨q, hq, hql, hs⟩
      · simp only [List.getElem?_cons_zero, Option.some.injEq] at hb
        subst hb
        exact Or.inl hr
      · right
        cases q with
        | zero => omega
        | succ q =>
          simp only [List.getElem_cons_succ, List.getElem_cons_zero] at hs
          exact ⟨_, List.getElem_mem _, hs⟩
    · intro p hp
      rcases h (p + 1) (by simpa using hp) with ⟨b', hb, hr⟩ | ⟨q, hq, hql, hs⟩
      · left
        rw [List.getElem?_cons_succ] at hb
        exact ⟨b', hb, by simpa using hr⟩
      · right
        cases q with
        | zero => omega
        | succ q =>
          simp only [List.getElem_cons_succ] at hs
          exact ⟨q, by omega, by simpa using hql, hs⟩

/-! ### sorted(set(ind)) -/

theorem mem_insertSorted {β : Type} (le : β → β → Bool) (a x : β) : ∀ l : List β, x ∈ insertSorted le a l ↔ x = a ∨ x ∈ l
  | [] => by simp [insertSorted]
  | b :: l => by
    simp only [insertSorted]
    split
    · simp
    · simp only [List.mem_cons, mem_insertSorted le a x l]
      tauto

theorem mem_isort {β : Type} (le : β → β → Bool) (x : β) : ∀ l : List β, x ∈ isort le l ↔ x ∈ l
  | [] => by simp [isort]
  | a :: l => by simp [isort, mem_insertSorted, mem_isort le x l]

theorem mem_sortedSet (ind : List Nat) (i : Nat) : i ∈ sortedSet ind ↔ i ∈ ind := by
  simp [sortedSet, mem_isort, List.mem_eraseDups]

/-- The re-arrangement of `read_csv`'s frame restores the requested order. -/
theorem csv_rearrange (recs : List (List α)) (ind : List Nat) :
    (ind.map fun i => ((sortedSet ind).map fun i => recs.getD i []).getD ((sortedSet ind).idxOf i) []) =
      ind.map fun i => recs.getD i [] := by
  apply List.map_congr_left
  intro i hi
  have hm : i ∈ sortedSet ind := (mem_sortedSet ind i).2 hi
  have hlt : (sortedSet ind).idxOf i < (sortedSet ind).length := List.idxOf_lt_length_of_mem hm
  rw [List.getD_eq_getElem?_getD, List.getElem?_map, List.getElem?_eq_getElem hlt, List.getElem_idxOf hlt]
  rfl

/-! ### word image of a direct-access file -/

theorem flatten_record (n : Nat) : ∀ (cols : List (List α)) (j : Nat), (∀ c ∈ cols, c.length = n) →
    (hj : j < cols.length) → ((cols.flatten).drop (j * n)).take n = cols[j]
  | [], _, _, hj => by simp at hj
  | c :: cs, 0, h, _ => by
    simp only [List.flatten_cons, Nat.zero_mul, List.drop_zero, List.getElem_cons_zero]
    exact List.take_left' (h c (by simp))
  | c :: cs, j + 1, h, hj => by
    have hc : c.length = n := h c (by simp)
    simp only [List.flatten_cons, List.getElem_cons_succ]
    have e : (j + 1) * n = c.length + j * n := by rw [hc]; ring
    rw [e, List.drop_append]
    simp only [Nat.add_sub_cancel_left]
    rw [List.drop_eq_nil_of_le (by omega), List.nil_append]
    exact flatten_record n cs j (fun x hx => h x (by simp [hx])) (by simpa using hj)

theorem length_flatten_const (n : Nat) : ∀ (cols : List (List α)), (∀ c ∈ cols, c.length = n) →
    cols.flatten.length = cols.length * n
  | [], _ => by simp
  | c :: cs, h => by
    simp only [List.flatten_cons, List.length_append, List.length_cons]
    rw [length_flatten_const n cs fun x hx => h x (by simp [hx]), h c (by simp)]
    ring

section words
variable [OfNat α 0]

theorem words_length (f : File α) (h : ∀ c ∈ f.cols, c.length = f.time.length) :
    (words f).length = (f.cols.length + 2) * f.time.length := by
  simp only [words, List.length_append, List.length_replicate, length_flatten_const _ f.cols h]
  ring

theorem nts_words (f : File α) (h : ∀ c ∈ f.cols, c.length = f.time.length) (hpos : 0 < f.time.length) :
    Direct.nts (words f) f.time.length = f.cols.length := by
  unfold Direct.nts
  rw [words_length f h, Nat.mul_div_cancel _ hpos]
  simp

/-- Record `i` of the word image is record `i` of the file. -/
theorem record_words (f : File α) (h : ∀ c ∈ f.cols, c.length = f.time.length) (i : Nat) (hi : i < (records f).length) :
    Direct.record (words f) f.time.length i = (records f).getD i [] := by
  unfold Direct.record words records
  set n := f.time.length with hn
  have e : (i + 1) * n = (List.replicate n (0 : α)).length + i * n := by simp; ring
  rw [e, List.drop_append]
  simp only [Nat.add_sub_cancel_left]
  rw [List.drop_eq_nil_of_le (by omega), List.nil_append]
  cases i with
  | zero =>
    simp only [Nat.zero_mul, List.drop_zero, List.getD_cons_zero]
    exact List.take_left' rfl
  | succ j =>
    have e2 : (j + 1) * n = f.time.length + j * n := by rw [← hn]; ring
    rw [e2, List.drop_append]
    simp only [Nat.add_sub_cancel_left]
    rw [List.drop_eq_nil_of_le (by omega), List.nil_append]
    have hj : j < f.cols.length := by simpa [records] using hi
    rw [flatten_record n f.cols j h hj]
    simp [List.getD_eq_getElem?_getD, hj]

end words

/-! ### series names from keys -/

theorem replaceGo_skip (pat rep : Str) : ∀ (xs ys : Str), replaceGo pat rep xs.length (xs ++ ys) = replaceGo pat rep 0 ys
  | [], ys => by simp
  | x :: xs, ys => by
    simp only [List.length_cons, List.cons_append, replaceGo]
    exact replaceGo_skip pat rep xs ys

theorem replaceGo_not_infix (pat rep : Str) : ∀ (s : Str), ¬ pat <:+: s → replaceGo pat rep 0 s = s
  | [], _ => by simp [replaceGo]
  | c :: cs, h => by
    rw [List.infix_cons_iff, not_or] at h
    have h1 : pat.isPrefixOf (c :: cs) = false := by
      rw [Bool.eq_false_iff]
      intro hp
      exact h.1 (List.isPrefixOf_iff_prefix.1 hp)
    simp only [replaceGo, h1, Bool.false_eq_true, if_false]
    rw [replaceGo_not_infix pat rep cs h.2]

/-- `key.replace(parent, "").lstrip("/")` recovers the name from `parent + "/" + name`. -/
theorem nameOf_join (path n : Str) (hp : path ≠ []) (hn : n.head? ≠ some sep) (hinf : ¬ path <:+: (sep :: n)) :
    nameOf path (path ++ sep :: n) = n := by
  unfold nameOf replaceAll
  have hne : path.isEmpty = false := by cases path <;> simp_all
  rw [hne]
  simp only [Bool.false_eq_true, if_false]
  obtain ⟨c, cs, rfl⟩ : ∃ c cs, path = c :: cs := by
    cases path with
    | nil => exact absurd rfl hp
    | cons c cs => exact ⟨c, cs, rfl⟩
  have hpre : (c :: cs).isPrefixOf (c :: (cs ++ sep :: n)) = true := by
    rw [List.isPrefixOf_iff_prefix]
    exact ⟨sep :: n, by simp⟩
  simp only [List.cons_append, replaceGo, hpre, if_true, List.length_cons, Nat.add_sub_cancel, List.nil_append]
  rw [replaceGo_skip, replaceGo_not_infix _ _ _ hinf]
  cases n with
  | nil => simp [sep]
  | cons d ds =>
    have hd : d ≠ sep := by simpa using hn
    have : (d == sep) = false := by simpa using hd
    simp [this]

/-! ### well-formed files -/

/-- A file the readers accept: a sane path, distinct names that can be told from the path, one column per name, all
arrays as long as the time array, at least one sample; per-series time arrays only in the name-addressed formats. -/
structure FileOk (f : File α) : Prop where
  path_ne : f.path ≠ []
  path_end : f.path.getLast? ≠ some sep
  nodup : f.names.Nodup
  name_ok : ∀ n ∈ f.names, n.head? ≠ some sep ∧ ¬ f.path <:+: (sep :: n)
  ncols : f.cols.length = f.names.length
  collen : ∀ c ∈ f.cols, c.length = f.time.length
  nonempty : 0 < f.time.length
  own_nil : styleOf f.format ≠ .byName → f.own = []

theorem pathJoin_eq (f : File α) (hf : FileOk f) (n : Str) (hn : n ∈ f.names) :
    pathJoin f.path n = f.path ++ sep :: n := by
  unfold pathJoin
  have h1 : isAbs n = false := by
    unfold isAbs
    have := (hf.name_ok n hn).1
    simpa using this
  have h2 : f.path.isEmpty = false := by
    have := hf.path_ne
    cases h : f.path <;> simp_all
  have h3 : (f.path.getLast? == some sep) = false := by
    have := hf.path_end
    simpa using this
  simp [h1, h2, h3]

/-- Entry `e` is what `load` registered for the `j`-th name of file `f`. -/
structure From (f : File α) (j : Nat) (e : Entry α) : Prop where
  lt : j < f.names.length
  parent : e.parent = f.path
  key : e.key = pathJoin f.path (f.names.getD j [])
  idx : indexed f.format = true → e.idx = some (j + 1)

theorem From.name_mem {f : File α} {j : Nat} {e : Entry α} (h : From f j e) : f.names.getD j [] ∈ f.names := by
  rw [List.getD_eq_getElem?_getD, List.getElem?_eq_getElem h.lt]
  exact List.getElem_mem _

theorem From.nameOf {f : File α} (hf : FileOk f) {j : Nat} {e : Entry α} (h : From f j e) :
    nameOf f.path e.key = f.names.getD j [] := by
  rw [h.key, pathJoin_eq f hf _ h.name_mem]
  exact nameOf_join _ _ hf.path_ne (hf.name_ok _ h.name_mem).1 (hf.name_ok _ h.name_mem).2

theorem From.inj {f : File α} (hf : FileOk f) {j j' : Nat} {e e' : Entry α} (h : From f j e) (h' : From f j' e')
    (hk : e.key = e'.key) : j = j' := by
  have h1 := h.nameOf hf
  have h2 := h'.nameOf hf
  rw [hk, h2] at h1
  have hl := h.lt
  have hl' := h'.lt
  rw [List.getD_eq_getElem?_getD, List.getD_eq_getElem?_getD, List.getElem?_eq_getElem hl,
    List.getElem?_eq_getElem hl'] at h1
  simp only [Option.getD_some] at h1
  exact ((List.Nodup.getElem_inj_iff hf.nodup).1 h1).symm

theorem indexed_of_style {fmt : Format} (h : styleOf fmt ≠ .byName) : indexed fmt = true := by
  cases fmt <;> simp_all [styleOf, indexed]

theorem timeOf_of_own_nil (f : File α) (h : f.own = []) (j : Nat) : f.timeOf j = f.time := by
  simp [File.timeOf, h]

/-! ### one reader call -/

/-- Index-addressed readers: every style returns, for a request `ind` of existing records, an array whose row `p` is
record `ind[p]` — except, in the direct-access style, rows whose record number is requested again further right. -/
theorem readRows_spec [OfNat α 0] (f : File α) (hf : FileOk f) (hs : styleOf f.format ≠ .byName) (ind : List Nat)
    (hind : ∀ i ∈ ind, i < (records f).length) :
    ∃ rows, readRows f ind = some rows ∧
      LastWins (fun i row => row = (records f).getD i []) (fun a b => a = b) ind rows := by
  have hall : ind.all (· < (records f).length) = true := by simpa using hind
  unfold readRows
  cases hst : styleOf f.format with
  | byName => exact absurd hst hs
  | fancy =>
    simp only [hall, if_true]
    exact ⟨_, rfl, lastWins_map _ _ fun _ _ => rfl⟩
  | csv =>
    simp only [hall, if_true]
    rw [csv_rearrange]
    exact ⟨_, rfl, lastWins_map _ _ fun _ _ => rfl⟩
  | direct =>
    simp only
    have hnts := nts_words f hf.collen hf.nonempty
    have hrec : (records f).length = f.cols.length + 1 := by simp [records]
    obtain ⟨rows, hr, hlen, hrows⟩ := Direct.read_spec (words f) f.time.length ind (by
      intro i hi
      have := hind i hi
      rw [hnts]; omega)
    refine ⟨rows, hr, lastWins_of_getElem ind rows hlen ?_⟩
    intro p hp
    by_cases c : Direct.pos ind 0 ind[p] = some p
    · left
      refine ⟨_, hrows p hp, ?_⟩
      rw [if_pos c]
      exact record_words f hf.collen _ (hind _ (List.getElem_mem hp))
    · right
      obtain ⟨q, hq, hql, he⟩ := Direct.later_of_pos_ne hp c
      exact ⟨q, hq, hql, he⟩

/-- The array-indexing and csv styles return exactly the requested records in the requested order (repeats included). -/
theorem readRows_exact [OfNat α 0] (f : File α) (hs : styleOf f.format = .fancy ∨ styleOf f.format = .csv) (ind : List Nat)
    (hind : ∀ i ∈ ind, i < (records f).length) :
    readRows f ind = some (ind.map fun i => (records f).getD i []) := by
  have hall : ind.all (· < (records f).length) = true := by simpa using hind
  unfold readRows
  rcases hs with hs | hs
  · simp only [hs, hall, if_true]
  · simp only [hs, hall, if_true]
    rw [csv_rearrange]

/-- One reader call of `_read`: for entries of one well-formed file the call succeeds and every constructed series is
the stored one — except series whose key occurs again further right in the request (they are overwritten). -/
theorem readGroup_spec [OfNat α 0] (f : File α) (hf : FileOk f) (g : List (Entry α)) (hg : ∀ e ∈ g, ∃ j, From f j e) :
    ∃ ts, readGroup f g = some ts ∧
      LastWins (fun e s => ∀ j, From f j e → s = stored f j) (fun e' e => e'.key = e.key) g ts := by
  unfold readGroup
  by_cases hs : styleOf f.format = .byName
  · -- name-addressed: every position is right
    simp only [hs, if_true]
    have key : ∀ (e : Entry α), ∀ j, From f j e →
        (readNamed f (nameOf f.path e.key)).map (fun tx => (⟨nameOf f.path e.key, tx.1, tx.2⟩ : Series α)) =
          some (stored f j) := by
      intro e j hj
      rw [hj.nameOf hf]
      unfold readNamed
      have hl := hj.lt
      have hidx : f.names.idxOf (f.names.getD j []) = j := by
        rw [List.getD_eq_getElem?_getD, List.getElem?_eq_getElem hl]
        exact hf.nodup.idxOf_getElem j hl
      simp only [hidx, hl, if_true, Option.map_some]
      rfl
    -- the mapM succeeds with the list of stored series
    have hm : ∀ (l : List (Entry α)), (∀ e ∈ l, ∃ j, From f j e) →
        ∃ ts, (l.map fun e => nameOf f.path e.key).mapM (fun n => (readNamed f n).map fun tx =>
            (⟨n, tx.1, tx.2⟩ : Series α)) = some ts ∧
          LastWins (fun e s => ∀ j, From f j e → s = stored f j) (fun e' e => e'.key = e.key) l ts := by
      intro l
      induction l with
      | nil => intro _; exact ⟨[], by simp, trivial⟩
      | cons e l ih =>
        intro hl
        obtain ⟨j, hj⟩ := hl e (by simp)
        obtain ⟨ts, hts, hlw⟩ := ih fun x hx => hl x (by simp [hx])
        refine ⟨stored f j :: ts, ?_, Or.inl ?_, hlw⟩
        · rw [List.map_cons, List.mapM_cons, key e j hj, hts]
          rfl
        · intro j' hj'
          rw [From.inj hf hj' hj rfl]
    exact hm g hg
  · -- index-addressed
    have hidxd := indexed_of_style hs
    have hown := hf.own_nil hs
    have hind : ∀ i ∈ (0 :: g.map fun e => e.idx.getD 0), i < (records f).length := by
      intro i hi
      rcases List.mem_cons.1 hi with rfl | hi
      · simp [records]
      · obtain ⟨e, he, rfl⟩ := List.mem_map.1 hi
        obtain ⟨j, hj⟩ := hg e he
        rw [hj.idx hidxd]
        simp only [Option.getD_some, records, List.length_cons, hf.ncols]
        have := hj.lt
        omega
    obtain ⟨rows, hr, hlw⟩ := readRows_spec f hf hs _ hind
    simp only [hs, if_false, hr]
    cases rows with
    | nil => exact hlw.elim
    | cons r0 rest =>
      obtain ⟨h0, hrest⟩ := hlw
      have hr0 : r0 = f.time := by
        rcases h0 with h0 | ⟨a', ha', h0⟩
        · simpa [records] using h0
        · exfalso
          obtain ⟨e, he, rfl⟩ := List.mem_map.1 ha'
          obtain ⟨j, hj⟩ := hg e he
          rw [hj.idx hidxd] at h0
          simp at h0
      have hlen : rest.length = (g.map fun e => nameOf f.path e.key).length := by
        rw [hrest.length_eq]; simp
      simp only [hlen, if_true]
      refine ⟨_, rfl, ?_⟩
      -- induction over the group, generalising the rows
      clear hr hlen hind h0
      induction g generalizing rest with
      | nil =>
        cases rest with
        | nil => trivial
        | cons _ _ => exact hrest.elim
      | cons e g ih =>
        cases rest with
        | nil => exact hrest.elim
        | cons row rest =>
          obtain ⟨hhead, htail⟩ := hrest
          refine ⟨?_, ih (fun x hx => hg x (by simp [hx])) rest htail⟩
          rcases hhead with hrow | ⟨a', ha', hsame⟩
          · left
            intro j hj
            have hi : e.idx.getD 0 = j + 1 := by rw [hj.idx hidxd]; rfl
            replace hrow : row = (records f).getD (e.idx.getD 0) [] := hrow
            rw [hi] at hrow
            have hl := hj.lt
            have hx : row = f.cols.getD j [] := by
              rw [hrow]
              simp [records]
            simp only [stored, hj.nameOf hf, hr0, hx, timeOf_of_own_nil f hown]
          · right
            obtain ⟨e', he', rfl⟩ := List.mem_map.1 ha'
            refine ⟨e', he', ?_⟩
            obtain ⟨j, hj⟩ := hg e (by simp)
            obtain ⟨j', hj'⟩ := hg e' (by simp [he'])
            replace hsame : e'.idx.getD 0 = e.idx.getD 0 := hsame
            rw [hj.idx hidxd, hj'.idx hidxd] at hsame
            simp only [Option.getD_some, Nat.add_right_cancel_iff] at hsame
            rw [hj.key, hj'.key, hsame]

end Qats.ReadBind
