import Qats.Model.Names
import Mathlib.Tactic
/-!
Helper lemmas for `NamesMain`: `str.replace` with single-character patterns, the `:[:` marker step, tokenising an
escaped pattern.  `escCharAux` is definitionally `escChar` of `NamesMain`.
-/
namespace Qats.Names

/-- single-character pattern replacement is a flatMap -/
theorem replaceAll_single (c : Char) (rep s : Str) :
    replaceAll [c] rep s = s.flatMap fun d => if d = c then rep else [d] := by
  have : ([c] : Str).isEmpty = false := rfl
  rw [replaceAll, this]
  simp only [Bool.false_eq_true, if_false]
  induction s with
  | nil => simp [replaceGo]
  | cons d s ih =>
    rw [replaceGo]
    by_cases h : d = c
    · subst h
      simp [List.isPrefixOf, ih]
    · have : ¬ c = d := fun e => h e.symm
      simp [List.isPrefixOf, ih, h, this]

def fMark (d : Char) : Str :=
  if d = '[' then [':', '[', ':'] else if d = ']' then ['[', ']', ']'] else [d]

def gMark (d : Char) : Str :=
  if d = '[' then ['[', '[', ']'] else if d = ']' then ['[', ']', ']'] else [d]

theorem flatMap_fMark_not_bracket_colon (t : Str) (x : Str) : t.flatMap fMark ≠ '[' :: ':' :: x := by
  cases t with
  | nil => simp
  | cons d t =>
    rw [List.flatMap_cons]
    unfold fMark
    split_ifs with h1 h2
    · simp
    · simp
    · simp [h1]

theorem replaceGo_marker (s : Str) :
    replaceGo [':', '[', ':'] ['[', '[', ']'] 0 (s.flatMap fMark) = s.flatMap gMark := by
  induction s with
  | nil => simp [replaceGo]
  | cons d s ih =>
    rw [List.flatMap_cons, List.flatMap_cons]
    by_cases h1 : d = '['
    · subst h1
      simp [fMark, gMark, replaceGo, List.isPrefixOf, ih]
    · by_cases h2 : d = ']'
      · subst h2
        simp [fMark, gMark, replaceGo, List.isPrefixOf, ih]
      · have hf : fMark d = [d] := by simp [fMark, h1, h2]
        have hg : gMark d = [d] := by simp [gMark, h1, h2]
        rw [hf, hg]
        simp only [List.singleton_append]
        rw [replaceGo]
        have hno : List.isPrefixOf [':', '[', ':'] (d :: s.flatMap fMark) = false := by
          rcases hs : s.flatMap fMark with _ | ⟨a, _ | ⟨b, r⟩⟩
          · simp [List.isPrefixOf]
          · simp [List.isPrefixOf]
          · have := flatMap_fMark_not_bracket_colon s r
            rw [hs] at this
            simp only [List.isPrefixOf, Bool.and_eq_false_imp, Bool.and_true]
            by_contra hc
            simp at hc
            apply this
            rw [← hc.2.1, ← hc.2.2]
        rw [hno]
        simp [ih]


def escCharAux (c : Char) : Str :=
  if c == '[' then "[[]".toList else if c == ']' then "[]]".toList else if c == '^' then "[^]".toList
  else if c == '(' then "[(]".toList else if c == ')' then "[)]".toList else [c]

theorem replaceAll_marker (s : Str) :
    replaceAll [':', '[', ':'] ['[', '[', ']'] (s.flatMap fMark) = s.flatMap gMark := by
  rw [replaceAll]
  simp only [List.isEmpty_cons, Bool.false_eq_true, if_false]
  exact replaceGo_marker s

theorem escapeSpecial_eq_flatMap_aux (s : Str) : escapeSpecial s = s.flatMap escCharAux := by
  have e1 : "[".toList = ['['] := rfl
  have e2 : "]".toList = [']'] := rfl
  have e3 : "^".toList = ['^'] := rfl
  have e4 : "(".toList = ['('] := rfl
  have e5 : ")".toList = [')'] := rfl
  have e6 : ":[:".toList = [':', '[', ':'] := rfl
  have e7 : "[[]".toList = ['[', '[', ']'] := rfl
  have e8 : "[]]".toList = ['[', ']', ']'] := rfl
  have e9 : "[^]".toList = ['[', '^', ']'] := rfl
  have e10 : "[(]".toList = ['[', '(', ']'] := rfl
  have e11 : "[)]".toList = ['[', ')', ']'] := rfl
  unfold escapeSpecial
  simp only [e1, e2, e3, e4, e5, e6, e7, e8, e9, e10, e11]
  rw [replaceAll_single '[', replaceAll_single ']']
  have h12 : (s.flatMap fun d => if d = '[' then [':', '[', ':'] else [d]).flatMap
      (fun d => if d = ']' then ['[', ']', ']'] else [d]) = s.flatMap fMark := by
    rw [List.flatMap_assoc]
    congr 1
    funext d
    unfold fMark
    by_cases h1 : d = '['
    · subst h1; simp
    · by_cases h2 : d = ']'
      · subst h2; simp
      · simp [h1, h2]
  rw [h12, replaceAll_marker, replaceAll_single '^', replaceAll_single '(', replaceAll_single ')']
  rw [List.flatMap_assoc, List.flatMap_assoc, List.flatMap_assoc]
  congr 1
  funext d
  unfold gMark escCharAux
  simp only [e7, e8, e9, e10, e11]
  by_cases h1 : d = '['
  · subst h1; simp
  by_cases h2 : d = ']'
  · subst h2; simp
  by_cases h3 : d = '^'
  · subst h3; simp
  by_cases h4 : d = '('
  · subst h4; simp
  by_cases h5 : d = ')'
  · subst h5; simp
  simp [h1, h2, h3, h4, h5]


def isBr (c : Char) : Bool := c == '[' || c == ']' || c == '^' || c == '(' || c == ')'

def tokOf (c : Char) : Tok :=
  if c == '*' then .star else if c == '?' then .any else if isBr c then .cls false [c] else .lit c

theorem tokGo_bracket (c : Char) (hc : isBr c = true) (rest : Str) :
    tokGo 0 ('[' :: c :: ']' :: rest) = .cls false [c] :: tokGo 0 rest := by
  rw [tokGo]
  simp only [show ('[' == '*') = false from rfl, show ('[' == '?') = false from rfl, show ('[' == '[') = true from rfl,
    Bool.false_eq_true, if_false, if_true]
  have hp : parseClass (c :: ']' :: rest) = some (false, [c], rest) := by
    simp only [isBr, Bool.or_eq_true, beq_iff_eq] at hc
    rcases hc with (((rfl | rfl) | rfl) | rfl) | rfl <;> simp [parseClass, spanClose]
  rw [hp]
  have : rest.length + 1 + 1 - rest.length = 2 := by omega
  simp only [List.length_cons, this, tokGo]

theorem tokenize_escaped (p : Str) : tokenize (p.flatMap escCharAux) = p.map tokOf := by
  unfold tokenize
  induction p with
  | nil => simp [tokGo]
  | cons c p ih =>
    rw [List.flatMap_cons, List.map_cons, ← ih]
    by_cases hb : isBr c = true
    · have he : escCharAux c = ['[', c, ']'] := by
        simp only [isBr, Bool.or_eq_true, beq_iff_eq] at hb
        rcases hb with (((rfl | rfl) | rfl) | rfl) | rfl <;> rfl
      have ht : tokOf c = .cls false [c] := by
        simp only [isBr, Bool.or_eq_true, beq_iff_eq] at hb
        rcases hb with (((rfl | rfl) | rfl) | rfl) | rfl <;> rfl
      rw [he, ht]
      exact tokGo_bracket c hb _
    · simp only [isBr, Bool.or_eq_true, beq_iff_eq, not_or] at hb
      obtain ⟨⟨⟨⟨h1, h2⟩, h3⟩, h4⟩, h5⟩ := hb
      have he : escCharAux c = [c] := by simp [escCharAux, h1, h2, h3, h4, h5]
      rw [he]
      simp only [List.singleton_append]
      rw [tokGo]
      simp [tokOf, isBr, h1, h2, h3, h4, h5]
      split_ifs <;> rfl



theorem matchToks_map_tokOf (p : Str) : ∀ k : Str, matchToks (p.map tokOf) k = matchToks (globToks p) k := by
  induction p with
  | nil => intro k; rfl
  | cons c p ih =>
    intro k
    have hg : globToks (c :: p) = (if c == '*' then Tok.star else if c == '?' then .any else .lit c) :: globToks p := rfl
    rw [List.map_cons, hg]
    by_cases h1 : c = '*'
    · subst h1
      have ht : tokOf '*' = .star := rfl
      rw [ht]
      simp only [beq_self_eq_true, if_true, matchToks]
      congr 1
      funext s
      exact ih s
    · by_cases h2 : c = '?'
      · subst h2
        have ht : tokOf '?' = .any := rfl
        rw [ht]
        simp only [show ('?' == '*') = false from rfl, Bool.false_eq_true, if_false, beq_self_eq_true, if_true]
        cases k with
        | nil => rfl
        | cons d k => simp only [matchToks]; exact ih k
      · have e1 : (c == '*') = false := by simpa using h1
        have e2 : (c == '?') = false := by simpa using h2
        simp only [e1, e2, Bool.false_eq_true, if_false]
        by_cases hb : isBr c = true
        · have ht : tokOf c = .cls false [c] := by simp [tokOf, e1, e2, hb]
          rw [ht]
          cases k with
          | nil => rfl
          | cons d k =>
            simp only [matchToks, ih k]
            congr 1
            by_cases hcd : c = d
            · subst hcd; simp
            · have : ¬ d = c := fun e => hcd e.symm
              simp [hcd, this]
        · have ht : tokOf c = .lit c := by simp [tokOf, e1, e2, hb]
          rw [ht]
          cases k with
          | nil => rfl
          | cons d k => simp only [matchToks, ih k]

theorem escape_literal_aux (p k : Str) : fnmatch (escapeSpecial p) k = glob p k := by
  rw [fnmatch, glob, escapeSpecial_eq_flatMap_aux, tokenize_escaped, matchToks_map_tokOf]

end Qats.Names
