import Qats.Lemmas.RainflowEqns
namespace Qats.Rainflow
set_option linter.unusedSectionVars false
set_option linter.unnecessarySeqFocus false
variable {α : Type} [Field α] [LinearOrder α] [IsStrictOrderedRing α]

/-- Directed strict alternation: `AltD true` starts by going up, `AltD false` by going down. -/
def AltD : Bool → List α → Prop
  | up, a :: b :: rest => (if up then a < b else b < a) ∧ AltD (!up) (b :: rest)
  | _, _ => True

@[simp] theorem altD_nil (up : Bool) : AltD up ([] : List α) := by simp [AltD]
@[simp] theorem altD_single (up : Bool) (a : α) : AltD up [a] := by simp [AltD]
theorem altD_true_cons (a b : α) (rest : List α) :
    AltD true (a :: b :: rest) ↔ a < b ∧ AltD false (b :: rest) := by simp [AltD]
theorem altD_false_cons (a b : α) (rest : List α) :
    AltD false (a :: b :: rest) ↔ b < a ∧ AltD true (b :: rest) := by simp [AltD]

theorem AltD.dropLast_append (up : Bool) (l : List α) (z : α) (h : AltD up (l ++ [z])) : AltD up l := by
  induction l generalizing up with
  | nil => simp
  | cons a l ih =>
    rcases l with _ | ⟨b, l⟩
    · simp
    · simp only [List.cons_append, AltD] at h ⊢
      exact ⟨h.1, ih _ h.2⟩

/-- yielded points followed by the final sample -/
def revL (x d : α) (rest : List α) : List α := (revLoop x d rest).1 ++ [(revLoop x d rest).2]

theorem revL_nil (x d : α) : revL x d [] = [x] := rfl
theorem revL_cons_eq (x d : α) (rest : List α) : revL x d (x :: rest) = revL x d rest := by
  simp [revL, revLoop_cons_eq]
theorem revL_cons_turn (x d xn : α) (rest : List α) (h : d * (xn - x) < 0) :
    revL x d (xn :: rest) = x :: revL xn (xn - x) rest := by
  simp [revL, revLoop_cons_turn _ _ _ _ h]
theorem revL_cons_noturn (x d xn : α) (rest : List α) (hne : xn ≠ x) (h : ¬ d * (xn - x) < 0) :
    revL x d (xn :: rest) = revL xn (xn - x) rest := by
  simp [revL, revLoop_cons_noturn _ _ _ _ hne h]

theorem revL_inv (rest : List α) (x d : α) :
    (0 < d → ∃ y ys, revL x d rest = y :: ys ∧ x ≤ y ∧ AltD false (y :: ys)) ∧
    (d < 0 → ∃ y ys, revL x d rest = y :: ys ∧ y ≤ x ∧ AltD true (y :: ys)) ∧
    (d = 0 → revL x d rest = [x] ∨ ∃ y ys, revL x d rest = y :: ys ∧
      ((x < y ∧ AltD false (y :: ys)) ∨ (y < x ∧ AltD true (y :: ys)))) := by
  induction rest generalizing x d with
  | nil => simp [revL_nil]
  | cons xn rest ih =>
    by_cases he : xn = x
    · subst he; rw [revL_cons_eq]; exact ih xn d
    · have hup := (ih xn (xn - x)).1
      have hdn := (ih xn (xn - x)).2.1
      rcases lt_or_gt_of_ne he with hlt | hgt
      · -- xn < x
        have hneg : xn - x < 0 := sub_neg.mpr hlt
        obtain ⟨y, ys, hL, hy, hA⟩ := hdn hneg
        refine ⟨fun hd => ?_, fun hd => ?_, fun hd => ?_⟩
        · rw [revL_cons_turn _ _ _ _ (mul_neg_of_pos_of_neg hd hneg), hL]
          exact ⟨x, y :: ys, rfl, le_rfl, (altD_false_cons _ _ _).mpr ⟨lt_of_le_of_lt hy hlt, hA⟩⟩
        · rw [revL_cons_noturn _ _ _ _ he (not_lt.mpr (mul_nonneg_of_nonpos_of_nonpos hd.le hneg.le)), hL]
          exact ⟨y, ys, rfl, hy.trans hlt.le, hA⟩
        · rw [revL_cons_noturn _ _ _ _ he (by simp [hd]), hL]
          exact Or.inr ⟨y, ys, rfl, Or.inr ⟨lt_of_le_of_lt hy hlt, hA⟩⟩
      · have hpos : 0 < xn - x := sub_pos.mpr hgt
        obtain ⟨y, ys, hL, hy, hA⟩ := hup hpos
        refine ⟨fun hd => ?_, fun hd => ?_, fun hd => ?_⟩
        · rw [revL_cons_noturn _ _ _ _ he (not_lt.mpr (mul_nonneg hd.le hpos.le)), hL]
          exact ⟨y, ys, rfl, hgt.le.trans hy, hA⟩
        · rw [revL_cons_turn _ _ _ _ (mul_neg_of_neg_of_pos hd hpos), hL]
          exact ⟨x, y :: ys, rfl, le_rfl, (altD_true_cons _ _ _).mpr ⟨lt_of_lt_of_le hgt hy, hA⟩⟩
        · rw [revL_cons_noturn _ _ _ _ he (by simp [hd]), hL]
          exact Or.inr ⟨y, ys, rfl, Or.inl ⟨lt_of_lt_of_le hgt hy, hA⟩⟩

/-- With end points: directed alternation, or the degenerate constant pair. -/
theorem reversals_true_altD (x0 x1 : α) (rest : List α) :
    (∃ up, AltD up (x0 :: revL x1 (x1 - x0) rest)) ∨ x0 :: revL x1 (x1 - x0) rest = [x0, x0] := by
  obtain ⟨h1, h2, h3⟩ := revL_inv rest x1 (x1 - x0)
  rcases lt_trichotomy (x1 - x0) 0 with h | h | h
  · obtain ⟨y, ys, hL, hy, hA⟩ := h2 h
    left; refine ⟨false, ?_⟩
    rw [hL, altD_false_cons]; exact ⟨lt_of_le_of_lt hy (sub_neg.mp h), hA⟩
  · have h10 : x1 = x0 := sub_eq_zero.mp h
    rcases h3 h with hL | ⟨y, ys, hL, ⟨hy, hA⟩ | ⟨hy, hA⟩⟩
    · right; rw [hL, h10]
    · left; refine ⟨true, ?_⟩
      rw [hL, altD_true_cons]; exact ⟨h10 ▸ hy, hA⟩
    · left; refine ⟨false, ?_⟩
      rw [hL, altD_false_cons]; exact ⟨h10 ▸ hy, hA⟩
  · obtain ⟨y, ys, hL, hy, hA⟩ := h1 h
    left; refine ⟨true, ?_⟩
    rw [hL, altD_true_cons]; exact ⟨lt_of_lt_of_le (sub_pos.mp h) hy, hA⟩

/-- Without end points: always a directed alternation. -/
theorem reversals_false_altD (x d : α) (rest : List α) : ∃ up, AltD up (revLoop x d rest).1 := by
  obtain ⟨h1, h2, h3⟩ := revL_inv rest x d
  rcases lt_trichotomy d 0 with h | h | h
  · obtain ⟨y, ys, hL, hy, hA⟩ := h2 h
    exact ⟨true, AltD.dropLast_append _ _ _ (by rw [← revL, hL]; exact hA)⟩
  · rcases h3 h with hL | ⟨y, ys, hL, ⟨hy, hA⟩ | ⟨hy, hA⟩⟩
    · have : (revLoop x d rest).1 = [] := by
        have := congrArg List.length hL
        simp [revL] at this
        exact this
      exact ⟨true, by rw [this]; simp⟩
    · exact ⟨false, AltD.dropLast_append _ _ _ (by rw [← revL, hL]; exact hA)⟩
    · exact ⟨true, AltD.dropLast_append _ _ _ (by rw [← revL, hL]; exact hA)⟩
  · obtain ⟨y, ys, hL, hy, hA⟩ := h1 h
    exact ⟨false, AltD.dropLast_append _ _ _ (by rw [← revL, hL]; exact hA)⟩

/-- A strictly alternating list is reproduced by the loop. -/
theorem revL_of_altD (rest : List α) (x d : α)
    (h : (0 < d ∧ AltD false (x :: rest)) ∨ (d < 0 ∧ AltD true (x :: rest))) :
    revL x d rest = x :: rest := by
  induction rest generalizing x d with
  | nil => rfl
  | cons xn rest ih =>
    rcases h with ⟨hd, hA⟩ | ⟨hd, hA⟩
    · rw [altD_false_cons] at hA
      have hneg : xn - x < 0 := sub_neg.mpr hA.1
      rw [revL_cons_turn _ _ _ _ (mul_neg_of_pos_of_neg hd hneg), ih _ _ (Or.inr ⟨hneg, hA.2⟩)]
    · rw [altD_true_cons] at hA
      have hpos : 0 < xn - x := sub_pos.mpr hA.1
      rw [revL_cons_turn _ _ _ _ (mul_neg_of_neg_of_pos hd hpos), ih _ _ (Or.inl ⟨hpos, hA.2⟩)]

theorem reversals_true_of_altD (up : Bool) (pts : List α) (h2 : 2 ≤ pts.length) (h : AltD up pts) :
    reversals true pts = some pts := by
  rcases pts with _ | ⟨x0, _ | ⟨x1, rest⟩⟩
  · simp at h2
  · simp at h2
  · have : revL x1 (x1 - x0) rest = x1 :: rest := by
      cases up
      · rw [altD_false_cons] at h
        exact revL_of_altD _ _ _ (Or.inr ⟨sub_neg.mpr h.1, h.2⟩)
      · rw [altD_true_cons] at h
        exact revL_of_altD _ _ _ (Or.inl ⟨sub_pos.mpr h.1, h.2⟩)
    simp only [reversals, if_true]
    rw [← revL, this]

/-! ### Refinement -/

/-- The loop depends on `d` only through its sign. -/
theorem revLoop_sign (rest : List α) (x d d' : α) (hp : 0 < d ↔ 0 < d') (hn : d < 0 ↔ d' < 0) :
    revLoop x d rest = revLoop x d' rest := by
  induction rest with
  | nil => rfl
  | cons xn rest ih =>
    by_cases he : xn = x
    · subst he; rw [revLoop_cons_eq, revLoop_cons_eq, ih]
    · have key : d * (xn - x) < 0 ↔ d' * (xn - x) < 0 := by
        rw [mul_neg_iff, mul_neg_iff, hp, hn]
      by_cases ht : d * (xn - x) < 0
      · rw [revLoop_cons_turn _ _ _ _ ht, revLoop_cons_turn _ _ _ _ (key.mp ht)]
      · rw [revLoop_cons_noturn _ _ _ _ he ht, revLoop_cons_noturn _ _ _ _ he (mt key.mpr ht)]

/-- Inserting `w` weakly between the current sample `u` and the next sample `v` changes nothing. -/
theorem revLoop_insert (u w v d : α) (post : List α) (h : min u v ≤ w ∧ w ≤ max u v) :
    revLoop u d (w :: v :: post) = revLoop u d (v :: post) := by
  by_cases hwu : w = u
  · subst hwu; rw [revLoop_cons_eq]
  by_cases hwv : w = v
  · subst hwv
    by_cases ht : d * (w - u) < 0
    · rw [revLoop_cons_turn _ _ _ _ ht, revLoop_cons_turn _ _ _ _ ht, revLoop_cons_eq]
    · rw [revLoop_cons_noturn _ _ _ _ hwu ht, revLoop_cons_noturn _ _ _ _ hwu ht, revLoop_cons_eq]
  -- strictly between
  have hvw : v ≠ w := fun e => hwv e.symm
  have hsame : (0 < w - u ↔ 0 < v - u) ∧ (w - u < 0 ↔ v - u < 0) ∧ ¬ (w - u) * (v - w) < 0 ∧
      (0 < v - w ↔ 0 < v - u) ∧ (v - w < 0 ↔ v - u < 0) := by
    rcases le_total u v with huv | huv
    · rw [min_eq_left huv, max_eq_right huv] at h
      have h1 : u < w := lt_of_le_of_ne h.1 (Ne.symm hwu)
      have h2 : w < v := lt_of_le_of_ne h.2 hwv
      have h3 : u < v := h1.trans h2
      refine ⟨⟨fun _ => by linarith, fun _ => by linarith⟩, ⟨fun _ => by linarith, fun _ => by linarith⟩, ?_, ⟨fun _ => by linarith, fun _ => by linarith⟩, ⟨fun _ => by linarith, fun _ => by linarith⟩⟩
      exact not_lt.mpr (mul_nonneg (sub_pos.mpr h1).le (sub_pos.mpr h2).le)
    · rw [min_eq_right huv, max_eq_left huv] at h
      have h1 : w < u := lt_of_le_of_ne h.2 hwu
      have h2 : v < w := lt_of_le_of_ne h.1 hvw
      have h3 : v < u := h2.trans h1
      refine ⟨⟨fun _ => by linarith, fun _ => by linarith⟩, ⟨fun _ => by linarith, fun _ => by linarith⟩, ?_, ⟨fun _ => by linarith, fun _ => by linarith⟩, ⟨fun _ => by linarith, fun _ => by linarith⟩⟩
      exact not_lt.mpr (mul_nonneg_of_nonpos_of_nonpos (sub_neg.mpr h1).le (sub_neg.mpr h2).le)
  obtain ⟨hp, hn, hnt, hp', hn'⟩ := hsame
  have hvu : v ≠ u := by
    intro e; subst e
    rcases lt_or_gt_of_ne hwu with h1 | h1
    · exact absurd (hn.mp (sub_neg.mpr h1)) (by simp)
    · exact absurd (hp.mp (sub_pos.mpr h1)) (by simp)
  have key : d * (w - u) < 0 ↔ d * (v - u) < 0 := by rw [mul_neg_iff, mul_neg_iff, hp, hn]
  by_cases ht : d * (w - u) < 0
  · rw [revLoop_cons_turn _ _ _ _ ht, revLoop_cons_turn _ _ _ _ (key.mp ht),
      revLoop_cons_noturn _ _ _ _ hvw hnt, revLoop_sign post v (v - w) (v - u) hp' hn']
  · rw [revLoop_cons_noturn _ _ _ _ hwu ht, revLoop_cons_noturn _ _ _ _ hvu (mt key.mpr ht),
      revLoop_cons_noturn _ _ _ _ hvw hnt, revLoop_sign post v (v - w) (v - u) hp' hn']

theorem revLoop_insert_pre (pre : List α) (x d u w v : α) (post : List α) (h : min u v ≤ w ∧ w ≤ max u v) :
    revLoop x d (pre ++ u :: w :: v :: post) = revLoop x d (pre ++ u :: v :: post) := by
  induction pre generalizing x d with
  | nil =>
    simp only [List.nil_append]
    by_cases he : u = x
    · subst he; rw [revLoop_cons_eq, revLoop_cons_eq, revLoop_insert _ _ _ _ _ h]
    · by_cases ht : d * (u - x) < 0
      · rw [revLoop_cons_turn _ _ _ _ ht, revLoop_cons_turn _ _ _ _ ht, revLoop_insert _ _ _ _ _ h]
      · rw [revLoop_cons_noturn _ _ _ _ he ht, revLoop_cons_noturn _ _ _ _ he ht, revLoop_insert _ _ _ _ _ h]
  | cons p pre ih =>
    simp only [List.cons_append]
    by_cases he : p = x
    · subst he; rw [revLoop_cons_eq, revLoop_cons_eq, ih]
    · by_cases ht : d * (p - x) < 0
      · rw [revLoop_cons_turn _ _ _ _ ht, revLoop_cons_turn _ _ _ _ ht, ih]
      · rw [revLoop_cons_noturn _ _ _ _ he ht, revLoop_cons_noturn _ _ _ _ he ht, ih]

/-- Insertion right after the first sample. -/
theorem revLoop_insert_first (u w v : α) (post : List α) (h : min u v ≤ w ∧ w ≤ max u v) :
    revLoop w (w - u) (v :: post) = revLoop v (v - u) post := by
  by_cases hwv : w = v
  · subst hwv; rw [revLoop_cons_eq]
  have hvw : v ≠ w := fun e => hwv e.symm
  by_cases hwu : w = u
  · subst hwu
    rw [revLoop_cons_noturn _ _ _ _ hvw (by simp)]
  have hsame : ¬ (w - u) * (v - w) < 0 ∧ (0 < v - w ↔ 0 < v - u) ∧ (v - w < 0 ↔ v - u < 0) := by
    rcases le_total u v with huv | huv
    · rw [min_eq_left huv, max_eq_right huv] at h
      have h1 : u < w := lt_of_le_of_ne h.1 (Ne.symm hwu)
      have h2 : w < v := lt_of_le_of_ne h.2 hwv
      have h3 : u < v := h1.trans h2
      refine ⟨?_, ⟨fun _ => by linarith, fun _ => by linarith⟩, ⟨fun _ => by linarith, fun _ => by linarith⟩⟩
      exact not_lt.mpr (mul_nonneg (sub_pos.mpr h1).le (sub_pos.mpr h2).le)
    · rw [min_eq_right huv, max_eq_left huv] at h
      have h1 : w < u := lt_of_le_of_ne h.2 hwu
      have h2 : v < w := lt_of_le_of_ne h.1 hvw
      have h3 : v < u := h2.trans h1
      refine ⟨?_, ⟨fun _ => by linarith, fun _ => by linarith⟩, ⟨fun _ => by linarith, fun _ => by linarith⟩⟩
      exact not_lt.mpr (mul_nonneg_of_nonpos_of_nonpos (sub_neg.mpr h1).le (sub_neg.mpr h2).le)
  rw [revLoop_cons_noturn _ _ _ _ hvw hsame.1, revLoop_sign post v (v - w) (v - u) hsame.2.1 hsame.2.2]

theorem reversals_insert (ep : Bool) (pre : List α) (u w v : α) (post : List α)
    (h : min u v ≤ w ∧ w ≤ max u v) :
    reversals ep (pre ++ u :: w :: v :: post) = reversals ep (pre ++ u :: v :: post) := by
  rcases pre with _ | ⟨p0, _ | ⟨p1, pre⟩⟩
  · simp only [List.nil_append, reversals]
    rw [revLoop_insert_first _ _ _ _ h]
  · simp only [List.cons_append, List.nil_append, reversals]
    rw [revLoop_insert _ _ _ _ _ h]
  · simp only [List.cons_append, reversals]
    rw [revLoop_insert_pre _ _ _ _ _ _ _ h]

end Qats.Rainflow
